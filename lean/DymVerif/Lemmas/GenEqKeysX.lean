/-
  Lemmas/GenEqKeysX — the regenerated translations of the x/rollapp key builders equal the model
  (`Model/KeysX`), the chain-id grammar constants and the scanned prefixes are the ones the model was
  written against, the string prefixes of the x/rollapp store are pairwise prefix-free, and the
  statement listings of the scans are pinned.
-/
import DymVerif.Gen.Keys
import DymVerif.Model.KeysX
import DymVerif.Lemmas.Bytes
namespace DymVerif.GenEq
open DymVerif DymVerif.Keys

theorem rollappKey_eq : Gen.Keys.rollappKey = rollappKey := by
  funext r; simp [Gen.Keys.rollappKey, rollappKey, sep]
theorem latestStateInfoIndexKey_eq : Gen.Keys.latestStateInfoIndexKey = latestStateInfoIndexKey := by
  funext r; simp [Gen.Keys.latestStateInfoIndexKey, latestStateInfoIndexKey, sep]
theorem latestFinalizedStateIndexKey_eq : Gen.Keys.latestFinalizedStateIndexKey = latestFinalizedStateIndexKey := by
  funext r; simp [Gen.Keys.latestFinalizedStateIndexKey, latestFinalizedStateIndexKey, sep]
theorem blockHeightToFinalizationQueueKey_eq : Gen.Keys.blockHeightToFinalizationQueueKey = blockHeightToFinalizationQueueKey := by
  funext h; simp [Gen.Keys.blockHeightToFinalizationQueueKey, blockHeightToFinalizationQueueKey, sep]
theorem rollappByEIP155Key_eq : Gen.Keys.rollappByEIP155Key = rollappByEIP155Key := by
  funext h; simp [Gen.Keys.rollappByEIP155Key, rollappByEIP155Key, sep]
theorem rollappAppKeyPrefix_eq : Gen.Keys.rollappAppKeyPrefix = rollappAppKeyPrefix := by
  funext r; simp [Gen.Keys.rollappAppKeyPrefix, rollappAppKeyPrefix, sep]
theorem stateInfoKey_eq : Gen.Keys.stateInfoKey = stateInfoKey := by
  funext r i; simp [Gen.Keys.stateInfoKey, stateInfoKey, sep]
theorem appKey_eq : Gen.Keys.appKey = appKey := by
  funext r i; simp [Gen.Keys.appKey, appKey, sep]

/-- the demand-order status prefixes scanned by `ListDemandOrdersByStatus` -/
theorem demandOrderStatusPrefixes_eq :
    Gen.Keys.pendingDemandOrderKeyPrefix = demandOrdersByStatusPrefix .pending ∧
    Gen.Keys.finalizedDemandOrderKeyPrefix = demandOrdersByStatusPrefix .finalized := ⟨rfl, rfl⟩

/-- `LivenessEventQueueKeyPrefix` is the literal `Keys.livenessIterHeightKey` starts with -/
theorem livenessEventQueueKeyPrefix_eq (h : Nat) :
    livenessIterHeightKey h = Gen.Keys.livenessEventQueueKeyPrefix ++ [sep] ++ be64 h := rfl

/-- the grammar `Keys.validRollappId` was written against: `^([a-z]{1,})_{1}([1-9][0-9]*)-{1}([1-9][0-9]*)$` -/
theorem chainIdRegex_pin :
    Gen.Keys.regexChainID = [91, 97, 45, 122, 93, 123, 49, 44, 125] /- "[a-z]{1,}" -/ ∧
    Gen.Keys.regexEIP155Separator = [95, 123, 49, 125] /- "_{1}" -/ ∧
    Gen.Keys.regexEIP155 = [91, 49, 45, 57, 93, 91, 48, 45, 57, 93, 42] /- "[1-9][0-9]*" -/ ∧
    Gen.Keys.regexEpochSeparator = [45, 123, 49, 125] /- "-{1}" -/ ∧
    Gen.Keys.regexEpoch = [91, 49, 45, 57, 93, 91, 48, 45, 57, 93, 42] /- "[1-9][0-9]*" -/ := ⟨rfl, rfl, rfl, rfl, rfl⟩

/-- the string prefixes under which the x/rollapp module files its key families -/
def rollappStorePrefixes : List Bytes :=
  [Gen.Keys.rollappKeyPrefix, Gen.Keys.rollappByEIP155KeyPrefix, Gen.Keys.stateInfoKeyPrefix,
   Gen.Keys.latestStateInfoIndexKeyPrefix, Gen.Keys.latestFinalizedStateIndexKeyPrefix,
   Gen.Keys.blockHeightToFinalizationQueueKeyPrefix, Gen.Keys.heightRollappToFinalizationQueueKeyPrefix,
   Gen.Keys.rollappHeightToFinalizationQueueKeyPrefix, Gen.Keys.appKeyPrefix, Gen.Keys.appSequenceKeyPrefix,
   Gen.Keys.obsoleteDRSVersionsKeyPrefix, Gen.Keys.keyRegisteredDenomPrefix,
   Gen.Keys.livenessEventQueueKeyPrefix ++ [sep], Gen.Keys.collSeqToUnfinalizedHeightPrefix]

/-- family disjointness of the x/rollapp store: no family prefix is a byte prefix of another, so a
    scan of one family (whatever follows the prefix) never returns a key of another family -/
theorem rollapp_store_prefixes_prefix_free :
    ∀ i, i < rollappStorePrefixes.length → ∀ j, j < rollappStorePrefixes.length → i ≠ j →
      isPrefix (rollappStorePrefixes.getD i []) (rollappStorePrefixes.getD j []) = false := by decide

theorem newChainID_pin : Gen.Keys.newChainIDListing =
  ["func NewChainID(id string) (ChainID, error)",
   "  chainID := strings.TrimSpace(id)",
   "  if chainID == \"\"",
   "    return ChainID{}, ErrInvalidRollappID",
   "  if len(chainID) > types.MaxChainIDLen",
   "    return ChainID{}, ErrInvalidRollappID",
   "  matches := ethermintChainID.FindStringSubmatch(chainID)",
   "  if matches == nil || len(matches) != 4 || matches[1] == \"\"",
   "    return ChainID{}, ErrInvalidRollappID",
   "  chainIDInt, ok := new(big.Int).SetString(matches[2], 10)",
   "  if !ok",
   "    return ChainID{}, ErrInvalidRollappID",
   "  revision, err := strconv.ParseUint(matches[3], 0, 64)",
   "  if err != nil",
   "    return ChainID{}, ErrInvalidRollappID",
   "  return ChainID{chainID: chainID, eip155ID: chainIDInt, revision: revision, name: matches[1]}, nil"] := rfl

theorem getRollappByName_pin : Gen.Keys.getRollappByNameListing =
  ["func (k Keeper) GetRollappByName(ctx sdk.Context, name string) (val types.Rollapp, found bool)",
   "  name = name + \"_\"",
   "  store := prefix.NewStore(ctx.KVStore(k.storeKey), types.KeyPrefix(types.RollappKeyPrefix))",
   "  iterator := storetypes.KVStorePrefixIterator(store, []byte(name))",
   "  defer iterator.Close()",
   "  if !iterator.Valid()",
   "    return val, false",
   "  k.cdc.MustUnmarshal(iterator.Value(), &val)",
   "  return val, true"] := rfl

theorem getLivenessEvents_pin : Gen.Keys.getLivenessEventsListing =
  ["func (k Keeper) GetLivenessEvents(ctx sdk.Context, height *int64) []types.LivenessEvent",
   "  store := ctx.KVStore(k.storeKey)",
   "  key := types.LivenessEventQueueKeyPrefix",
   "  if height != nil",
   "    key = types.LivenessEventQueueIterHeightKey(*height)",
   "  iterator := storetypes.KVStorePrefixIterator(store, key)",
   "  defer iterator.Close()",
   "  ret := []types.LivenessEvent{}",
   "  for ; iterator.Valid(); iterator.Next()",
   "    e := types.LivenessEventQueueKeyToEvent(iterator.Key())",
   "    if height != nil && *height < e.HubHeight",
   "      break",
   "    ret = append(ret, e)",
   "  return ret"] := rfl

theorem listDemandOrdersByStatus_pin : Gen.Keys.listDemandOrdersByStatusListing =
  ["func (k Keeper) ListDemandOrdersByStatus(ctx sdk.Context, status commontypes.Status, limit int, opts ...filterOption) (list []*types.DemandOrder, err error)",
   "  store := ctx.KVStore(k.storeKey)",
   "  var statusPrefix []byte",
   "  switch status",
   "    case commontypes.Status_PENDING",
   "      statusPrefix = types.PendingDemandOrderKeyPrefix",
   "    case commontypes.Status_FINALIZED",
   "      statusPrefix = types.FinalizedDemandOrderKeyPrefix",
   "    default",
   "      return nil, fmt.Errorf(status)",
   "  iterator := storetypes.KVStorePrefixIterator(store, statusPrefix)",
   "  defer iterator.Close()",
   "  outer:",
   "  for ; iterator.Valid(); iterator.Next()",
   "    if limit > 0 && len(list) >= limit",
   "      break",
   "    var val types.DemandOrder",
   "    k.cdc.MustUnmarshal(iterator.Value(), &val)",
   "    for _, opt := range opts",
   "      if !opt(val)",
   "        continue outer",
   "    list = append(list, &val)",
   "  return list, nil"] := rfl

theorem rollappSequencers_pin : Gen.Keys.rollappSequencersListing =
  ["func (k Keeper) RollappSequencers(ctx sdk.Context, rollappId string) []types.Sequencer",
   "  return k.prefixSequencers(ctx, types.SequencersByRollappKey(rollappId))"] := rfl

theorem rollappSequencersByStatus_pin : Gen.Keys.rollappSequencersByStatusListing =
  ["func (k Keeper) RollappSequencersByStatus(ctx sdk.Context, rollappId string, status types.OperatingStatus) []types.Sequencer",
   "  return k.prefixSequencers(ctx, types.SequencersByRollappByStatusKey(rollappId, status))"] := rfl

theorem prefixSequencers_pin : Gen.Keys.prefixSequencersListing =
  ["func (k Keeper) prefixSequencers(ctx sdk.Context, prefixKey []byte) []types.Sequencer",
   "  store := prefix.NewStore(ctx.KVStore(k.storeKey), prefixKey)",
   "  it := storetypes.KVStorePrefixIterator(store, []byte{})",
   "  defer it.Close()",
   "  var ret []types.Sequencer",
   "  for ; it.Valid(); it.Next()",
   "    var val types.Sequencer",
   "    k.cdc.MustUnmarshal(it.Value(), &val)",
   "    ret = append(ret, val)",
   "  return ret"] := rfl

end DymVerif.GenEq
