/-
  Lemmas/GenEqSkEibcT — tie 1 for C19 C05 (Model/Keys.lean, Model/Packets.lean): the normalised statement listing (translate/skel.go `listing`:
  every `if` / `for` / `switch` header, call, assignment and `return` in source order; comments, logging,
  events and error-message texts dropped) of EVERY function with a body in the files the property is
  anchored in, regenerated from /repo's working tree on every run (Gen/SkEibcT.lean), equals the listing
  the model was written and validated against.  A dropped or weakened guard, a reordered effect, a
  changed operand, a new early return, a new or vanished function breaks the corresponding lemma; the
  check then searches for a failing input with the harness' monitors (DESIGN.md §12.2).
-/
import DymVerif.Gen.SkEibcT
namespace DymVerif.GenEqSk.EibcT

/-- `BuildDemandIDFromPacketKey` -/
theorem t_BuildDemandIDFromPacketKey_listing : Gen.SkEibcT.t_BuildDemandIDFromPacketKey =
  ["func BuildDemandIDFromPacketKey(packetKey string) string",
   "  hash := sha256.Sum256([]byte(packetKey))",
   "  hashString := hex.EncodeToString(hash[:])",
   "  return hashString"] := rfl

/-- `DemandOrder.Denom` -/
theorem t_DemandOrder_Denom_listing : Gen.SkEibcT.t_DemandOrder_Denom =
  ["func (m *DemandOrder) Denom() string",
   "  return m.Price[0].Denom"] := rfl

/-- `DemandOrder.GetCreatedEvent` -/
theorem t_DemandOrder_GetCreatedEvent_listing : Gen.SkEibcT.t_DemandOrder_GetCreatedEvent =
  ["func (m *DemandOrder) GetCreatedEvent(proofHeight uint64, amount string) *EventDemandOrderCreated",
   "  packetKey := base64.StdEncoding.EncodeToString([]byte(m.TrackingPacketKey))",
   "  return &EventDemandOrderCreated{OrderId: m.Id, Price: m.Price.String(), Fee: m.Fee.String(), PacketStatus: m.TrackingPacketStatus.String(), PacketKey: packetKey, RollappId: m.RollappId, Recipient: m.Recipient, PacketType: m.Type.String(), ProofHeight: proofHeight, Amount: amount}"] := rfl

/-- `DemandOrder.GetFeeAmount` -/
theorem t_DemandOrder_GetFeeAmount_listing : Gen.SkEibcT.t_DemandOrder_GetFeeAmount =
  ["func (m *DemandOrder) GetFeeAmount() math.Int",
   "  return m.Fee.AmountOf(m.Price[0].Denom)"] := rfl

/-- `DemandOrder.GetFulfilledAuthorizedEvent` -/
theorem t_DemandOrder_GetFulfilledAuthorizedEvent_listing : Gen.SkEibcT.t_DemandOrder_GetFulfilledAuthorizedEvent =
  ["func (m *DemandOrder) GetFulfilledAuthorizedEvent(creationHeight uint64, lpAddress, operatorAddress, operatorFee string) *EventDemandOrderFulfilledAuthorized",
   "  return &EventDemandOrderFulfilledAuthorized{OrderId: m.Id, Price: m.Price.String(), Fee: m.Fee.String(), IsFulfilled: true, PacketStatus: m.TrackingPacketStatus.String(), Fulfiller: m.FulfillerAddress, PacketType: m.Type.String(), CreationHeight: creationHeight, LpAddress: lpAddress, OperatorAddress: operatorAddress, OperatorFee: operatorFee}"] := rfl

/-- `DemandOrder.GetFulfilledEvent` -/
theorem t_DemandOrder_GetFulfilledEvent_listing : Gen.SkEibcT.t_DemandOrder_GetFulfilledEvent =
  ["func (m *DemandOrder) GetFulfilledEvent() *EventDemandOrderFulfilled",
   "  return &EventDemandOrderFulfilled{OrderId: m.Id, Price: m.Price.String(), Fee: m.Fee.String(), IsFulfilled: true, PacketStatus: m.TrackingPacketStatus.String(), Fulfiller: m.FulfillerAddress, PacketType: m.Type.String()}"] := rfl

/-- `DemandOrder.GetPacketStatusUpdatedEvent` -/
theorem t_DemandOrder_GetPacketStatusUpdatedEvent_listing : Gen.SkEibcT.t_DemandOrder_GetPacketStatusUpdatedEvent =
  ["func (m *DemandOrder) GetPacketStatusUpdatedEvent() *EventDemandOrderPacketStatusUpdated",
   "  return &EventDemandOrderPacketStatusUpdated{OrderId: m.Id, NewPacketStatus: m.TrackingPacketStatus, IsFulfilled: m.IsFulfilled()}"] := rfl

/-- `DemandOrder.GetRecipientBech32Address` -/
theorem t_DemandOrder_GetRecipientBech32Address_listing : Gen.SkEibcT.t_DemandOrder_GetRecipientBech32Address =
  ["func (m *DemandOrder) GetRecipientBech32Address() sdk.AccAddress",
   "  recipientBech32, err := sdk.AccAddressFromBech32(m.Recipient)",
   "  if err != nil",
   "    panic(ErrInvalidRecipientAddress)",
   "  return recipientBech32"] := rfl

/-- `DemandOrder.GetUpdatedEvent` -/
theorem t_DemandOrder_GetUpdatedEvent_listing : Gen.SkEibcT.t_DemandOrder_GetUpdatedEvent =
  ["func (m *DemandOrder) GetUpdatedEvent(proofHeight uint64, amount string) *EventDemandOrderFeeUpdated",
   "  return &EventDemandOrderFeeUpdated{OrderId: m.Id, NewFee: m.Fee.String(), Price: m.Price.String(), PacketStatus: m.TrackingPacketStatus.String(), RollappId: m.RollappId, ProofHeight: proofHeight, Amount: amount}"] := rfl

/-- `DemandOrder.IsFulfilled` -/
theorem t_DemandOrder_IsFulfilled_listing : Gen.SkEibcT.t_DemandOrder_IsFulfilled =
  ["func (m *DemandOrder) IsFulfilled() bool",
   "  return m.FulfillerAddress != \"\" || m.DeprecatedIsFulfilled"] := rfl

/-- `DemandOrder.PriceAmount` -/
theorem t_DemandOrder_PriceAmount_listing : Gen.SkEibcT.t_DemandOrder_PriceAmount =
  ["func (m *DemandOrder) PriceAmount() math.Int",
   "  return m.Price[0].Amount"] := rfl

/-- `DemandOrder.Validate` -/
theorem t_DemandOrder_Validate_listing : Gen.SkEibcT.t_DemandOrder_Validate =
  ["func (m *DemandOrder) Validate() error",
   "  err := m.ValidateBasic()",
   "  if err != nil",
   "    return err",
   "  return nil"] := rfl

/-- `DemandOrder.ValidateBasic` -/
theorem t_DemandOrder_ValidateBasic_listing : Gen.SkEibcT.t_DemandOrder_ValidateBasic =
  ["func (m *DemandOrder) ValidateBasic() error",
   "  if len(m.Price) > 1 || len(m.Fee) > 1",
   "    return ErrMultipleDenoms",
   "  if len(m.Price) == 0",
   "    return ErrEmptyPrice",
   "  denom := m.Price[0].Denom",
   "  if len(m.Fee) != 0 && m.Fee[0].Denom != denom",
   "    return ErrMultipleDenoms",
   "  err := ibctransfertypes.ValidatePrefixedDenom(denom)",
   "  if err != nil",
   "    return err",
   "  err := m.Price.Validate()",
   "  if err != nil",
   "    return err",
   "  err := m.Fee.Validate()",
   "  if err != nil",
   "    return err",
   "  _, err := sdk.AccAddressFromBech32(m.Recipient)",
   "  if err != nil",
   "    return errors.Join(ErrInvalidRecipientAddress, err)",
   "  if m.CreationHeight == 0",
   "    return ErrInvalidCreationHeight",
   "  return nil"] := rfl

/-- `DemandOrder.ValidateOrderIsOutstanding` -/
theorem t_DemandOrder_ValidateOrderIsOutstanding_listing : Gen.SkEibcT.t_DemandOrder_ValidateOrderIsOutstanding =
  ["func (m *DemandOrder) ValidateOrderIsOutstanding() error",
   "  if m.IsFulfilled()",
   "    return ErrDemandAlreadyFulfilled",
   "  if m.TrackingPacketStatus != commontypes.Status_PENDING",
   "    return ErrDemandOrderInactive",
   "  return nil"] := rfl

/-- `NewDemandOrder` -/
theorem t_NewDemandOrder_listing : Gen.SkEibcT.t_NewDemandOrder =
  ["func NewDemandOrder(rollappPacket commontypes.RollappPacket, price, fee math.Int, denom, recipient string, creationHeight uint64) *DemandOrder",
   "  rollappPacketKey := rollappPacket.RollappPacketKey()",
   "  return &DemandOrder{Id: BuildDemandIDFromPacketKey(string(rollappPacketKey)), TrackingPacketKey: string(rollappPacketKey), Price: sdk.NewCoins(sdk.NewCoin(denom, price)), Fee: sdk.NewCoins(sdk.NewCoin(denom, fee)), Recipient: recipient, TrackingPacketStatus: commontypes.Status_PENDING, RollappId: rollappPacket.RollappId, Type: rollappPacket.Type, CreationHeight: creationHeight}"] := rfl

/-- `ByRollappID` -/
theorem da_ByRollappID_listing : Gen.SkEibcT.da_ByRollappID =
  ["func ByRollappID(rollappID string) RollappPacketListFilter",
   "  return ByRollappIDByStatus(rollappID, commontypes.Status_PENDING, commontypes.Status_FINALIZED)"] := rfl

/-- `ByRollappIDByStatus` -/
theorem da_ByRollappIDByStatus_listing : Gen.SkEibcT.da_ByRollappIDByStatus =
  ["func ByRollappIDByStatus(rollappID string, status ...commontypes.Status) RollappPacketListFilter",
   "  prefixes := make([]Prefix, len(status))",
   "  for i, s := range status",
   "    prefixes[i] = Prefix{Start: commontypes.RollappPacketByStatusByRollappIDPrefix(s, rollappID)}",
   "  return RollappPacketListFilter{Prefixes: prefixes, FilterFunc: bypassFilter}"] := rfl

/-- `ByRollappIDByTypeByStatus` -/
theorem da_ByRollappIDByTypeByStatus_listing : Gen.SkEibcT.da_ByRollappIDByTypeByStatus =
  ["func ByRollappIDByTypeByStatus(rollappID string, packetType commontypes.RollappPacket_Type, status ...commontypes.Status) RollappPacketListFilter",
   "  filter := ByRollappIDByStatus(rollappID, status...)",
   "  if packetType != commontypes.RollappPacket_UNDEFINED",
   "    filter.FilterFunc = func#1",
   "      func#1 (packet commontypes.RollappPacket) bool",
   "        return packet.Type == packetType",
   "  return filter"] := rfl

/-- `ByStatus` -/
theorem da_ByStatus_listing : Gen.SkEibcT.da_ByStatus =
  ["func ByStatus(status ...commontypes.Status) RollappPacketListFilter",
   "  prefixes := make([]Prefix, len(status))",
   "  for i, s := range status",
   "    prefixes[i] = Prefix{Start: commontypes.RollappPacketByStatusPrefix(s)}",
   "  return RollappPacketListFilter{Prefixes: prefixes, FilterFunc: bypassFilter}"] := rfl

/-- `ByTypeByStatus` -/
theorem da_ByTypeByStatus_listing : Gen.SkEibcT.da_ByTypeByStatus =
  ["func ByTypeByStatus(packetType commontypes.RollappPacket_Type, status ...commontypes.Status) RollappPacketListFilter",
   "  filter := ByStatus(status...)",
   "  if packetType != commontypes.RollappPacket_UNDEFINED",
   "    filter.FilterFunc = func#1",
   "      func#1 (packet commontypes.RollappPacket) bool",
   "        return packet.Type == packetType",
   "  return filter"] := rfl

/-- `MsgFinalizePacket.GetSigners` -/
theorem da_MsgFinalizePacket_GetSigners_listing : Gen.SkEibcT.da_MsgFinalizePacket_GetSigners =
  ["func (m MsgFinalizePacket) GetSigners() []sdk.AccAddress",
   "  signer, _ := sdk.AccAddressFromBech32(m.Sender)",
   "  return []sdk.AccAddress{signer}"] := rfl

/-- `MsgFinalizePacket.PendingPacketKey` -/
theorem da_MsgFinalizePacket_PendingPacketKey_listing : Gen.SkEibcT.da_MsgFinalizePacket_PendingPacketKey =
  ["func (m MsgFinalizePacket) PendingPacketKey() []byte",
   "  return commontypes.RollappPacketKey(commontypes.Status_PENDING, m.RollappId, m.PacketProofHeight, m.PacketType, m.PacketSrcChannel, m.PacketSequence)"] := rfl

/-- `MsgFinalizePacket.Route` -/
theorem da_MsgFinalizePacket_Route_listing : Gen.SkEibcT.da_MsgFinalizePacket_Route =
  ["func (m *MsgFinalizePacket) Route() string",
   "  return RouterKey"] := rfl

/-- `MsgFinalizePacket.Type` -/
theorem da_MsgFinalizePacket_Type_listing : Gen.SkEibcT.da_MsgFinalizePacket_Type =
  ["func (m *MsgFinalizePacket) Type() string",
   "  return TypeMsgFinalizedPacket"] := rfl

/-- `MsgFinalizePacket.ValidateBasic` -/
theorem da_MsgFinalizePacket_ValidateBasic_listing : Gen.SkEibcT.da_MsgFinalizePacket_ValidateBasic =
  ["func (m MsgFinalizePacket) ValidateBasic() error",
   "  _, err := sdk.AccAddressFromBech32(m.Sender)",
   "  if err != nil",
   "    return errors.Join(sdkerrors.ErrInvalidAddress, err)",
   "  if len(m.RollappId) == 0",
   "    return gerrc.ErrInvalidArgument",
   "  if len(m.PacketSrcChannel) == 0",
   "    return gerrc.ErrInvalidArgument",
   "  return nil"] := rfl

/-- `MsgFinalizePacketByPacketKey.GetSigners` -/
theorem da_MsgFinalizePacketByPacketKey_GetSigners_listing : Gen.SkEibcT.da_MsgFinalizePacketByPacketKey_GetSigners =
  ["func (m MsgFinalizePacketByPacketKey) GetSigners() []sdk.AccAddress",
   "  signer, _ := sdk.AccAddressFromBech32(m.Sender)",
   "  return []sdk.AccAddress{signer}"] := rfl

/-- `MsgFinalizePacketByPacketKey.MustDecodePacketKey` -/
theorem da_MsgFinalizePacketByPacketKey_MustDecodePacketKey_listing : Gen.SkEibcT.da_MsgFinalizePacketByPacketKey_MustDecodePacketKey =
  ["func (m MsgFinalizePacketByPacketKey) MustDecodePacketKey() []byte",
   "  packetKey, err := commontypes.DecodePacketKey(m.PacketKey)",
   "  if err != nil",
   "    panic()",
   "  return packetKey"] := rfl

/-- `MsgFinalizePacketByPacketKey.Route` -/
theorem da_MsgFinalizePacketByPacketKey_Route_listing : Gen.SkEibcT.da_MsgFinalizePacketByPacketKey_Route =
  ["func (m *MsgFinalizePacketByPacketKey) Route() string",
   "  return RouterKey"] := rfl

/-- `MsgFinalizePacketByPacketKey.Type` -/
theorem da_MsgFinalizePacketByPacketKey_Type_listing : Gen.SkEibcT.da_MsgFinalizePacketByPacketKey_Type =
  ["func (m *MsgFinalizePacketByPacketKey) Type() string",
   "  return TypeMsgFinalizedPacketByPacketKey"] := rfl

/-- `MsgFinalizePacketByPacketKey.ValidateBasic` -/
theorem da_MsgFinalizePacketByPacketKey_ValidateBasic_listing : Gen.SkEibcT.da_MsgFinalizePacketByPacketKey_ValidateBasic =
  ["func (m MsgFinalizePacketByPacketKey) ValidateBasic() error",
   "  _, err := sdk.AccAddressFromBech32(m.Sender)",
   "  if err != nil",
   "    return errors.Join(sdkerrors.ErrInvalidAddress, err)",
   "  if len(m.PacketKey) == 0",
   "    return gerrc.ErrInvalidArgument",
   "  _, err := commontypes.DecodePacketKey(m.PacketKey)",
   "  if err != nil",
   "    return gerrc.ErrInvalidArgument",
   "  return nil"] := rfl

/-- `PendingByRollappIDByMaxHeight` -/
theorem da_PendingByRollappIDByMaxHeight_listing : Gen.SkEibcT.da_PendingByRollappIDByMaxHeight =
  ["func PendingByRollappIDByMaxHeight(rollappID string, maxProofHeight uint64) RollappPacketListFilter",
   "  status := commontypes.Status_PENDING",
   "  return RollappPacketListFilter{Prefixes: []Prefix{{Start: commontypes.RollappPacketByStatusByRollappIDByProofHeightPrefix(rollappID, status, 0), End: commontypes.RollappPacketByStatusByRollappIDByProofHeightPrefix(rollappID, status, maxProofHeight+1)}}, FilterFunc: bypassFilter}"] := rfl

/-- `PendingByRollappIDFromHeight` -/
theorem da_PendingByRollappIDFromHeight_listing : Gen.SkEibcT.da_PendingByRollappIDFromHeight =
  ["func PendingByRollappIDFromHeight(rollappID string, fromHeight uint64) RollappPacketListFilter",
   "  return RollappPacketListFilter{Prefixes: []Prefix{{Start: commontypes.RollappPacketByStatusByRollappIDByProofHeightPrefix(rollappID, commontypes.Status_PENDING, fromHeight), End: commontypes.RollappPacketByStatusByRollappIDByProofHeightPrefix(rollappID, commontypes.Status_PENDING, math.MaxUint64)}}, FilterFunc: bypassFilter}"] := rfl

/-- `RollappPacketListFilter.Take` -/
theorem da_RollappPacketListFilter_Take_listing : Gen.SkEibcT.da_RollappPacketListFilter_Take =
  ["func (f RollappPacketListFilter) Take(limit int) RollappPacketListFilter",
   "  f.Limit = limit",
   "  return f"] := rfl

/-- `DecodePacketKey` -/
theorem cm_DecodePacketKey_listing : Gen.SkEibcT.cm_DecodePacketKey =
  ["func DecodePacketKey(packetKey string) ([]byte, error)",
   "  rollappPacketKeyBytes := make([]byte, base64.StdEncoding.DecodedLen(len(packetKey)))",
   "  n, err := base64.StdEncoding.Decode(rollappPacketKeyBytes, []byte(packetKey))",
   "  if err != nil",
   "    return nil, err",
   "  return rollappPacketKeyBytes[:n], nil"] := rfl

/-- `EncodePacketKey` -/
theorem cm_EncodePacketKey_listing : Gen.SkEibcT.cm_EncodePacketKey =
  ["func EncodePacketKey(packetKey []byte) string",
   "  rollappPacketKeyBytes := make([]byte, base64.StdEncoding.EncodedLen(len(packetKey)))",
   "  base64.StdEncoding.Encode(rollappPacketKeyBytes, packetKey)",
   "  return string(rollappPacketKeyBytes)"] := rfl

/-- `MustGetStatusBytes` -/
theorem cm_MustGetStatusBytes_listing : Gen.SkEibcT.cm_MustGetStatusBytes =
  ["func MustGetStatusBytes(status Status) []byte",
   "  switch status",
   "    case Status_PENDING",
   "      return PendingRollappPacketKeyPrefix",
   "    case Status_FINALIZED",
   "      return FinalizedRollappPacketKeyPrefix",
   "    default",
   "      panic()"] := rfl

/-- `RollappPacket.RollappPacketKey` -/
theorem cm_RollappPacket_RollappPacketKey_listing : Gen.SkEibcT.cm_RollappPacket_RollappPacketKey =
  ["func (p *RollappPacket) RollappPacketKey() []byte",
   "  return RollappPacketKey(p.Status, p.RollappId, p.ProofHeight, p.Type, p.Packet.SourceChannel, p.Packet.Sequence)"] := rfl

/-- `RollappPacketByRollappIDPrefix` -/
theorem cm_RollappPacketByRollappIDPrefix_listing : Gen.SkEibcT.cm_RollappPacketByRollappIDPrefix =
  ["func RollappPacketByRollappIDPrefix(rollappID string) []byte",
   "  return append([]byte(rollappID), keySeparatorBytes...)"] := rfl

/-- `RollappPacketByStatusByRollappIDByProofHeightPrefix` -/
theorem cm_RollappPacketByStatusByRollappIDByProofHeightPrefix_listing : Gen.SkEibcT.cm_RollappPacketByStatusByRollappIDByProofHeightPrefix =
  ["func RollappPacketByStatusByRollappIDByProofHeightPrefix(rollappID string, status Status, proofHeight uint64) []byte",
   "  return append(RollappPacketByStatusByRollappIDPrefix(status, rollappID), sdk.Uint64ToBigEndian(proofHeight)...)"] := rfl

/-- `RollappPacketByStatusByRollappIDPrefix` -/
theorem cm_RollappPacketByStatusByRollappIDPrefix_listing : Gen.SkEibcT.cm_RollappPacketByStatusByRollappIDPrefix =
  ["func RollappPacketByStatusByRollappIDPrefix(status Status, rollappID string) (result []byte)",
   "  return append(RollappPacketByStatusPrefix(status), RollappPacketByRollappIDPrefix(rollappID)...)"] := rfl

/-- `RollappPacketByStatusPrefix` -/
theorem cm_RollappPacketByStatusPrefix_listing : Gen.SkEibcT.cm_RollappPacketByStatusPrefix =
  ["func RollappPacketByStatusPrefix(status Status) []byte",
   "  return append(MustGetStatusBytes(status), keySeparatorBytes...)"] := rfl

/-- `RollappPacketKey` -/
theorem cm_RollappPacketKey_listing : Gen.SkEibcT.cm_RollappPacketKey =
  ["func RollappPacketKey(status Status, rollappID string, proofHeight uint64, packetType RollappPacket_Type, packetSrcChannel string, packetSequence uint64) []byte",
   "  srppPrefix := RollappPacketByStatusByRollappIDByProofHeightPrefix(rollappID, status, proofHeight)",
   "  packetTypeBytes := []byte(packetType.String())",
   "  packetSequenceBytes := sdk.Uint64ToBigEndian(packetSequence)",
   "  packetSourceChannelBytes := []byte(packetSrcChannel)",
   "  result := append(srppPrefix, keySeparatorBytes...)",
   "  result = append(result, packetTypeBytes...)",
   "  result = append(result, keySeparatorBytes...)",
   "  result = append(result, packetSourceChannelBytes...)",
   "  result = append(result, keySeparatorBytes...)",
   "  result = append(result, packetSequenceBytes...)",
   "  return result"] := rfl

/-- `every function with a body in the listed files, sorted per package` -/
theorem inventory_listing : Gen.SkEibcT.inventory =
  ["t_BuildDemandIDFromPacketKey",
   "t_DemandOrder_Denom",
   "t_DemandOrder_GetCreatedEvent",
   "t_DemandOrder_GetFeeAmount",
   "t_DemandOrder_GetFulfilledAuthorizedEvent",
   "t_DemandOrder_GetFulfilledEvent",
   "t_DemandOrder_GetPacketStatusUpdatedEvent",
   "t_DemandOrder_GetRecipientBech32Address",
   "t_DemandOrder_GetUpdatedEvent",
   "t_DemandOrder_IsFulfilled",
   "t_DemandOrder_PriceAmount",
   "t_DemandOrder_Validate",
   "t_DemandOrder_ValidateBasic",
   "t_DemandOrder_ValidateOrderIsOutstanding",
   "t_NewDemandOrder",
   "da_ByRollappID",
   "da_ByRollappIDByStatus",
   "da_ByRollappIDByTypeByStatus",
   "da_ByStatus",
   "da_ByTypeByStatus",
   "da_MsgFinalizePacket_GetSigners",
   "da_MsgFinalizePacket_PendingPacketKey",
   "da_MsgFinalizePacket_Route",
   "da_MsgFinalizePacket_Type",
   "da_MsgFinalizePacket_ValidateBasic",
   "da_MsgFinalizePacketByPacketKey_GetSigners",
   "da_MsgFinalizePacketByPacketKey_MustDecodePacketKey",
   "da_MsgFinalizePacketByPacketKey_Route",
   "da_MsgFinalizePacketByPacketKey_Type",
   "da_MsgFinalizePacketByPacketKey_ValidateBasic",
   "da_PendingByRollappIDByMaxHeight",
   "da_PendingByRollappIDFromHeight",
   "da_RollappPacketListFilter_Take",
   "cm_DecodePacketKey",
   "cm_EncodePacketKey",
   "cm_MustGetStatusBytes",
   "cm_RollappPacket_RollappPacketKey",
   "cm_RollappPacketByRollappIDPrefix",
   "cm_RollappPacketByStatusByRollappIDByProofHeightPrefix",
   "cm_RollappPacketByStatusByRollappIDPrefix",
   "cm_RollappPacketByStatusPrefix",
   "cm_RollappPacketKey"] := rfl

end DymVerif.GenEqSk.EibcT
