/-
  Lemmas/GenEqSkIncent — tie 1 for C15 (M-Incent, Model/Incent.lean): the normalised statement listing (translate/skel.go `listing`:
  every `if` / `for` / `switch` header, call, assignment and `return` in source order; comments, logging,
  events and error-message texts dropped) of EVERY function with a body in the files the property is
  anchored in, regenerated from /repo's working tree on every run (Gen/SkIncent.lean), equals the listing
  the model was written and validated against.  A dropped or weakened guard, a reordered effect, a
  changed operand, a new early return, a new or vanished function breaks the corresponding lemma; the
  check then searches for a failing input with the harness' monitors (DESIGN.md §12.2).
-/
import DymVerif.Gen.SkIncent
namespace DymVerif.GenEqSk.Incent

/-- `Hooks.AfterEpochEnd` -/
theorem inc_Hooks_AfterEpochEnd_listing : Gen.SkIncent.inc_Hooks_AfterEpochEnd =
  ["func (h Hooks) AfterEpochEnd(ctx sdk.Context, epochIdentifier string, epochNumber int64) error",
   "  return h.k.AfterEpochEnd(ctx, epochIdentifier, epochNumber)"] := rfl

/-- `Hooks.BeforeEpochStart` -/
theorem inc_Hooks_BeforeEpochStart_listing : Gen.SkIncent.inc_Hooks_BeforeEpochStart =
  ["func (h Hooks) BeforeEpochStart(ctx sdk.Context, epochIdentifier string, epochNumber int64) error",
   "  return h.k.BeforeEpochStart(ctx, epochIdentifier, epochNumber)"] := rfl

/-- `Keeper.AddToGaugeRewards` -/
theorem inc_Keeper_AddToGaugeRewards_listing : Gen.SkIncent.inc_Keeper_AddToGaugeRewards =
  ["func (k Keeper) AddToGaugeRewards(ctx sdk.Context, owner sdk.AccAddress, coins sdk.Coins, gauge *types.Gauge) error",
   "  if gauge.IsFinishedGauge(ctx.BlockTime())",
   "    return types.UnexpectedFinishedGaugeError{GaugeId: gauge.Id}",
   "  err := k.bk.SendCoinsFromAccountToModule(ctx, owner, types.ModuleName, coins)",
   "  if err != nil",
   "    return err",
   "  gauge.Coins = gauge.Coins.Add(coins...)",
   "  err := k.setGauge(ctx, gauge)",
   "  if err != nil",
   "    return err",
   "  k.hooks.AfterAddToGauge(ctx, gauge.Id)",
   "  return nil"] := rfl

/-- `Keeper.AfterEpochEnd` -/
theorem inc_Keeper_AfterEpochEnd_listing : Gen.SkIncent.inc_Keeper_AfterEpochEnd =
  ["func (k Keeper) AfterEpochEnd(ctx sdk.Context, epochIdentifier string, epochNumber int64) error",
   "  params := k.GetParams(ctx)",
   "  if epochIdentifier == params.DistrEpochIdentifier",
   "    gauges := k.GetUpcomingGauges(ctx)",
   "    for _, gauge := range gauges",
   "      if !ctx.BlockTime().Before(gauge.StartTime)",
   "        err := k.moveUpcomingGaugeToActiveGauge(ctx, gauge)",
   "        if err != nil",
   "          return err",
   "    gauges = k.GetActiveGauges(ctx)",
   "    _, err := k.DistributeOnEpochEnd(ctx, gauges)",
   "    if err != nil",
   "      return err",
   "  return nil"] := rfl

/-- `Keeper.BeforeEpochStart` -/
theorem inc_Keeper_BeforeEpochStart_listing : Gen.SkIncent.inc_Keeper_BeforeEpochStart =
  ["func (k Keeper) BeforeEpochStart(ctx sdk.Context, epochIdentifier string, epochNumber int64) error",
   "  return nil"] := rfl

/-- `Keeper.CreateAssetGauge` -/
theorem inc_Keeper_CreateAssetGauge_listing : Gen.SkIncent.inc_Keeper_CreateAssetGauge =
  ["func (k Keeper) CreateAssetGauge(ctx sdk.Context, isPerpetual bool, owner sdk.AccAddress, coins sdk.Coins, distrTo lockuptypes.QueryCondition, startTime time.Time, numEpochsPaidOver uint64) (uint64, error)",
   "  durations := k.GetLockableDurations(ctx)",
   "  if distrTo.LockQueryType == lockuptypes.ByDuration",
   "    durationOk := false",
   "    for _, duration := range durations",
   "      if duration == distrTo.Duration",
   "        durationOk = true",
   "        break",
   "    if !durationOk",
   "      return 0, fmt.Errorf(distrTo.Duration)",
   "  if !k.bk.HasSupply(ctx, distrTo.Denom)",
   "    return 0, fmt.Errorf(distrTo.Denom)",
   "  gauge := types.NewAssetGauge(k.GetLastGaugeID(ctx)+1, isPerpetual, distrTo, coins, startTime, numEpochsPaidOver)",
   "  err := k.bk.SendCoinsFromAccountToModule(ctx, owner, types.ModuleName, gauge.Coins)",
   "  if err != nil",
   "    return 0, err",
   "  err := k.setGauge(ctx, &gauge)",
   "  if err != nil",
   "    return 0, err",
   "  k.SetLastGaugeID(ctx, gauge.Id)",
   "  combinedKeys := combineKeys(types.KeyPrefixUpcomingGauges, getTimeKey(gauge.StartTime))",
   "  activeOrUpcomingGauge := true",
   "  err = k.CreateGaugeRefKeys(ctx, &gauge, combinedKeys, activeOrUpcomingGauge)",
   "  if err != nil",
   "    return 0, err",
   "  k.hooks.AfterCreateGauge(ctx, gauge.Id)",
   "  return gauge.Id, nil"] := rfl

/-- `Keeper.CreateEndorsementGauge` -/
theorem inc_Keeper_CreateEndorsementGauge_listing : Gen.SkIncent.inc_Keeper_CreateEndorsementGauge =
  ["func (k Keeper) CreateEndorsementGauge(ctx sdk.Context, isPerpetual bool, owner sdk.AccAddress, coins sdk.Coins, distrTo types.EndorsementGauge, startTime time.Time, numEpochsPaidOver uint64) (uint64, error)",
   "  _, found := k.rk.GetRollapp(ctx, distrTo.RollappId)",
   "  if !found",
   "    return 0, fmt.Errorf(distrTo.RollappId)",
   "  gauge := types.NewEndorsementGauge(k.GetLastGaugeID(ctx)+1, isPerpetual, distrTo.RollappId, coins, startTime, numEpochsPaidOver)",
   "  err := k.bk.SendCoinsFromAccountToModule(ctx, owner, types.ModuleName, gauge.Coins)",
   "  if err != nil",
   "    return 0, err",
   "  err := k.setGauge(ctx, &gauge)",
   "  if err != nil",
   "    return 0, err",
   "  k.SetLastGaugeID(ctx, gauge.Id)",
   "  combinedKeys := combineKeys(types.KeyPrefixUpcomingGauges, getTimeKey(gauge.StartTime))",
   "  err = k.CreateGaugeRefKeys(ctx, &gauge, combinedKeys, true)",
   "  if err != nil",
   "    return 0, err",
   "  k.hooks.AfterCreateGauge(ctx, gauge.Id)",
   "  return gauge.Id, nil"] := rfl

/-- `Keeper.CreateGaugeRefKeys` -/
theorem inc_Keeper_CreateGaugeRefKeys_listing : Gen.SkIncent.inc_Keeper_CreateGaugeRefKeys =
  ["func (k Keeper) CreateGaugeRefKeys(ctx sdk.Context, gauge *types.Gauge, combinedKeys []byte, activeOrUpcomingGauge bool) error",
   "  err := k.addGaugeRefByKey(ctx, combinedKeys, gauge.Id)",
   "  if err != nil",
   "    return err",
   "  gaugeAsset := gauge.GetAsset()",
   "  if activeOrUpcomingGauge && gaugeAsset != nil",
   "    err := k.addGaugeIDForDenom(ctx, gauge.Id, gaugeAsset.Denom)",
   "    if err != nil",
   "      return err",
   "  return nil"] := rfl

/-- `Keeper.CreateRollappGauge` -/
theorem inc_Keeper_CreateRollappGauge_listing : Gen.SkIncent.inc_Keeper_CreateRollappGauge =
  ["func (k Keeper) CreateRollappGauge(ctx sdk.Context, rollappId string) (uint64, error)",
   "  _, found := k.rk.GetRollapp(ctx, rollappId)",
   "  if !found",
   "    return 0, fmt.Errorf(rollappId)",
   "  gauge := types.NewRollappGauge(k.GetLastGaugeID(ctx)+1, rollappId)",
   "  err := k.setGauge(ctx, &gauge)",
   "  if err != nil",
   "    return 0, err",
   "  k.SetLastGaugeID(ctx, gauge.Id)",
   "  combinedKeys := combineKeys(types.KeyPrefixUpcomingGauges, getTimeKey(gauge.StartTime))",
   "  err = k.CreateGaugeRefKeys(ctx, &gauge, combinedKeys, true)",
   "  if err != nil",
   "    return 0, err",
   "  k.hooks.AfterCreateGauge(ctx, gauge.Id)",
   "  return gauge.Id, nil"] := rfl

/-- `Keeper.Distribute` -/
theorem inc_Keeper_Distribute_listing : Gen.SkIncent.inc_Keeper_Distribute =
  ["func (k Keeper) Distribute(ctx sdk.Context, gauges []types.Gauge, cache types.DenomLocksCache, epochEnd bool) (sdk.Coins, error)",
   "  lockHolders := NewRewardDistributionTracker()",
   "  totalDistributedCoins := sdk.Coins{}",
   "  for _, gauge := range gauges",
   "    var gaugeDistributedCoins sdk.Coins",
   "    var err error",
   "    switch gauge.DistributeTo.(type)",
   "      case *types.Gauge_Asset",
   "        filteredLocks := k.GetDistributeToBaseLocks(ctx, gauge, cache)",
   "        gaugeDistributedCoins, err = k.calculateAssetGaugeRewards(ctx, gauge, filteredLocks, &lockHolders)",
   "      case *types.Gauge_Rollapp",
   "        gaugeDistributedCoins, err = k.calculateRollappGaugeRewards(ctx, gauge, &lockHolders)",
   "      case *types.Gauge_Endorsement",
   "        if epochEnd",
   "          err = k.updateEndorsementGaugeOnEpochEnd(ctx, gauge)",
   "      default",
   "        return nil, errorsmod.WithType(sdkerrors.ErrInvalidType, fmt.Errorf(gauge.Id))",
   "    if err != nil",
   "      return nil, err",
   "    if !gaugeDistributedCoins.Empty()",
   "      err = k.updateGaugePostDistribute(ctx, gauge, gaugeDistributedCoins, epochEnd)",
   "      if err != nil",
   "        return nil, err",
   "      totalDistributedCoins = totalDistributedCoins.Add(gaugeDistributedCoins...)",
   "  err := k.distributeTrackedRewards(ctx, &lockHolders)",
   "  if err != nil",
   "    return nil, err",
   "  return totalDistributedCoins, nil"] := rfl

/-- `Keeper.DistributeEndorsementRewards` -/
theorem inc_Keeper_DistributeEndorsementRewards_listing : Gen.SkIncent.inc_Keeper_DistributeEndorsementRewards =
  ["func (k Keeper) DistributeEndorsementRewards(ctx sdk.Context, user sdk.AccAddress, gaugeId uint64, rewards sdk.Coins) error",
   "  gauge, err := k.GetGaugeByID(ctx, gaugeId)",
   "  if err != nil",
   "    return fmt.Errorf(err)",
   "  err = k.bk.SendCoinsFromModuleToAccount(ctx, types.ModuleName, user, rewards)",
   "  if err != nil",
   "    return fmt.Errorf(err)",
   "  gauge.DistributedCoins = gauge.DistributedCoins.Add(rewards...)",
   "  err = k.setGauge(ctx, gauge)",
   "  if err != nil",
   "    return fmt.Errorf(err)",
   "  return nil"] := rfl

/-- `Keeper.DistributeOnEpochEnd` -/
theorem inc_Keeper_DistributeOnEpochEnd_listing : Gen.SkIncent.inc_Keeper_DistributeOnEpochEnd =
  ["func (k Keeper) DistributeOnEpochEnd(ctx sdk.Context, gauges []types.Gauge) (sdk.Coins, error)",
   "  cache := types.NewDenomLocksCache()",
   "  const EpochEnd = true",
   "  totalDistributedCoins, err := k.Distribute(ctx, gauges, cache, EpochEnd)",
   "  if err != nil",
   "    return nil, fmt.Errorf(err)",
   "  k.hooks.AfterEpochDistribution(ctx)",
   "  k.checkFinishedGauges(ctx, gauges)",
   "  return totalDistributedCoins, nil"] := rfl

/-- `Keeper.GetActiveGauges` -/
theorem inc_Keeper_GetActiveGauges_listing : Gen.SkIncent.inc_Keeper_GetActiveGauges =
  ["func (k Keeper) GetActiveGauges(ctx sdk.Context) []types.Gauge",
   "  return k.getGaugesFromIterator(ctx, k.ActiveGaugesIterator(ctx))"] := rfl

/-- `Keeper.GetDistributeToBaseLocks` -/
theorem inc_Keeper_GetDistributeToBaseLocks_listing : Gen.SkIncent.inc_Keeper_GetDistributeToBaseLocks =
  ["func (k Keeper) GetDistributeToBaseLocks(ctx sdk.Context, gauge types.Gauge, cache types.DenomLocksCache) []lockuptypes.PeriodLock",
   "  if gauge.Coins.Empty()",
   "    return []lockuptypes.PeriodLock{}",
   "  asset := gauge.GetAsset()",
   "  distributeBaseDenom := asset.Denom",
   "  _, ok := cache[distributeBaseDenom]",
   "  if !ok",
   "    cache[distributeBaseDenom] = k.getLocksToDistributionWithMaxDuration(ctx, *asset, time.Millisecond)",
   "  allLocks := cache[distributeBaseDenom]",
   "  return FilterLocksByMinDuration(allLocks, asset.Duration)"] := rfl

/-- `Keeper.GetFinishedGauges` -/
theorem inc_Keeper_GetFinishedGauges_listing : Gen.SkIncent.inc_Keeper_GetFinishedGauges =
  ["func (k Keeper) GetFinishedGauges(ctx sdk.Context) []types.Gauge",
   "  return k.getGaugesFromIterator(ctx, k.FinishedGaugesIterator(ctx))"] := rfl

/-- `Keeper.GetGaugeByID` -/
theorem inc_Keeper_GetGaugeByID_listing : Gen.SkIncent.inc_Keeper_GetGaugeByID =
  ["func (k Keeper) GetGaugeByID(ctx sdk.Context, gaugeID uint64) (*types.Gauge, error)",
   "  gauge := types.Gauge{}",
   "  store := ctx.KVStore(k.storeKey)",
   "  gaugeKey := gaugeStoreKey(gaugeID)",
   "  if !store.Has(gaugeKey)",
   "    return nil, fmt.Errorf(gaugeID)",
   "  bz := store.Get(gaugeKey)",
   "  err := proto.Unmarshal(bz, &gauge)",
   "  if err != nil",
   "    return nil, err",
   "  return &gauge, nil"] := rfl

/-- `Keeper.GetGaugeFromIDs` -/
theorem inc_Keeper_GetGaugeFromIDs_listing : Gen.SkIncent.inc_Keeper_GetGaugeFromIDs =
  ["func (k Keeper) GetGaugeFromIDs(ctx sdk.Context, gaugeIDs []uint64) ([]types.Gauge, error)",
   "  gauges := []types.Gauge{}",
   "  for _, gaugeID := range gaugeIDs",
   "    gauge, err := k.GetGaugeByID(ctx, gaugeID)",
   "    if err != nil",
   "      return []types.Gauge{}, err",
   "    gauges = append(gauges, *gauge)",
   "  return gauges, nil"] := rfl

/-- `Keeper.GetGauges` -/
theorem inc_Keeper_GetGauges_listing : Gen.SkIncent.inc_Keeper_GetGauges =
  ["func (k Keeper) GetGauges(ctx sdk.Context) []types.Gauge",
   "  return k.getGaugesFromIterator(ctx, k.GaugesIterator(ctx))"] := rfl

/-- `Keeper.GetGaugesForDenom` -/
theorem inc_Keeper_GetGaugesForDenom_listing : Gen.SkIncent.inc_Keeper_GetGaugesForDenom =
  ["func (k Keeper) GetGaugesForDenom(ctx sdk.Context, denom string) ([]types.Gauge, error)",
   "  _, gauges, err := k.filterByPrefixAndDenom(ctx, types.KeyPrefixGauges, denom, nil)",
   "  if err != nil",
   "    return nil, err",
   "  return gauges, nil"] := rfl

/-- `Keeper.GetModuleDistributedCoins` -/
theorem inc_Keeper_GetModuleDistributedCoins_listing : Gen.SkIncent.inc_Keeper_GetModuleDistributedCoins =
  ["func (k Keeper) GetModuleDistributedCoins(ctx sdk.Context) sdk.Coins",
   "  activeGaugesDistr := k.getDistributedCoinsFromGauges(k.getGaugesFromIterator(ctx, k.ActiveGaugesIterator(ctx)))",
   "  finishedGaugesDistr := k.getDistributedCoinsFromGauges(k.getGaugesFromIterator(ctx, k.FinishedGaugesIterator(ctx)))",
   "  return activeGaugesDistr.Add(finishedGaugesDistr...)"] := rfl

/-- `Keeper.GetModuleToDistributeCoins` -/
theorem inc_Keeper_GetModuleToDistributeCoins_listing : Gen.SkIncent.inc_Keeper_GetModuleToDistributeCoins =
  ["func (k Keeper) GetModuleToDistributeCoins(ctx sdk.Context) sdk.Coins",
   "  activeGaugesDistr := k.getToDistributeCoinsFromGauges(k.getGaugesFromIterator(ctx, k.ActiveGaugesIterator(ctx)))",
   "  upcomingGaugesDistr := k.getToDistributeCoinsFromGauges(k.getGaugesFromIterator(ctx, k.UpcomingGaugesIterator(ctx)))",
   "  return activeGaugesDistr.Add(upcomingGaugesDistr...)"] := rfl

/-- `Keeper.GetNotFinishedGauges` -/
theorem inc_Keeper_GetNotFinishedGauges_listing : Gen.SkIncent.inc_Keeper_GetNotFinishedGauges =
  ["func (k Keeper) GetNotFinishedGauges(ctx sdk.Context) []types.Gauge",
   "  return append(k.GetActiveGauges(ctx), k.GetUpcomingGauges(ctx)...)"] := rfl

/-- `Keeper.GetUpcomingGauges` -/
theorem inc_Keeper_GetUpcomingGauges_listing : Gen.SkIncent.inc_Keeper_GetUpcomingGauges =
  ["func (k Keeper) GetUpcomingGauges(ctx sdk.Context) []types.Gauge",
   "  return k.getGaugesFromIterator(ctx, k.UpcomingGaugesIterator(ctx))"] := rfl

/-- `Keeper.Hooks` -/
theorem inc_Keeper_Hooks_listing : Gen.SkIncent.inc_Keeper_Hooks =
  ["func (k Keeper) Hooks() Hooks",
   "  return Hooks{k}"] := rfl

/-- `Keeper.SetGaugeWithRefKey` -/
theorem inc_Keeper_SetGaugeWithRefKey_listing : Gen.SkIncent.inc_Keeper_SetGaugeWithRefKey =
  ["func (k Keeper) SetGaugeWithRefKey(ctx sdk.Context, gauge *types.Gauge) error",
   "  err := k.setGauge(ctx, gauge)",
   "  if err != nil",
   "    return err",
   "  curTime := ctx.BlockTime()",
   "  timeKey := getTimeKey(gauge.StartTime)",
   "  activeOrUpcomingGauge := gauge.IsActiveGauge(curTime) || gauge.IsUpcomingGauge(curTime)",
   "  if gauge.IsUpcomingGauge(curTime)",
   "    combinedKeys := combineKeys(types.KeyPrefixUpcomingGauges, timeKey)",
   "    return k.CreateGaugeRefKeys(ctx, gauge, combinedKeys, activeOrUpcomingGauge)",
   "  else",
   "    if gauge.IsActiveGauge(curTime)",
   "      combinedKeys := combineKeys(types.KeyPrefixActiveGauges, timeKey)",
   "      return k.CreateGaugeRefKeys(ctx, gauge, combinedKeys, activeOrUpcomingGauge)",
   "    else",
   "      combinedKeys := combineKeys(types.KeyPrefixFinishedGauges, timeKey)",
   "      return k.CreateGaugeRefKeys(ctx, gauge, combinedKeys, activeOrUpcomingGauge)"] := rfl

/-- `Keeper.calculateAssetGaugeRewards` -/
theorem inc_Keeper_calculateAssetGaugeRewards_listing : Gen.SkIncent.inc_Keeper_calculateAssetGaugeRewards =
  ["func (k Keeper) calculateAssetGaugeRewards(ctx sdk.Context, gauge types.Gauge, locks []lockuptypes.PeriodLock, tracker *RewardDistributionTracker) (sdk.Coins, error)",
   "  assetDist := gauge.GetAsset()",
   "  if assetDist == nil",
   "    return sdk.Coins{}, fmt.Errorf(gauge.Id)",
   "  denom := assetDist.Denom",
   "  lockSum := lockuptypes.SumLocksByDenom(locks, denom)",
   "  if lockSum.IsZero()",
   "    return sdk.Coins{}, nil",
   "  remainCoins := gauge.Coins.Sub(gauge.DistributedCoins...)",
   "  remainEpochs := uint64(1)",
   "  if !gauge.IsPerpetual",
   "    remainEpochs = gauge.NumEpochsPaidOver - gauge.FilledEpochs",
   "  if remainEpochs == 0",
   "    return sdk.Coins{}, nil",
   "  if remainCoins.Empty()",
   "    return sdk.Coins{}, nil",
   "  totalDistrCoins := sdk.NewCoins()",
   "  for _, lock := range locks",
   "    distrCoins := sdk.Coins{}",
   "    for _, coin := range remainCoins",
   "      denomLockAmt := lock.Coins.AmountOfNoDenomValidation(denom)",
   "      amt := coin.Amount.Mul(denomLockAmt).Quo(lockSum.Mul(math.NewInt(int64(remainEpochs))))",
   "      if amt.IsPositive()",
   "        newlyDistributedCoin := sdk.Coin{Denom: coin.Denom, Amount: amt}",
   "        distrCoins = distrCoins.Add(newlyDistributedCoin)",
   "    distrCoins = distrCoins.Sort()",
   "    if distrCoins.Empty()",
   "      continue",
   "    err := tracker.addLockRewards(lock.Owner, gauge.Id, distrCoins)",
   "    if err != nil",
   "      return sdk.Coins{}, err",
   "    totalDistrCoins = totalDistrCoins.Add(distrCoins...)",
   "  return totalDistrCoins, nil"] := rfl

/-- `Keeper.calculateRollappGaugeRewards` -/
theorem inc_Keeper_calculateRollappGaugeRewards_listing : Gen.SkIncent.inc_Keeper_calculateRollappGaugeRewards =
  ["func (k Keeper) calculateRollappGaugeRewards(ctx sdk.Context, gauge types.Gauge, tracker *RewardDistributionTracker) (sdk.Coins, error)",
   "  rollapp, found := k.rk.GetRollapp(ctx, gauge.GetRollapp().RollappId)",
   "  if !found",
   "    return sdk.Coins{}, fmt.Errorf(gauge.Id, gauge.GetRollapp().RollappId)",
   "  if k.RollappGaugesMode(ctx) == types.Params_ActiveOnly && !rollapp.Launched",
   "    return sdk.Coins{}, nil",
   "  owner := rollapp.Owner",
   "  totalDistrCoins := gauge.Coins.Sub(gauge.DistributedCoins...)",
   "  if totalDistrCoins.Empty()",
   "    return sdk.Coins{}, nil",
   "  err := tracker.addLockRewards(owner, gauge.Id, totalDistrCoins)",
   "  if err != nil",
   "    return sdk.Coins{}, err",
   "  return totalDistrCoins, nil"] := rfl

/-- `Keeper.checkFinishedGauges` -/
theorem inc_Keeper_checkFinishedGauges_listing : Gen.SkIncent.inc_Keeper_checkFinishedGauges =
  ["func (k Keeper) checkFinishedGauges(ctx sdk.Context, gauges []types.Gauge)",
   "  for _, gauge := range gauges",
   "    if gauge.IsPerpetual",
   "      continue",
   "    if gauge.NumEpochsPaidOver <= gauge.FilledEpochs+1",
   "      err := k.moveActiveGaugeToFinishedGauge(ctx, gauge)",
   "      if err != nil",
   "        panic(err)"] := rfl

/-- `Keeper.distributeTrackedRewards` -/
theorem inc_Keeper_distributeTrackedRewards_listing : Gen.SkIncent.inc_Keeper_distributeTrackedRewards =
  ["func (k Keeper) distributeTrackedRewards(ctx sdk.Context, tracker *RewardDistributionTracker) error",
   "  numIDs := len(tracker.idToDecodedAddr)",
   "  if len(tracker.idToDistrCoins) != numIDs || len(tracker.idToGaugeRewards) != numIDs",
   "    return fmt.Errorf()",
   "  for id := 0; id < numIDs; id++",
   "    err := k.bk.SendCoinsFromModuleToAccount(ctx, types.ModuleName, tracker.idToDecodedAddr[id], tracker.idToDistrCoins[id])",
   "    if err != nil",
   "      return err",
   "  return nil"] := rfl

/-- `Keeper.getDistributedCoinsFromGauges` -/
theorem inc_Keeper_getDistributedCoinsFromGauges_listing : Gen.SkIncent.inc_Keeper_getDistributedCoinsFromGauges =
  ["func (k Keeper) getDistributedCoinsFromGauges(gauges []types.Gauge) sdk.Coins",
   "  coins := sdk.Coins{}",
   "  for _, gauge := range gauges",
   "    coins = coins.Add(gauge.DistributedCoins...)",
   "  return coins"] := rfl

/-- `Keeper.getGaugesFromIterator` -/
theorem inc_Keeper_getGaugesFromIterator_listing : Gen.SkIncent.inc_Keeper_getGaugesFromIterator =
  ["func (k Keeper) getGaugesFromIterator(ctx sdk.Context, iterator db.Iterator) []types.Gauge",
   "  gauges := []types.Gauge{}",
   "  defer iterator.Close()",
   "  for ; iterator.Valid(); iterator.Next()",
   "    gaugeIDs := []uint64{}",
   "    err := json.Unmarshal(iterator.Value(), &gaugeIDs)",
   "    if err != nil",
   "      panic(err)",
   "    for _, gaugeID := range gaugeIDs",
   "      gauge, err := k.GetGaugeByID(ctx, gaugeID)",
   "      if err != nil",
   "        panic(err)",
   "      gauges = append(gauges, *gauge)",
   "  return gauges"] := rfl

/-- `Keeper.getLocksToDistributionWithMaxDuration` -/
theorem inc_Keeper_getLocksToDistributionWithMaxDuration_listing : Gen.SkIncent.inc_Keeper_getLocksToDistributionWithMaxDuration =
  ["func (k Keeper) getLocksToDistributionWithMaxDuration(ctx sdk.Context, distrTo lockuptypes.QueryCondition, minDuration time.Duration) []lockuptypes.PeriodLock",
   "  switch distrTo.LockQueryType",
   "    case lockuptypes.ByDuration",
   "      duration := min(distrTo.Duration, minDuration)",
   "      return k.lk.GetLocksLongerThanDurationDenom(ctx, distrTo.Denom, duration)",
   "    case lockuptypes.ByTime",
   "      return []lockuptypes.PeriodLock{}",
   "    default",
   "  return []lockuptypes.PeriodLock{}"] := rfl

/-- `Keeper.getToDistributeCoinsFromGauges` -/
theorem inc_Keeper_getToDistributeCoinsFromGauges_listing : Gen.SkIncent.inc_Keeper_getToDistributeCoinsFromGauges =
  ["func (k Keeper) getToDistributeCoinsFromGauges(gauges []types.Gauge) sdk.Coins",
   "  coins := sdk.Coins{}",
   "  distributed := sdk.Coins{}",
   "  for _, gauge := range gauges",
   "    coins = coins.Add(gauge.Coins...)",
   "    distributed = distributed.Add(gauge.DistributedCoins...)",
   "  return coins.Sub(distributed...)"] := rfl

/-- `Keeper.moveActiveGaugeToFinishedGauge` -/
theorem inc_Keeper_moveActiveGaugeToFinishedGauge_listing : Gen.SkIncent.inc_Keeper_moveActiveGaugeToFinishedGauge =
  ["func (k Keeper) moveActiveGaugeToFinishedGauge(ctx sdk.Context, gauge types.Gauge) error",
   "  timeKey := getTimeKey(gauge.StartTime)",
   "  err := k.deleteGaugeRefByKey(ctx, combineKeys(types.KeyPrefixActiveGauges, timeKey), gauge.Id)",
   "  if err != nil",
   "    return err",
   "  err := k.addGaugeRefByKey(ctx, combineKeys(types.KeyPrefixFinishedGauges, timeKey), gauge.Id)",
   "  if err != nil",
   "    return err",
   "  gaugeAsset := gauge.GetAsset()",
   "  if gaugeAsset != nil",
   "    err := k.deleteGaugeIDForDenom(ctx, gauge.Id, gaugeAsset.Denom)",
   "    if err != nil",
   "      return err",
   "  k.hooks.GaugeFinished(ctx, gauge.Id)",
   "  return nil"] := rfl

/-- `Keeper.moveUpcomingGaugeToActiveGauge` -/
theorem inc_Keeper_moveUpcomingGaugeToActiveGauge_listing : Gen.SkIncent.inc_Keeper_moveUpcomingGaugeToActiveGauge =
  ["func (k Keeper) moveUpcomingGaugeToActiveGauge(ctx sdk.Context, gauge types.Gauge) error",
   "  if ctx.BlockTime().Before(gauge.StartTime)",
   "    return fmt.Errorf(ctx.BlockTime().String(), gauge.StartTime.String())",
   "  timeKey := getTimeKey(gauge.StartTime)",
   "  err := k.deleteGaugeRefByKey(ctx, combineKeys(types.KeyPrefixUpcomingGauges, timeKey), gauge.Id)",
   "  if err != nil",
   "    return err",
   "  err := k.addGaugeRefByKey(ctx, combineKeys(types.KeyPrefixActiveGauges, timeKey), gauge.Id)",
   "  if err != nil",
   "    return err",
   "  return nil"] := rfl

/-- `Keeper.setGauge` -/
theorem inc_Keeper_setGauge_listing : Gen.SkIncent.inc_Keeper_setGauge =
  ["func (k Keeper) setGauge(ctx sdk.Context, gauge *types.Gauge) error",
   "  store := ctx.KVStore(k.storeKey)",
   "  bz, err := proto.Marshal(gauge)",
   "  if err != nil",
   "    return err",
   "  store.Set(gaugeStoreKey(gauge.Id), bz)",
   "  return nil"] := rfl

/-- `Keeper.updateEndorsementGaugeOnEpochEnd` -/
theorem inc_Keeper_updateEndorsementGaugeOnEpochEnd_listing : Gen.SkIncent.inc_Keeper_updateEndorsementGaugeOnEpochEnd =
  ["func (k Keeper) updateEndorsementGaugeOnEpochEnd(ctx sdk.Context, gauge types.Gauge) error",
   "  gaugeBalance := gauge.Coins.Sub(gauge.DistributedCoins...)",
   "  epochRewards := gaugeBalance",
   "  if !gauge.IsPerpetual",
   "    remainingEpochs := math.NewIntFromUint64(gauge.NumEpochsPaidOver - gauge.FilledEpochs)",
   "    epochRewards = gaugeBalance.QuoInt(remainingEpochs)",
   "  endorsement := gauge.DistributeTo.(*types.Gauge_Endorsement).Endorsement",
   "  endorsement.EpochRewards = epochRewards",
   "  gauge.FilledEpochs += 1",
   "  err := k.setGauge(ctx, &gauge)",
   "  if err != nil",
   "    return err",
   "  return nil"] := rfl

/-- `Keeper.updateGaugePostDistribute` -/
theorem inc_Keeper_updateGaugePostDistribute_listing : Gen.SkIncent.inc_Keeper_updateGaugePostDistribute =
  ["func (k Keeper) updateGaugePostDistribute(ctx sdk.Context, gauge types.Gauge, newlyDistributedCoins sdk.Coins, epochEnd bool) error",
   "  if epochEnd",
   "    gauge.FilledEpochs += 1",
   "  gauge.DistributedCoins = gauge.DistributedCoins.Add(newlyDistributedCoins...)",
   "  err := k.setGauge(ctx, &gauge)",
   "  if err != nil",
   "    return err",
   "  return nil"] := rfl

/-- `NewRewardDistributionTracker` -/
theorem inc_NewRewardDistributionTracker_listing : Gen.SkIncent.inc_NewRewardDistributionTracker =
  ["func NewRewardDistributionTracker() RewardDistributionTracker",
   "  return RewardDistributionTracker{nextID: 0, lockOwnerAddrToID: make(map[string]int), idToBech32Addr: []string{}, idToDecodedAddr: []sdk.AccAddress{}, idToDistrCoins: []sdk.Coins{}, idToGaugeRewards: []map[uint64]sdk.Coins{}}"] := rfl

/-- `RewardDistributionTracker.GetEvents` -/
theorem inc_RewardDistributionTracker_GetEvents_listing : Gen.SkIncent.inc_RewardDistributionTracker_GetEvents =
  ["func (d *RewardDistributionTracker) GetEvents() sdk.Events",
   "  events := make(sdk.Events, 0, len(d.idToBech32Addr))",
   "  for id := 0; id < len(d.idToBech32Addr); id++",
   "    attributes := []sdk.Attribute{sdk.NewAttribute(types.AttributeReceiver, d.idToBech32Addr[id]), sdk.NewAttribute(types.AttributeAmount, d.idToDistrCoins[id].String())}",
   "    for gaugeID, gaugeRewards := range d.idToGaugeRewards[id]",
   "      attributes = append(attributes, sdk.NewAttribute(fmt.Sprintf(\"%s_%d\", types.AttributeGaugeID, gaugeID), gaugeRewards.String()))",
   "    events = append(events, sdk.NewEvent(types.TypeEvtDistribution, attributes...))",
   "  return events"] := rfl

/-- `RewardDistributionTracker.addLockRewards` -/
theorem inc_RewardDistributionTracker_addLockRewards_listing : Gen.SkIncent.inc_RewardDistributionTracker_addLockRewards =
  ["func (d *RewardDistributionTracker) addLockRewards(owner string, gaugeID uint64, rewards sdk.Coins) error",
   "  id, ok := d.lockOwnerAddrToID[owner]",
   "  if ok",
   "    oldDistrCoins := d.idToDistrCoins[id]",
   "    d.idToDistrCoins[id] = rewards.Add(oldDistrCoins...)",
   "    existing, ok := d.idToGaugeRewards[id][gaugeID]",
   "    if ok",
   "      d.idToGaugeRewards[id][gaugeID] = existing.Add(rewards...)",
   "    else",
   "      d.idToGaugeRewards[id][gaugeID] = rewards",
   "  else",
   "    id := d.nextID",
   "    d.nextID++",
   "    d.lockOwnerAddrToID[owner] = id",
   "    decodedOwnerAddr, err := sdk.AccAddressFromBech32(owner)",
   "    if err != nil",
   "      return err",
   "    d.idToBech32Addr = append(d.idToBech32Addr, owner)",
   "    d.idToDecodedAddr = append(d.idToDecodedAddr, decodedOwnerAddr)",
   "    d.idToDistrCoins = append(d.idToDistrCoins, rewards)",
   "    gaugeRewards := make(map[uint64]sdk.Coins)",
   "    gaugeRewards[gaugeID] = rewards",
   "    d.idToGaugeRewards = append(d.idToGaugeRewards, gaugeRewards)",
   "  return nil"] := rfl

/-- `AllInvariants` -/
theorem str_AllInvariants_listing : Gen.SkIncent.str_AllInvariants =
  ["func AllInvariants(k Keeper) sdk.Invariant",
   "  return func#1",
   "    func#1 (ctx sdk.Context) (string, bool)",
   "      res, stop := LastStreamIdInvariant(k)(ctx)",
   "      if stop",
   "        return res, stop",
   "      res, stop = StreamsCountInvariant(k)(ctx)",
   "      if stop",
   "        return res, stop",
   "      res, stop = StreamerBalanceInvariant(k)(ctx)",
   "      if stop",
   "        return res, stop",
   "      res, stop = StreamsInvariant(k)(ctx)",
   "      if stop",
   "        return res, stop",
   "      return \"\", false"] := rfl

/-- `CmpStreams` -/
theorem str_CmpStreams_listing : Gen.SkIncent.str_CmpStreams =
  ["func CmpStreams(a, b types.Stream) int",
   "  return cmpUint64(a.Id, b.Id)"] := rfl

/-- `Hooks.AfterEpochEnd` -/
theorem str_Hooks_AfterEpochEnd_listing : Gen.SkIncent.str_Hooks_AfterEpochEnd =
  ["func (h Hooks) AfterEpochEnd(ctx sdk.Context, epochIdentifier string, _ int64) error",
   "  _, err := h.k.AfterEpochEnd(ctx, epochIdentifier)",
   "  if err != nil",
   "    return fmt.Errorf(epochIdentifier, err)",
   "  return nil"] := rfl

/-- `Hooks.AfterPoolCreated` -/
theorem str_Hooks_AfterPoolCreated_listing : Gen.SkIncent.str_Hooks_AfterPoolCreated =
  ["func (h Hooks) AfterPoolCreated(ctx sdk.Context, sender sdk.AccAddress, poolId uint64)",
   "  err := h.k.CreatePoolGauge(ctx, poolId)",
   "  if err != nil"] := rfl

/-- `Hooks.BeforeEpochStart` -/
theorem str_Hooks_BeforeEpochStart_listing : Gen.SkIncent.str_Hooks_BeforeEpochStart =
  ["func (h Hooks) BeforeEpochStart(ctx sdk.Context, epochIdentifier string, _ int64) error",
   "  err := h.k.BeforeEpochStart(ctx, epochIdentifier)",
   "  if err != nil",
   "    return fmt.Errorf(epochIdentifier, err)",
   "  return nil"] := rfl

/-- `Hooks.RollappCreated` -/
theorem str_Hooks_RollappCreated_listing : Gen.SkIncent.str_Hooks_RollappCreated =
  ["func (h Hooks) RollappCreated(ctx sdk.Context, rollappID, _ string, _ sdk.AccAddress) error",
   "  rollappGaugeId, err := h.k.ik.CreateRollappGauge(ctx, rollappID)",
   "  if err != nil",
   "    return fmt.Errorf(err)",
   "  err = h.k.sk.SaveEndorsement(ctx, sponsorshiptypes.NewEndorsement(rollappID, rollappGaugeId))",
   "  if err != nil",
   "    return fmt.Errorf(err)",
   "  return nil"] := rfl

/-- `IterateEpochPointer` -/
theorem str_IterateEpochPointer_listing : Gen.SkIncent.str_IterateEpochPointer =
  ["func IterateEpochPointer(p types.EpochPointer, streams []types.Stream, maxIterations uint64, cb func(v StreamGauge) (stop bool, weight uint64)) (types.EpochPointer, uint64)",
   "  iter := NewStreamIterator(streams, p.StreamId, p.GaugeId, p.EpochIdentifier)",
   "  iterations := pagination.Paginate(iter, maxIterations, cb)",
   "  if iter.Valid()",
   "    v := iter.Value()",
   "    p.Set(v.Stream.Id, v.Gauge.GaugeId)",
   "  else",
   "    p.SetToLastGauge()",
   "  return p, iterations"] := rfl

/-- `Keeper.AfterEpochEnd` -/
theorem str_Keeper_AfterEpochEnd_listing : Gen.SkIncent.str_Keeper_AfterEpochEnd =
  ["func (k Keeper) AfterEpochEnd(ctx sdk.Context, epochIdentifier string) (sdk.Coins, error)",
   "  activeStreams := k.GetActiveStreamsForEpoch(ctx, epochIdentifier)",
   "  if len(activeStreams) == 0",
   "    return sdk.Coins{}, nil",
   "  epochPointer, err := k.GetEpochPointer(ctx, epochIdentifier)",
   "  if err != nil",
   "    return sdk.Coins{}, fmt.Errorf(epochIdentifier, err)",
   "  const epochEnd = true",
   "  coins, iterations, err := k.Distribute(ctx, []types.EpochPointer{epochPointer}, activeStreams, types.IterationsNoLimit, epochEnd)",
   "  if err != nil",
   "    return sdk.Coins{}, fmt.Errorf(err)",
   "  epochPointer.SetToFirstGauge()",
   "  err = k.SaveEpochPointer(ctx, epochPointer)",
   "  if err != nil",
   "    return sdk.Coins{}, fmt.Errorf(err)",
   "  return coins, nil"] := rfl

/-- `Keeper.BeforeEpochStart` -/
theorem str_Keeper_BeforeEpochStart_listing : Gen.SkIncent.str_Keeper_BeforeEpochStart =
  ["func (k Keeper) BeforeEpochStart(ctx sdk.Context, epochIdentifier string) error",
   "  upcomingStreams := k.GetUpcomingStreams(ctx)",
   "  for _, s := range upcomingStreams",
   "    if !ctx.BlockTime().Before(s.StartTime)",
   "      err := k.moveUpcomingStreamToActiveStream(ctx, s)",
   "      if err != nil",
   "        return fmt.Errorf(err)",
   "  toStart := k.GetActiveStreamsForEpoch(ctx, epochIdentifier)",
   "  for _, s := range toStart",
   "    updated, err := k.UpdateStreamAtEpochStart(ctx, s)",
   "    if err != nil",
   "      return fmt.Errorf(s.Id, err)",
   "    err = k.SetStream(ctx, &updated)",
   "    if err != nil",
   "      return fmt.Errorf(err)",
   "  return nil"] := rfl

/-- `Keeper.CalculateGaugeRewards` -/
theorem str_Keeper_CalculateGaugeRewards_listing : Gen.SkIncent.str_Keeper_CalculateGaugeRewards =
  ["func (k Keeper) CalculateGaugeRewards(ctx sdk.Context, coins sdk.Coins, record types.DistrRecord, totalWeight math.Int) (sdk.Coins, error)",
   "  if coins.Empty()",
   "    return nil, fmt.Errorf()",
   "  if totalWeight.IsZero()",
   "    return nil, fmt.Errorf()",
   "  rewards := sdk.NewCoins()",
   "  for _, coin := range coins",
   "    if coin.IsZero()",
   "      continue",
   "    allocatingAmount := coin.Amount.Mul(record.Weight).Quo(totalWeight)",
   "    if !allocatingAmount.IsPositive()",
   "      continue",
   "    allocatedCoin := sdk.Coin{Denom: coin.Denom, Amount: allocatingAmount}",
   "    rewards = rewards.Add(allocatedCoin)",
   "  return rewards, nil"] := rfl

/-- `Keeper.CalculateRewards` -/
theorem str_Keeper_CalculateRewards_listing : Gen.SkIncent.str_Keeper_CalculateRewards =
  ["func (k Keeper) CalculateRewards(ctx sdk.Context, pointer types.EpochPointer, limit uint64, streamCache *cache.InsertionOrdered[uint64, types.Stream], gaugeCache *cache.InsertionOrdered[uint64, incentivestypes.Gauge], denomLocksCache incentivestypes.DenomLocksCache) (distributedCoins sdk.Coins, newPointer types.EpochPointer, operations uint64)",
   "  distributedCoins = sdk.NewCoins()",
   "  pointer, operations = IterateEpochPointer(pointer, streamCache.GetAll(), limit, func#1)",
   "    func#1 (v StreamGauge) (stop bool, operations uint64)",
   "      stream := streamCache.MustGet(v.Stream.Id)",
   "      gauge, ok := gaugeCache.Get(v.Gauge.GaugeId)",
   "      if !ok",
   "        var err error",
   "        gauge, err = k.getActiveGaugeByID(ctx, v.Gauge.GaugeId)",
   "        if err != nil",
   "          return false, 0",
   "        gaugeCache.Upsert(gauge)",
   "      rewards, err := k.CalculateGaugeRewards(ctx, v.Stream.EpochCoins, v.Gauge, stream.DistributeTo.TotalWeight)",
   "      if err != nil",
   "        return false, 0",
   "      stream.AddDistributedCoins(rewards)",
   "      streamCache.Upsert(stream)",
   "      gauge.AddCoins(rewards)",
   "      gaugeCache.Upsert(gauge)",
   "      operations = k.getGaugeLockNum(ctx, gauge, denomLocksCache)",
   "      distributedCoins = distributedCoins.Add(rewards...)",
   "      return false, operations",
   "  return distributedCoins, pointer, operations"] := rfl

/-- `Keeper.Distribute` -/
theorem str_Keeper_Distribute_listing : Gen.SkIncent.str_Keeper_Distribute =
  ["func (k Keeper) Distribute(ctx sdk.Context, epochPointers []types.EpochPointer, streams []types.Stream, maxOperations uint64, epochEnd bool) (coins sdk.Coins, iterations uint64, err error)",
   "  types.SortEpochPointers(epochPointers)",
   "  slices.SortFunc(streams, CmpStreams)",
   "  totalOperations := uint64(0)",
   "  totalDistributed := sdk.NewCoins()",
   "  streamCache := cache.NewInsertionOrdered(types.Stream.Key, streams...)",
   "  gaugeCache := cache.NewInsertionOrdered(incentivestypes.Gauge.Key)",
   "  denomLockCache := incentivestypes.NewDenomLocksCache()",
   "  for _, p := range epochPointers",
   "    if totalOperations >= maxOperations",
   "      break",
   "    remainOperations := maxOperations - totalOperations",
   "    distrCoins, newPointer, iters := k.CalculateRewards(ctx, p, remainOperations, streamCache, gaugeCache, denomLockCache)",
   "    totalOperations += iters",
   "    totalDistributed = totalDistributed.Add(distrCoins...)",
   "    err = k.SaveEpochPointer(ctx, newPointer)",
   "    if err != nil",
   "      return nil, 0, fmt.Errorf(err)",
   "  if !totalDistributed.Empty()",
   "    err = k.bk.SendCoinsFromModuleToModule(ctx, types.ModuleName, incentivestypes.ModuleName, totalDistributed)",
   "    if err != nil",
   "      return nil, 0, fmt.Errorf(err)",
   "  _, err = k.ik.Distribute(ctx, gaugeCache.GetAll(), denomLockCache, epochEnd)",
   "  if err != nil",
   "    return nil, 0, fmt.Errorf(err)",
   "  var rangeErr error",
   "  streamCache.Range(func#1)",
   "    func#1 (stream types.Stream) bool",
   "      if epochEnd",
   "        stream, rangeErr = k.UpdateStreamAtEpochEnd(ctx, stream)",
   "        if rangeErr != nil",
   "          rangeErr = fmt.Errorf(stream.Id, rangeErr)",
   "          return true",
   "      rangeErr = k.SetStream(ctx, &stream)",
   "      if rangeErr != nil",
   "        rangeErr = fmt.Errorf(rangeErr)",
   "        return true",
   "      return false",
   "  if rangeErr != nil",
   "    return nil, 0, rangeErr",
   "  return totalDistributed, totalOperations, nil"] := rfl

/-- `Keeper.EndBlock` -/
theorem str_Keeper_EndBlock_listing : Gen.SkIncent.str_Keeper_EndBlock =
  ["func (k Keeper) EndBlock(ctx sdk.Context) error",
   "  epochPointers, err := k.GetAllEpochPointers(ctx)",
   "  if err != nil",
   "    return fmt.Errorf(err)",
   "  streams := k.GetActiveStreams(ctx)",
   "  maxIterations := k.GetParams(ctx).MaxIterationsPerBlock",
   "  const epochEnd = false",
   "  coins, iterations, err := k.Distribute(ctx, epochPointers, streams, maxIterations, epochEnd)",
   "  if err != nil",
   "    return fmt.Errorf(err)",
   "  return nil"] := rfl

/-- `Keeper.GetActiveStreams` -/
theorem str_Keeper_GetActiveStreams_listing : Gen.SkIncent.str_Keeper_GetActiveStreams =
  ["func (k Keeper) GetActiveStreams(ctx sdk.Context) []types.Stream",
   "  return k.getStreamsFromIterator(ctx, k.ActiveStreamsIterator(ctx))"] := rfl

/-- `Keeper.GetActiveStreamsForEpoch` -/
theorem str_Keeper_GetActiveStreamsForEpoch_listing : Gen.SkIncent.str_Keeper_GetActiveStreamsForEpoch =
  ["func (k Keeper) GetActiveStreamsForEpoch(ctx sdk.Context, epochIdentifier string) []types.Stream",
   "  streams := k.getStreamsFromIterator(ctx, k.ActiveStreamsIterator(ctx))",
   "  activeStreams := make([]types.Stream, 0)",
   "  for _, stream := range streams",
   "    if stream.DistrEpochIdentifier == epochIdentifier",
   "      activeStreams = append(activeStreams, stream)",
   "  return activeStreams"] := rfl

/-- `Keeper.GetFinishedStreams` -/
theorem str_Keeper_GetFinishedStreams_listing : Gen.SkIncent.str_Keeper_GetFinishedStreams =
  ["func (k Keeper) GetFinishedStreams(ctx sdk.Context) []types.Stream",
   "  return k.getStreamsFromIterator(ctx, k.FinishedStreamsIterator(ctx))"] := rfl

/-- `Keeper.GetNotFinishedStreams` -/
theorem str_Keeper_GetNotFinishedStreams_listing : Gen.SkIncent.str_Keeper_GetNotFinishedStreams =
  ["func (k Keeper) GetNotFinishedStreams(ctx sdk.Context) []types.Stream",
   "  return append(k.GetActiveStreams(ctx), k.GetUpcomingStreams(ctx)...)"] := rfl

/-- `Keeper.GetStreamByID` -/
theorem str_Keeper_GetStreamByID_listing : Gen.SkIncent.str_Keeper_GetStreamByID =
  ["func (k Keeper) GetStreamByID(ctx sdk.Context, streamID uint64) (*types.Stream, error)",
   "  stream := types.Stream{}",
   "  store := ctx.KVStore(k.storeKey)",
   "  streamKey := streamStoreKey(streamID)",
   "  if !store.Has(streamKey)",
   "    return nil, fmt.Errorf(streamID)",
   "  bz := store.Get(streamKey)",
   "  err := proto.Unmarshal(bz, &stream)",
   "  if err != nil",
   "    return nil, err",
   "  return &stream, nil"] := rfl

/-- `Keeper.GetStreams` -/
theorem str_Keeper_GetStreams_listing : Gen.SkIncent.str_Keeper_GetStreams =
  ["func (k Keeper) GetStreams(ctx sdk.Context) []types.Stream",
   "  streams := k.getStreamsFromIterator(ctx, k.StreamsIterator(ctx))",
   "  sort.Slice(streams, func#1)",
   "    func#1 (i, j int) bool",
   "      return streams[i].Id < streams[j].Id",
   "  return streams"] := rfl

/-- `Keeper.GetUpcomingStreams` -/
theorem str_Keeper_GetUpcomingStreams_listing : Gen.SkIncent.str_Keeper_GetUpcomingStreams =
  ["func (k Keeper) GetUpcomingStreams(ctx sdk.Context) []types.Stream",
   "  return k.getStreamsFromIterator(ctx, k.UpcomingStreamsIterator(ctx))"] := rfl

/-- `Keeper.Hooks` -/
theorem str_Keeper_Hooks_listing : Gen.SkIncent.str_Keeper_Hooks =
  ["func (k Keeper) Hooks() Hooks",
   "  return Hooks{k: k}"] := rfl

/-- `Keeper.UpdateStreamAtEpochEnd` -/
theorem str_Keeper_UpdateStreamAtEpochEnd_listing : Gen.SkIncent.str_Keeper_UpdateStreamAtEpochEnd =
  ["func (k Keeper) UpdateStreamAtEpochEnd(ctx sdk.Context, stream types.Stream) (types.Stream, error)",
   "  if !stream.DistributeTo.TotalWeight.IsZero()",
   "    stream.FilledEpochs += 1",
   "  if stream.FilledEpochs >= stream.NumEpochsPaidOver",
   "    err := k.moveActiveStreamToFinishedStream(ctx, stream)",
   "    if err != nil",
   "      return types.Stream{}, fmt.Errorf(err)",
   "  return stream, nil"] := rfl

/-- `Keeper.UpdateStreamAtEpochStart` -/
theorem str_Keeper_UpdateStreamAtEpochStart_listing : Gen.SkIncent.str_Keeper_UpdateStreamAtEpochStart =
  ["func (k Keeper) UpdateStreamAtEpochStart(ctx sdk.Context, stream types.Stream) (types.Stream, error)",
   "  remainCoins := stream.Coins.Sub(stream.DistributedCoins...)",
   "  remainEpochs := stream.NumEpochsPaidOver - stream.FilledEpochs",
   "  epochCoins := remainCoins.QuoInt(math.NewIntFromUint64(remainEpochs))",
   "  if stream.Sponsored",
   "    distr, err := k.sk.GetDistribution(ctx)",
   "    if err != nil",
   "      return types.Stream{}, fmt.Errorf(err)",
   "    stream.DistributeTo = types.DistrInfoFromDistribution(distr)",
   "  stream.EpochCoins = epochCoins",
   "  return stream, nil"] := rfl

/-- `Keeper.getActiveGaugeByID` -/
theorem str_Keeper_getActiveGaugeByID_listing : Gen.SkIncent.str_Keeper_getActiveGaugeByID =
  ["func (k Keeper) getActiveGaugeByID(ctx sdk.Context, gaugeID uint64) (incentivestypes.Gauge, error)",
   "  gauge, err := k.ik.GetGaugeByID(ctx, gaugeID)",
   "  if err != nil",
   "    return incentivestypes.Gauge{}, fmt.Errorf(gaugeID, err)",
   "  finished := gauge.IsFinishedGauge(ctx.BlockTime())",
   "  if finished",
   "    return incentivestypes.Gauge{}, incentivestypes.UnexpectedFinishedGaugeError{GaugeId: gaugeID}",
   "  return *gauge, nil"] := rfl

/-- `Keeper.getGaugeLockNum` -/
theorem str_Keeper_getGaugeLockNum_listing : Gen.SkIncent.str_Keeper_getGaugeLockNum =
  ["func (k Keeper) getGaugeLockNum(ctx sdk.Context, gauge incentivestypes.Gauge, cache incentivestypes.DenomLocksCache) uint64",
   "  switch gauge.DistributeTo.(type)",
   "    case *incentivestypes.Gauge_Asset",
   "      locks := k.ik.GetDistributeToBaseLocks(ctx, gauge, cache)",
   "      return uint64(len(locks))",
   "    case *incentivestypes.Gauge_Rollapp",
   "      return 1",
   "    default",
   "      return 0"] := rfl

/-- `Keeper.moveActiveStreamToFinishedStream` -/
theorem str_Keeper_moveActiveStreamToFinishedStream_listing : Gen.SkIncent.str_Keeper_moveActiveStreamToFinishedStream =
  ["func (k Keeper) moveActiveStreamToFinishedStream(ctx sdk.Context, stream types.Stream) error",
   "  return k.moveStreamToFinishedStream(ctx, stream, types.KeyPrefixActiveStreams)"] := rfl

/-- `Keeper.moveStreamToFinishedStream` -/
theorem str_Keeper_moveStreamToFinishedStream_listing : Gen.SkIncent.str_Keeper_moveStreamToFinishedStream =
  ["func (k Keeper) moveStreamToFinishedStream(ctx sdk.Context, stream types.Stream, prefixKey []byte) error",
   "  timeKey := getTimeKey(stream.StartTime)",
   "  err := k.deleteStreamRefByKey(ctx, combineKeys(prefixKey, timeKey), stream.Id)",
   "  if err != nil",
   "    return err",
   "  err := k.addStreamRefByKey(ctx, combineKeys(types.KeyPrefixFinishedStreams, timeKey), stream.Id)",
   "  if err != nil",
   "    return err",
   "  return nil"] := rfl

/-- `Keeper.moveUpcomingStreamToActiveStream` -/
theorem str_Keeper_moveUpcomingStreamToActiveStream_listing : Gen.SkIncent.str_Keeper_moveUpcomingStreamToActiveStream =
  ["func (k Keeper) moveUpcomingStreamToActiveStream(ctx sdk.Context, stream types.Stream) error",
   "  if ctx.BlockTime().Before(stream.StartTime)",
   "    return fmt.Errorf(ctx.BlockTime().String(), stream.StartTime.String())",
   "  timeKey := getTimeKey(stream.StartTime)",
   "  err := k.deleteStreamRefByKey(ctx, combineKeys(types.KeyPrefixUpcomingStreams, timeKey), stream.Id)",
   "  if err != nil",
   "    return err",
   "  err := k.addStreamRefByKey(ctx, combineKeys(types.KeyPrefixActiveStreams, timeKey), stream.Id)",
   "  if err != nil",
   "    return err",
   "  return nil"] := rfl

/-- `Keeper.moveUpcomingStreamToFinishedStream` -/
theorem str_Keeper_moveUpcomingStreamToFinishedStream_listing : Gen.SkIncent.str_Keeper_moveUpcomingStreamToFinishedStream =
  ["func (k Keeper) moveUpcomingStreamToFinishedStream(ctx sdk.Context, stream types.Stream) error",
   "  return k.moveStreamToFinishedStream(ctx, stream, types.KeyPrefixUpcomingStreams)"] := rfl

/-- `LastStreamIdInvariant` -/
theorem str_LastStreamIdInvariant_listing : Gen.SkIncent.str_LastStreamIdInvariant =
  ["func LastStreamIdInvariant(k Keeper) sdk.Invariant",
   "  return func#1",
   "    func#1 (ctx sdk.Context) (string, bool)",
   "      var broken bool",
   "      var msg string",
   "      streams := k.GetStreams(ctx)",
   "      lastStreamId := k.GetLastStreamID(ctx)",
   "      if len(streams) == 0",
   "        if lastStreamId != 0",
   "          msg += fmt.Sprintf(\"last stream id %d != 0\\n\", lastStreamId)",
   "          broken = true",
   "      else",
   "        if streams[len(streams)-1].Id != lastStreamId",
   "          msg += fmt.Sprintf(\"last stream id %d != last stream id in store %d\\n\", streams[len(streams)-1].Id, lastStreamId)",
   "          broken = true",
   "      return sdk.FormatInvariant(types.ModuleName, \"last-stream-id\", msg), broken"] := rfl

/-- `NewStreamIterator` -/
theorem str_NewStreamIterator_listing : Gen.SkIncent.str_NewStreamIterator =
  ["func NewStreamIterator(data []types.Stream, startStreamID uint64, startGaugeID uint64, epochIdentifier string) *StreamIterator",
   "  streamIdx, _ := slices.BinarySearchFunc(data, startStreamID, func#1)",
   "    func#1 (stream types.Stream, targetID uint64) int",
   "      return cmpUint64(stream.Id, targetID)",
   "  if streamIdx >= len(data)",
   "    return &StreamIterator{data: data, streamIdx: streamIdx, gaugeIdx: 0, epochIdentifier: epochIdentifier}",
   "  gaugeIdx, _ := slices.BinarySearchFunc(data[streamIdx].DistributeTo.Records, startGaugeID, func#2)",
   "    func#2 (record types.DistrRecord, targetID uint64) int",
   "      return cmpUint64(record.GaugeId, targetID)",
   "  iter := &StreamIterator{data: data, streamIdx: streamIdx, gaugeIdx: gaugeIdx, epochIdentifier: epochIdentifier}",
   "  if !iter.validInvariants()",
   "    iter.findNextStream()",
   "  return iter"] := rfl

/-- `RegisterInvariants` -/
theorem str_RegisterInvariants_listing : Gen.SkIncent.str_RegisterInvariants =
  ["func RegisterInvariants(ir sdk.InvariantRegistry, k Keeper)",
   "  ir.RegisterRoute(types.ModuleName, \"streams-count\", StreamsCountInvariant(k))",
   "  ir.RegisterRoute(types.ModuleName, \"last-stream-id\", LastStreamIdInvariant(k))",
   "  ir.RegisterRoute(types.ModuleName, \"streamer-balance\", StreamerBalanceInvariant(k))",
   "  ir.RegisterRoute(types.ModuleName, \"streams\", StreamsInvariant(k))"] := rfl

/-- `StreamIterator.Next` -/
theorem str_StreamIterator_Next_listing : Gen.SkIncent.str_StreamIterator_Next =
  ["func (i *StreamIterator) Next()",
   "  i.gaugeIdx++",
   "  if !i.validInvariants()",
   "    i.findNextStream()"] := rfl

/-- `StreamIterator.Valid` -/
theorem str_StreamIterator_Valid_listing : Gen.SkIncent.str_StreamIterator_Valid =
  ["func (i StreamIterator) Valid() bool",
   "  return i.validInvariants()"] := rfl

/-- `StreamIterator.Value` -/
theorem str_StreamIterator_Value_listing : Gen.SkIncent.str_StreamIterator_Value =
  ["func (i StreamIterator) Value() StreamGauge",
   "  return StreamGauge{Stream: i.data[i.streamIdx], Gauge: i.data[i.streamIdx].DistributeTo.Records[i.gaugeIdx]}"] := rfl

/-- `StreamIterator.findNextStream` -/
theorem str_StreamIterator_findNextStream_listing : Gen.SkIncent.str_StreamIterator_findNextStream =
  ["func (i *StreamIterator) findNextStream()",
   "  i.gaugeIdx = 0",
   "  i.streamIdx++",
   "  for ; i.streamIdx < len(i.data); i.streamIdx++",
   "    if i.validInvariants()",
   "      return"] := rfl

/-- `StreamIterator.validInvariants` -/
theorem str_StreamIterator_validInvariants_listing : Gen.SkIncent.str_StreamIterator_validInvariants =
  ["func (i StreamIterator) validInvariants() bool",
   "  return i.streamIdx < len(i.data) && len(i.data[i.streamIdx].DistributeTo.Records) != 0 && i.data[i.streamIdx].DistrEpochIdentifier == i.epochIdentifier && i.gaugeIdx < len(i.data[i.streamIdx].DistributeTo.Records)"] := rfl

/-- `StreamerBalanceInvariant` -/
theorem str_StreamerBalanceInvariant_listing : Gen.SkIncent.str_StreamerBalanceInvariant =
  ["func StreamerBalanceInvariant(k Keeper) sdk.Invariant",
   "  return func#1",
   "    func#1 (ctx sdk.Context) (string, bool)",
   "      var broken bool",
   "      var msg string",
   "      toDistCoins := k.GetModuleToDistributeCoins(ctx)",
   "      balance := k.bk.GetAllBalances(ctx, k.ak.GetModuleAddress(types.ModuleName))",
   "      insufficient := !toDistCoins.IsAllLTE(balance)",
   "      if insufficient",
   "        msg += \"streamer balance < toDistCoins\"",
   "        broken = true",
   "      return sdk.FormatInvariant(types.ModuleName, \"streamer-balance\", msg), broken"] := rfl

/-- `StreamsCountInvariant` -/
theorem str_StreamsCountInvariant_listing : Gen.SkIncent.str_StreamsCountInvariant =
  ["func StreamsCountInvariant(k Keeper) sdk.Invariant",
   "  return func#1",
   "    func#1 (ctx sdk.Context) (string, bool)",
   "      var broken bool",
   "      var msg string",
   "      streams := k.GetStreams(ctx)",
   "      if len(streams) == 0",
   "        return \"no streams found\", false",
   "      upcomingStreams := k.GetUpcomingStreams(ctx)",
   "      activeStreams := k.GetActiveStreams(ctx)",
   "      finishedStreams := k.GetFinishedStreams(ctx)",
   "      broken = len(streams) != len(upcomingStreams)+len(activeStreams)+len(finishedStreams)",
   "      return sdk.FormatInvariant(types.ModuleName, \"streams-count\", msg), broken"] := rfl

/-- `StreamsInvariant` -/
theorem str_StreamsInvariant_listing : Gen.SkIncent.str_StreamsInvariant =
  ["func StreamsInvariant(k Keeper) sdk.Invariant",
   "  return func#1",
   "    func#1 (ctx sdk.Context) (string, bool)",
   "      var broken bool",
   "      var msg string",
   "      streams := k.GetNotFinishedStreams(ctx)",
   "      for _, stream := range streams",
   "        if stream.FilledEpochs > stream.NumEpochsPaidOver",
   "          msg += fmt.Sprintf(\"filled epochs > num epochs paid over on stream %d\", stream.Id)",
   "          broken = true",
   "        overflow := !stream.DistributedCoins.IsAllLTE(stream.Coins)",
   "        if overflow",
   "          msg += fmt.Sprintf(\"distributed coins > coins on stream %d\", stream.Id)",
   "          broken = true",
   "      return sdk.FormatInvariant(types.ModuleName, \"streams\", msg), broken"] := rfl

/-- `cmpUint64` -/
theorem str_cmpUint64_listing : Gen.SkIncent.str_cmpUint64 =
  ["func cmpUint64(a, b uint64) int",
   "  switch",
   "    case a < b",
   "      return -1",
   "    case a > b",
   "      return 1",
   "    default",
   "      return 0"] := rfl

/-- `every function with a body in the listed files, sorted per package` -/
theorem inventory_listing : Gen.SkIncent.inventory =
  ["inc_Hooks_AfterEpochEnd",
   "inc_Hooks_BeforeEpochStart",
   "inc_Keeper_AddToGaugeRewards",
   "inc_Keeper_AfterEpochEnd",
   "inc_Keeper_BeforeEpochStart",
   "inc_Keeper_CreateAssetGauge",
   "inc_Keeper_CreateEndorsementGauge",
   "inc_Keeper_CreateGaugeRefKeys",
   "inc_Keeper_CreateRollappGauge",
   "inc_Keeper_Distribute",
   "inc_Keeper_DistributeEndorsementRewards",
   "inc_Keeper_DistributeOnEpochEnd",
   "inc_Keeper_GetActiveGauges",
   "inc_Keeper_GetDistributeToBaseLocks",
   "inc_Keeper_GetFinishedGauges",
   "inc_Keeper_GetGaugeByID",
   "inc_Keeper_GetGaugeFromIDs",
   "inc_Keeper_GetGauges",
   "inc_Keeper_GetGaugesForDenom",
   "inc_Keeper_GetModuleDistributedCoins",
   "inc_Keeper_GetModuleToDistributeCoins",
   "inc_Keeper_GetNotFinishedGauges",
   "inc_Keeper_GetUpcomingGauges",
   "inc_Keeper_Hooks",
   "inc_Keeper_SetGaugeWithRefKey",
   "inc_Keeper_calculateAssetGaugeRewards",
   "inc_Keeper_calculateRollappGaugeRewards",
   "inc_Keeper_checkFinishedGauges",
   "inc_Keeper_distributeTrackedRewards",
   "inc_Keeper_getDistributedCoinsFromGauges",
   "inc_Keeper_getGaugesFromIterator",
   "inc_Keeper_getLocksToDistributionWithMaxDuration",
   "inc_Keeper_getToDistributeCoinsFromGauges",
   "inc_Keeper_moveActiveGaugeToFinishedGauge",
   "inc_Keeper_moveUpcomingGaugeToActiveGauge",
   "inc_Keeper_setGauge",
   "inc_Keeper_updateEndorsementGaugeOnEpochEnd",
   "inc_Keeper_updateGaugePostDistribute",
   "inc_NewRewardDistributionTracker",
   "inc_RewardDistributionTracker_GetEvents",
   "inc_RewardDistributionTracker_addLockRewards",
   "str_AllInvariants",
   "str_CmpStreams",
   "str_Hooks_AfterEpochEnd",
   "str_Hooks_AfterPoolCreated",
   "str_Hooks_BeforeEpochStart",
   "str_Hooks_RollappCreated",
   "str_IterateEpochPointer",
   "str_Keeper_AfterEpochEnd",
   "str_Keeper_BeforeEpochStart",
   "str_Keeper_CalculateGaugeRewards",
   "str_Keeper_CalculateRewards",
   "str_Keeper_Distribute",
   "str_Keeper_EndBlock",
   "str_Keeper_GetActiveStreams",
   "str_Keeper_GetActiveStreamsForEpoch",
   "str_Keeper_GetFinishedStreams",
   "str_Keeper_GetNotFinishedStreams",
   "str_Keeper_GetStreamByID",
   "str_Keeper_GetStreams",
   "str_Keeper_GetUpcomingStreams",
   "str_Keeper_Hooks",
   "str_Keeper_UpdateStreamAtEpochEnd",
   "str_Keeper_UpdateStreamAtEpochStart",
   "str_Keeper_getActiveGaugeByID",
   "str_Keeper_getGaugeLockNum",
   "str_Keeper_moveActiveStreamToFinishedStream",
   "str_Keeper_moveStreamToFinishedStream",
   "str_Keeper_moveUpcomingStreamToActiveStream",
   "str_Keeper_moveUpcomingStreamToFinishedStream",
   "str_LastStreamIdInvariant",
   "str_NewStreamIterator",
   "str_RegisterInvariants",
   "str_StreamIterator_Next",
   "str_StreamIterator_Valid",
   "str_StreamIterator_Value",
   "str_StreamIterator_findNextStream",
   "str_StreamIterator_validInvariants",
   "str_StreamerBalanceInvariant",
   "str_StreamsCountInvariant",
   "str_StreamsInvariant",
   "str_cmpUint64"] := rfl

end DymVerif.GenEqSk.Incent
