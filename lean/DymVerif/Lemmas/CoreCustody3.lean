/-
  Lemmas/CoreCustody3 — custody through block processing and all runs.
-/
import DymVerif.Lemmas.CoreCustody2
namespace DymVerif.Core

theorem markObsolete_cust {s s' : St} {au : Bool} {vs : List Nat} (h : Cust s)
    (e : markObsolete s au vs = .ok s') : Cust s' := by
  unfold markObsolete at e
  split at e
  · cases e
  · split at e
    · cases e
    · dsimp only at e
      injection e with e; subst e
      apply foldl_inv Cust
      · exact h.of_eq rfl rfl
      · intro b r0 hb
        split
        · exact hb
        · split
          · exact hb
          · split
            · split
              · rename_i a ha; exact hardForkToLatest_cust hb ha
              · exact hb
            · exact hb

theorem beginBlock_cust {s : St} {dt : Nat} (h : Cust s) : Cust (beginBlock s dt) := by
  unfold beginBlock
  dsimp only
  apply foldl_inv Cust
  · exact h.of_eq rfl rfl
  · intro b e hb
    have hb1 : Cust { b with nq := b.nq.filter (fun x => !(x.1 == e.1 && x.2 == e.2)) } := hb.of_eq rfl rfl
    split
    · exact hb1
    · split
      · exact hb1
      · exact hb1.of_eq rfl rfl

theorem finalizeOne_seqs {s s' : St} {fails : List (Nat × Nat)} {ra idx : Nat}
    (e : finalizeOne s fails ra idx = some s') : s'.seqs = s.seqs ∧ s'.modBal = s.modBal := by
  unfold finalizeOne at e
  split at e
  · cases e
  · split at e
    · cases e
    · split at e
      · cases e
      · split at e
        · cases e
        · dsimp only at e
          injection e with e; subst e
          exact ⟨rfl, rfl⟩

theorem finalizeEntry_go_seqs (fails : List (Nat × Nat)) (e : QEntry) (l : List Nat) (s : St) :
    (finalizeEntry.go fails e s l).1.seqs = s.seqs ∧ (finalizeEntry.go fails e s l).1.modBal = s.modBal := by
  induction l generalizing s with
  | nil => unfold finalizeEntry.go; exact ⟨rfl, rfl⟩
  | cons i rest ih =>
    unfold finalizeEntry.go
    split
    · rename_i s1 h1
      have a := finalizeOne_seqs h1
      have b := ih s1
      exact ⟨b.1.trans a.1, b.2.trans a.2⟩
    · exact ⟨rfl, rfl⟩

theorem finalizeAll_seqs (fails : List (Nat × Nat)) (es : List QEntry) (failed : List Nat) (s : St) :
    (finalizeAll s fails es failed).seqs = s.seqs ∧ (finalizeAll s fails es failed).modBal = s.modBal := by
  induction es generalizing s failed with
  | nil => unfold finalizeAll; exact ⟨rfl, rfl⟩
  | cons e es ih =>
    unfold finalizeAll
    split
    · exact ih _ _
    · have a := finalizeEntry_go_seqs fails e e.idx s
      unfold finalizeEntry
      have b := ih (if (finalizeEntry.go fails e s e.idx).2 = true then failed else e.ra :: failed) (finalizeEntry.go fails e s e.idx).1
      exact ⟨b.1.trans a.1, b.2.trans a.2⟩

theorem slashLiveness_cust {s s1 : St} {r : Rollapp} (h : Cust s) (e : slashLiveness s r = .ok s1) : Cust s1 := by
  unfold slashLiveness at e
  split at e
  · injection e with e; subst e; exact h
  · split at e
    · injection e with e; subst e; exact h
    · rename_i _ a _ _ q hg
      split at e
      · cases e
      · rename_i s2 q2 hsl
        have sp := slash_spec hsl
        injection e with e; subst e
        exact Cust.setSeq_moved (q0 := q) (a := a) h hg sp.1
          (show q2.addr = a from sp.2.2.1.trans (getSeq_addr hg)) sp.2.1

theorem handleLivenessEvent_cust {s : St} {ra : Nat} (h : Cust s) : Cust (handleLivenessEvent s ra) := by
  unfold handleLivenessEvent
  split
  · exact h
  · split
    · exact h
    · rename_i s1 hs1
      have h1 := slashLiveness_cust h hs1
      split
      · exact h
      · unfold scheduleEvent
        exact h1.of_eq rfl rfl

theorem endBlock_cust {s : St} {fails : List (Nat × Nat)} (h : Cust s) : Cust (endBlock s fails) := by
  unfold endBlock checkLiveness
  apply foldl_inv Cust
  · unfold finalizeRollappStates
    split
    · exact h
    · exact h.of_eq (finalizeAll_seqs _ _ _ _).1 (finalizeAll_seqs _ _ _ _).2
  · intro b e hb; exact handleLivenessEvent_cust hb

theorem apply_cust {s s' : St} {o : Op} (h : Cust s) (e : apply s o = .ok s') : Cust s' := by
  cases o with
  | createRollapp id owner mb =>
    simp only [apply] at e
    split at e
    · cases e
    · injection e with e; subst e; exact h.of_eq rfl rfl
  | bridge ra hh =>
    simp only [apply] at e
    split at e
    · cases e
    · split at e
      · cases e
      · split at e
        · cases e
        · injection e with e; subst e; exact h.of_eq rfl rfl
  | fund a amt => simp only [apply] at e; injection e with e; subst e; exact h.of_eq rfl rfl
  | createSeq a ra b d => exact createSeq_cust h e
  | bondInc a amt d => exact increaseBond_cust h e
  | bondDec a amt => exact decreaseBond_cust h e
  | unbond a => exact unbond_cust h e
  | optIn a v => exact optIn_cust h e
  | kick a => exact kick_cust h e
  | update m => exact updateState_cust h e
  | fraud au ra hh rev p rw => exact fraud_cust h e
  | obsolete au vs => exact markObsolete_cust h e
  | punish au a rw => exact punish_cust h (punishProposal_ok e).2
  | transferOwner sg ra' no =>
    obtain ⟨r, hg, _, _, _, rfl⟩ := transferOwner_ok e
    exact h.of_eq rfl rfl
  | setSeqParams au sp =>
    obtain ⟨_, hnp, _, rfl⟩ := setSeqParams_ok e
    exact h.of_eq rfl rfl
  | begin_ dt => simp only [apply] at e; injection e with e; subst e; exact beginBlock_cust h
  | end_ f => simp only [apply] at e; injection e with e; subst e; exact endBlock_cust h

theorem step_cust {s : St} {o : Op} (h : Cust s) : Cust (step s o).1 := by
  unfold step
  split
  · rename_i s' e; exact apply_cust h e
  · exact h

theorem run_cust (p : Params) (ops : List Op) : Cust (run p ops) := by
  unfold run
  apply foldl_inv Cust
  · exact ⟨List.Pairwise.nil, rfl⟩
  · intro b o hb; exact step_cust hb

end DymVerif.Core
