/-
  Lemmas/KeysAddrLit — the statement-by-statement model of `ParseDymNameAddress` (`parseAddrLit`,
  Go's index arithmetic) on the formatter's texts: every one of its guards passes and it cuts the
  same chunks as `parseAddr`.  Core Lean only.
-/
import DymVerif.Lemmas.KeysAddr2
namespace DymVerif.Keys
open DymVerif

theorem idxOf_ge (c : Nat) : ∀ w : Bytes, -1 ≤ idxOf c w
  | [] => by simp [idxOf]
  | x :: xs => by
    have := idxOf_ge c xs
    simp only [idxOf]
    split
    · omega
    · split <;> omega

theorem idxOf_not_mem {c : Nat} : ∀ {w : Bytes}, c ∉ w → idxOf c w = -1
  | [], _ => rfl
  | x :: xs, h => by
    have hx : x ≠ c := fun e => h (by simp [e])
    have := idxOf_not_mem (w := xs) (fun hm : c ∈ xs => h (List.mem_cons_of_mem _ hm))
    simp [idxOf, hx, this]

theorem idxOf_append_not_mem {c : Nat} : ∀ {X : Bytes} (Y : Bytes), c ∉ X →
    idxOf c (X ++ Y) = if idxOf c Y < 0 then -1 else (X.length : Int) + idxOf c Y
  | [], Y, _ => by
    have := idxOf_ge c Y
    simp only [List.nil_append, List.length_nil]
    split <;> omega
  | x :: xs, Y, h => by
    have hx : x ≠ c := fun e => h (by simp [e])
    have ih := idxOf_append_not_mem (X := xs) Y (fun hm : c ∈ xs => h (List.mem_cons_of_mem _ hm))
    have := idxOf_ge c Y
    simp only [List.cons_append, idxOf, hx, if_false, ih, List.length_cons]
    split <;> simp <;> omega

/-- G1: a text that does not start with `c` has no `c` at index 0 -/
theorem idxOf_head_ne {c x : Nat} {xs : Bytes} (h : x ≠ c) : idxOf c (x :: xs) ≠ 0 := by
  have := idxOf_ge c xs
  simp only [idxOf, h, if_false]
  split <;> omega

/-- G2: a text that does not end with `c` has its first `c` before the last index -/
theorem idxOf_last_ne {c : Nat} : ∀ {w : Bytes} {y : Nat}, w.getLast? = some y → y ≠ c →
    idxOf c w ≠ (w.length : Int) - 1
  | [], _, h, _ => by simp at h
  | [x], y, h, hy => by
    have : x = y := by simpa using h
    subst this
    simp [idxOf, hy]
  | x :: x' :: xs, y, h, hy => by
    have h' : (x' :: xs).getLast? = some y := by simpa [List.getLast?_cons_cons] using h
    have ih := idxOf_last_ne h' hy
    have hg := idxOf_ge c (x' :: xs)
    simp only [List.length_cons] at ih ⊢
    rw [idxOf]
    split
    · omega
    · dsimp only
      split <;> omega

/-- G3: … and its last `c` too -/
theorem lastIdxOf_last_ne {c : Nat} {w : Bytes} {y : Nat} (h : w.getLast? = some y) (hy : y ≠ c) :
    lastIdxOf c w ≠ (w.length : Int) - 1 := by
  have hrev : ∃ r, w.reverse = y :: r := by
    cases hw : w.reverse with
    | nil => simp at hw; subst hw; simp at h
    | cons z r =>
      have : w.getLast? = some z := by
        rw [List.getLast?_eq_head?_reverse, hw]; rfl
      rw [this] at h
      exact ⟨r, by simpa using h⟩
  obtain ⟨r, hr⟩ := hrev
  have hlen : 0 < w.length := by
    cases w with
    | nil => simp at h
    | cons _ _ => simp
  have h0 := idxOf_head_ne (xs := r) hy
  unfold lastIdxOf
  simp only [hr]
  split
  · omega
  · omega

theorem lastIdxOf_not_mem {c : Nat} {w : Bytes} (h : c ∉ w) : lastIdxOf c w = -1 := by
  unfold lastIdxOf
  rw [idxOf_not_mem (by simpa using h)]
  simp

/-- the one `c` of `A ++ c :: h` is found from both ends at index `|A|` -/
theorem idx_single {c : Nat} {A h : Bytes} (hA : c ∉ A) (hh : c ∉ h) :
    idxOf c (A ++ c :: h) = A.length ∧ lastIdxOf c (A ++ c :: h) = A.length := by
  constructor
  · rw [idxOf_append_not_mem _ hA]; simp [idxOf]
  · unfold lastIdxOf
    have : (A ++ c :: h).reverse = h.reverse ++ c :: A.reverse := by simp
    rw [this, idxOf_append_not_mem _ (by simpa using hh)]
    simp [idxOf]
    omega

/-- a `d` that occurs only before the single `c` has its last index before it -/
theorem lastIdx_before {c d : Nat} {A h : Bytes} (hdc : c ≠ d) (hh : d ∉ h) :
    lastIdxOf d (A ++ c :: h) < (A.length : Int) := by
  unfold lastIdxOf
  have : (A ++ c :: h).reverse = h.reverse ++ c :: A.reverse := by simp
  have hg := idxOf_ge d A.reverse
  rw [this, idxOf_append_not_mem _ (by simpa using hh)]
  simp only [idxOf, hdc, if_false, List.length_reverse, List.length_append, List.length_cons]
  (repeat' split) <;> omega

/-! ### adjacent separators -/

def sepB (c : Nat) : Bool := isSepC c || c == 124

theorem hds_cons_clean {a : Nat} (ha : sepB a = false) : ∀ r : Bytes, hasDoubleSep (a :: r) = hasDoubleSep r
  | [] => by simp [hasDoubleSep]
  | b :: r => by
    have : (isSepC a || a == 124) = false := ha
    simp [hasDoubleSep, this]

theorem splitSeps_sep_head {d : Nat} (ds : Bytes) (hd : isSepC d = true) :
    (splitSeps (d :: ds)).1 = [] :: (splitSeps ds).1 := by simp [splitSeps, hd]

theorem splitSeps_nonsep_head {c : Nat} (cs : Bytes) (hc : isSepC c = false) :
    ∃ f fs, (splitSeps cs).1 = f :: fs ∧ (splitSeps (c :: cs)).1 = (c :: f) :: fs := by
  cases h : (splitSeps cs).1 with
  | nil => exact absurd h (splitSeps_fst_ne_nil cs)
  | cons f fs => exact ⟨f, fs, rfl, by simp [splitSeps, hc, h]⟩

/-- no '|' and no empty field after the first one: no two adjacent separators -/
theorem hds_of_fields : ∀ w : Bytes, (∀ c ∈ w, c ≠ 124) →
    ((splitSeps w).1.tail.all (fun f => !f.isEmpty)) = true → hasDoubleSep w = false
  | [], _, _ => rfl
  | c :: cs, hb, hf => by
    have hb' : ∀ x ∈ cs, x ≠ 124 := fun x hx => hb x (by simp [hx])
    by_cases hc : isSepC c = true
    · rw [splitSeps_sep_head cs hc] at hf
      simp only [List.tail_cons] at hf
      have hne := splitSeps_fst_ne_nil cs
      have htail : (splitSeps cs).1.tail.all (fun f => !f.isEmpty) = true := by
        cases h : (splitSeps cs).1 with
        | nil => exact absurd h hne
        | cons f fs => rw [h] at hf; simp only [List.all_cons, Bool.and_eq_true] at hf; simpa using hf.2
      have ih := hds_of_fields cs hb' htail
      cases cs with
      | nil => simp [hasDoubleSep]
      | cons d ds =>
        have hd : sepB d = false := by
          by_cases hds : isSepC d = true
          · rw [splitSeps_sep_head ds hds] at hf
            simp at hf
          · have : d ≠ 124 := hb' d (by simp)
            simp [sepB, hds, this]
        have : (isSepC d || d == 124) = false := hd
        simp only [hasDoubleSep, this, Bool.and_false, Bool.false_or]
        exact ih
    · have hc' : isSepC c = false := by simpa using hc
      obtain ⟨f, fs, h1, h2⟩ := splitSeps_nonsep_head cs hc'
      rw [h2] at hf
      have htail : (splitSeps cs).1.tail.all (fun f => !f.isEmpty) = true := by rw [h1]; simpa using hf
      have ih := hds_of_fields cs hb' htail
      have : sepB c = false := by simp [sepB, hc', hb c (by simp)]
      rw [hds_cons_clean this]; exact ih

end DymVerif.Keys

namespace DymVerif.Keys
open DymVerif

theorem glueDots_append : ∀ (parts : List Bytes) (a b : Bytes), glueDots parts (a ++ b) = glueDots parts a ++ b
  | [], _, _ => rfl
  | p :: ps, a, b => by simp [glueDots, glueDots_append ps a b]

theorem nameC_ne {c : Nat} (h : isNameC c = true) : c ≠ 46 ∧ c ≠ 64 ∧ c ≠ 124 := by
  simp [isNameC, isAlnumC, isLowerB, isDigitB, isDashC] at h
  omega

theorem glueDots_head (parts : List Bytes) (name : Bytes) (hp : ∀ p ∈ parts, Clean p) (hn : Clean name) :
    ∃ x r, glueDots parts name = x :: r ∧ isNameC x = true := by
  cases parts with
  | nil =>
    cases name with
    | nil => exact absurd rfl hn.1
    | cons x r => exact ⟨x, r, rfl, hn.2 x (by simp)⟩
  | cons p ps =>
    have hc := hp p (by simp)
    cases p with
    | nil => exact absurd rfl hc.1
    | cons x r => exact ⟨x, r ++ 46 :: glueDots ps name, by simp [glueDots], hc.2 x (by simp)⟩

theorem glueDots_no_at (parts : List Bytes) (name : Bytes) (hp : ∀ p ∈ parts, Clean p) (hn : Clean name) :
    64 ∉ glueDots parts name := by
  induction parts with
  | nil => exact fun hm => (nameC_ne (hn.2 64 hm)).2.1 rfl
  | cons p ps ih =>
    simp only [glueDots, List.mem_append, List.mem_cons]
    rintro (hm | hm | hm)
    · exact (nameC_ne ((hp p (by simp)).2 64 hm)).2.1 rfl
    · omega
    · exact ih (fun q hq => hp q (by simp [hq])) hm

theorem clean_getLast {h : Bytes} (hh : Clean h) : ∃ y, h.getLast? = some y ∧ isNameC y = true := by
  cases hl : h.getLast? with
  | none => simp at hl; exact absurd hl hh.1
  | some y => exact ⟨y, rfl, hh.2 y (List.mem_of_getLast? hl)⟩

/-- the statement-by-statement parser on the formatter's texts -/
theorem parseAddrLit_glue (bech : Bytes → Bool) (parts : List Bytes) (name h : Bytes) (last : Nat)
    (hl : last = 46 ∨ last = 64)
    (hp : ∀ p ∈ parts, validDymName p = true) (hn : validDymName name = true)
    (hh : (validChainIdFormat h || validAlias h) = true) :
    parseAddrLit bech (glueDots parts (name ++ last :: h)) = some (joinDot parts, name, h) := by
  have hpc : ∀ p ∈ parts, Clean p := fun p hp' => validDymName_clean (hp p hp')
  have hnc := validDymName_clean hn
  have hhc := handle_clean hh
  have hsep : isSepC last = true := by rcases hl with rfl | rfl <;> decide
  have htext : ∀ c ∈ glueDots parts (name ++ last :: h), TextC c := by
    apply glueDots_textC parts _ hpc
    intro c hc
    simp only [List.mem_append, List.mem_cons] at hc
    rcases hc with hc | rfl | hc
    · exact Or.inl (hnc.2 c hc)
    · rcases hl with rfl | rfl
      · exact Or.inr (Or.inl rfl)
      · exact Or.inr (Or.inr rfl)
    · exact Or.inl (hhc.2 c hc)
  have hchunks : ∀ f ∈ parts ++ [name, h], Clean f := by
    intro f hf
    simp only [List.mem_append, List.mem_cons, List.not_mem_nil, or_false] at hf
    rcases hf with hf | rfl | rfl
    · exact hpc f hf
    · exact hnc
    · exact hhc
  have hne : ∀ f ∈ parts ++ [name, h], (!f.isEmpty) = true := by
    intro f hf
    have := (hchunks f hf).1
    cases f with
    | nil => exact absurd rfl this
    | cons _ _ => simp
  have htrim : (parts ++ [name, h]).any (fun f => trimSpace f != f) = false := by
    rw [List.any_eq_false]
    intro f hf
    simp [clean_trim (hchunks f hf)]
  have hsplit := splitSeps_glueDots parts name h last hpc hnc hhc hsep
  -- the text as  A ++ last :: h
  obtain ⟨x, r, hA, hx⟩ := glueDots_head parts name hpc hnc
  have hw : glueDots parts (name ++ last :: h) = (x :: r) ++ last :: h := by rw [glueDots_append, hA]
  obtain ⟨y, hy, hyn⟩ := clean_getLast hhc
  have hlast : ((x :: r) ++ last :: h).getLast? = some y := by
    cases h with
    | nil => exact absurd rfl hhc.1
    | cons h0 h' =>
      rw [List.getLast?_append, List.getLast?_cons_cons, hy]; rfl
  have hx' := nameC_ne hx
  have hy' := nameC_ne hyn
  have h124 : ∀ c ∈ glueDots parts (name ++ last :: h), c ≠ 124 := by
    intro c hc
    rcases htext c hc with h1 | rfl | rfl
    · exact (nameC_ne h1).2.2
    · omega
    · omega
  have g5 : hasDoubleSep (glueDots parts (name ++ last :: h)) = false := by
    apply hds_of_fields _ h124
    rw [hsplit, List.all_eq_true]
    intro f hf
    exact hne f (List.mem_of_mem_tail hf)
  have g6 : fieldsSep (glueDots parts (name ++ last :: h)) = parts ++ [name, h] := by
    unfold fieldsSep
    rw [hsplit]
    exact List.filter_eq_self.mpr hne
  have g3a : idxOf 46 (glueDots parts (name ++ last :: h)) ≠ 0 := by
    rw [hw]; exact idxOf_head_ne hx'.1
  have g3b : idxOf 64 (glueDots parts (name ++ last :: h)) ≠ 0 := by
    rw [hw]; exact idxOf_head_ne hx'.2.1
  have g4a := idxOf_last_ne (c := 46) hlast hy'.1
  have g4b := idxOf_last_ne (c := 64) hlast hy'.2.1
  have g4c := lastIdxOf_last_ne (c := 46) hlast hy'.1
  have g4d := lastIdxOf_last_ne (c := 64) hlast hy'.2.1
  rw [← hw] at g4a g4b g4c g4d
  have hAat : 64 ∉ x :: r := hA ▸ glueDots_no_at parts name hpc hnc
  have hh64 : 64 ∉ h := fun hm => (nameC_ne (hhc.2 64 hm)).2.1 rfl
  have hh46 : 46 ∉ h := fun hm => (nameC_ne (hhc.2 46 hm)).1 rfl
  have g12 : (lastIdxOf 64 (glueDots parts (name ++ last :: h)) = -1 ∧ idxOf 64 (glueDots parts (name ++ last :: h)) = -1) ∨
      (idxOf 64 (glueDots parts (name ++ last :: h)) = lastIdxOf 64 (glueDots parts (name ++ last :: h)) ∧
        lastIdxOf 46 (glueDots parts (name ++ last :: h)) < lastIdxOf 64 (glueDots parts (name ++ last :: h))) := by
    rcases hl with rfl | rfl
    · left
      have : 64 ∉ glueDots parts (name ++ 46 :: h) := by
        rw [hw]; simp only [List.mem_append, List.mem_cons]
        rintro (hm | hm | hm)
        · exact hAat (List.mem_cons.mpr hm)
        · omega
        · exact hh64 hm
      exact ⟨lastIdxOf_not_mem this, idxOf_not_mem this⟩
    · right
      rw [hw]
      obtain ⟨e1, e2⟩ := idx_single (c := 64) hAat hh64
      rw [e1, e2]
      exact ⟨rfl, lastIdx_before (by omega) hh46⟩
  unfold parseAddrLit
  simp only [trimSpace_id (fun c hc => textC_not_space (htext c hc)), asciiLower_id htext, g5, g6, htrim]
  have c7 : ((parts ++ [name, h]).length == 1) = false := by simp
  rw [if_neg, if_neg, if_neg, if_neg, if_neg (by simp), if_neg (by simp), c7, if_neg (by simp)]
  · exact parseChunks_ok bech parts name h hp hn hh
  · simp only [Bool.or_eq_true, beq_iff_eq]; omega
  · simp only [Bool.or_eq_true, beq_iff_eq]; omega
  · simp only [Bool.and_eq_true, decide_eq_true_eq, bne_iff_ne]; omega
  · simp only [Bool.and_eq_true, decide_eq_true_eq]; omega

end DymVerif.Keys
