/-
  Lemmas/LCBasic — lookup / update lemmas for M-LC (core Lean only).
-/
import DymVerif.Model.LC
namespace DymVerif.LC
open DymVerif.Core (Addr NextP)

-- ---------------------------------------------------------------- association lists

theorem lookup_append_left {l l' : List (Nat × Nat)} {k v : Nat} (h : lookup l k = some v) : lookup (l ++ l') k = some v := by
  unfold lookup at h ⊢
  cases hf : l.find? (fun x => x.1 == k) with
  | none => simp [hf] at h
  | some x => rw [List.find?_append, hf]; simpa [hf] using h

theorem lookup_append_single {l : List (Nat × Nat)} {k k' v' : Nat} (h : lookup l k = none) :
    lookup (l ++ [(k', v')]) k = if k' = k then some v' else none := by
  unfold lookup at h ⊢
  cases hf : l.find? (fun x => x.1 == k) with
  | some x => simp [hf] at h
  | none =>
    rw [List.find?_append, hf]
    by_cases hk : k' = k
    · simp [hk]
    · simp [hk]

theorem lookup_isSome_append {l l' : List (Nat × Nat)} {k : Nat} (h : (lookup l k).isSome) : lookup (l ++ l') k = lookup l k := by
  cases hv : lookup l k with
  | none => simp [hv] at h
  | some v => exact lookup_append_left hv

-- ---------------------------------------------------------------- clients

theorem getClient_id {s : St} {c : Nat} {cl : Client} (h : getClient s c = some cl) : cl.id = c := by
  unfold getClient at h
  simpa using List.find?_some h

theorem getClient_mem {s : St} {c : Nat} {cl : Client} (h : getClient s c = some cl) : cl ∈ s.clients := by
  unfold getClient at h
  exact List.mem_of_find?_eq_some h

theorem getClient_setClient (s : St) (cl : Client) (c : Nat) :
    getClient (setClient s cl) c = (getClient s c).map (fun x => if x.id == cl.id then cl else x) := by
  unfold getClient setClient
  simp only
  rw [List.find?_map]
  have hcomp : ((fun z : Client => z.id == c) ∘ fun y : Client => if (y.id == cl.id) = true then cl else y) = fun z : Client => z.id == c := by
    funext y
    simp only [Function.comp]
    by_cases hy : (y.id == cl.id) = true
    · simp only [hy, if_true]
      have : y.id = cl.id := by simpa using hy
      rw [this]
    · simp [hy]
  rw [hcomp]

theorem getClient_setClient_self {s : St} {cl old : Client} (h : getClient s cl.id = some old) : getClient (setClient s cl) cl.id = some cl := by
  rw [getClient_setClient, h]
  simp [getClient_id h]

theorem getClient_setClient_ne {s : St} {cl : Client} {c : Nat} (h : c ≠ cl.id) : getClient (setClient s cl) c = getClient s c := by
  rw [getClient_setClient]
  cases hg : getClient s c with
  | none => rfl
  | some x =>
    have : ¬ x.id = cl.id := by rw [getClient_id hg]; exact h
    simp [this]

theorem mem_setClient {s : St} {cl x : Client} (h : x ∈ (setClient s cl).clients) : x = cl ∨ x ∈ s.clients := by
  unfold setClient at h
  simp only [List.mem_map] at h
  obtain ⟨z, hz, rfl⟩ := h
  by_cases c : z.id == cl.id
  · simp [c]
  · simp [c, hz]

theorem getClient_append (s : St) (n : Client) (c : Nat) (s' : St) (e : s'.clients = s.clients ++ [n]) :
    getClient s' c = (getClient s c).or (if n.id = c then some n else none) := by
  unfold getClient
  rw [e, List.find?_append]
  cases s.clients.find? (fun x => x.id == c) with
  | some x => rfl
  | none =>
    by_cases hc : n.id = c
    · simp [hc]
    · simp [hc]

-- ---------------------------------------------------------------- consensus states

theorem getCons_insCons (l : List (Nat × Cons)) (h : Nat) (c : Cons) (h' : Nat) :
    ((insCons h c l).find? (·.1 == h')).map (·.2) = if h' = h then some c else (l.find? (·.1 == h')).map (·.2) := by
  induction l with
  | nil =>
    by_cases e : h' = h
    · simp [insCons, e]
    · have : (h == h') = false := by simp [Ne.symm e]
      simp [insCons, e, this]
  | cons x xs ih =>
    unfold insCons
    by_cases h1 : h < x.1
    · simp only [h1, if_true, List.find?_cons]
      by_cases e : h' = h
      · simp [e]
      · have : (h == h') = false := by simp [Ne.symm e]
        simp [e, this]
    · simp only [h1, if_false]
      by_cases h2 : (h == x.1) = true
      · simp only [h2, if_true, List.find?_cons]
        have hx : x.1 = h := by simpa using Eq.symm (by simpa using h2 : h = x.1)
        by_cases e : h' = h
        · simp [e]
        · have e1 : (h == h') = false := by simp [Ne.symm e]
          have e2 : (x.1 == h') = false := by simp [hx, Ne.symm e]
          simp [e, e1, e2]
      · have hx : ¬ x.1 = h := fun e => h2 (by simp [e])
        have h2' : (h == x.1) = false := by simpa using h2
        simp only [h2', Bool.false_eq_true, if_false, List.find?_cons]
        cases e3 : (x.1 == h') with
        | true =>
          have hxh : x.1 = h' := by simpa using e3
          have e : ¬ h' = h := fun e => hx (hxh.trans e)
          simp [e]
        | false => exact ih

theorem getCons_ins (cl : Client) (h : Nat) (c : Cons) (l : Nat) (f : Bool) (h' : Nat) :
    getCons { cl with cons := insCons h c cl.cons, latest := l, frozen := f } h' = if h' = h then some c else getCons cl h' := by
  unfold getCons
  exact getCons_insCons cl.cons h c h'

theorem mem_insCons {l : List (Nat × Cons)} {h : Nat} {c : Cons} {x : Nat × Cons} (hx : x ∈ insCons h c l) : x = (h, c) ∨ x ∈ l := by
  induction l with
  | nil => simp [insCons] at hx; exact Or.inl hx
  | cons y ys ih =>
    unfold insCons at hx
    split at hx
    · simp only [List.mem_cons] at hx ⊢
      rcases hx with h1 | h1 | h1
      · exact Or.inl h1
      · exact Or.inr (Or.inl h1)
      · exact Or.inr (Or.inr h1)
    · split at hx
      · simp only [List.mem_cons] at hx ⊢
        rcases hx with h1 | h1
        · exact Or.inl h1
        · exact Or.inr (Or.inr h1)
      · simp only [List.mem_cons] at hx ⊢
        rcases hx with h1 | h1
        · exact Or.inr (Or.inl h1)
        · rcases ih h1 with h2 | h2
          · exact Or.inl h2
          · exact Or.inr (Or.inr h2)

/-- a filter that depends only on the key does not disturb a lookup of a key that passes it -/
theorem find_filter_key {α : Type} (l : List α) (key p : α → Bool) (hp : ∀ a, key a = true → p a = true) :
    (l.filter p).find? key = l.find? key := by
  induction l with
  | nil => rfl
  | cons x xs ih =>
    by_cases hx : p x = true
    · rw [List.filter_cons_of_pos hx, List.find?_cons, List.find?_cons, ih]
    · have hk : key x = false := by
        cases hkx : key x with
        | false => rfl
        | true => exact absurd (hp x hkx) hx
      rw [List.filter_cons_of_neg hx, List.find?_cons, hk, ih]

theorem getCons_filter_le (cl : Client) (lv h : Nat) (l : Nat) (f : Bool) (hle : h ≤ lv) :
    getCons { cl with cons := cl.cons.filter (·.1 ≤ lv), latest := l, frozen := f } h = getCons cl h := by
  unfold getCons
  simp only
  rw [find_filter_key cl.cons (fun x => x.1 == h) (fun x => decide (x.1 ≤ lv))]
  intro a ha
  have : a.1 = h := by simpa using ha
  simp [this, hle]

theorem getCons_filter_sub (cl : Client) (lv h : Nat) (l : Nat) (f : Bool) (cs : Cons)
    (hg : getCons { cl with cons := cl.cons.filter (·.1 ≤ lv), latest := l, frozen := f } h = some cs) : getCons cl h = some cs ∧ h ≤ lv := by
  unfold getCons at hg
  simp only at hg
  cases hf : (cl.cons.filter (fun x => decide (x.1 ≤ lv))).find? (fun x => x.1 == h) with
  | none => simp [hf] at hg
  | some x =>
    have hm := List.mem_of_find?_eq_some hf
    have hk : x.1 = h := by simpa using List.find?_some hf
    have hle : x.1 ≤ lv := by simpa using (List.mem_filter.1 hm).2
    have hle' : h ≤ lv := hk ▸ hle
    refine ⟨?_, hle'⟩
    rw [← getCons_filter_le cl lv h l f hle']
    unfold getCons
    simpa using hg

-- ---------------------------------------------------------------- descriptors

theorem getDesc_append_left {s : St} {ra h : Nat} {d : Desc} (l : List Desc) (s' : St) (e : s'.descs = s.descs ++ l)
    (hg : getDesc s ra h = some d) : getDesc s' ra h = some d := by
  unfold getDesc at hg ⊢
  rw [e, List.find?_append, hg]; rfl

theorem getDesc_append_none {s : St} {ra h : Nat} (l : List Desc) (s' : St) (e : s'.descs = s.descs ++ l)
    (hg : getDesc s ra h = none) : getDesc s' ra h = l.find? (fun d => d.ra == ra && d.h == h) := by
  unfold getDesc at hg ⊢
  rw [e, List.find?_append, hg]; rfl

theorem getDesc_filter {s s' : St} {ra lv : Nat} (e : s'.descs = s.descs.filter (fun d => !(d.ra == ra && lv < d.h)))
    (r h : Nat) (d : Desc) (hg : getDesc s' r h = some d) : getDesc s r h = some d ∧ ¬ (r = ra ∧ lv < h) := by
  unfold getDesc at hg ⊢
  rw [e] at hg
  have hm := List.mem_of_find?_eq_some hg
  have hk := List.find?_some hg
  simp only [Bool.and_eq_true, beq_iff_eq] at hk
  have hp := (List.mem_filter.1 hm).2
  have hnot : ¬ (r = ra ∧ lv < h) := by
    intro ⟨h1, h2⟩
    simp [hk.1, hk.2, h1, h2] at hp
  refine ⟨?_, hnot⟩
  rw [← find_filter_key s.descs (fun d => d.ra == r && d.h == h) (fun d => !(d.ra == ra && decide (lv < d.h)))]
  · exact hg
  · intro a ha
    simp only [Bool.and_eq_true, beq_iff_eq] at ha
    by_cases c : r = ra ∧ lv < h
    · exact absurd c hnot
    · simp only [ha.1, ha.2, Bool.not_eq_true', Bool.and_eq_false_iff, beq_eq_false_iff_ne, ne_eq, decide_eq_false_iff_not]
      by_cases c1 : r = ra
      · right; exact fun h2 => c ⟨c1, h2⟩
      · left; exact c1

-- ---------------------------------------------------------------- frame lemmas (signer bookkeeping touches nothing else)

@[simp] theorem saveSigner_clients (s : St) (c h : Nat) (a : Addr) : (saveSigner s c h a).clients = s.clients := rfl
@[simp] theorem saveSigner_descs (s : St) (c h : Nat) (a : Addr) : (saveSigner s c h a).descs = s.descs := rfl
@[simp] theorem saveSigner_r2c (s : St) (c h : Nat) (a : Addr) : (saveSigner s c h a).r2c = s.r2c := rfl
@[simp] theorem saveSigner_c2r (s : St) (c h : Nat) (a : Addr) : (saveSigner s c h a).c2r = s.c2r := rfl
@[simp] theorem saveSigner_chanOf (s : St) (c h : Nat) (a : Addr) : (saveSigner s c h a).chanOf = s.chanOf := rfl
@[simp] theorem saveSigner_chans (s : St) (c h : Nat) (a : Addr) : (saveSigner s c h a).chans = s.chans := rfl
@[simp] theorem saveSigner_core (s : St) (c h : Nat) (a : Addr) : (saveSigner s c h a).core = s.core := rfl
@[simp] theorem pruneWhere_clients (s : St) (c : Nat) (p : Nat → Bool) : (pruneWhere s c p).clients = s.clients := rfl
@[simp] theorem pruneWhere_descs (s : St) (c : Nat) (p : Nat → Bool) : (pruneWhere s c p).descs = s.descs := rfl
@[simp] theorem pruneWhere_r2c (s : St) (c : Nat) (p : Nat → Bool) : (pruneWhere s c p).r2c = s.r2c := rfl
@[simp] theorem pruneWhere_c2r (s : St) (c : Nat) (p : Nat → Bool) : (pruneWhere s c p).c2r = s.c2r := rfl
@[simp] theorem pruneWhere_chanOf (s : St) (c : Nat) (p : Nat → Bool) : (pruneWhere s c p).chanOf = s.chanOf := rfl
@[simp] theorem pruneWhere_chans (s : St) (c : Nat) (p : Nat → Bool) : (pruneWhere s c p).chans = s.chans := rfl
@[simp] theorem pruneWhere_core (s : St) (c : Nat) (p : Nat → Bool) : (pruneWhere s c p).core = s.core := rfl
@[simp] theorem setClient_descs (s : St) (cl : Client) : (setClient s cl).descs = s.descs := rfl
@[simp] theorem setClient_r2c (s : St) (cl : Client) : (setClient s cl).r2c = s.r2c := rfl
@[simp] theorem setClient_c2r (s : St) (cl : Client) : (setClient s cl).c2r = s.c2r := rfl
@[simp] theorem setClient_chanOf (s : St) (cl : Client) : (setClient s cl).chanOf = s.chanOf := rfl
@[simp] theorem setClient_chans (s : St) (cl : Client) : (setClient s cl).chans = s.chans := rfl
@[simp] theorem setClient_core (s : St) (cl : Client) : (setClient s cl).core = s.core := rfl

theorem getClient_congr {s s' : St} (e : s'.clients = s.clients) (c : Nat) : getClient s' c = getClient s c := by
  unfold getClient; rw [e]

theorem getDesc_congr {s s' : St} (e : s'.descs = s.descs) (r h : Nat) : getDesc s' r h = getDesc s r h := by
  unfold getDesc; rw [e]

end DymVerif.LC
