import DymVerif.Lemmas.SponsRun
/-
  Lemmas/SponsMin — the minimum voting power under MsgUpdateParams.  `MinInv` (recorded power ≥ the
  CURRENT minimum) is kept by every op except a RAISE of MinVotingPower (`step_min`, `NoRaiseMin`):
  `SetParams` does not revisit the stored votes.  What is true in ALL histories: a vote's recorded
  power is at least the minimum that was in force when the vote last changed (`GMinInv`, with the
  ghost map `ghostRun`).
-/
namespace DymVerif.Spons

/-- every voter's vote is either left as it was or, if present afterwards, at least the minimum in
    force after the op -/
def Touch (s s' : State) : Prop :=
  ∀ b, s'.vote? b = s.vote? b ∨ ∀ v', s'.vote? b = some v' → s'.minVP ≤ v'.vp

theorem Touch.refl (s : State) : Touch s s := fun _ => Or.inl rfl

theorem Touch.trans {a b c : State} (h1 : Touch a b) (h2 : Touch b c) (hm : c.minVP = b.minVP) : Touch a c := by
  intro x
  rcases h2 x with e2 | g2
  · rcases h1 x with e1 | g1
    · exact Or.inl (e2.trans e1)
    · refine Or.inr (fun v' hv' => ?_)
      rw [hm]; exact g1 v' (e2 ▸ hv')
  · exact Or.inr g2

theorem Touch.of_same {s s' : State} (h : s'.votes = s.votes) : Touch s s' := by
  intro b; left; unfold State.vote?; rw [h]

theorem revokeVote_touch (s : State) (a : Nat) (v : Vote) : Touch s (s.revokeVote a v) := by
  intro b
  by_cases hb : b = a
  · subst hb
    right; intro v' hv'
    unfold State.vote? at hv'
    rw [revokeVote_votes, alookup_aerase_self] at hv'; cases hv'
  · left
    unfold State.vote?
    rw [revokeVote_votes, alookup_aerase_ne hb]

theorem castVote_touch {s1 s' : State} {a : Nat} {ws : List GP} (hc : s1.castVote a ws = .ok s') : Touch s1 s' := by
  obtain ⟨hlow, hvotes, _, _, hmin⟩ := castVote_ok hc
  intro b
  by_cases hb : b = a
  · subst hb
    right; intro v' hv'
    unfold State.vote? at hv'
    rw [hvotes, alookup_aset_self] at hv'
    cases hv'
    rw [hmin]; exact hlow
  · left
    unfold State.vote?
    rw [hvotes, alookup_aset_ne hb]

theorem castVote_minVP {s1 s' : State} {a : Nat} {ws : List GP} (hc : s1.castVote a ws = .ok s') :
    s'.minVP = s1.minVP := (castVote_ok hc).2.2.2.2

theorem vote_touch {s s' : State} {a : Nat} {ws : List GP} (h : s.vote a ws = .ok s') : Touch s s' := by
  unfold State.vote at h
  split at h
  · cases h
  split at h
  · cases h
  split at h
  · exact (revokeVote_touch s a _).trans (castVote_touch h) (castVote_minVP h)
  · exact castVote_touch h

theorem processHook_minVP (s : State) (a val : Nat) (v : Vote) (o n : Int) : (s.processHook a val v o n).minVP = s.minVP := by
  unfold State.processHook; simp only; split <;> rfl

theorem processHook_touch (s : State) (a val : Nat) (v : Vote) (o n : Int) : Touch s (s.processHook a val v o n) := by
  unfold State.processHook
  simp only
  split
  · exact revokeVote_touch s a v
  · rename_i hge
    intro b
    by_cases hb : b = a
    · subst hb
      right; intro v' hv'
      have hv'' : alookup b (aset b (⟨v.vp + (n - o), v.weights⟩ : Vote) s.votes) = some v' := hv'
      rw [alookup_aset_self] at hv''
      cases hv''
      show s.minVP ≤ v.vp + (n - o)
      omega
    · left
      show alookup b (aset a (⟨v.vp + (n - o), v.weights⟩ : Vote) s.votes) = alookup b s.votes
      rw [alookup_aset_ne hb]

theorem hook_minVP {s s' : State} {a val : Nat} {p : Option Int} (h : s.hook a val p = .ok s') : s'.minVP = s.minVP := by
  rcases hook_ok h with ⟨_, rfl⟩ | ⟨v, _, rfl⟩
  · rfl
  · exact processHook_minVP _ _ _ _ _ _

theorem hook_touch {s s' : State} {a val : Nat} {p : Option Int} (h : s.hook a val p = .ok s') : Touch s s' := by
  rcases hook_ok h with ⟨_, rfl⟩ | ⟨v, _, rfl⟩
  · exact Touch.refl _
  · exact processHook_touch _ _ _ _ _ _

theorem hooks_touch {s s' : State} {a : Nat} {hs : List (Nat × Option Int)} (h : s.hooks a hs = .ok s') :
    Touch s s' ∧ s'.minVP = s.minVP := by
  induction hs generalizing s with
  | nil => cases h; exact ⟨Touch.refl _, rfl⟩
  | cons x xs ih =>
    unfold State.hooks at h
    split at h
    · cases h
    · rename_i s1 h1
      have := ih h
      exact ⟨(hook_touch h1).trans this.1 this.2, this.2.trans (hook_minVP h1)⟩

theorem step_touch (s : State) (op : Op) : Touch s (step s op).1 := by
  cases op with
  | vote a ws =>
    simp only [step]; split
    · rename_i s1 h; exact vote_touch h
    · exact Touch.refl _
  | revoke a =>
    simp only [step]; split
    · rename_i s1 h
      unfold State.revoke at h; split at h
      · cases h
      · cases h; exact revokeVote_touch _ _ _
    · exact Touch.refl _
  | claim a g =>
    simp only [step]; split
    · rename_i s1 p h; exact Touch.of_same (claim_core h).1.votes
    · exact Touch.refl _
  | staking a hs fin =>
    simp only [step]; split
    · rename_i s1 h
      unfold State.staking at h
      split at h
      · cases h
      · rename_i s2 h2; cases h; exact fun b => (hooks_touch h2).1 b
    · exact Touch.refl _
  | slash fin => exact fun _ => Or.inl rfl
  | epochEnd d => exact Touch.of_same (epochEnd_core s d).1.votes
  | fund g amt =>
    simp only [step]; split
    · rename_i s1 h; exact Touch.of_same (fund_core h).1.votes
    · exact Touch.refl _
  | addGauge g =>
    simp only [step]; split
    · rename_i s1 h; exact Touch.of_same (addGauge_core h).1.votes
    · exact Touch.refl _
  | addRollapp r =>
    simp only [step]; split
    · rename_i s1 h; exact Touch.of_same (addRollapp_core h).1.votes
    · exact Touch.refl _
  | setParams ma mv =>
    simp only [step]; split
    · rename_i s1 h; obtain ⟨rfl, _⟩ := setParams_ok h; exact fun _ => Or.inl rfl
    · exact Touch.refl _

/-! ### the ghost map: minimum in force when a vote last changed -/

def ghostStep (s s' : State) (m : Nat → Int) : Nat → Int :=
  fun b => if s'.vote? b = s.vote? b then m b else s'.minVP

def ghostRun (s : State) (m : Nat → Int) : List Op → (Nat → Int)
  | [] => m
  | op :: ops => ghostRun (step s op).1 (ghostStep s (step s op).1 m) ops

/-- recorded power ≥ the minimum in force when the vote last changed -/
def GMinInv (s : State) (m : Nat → Int) : Prop := ∀ a v, s.vote? a = some v → m a ≤ v.vp

theorem step_gmin {s : State} {op : Op} {m : Nat → Int} (h : GMinInv s m) :
    GMinInv (step s op).1 (ghostStep s (step s op).1 m) := by
  intro a v hv
  unfold ghostStep
  split
  · rename_i he
    exact h a v (he ▸ hv)
  · rename_i hne
    rcases step_touch s op a with e | g
    · exact absurd e hne
    · exact g v hv

theorem run_gmin {s : State} {m : Nat → Int} (ops : List Op) (h : GMinInv s m) :
    GMinInv (run s ops) (ghostRun s m ops) := by
  induction ops generalizing s m with
  | nil => exact h
  | cons op ops ih => exact ih (step_gmin h)

/-! ### histories that never raise MinVotingPower -/

def RunNoRaiseMin : State → List Op → Prop
  | _, [] => True
  | s, op :: ops => NoRaiseMin s op ∧ RunNoRaiseMin (step s op).1 ops

theorem run_min {s : State} (ops : List Op) (hm : MinInv s) (hr : RunNoRaiseMin s ops) : MinInv (run s ops) := by
  induction ops generalizing s with
  | nil => exact hm
  | cons op ops ih => exact ih (step_min hm hr.1) hr.2

end DymVerif.Spons
