/-
  Lemmas/GenEqKeys — the regenerated translation of the Go key builders (`Gen/Keys.lean`, rewritten
  from /repo's working tree by every check) equals the hand-written model the C19 theorems are
  about.  A semantic change to a Go key builder changes the generated term and breaks the
  corresponding lemma here.
-/
import DymVerif.Gen.Keys
namespace DymVerif.GenEq
open DymVerif DymVerif.Keys

theorem statusName_eq : Gen.Keys.statusName = statusStr := by funext s; cases s <;> rfl
theorem statusName_count : Gen.Keys.statusNameCount = 2 := rfl
theorem ptypeName_eq : Gen.Keys.ptypeName = ptypeStr := by funext s; cases s <;> rfl
theorem ptypeName_count : Gen.Keys.ptypeNameCount = 4 := rfl

theorem mustGetStatusBytes_eq : Gen.Keys.mustGetStatusBytes = statusBytes := by
  funext s; cases s <;> rfl

theorem byStatusPrefix_eq : Gen.Keys.rollappPacketByStatusPrefix = byStatusPrefix := by
  funext s; simp [Gen.Keys.rollappPacketByStatusPrefix, byStatusPrefix, mustGetStatusBytes_eq, sep]

theorem byStatusRollappPrefix_eq :
    Gen.Keys.rollappPacketByStatusByRollappIDPrefix = byStatusRollappPrefix := by
  funext s r
  simp [Gen.Keys.rollappPacketByStatusByRollappIDPrefix, Gen.Keys.rollappPacketByRollappIDPrefix,
    byStatusRollappPrefix, byStatusPrefix_eq, sep]

theorem byStatusRollappHeightPrefix_eq :
    Gen.Keys.rollappPacketByStatusByRollappIDByProofHeightPrefix = byStatusRollappHeightPrefix := by
  funext r s h
  simp [Gen.Keys.rollappPacketByStatusByRollappIDByProofHeightPrefix, byStatusRollappHeightPrefix,
    byStatusRollappPrefix_eq]

theorem rollappPacketKey_eq : Gen.Keys.rollappPacketKey = rollappPacketKey := by
  funext st r h t c s
  simp [Gen.Keys.rollappPacketKey, rollappPacketKey, byStatusRollappHeightPrefix_eq, ptypeName_eq, sep]

theorem pendingByMaxHeightRange_eq : Gen.Keys.pendingByMaxHeightRange = pendingByMaxHeightRange := by
  funext r m
  simp [Gen.Keys.pendingByMaxHeightRange, pendingByMaxHeightRange, byStatusRollappHeightPrefix_eq]

theorem pendingFromHeightRange_eq : Gen.Keys.pendingFromHeightRange = pendingFromHeightRange := by
  funext r m
  simp [Gen.Keys.pendingFromHeightRange, pendingFromHeightRange, byStatusRollappHeightPrefix_eq]

theorem demandOrderKey_eq : Gen.Keys.getDemandOrderKey = demandOrderKey := by
  funext st i
  cases st <;> simp [Gen.Keys.getDemandOrderKey, demandOrderKey, statusName_eq, statusBytes, sep]

theorem livenessIterHeightKey_eq : Gen.Keys.livenessEventQueueIterHeightKey = livenessIterHeightKey := by
  funext h; simp [Gen.Keys.livenessEventQueueIterHeightKey, livenessIterHeightKey, sep]

theorem livenessKey_eq : Gen.Keys.livenessEventQueueKey = livenessKey := by
  funext h r
  simp [Gen.Keys.livenessEventQueueKey, livenessKey, livenessIterHeightKey_eq, sep]

theorem sequencersByRollappKey_eq : Gen.Keys.sequencersByRollappKey = sequencersByRollappKey := by
  funext r; simp [Gen.Keys.sequencersByRollappKey, sequencersByRollappKey, sep]

theorem sequencersByRollappByStatusKey_eq :
    Gen.Keys.sequencersByRollappByStatusKey = sequencersByRollappByStatusKey := by
  funext r st
  cases st <;> simp [Gen.Keys.sequencersByRollappByStatusKey, sequencersByRollappByStatusKey,
    sequencersByRollappKey_eq, opStatusPrefix, sep]

theorem sequencerByRollappByStatusKey_eq :
    Gen.Keys.sequencerByRollappByStatusKey = sequencerByRollappByStatusKey := by
  funext r a st
  simp [Gen.Keys.sequencerByRollappByStatusKey, sequencerByRollappByStatusKey,
    sequencersByRollappByStatusKey_eq]

/-- the decoder the source currently has — its BODY translated statement by statement over the buffer
    primitives `b64DecodedLen` / `b64DecodeInto` / `List.take` — is the exact (length-respecting) one -/
theorem decodePacketKey_eq (s : Bytes) : Gen.Keys.decodePacketKey s = decodePacketKeyExact s := by
  unfold Gen.Keys.decodePacketKey decodePacketKeyExact b64DecodeInto
  cases b64dec s with
  | none => rfl
  | some d => simp

-- time-sorted keys / sequencer key families -------------------------------------------------------

theorem sequencerKey_eq : Gen.Keys.sequencerKey = sequencerKey := by
  funext a; simp [Gen.Keys.sequencerKey, sequencerKey, sep]

theorem proposerByRollappKey_eq : Gen.Keys.proposerByRollappKey = proposerByRollappKey := by
  funext a; simp [Gen.Keys.proposerByRollappKey, proposerByRollappKey, sep]

theorem successorByRollappKey_eq : Gen.Keys.successorByRollappKey = successorByRollappKey := by
  funext a; simp [Gen.Keys.successorByRollappKey, successorByRollappKey, sep]

theorem noticePeriodQueueKey_eq : Gen.Keys.noticePeriodQueueKey = noticePeriodQueueKey := rfl

theorem noticeQueueByTimeKey_eq : Gen.Keys.noticeQueueByTimeKey = noticeQueueByTimeKey := by
  funext t; rfl

theorem noticeQueueBySeqTimeKey_eq : Gen.Keys.noticeQueueBySeqTimeKey = noticeQueueBySeqTimeKey := by
  funext a t
  simp [Gen.Keys.noticeQueueBySeqTimeKey, noticeQueueBySeqTimeKey, noticeQueueByTimeKey_eq, sep]

/-- `utils.EncodeTimeToKey` (make + two copies = prefix followed by `sdk.FormatTimeBytes(endTime)`):
    the statement listing `Keys.encodeTimeToKey` was written against -/
theorem encodeTimeToKey_listing : Gen.Keys.encodeTimeToKeyListing =
  ["func EncodeTimeToKey(queueKey []byte, endTime time.Time) []byte",
   "  timeBz := sdk.FormatTimeBytes(endTime)",
   "  prefixL := len(queueKey)",
   "  bz := make([]byte, prefixL+len(timeBz))",
   "  copy(bz[:prefixL], queueKey)",
   "  copy(bz[prefixL:], timeBz)",
   "  return bz"] := rfl

/-- the iterator bounds `Keys.noticeQueueRange` mirrors:
    `store.Iterator(NoticePeriodQueueKey, PrefixEndBytes(NoticeQueueByTimeKey(*endTime)))` -/
theorem noticeQueue_listing : Gen.Keys.noticeQueueListing =
  ["func (k Keeper) NoticeQueue(ctx sdk.Context, endTime *time.Time) ([]types.Sequencer, error)",
   "  ret := []types.Sequencer{}",
   "  store := ctx.KVStore(k.storeKey)",
   "  prefix := types.NoticePeriodQueueKey",
   "  if endTime != nil",
   "    prefix = types.NoticeQueueByTimeKey(*endTime)",
   "  iterator := store.Iterator(types.NoticePeriodQueueKey, storetypes.PrefixEndBytes(prefix))",
   "  defer iterator.Close()",
   "  for ; iterator.Valid(); iterator.Next()",
   "    addr := string(iterator.Value())",
   "    seq, err := k.RealSequencer(ctx, string(iterator.Value()))",
   "    if err != nil",
   "      return nil, gerrc.ErrInternal",
   "    ret = append(ret, seq)",
   "  return ret, nil"] := rfl

theorem noticeElapsedProposers_listing : Gen.Keys.noticeElapsedProposersListing =
  ["func (k Keeper) NoticeElapsedProposers(ctx sdk.Context, endTime time.Time) ([]types.Sequencer, error)",
   "  return k.NoticeQueue(ctx, &endTime)"] := rfl

-- buy-order ids ---------------------------------------------------------------------------------------

theorem buyOrderIdTypeDymNamePrefix_eq : Gen.Keys.buyOrderIdTypeDymNamePrefix = buyOrderIdPrefix .name := rfl
theorem buyOrderIdTypeAliasPrefix_eq : Gen.Keys.buyOrderIdTypeAliasPrefix = buyOrderIdPrefix .alias := rfl

/-- the validator `Keys.parseBuyOrderId` / `Keys.isValidBuyOrderId` was written against -/
theorem isValidBuyOrderId_listing : Gen.Keys.isValidBuyOrderIdListing =
  ["func IsValidBuyOrderId(id string) bool",
   "  if len(id) < 3",
   "    return false",
   "  switch id[:2]",
   "    case BuyOrderIdTypeDymNamePrefix",
   "    case BuyOrderIdTypeAliasPrefix",
   "    default",
   "      return false",
   "  ui, err := strconv.ParseUint(id[2:], 10, 64)",
   "  return err == nil && ui > 0"] := rfl

/-- the constructor `Keys.createBuyOrderId` was written against -/
theorem createBuyOrderId_listing : Gen.Keys.createBuyOrderIdListing =
  ["func CreateBuyOrderId(_type AssetType, i uint64) string",
   "  var prefix string",
   "  switch _type",
   "    case TypeName",
   "      prefix = BuyOrderIdTypeDymNamePrefix",
   "    case TypeAlias",
   "      prefix = BuyOrderIdTypeAliasPrefix",
   "    default",
   "      panic()",
   "  buyOrderId := prefix + math.NewIntFromUint64(i).String()",
   "  if !IsValidBuyOrderId(buyOrderId)",
   "    panic()",
   "  return buyOrderId"] := rfl

-- IRO denoms and plan keys ------------------------------------------------------------------------------

theorem iroDenom_eq : Gen.Keys.iRODenom = iroDenom := by funext r; rfl
theorem iroTokenPrefix_eq : Gen.Keys.iROTokenPrefix = iroTokenPrefix := rfl
theorem planKey_eq : Gen.Keys.planKey = planKey := by funext r; simp [Gen.Keys.planKey, planKey, sep]
theorem plansByRollappKey_eq : Gen.Keys.plansByRollappKey = plansByRollappKey := by
  funext r; simp [Gen.Keys.plansByRollappKey, plansByRollappKey, sep]
theorem lastPlanIdKey_eq : Gen.Keys.lastPlanIdKey = [3] := rfl
theorem iroParamsKey_eq : Gen.Keys.iroParamsKey = [4] := rfl

theorem rollappIDFromIRODenom_listing : Gen.Keys.rollappIDFromIRODenomListing =
  ["func RollappIDFromIRODenom(denom string) (string, bool)",
   "  return strings.CutPrefix(denom, IROTokenPrefix)"] := rfl

/-- plans are keyed by the decimal rendering of their id (`Keys.planKeyById`) -/
theorem setPlan_listing : Gen.Keys.setPlanListing =
  ["func (k Keeper) SetPlan(ctx sdk.Context, plan types.Plan)",
   "  store := ctx.KVStore(k.storeKey)",
   "  b := k.cdc.MustMarshal(&plan)",
   "  store.Set(types.PlanKey(fmt.Sprintf(\"%d\", plan.Id)), b)",
   "  planByRollappKey := types.PlansByRollappKey(plan.RollappId)",
   "  store.Set(planByRollappKey, []byte(fmt.Sprintf(\"%d\", plan.Id)))"] := rfl

-- lockup reference keys --------------------------------------------------------------------------------

theorem lockupKeyIndexSeparator_eq : Gen.Keys.lockupKeyIndexSeparator = [0xFF] := rfl
/-- `combineKeys` joins with `KeyIndexSeparator` -/
theorem combineKeys_sep (a b : Bytes) (r : List Bytes) :
    combineKeys (a :: b :: r) = a ++ Gen.Keys.lockupKeyIndexSeparator ++ combineKeys (b :: r) := rfl
theorem unlockingPrefix_eq : unlockingPrefix true = Gen.Keys.lockupKeyPrefixUnlocking ∧
    unlockingPrefix false = Gen.Keys.lockupKeyPrefixNotUnlocking := ⟨rfl, rfl⟩
/-- the sub-key and family prefix bytes the model hard-codes (5, 6 and 7..14) -/
theorem lockup_prefix_bytes :
    Gen.Keys.lockupKeyPrefixTimestamp = [5] ∧ Gen.Keys.lockupKeyPrefixDuration = [6] ∧
    Gen.Keys.lockupKeyPrefixLockDuration = [7] ∧ Gen.Keys.lockupKeyPrefixAccountLockDuration = [8] ∧
    Gen.Keys.lockupKeyPrefixDenomLockDuration = [9] ∧ Gen.Keys.lockupKeyPrefixAccountDenomLockDuration = [10] ∧
    Gen.Keys.lockupKeyPrefixLockTimestamp = [11] ∧ Gen.Keys.lockupKeyPrefixAccountLockTimestamp = [12] ∧
    Gen.Keys.lockupKeyPrefixDenomLockTimestamp = [13] ∧ Gen.Keys.lockupKeyPrefixAccountDenomLockTimestamp = [14] :=
  ⟨rfl, rfl, rfl, rfl, rfl, rfl, rfl, rfl, rfl, rfl⟩

/-- the source `Keys.combineKeys` was written against -/
theorem lockup_combineKeys_listing_pinned : Gen.Keys.lockup_combineKeys_listing =
  ["func combineKeys(keys ...[]byte) []byte",
   "  return bytes.Join(keys, types.KeyIndexSeparator)"] := rfl

/-- the source `Keys.lkTimeKey` (prefix, 8-byte length, formatted time) was written against -/
theorem lockup_getTimeKey_listing_pinned : Gen.Keys.lockup_getTimeKey_listing =
  ["func getTimeKey(timestamp time.Time) []byte",
   "  timeBz := sdk.FormatTimeBytes(timestamp)",
   "  timeBzL := len(timeBz)",
   "  prefixL := len(types.KeyPrefixTimestamp)",
   "  bz := make([]byte, prefixL+8+timeBzL)",
   "  copy(bz[:prefixL], types.KeyPrefixTimestamp)",
   "  copy(bz[prefixL:prefixL+8], sdk.Uint64ToBigEndian(uint64(timeBzL)))",
   "  copy(bz[prefixL+8:prefixL+8+timeBzL], timeBz)",
   "  return bz"] := rfl

/-- the source `Keys.lkDurationKey` (clamp, big-endian, joined to the prefix) was written against -/
theorem lockup_getDurationKey_listing_pinned : Gen.Keys.lockup_getDurationKey_listing =
  ["func getDurationKey(duration time.Duration) []byte",
   "  if duration < 0",
   "    duration = 0",
   "  key := sdk.Uint64ToBigEndian(uint64(duration))",
   "  return combineKeys(types.KeyPrefixDuration, key)"] := rfl

/-- the source `Keys.durationLockRefKeys` was written against -/
theorem lockup_durationLockRefKeys_listing_pinned : Gen.Keys.lockup_durationLockRefKeys_listing =
  ["func durationLockRefKeys(lock types.PeriodLock) ([][]byte, error)",
   "  refKeys := [][]byte{}",
   "  durationKey := getDurationKey(lock.Duration)",
   "  owner, err := sdk.AccAddressFromBech32(lock.Owner)",
   "  if err != nil",
   "    return nil, err",
   "  refKeys = append(refKeys, combineKeys(types.KeyPrefixLockDuration, durationKey))",
   "  refKeys = append(refKeys, combineKeys(types.KeyPrefixAccountLockDuration, owner, durationKey))",
   "  for _, coin := range lock.Coins",
   "    denomBz := []byte(coin.Denom)",
   "    refKeys = append(refKeys, combineKeys(types.KeyPrefixDenomLockDuration, denomBz, durationKey))",
   "    refKeys = append(refKeys, combineKeys(types.KeyPrefixAccountDenomLockDuration, owner, denomBz, durationKey))",
   "  return refKeys, nil"] := rfl

/-- the source `Keys.lockRefKeys` was written against -/
theorem lockup_lockRefKeys_listing_pinned : Gen.Keys.lockup_lockRefKeys_listing =
  ["func lockRefKeys(lock types.PeriodLock) ([][]byte, error)",
   "  refKeys, _ := durationLockRefKeys(lock)",
   "  timeKey := getTimeKey(lock.EndTime)",
   "  owner, err := sdk.AccAddressFromBech32(lock.Owner)",
   "  if err != nil",
   "    return nil, err",
   "  refKeys = append(refKeys, combineKeys(types.KeyPrefixLockTimestamp, timeKey))",
   "  refKeys = append(refKeys, combineKeys(types.KeyPrefixAccountLockTimestamp, owner, timeKey))",
   "  for _, coin := range lock.Coins",
   "    denomBz := []byte(coin.Denom)",
   "    refKeys = append(refKeys, combineKeys(types.KeyPrefixDenomLockTimestamp, denomBz, timeKey))",
   "    refKeys = append(refKeys, combineKeys(types.KeyPrefixAccountDenomLockTimestamp, owner, denomBz, timeKey))",
   "  return refKeys, nil"] := rfl

/-- the source `Keys.unlockingPrefix`, `Keys.iter*`, `Keys.lkFamilyPrefix`, `Keys.lockRefStoreKey` was written against -/
theorem lockupIteratorsListing_pinned : Gen.Keys.lockupIteratorsListing =
  ["func unlockingPrefix(isUnlocking bool) []byte",
   "  if isUnlocking",
   "    return types.KeyPrefixUnlocking",
   "  return types.KeyPrefixNotUnlocking",
   "func (k Keeper) iteratorAfterTime(ctx sdk.Context, prefix []byte, time time.Time) storetypes.Iterator",
   "  store := ctx.KVStore(k.storeKey)",
   "  timeKey := getTimeKey(time)",
   "  key := combineKeys(prefix, timeKey)",
   "  return store.Iterator(storetypes.PrefixEndBytes(key), storetypes.PrefixEndBytes(prefix))",
   "func (k Keeper) iteratorBeforeTime(ctx sdk.Context, prefix []byte, maxTime time.Time) storetypes.Iterator",
   "  store := ctx.KVStore(k.storeKey)",
   "  timeKey := getTimeKey(maxTime)",
   "  key := combineKeys(prefix, timeKey)",
   "  return store.Iterator(prefix, storetypes.PrefixEndBytes(key))",
   "func (k Keeper) iteratorDuration(ctx sdk.Context, prefix []byte, duration time.Duration) storetypes.Iterator",
   "  durationKey := getDurationKey(duration)",
   "  key := combineKeys(prefix, durationKey)",
   "  store := ctx.KVStore(k.storeKey)",
   "  return storetypes.KVStorePrefixIterator(store, key)",
   "func (k Keeper) iteratorLongerDuration(ctx sdk.Context, prefix []byte, duration time.Duration) storetypes.Iterator",
   "  store := ctx.KVStore(k.storeKey)",
   "  durationKey := getDurationKey(duration)",
   "  key := combineKeys(prefix, durationKey)",
   "  return store.Iterator(key, storetypes.PrefixEndBytes(prefix))",
   "func (k Keeper) iteratorShorterDuration(ctx sdk.Context, prefix []byte, duration time.Duration) storetypes.Iterator",
   "  store := ctx.KVStore(k.storeKey)",
   "  durationKey := getDurationKey(duration)",
   "  key := combineKeys(prefix, durationKey)",
   "  return store.Iterator(prefix, key)",
   "func (k Keeper) iterator(ctx sdk.Context, prefix []byte) storetypes.Iterator",
   "  store := ctx.KVStore(k.storeKey)",
   "  return storetypes.KVStorePrefixIterator(store, prefix)",
   "func (k Keeper) LockIteratorBeforeTime(ctx sdk.Context, time time.Time) storetypes.Iterator",
   "  unlockingPrefix := unlockingPrefix(true)",
   "  return k.iteratorBeforeTime(ctx, combineKeys(unlockingPrefix, types.KeyPrefixLockTimestamp), time)",
   "func (k Keeper) AccountLockIteratorBeforeTime(ctx sdk.Context, addr sdk.AccAddress, time time.Time) storetypes.Iterator",
   "  unlockingPrefix := unlockingPrefix(true)",
   "  return k.iteratorBeforeTime(ctx, combineKeys(unlockingPrefix, types.KeyPrefixAccountLockTimestamp, addr), time)",
   "func (k Keeper) LockIteratorAfterTimeDenom(ctx sdk.Context, denom string, time time.Time) storetypes.Iterator",
   "  unlockingPrefix := unlockingPrefix(true)",
   "  return k.iteratorAfterTime(ctx, combineKeys(unlockingPrefix, types.KeyPrefixDenomLockTimestamp, []byte(denom)), time)",
   "func (k Keeper) LockIteratorLongerThanDurationDenom(ctx sdk.Context, isUnlocking bool, denom string, duration time.Duration) storetypes.Iterator",
   "  unlockingPrefix := unlockingPrefix(isUnlocking)",
   "  return k.iteratorLongerDuration(ctx, combineKeys(unlockingPrefix, types.KeyPrefixDenomLockDuration, []byte(denom)), duration)",
   "func (k Keeper) AccountLockIterator(ctx sdk.Context, isUnlocking bool, addr sdk.AccAddress) storetypes.Iterator",
   "  unlockingPrefix := unlockingPrefix(isUnlocking)",
   "  return k.iterator(ctx, combineKeys(unlockingPrefix, types.KeyPrefixAccountLockDuration, addr))",
   "func (k Keeper) AccountLockIteratorDuration(ctx sdk.Context, isUnlocking bool, addr sdk.AccAddress, duration time.Duration) storetypes.Iterator",
   "  unlockingPrefix := unlockingPrefix(isUnlocking)",
   "  return k.iteratorDuration(ctx, combineKeys(unlockingPrefix, types.KeyPrefixAccountLockDuration, addr), duration)",
   "func (k Keeper) LockIteratorDenom(ctx sdk.Context, isUnlocking bool, denom string) storetypes.Iterator",
   "  unlockingPrefix := unlockingPrefix(isUnlocking)",
   "  return k.iterator(ctx, combineKeys(unlockingPrefix, types.KeyPrefixDenomLockDuration, []byte(denom)))",
   "func (k Keeper) addLockRefs(ctx sdk.Context, lock types.PeriodLock) error",
   "  refKeys, err := durationLockRefKeys(lock)",
   "  if lock.IsUnlocking()",
   "    refKeys, err = lockRefKeys(lock)",
   "  if err != nil",
   "    return err",
   "  lockRefPrefix := unlockingPrefix(lock.IsUnlocking())",
   "  for _, refKey := range refKeys",
   "    err := k.addLockRefByKey(ctx, combineKeys(lockRefPrefix, refKey), lock.ID)",
   "    if err != nil",
   "      return err",
   "  return nil",
   "func (k Keeper) addLockRefByKey(ctx sdk.Context, key []byte, lockID uint64) error",
   "  store := ctx.KVStore(k.storeKey)",
   "  lockIDBz := sdk.Uint64ToBigEndian(lockID)",
   "  endKey := combineKeys(key, lockIDBz)",
   "  if store.Has(endKey)",
   "    return fmt.Errorf(lockID)",
   "  store.Set(endKey, lockIDBz)",
   "  return nil"] := rfl

-- x/dymns store keys --------------------------------------------------------------------------------------

theorem dymNameKey_eq : Gen.Keys.dymNameKey = dymNameKey := by funext x; rfl
theorem dymNamesOwnedByAccountRvlKey_eq : Gen.Keys.dymNamesOwnedByAccountRvlKey = dymNamesOwnedByAccountRvlKey := by
  funext x; rfl
theorem configuredAddressToDymNamesIncludeRvlKey_eq :
    Gen.Keys.configuredAddressToDymNamesIncludeRvlKey = configuredAddressToDymNamesIncludeRvlKey := by funext x; rfl
theorem fallbackAddressToDymNamesIncludeRvlKey_eq :
    Gen.Keys.fallbackAddressToDymNamesIncludeRvlKey = fallbackAddressToDymNamesIncludeRvlKey := by funext x; rfl
theorem sellOrderKey_eq : Gen.Keys.sellOrderKey = sellOrderKey := by funext x t; cases t <;> rfl
theorem keyCountBuyOrders_eq : Gen.Keys.keyCountBuyOrders = keyCountBuyOrders := rfl
theorem buyOrderKey_eq : Gen.Keys.buyOrderKey = buyOrderKey := by funext x; rfl
theorem buyerToOrderIdsRvlKey_eq : Gen.Keys.buyerToOrderIdsRvlKey = buyerToOrderIdsRvlKey := by funext x; rfl
theorem dymNameToBuyOrderIdsRvlKey_eq : Gen.Keys.dymNameToBuyOrderIdsRvlKey = dymNameToBuyOrderIdsRvlKey := by
  funext x; rfl
theorem aliasToBuyOrderIdsRvlKey_eq : Gen.Keys.aliasToBuyOrderIdsRvlKey = aliasToBuyOrderIdsRvlKey := by funext x; rfl
theorem rollAppIdToAliasesKey_eq : Gen.Keys.rollAppIdToAliasesKey = rollAppIdToAliasesKey := by funext x; rfl
theorem aliasToRollAppIdRvlKey_eq : Gen.Keys.aliasToRollAppIdRvlKey = aliasToRollAppIdRvlKey := by funext x; rfl

/-- the family prefixes of the model (`DymnsKey.familyPrefix`) are the source's `KeyPrefix…` values -/
theorem dymns_family_prefixes :
    (DymnsKey.dymName []).familyPrefix = Gen.Keys.dymnsKeyPrefixDymName ∧
    (DymnsKey.ownedBy []).familyPrefix = Gen.Keys.dymnsKeyPrefixRvlDymNamesOwnedByAccount ∧
    (DymnsKey.cfgAddr []).familyPrefix = Gen.Keys.dymnsKeyPrefixRvlConfiguredAddressToDymNamesInclude ∧
    (DymnsKey.fallback []).familyPrefix = Gen.Keys.dymnsKeyPrefixRvlFallbackAddressToDymNamesInclude ∧
    (DymnsKey.sellOrder [] .name).familyPrefix = Gen.Keys.dymnsKeyPrefixDymNameSellOrder ∧
    (DymnsKey.sellOrder [] .alias).familyPrefix = Gen.Keys.dymnsKeyPrefixAliasSellOrder ∧
    DymnsKey.countBuyOrders.familyPrefix = Gen.Keys.keyCountBuyOrders ∧
    (DymnsKey.buyOrder []).familyPrefix = Gen.Keys.dymnsKeyPrefixBuyOrder ∧
    (DymnsKey.buyer []).familyPrefix = Gen.Keys.dymnsKeyPrefixRvlBuyerToBuyOrderIds ∧
    (DymnsKey.nameToBuyOrders []).familyPrefix = Gen.Keys.dymnsKeyPrefixRvlDymNameToBuyOrderIds ∧
    (DymnsKey.aliasToBuyOrders []).familyPrefix = Gen.Keys.dymnsKeyPrefixRvlAliasToBuyOrderIds ∧
    (DymnsKey.rollappToAliases []).familyPrefix = Gen.Keys.dymnsKeyPrefixRollAppIdToAliases ∧
    (DymnsKey.aliasToRollapp []).familyPrefix = Gen.Keys.dymnsKeyPrefixRvlAliasToRollAppId ∧
    Gen.Keys.dymnsKeyPrefixSellOrder = [5] :=
  ⟨rfl, rfl, rfl, rfl, rfl, rfl, rfl, rfl, rfl, rfl, rfl, rfl, rfl, rfl⟩

end DymVerif.GenEq
