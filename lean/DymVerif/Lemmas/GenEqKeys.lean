/-
  Lemmas/GenEqKeys — the regenerated translation of the Go key builders (`Gen/Keys.lean`, rewritten
  from /repo's working tree by every check) equals the hand-written model the C19 theorems are
  about.  A semantic change to a Go key builder changes the generated term and breaks the
  corresponding lemma here.
-/
import DymVerif.Gen.Keys
namespace DymVerif.GenEq
open DymVerif DymVerif.Keys

theorem statusName_eq : Gen.Keys.statusName = statusStr := by funext s; cases s <;> rfl
theorem statusName_count : Gen.Keys.statusNameCount = 2 := rfl
theorem ptypeName_eq : Gen.Keys.ptypeName = ptypeStr := by funext s; cases s <;> rfl
theorem ptypeName_count : Gen.Keys.ptypeNameCount = 4 := rfl

theorem mustGetStatusBytes_eq : Gen.Keys.mustGetStatusBytes = statusBytes := by
  funext s; cases s <;> rfl

theorem byStatusPrefix_eq : Gen.Keys.rollappPacketByStatusPrefix = byStatusPrefix := by
  funext s; simp [Gen.Keys.rollappPacketByStatusPrefix, byStatusPrefix, mustGetStatusBytes_eq, sep]

theorem byStatusRollappPrefix_eq :
    Gen.Keys.rollappPacketByStatusByRollappIDPrefix = byStatusRollappPrefix := by
  funext s r
  simp [Gen.Keys.rollappPacketByStatusByRollappIDPrefix, Gen.Keys.rollappPacketByRollappIDPrefix,
    byStatusRollappPrefix, byStatusPrefix_eq, sep]

theorem byStatusRollappHeightPrefix_eq :
    Gen.Keys.rollappPacketByStatusByRollappIDByProofHeightPrefix = byStatusRollappHeightPrefix := by
  funext r s h
  simp [Gen.Keys.rollappPacketByStatusByRollappIDByProofHeightPrefix, byStatusRollappHeightPrefix,
    byStatusRollappPrefix_eq]

theorem rollappPacketKey_eq : Gen.Keys.rollappPacketKey = rollappPacketKey := by
  funext st r h t c s
  simp [Gen.Keys.rollappPacketKey, rollappPacketKey, byStatusRollappHeightPrefix_eq, ptypeName_eq, sep]

theorem pendingByMaxHeightRange_eq : Gen.Keys.pendingByMaxHeightRange = pendingByMaxHeightRange := by
  funext r m
  simp [Gen.Keys.pendingByMaxHeightRange, pendingByMaxHeightRange, byStatusRollappHeightPrefix_eq]

theorem pendingFromHeightRange_eq : Gen.Keys.pendingFromHeightRange = pendingFromHeightRange := by
  funext r m
  simp [Gen.Keys.pendingFromHeightRange, pendingFromHeightRange, byStatusRollappHeightPrefix_eq]

theorem demandOrderKey_eq : Gen.Keys.getDemandOrderKey = demandOrderKey := by
  funext st i
  cases st <;> simp [Gen.Keys.getDemandOrderKey, demandOrderKey, statusName_eq, statusBytes, sep]

theorem livenessIterHeightKey_eq : Gen.Keys.livenessEventQueueIterHeightKey = livenessIterHeightKey := by
  funext h; simp [Gen.Keys.livenessEventQueueIterHeightKey, livenessIterHeightKey, sep]

theorem livenessKey_eq : Gen.Keys.livenessEventQueueKey = livenessKey := by
  funext h r
  simp [Gen.Keys.livenessEventQueueKey, livenessKey, livenessIterHeightKey_eq, sep]

theorem sequencersByRollappKey_eq : Gen.Keys.sequencersByRollappKey = sequencersByRollappKey := by
  funext r; simp [Gen.Keys.sequencersByRollappKey, sequencersByRollappKey, sep]

theorem sequencersByRollappByStatusKey_eq :
    Gen.Keys.sequencersByRollappByStatusKey = sequencersByRollappByStatusKey := by
  funext r st
  cases st <;> simp [Gen.Keys.sequencersByRollappByStatusKey, sequencersByRollappByStatusKey,
    sequencersByRollappKey_eq, opStatusPrefix, sep]

theorem sequencerByRollappByStatusKey_eq :
    Gen.Keys.sequencerByRollappByStatusKey = sequencerByRollappByStatusKey := by
  funext r a st
  simp [Gen.Keys.sequencerByRollappByStatusKey, sequencerByRollappByStatusKey,
    sequencersByRollappByStatusKey_eq]

/-- the decoder the source currently has is the exact (length-respecting) one -/
theorem decodePacketKey_eq (s : Bytes) : Gen.Keys.decodePacketKey s = decodePacketKeyExact s := rfl

-- time-sorted keys / sequencer key families -------------------------------------------------------

theorem sequencerKey_eq : Gen.Keys.sequencerKey = sequencerKey := by
  funext a; simp [Gen.Keys.sequencerKey, sequencerKey, sep]

theorem proposerByRollappKey_eq : Gen.Keys.proposerByRollappKey = proposerByRollappKey := by
  funext a; simp [Gen.Keys.proposerByRollappKey, proposerByRollappKey, sep]

theorem successorByRollappKey_eq : Gen.Keys.successorByRollappKey = successorByRollappKey := by
  funext a; simp [Gen.Keys.successorByRollappKey, successorByRollappKey, sep]

theorem noticePeriodQueueKey_eq : Gen.Keys.noticePeriodQueueKey = noticePeriodQueueKey := rfl

theorem noticeQueueByTimeKey_eq : Gen.Keys.noticeQueueByTimeKey = noticeQueueByTimeKey := by
  funext t; rfl

theorem noticeQueueBySeqTimeKey_eq : Gen.Keys.noticeQueueBySeqTimeKey = noticeQueueBySeqTimeKey := by
  funext a t
  simp [Gen.Keys.noticeQueueBySeqTimeKey, noticeQueueBySeqTimeKey, noticeQueueByTimeKey_eq, sep]

/-- `utils.EncodeTimeToKey` (make + two copies = prefix followed by `sdk.FormatTimeBytes(endTime)`):
    the statement listing `Keys.encodeTimeToKey` was written against -/
theorem encodeTimeToKey_listing : Gen.Keys.encodeTimeToKeyListing =
  ["func EncodeTimeToKey(queueKey []byte, endTime time.Time) []byte",
   "  timeBz := sdk.FormatTimeBytes(endTime)",
   "  prefixL := len(queueKey)",
   "  bz := make([]byte, prefixL+len(timeBz))",
   "  copy(bz[:prefixL], queueKey)",
   "  copy(bz[prefixL:], timeBz)",
   "  return bz"] := rfl

/-- the iterator bounds `Keys.noticeQueueRange` mirrors:
    `store.Iterator(NoticePeriodQueueKey, PrefixEndBytes(NoticeQueueByTimeKey(*endTime)))` -/
theorem noticeQueue_listing : Gen.Keys.noticeQueueListing =
  ["func (k Keeper) NoticeQueue(ctx sdk.Context, endTime *time.Time) ([]types.Sequencer, error)",
   "  ret := []types.Sequencer{}",
   "  store := ctx.KVStore(k.storeKey)",
   "  prefix := types.NoticePeriodQueueKey",
   "  if endTime != nil",
   "    prefix = types.NoticeQueueByTimeKey(*endTime)",
   "  iterator := store.Iterator(types.NoticePeriodQueueKey, storetypes.PrefixEndBytes(prefix))",
   "  defer iterator.Close()",
   "  for ; iterator.Valid(); iterator.Next()",
   "    addr := string(iterator.Value())",
   "    seq, err := k.RealSequencer(ctx, string(iterator.Value()))",
   "    if err != nil",
   "      return nil, gerrc.ErrInternal",
   "    ret = append(ret, seq)",
   "  return ret, nil"] := rfl

theorem noticeElapsedProposers_listing : Gen.Keys.noticeElapsedProposersListing =
  ["func (k Keeper) NoticeElapsedProposers(ctx sdk.Context, endTime time.Time) ([]types.Sequencer, error)",
   "  return k.NoticeQueue(ctx, &endTime)"] := rfl

-- buy-order ids ---------------------------------------------------------------------------------------

theorem buyOrderIdTypeDymNamePrefix_eq : Gen.Keys.buyOrderIdTypeDymNamePrefix = buyOrderIdPrefix .name := rfl
theorem buyOrderIdTypeAliasPrefix_eq : Gen.Keys.buyOrderIdTypeAliasPrefix = buyOrderIdPrefix .alias := rfl

/-- the validator `Keys.parseBuyOrderId` / `Keys.isValidBuyOrderId` was written against -/
theorem isValidBuyOrderId_listing : Gen.Keys.isValidBuyOrderIdListing =
  ["func IsValidBuyOrderId(id string) bool",
   "  if len(id) < 3",
   "    return false",
   "  switch id[:2]",
   "    case BuyOrderIdTypeDymNamePrefix",
   "    case BuyOrderIdTypeAliasPrefix",
   "    default",
   "      return false",
   "  ui, err := strconv.ParseUint(id[2:], 10, 64)",
   "  return err == nil && ui > 0"] := rfl

/-- the constructor `Keys.createBuyOrderId` was written against -/
theorem createBuyOrderId_listing : Gen.Keys.createBuyOrderIdListing =
  ["func CreateBuyOrderId(_type AssetType, i uint64) string",
   "  var prefix string",
   "  switch _type",
   "    case TypeName",
   "      prefix = BuyOrderIdTypeDymNamePrefix",
   "    case TypeAlias",
   "      prefix = BuyOrderIdTypeAliasPrefix",
   "    default",
   "      panic()",
   "  buyOrderId := prefix + math.NewIntFromUint64(i).String()",
   "  if !IsValidBuyOrderId(buyOrderId)",
   "    panic()",
   "  return buyOrderId"] := rfl

-- IRO denoms and plan keys ------------------------------------------------------------------------------

theorem iroDenom_eq : Gen.Keys.iRODenom = iroDenom := by funext r; rfl
theorem iroTokenPrefix_eq : Gen.Keys.iROTokenPrefix = iroTokenPrefix := rfl
theorem planKey_eq : Gen.Keys.planKey = planKey := by funext r; simp [Gen.Keys.planKey, planKey, sep]
theorem plansByRollappKey_eq : Gen.Keys.plansByRollappKey = plansByRollappKey := by
  funext r; simp [Gen.Keys.plansByRollappKey, plansByRollappKey, sep]
theorem lastPlanIdKey_eq : Gen.Keys.lastPlanIdKey = [3] := rfl
theorem iroParamsKey_eq : Gen.Keys.iroParamsKey = [4] := rfl

theorem rollappIDFromIRODenom_listing : Gen.Keys.rollappIDFromIRODenomListing =
  ["func RollappIDFromIRODenom(denom string) (string, bool)",
   "  return strings.CutPrefix(denom, IROTokenPrefix)"] := rfl

/-- plans are keyed by the decimal rendering of their id (`Keys.planKeyById`) -/
theorem setPlan_listing : Gen.Keys.setPlanListing =
  ["func (k Keeper) SetPlan(ctx sdk.Context, plan types.Plan)",
   "  store := ctx.KVStore(k.storeKey)",
   "  b := k.cdc.MustMarshal(&plan)",
   "  store.Set(types.PlanKey(fmt.Sprintf(\"%d\", plan.Id)), b)",
   "  planByRollappKey := types.PlansByRollappKey(plan.RollappId)",
   "  store.Set(planByRollappKey, []byte(fmt.Sprintf(\"%d\", plan.Id)))"] := rfl

end DymVerif.GenEq
