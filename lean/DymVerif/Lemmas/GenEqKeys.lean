/-
  Lemmas/GenEqKeys — the regenerated translation of the Go key builders (`Gen/Keys.lean`, rewritten
  from /repo's working tree by every check) equals the hand-written model the C19 theorems are
  about.  A semantic change to a Go key builder changes the generated term and breaks the
  corresponding lemma here.
-/
import DymVerif.Gen.Keys
namespace DymVerif.GenEq
open DymVerif DymVerif.Keys

theorem statusName_eq : Gen.Keys.statusName = statusStr := by funext s; cases s <;> rfl
theorem statusName_count : Gen.Keys.statusNameCount = 2 := rfl
theorem ptypeName_eq : Gen.Keys.ptypeName = ptypeStr := by funext s; cases s <;> rfl
theorem ptypeName_count : Gen.Keys.ptypeNameCount = 4 := rfl

theorem mustGetStatusBytes_eq : Gen.Keys.mustGetStatusBytes = statusBytes := by
  funext s; cases s <;> rfl

theorem byStatusPrefix_eq : Gen.Keys.rollappPacketByStatusPrefix = byStatusPrefix := by
  funext s; simp [Gen.Keys.rollappPacketByStatusPrefix, byStatusPrefix, mustGetStatusBytes_eq, sep]

theorem byStatusRollappPrefix_eq :
    Gen.Keys.rollappPacketByStatusByRollappIDPrefix = byStatusRollappPrefix := by
  funext s r
  simp [Gen.Keys.rollappPacketByStatusByRollappIDPrefix, Gen.Keys.rollappPacketByRollappIDPrefix,
    byStatusRollappPrefix, byStatusPrefix_eq, sep]

theorem byStatusRollappHeightPrefix_eq :
    Gen.Keys.rollappPacketByStatusByRollappIDByProofHeightPrefix = byStatusRollappHeightPrefix := by
  funext r s h
  simp [Gen.Keys.rollappPacketByStatusByRollappIDByProofHeightPrefix, byStatusRollappHeightPrefix,
    byStatusRollappPrefix_eq]

theorem rollappPacketKey_eq : Gen.Keys.rollappPacketKey = rollappPacketKey := by
  funext st r h t c s
  simp [Gen.Keys.rollappPacketKey, rollappPacketKey, byStatusRollappHeightPrefix_eq, ptypeName_eq, sep]

theorem pendingByMaxHeightRange_eq : Gen.Keys.pendingByMaxHeightRange = pendingByMaxHeightRange := by
  funext r m
  simp [Gen.Keys.pendingByMaxHeightRange, pendingByMaxHeightRange, byStatusRollappHeightPrefix_eq]

theorem pendingFromHeightRange_eq : Gen.Keys.pendingFromHeightRange = pendingFromHeightRange := by
  funext r m
  simp [Gen.Keys.pendingFromHeightRange, pendingFromHeightRange, byStatusRollappHeightPrefix_eq]

theorem demandOrderKey_eq : Gen.Keys.getDemandOrderKey = demandOrderKey := by
  funext st i
  cases st <;> simp [Gen.Keys.getDemandOrderKey, demandOrderKey, statusName_eq, statusBytes, sep]

theorem livenessIterHeightKey_eq : Gen.Keys.livenessEventQueueIterHeightKey = livenessIterHeightKey := by
  funext h; simp [Gen.Keys.livenessEventQueueIterHeightKey, livenessIterHeightKey, sep]

theorem livenessKey_eq : Gen.Keys.livenessEventQueueKey = livenessKey := by
  funext h r
  simp [Gen.Keys.livenessEventQueueKey, livenessKey, livenessIterHeightKey_eq, sep]

theorem sequencersByRollappKey_eq : Gen.Keys.sequencersByRollappKey = sequencersByRollappKey := by
  funext r; simp [Gen.Keys.sequencersByRollappKey, sequencersByRollappKey, sep]

theorem sequencersByRollappByStatusKey_eq :
    Gen.Keys.sequencersByRollappByStatusKey = sequencersByRollappByStatusKey := by
  funext r st
  cases st <;> simp [Gen.Keys.sequencersByRollappByStatusKey, sequencersByRollappByStatusKey,
    sequencersByRollappKey_eq, opStatusPrefix, sep]

theorem sequencerByRollappByStatusKey_eq :
    Gen.Keys.sequencerByRollappByStatusKey = sequencerByRollappByStatusKey := by
  funext r a st
  simp [Gen.Keys.sequencerByRollappByStatusKey, sequencerByRollappByStatusKey,
    sequencersByRollappByStatusKey_eq]

/-- the decoder the source currently has is the exact (length-respecting) one -/
theorem decodePacketKey_eq (s : Bytes) : Gen.Keys.decodePacketKey s = decodePacketKeyExact s := rfl

-- time-sorted keys / sequencer key families -------------------------------------------------------

theorem sequencerKey_eq : Gen.Keys.sequencerKey = sequencerKey := by
  funext a; simp [Gen.Keys.sequencerKey, sequencerKey, sep]

theorem proposerByRollappKey_eq : Gen.Keys.proposerByRollappKey = proposerByRollappKey := by
  funext a; simp [Gen.Keys.proposerByRollappKey, proposerByRollappKey, sep]

theorem successorByRollappKey_eq : Gen.Keys.successorByRollappKey = successorByRollappKey := by
  funext a; simp [Gen.Keys.successorByRollappKey, successorByRollappKey, sep]

theorem noticePeriodQueueKey_eq : Gen.Keys.noticePeriodQueueKey = noticePeriodQueueKey := rfl

theorem noticeQueueByTimeKey_eq : Gen.Keys.noticeQueueByTimeKey = noticeQueueByTimeKey := by
  funext t; rfl

theorem noticeQueueBySeqTimeKey_eq : Gen.Keys.noticeQueueBySeqTimeKey = noticeQueueBySeqTimeKey := by
  funext a t
  simp [Gen.Keys.noticeQueueBySeqTimeKey, noticeQueueBySeqTimeKey, noticeQueueByTimeKey_eq, sep]

/-- `utils.EncodeTimeToKey` (make + two copies = prefix followed by `sdk.FormatTimeBytes(endTime)`):
    the statement listing `Keys.encodeTimeToKey` was written against -/
theorem encodeTimeToKey_listing : Gen.Keys.encodeTimeToKeyListing =
  ["func EncodeTimeToKey(queueKey []byte, endTime time.Time) []byte",
   "  timeBz := sdk.FormatTimeBytes(endTime)",
   "  prefixL := len(queueKey)",
   "  bz := make([]byte, prefixL+len(timeBz))",
   "  copy(bz[:prefixL], queueKey)",
   "  copy(bz[prefixL:], timeBz)",
   "  return bz"] := rfl

/-- the iterator bounds `Keys.noticeQueueRange` mirrors:
    `store.Iterator(NoticePeriodQueueKey, PrefixEndBytes(NoticeQueueByTimeKey(*endTime)))` -/
theorem noticeQueue_listing : Gen.Keys.noticeQueueListing =
  ["func (k Keeper) NoticeQueue(ctx sdk.Context, endTime *time.Time) ([]types.Sequencer, error)",
   "  ret := []types.Sequencer{}",
   "  store := ctx.KVStore(k.storeKey)",
   "  prefix := types.NoticePeriodQueueKey",
   "  if endTime != nil",
   "    prefix = types.NoticeQueueByTimeKey(*endTime)",
   "  iterator := store.Iterator(types.NoticePeriodQueueKey, storetypes.PrefixEndBytes(prefix))",
   "  defer iterator.Close()",
   "  for ; iterator.Valid(); iterator.Next()",
   "    addr := string(iterator.Value())",
   "    seq, err := k.RealSequencer(ctx, string(iterator.Value()))",
   "    if err != nil",
   "      return nil, gerrc.ErrInternal",
   "    ret = append(ret, seq)",
   "  return ret, nil"] := rfl

theorem noticeElapsedProposers_listing : Gen.Keys.noticeElapsedProposersListing =
  ["func (k Keeper) NoticeElapsedProposers(ctx sdk.Context, endTime time.Time) ([]types.Sequencer, error)",
   "  return k.NoticeQueue(ctx, &endTime)"] := rfl

end DymVerif.GenEq
