/-
  Lemmas/LCDesig — `validClient` looks at every state info that can contain a consensus state of the
  candidate: with the lowest consensus-state height taken numerically and the state infos forming a
  gap-free chain (C01, `Core.Chain`), the early exit of its loop skips nothing.
-/
import DymVerif.Lemmas.LCAgree
import DymVerif.Lemmas.CoreChainInv2
namespace DymVerif.LC
open DymVerif.Core (Addr NextP)

/-- the state infos `validClient` looks at: from the latest down to and including the first one that
    starts below the lowest consensus state -/
def visited (base : Nat) : List Core.SInfo → List Core.SInfo
  | [] => []
  | st :: rest => if st.start < base then [st] else st :: visited base rest

theorem foldl_min_le (xs : List (Nat × Cons)) (b : Nat) :
    xs.foldl (fun best y => min best y.1) b ≤ b ∧ ∀ y ∈ xs, xs.foldl (fun best y => min best y.1) b ≤ y.1 := by
  induction xs generalizing b with
  | nil => exact ⟨Nat.le_refl _, fun _ h => absurd h (by simp)⟩
  | cons x xs ih =>
    simp only [List.foldl_cons]
    obtain ⟨h1, h2⟩ := ih (min b x.1)
    refine ⟨Nat.le_trans h1 (Nat.min_le_left _ _), ?_⟩
    intro y hy
    simp only [List.mem_cons] at hy
    rcases hy with rfl | hy
    · exact Nat.le_trans h1 (Nat.min_le_right _ _)
    · exact h2 y hy

theorem firstConsHeight_le {cl : Client} {x : Nat × Cons} (hx : x ∈ cl.cons) : firstConsHeight cl ≤ x.1 := by
  unfold firstConsHeight
  cases hc : cl.cons with
  | nil => rw [hc] at hx; simp at hx
  | cons a as =>
    simp only
    rw [hc] at hx
    simp only [List.mem_cons] at hx
    obtain ⟨h1, h2⟩ := foldl_min_le as a.1
    rcases hx with rfl | hx
    · exact h1
    · exact h2 x hx

/-- in a gap-free chain an earlier state info ends before a later one starts -/
theorem chain_lt {l : List Core.SInfo} (h : Core.Chain l) :
    ∀ (j i : Nat) (a b : Core.SInfo), i < j → l[i]? = some a → l[j]? = some b → a.start + a.num ≤ b.start
  | 0, i, _, _, hij, _, _ => absurd hij (by omega)
  | j + 1, i, a, b, hij, ha, hb => by
    have hjlt : j < l.length := by
      have : j + 1 < l.length := by
        rcases Nat.lt_or_ge (j + 1) l.length with h1 | h1
        · exact h1
        · rw [List.getElem?_eq_none h1] at hb; cases hb
      omega
    have hc : l[j]? = some l[j] := by simp [hjlt]
    have hlink := h.link j l[j] b hc hb
    by_cases hi : i = j
    · subst hi
      rw [hc] at ha; cases ha
      omega
    · have := chain_lt h j i a l[j] (by omega) ha hc
      have hw := h.wf l[j] (List.getElem_mem hjlt)
      have := hw.num_pos
      omega

theorem chain_pairwise_rev {l : List Core.SInfo} (h : Core.Chain l) :
    l.reverse.Pairwise (fun a b => b.start + b.num ≤ a.start) := by
  rw [List.pairwise_reverse]
  rw [List.pairwise_iff_getElem]
  intro i j hi hj hij
  exact chain_lt h j i l[i] l[j] hij (by simp [hi]) (by simp [hj])

theorem visited_cover (base : Nat) : ∀ (l : List Core.SInfo), l.Pairwise (fun a b => b.start + b.num ≤ a.start) →
    ∀ st ∈ l, st ∈ visited base l ∨ st.start + st.num ≤ base
  | [], _, _, h => absurd h (by simp)
  | x :: xs, hp, st, hst => by
    rw [List.pairwise_cons] at hp
    simp only [List.mem_cons] at hst
    unfold visited
    by_cases hx : x.start < base
    · simp only [hx, if_true, List.mem_singleton]
      rcases hst with rfl | hst
      · exact Or.inl rfl
      · right
        have := hp.1 st hst
        omega
    · simp only [hx, if_false, List.mem_cons]
      rcases hst with rfl | hst
      · exact Or.inl (Or.inl rfl)
      · rcases visited_cover base xs hp.2 st hst with h1 | h1
        · exact Or.inl (Or.inr h1)
        · exact Or.inr h1

theorem validLoop_sound (s : St) (cl : Client) (ra base : Nat) :
    ∀ (l : List Core.SInfo) (m b : Bool), validLoop s cl ra base l m = (b, none) →
      (∀ st ∈ visited base l, ∃ m1, validateStateInfo s cl ra st = (m1, none)) ∧
      (b = true → m = true ∨ ∃ st ∈ visited base l, validateStateInfo s cl ra st = (true, none))
  | [], m, b, h => by
    simp only [validLoop, Prod.mk.injEq, and_true] at h
    subst h
    exact ⟨fun _ hh => absurd hh (by simp [visited]), fun hb => Or.inl hb⟩
  | st :: rest, m, b, h => by
    unfold validLoop at h
    cases hv : validateStateInfo s cl ra st with
    | mk m1 oe =>
      cases oe with
      | some e => simp [hv] at h
      | none =>
        simp only [hv] at h
        by_cases hlt : st.start < base
        · simp only [hlt, if_true, Prod.mk.injEq, and_true] at h
          subst h
          simp only [visited, hlt, if_true, List.mem_singleton]
          refine ⟨fun x hx => hx ▸ ⟨m1, hv⟩, ?_⟩
          intro hb
          cases m with
          | true => exact Or.inl rfl
          | false =>
            right
            simp only [Bool.false_or] at hb
            exact ⟨st, rfl, by rw [hv, hb]⟩
        · simp only [hlt, if_false] at h
          obtain ⟨ih1, ih2⟩ := validLoop_sound s cl ra base rest (m || m1) b h
          simp only [visited, hlt, if_false, List.mem_cons]
          refine ⟨?_, ?_⟩
          · intro x hx
            rcases hx with rfl | hx
            · exact ⟨m1, hv⟩
            · exact ih1 x hx
          · intro hb
            rcases ih2 hb with hm | ⟨x, hx, hxv⟩
            · cases m with
              | true => exact Or.inl rfl
              | false =>
                right
                simp only [Bool.false_or] at hm
                exact ⟨st, Or.inl rfl, by rw [hv, hm]⟩
            · exact Or.inr ⟨x, Or.inr hx, hxv⟩

theorem validateStateInfo_agrees {s : St} {cl : Client} {ra : Nat} {st : Core.SInfo} {m : Bool}
    (h : validateStateInfo s cl ra st = (m, none)) {ht : Nat} {cs : Cons} (h1 : st.start ≤ ht) (h2 : ht ≤ st.last)
    (hc : getCons cl ht = some cs) : ∃ d, getDesc s ra ht = some d ∧ Agrees cs d := by
  unfold validateStateInfo at h
  exact validateHeader_none (validateRange_none _ _ _ h ht (mem_heightsOf h1 h2) cs hc)

/-- an accepted designation has compared *every* consensus state of the client that lies inside a state
    info of the rollapp with its descriptor -/
theorem validLoop_all {s : St} {cl : Client} {ra : Nat} {states : List Core.SInfo} {b : Bool} (hch : Core.Chain states)
    (h : validLoop s cl ra (firstConsHeight cl) states.reverse false = (b, none)) :
    ∀ st ∈ states, ∀ ht cs, st.start ≤ ht → ht ≤ st.last → getCons cl ht = some cs →
      ∃ d, getDesc s ra ht = some d ∧ Agrees cs d := by
  intro st hst ht cs h1 h2 hc
  obtain ⟨v1, _⟩ := validLoop_sound s cl ra (firstConsHeight cl) states.reverse false b h
  have hbase : firstConsHeight cl ≤ ht := firstConsHeight_le (getCons_mem hc)
  have hw := hch.wf st hst
  rcases visited_cover (firstConsHeight cl) states.reverse (chain_pairwise_rev hch) st (List.mem_reverse.2 hst) with hv | hlow
  · obtain ⟨m1, hm1⟩ := v1 st hv
    exact validateStateInfo_agrees hm1 h1 h2 hc
  · exfalso
    have hnp := hw.num_pos
    have : st.last = st.start + st.num - 1 := by
      unfold Core.SInfo.last
      split
      · rfl
      · omega
    omega

-- ---------------------------------------------------------------- the rollapp side stays a chain

theorem applyForks_core : ∀ (l : List (Nat × Nat)) (s : St), (applyForks s l).1.core = s.core
  | [], _ => rfl
  | (ra, lv) :: rest, s => by
    unfold applyForks
    cases hr : rollback s ra lv with
    | mk s1 oe =>
      cases oe with
      | some e => rfl
      | none =>
        simp only
        have a4 := core_rollback s ra lv
        rw [hr] at a4
        exact (applyForks_core rest s1).trans a4

theorem afterUpdate_core (s : St) (ra rev : Nat) (st : Core.SInfo) : (afterUpdate s ra rev st).1.core = s.core := by
  unfold afterUpdate
  cases lookup s.r2c ra with
  | none => rfl
  | some c =>
    simp only
    cases getClient s c with
    | none => rfl
    | some cl =>
      cases Core.getRa s.core ra with
      | none => rfl
      | some r =>
        simp only
        split
        · unfold resolveFork
          repeat' split
          all_goals rfl
        · unfold validateNew
          repeat' split
          all_goals rfl

theorem finishUpdate_core (s s3 : St) (m : Core.UpdMsg) (ds : List (Nat × Option Nat)) :
    (finishUpdate s s3 m ds).1.core = s.core ∨ (finishUpdate s s3 m ds).1.core = s3.core := by
  unfold finishUpdate
  cases Core.getRa s3.core m.ra with
  | none => exact Or.inl rfl
  | some r =>
    simp only
    cases r.states.getLast? with
    | none => exact Or.inl rfl
    | some st =>
      simp only
      split
      · exact Or.inl rfl
      · have hc := afterUpdate_core s3 m.ra m.rev st
        cases ha : afterUpdate s3 m.ra m.rev st with
        | mk s4 oe =>
          cases oe with
          | some e => exact Or.inl rfl
          | none => right; rw [ha] at hc; exact hc

theorem withDescs_core {s1 s2 : St} {o : Core.Op} {ds : List (Nat × Option Nat)} (h : withDescs s1 o ds = some s2) : s2.core = s1.core := by
  unfold withDescs at h
  split at h
  · split at h
    · simp at h
    · simp only [Option.some.injEq] at h; subst h; rfl
  · simp only [Option.some.injEq] at h; subst h; rfl

theorem coreOp_core (s : St) (o : Core.Op) (ds : List (Nat × Option Nat)) :
    (coreOp s o ds).1.core = s.core ∨ (coreOp s o ds).1.core = (Core.step s.core o).1 := by
  unfold coreOp
  cases hstep : Core.step s.core o with
  | mk core1 oe =>
    cases oe with
    | some e => exact Or.inl rfl
    | none =>
      simp only
      split
      · exact Or.inl rfl
      · cases hw : withDescs { s with core := core1 } o ds with
        | none => exact Or.inl rfl
        | some s2 =>
          simp only
          have hc2 : s2.core = core1 := withDescs_core hw
          cases hf : applyForks s2 (newForks s.core core1) with
          | mk s3 oe =>
            cases oe with
            | some e => exact Or.inl rfl
            | none =>
              simp only
              have hc3 : s3.core = core1 := by
                have := applyForks_core (newForks s.core core1) s2
                rw [hf] at this
                exact this.trans hc2
              cases o with
              | update m =>
                simp only
                rcases finishUpdate_core s s3 m ds with e | e
                · exact Or.inl e
                · exact Or.inr (e.trans hc3)
              | _ => exact Or.inr hc3

/-- the rollapp side of every state is a gap-free chain -/
def CoreChain (s : St) : Prop := Core.ChainAll s.core

theorem handleUpdate_core (s : St) (c : Nat) (hd : Hdr) : (handleUpdate s c hd).1.core = s.core := by
  unfold handleUpdate
  simp only
  repeat' split
  all_goals rfl

theorem step_coreChain {s : St} (h : CoreChain s) (op : Op) : CoreChain (step s op).1 := by
  unfold CoreChain at h ⊢
  cases op with
  | core o ds =>
    simp only [step]
    rcases coreOp_core s o ds with e | e
    · rw [e]; exact h
    · rw [e]; exact Core.step_chain h
  | createClient chain p ht cs => exact h
  | setCanonical c =>
    simp only [step]
    split
    · rename_i s1 hs
      rcases setCanonical_cases s c with ⟨e, _⟩ | ⟨_, _, _, _, _, _, _, _, e⟩
      · have := congrArg Prod.fst hs; simp only at this; rw [← this, e]; exact h
      · have := congrArg Prod.fst hs; simp only at this; rw [← this, e]; exact h
    · exact h
  | updateClient c w hd ibc =>
    simp only [step, updateClient]
    cases w with
    | nested => exact h
    | storedProposal => exact h
    | wrapped => exact h
    | nestedWrapped => exact h
    | top =>
      simp only
      have hc := handleUpdate_core s c hd
      cases hh : handleUpdate s c hd with
      | mk s1 oe =>
        rw [hh] at hc
        cases oe with
        | some e => exact h
        | none =>
          simp only
          repeat' split
          all_goals first
            | (show Core.ChainAll s1.core; rw [hc]; exact h)
            | (show Core.ChainAll (setClient s1 _).core; rw [setClient_core, hc]; exact h)
  | misbehaviour c k ibc =>
    simp only [step, misbehaviour]
    repeat' split
    all_goals first
      | exact h
      | (show Core.ChainAll (setClient s _).core; rw [setClient_core]; exact h)
  | chanInit c =>
    simp only [step, chanInit]
    repeat' split
    all_goals exact h
  | chanAck ch w ibc =>
    simp only [step, chanAck]
    repeat' split
    all_goals exact h

theorem run_coreChain : ∀ (ops : List Op) (s : St), CoreChain s → CoreChain (run s ops)
  | [], _, h => h
  | op :: ops, s, h => by
    simp only [run, List.foldl_cons]
    exact run_coreChain ops _ (step_coreChain h op)

theorem init_coreChain (p : Core.Params) : CoreChain (init p) := by
  intro r hr
  simp [init, Core.init] at hr

end DymVerif.LC
