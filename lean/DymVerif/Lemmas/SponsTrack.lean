import DymVerif.Lemmas.SponsDist
/-
  Lemmas/SponsTrack — recorded voting power versus the staking table: `Track`, the minimum-power
  invariant, and their preservation by vote / revoke / staking hooks with faithful facts.
-/
namespace DymVerif.Spons

abbrev PTable := List ((Nat × Nat) × Int)

/-- power of delegation (a, val) in a table, 0 when absent -/
def pOf (t : PTable) (a val : Nat) : Int := (alookup (a, val) t).getD 0

/-- total power of delegator `a` in a table (`GetValidatorBreakdown().TotalPower` on the staking table) -/
def powerOf (t : PTable) (a : Nat) : Int := sumP (t.filter (fun x => x.1.1 = a))

theorem sumP_cons {κ : Type} (x : κ × Int) (l : List (κ × Int)) : sumP (x :: l) = x.2 + sumP l := by
  simp [sumP]

theorem powerOf_cons (x : (Nat × Nat) × Int) (t : PTable) (a : Nat) :
    powerOf (x :: t) a = (if x.1.1 = a then x.2 else 0) + powerOf t a := by
  unfold powerOf
  by_cases h : x.1.1 = a
  · simp [List.filter_cons, h, sumP_cons]
  · simp [List.filter_cons, h]

theorem powerOf_aerase_other {t : PTable} {k : Nat × Nat} {a : Nat} (h : k.1 ≠ a) :
    powerOf (aerase k t) a = powerOf t a := by
  induction t with
  | nil => rfl
  | cons x xs ih =>
    by_cases hx : x.1 = k
    · have e : aerase k (x :: xs) = aerase k xs := by simp [aerase, hx]
      have : ¬ x.1.1 = a := by rw [hx]; exact h
      rw [e, ih, powerOf_cons]; simp [this]
    · have e : aerase k (x :: xs) = x :: aerase k xs := by simp [aerase, hx]
      rw [e, powerOf_cons, powerOf_cons, ih]

theorem powerOf_aerase_self {t : PTable} {a val : Nat} (hk : KeysNodup t) :
    powerOf (aerase (a, val) t) a = powerOf t a - pOf t a val := by
  induction t with
  | nil => simp [aerase, powerOf, pOf, alookup, sumP]
  | cons x xs ih =>
    by_cases hx : x.1 = (a, val)
    · have e : aerase (a, val) (x :: xs) = aerase (a, val) xs := by simp [aerase, hx]
      have hnone : aerase (a, val) xs = xs := by
        simp only [aerase, List.filter_eq_self]
        intro y hy; have := hk.1 y hy; rw [hx] at this; simpa using this
      have h1 : x.1.1 = a := by rw [hx]
      rw [e, hnone, powerOf_cons]
      simp [pOf, alookup, hx, h1]; omega
    · have e : aerase (a, val) (x :: xs) = x :: aerase (a, val) xs := by simp [aerase, hx]
      rw [e, powerOf_cons, powerOf_cons, ih hk.2]
      simp only [pOf, alookup, hx, if_false]; omega

theorem pOf_upd_self (t : PTable) (k : Nat × Nat) (p : Option Int) : pOf (upd t k p) k.1 k.2 = p.getD 0 := by
  cases p with
  | none => simp [upd, pOf, alookup_aerase_self]
  | some p => simp [upd, pOf, alookup_aset_self]

theorem pOf_upd_ne (t : PTable) {k : Nat × Nat} (p : Option Int) {a val : Nat} (h : (a, val) ≠ k) :
    pOf (upd t k p) a val = pOf t a val := by
  cases p with
  | none => simp [upd, pOf, alookup_aerase_ne h]
  | some p => simp [upd, pOf, alookup_aset_ne h]

theorem powerOf_upd_other (t : PTable) {k : Nat × Nat} (p : Option Int) {a : Nat} (h : k.1 ≠ a) :
    powerOf (upd t k p) a = powerOf t a := by
  cases p with
  | none => exact powerOf_aerase_other h
  | some p =>
    show powerOf ((k, p) :: aerase k t) a = _
    rw [powerOf_cons, powerOf_aerase_other h]; simp [h]

theorem powerOf_upd_self {t : PTable} (hk : KeysNodup t) (a val : Nat) (p : Option Int) :
    powerOf (upd t (a, val) p) a = powerOf t a - pOf t a val + p.getD 0 := by
  cases p with
  | none => simp [upd, powerOf_aerase_self hk]
  | some p =>
    show powerOf (((a, val), p) :: aerase (a, val) t) a = _
    rw [powerOf_cons, powerOf_aerase_self hk]; simp; omega

theorem KeysNodup_upd {t : PTable} (hk : KeysNodup t) (k : Nat × Nat) (p : Option Int) : KeysNodup (upd t k p) := by
  cases p with
  | none => exact KeysNodup_aerase k hk
  | some p => exact KeysNodup_aset k p hk

theorem KeysNodup_filter {κ β : Type} {l : List (κ × β)} (p : κ × β → Bool) (h : KeysNodup l) : KeysNodup (l.filter p) := by
  induction l with
  | nil => trivial
  | cons x xs ih =>
    simp only [List.filter_cons]; split
    · exact ⟨fun y hy => h.1 y (List.mem_filter.mp hy).1, ih h.2⟩
    · exact ih h.2

/-! ### saveAll -/

theorem alookup_saveAll {b d : PTable} (hb : KeysNodup b) (k : Nat × Nat) :
    alookup k (saveAll b d) = (alookup k b).orElse (fun _ => alookup k d) := by
  induction b generalizing d with
  | nil => simp [saveAll, alookup]
  | cons x xs ih =>
    show alookup k (saveAll xs (aset x.1 x.2 d)) = _
    rw [ih hb.2]
    by_cases hx : x.1 = k
    · have hnone : alookup k xs = none := by
        cases h : alookup k xs with
        | none => rfl
        | some v => have := hb.1 _ (alookup_mem h); rw [hx] at this; simp at this
      subst hx
      simp [hnone, alookup, alookup_aset_self]
    · have : k ≠ x.1 := fun e => hx e.symm
      simp [alookup, hx, alookup_aset_ne this]

theorem alookup_filter_fst {t : PTable} (a val : Nat) :
    alookup (a, val) (t.filter (fun x => x.1.1 = a)) = alookup (a, val) t := by
  induction t with
  | nil => rfl
  | cons x xs ih =>
    by_cases h : x.1.1 = a
    · simp only [List.filter_cons, h, decide_true, if_true, alookup]; split
      · rfl
      · exact ih
    · have : x.1 ≠ (a, val) := fun e => h (by rw [e])
      simp only [List.filter_cons, h, decide_false, alookup, this, if_false]
      exact ih

theorem alookup_filter_ne_fst {t : PTable} {a a' : Nat} (h : a' ≠ a) (val : Nat) :
    alookup (a', val) (t.filter (fun x => x.1.1 ≠ a)) = alookup (a', val) t := by
  induction t with
  | nil => rfl
  | cons x xs ih =>
    by_cases hx : x.1.1 = a
    · have : x.1 ≠ (a', val) := fun e => h (by rw [← hx, e])
      simp only [List.filter_cons, hx, ne_eq, not_true_eq_false, decide_false, alookup, this, if_false]
      exact ih
    · simp only [List.filter_cons, hx, ne_eq, not_false_eq_true, decide_true, if_true, alookup]; split
      · rfl
      · exact ih

theorem alookup_filter_eq_none {t : PTable} (a val : Nat) :
    alookup (a, val) (t.filter (fun x => x.1.1 ≠ a)) = none := by
  induction t with
  | nil => rfl
  | cons x xs ih =>
    by_cases hx : x.1.1 = a
    · simp only [List.filter_cons, hx, ne_eq, not_true_eq_false, decide_false]; exact ih
    · have : x.1 ≠ (a, val) := fun e => hx (by rw [e])
      simp only [List.filter_cons, hx, ne_eq, not_false_eq_true, decide_true, if_true, alookup, this, if_false]
      exact ih

theorem alookup_filter_fst_other {t : PTable} {a a' : Nat} (h : a' ≠ a) (val : Nat) :
    alookup (a', val) (t.filter (fun x => x.1.1 = a)) = none := by
  induction t with
  | nil => rfl
  | cons x xs ih =>
    by_cases hx : x.1.1 = a
    · have : x.1 ≠ (a', val) := fun e => h (by rw [← hx, e])
      simp only [List.filter_cons, hx, decide_true, if_true, alookup, this, if_false]; exact ih
    · simp only [List.filter_cons, hx, decide_false]; exact ih

/-! ### Track -/

/-- recorded power = staking power (table `T`), for every voter -/
def Track (s : State) (T : PTable) : Prop :=
  ∀ a v, alookup a s.votes = some v → (∀ val, pOf s.dvp a val = pOf T a val) ∧ v.vp = powerOf T a

/-- every vote's recorded power is at least the minimum -/
def MinInv (s : State) : Prop := ∀ a v, alookup a s.votes = some v → s.minVP ≤ v.vp

theorem revokeVote_dvp (s : State) (a : Nat) (v : Vote) :
    (s.revokeVote a v).dvp = s.dvp.filter (fun x => x.1.1 ≠ a) := rfl

theorem revokeVote_track {s : State} {T : PTable} {a : Nat} {v : Vote} (h : Track s T) :
    Track (s.revokeVote a v) T := by
  intro a' v' hv'
  rw [revokeVote_votes] at hv'
  by_cases ha : a' = a
  · subst ha; rw [alookup_aerase_self] at hv'; cases hv'
  · rw [alookup_aerase_ne ha] at hv'
    have := h a' v' hv'
    refine ⟨fun val => ?_, this.2⟩
    rw [← this.1 val, revokeVote_dvp]
    simp only [pOf, alookup_filter_ne_fst ha]

theorem revokeVote_min {s : State} {a : Nat} {v : Vote} (h : MinInv s) : MinInv (s.revokeVote a v) := by
  intro a' v' hv'
  rw [revokeVote_votes] at hv'
  by_cases ha : a' = a
  · subst ha; rw [alookup_aerase_self] at hv'; cases hv'
  · rw [alookup_aerase_ne ha] at hv'; exact h a' v' hv'

theorem castVote_ok {s1 s' : State} {a : Nat} {ws : List GP} (hc : s1.castVote a ws = .ok s') :
    s1.minVP ≤ sumP (s1.breakdown a) ∧ s'.votes = aset a ⟨sumP (s1.breakdown a), ws⟩ s1.votes ∧
    s'.dvp = saveAll (s1.breakdown a) s1.dvp ∧ s'.stk = s1.stk ∧ s'.minVP = s1.minVP := by
  unfold State.castVote at hc
  simp only at hc
  split at hc
  · cases hc
  · rename_i hlow
    cases hc
    exact ⟨by omega, rfl, rfl, rfl, rfl⟩

theorem castVote_track {s1 s' : State} {a : Nat} {ws : List GP} (hk : KeysNodup s1.stk)
    (h : Track s1 s1.stk) (hnone : ∀ val, alookup (a, val) s1.dvp = none)
    (hc : s1.castVote a ws = .ok s') : Track s' s'.stk ∧ s'.stk = s1.stk := by
  obtain ⟨hlow, hvotes, hdvp, hstk, hmin⟩ := castVote_ok hc
  have hkb : KeysNodup (s1.breakdown a) := KeysNodup_filter _ hk
  refine ⟨?_, hstk⟩
  intro a' v' hv'
  rw [hvotes] at hv'
  rw [hstk, hdvp]
  by_cases ha : a' = a
  · subst ha
    rw [alookup_aset_self] at hv'
    cases hv'
    refine ⟨fun val => ?_, rfl⟩
    show (alookup (a', val) (saveAll (s1.breakdown a') s1.dvp)).getD 0 = _
    rw [alookup_saveAll hkb, hnone val]
    show ((alookup (a', val) (s1.stk.filter fun x => x.1.1 = a')).orElse fun _ => none).getD 0 = _
    rw [alookup_filter_fst]
    cases hh : alookup (a', val) s1.stk <;> simp [pOf, hh]
  · rw [alookup_aset_ne ha] at hv'
    have := h a' v' hv'
    refine ⟨fun val => ?_, this.2⟩
    rw [← this.1 val]
    show (alookup (a', val) (saveAll (s1.breakdown a) s1.dvp)).getD 0 = _
    rw [alookup_saveAll hkb]
    show ((alookup (a', val) (s1.stk.filter fun x => x.1.1 = a)).orElse fun _ => _).getD 0 = _
    rw [alookup_filter_fst_other ha]; rfl

/-- a state in which delegators without a vote have no recorded power either -/
def DvpClean (s : State) : Prop := ∀ a val, alookup a s.votes = none → alookup (a, val) s.dvp = none

theorem revokeVote_clean {s : State} {a : Nat} {v : Vote} (h : DvpClean s) : DvpClean (s.revokeVote a v) := by
  intro a' val hv'
  rw [revokeVote_votes] at hv'
  rw [revokeVote_dvp]
  by_cases ha : a' = a
  · subst ha; exact alookup_filter_eq_none _ _
  · rw [alookup_aerase_ne ha] at hv'
    rw [alookup_filter_ne_fst ha]; exact h a' val hv'

theorem castVote_clean {s1 s' : State} {a : Nat} {ws : List GP} (h : DvpClean s1) (hk : KeysNodup s1.stk)
    (hc : s1.castVote a ws = .ok s') : DvpClean s' := by
  obtain ⟨hlow, hvotes, hdvp, hstk, hmin⟩ := castVote_ok hc
  intro a' val hv'
  rw [hvotes] at hv'
  rw [hdvp]
  by_cases ha : a' = a
  · subst ha
    rw [alookup_aset_self] at hv'; cases hv'
  · rw [alookup_aset_ne ha] at hv'
    have hkb : KeysNodup (s1.breakdown a) := KeysNodup_filter _ hk
    rw [alookup_saveAll hkb]
    show ((alookup (a', val) (s1.stk.filter fun x => x.1.1 = a)).orElse fun _ => _) = none
    rw [alookup_filter_fst_other ha]
    exact h a' val hv'

/-! ### hook -/

theorem processHook_track {s : State} {T : PTable} {a val : Nat} {v : Vote} {new : Option Int}
    (hk : KeysNodup T) (h : Track s T) (hc : DvpClean s) (hv : alookup a s.votes = some v) :
    let s' := s.processHook a val v (pOf s.dvp a val) (new.getD 0)
    Track s' (upd T (a, val) new) ∧ DvpClean s' := by
  intro s'
  have hother : ∀ a', a' ≠ a → ∀ val', pOf (upd T (a, val) new) a' val' = pOf T a' val' :=
    fun a' ha val' => pOf_upd_ne T new (fun e => ha (by cases e; rfl))
  have hpother : ∀ a', a' ≠ a → powerOf (upd T (a, val) new) a' = powerOf T a' :=
    fun a' ha => powerOf_upd_other T new (fun e => ha e.symm)
  show Track (s.processHook a val v (pOf s.dvp a val) (new.getD 0)) _ ∧ DvpClean (s.processHook a val v (pOf s.dvp a val) (new.getD 0))
  unfold State.processHook
  simp only
  split
  · refine ⟨?_, revokeVote_clean hc⟩
    intro a' v' hv'
    have := revokeVote_track (a := a) (v := v) h a' v' hv'
    have ha : a' ≠ a := by
      intro e; subst e; rw [revokeVote_votes, alookup_aerase_self] at hv'; cases hv'
    exact ⟨fun val' => by rw [this.1 val', hother a' ha], by rw [this.2, hpother a' ha]⟩
  · rename_i hge
    refine ⟨?_, ?_⟩
    · intro a' v' hv'
      by_cases ha : a' = a
      · subst ha
        have hv'' : some (⟨v.vp + (new.getD 0 - pOf s.dvp a' val), v.weights⟩ : Vote) = some v' := by
          rw [← hv']; exact (alookup_aset_self _ _ _).symm
        cases hv''
        have ht := h a' v hv
        refine ⟨fun val' => ?_, ?_⟩
        · by_cases hval : val' = val
          · subst hval
            rw [pOf_upd_self T (a', val') new]
            show pOf (if new.getD 0 = 0 then aerase (a', val') s.dvp else aset (a', val') (new.getD 0) s.dvp) a' val' = _
            split
            · rename_i h0; simp [pOf, alookup_aerase_self, h0]
            · simp [pOf, alookup_aset_self]
          · have hne : (a', val') ≠ (a', val) := fun e => hval (by cases e; rfl)
            rw [pOf_upd_ne T new hne, ← ht.1 val']
            show pOf (if new.getD 0 = 0 then aerase (a', val) s.dvp else aset (a', val) (new.getD 0) s.dvp) a' val' = _
            split
            · simp [pOf, alookup_aerase_ne hne]
            · simp [pOf, alookup_aset_ne hne]
        · show v.vp + (new.getD 0 - pOf s.dvp a' val) = _
          rw [powerOf_upd_self hk, ht.1 val, ht.2]; omega
      · have hv'' : alookup a' s.votes = some v' := by
          rw [← hv']; exact (alookup_aset_ne ha _ _).symm
        have ht := h a' v' hv''
        have hne : ∀ val', (a', val') ≠ (a, val) := fun val' e => ha (by cases e; rfl)
        refine ⟨fun val' => ?_, by rw [ht.2, hpother a' ha]⟩
        rw [hother a' ha, ← ht.1 val']
        show pOf (if new.getD 0 = 0 then aerase (a, val) s.dvp else aset (a, val) (new.getD 0) s.dvp) a' val' = _
        split
        · simp [pOf, alookup_aerase_ne (hne val')]
        · simp [pOf, alookup_aset_ne (hne val')]
    · intro a' val' hv'
      by_cases ha : a' = a
      · subst ha
        have : alookup a' (aset a' (⟨v.vp + (new.getD 0 - pOf s.dvp a' val), v.weights⟩ : Vote) s.votes) = none := hv'
        rw [alookup_aset_self] at this; cases this
      · have hv'' : alookup a' s.votes = none := by
          rw [← hv']; exact (alookup_aset_ne ha _ _).symm
        have hne : (a', val') ≠ (a, val) := fun e => ha (by cases e; rfl)
        show alookup (a', val') (if new.getD 0 = 0 then aerase (a, val) s.dvp else aset (a, val) (new.getD 0) s.dvp) = none
        split
        · rw [alookup_aerase_ne hne]; exact hc a' val' hv''
        · rw [alookup_aset_ne hne]; exact hc a' val' hv''

end DymVerif.Spons
