/-
  Lemmas/GenesisStores — genesis round trips of the modules whose state is a few KV sections with
  rebuilt indexes: x/lockup, x/delayedack, x/eibc, x/lightclient, x/dymns.  Each invariant has two
  kinds of conjuncts: store representation (sorted, every record under the key computed from it —
  preserved by every `Set` / `Delete`: `storeRun_inv`) and index exactness (named per module).
-/
import DymVerif.Lemmas.GenesisKV
import DymVerif.Lemmas.Base64
namespace DymVerif.Genesis
open DymVerif

/-! ### store representation is an invariant of every write history -/

theorem storeStep_inv {κ β : Type} [DecidableEq κ] {lt : κ → κ → Bool} (so : StrictOrder lt) (key : β → κ)
    {s : KV κ β} (h : Sorted lt s ∧ Keyed key s) (op : StoreOp κ β) :
    Sorted lt (storeStep lt key s op) ∧ Keyed key (storeStep lt key s op) := by
  cases op with
  | set v => exact ⟨sorted_kvSet so _ _ h.1, keyed_kvSet so h.1 h.2 v⟩
  | del k => exact ⟨sorted_kvDel k h.1, keyed_kvDel h.2 k⟩

theorem storeRun_inv {κ β : Type} [DecidableEq κ] {lt : κ → κ → Bool} (so : StrictOrder lt) (key : β → κ)
    (ops : List (StoreOp κ β)) : Sorted lt (storeRun lt key ops) ∧ Keyed key (storeRun lt key ops) := by
  unfold storeRun
  suffices ∀ s : KV κ β, Sorted lt s ∧ Keyed key s → Sorted lt (ops.foldl (storeStep lt key) s) ∧ Keyed key (ops.foldl (storeStep lt key) s) from
    this [] ⟨sorted_nil, fun _ h => by cases h⟩
  induction ops with
  | nil => exact fun _ h => h
  | cons o os ih => exact fun s h => ih _ (storeStep_inv so key h o)

/-! ### x/lockup -/

structure LockupInv (s : LockupState) : Prop where
  sl : Sorted ltNat s.locks
  kl : Keyed (fun l : Lock => l.id) s.locks

/-- `GetPeriodLocks` lists every lock exactly once (in reference order, not in id order) -/
theorem periodLocks_perm (s : LockupState) : (periodLocks s).Perm (exportVals s.locks) := by
  unfold periodLocks
  refine ((sortBy_perm _ _).append (sortBy_perm _ _)).trans ?_
  have := List.filter_append_perm (fun l : Lock => !l.isUnlocking) (exportVals s.locks)
  have e : (fun x : Lock => !(fun l : Lock => !l.isUnlocking) x) = fun l : Lock => l.isUnlocking := by
    funext x; simp
  rw [e] at this
  exact this

theorem lockup_locks_any_order {s : LockupState} (h : LockupInv s) {l : List Lock} (hp : l.Perm (exportVals s.locks)) :
    importLockup { lastLockId := s.lastLockId, locks := l } = { s with params := lockupDefaultParams } := by
  unfold importLockup
  simp only
  rw [importVals_perm soNat h.sl h.kl hp]

theorem lockup_import_export {s : LockupState} (h : LockupInv s) :
    importLockup (exportLockup s) = { s with params := lockupDefaultParams } :=
  lockup_locks_any_order h (periodLocks_perm s)

/-! ### x/delayedack -/

structure DaInv (s : DaState) : Prop where
  sp : Sorted lexLt s.packets
  kp : Keyed DPacket.key s.packets
  sa : Sorted ltBB s.byAddr
  /-- the by-address index lists exactly the pending packets, each under the address the packet type
      selects (M-Packets: `IdxInv.fwd` / `IdxInv.bwd`, `idx_run`) -/
  idx : ∀ e, e ∈ s.byAddr ↔
    ∃ x ∈ s.packets, x.2.status = .pending ∧ daIndexAddr x.2.ptype x.2.receiver x.2.sender = some e.1.1 ∧ e.1.2 = x.1
  /-- no stored pending packet has the undefined type (packets are recorded by the middleware with
      one of the three real types only) -/
  typed : ∀ x ∈ s.packets, x.2.status = .pending → x.2.ptype ≠ .undefined

/-- the index entry one packet contributes -/
def daIdxItem (p : DPacket) : Option (Bytes × Bytes) :=
  if p.status = .pending then (daIndexAddr p.ptype p.receiver p.sender).map fun a => (a, p.key) else none

theorem daInitPacket_byAddr (s : DaState) (p : DPacket) :
    (daInitPacket s p).byAddr = match daIdxItem p with
      | some k => kvSet ltBB k () s.byAddr
      | none => s.byAddr := by
  unfold daInitPacket daIdxItem
  by_cases h : p.status = .pending
  · simp only [h, if_true]
    cases daIndexAddr p.ptype p.receiver p.sender <;> rfl
  · simp only [h, if_false]

theorem foldl_daInit_packets (l : List DPacket) (s : DaState) :
    (l.foldl daInitPacket s).packets = l.foldl (fun m p => kvSet lexLt p.key (id p) m) s.packets :=
  foldl_proj daInitPacket (·.packets) _ (fun _ _ => rfl) l s

theorem foldl_daInit_byAddr (l : List DPacket) (s : DaState) :
    (l.foldl daInitPacket s).byAddr = (l.filterMap daIdxItem).foldl (fun m k => kvSet ltBB (id k) () m) s.byAddr := by
  rw [List.foldl_filterMap]
  exact foldl_proj daInitPacket (·.byAddr) _ (fun s p => by rw [daInitPacket_byAddr]; cases daIdxItem p <;> rfl) l s

theorem foldl_daInit_params (l : List DPacket) (s : DaState) : (l.foldl daInitPacket s).params = s.params := by
  induction l generalizing s with
  | nil => rfl
  | cons a l ih => rw [List.foldl_cons, ih]; rfl

theorem da_import_export {s : DaState} (h : DaInv s) : importDa (exportDa s) = some s := by
  have hnp : daInitPanics (exportDa s) = false := by
    unfold daInitPanics exportDa
    rw [Bool.eq_false_iff]
    intro hany
    obtain ⟨p, hp, hc⟩ := List.any_eq_true.1 hany
    obtain ⟨x, hx, rfl⟩ := List.mem_map.1 hp
    simp only [Bool.and_eq_true, decide_eq_true_eq, Option.isNone_iff_eq_none] at hc
    have := h.typed x hx hc.1
    revert this
    have h2 := hc.2
    cases hpt : x.2.ptype <;> simp_all [daIndexAddr]
  unfold importDa
  rw [hnp]
  simp only [Bool.false_eq_true, if_false, Option.some.injEq]
  have hpk := foldl_daInit_packets (exportDa s).packets { params := s.params, packets := [], byAddr := [] }
  have hba := foldl_daInit_byAddr (exportDa s).packets { params := s.params, packets := [], byAddr := [] }
  have hpar := foldl_daInit_params (exportDa s).packets { params := s.params, packets := [], byAddr := [] }
  have e1 : (exportDa s).packets.foldl (fun m p => kvSet lexLt p.key (id p) m) [] = s.packets :=
    importVals_export soBytes h.sp h.kp
  have e2 : ((exportDa s).packets.filterMap daIdxItem).foldl (fun m k => kvSet ltBB (id k) () m) [] = s.byAddr := by
    apply setRebuild_eq (soPair soBytes soBytes) h.sa
    intro e
    rw [h.idx e]
    constructor
    · rintro ⟨x, hx, hst, hia, hk⟩
      refine ⟨e.1, List.mem_filterMap.2 ⟨x.2, List.mem_map.2 ⟨x, hx, rfl⟩, ?_⟩, rfl⟩
      unfold daIdxItem
      rw [if_pos hst, hia, ← h.kp x hx, ← hk]; rfl
    · rintro ⟨k, hk, hek⟩
      obtain ⟨p, hp, hpi⟩ := List.mem_filterMap.1 hk
      obtain ⟨x, hx, rfl⟩ := List.mem_map.1 hp
      unfold daIdxItem at hpi
      by_cases hst : x.2.status = .pending
      · rw [if_pos hst] at hpi
        cases hia : daIndexAddr x.2.ptype x.2.receiver x.2.sender with
        | none => rw [hia] at hpi; cases hpi
        | some a =>
          rw [hia] at hpi
          simp only [Option.map_some, Option.some.injEq] at hpi
          refine ⟨x, hx, hst, ?_, ?_⟩
          · rw [hek, ← hpi]; exact hia
          · rw [hek, ← hpi, h.kp x hx]; rfl
      · rw [if_neg hst] at hpi; cases hpi
  simp only [exportDa] at hpk hba hpar e1 e2 ⊢
  rw [e1] at hpk; rw [e2] at hba
  generalize (List.foldl daInitPacket _ _) = t at hpk hba hpar
  cases t; cases s; simp_all

/-! ### x/eibc -/

structure EibcInv (s : EibcState) : Prop where
  so : Sorted lexLt s.orders
  ko : Keyed DOrder.key s.orders
  /-- tracking keys are Go strings: every element is a byte -/
  wf : ∀ x ∈ s.orders, Bytes.WF x.2.trackingKey

theorem b64enc_ne_nil' : ∀ (k : Bytes), k ≠ [] → b64enc k ≠ []
  | [], h => absurd rfl h
  | [_], _ => by simp [b64enc]
  | [_, _], _ => by simp [b64enc]
  | _ :: _ :: _ :: _, _ => by simp [b64enc]

/-- the tracking key survives the base64 detour -/
theorem eibc_key_roundtrip (k : Bytes) (h : Bytes.WF k) : eibcDecodeKey (eibcEncodeKey k) = some k := by
  unfold eibcDecodeKey eibcEncodeKey
  by_cases hk : k = []
  · subst hk; simp
  · rw [if_pos hk, if_pos (b64enc_ne_nil' k hk)]; exact b64dec_enc k h

theorem mapM_decode_encode (l : List DOrder) (h : ∀ o ∈ l, Bytes.WF o.trackingKey) :
    (l.map fun o => { o with trackingKey := eibcEncodeKey o.trackingKey }).mapM
      (fun o => (eibcDecodeKey o.trackingKey).map fun k => { o with trackingKey := k }) = some l := by
  induction l with
  | nil => rfl
  | cons o l ih =>
    rw [List.map_cons, List.mapM_cons, ih (fun o' ho' => h o' (List.mem_cons_of_mem _ ho'))]
    simp only [eibc_key_roundtrip o.trackingKey (h o List.mem_cons_self)]
    rfl

theorem eibc_import_export {s : EibcState} (h : EibcInv s) :
    importEibc (exportEibc s) = some { s with lps := [], nextLpId := 0 } := by
  unfold importEibc exportEibc
  simp only
  rw [mapM_decode_encode _ (fun o ho => by
    obtain ⟨x, hx, rfl⟩ := List.mem_map.1 ho
    exact h.wf x hx)]
  simp only [Option.map_some, importVals_export soBytes h.so h.ko]

/-! ### x/lightclient -/

structure LcInv (s : LcState) : Prop where
  sr : Sorted lexLt s.r2c
  sc : Sorted lexLt s.c2r
  /-- the two canonical-client sections are inverse to each other (M-LC: `MapsInv`, C09) -/
  inv : ∀ c r, (c, r) ∈ s.c2r ↔ (r, c) ∈ s.r2c
  /-- `SetCanonicalClient` is only reached with real ids -/
  ne : ∀ e ∈ s.r2c, e.1 ≠ [] ∧ e.2 ≠ []
  ss : Sorted ltSigner s.signers
  sh : Sorted ltCH s.h2s

/-- the height index names exactly the recorded signers: in particular one signer per (client, height) -/
def SignersExact (s : LcState) : Prop := ∀ c h q, ((c, h), q) ∈ s.h2s ↔ ((q, c, h), ()) ∈ s.signers

theorem foldl_lcSetCanonical_r2c (l : List (Bytes × Bytes)) (s : LcState) :
    (l.foldl lcSetCanonical s).r2c = l.foldl (fun m c => kvSet lexLt c.1 c.2 m) s.r2c :=
  foldl_proj lcSetCanonical (·.r2c) _ (fun _ _ => rfl) l s
theorem foldl_lcSetCanonical_c2r (l : List (Bytes × Bytes)) (s : LcState) :
    (l.foldl lcSetCanonical s).c2r = l.foldl (fun m c => kvSet lexLt c.2 c.1 m) s.c2r :=
  foldl_proj lcSetCanonical (·.c2r) _ (fun _ _ => rfl) l s
theorem foldl_lcSetCanonical_signers (l : List (Bytes × Bytes)) (s : LcState) :
    (l.foldl lcSetCanonical s).signers = s.signers ∧ (l.foldl lcSetCanonical s).h2s = s.h2s := by
  induction l generalizing s with
  | nil => exact ⟨rfl, rfl⟩
  | cons a l ih => rw [List.foldl_cons]; exact ih _
theorem foldl_lcSaveSigner_signers (l : List SignerKey) (s : LcState) :
    (l.foldl lcSaveSigner s).signers = l.foldl (fun m k => kvSet ltSigner (id k) () m) s.signers :=
  foldl_proj lcSaveSigner (·.signers) _ (fun _ _ => rfl) l s
theorem foldl_lcSaveSigner_h2s (l : List SignerKey) (s : LcState) :
    (l.foldl lcSaveSigner s).h2s = l.foldl (fun m k => kvSet ltCH (k.2.1, k.2.2) k.1 m) s.h2s :=
  foldl_proj lcSaveSigner (·.h2s) _ (fun _ _ => rfl) l s
theorem foldl_lcSaveSigner_maps (l : List SignerKey) (s : LcState) :
    (l.foldl lcSaveSigner s).r2c = s.r2c ∧ (l.foldl lcSaveSigner s).c2r = s.c2r := by
  induction l generalizing s with
  | nil => exact ⟨rfl, rfl⟩
  | cons a l ih => rw [List.foldl_cons]; exact ih _

theorem lc_valid {s : LcState} (h : LcInv s) : lcValid (exportLc s) = true := by
  unfold lcValid exportLc
  rw [List.all_eq_true]
  intro c hc
  have := h.ne c hc
  simp only [Bool.and_eq_true, Bool.not_eq_true', List.isEmpty_eq_false_iff]
  exact this

/-- canonical clients (both directions) and the signer set always survive; the height index too when
    it is exact -/
theorem lc_import_export_parts {s : LcState} (h : LcInv s) :
    ∃ t, importLc (exportLc s) = some t ∧ t.r2c = s.r2c ∧ t.c2r = s.c2r ∧ t.signers = s.signers ∧
      (SignersExact s → t.h2s = s.h2s) := by
  unfold importLc
  rw [lc_valid h]
  refine ⟨_, rfl, ?_, ?_, ?_, ?_⟩
  · rw [(foldl_lcSaveSigner_maps _ _).1, foldl_lcSetCanonical_r2c]
    apply importWith_eq soBytes h.sr
    · exact h.sr.keys_nodup soBytes
    · intro e; exact ⟨fun he => ⟨e, he, rfl⟩, fun ⟨x, hx, hxe⟩ => by rw [hxe]; exact hx⟩
  · rw [(foldl_lcSaveSigner_maps _ _).2, foldl_lcSetCanonical_c2r]
    apply importWith_eq soBytes h.sc
    · apply nodup_map_on
      · exact List.Pairwise.imp (fun hab e => soBytes.ne_of_lt hab (congrArg Prod.fst e)) h.sr
      · intro x hx y hy hxy
        have hx' := (h.inv x.2 x.1).2 hx
        have hy' := (h.inv y.2 y.1).2 hy
        have := h.sc.eq_of_key soBytes hx' hy' hxy
        exact Prod.ext (Prod.mk.inj this).2 hxy
    · intro e
      constructor
      · intro he; exact ⟨(e.2, e.1), (h.inv e.1 e.2).1 he, rfl⟩
      · rintro ⟨x, hx, rfl⟩; exact (h.inv x.2 x.1).2 hx
  · rw [foldl_lcSaveSigner_signers, (foldl_lcSetCanonical_signers _ _).1]
    apply setRebuild_eq (soPair soBytes (soPair soBytes soNat)) h.ss
    intro e
    constructor
    · intro he; exact ⟨e.1, List.mem_map.2 ⟨e, he, rfl⟩, rfl⟩
    · rintro ⟨k, hk, hek⟩
      obtain ⟨x, hx, rfl⟩ := List.mem_map.1 hk
      have : e = x := Prod.ext hek rfl
      rw [this]; exact hx
  · intro hex
    rw [foldl_lcSaveSigner_h2s, (foldl_lcSetCanonical_signers _ _).2]
    apply importWith_eq (soPair soBytes soNat) h.sh
    · apply nodup_map_on
      · apply nodup_map_on
        · exact List.Pairwise.imp (fun hab e => (soPair soBytes (soPair soBytes soNat)).ne_of_lt hab (congrArg Prod.fst e)) h.ss
        · intro x _ y _ hxy; exact Prod.ext hxy rfl
      · intro x hx y hy hxy
        obtain ⟨x', hx', rfl⟩ := List.mem_map.1 hx
        obtain ⟨y', hy', rfl⟩ := List.mem_map.1 hy
        have hx2 : ((x'.1.2.1, x'.1.2.2), x'.1.1) ∈ s.h2s := (hex _ _ _).2 hx'
        have hy2 : ((y'.1.2.1, y'.1.2.2), y'.1.1) ∈ s.h2s := (hex _ _ _).2 hy'
        have := h.sh.eq_of_key (soPair soBytes soNat) hx2 hy2 hxy
        have e1 := (Prod.mk.inj this).2
        have e2 := (Prod.mk.inj hxy)
        exact Prod.ext e1 (Prod.ext e2.1 e2.2)
    · intro e
      constructor
      · intro he
        refine ⟨(e.2, e.1.1, e.1.2), List.mem_map.2 ⟨((e.2, e.1.1, e.1.2), ()), (hex e.1.1 e.1.2 e.2).1 he, rfl⟩, rfl⟩
      · rintro ⟨k, hk, rfl⟩
        obtain ⟨x, hx, rfl⟩ := List.mem_map.1 hk
        exact (hex _ _ _).2 hx

theorem lc_import_export {s : LcState} (h : LcInv s) (hex : SignersExact s) : importLc (exportLc s) = some s := by
  obtain ⟨t, ht, h1, h2, h3, h4⟩ := lc_import_export_parts h
  rw [ht]
  have h4' := h4 hex
  cases t; cases s; simp_all

/-! ### x/dymns -/

structure DymnsInv (s : DymnsState) : Prop where
  sn : Sorted lexLt s.names
  kn : Keyed (fun d : DName => d.name) s.names
  so : Sorted ltBB s.ownIdx
  sc : Sorted ltBB s.cfgIdx
  sf : Sorted ltBB s.fbIdx
  /-- the three reverse lookups hold exactly what the After-hooks write for the stored names
      (M-DymNS: `IdxOK`, `run_inv`, C17) -/
  own : ∀ e, e ∈ s.ownIdx ↔ ∃ x ∈ s.names, e.1 = (x.2.owner, x.2.name)
  cfg : ∀ e, e ∈ s.cfgIdx ↔ ∃ x ∈ s.names, ∃ a ∈ x.2.cfgAddrs, e.1 = (a, x.2.name)
  fb : ∀ e, e ∈ s.fbIdx ↔ ∃ x ∈ s.names, ∃ a ∈ x.2.fbAddrs, e.1 = (a, x.2.name)

theorem foldl_dymnsInitName_names (l : List DName) (s : DymnsState) :
    (l.foldl dymnsInitName s).names = l.foldl (fun m d => kvSet lexLt d.name (id d) m) s.names :=
  foldl_proj dymnsInitName (·.names) _ (fun _ _ => rfl) l s
theorem foldl_dymnsInitName_own (l : List DName) (s : DymnsState) :
    (l.foldl dymnsInitName s).ownIdx = l.foldl (fun m d => kvSet ltBB (d.owner, d.name) () m) s.ownIdx :=
  foldl_proj dymnsInitName (·.ownIdx) _ (fun _ _ => rfl) l s
theorem foldl_dymnsInitName_cfg (l : List DName) (s : DymnsState) :
    (l.foldl dymnsInitName s).cfgIdx =
      (l.flatMap fun d => d.cfgAddrs.map fun a => (a, d.name)).foldl (fun m k => kvSet ltBB (id k) () m) s.cfgIdx := by
  rw [List.foldl_flatMap]
  refine foldl_proj dymnsInitName (·.cfgIdx) _ (fun s d => ?_) l s
  simp only [dymnsInitName, setIns, List.foldl_map, id]
theorem foldl_dymnsInitName_fb (l : List DName) (s : DymnsState) :
    (l.foldl dymnsInitName s).fbIdx =
      (l.flatMap fun d => d.fbAddrs.map fun a => (a, d.name)).foldl (fun m k => kvSet ltBB (id k) () m) s.fbIdx := by
  rw [List.foldl_flatMap]
  refine foldl_proj dymnsInitName (·.fbIdx) _ (fun s d => ?_) l s
  simp only [dymnsInitName, setIns, List.foldl_map, id]

/-- what the name loop leaves untouched -/
theorem foldl_dymnsInitName_rest (l : List DName) (s : DymnsState) :
    let t := l.foldl dymnsInitName s
    t.now = s.now ∧ t.params = s.params ∧ t.grace = s.grace ∧ t.sellOrders = s.sellOrders ∧
      t.buyOrders = s.buyOrders ∧ t.bal = s.bal ∧ t.modBal = s.modBal ∧ t.supply = s.supply := by
  induction l generalizing s with
  | nil => exact ⟨rfl, rfl, rfl, rfl, rfl, rfl, rfl, rfl⟩
  | cons a l ih => simp only [List.foldl_cons]; exact ih _

/-- refunds mint: the supply grows by exactly the refunded total, the module account is untouched -/
theorem foldl_dymnsRefund_supply (l : List Refund) (s : DymnsState) :
    (l.foldl dymnsRefund s).supply = s.supply + (l.map (·.amount)).sum ∧
      (l.foldl dymnsRefund s).modBal = s.modBal := by
  induction l generalizing s with
  | nil => exact ⟨by simp, rfl⟩
  | cons a l ih =>
    rw [List.foldl_cons]
    obtain ⟨h1, h2⟩ := ih (dymnsRefund s a)
    refine ⟨?_, h2⟩
    rw [h1]; simp only [dymnsRefund, List.map_cons, List.sum_cons]; omega

/-- names and the three reverse lookups of the KEPT names are rebuilt exactly -/
theorem dymns_names_rebuilt {s : DymnsState} (h : DymnsInv s) (hk : ∀ x ∈ s.names, x.2.kept s.now s.grace = true) :
    let t := (exportDymns s).names.foldl dymnsInitName
      { now := s.now, params := s.params, grace := s.grace, names := [], ownIdx := [], cfgIdx := [],
        fbIdx := [], sellOrders := [], buyOrders := [], bal := s.bal, modBal := s.modBal, supply := s.supply }
    t.names = s.names ∧ t.ownIdx = s.ownIdx ∧ t.cfgIdx = s.cfgIdx ∧ t.fbIdx = s.fbIdx := by
  have hall : (exportDymns s).names = exportVals s.names := by
    unfold exportDymns
    simp only
    rw [List.filter_eq_self]
    intro d hd
    obtain ⟨x, hx, rfl⟩ := List.mem_map.1 hd
    exact hk x hx
  simp only
  rw [hall]
  refine ⟨?_, ?_, ?_, ?_⟩
  · rw [foldl_dymnsInitName_names]; exact importVals_export soBytes h.sn h.kn
  · rw [foldl_dymnsInitName_own]
    apply setRebuild_eq (soPair soBytes soBytes) h.so
    intro e; rw [h.own e]
    constructor
    · rintro ⟨x, hx, he⟩; exact ⟨x.2, List.mem_map.2 ⟨x, hx, rfl⟩, he⟩
    · rintro ⟨d, hd, he⟩
      obtain ⟨x, hx, rfl⟩ := List.mem_map.1 hd
      exact ⟨x, hx, he⟩
  · rw [foldl_dymnsInitName_cfg]
    apply setRebuild_eq (soPair soBytes soBytes) h.sc
    intro e; rw [h.cfg e]
    constructor
    · rintro ⟨x, hx, a, ha, he⟩
      exact ⟨(a, x.2.name), List.mem_flatMap.2 ⟨x.2, List.mem_map.2 ⟨x, hx, rfl⟩, List.mem_map.2 ⟨a, ha, rfl⟩⟩, he⟩
    · rintro ⟨k, hk', he⟩
      obtain ⟨d, hd, hkd⟩ := List.mem_flatMap.1 hk'
      obtain ⟨a, ha, rfl⟩ := List.mem_map.1 hkd
      obtain ⟨x, hx, rfl⟩ := List.mem_map.1 hd
      exact ⟨x, hx, a, ha, he⟩
  · rw [foldl_dymnsInitName_fb]
    apply setRebuild_eq (soPair soBytes soBytes) h.sf
    intro e; rw [h.fb e]
    constructor
    · rintro ⟨x, hx, a, ha, he⟩
      exact ⟨(a, x.2.name), List.mem_flatMap.2 ⟨x.2, List.mem_map.2 ⟨x, hx, rfl⟩, List.mem_map.2 ⟨a, ha, rfl⟩⟩, he⟩
    · rintro ⟨k, hk', he⟩
      obtain ⟨d, hd, hkd⟩ := List.mem_flatMap.1 hk'
      obtain ⟨a, ha, rfl⟩ := List.mem_map.1 hkd
      obtain ⟨x, hx, rfl⟩ := List.mem_map.1 hd
      exact ⟨x, hx, a, ha, he⟩

/-- with no open order and no name expired beyond the grace period the whole state round-trips -/
theorem dymns_reimport_quiet {s : DymnsState} (h : DymnsInv s) (hk : ∀ x ∈ s.names, x.2.kept s.now s.grace = true)
    (hs : s.sellOrders = []) (hb : s.buyOrders = []) : reimportDymns s = s := by
  have hn := dymns_names_rebuilt h hk
  have hr := foldl_dymnsInitName_rest (exportDymns s).names
      { now := s.now, params := s.params, grace := s.grace, names := [], ownIdx := [], cfgIdx := [],
        fbIdx := [], sellOrders := [], buyOrders := [], bal := s.bal, modBal := s.modBal, supply := s.supply }
  have hbids : (exportDymns s).bids = [] := by simp [exportDymns, hs, exportVals]
  have hbos : (exportDymns s).buyOrders = [] := by simp [exportDymns, hb, exportVals]
  unfold reimportDymns importDymns
  simp only [hbids, hbos, List.map_nil, List.foldl_nil]
  simp only [exportDymns] at hn hr ⊢
  generalize (List.foldl dymnsInitName _ _) = t at hn hr
  cases t; cases s; simp_all

/-- in general the supply after the import is the old supply plus every refunded bid and offer -/
theorem dymns_reimport_supply (s : DymnsState) :
    (reimportDymns s).supply = s.supply + ((exportDymns s).bids.map (·.amount)).sum +
      ((exportDymns s).buyOrders.map (·.offer)).sum ∧ (reimportDymns s).modBal = s.modBal := by
  unfold reimportDymns importDymns
  simp only
  have h1 := foldl_dymnsRefund_supply ((exportDymns s).buyOrders.map fun o => (⟨o.buyer, o.offer⟩ : Refund))
  have h2 := foldl_dymnsRefund_supply (exportDymns s).bids
  have h3 := foldl_dymnsInitName_rest (exportDymns s).names
  simp only at h3
  constructor
  · rw [(h1 _).1, (h2 _).1, (h3 _).2.2.2.2.2.2.2, List.map_map]; rfl
  · rw [(h1 _).2, (h2 _).2, (h3 _).2.2.2.2.2.2.1]

end DymVerif.Genesis
