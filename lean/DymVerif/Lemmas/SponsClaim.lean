import DymVerif.Lemmas.SponsRun
/-
  Lemmas/SponsClaim — the claim blacklist (who may claim until the next epoch end of any identifier)
  and the payment bound for claim-only histories after a covering snapshot.
-/
namespace DymVerif.Spons

/-! ### blacklist -/

/-- the end of an x/incentives distribution epoch (ends of other epochs do nothing to sponsorship) -/
def isEpochEnd : Op → Bool
  | .epochEnd true => true
  | _ => false

theorem revokeVote_blacklist (s : State) (a : Nat) (v : Vote) : (s.revokeVote a v).blacklist = s.blacklist := rfl

theorem castVote_blacklist {s1 s' : State} {a : Nat} {ws : List GP} (hc : s1.castVote a ws = .ok s') :
    a ∈ s'.blacklist ∧ ∀ b, b ∈ s1.blacklist → b ∈ s'.blacklist := by
  unfold State.castVote at hc
  simp only at hc
  split at hc
  · cases hc
  · cases hc
    show a ∈ (if s1.blacklist.contains a = true then s1.blacklist else a :: s1.blacklist) ∧
      ∀ b, b ∈ s1.blacklist → b ∈ (if s1.blacklist.contains a = true then s1.blacklist else a :: s1.blacklist)
    split
    · rename_i h; exact ⟨by simpa using h, fun b hb => hb⟩
    · exact ⟨by simp, fun b hb => by simp [hb]⟩

theorem vote_blacklist {s s' : State} {a : Nat} {ws : List GP} (h : s.vote a ws = .ok s') :
    a ∈ s'.blacklist ∧ ∀ b, b ∈ s.blacklist → b ∈ s'.blacklist := by
  unfold State.vote at h
  split at h
  · cases h
  split at h
  · cases h
  split at h
  · have := castVote_blacklist h
    exact ⟨this.1, fun b hb => this.2 b hb⟩
  · exact castVote_blacklist h

theorem processHook_blacklist (s : State) (a val : Nat) (v : Vote) (o n : Int) :
    (s.processHook a val v o n).blacklist = s.blacklist := by
  unfold State.processHook; simp only; split <;> rfl

theorem hook_blacklist {s s' : State} {a val : Nat} {p : Option Int} (h : s.hook a val p = .ok s') :
    s'.blacklist = s.blacklist := by
  rcases hook_ok h with ⟨_, rfl⟩ | ⟨v, _, rfl⟩
  · rfl
  · exact processHook_blacklist _ _ _ _ _ _

theorem hooks_blacklist {s s' : State} {a : Nat} {hs : List (Nat × Option Int)} (h : s.hooks a hs = .ok s') :
    s'.blacklist = s.blacklist := by
  induction hs generalizing s with
  | nil => cases h; rfl
  | cons x xs ih =>
    unfold State.hooks at h
    split at h
    · cases h
    · rename_i s1 h1; rw [ih h, hook_blacklist h1]

theorem pay_blacklist {s s1 : State} {a : Nat} {g : Gauge} {e : Endorsement} {pw p : Int}
    (h : s.pay a g e pw = .ok (s1, p)) : s1.blacklist = a :: s.blacklist := by
  unfold State.pay at h
  split at h
  · cases h; rfl
  · split at h
    · cases h
    split at h
    · cases h
    split at h
    · cases h
    · cases h; rfl

/-- what an accepted claim looked at -/
theorem claim_ok {s s1 : State} {a gid : Nat} {p : Int} (h : s.claim a gid = .ok (s1, p)) :
    a ∉ s.blacklist ∧ ∃ g r e v, s.gauge? gid = some g ∧ g.kind = .endorsement r ∧ s.endorsement? r = some e ∧
      alookup a s.votes = some v ∧ v.gaugePower e.gaugeId ≠ 0 ∧ s.pay a g e (v.gaugePower e.gaugeId) = .ok (s1, p) := by
  unfold State.claim at h
  split at h
  · cases h
  rename_i hcan
  have hnb : a ∉ s.blacklist := by
    intro hm; apply hcan; simp [hm]
  split at h
  · cases h
  rename_i g hg
  split at h
  · cases h
  · cases h
  rename_i r hk
  split at h
  · cases h
  rename_i e he
  split at h
  · cases h
  rename_i v hv
  split at h
  · cases h
  rename_i hp
  exact ⟨hnb, g, r, e, v, hg, hk, he, hv, hp, h⟩

theorem claim_blacklist {s s1 : State} {a gid : Nat} {p : Int} (h : s.claim a gid = .ok (s1, p)) :
    s1.blacklist = a :: s.blacklist := by
  obtain ⟨_, g, r, e, v, _, _, _, _, _, hpay⟩ := claim_ok h
  exact pay_blacklist hpay

theorem claim_blocked {s : State} {a : Nat} (h : a ∈ s.blacklist) (gid : Nat) : s.claim a gid = .error .cannotClaim := by
  unfold State.claim
  have : (s.blacklist.contains a || (s.vote? a).isNone) = true := by simp [h]
  rw [if_pos this]

theorem step_blacklist {s : State} {op : Op} {a : Nat} (h : a ∈ s.blacklist) (he : isEpochEnd op = false) :
    a ∈ (step s op).1.blacklist := by
  cases op with
  | vote b ws =>
    simp only [step]; split
    · rename_i s1 hv; exact (vote_blacklist hv).2 a h
    · exact h
  | revoke b =>
    simp only [step]; split
    · rename_i s1 hv
      unfold State.revoke at hv; split at hv
      · cases hv
      · cases hv; exact h
    · exact h
  | claim b g =>
    simp only [step]; split
    · rename_i s1 p hc; rw [claim_blacklist hc]; simp [h]
    · exact h
  | staking b hs fin =>
    simp only [step]; split
    · rename_i s1 hst
      unfold State.staking at hst
      split at hst
      · cases hst
      · rename_i s2 h2; cases hst
        show a ∈ s2.blacklist
        rw [hooks_blacklist h2]; exact h
    · exact h
  | slash fin => exact h
  | epochEnd d =>
    cases d
    · exact h
    · cases he
  | fund g amt =>
    simp only [step]; split
    · rename_i s1 hf
      unfold State.fund at hf
      split at hf
      · cases hf
      split at hf
      · cases hf
      · cases hf; exact h
    · exact h
  | addGauge g =>
    simp only [step]; split
    · rename_i s1 hg; obtain ⟨⟨inc, rfl⟩, _, _⟩ := addGauge_ok hg; exact h
    · exact h
  | addRollapp r =>
    simp only [step]; split
    · rename_i s1 hr; obtain ⟨_, rfl⟩ := addRollapp_ok hr; exact h
    · exact h
  | setParams ma mv =>
    simp only [step]; split
    · rename_i s1 hp; obtain ⟨rfl, _⟩ := setParams_ok hp; exact h
    · exact h

theorem run_blacklist {s : State} {ops : List Op} {a : Nat} (h : a ∈ s.blacklist)
    (he : ∀ op ∈ ops, isEpochEnd op = false) : a ∈ (run s ops).blacklist := by
  induction ops generalizing s with
  | nil => exact h
  | cons op ops ih =>
    exact ih (step_blacklist h (he op (by simp))) (fun o ho => he o (by simp [ho]))

/-! ### payment bound -/

/-- power on gauge `gid` of the voters who are not blacklisted (can still claim in this epoch) -/
def usum (bl : List Nat) (gid : Nat) : List (Nat × Vote) → Int
  | [] => 0
  | x :: xs => (if bl.contains x.1 then 0 else x.2.gaugePower gid) + usum bl gid xs

theorem usum_nonneg_step {bl : List Nat} {gid : Nat} {l : List (Nat × Vote)}
    (hp : ∀ x ∈ l, 0 ≤ x.2.gaugePower gid) : 0 ≤ usum bl gid l := by
  induction l with
  | nil => simp [usum]
  | cons x xs ih =>
    have := ih (fun y hy => hp y (by simp [hy]))
    have := hp x (by simp)
    simp only [usum]; split <;> omega

theorem usum_cons_bl_notin {bl : List Nat} {gid a : Nat} {l : List (Nat × Vote)} (h : ∀ x ∈ l, x.1 ≠ a) :
    usum (a :: bl) gid l = usum bl gid l := by
  induction l with
  | nil => rfl
  | cons x xs ih =>
    have hx : x.1 ≠ a := h x (by simp)
    simp only [usum, List.contains_cons, ih (fun y hy => h y (by simp [hy]))]
    have : (x.1 == a) = false := by simpa using hx
    simp [this]

/-- blacklisting `a` (not blacklisted before, vote `v`) removes exactly `v`'s power -/
theorem usum_blacklist {bl : List Nat} {gid a : Nat} {l : List (Nat × Vote)} {v : Vote}
    (hk : KeysNodup l) (hv : alookup a l = some v) (hn : a ∉ bl) :
    usum (a :: bl) gid l = usum bl gid l - v.gaugePower gid := by
  induction l with
  | nil => simp [alookup] at hv
  | cons x xs ih =>
    simp only [alookup] at hv
    split at hv
    · rename_i hx; cases hv
      have h1 : usum (x.1 :: bl) gid xs = usum bl gid xs := usum_cons_bl_notin (fun y hy => hk.1 y hy)
      have h2 : bl.contains x.1 = false := by
        cases h : bl.contains x.1 with
        | false => rfl
        | true => exact absurd (by simpa using h) (hx ▸ hn)
      subst hx
      simp only [usum, List.contains_cons, BEq.rfl, Bool.true_or, if_true, h1, h2]
      simp; omega
    · rename_i hx
      have : (x.1 == a) = false := by simpa using hx
      simp only [usum, List.contains_cons, this, Bool.false_or, ih hk.2 hv]
      omega

/-- the gauge `gid` is an endorsement gauge of rollapp `r` whose epoch rewards are `R` -/
def GaugeIs (s : State) (gid r : Nat) (R : Int) : Prop :=
  ∃ g, s.gauge? gid = some g ∧ g.kind = .endorsement r ∧ g.epochRewards = some R

theorem find_updGauge (l : List Gauge) (gid : Nat) (g2 : Gauge) :
    (updGauge l g2).find? (·.id == gid) = (l.find? (·.id == gid)).map (fun x => if x.id = g2.id then g2 else x) := by
  unfold updGauge
  induction l with
  | nil => rfl
  | cons x xs ih =>
    simp only [List.map_cons, List.find?_cons]
    by_cases hx : x.id = g2.id
    · simp only [hx, if_true]
      cases hg : (g2.id == gid) with
      | true => simp [hx]
      | false => simpa using ih
    · simp only [hx, if_false]
      cases hg : (x.id == gid) with
      | true => simp [hx]
      | false => simpa using ih

theorem gauge?_id {s : State} {gid : Nat} {g : Gauge} (h : s.gauge? gid = some g) : g.id = gid := by
  have := List.find?_some h; simpa using this

theorem paid_gaugeIs {s : State} {a : Nat} {g : Gauge} {amt : Int} {gid gid' r : Nat} {R : Int}
    (h : GaugeIs s gid r R) (hg : s.gauge? gid' = some g) : GaugeIs (s.paid a g amt) gid r R := by
  obtain ⟨g0, h0, hk, hr⟩ := h
  have e1 := gauge?_id hg
  have e0 := gauge?_id h0
  show ∃ g1, (updGauge s.gauges { g with distributed := g.distributed + amt }).find? (·.id == gid) = some g1 ∧ _
  rw [find_updGauge]
  have h0' : s.gauges.find? (·.id == gid) = some g0 := h0
  rw [h0']
  by_cases hid : g0.id = g.id
  · have : gid' = gid := by omega
    subst this
    rw [h0] at hg; cases hg
    exact ⟨{ g with distributed := g.distributed + amt }, by simp, hk, hr⟩
  · exact ⟨g0, by simp [hid], hk, hr⟩

/-- total paid from gauge `gid` along a run -/
def runPaid (s : State) (gid : Nat) : List Op → Int
  | [] => 0
  | op :: ops =>
    (match op with
      | .claim _ g => if g = gid then (step s op).2.2 else 0
      | _ => 0) + runPaid (step s op).1 gid ops

def isClaim : Op → Bool
  | .claim _ _ => true
  | _ => false

theorem tdiv_mul_le {x S : Int} (hx : 0 ≤ x) (hS : 0 < S) : x.tdiv S * S ≤ x := by
  rw [Int.tdiv_eq_ediv_of_nonneg hx]
  exact Int.ediv_mul_le x (Int.ne_of_gt hS)

theorem pay_facts {s s1 : State} {a : Nat} {g : Gauge} {e : Endorsement} {pw p : Int}
    (h : s.pay a g e pw = .ok (s1, p)) :
    (g.epochRewards = none ∧ p = 0 ∧ s1 = s.blacklisted a) ∨
    (∃ er, g.epochRewards = some er ∧ p = (pw * er).tdiv e.epoch ∧ 0 < p ∧ s1 = s.paid a g p) := by
  unfold State.pay at h
  split at h
  · rename_i hn; cases h; exact Or.inl ⟨hn, rfl, rfl⟩
  · rename_i er her
    split at h
    · cases h
    split at h
    · cases h
    rename_i hpos
    split at h
    · cases h
    · cases h; exact Or.inr ⟨er, her, rfl, by omega, rfl⟩

/-- the context of the payment bound: gauge `gid` pays rollapp `r`'s endorsers `R` per epoch against
    the snapshot `e.epoch`; voters have distinct keys and non-negative powers on the rollapp gauge -/
structure ClaimCtx (s : State) (gid r : Nat) (e : Endorsement) (R : Int) : Prop where
  gauge : GaugeIs s gid r R
  endo : s.endorsement? r = some e
  keys : KeysNodup s.votes
  pows : ∀ x ∈ s.votes, 0 ≤ x.2.gaugePower e.gaugeId

theorem claims_bound {gid r : Nat} {e : Endorsement} {R : Int} (hR : 0 ≤ R) (hS : 0 < e.epoch)
    (ops : List Op) (hall : ∀ op ∈ ops, isClaim op = true) (s : State) (ctx : ClaimCtx s gid r e R) :
    runPaid s gid ops * e.epoch ≤ R * usum s.blacklist e.gaugeId s.votes := by
  induction ops generalizing s with
  | nil =>
    have := usum_nonneg_step (bl := s.blacklist) ctx.pows
    have := Int.mul_nonneg hR this
    simp only [runPaid]; omega
  | cons op ops ih =>
    have hops : ∀ o ∈ ops, isClaim o = true := fun o ho => hall o (by simp [ho])
    cases op with
    | claim a g' =>
      simp only [runPaid, step]
      cases hc : s.claim a g' with
      | error err =>
        simp only
        have := ih hops s ctx
        split <;> simp only [Int.zero_add] <;> omega
      | ok res =>
        obtain ⟨s1, p⟩ := res
        simp only
        obtain ⟨hnb, g, r', e', v, hg, hk, he, hv, hp, hpay⟩ := claim_ok hc
        have hpv : 0 ≤ v.gaugePower e.gaugeId := ctx.pows _ (alookup_mem hv)
        have hbl : s1.blacklist = a :: s.blacklist := pay_blacklist hpay
        have hcore := (pay_core hpay).1
        have hus : usum s1.blacklist e.gaugeId s1.votes
            = usum s.blacklist e.gaugeId s.votes - v.gaugePower e.gaugeId := by
          rw [hbl, hcore.votes]; exact usum_blacklist ctx.keys hv hnb
        rcases pay_facts hpay with ⟨hnone, hp0, hs1⟩ | ⟨er, her, hpe, hppos, hs1⟩
        · -- nothing paid
          have ctx1 : ClaimCtx s1 gid r e R := by
            subst hs1; exact ⟨ctx.gauge, ctx.endo, ctx.keys, ctx.pows⟩
          have := ih hops s1 ctx1
          rw [hus] at this
          have hm := Int.mul_nonneg hR hpv
          rw [Int.mul_sub] at this
          subst hp0
          split <;> simp only [Int.zero_add] <;> omega
        · have ctx1 : ClaimCtx s1 gid r e R := by
            subst hs1; exact ⟨paid_gaugeIs ctx.gauge hg, ctx.endo, ctx.keys, ctx.pows⟩
          have := ih hops s1 ctx1
          rw [hus, Int.mul_sub] at this
          have hm := Int.mul_nonneg hR hpv
          split
          · rename_i hgid
            subst hgid
            obtain ⟨g0, h0, hk0, hr0⟩ := ctx.gauge
            have hg0 : g0 = g := by rw [hg] at h0; exact (Option.some.inj h0).symm
            subst hg0
            have hr' : r' = r := by rw [hk] at hk0; injection hk0
            have hee : e' = e := by have h1 := ctx.endo; rw [← hr', he] at h1; exact Option.some.inj h1
            have her' : er = R := by rw [her] at hr0; exact Option.some.inj hr0
            rw [hee, her'] at hpe
            have hle : p * e.epoch ≤ v.gaugePower e.gaugeId * R := by
              rw [hpe]; exact tdiv_mul_le (Int.mul_nonneg hpv hR) hS
            rw [Int.mul_comm (v.gaugePower e.gaugeId) R] at hle
            rw [Int.add_mul]
            omega
          · simp only [Int.zero_add]; omega
    | vote a ws => have := hall (.vote a ws) (by simp); simp [isClaim] at this
    | revoke a => have := hall (.revoke a) (by simp); simp [isClaim] at this
    | staking a hs fin => have := hall (.staking a hs fin) (by simp); simp [isClaim] at this
    | slash fin => have := hall (.slash fin) (by simp); simp [isClaim] at this
    | epochEnd d => have := hall (.epochEnd d) (by simp); simp [isClaim] at this
    | fund g amt => have := hall (.fund g amt) (by simp); simp [isClaim] at this
    | addGauge g => have := hall (.addGauge g) (by simp); simp [isClaim] at this
    | addRollapp r => have := hall (.addRollapp r) (by simp); simp [isClaim] at this
    | setParams ma mv => have := hall (.setParams ma mv) (by simp); simp [isClaim] at this

end DymVerif.Spons
