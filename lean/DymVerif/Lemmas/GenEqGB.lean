/-
  Lemmas/GenEqGB — tie 1 for M-GB (C10): what translate/gb.go regenerates from /repo's working tree on
  every check (`Gen/GB.lean`) equals what `Model/GB.lean` was written against.
  * the checks of the genesis-bridge validator are translated guard by guard (order, comparison, error)
    and must EQUAL the model's definitions (`…_eq`): validateAgainstHub (checksum, bech32 prefix, native
    denom, initial supply, accounts), compareGenesisAccounts, validateGenesisTransfer (required /
    unexpected / receiver = HubRecipient / amount = sum of the accounts), Validate (three stages),
    Launchable / IROReady, the transfer-enabled guard of the ICS4 wrapper, the HubRecipient constant;
  * every function the model mirrors step by step must have exactly the statement skeleton recorded
    here (`…_skeleton`): a dropped guard, a reordered effect, a new early return, another argument of a
    keeper call — any edit breaks the corresponding lemma.
-/
import DymVerif.Gen.GB
import DymVerif.Gen.IBC
import DymVerif.Model.GB
namespace DymVerif.GenEq.GB
open DymVerif DymVerif.GB

/-! ### translated checks -/

theorem hubRecipient_eq : Gen.GB.hubRecipient = "dym1mk7pw34ypusacm29m92zshgxee3yreums8avur" ∧
    Gen.GB.hubRecipient = Gen.IBC.hubRecipient := ⟨rfl, rfl⟩

theorem launchable_eq (g : GInfo) : Gen.GB.launchable g = g.launchable := by
  unfold Gen.GB.launchable GInfo.launchable
  cases g.supply <;> rfl

theorem iroReady_eq (g : GInfo) : Gen.GB.iroReady g = g.iroReady := by
  unfold Gen.GB.iroReady GInfo.iroReady
  rw [launchable_eq]

theorem foldl_amt (l : List Acc) (z : Int) : l.foldl (fun total a => total + a.amt) z = z + sumAccs l := by
  induction l generalizing z with
  | nil => simp [sumAccs]
  | cons a as ih => simp only [List.foldl_cons, ih, sumAccs, List.map_cons, List.sum_cons]; omega

/-- `GenesisTransferAmount` is the model's `sumAccs` -/
theorem genesisTransferAmount_eq (hub : GInfo) : Gen.GB.genesisTransferAmount hub = sumAccs hub.accounts := by
  unfold Gen.GB.genesisTransferAmount
  rw [foldl_amt]; omega

/-- `compareGenesisAccounts` succeeds exactly when the model's `compareAccounts` holds -/
theorem compareGenesisAccounts_eq (hub data : List Acc) :
    (Gen.GB.compareGenesisAccounts hub data).isNone = compareAccounts hub data := by
  unfold Gen.GB.compareGenesisAccounts compareAccounts
  by_cases hl : hub.length = data.length
  · by_cases ha : hub.all (fun a => data.any (fun b => b.addr == a.addr && b.amt == a.amt)) = true
    · have hn : hub.any (fun acc => !(data.any fun dataAcc => dataAcc.addr == acc.addr && dataAcc.amt == acc.amt)) = false := by
        rw [List.any_eq_false]; intro x hx
        have := (List.all_eq_true.mp ha) x hx
        simp [this]
      simp [hl, ha, hn]
    · have hn : hub.any (fun acc => !(data.any fun dataAcc => dataAcc.addr == acc.addr && dataAcc.amt == acc.amt)) = true := by
        rw [List.all_eq_true] at ha
        rw [List.any_eq_true]
        apply Classical.byContradiction; intro hc
        apply ha; intro x hx
        apply Classical.byContradiction; intro hx2
        exact hc ⟨x, hx, by simp [hx2]⟩
      have ha' : hub.all (fun a => data.any (fun b => b.addr == a.addr && b.amt == a.amt)) = false := by
        cases h : hub.all (fun a => data.any (fun b => b.addr == a.addr && b.amt == a.amt)) <;> simp_all
      simp [hl, ha', hn]
  · simp [hl]

/-- the ordered equality checks of `validateAgainstHub` are the model's `againstHub` -/
theorem validateAgainstHub_eq (d hub : GInfo) : Gen.GB.validateAgainstHub d hub = againstHub d hub := by
  unfold Gen.GB.validateAgainstHub againstHub
  have h := compareGenesisAccounts_eq hub.accounts d.accounts
  cases hc : compareAccounts hub.accounts d.accounts <;> rw [hc] at h <;>
    cases hg : Gen.GB.compareGenesisAccounts hub.accounts d.accounts <;> rw [hg] at h <;> simp_all [bne]

/-- `validateGenesisTransfer` is the model's `checkTransfer` -/
theorem validateGenesisTransfer_eq (tr : Option FT) (hub : GInfo) :
    Gen.GB.validateGenesisTransfer tr hub = checkTransfer tr hub := by
  unfold Gen.GB.validateGenesisTransfer checkTransfer Gen.GB.requiresTransfer
  cases tr with
  | none => by_cases h : 0 < hub.accounts.length <;> simp [h]
  | some t =>
    by_cases h : 0 < hub.accounts.length
    · simp only [h, decide_true, Option.isNone_some, Bool.and_false, Bool.false_eq_true, if_false, Bool.not_true,
        Option.isSome_some, Bool.and_true]
      rw [genesisTransferAmount_eq]
      unfold Gen.GB.amountOf
      by_cases hr : t.recv = 0 <;> by_cases hcn : t.canon = true <;> by_cases ha : t.amt = sumAccs hub.accounts <;>
        simp [hr, hcn, ha]
      all_goals exact fun h' => ha h'.symm
    · simp [h]

/-- `GenesisBridgeValidator.Validate` runs the model's three stages in the model's order -/
theorem validate_eq (d : GBData) (hub : GInfo) : Gen.GB.validate d hub = GB.validate d hub := by
  unfold Gen.GB.validate GB.validate
  rw [validateAgainstHub_eq, validateGenesisTransfer_eq]
  cases d.vb <;> simp
  cases againstHub d.gi hub <;> simp
  cases checkTransfer d.tr hub <;> rfl

/-- the guard of `ICS4Wrapper.SendPacket`: unknown rollapp passes, other lookup errors and a zero
    transfer proof height refuse -/
theorem transferAllowed_eq (tph : Nat) :
    Gen.GB.transferAllowed (.error true) = true ∧ Gen.GB.transferAllowed (.error false) = false ∧
    Gen.GB.transferAllowed (.ok tph) = !(tph == 0) := ⟨rfl, rfl, rfl⟩

/-- what `GetRollappByPortChan` answers for a hub channel of the model -/
def lookupOf (s : St) (c : Nat) : Option (Except Bool Nat) :=
  match s.chans.find? (·.1 == c) with
  | none => none
  | some (_, .plain) => some (.error true)
  | some (_, .second _) => some (.error false)
  | some (_, .canon r) => (getRa s r).map (fun ra => .ok ra.tph)

/-- ibc core's own verdict below the genesis-bridge wrapper (`SendPacket`: the channel's client must be active):
    the canonical client of the channel's rollapp is frozen by a hard fork -/
def coreRefuses (s : St) (c : Nat) : Bool :=
  match s.chans.find? (·.1 == c) with
  | some (_, .canon r) => (match getRa s r with | some ra => ra.frozen | none => false)
  | _ => false

theorem sendVerdict_eq (s : St) (x : Option Ra) :
    (match x with
      | none => (s, Res.err)
      | some ra => if ra.tph == 0 then (s, Res.err) else if ra.frozen then (s, .err) else (s, .ok)) =
    (match x.map (fun ra => (Except.ok ra.tph : Except Bool Nat)) with
      | none => (s, Res.err)
      | some l => (s, if Gen.GB.transferAllowed l && !(match x with | some ra => ra.frozen | none => false) then Res.ok else .err)) := by
  cases x with
  | none => rfl
  | some ra =>
    simp only [Option.map_some, Gen.GB.transferAllowed, Gen.GB.isTransferEnabled]
    by_cases h : ra.tph = 0 <;> by_cases hf : ra.frozen = true <;> simp [h, hf]

/-- the model's `stepSend` is the translated guard applied to the model's channel lookup, followed by ibc core's
    test of the client -/
theorem stepSend_eq (s : St) (c : Nat) :
    stepSend s c = match lookupOf s c with
      | none => (s, .err)
      | some l => (s, if Gen.GB.transferAllowed l && !coreRefuses s c then .ok else .err) := by
  unfold stepSend lookupOf coreRefuses
  generalize List.find? (fun x => x.1 == c) s.chans = o
  rcases o with _ | ⟨n, k⟩
  · rfl
  · cases k with
    | plain => rfl
    | second r => rfl
    | canon r => exact sendVerdict_eq s (getRa s r)

/-! ### the translated checks on concrete inputs -/

def gi1 : GInfo := { checksum := 7, pfx := 3, denom := ⟨5, 6, 18⟩, supply := some 100, accounts := [⟨1, 40⟩, ⟨2, 60⟩], sealed := true }

example : Gen.GB.validateAgainstHub gi1 gi1 = none := by decide
example : Gen.GB.validateAgainstHub { gi1 with pfx := 4 } gi1 = some .pfx := by decide
example : Gen.GB.validateAgainstHub { gi1 with checksum := 8, pfx := 4 } gi1 = some .checksum := by decide
example : Gen.GB.validateAgainstHub { gi1 with accounts := [⟨2, 60⟩, ⟨1, 40⟩] } gi1 = none := by decide
example : Gen.GB.validateAgainstHub { gi1 with accounts := [⟨2, 60⟩, ⟨1, 41⟩] } gi1 = some .accounts := by decide
example : Gen.GB.validateGenesisTransfer none gi1 = some .trRequired := by decide
example : Gen.GB.validateGenesisTransfer (some ⟨5, 100, true, 0, true⟩) gi1 = none := by decide
example : Gen.GB.validateGenesisTransfer (some ⟨5, 100, true, 1, true⟩) gi1 = some .trReceiver := by decide
example : Gen.GB.validateGenesisTransfer (some ⟨5, 99, true, 0, true⟩) gi1 = some .trAmount := by decide
example : Gen.GB.validateGenesisTransfer (some ⟨5, 100, false, 0, true⟩) gi1 = some .trAmount := by decide
example : Gen.GB.validateGenesisTransfer (some ⟨5, 100, true, 0, true⟩) { gi1 with accounts := [] } = some .trUnexpected := by decide

/-! ### statement skeletons -/

/-- `AppKeepers.InitTransferStack` (app/transfer_stack.go) as mirrored by the model -/
theorem initTransferStack_skeleton : Gen.GB.initTransferStack =
  ["a.TransferStack = ibctransfer.NewIBCModule(a.TransferKeeper)",
   "a.TransferStack = bridgingfee.NewIBCModule(a.TransferStack.(ibctransfer.IBCModule), *a.RollappKeeper, a.DelayedAckKeeper, a.TransferKeeper, *a.TxFeesKeeper)",
   "a.TransferStack = packetforwardmiddleware.NewIBCMiddleware(a.TransferStack, a.PacketForwardMiddlewareKeeper, 0, packetforwardkeeper.DefaultForwardTransferPacketTimeoutTimestamp)",
   "a.TransferStack = denommetadatamodule.NewIBCModule(a.TransferStack, a.DenomMetadataKeeper, a.RollappKeeper)",
   "call a.DelayedAckMiddleware.Setup(delayedackmodule.WithIBCModule(a.TransferStack), delayedackmodule.WithKeeper(a.DelayedAckKeeper), delayedackmodule.WithRollappKeeper(a.RollappKeeper), delayedackmodule.WithForwardKeeper(a.PacketForwardMiddlewareKeeper))",
   "a.TransferStack = a.DelayedAckMiddleware",
   "a.TransferStack = genesisbridge.NewIBCModule(a.TransferStack, a.RollappKeeper, a.TransferKeeper, a.DenomMetadataKeeper)",
   "ibcRouter := ibcporttypes.NewRouter()",
   "call ibcRouter.AddRoute(ibctransfertypes.ModuleName, a.TransferStack)",
   "call a.IBCKeeper.SetRouter(ibcRouter)"] := rfl

/-- `IBCModule.OnRecvPacket` (x/rollapp/genesisbridge) as mirrored by the model -/
theorem onRecvPacket_skeleton : Gen.GB.onRecvPacket =
  ["ra, err := w.rollappKeeper.GetRollappByPortChan(ctx, packet.GetDestPort(), packet.GetDestChannel())",
   "if errorsmod.IsOf(err, types.ErrRollappNotFound) {",
   "return w.IBCModule.OnRecvPacket(ctx, packet, relayer)",
   "}",
   "if err != nil {",
   "return uevent.NewErrorAcknowledgement(ctx, wrap(err))",
   "}",
   "if ra.IsTransferEnabled() {",
   "return w.IBCModule.OnRecvPacket(ctx, packet, relayer)",
   "}",
   "if err := json.Unmarshal(packet.GetData(), &genesisBridgeData); err != nil {",
   "return uevent.NewErrorAcknowledgement(ctx, wrap(err))",
   "}",
   "err = types.NewGenesisBridgeValidator(genesisBridgeData, ra.GenesisInfo).Validate()",
   "if err != nil {",
   "return uevent.NewErrorAcknowledgement(ctx, wrap(err))",
   "}",
   "if genesisBridgeData.GenesisInfo.NativeDenom.IsSet() {",
   "trace, denom, err := genesisBridgeData.IBCDenom(ra.RollappId, ra.ChannelId)",
   "if err != nil {",
   "return uevent.NewErrorAcknowledgement(ctx, wrap(err))",
   "}",
   "call w.transferKeeper.SetDenomTrace(ctx, trace)",
   "if err := w.denomKeeper.CreateDenomMetadata(ctx, denom); err != nil {",
   "return uevent.NewErrorAcknowledgement(ctx, wrap(err))",
   "}",
   "raDenomOnHUb = denom.Base",
   "}",
   "genesisPackets := genesisBridgeData.GenesisAccPackets()",
   "range genesisPackets as _, data {",
   "if err := w.transferKeeper.OnRecvPacket(ctx, packet, data); err != nil {",
   "return uevent.NewErrorAcknowledgement(ctx, wrap(err))",
   "}",
   "}",
   "err = w.EnableTransfers(ctx, packet, ra, raDenomOnHUb)",
   "if err != nil {",
   "return uevent.NewErrorAcknowledgement(ctx, wrap(err))",
   "}",
   "successAck := channeltypes.NewResultAcknowledgement([]byte{byte(1)})",
   "return successAck"] := rfl

/-- `IBCModule.EnableTransfers` (x/rollapp/genesisbridge) as mirrored by the model -/
theorem enableTransfers_skeleton : Gen.GB.enableTransfers =
  ["height, err := commontypes.UnpackPacketProofHeight(ctx, packet, commontypes.RollappPacket_ON_RECV)",
   "if err != nil {",
   "return wrap(err)",
   "}",
   "ra.GenesisState.TransferProofHeight = height",
   "call w.rollappKeeper.SetRollapp(ctx, *ra)",
   "err = w.rollappKeeper.GetHooks().AfterTransfersEnabled(ctx, ra.RollappId, rollappIBCtrace)",
   "if err != nil {",
   "return wrap(err)",
   "}",
   "return nil"] := rfl

/-- `ICS4Wrapper.SendPacket` (x/rollapp/genesisbridge) as mirrored by the model -/
theorem sendPacket_skeleton : Gen.GB.sendPacket =
  ["if err := w.transferAllowed(ctx, sourcePort, sourceChannel); err != nil {",
   "return 0, wrap(err)",
   "}",
   "return w.ICS4Wrapper.SendPacket(ctx, chanCap, sourcePort, sourceChannel, timeoutHeight, timeoutTimestamp, data)"] := rfl

/-- `ICS4Wrapper.transferAllowed` (x/rollapp/genesisbridge) as mirrored by the model -/
theorem transferAllowed_skeleton : Gen.GB.transferAllowedSk =
  ["ra, err := w.rollappK.GetRollappByPortChan(ctx, sourcePort, sourceChannel)",
   "if err != nil {",
   "if errorsmod.IsOf(err, types.ErrRollappNotFound) {",
   "return nil",
   "}",
   "return wrap(err)",
   "}",
   "if !ra.GenesisState.IsTransferEnabled() {",
   "return wrap(gerrc.ErrFailedPrecondition)",
   "}",
   "return nil"] := rfl

/-- `GenesisInfo.Accounts` (x/rollapp/types) as mirrored by the model -/
theorem giAccounts_skeleton : Gen.GB.giAccounts =
  ["if gi.GenesisAccounts == nil {",
   "return nil",
   "}",
   "return gi.GenesisAccounts.Accounts"] := rfl

/-- `GenesisInfo.RequiresTransfer` (x/rollapp/types) as mirrored by the model -/
theorem giRequiresTransfer_skeleton : Gen.GB.giRequiresTransfer =
  ["return 0 < len(gi.Accounts())"] := rfl

/-- `GenesisInfo.GenesisTransferAmount` (x/rollapp/types) as mirrored by the model -/
theorem giGenesisTransferAmount_skeleton : Gen.GB.giGenesisTransferAmount =
  ["total := math.ZeroInt()",
   "range gi.Accounts() as _, a {",
   "total = total.Add(a.Amount)",
   "}",
   "return total"] := rfl

/-- `GenesisInfo.Launchable` (x/rollapp/types) as mirrored by the model -/
theorem giLaunchable_skeleton : Gen.GB.giLaunchable =
  ["return gi.GenesisChecksum != \"\" && gi.Bech32Prefix != \"\" && !gi.InitialSupply.IsNil()"] := rfl

/-- `GenesisInfo.IROReady` (x/rollapp/types) as mirrored by the model -/
theorem giIROReady_skeleton : Gen.GB.giIROReady =
  ["return gi.Launchable() && gi.NativeDenom.IsSet()"] := rfl

/-- `GenesisInfo.ValidateBasic` (x/rollapp/types) as mirrored by the model -/
theorem giValidateBasic_skeleton : Gen.GB.giValidateBasic =
  ["if gi.Bech32Prefix != \"\" {",
   "if err := validateBech32Prefix(gi.Bech32Prefix); err != nil {",
   "return errors.Join(ErrInvalidBech32Prefix, err)",
   "}",
   "}",
   "if len(gi.GenesisChecksum) > maxGenesisChecksumLength {",
   "return ErrInvalidGenesisChecksum",
   "}",
   "numGenesisAccounts := len(gi.Accounts())",
   "if !gi.NativeDenom.IsSet() {",
   "if !gi.InitialSupply.IsNil() && !gi.InitialSupply.IsZero() {",
   "return wrap(ErrNoNativeTokenRollapp)",
   "}",
   "if numGenesisAccounts > 0 {",
   "return wrap(ErrNoNativeTokenRollapp)",
   "}",
   "return nil",
   "}",
   "if err := gi.NativeDenom.Validate(); err != nil {",
   "return errors.Join(ErrInvalidMetadata, err)",
   "}",
   "if !gi.InitialSupply.IsNil() && gi.InitialSupply.IsNegative() {",
   "return ErrInvalidInitialSupply",
   "}",
   "if numGenesisAccounts > 0 {",
   "if numGenesisAccounts > maxAllowedGenesisAccounts {",
   "return ErrTooManyGenesisAccounts",
   "}",
   "if gi.InitialSupply.IsNil() {",
   "return ErrInvalidInitialSupply",
   "}",
   "total := math.ZeroInt()",
   "accountSet := make(map[string]struct{})",
   "range gi.Accounts() as _, a {",
   "if err := a.ValidateBasic(); err != nil {",
   "return errors.Join(gerrc.ErrInvalidArgument, err)",
   "}",
   "if _, exists := accountSet[a.Address]; exists {",
   "return wrap(gerrc.ErrInvalidArgument)",
   "}",
   "accountSet[a.Address] = struct{}{}",
   "total = total.Add(a.Amount)",
   "}",
   "if total.GT(gi.InitialSupply) {",
   "return ErrInvalidInitialSupply",
   "}",
   "}",
   "return nil"] := rfl

/-- `GenesisAccount.ValidateBasic` (x/rollapp/types) as mirrored by the model -/
theorem genesisAccountValidateBasic_skeleton : Gen.GB.genesisAccountValidateBasic =
  ["if a.Amount.IsNil() || !a.Amount.IsPositive() {",
   "return fmt.Errorf()",
   "}",
   "if _, err := sdk.AccAddressFromBech32(a.Address); err != nil {",
   "return err",
   "}",
   "return nil"] := rfl

/-- `DenomMetadata.IsSet` (x/rollapp/types) as mirrored by the model -/
theorem denomMetadataIsSet_skeleton : Gen.GB.denomMetadataIsSet =
  ["return dm != DenomMetadata{}"] := rfl

/-- `DenomMetadata.Validate` (x/rollapp/types) as mirrored by the model -/
theorem denomMetadataValidate_skeleton : Gen.GB.denomMetadataValidate =
  ["if err := sdk.ValidateDenom(dm.Base); err != nil {",
   "return fmt.Errorf(err)",
   "}",
   "if err := sdk.ValidateDenom(dm.Display); err != nil {",
   "return fmt.Errorf(err)",
   "}",
   "if AllowedDecimals(dm.Exponent) != Decimals18 {",
   "return fmt.Errorf()",
   "}",
   "return nil"] := rfl

/-- `GenesisBridgeData.ValidateBasic` (x/rollapp/types) as mirrored by the model -/
theorem gbdValidateBasic_skeleton : Gen.GB.gbdValidateBasic =
  ["if err := d.GenesisInfo.ValidateBasic(); err != nil {",
   "return wrap(err)",
   "}",
   "if d.GenesisInfo.NativeDenom.IsSet() {",
   "if err := d.NativeDenom.Validate(); err != nil {",
   "return wrap(err)",
   "}",
   "if d.NativeDenom.Base != d.GenesisInfo.NativeDenom.Base {",
   "return fmt.Errorf()",
   "}",
   "valid := false",
   "range d.NativeDenom.DenomUnits as _, unit {",
   "if unit.Denom == d.GenesisInfo.NativeDenom.Display {",
   "if unit.Exponent == d.GenesisInfo.NativeDenom.Exponent {",
   "valid = true",
   "break",
   "}",
   "}",
   "}",
   "if !valid {",
   "return fmt.Errorf()",
   "}",
   "}",
   "if d.GenesisTransfer != nil {",
   "if err := d.GenesisTransfer.ValidateBasic(); err != nil {",
   "return wrap(err)",
   "}",
   "if d.GenesisInfo.NativeDenom.Base != d.GenesisTransfer.Denom {",
   "return wrap(gerrc.ErrFailedPrecondition)",
   "}",
   "}",
   "return nil"] := rfl

/-- `GenesisBridgeData.IBCDenom` (x/rollapp/types) as mirrored by the model -/
theorem gbdIBCDenom_skeleton : Gen.GB.gbdIBCDenom =
  ["m := d.NativeDenom",
   "trace := uibc.GetForeignDenomTrace(channelID, m.Base)",
   "m.Base = trace.IBCDenom()",
   "m.Description = fmt.Sprintf(\"auto-generated ibc denom for rollapp: base: %s: rollapp: %s\", m.GetBase(), rollappID)",
   "range m.DenomUnits as i, u {",
   "if u.Exponent == 0 {",
   "m.DenomUnits[i].Aliases = append(m.DenomUnits[i].Aliases, u.Denom)",
   "m.DenomUnits[i].Denom = m.Base",
   "}",
   "}",
   "if err := m.Validate(); err != nil {",
   "return transfertypes.DenomTrace{}, banktypes.Metadata{}, fmt.Errorf(err)",
   "}",
   "return trace, m, nil"] := rfl

/-- `GenesisBridgeData.GenesisAccPackets` (x/rollapp/types) as mirrored by the model -/
theorem gbdGenesisAccPackets_skeleton : Gen.GB.gbdGenesisAccPackets =
  ["return uslice.Map(d.GenesisInfo.Accounts(), func)",
   "{",
   "return transfertypes.NewFungibleTokenPacketData(d.GenesisTransfer.Denom, acc.Amount.String(), d.GenesisTransfer.Sender, acc.Address, \"\")",
   "}"] := rfl

/-- `GenesisBridgeInfo.Accounts` (x/rollapp/types) as mirrored by the model -/
theorem gbiAccounts_skeleton : Gen.GB.gbiAccounts =
  ["if i.GenesisAccounts == nil {",
   "return nil",
   "}",
   "return i.GenesisAccounts"] := rfl

/-- `GenesisBridgeInfo.ValidateBasic` (x/rollapp/types) as mirrored by the model -/
theorem gbiValidateBasic_skeleton : Gen.GB.gbiValidateBasic =
  ["raGenesisInfo := GenesisInfo{GenesisChecksum: i.GenesisChecksum, Bech32Prefix: i.Bech32Prefix, NativeDenom: i.NativeDenom, InitialSupply: i.InitialSupply, GenesisAccounts: &GenesisAccounts{Accounts: i.GenesisAccounts}}",
   "if !raGenesisInfo.Launchable() {",
   "return fmt.Errorf()",
   "}",
   "return raGenesisInfo.ValidateBasic()"] := rfl

/-- `NewGenesisBridgeValidator` (x/rollapp/types) as mirrored by the model -/
theorem newGenesisBridgeValidator_skeleton : Gen.GB.newGenesisBridgeValidator =
  ["return &GenesisBridgeValidator{rollapp: rollappGenesis, hub: hubGenesis}"] := rfl

/-- `GenesisBridgeValidator.Validate` (x/rollapp/types) as mirrored by the model -/
theorem validatorValidate_skeleton : Gen.GB.validatorValidate =
  ["if err := v.rollapp.ValidateBasic(); err != nil {",
   "return wrap(err)",
   "}",
   "if err := validateAgainstHub(v.rollapp.GenesisInfo, v.hub); err != nil {",
   "return wrap(err)",
   "}",
   "err := v.validateGenesisTransfer()",
   "if err != nil {",
   "return wrap(err)",
   "}",
   "return nil"] := rfl

/-- `validateAgainstHub` (x/rollapp/types) as mirrored by the model -/
theorem validateAgainstHub_skeleton : Gen.GB.validateAgainstHubSk =
  ["if rollapp.GenesisChecksum != hub.GenesisChecksum {",
   "return fmt.Errorf()",
   "}",
   "if rollapp.Bech32Prefix != hub.Bech32Prefix {",
   "return fmt.Errorf()",
   "}",
   "if rollapp.NativeDenom != hub.NativeDenom {",
   "return fmt.Errorf()",
   "}",
   "if !rollapp.InitialSupply.Equal(hub.InitialSupply) {",
   "return fmt.Errorf()",
   "}",
   "err := compareGenesisAccounts(hub.Accounts(), rollapp.Accounts())",
   "if err != nil {",
   "return wrap(err)",
   "}",
   "return nil"] := rfl

/-- `compareGenesisAccounts` (x/rollapp/types) as mirrored by the model -/
theorem compareGenesisAccounts_skeleton : Gen.GB.compareGenesisAccountsSk =
  ["if len(raCommitted) != len(gbData) {",
   "return fmt.Errorf()",
   "}",
   "range raCommitted as _, acc {",
   "found := slices.ContainsFunc(gbData, func)",
   "{",
   "return dataAcc.Address == acc.Address && dataAcc.Amount.Equal(acc.Amount)",
   "}",
   "if !found {",
   "return fmt.Errorf()",
   "}",
   "}",
   "return nil"] := rfl

/-- `GenesisBridgeValidator.validateGenesisTransfer` (x/rollapp/types) as mirrored by the model -/
theorem validateGenesisTransfer_skeleton : Gen.GB.validateGenesisTransferSk =
  ["gTransfer := v.rollapp.GenesisTransfer",
   "requiresTransfer := v.hub.RequiresTransfer()",
   "if requiresTransfer && gTransfer == nil {",
   "return wrap(gerrc.ErrFailedPrecondition)",
   "}",
   "if !requiresTransfer && gTransfer != nil {",
   "return wrap(gerrc.ErrFailedPrecondition)",
   "}",
   "if gTransfer == nil {",
   "return nil",
   "}",
   "if gTransfer.Receiver != HubRecipient {",
   "return wrap(gerrc.ErrFailedPrecondition)",
   "}",
   "expectedAmount := v.hub.GenesisTransferAmount()",
   "if expectedAmount.String() != gTransfer.Amount {",
   "return wrap(gerrc.ErrFailedPrecondition)",
   "}",
   "return nil"] := rfl

/-- `Rollapp.IsTransferEnabled` (x/rollapp/types) as mirrored by the model -/
theorem rollappIsTransferEnabled_skeleton : Gen.GB.rollappIsTransferEnabled =
  ["return r.GenesisState.IsTransferEnabled()"] := rfl

/-- `RollappGenesisState.IsTransferEnabled` (x/rollapp/types) as mirrored by the model -/
theorem genesisStateIsTransferEnabled_skeleton : Gen.GB.genesisStateIsTransferEnabled =
  ["return s.TransferProofHeight != 0"] := rfl

/-- `Rollapp.ValidateBasic` (x/rollapp/types) as mirrored by the model -/
theorem rollappValidateBasic_skeleton : Gen.GB.rollappValidateBasic =
  ["_, err := sdk.AccAddressFromBech32(r.Owner)",
   "if err != nil {",
   "return errors.Join(ErrInvalidCreatorAddress, err)",
   "}",
   "_, err = NewChainID(r.RollappId)",
   "if err != nil {",
   "return err",
   "}",
   "if err = ValidateBasicMinSeqBondCoins(r.MinSequencerBond); err != nil {",
   "return wrap(err)",
   "}",
   "if err = validateInitialSequencer(r.InitialSequencer); err != nil {",
   "return wrap(ErrInvalidInitialSequencer)",
   "}",
   "if err = r.GenesisInfo.ValidateBasic(); err != nil {",
   "return err",
   "}",
   "if r.VmType == 0 {",
   "return ErrInvalidVMType",
   "}",
   "if r.Metadata != nil {",
   "if err = r.Metadata.Validate(); err != nil {",
   "return errors.Join(ErrInvalidMetadata, err)",
   "}",
   "}",
   "if r.Launched && !r.GenesisInfo.Sealed {",
   "return fmt.Errorf()",
   "}",
   "return nil"] := rfl

/-- `MsgCreateRollapp.GetRollapp` (x/rollapp/types) as mirrored by the model -/
theorem msgCreateRollappGetRollapp_skeleton : Gen.GB.msgCreateRollappGetRollapp =
  ["genInfo := GenesisInfo{}",
   "if msg.GenesisInfo != nil {",
   "genInfo = *msg.GenesisInfo",
   "if genInfo.InitialSupply.IsZero() {",
   "genInfo.NativeDenom = DenomMetadata{}",
   "}",
   "}",
   "return NewRollapp(msg.Creator, msg.RollappId, msg.InitialSequencer, msg.MinSequencerBond, msg.VmType, msg.Metadata, genInfo)"] := rfl

/-- `MsgCreateRollapp.ValidateBasic` (x/rollapp/types) as mirrored by the model -/
theorem msgCreateRollappValidateBasic_skeleton : Gen.GB.msgCreateRollappValidateBasic =
  ["if len(msg.Alias) == 0 {",
   "return ErrInvalidAlias",
   "}",
   "rollapp := msg.GetRollapp()",
   "if err := rollapp.ValidateBasic(); err != nil {",
   "return err",
   "}",
   "return nil"] := rfl

/-- `Keeper.GetRollappByPortChan` (x/rollapp/keeper) as mirrored by the model -/
theorem getRollappByPortChan_skeleton : Gen.GB.getRollappByPortChan =
  ["clientID, _, err := k.channelKeeper.GetChannelClientState(ctx, raPortOnHub, raChanOnHub)",
   "if err != nil {",
   "return nil, wrap(err)",
   "}",
   "chainID, ok := k.canonicalClientKeeper.GetRollappForClientID(ctx, clientID)",
   "if !ok {",
   "return nil, wrap(types.ErrRollappNotFound)",
   "}",
   "rollapp, ok := k.GetRollapp(ctx, chainID)",
   "if !ok {",
   "return nil, wrap(gerrc.ErrInternal)",
   "}",
   "if rollapp.ChannelId == \"\" {",
   "return nil, wrap(gerrc.ErrInternal)",
   "}",
   "if rollapp.ChannelId != raChanOnHub {",
   "return nil, wrap(gerrc.ErrInvalidArgument)",
   "}",
   "return &rollapp, nil"] := rfl

/-- `Keeper.CheckAndUpdateRollappFields` (x/rollapp/keeper) as mirrored by the model -/
theorem checkAndUpdateRollappFields_skeleton : Gen.GB.checkAndUpdateRollappFields =
  ["current, found := k.GetRollapp(ctx, update.RollappId)",
   "if !found {",
   "return current, types.ErrRollappNotFound",
   "}",
   "if update.Owner != current.Owner {",
   "return current, sdkerrors.ErrUnauthorized",
   "}",
   "if update.UpdatingImmutableValues() && current.Launched {",
   "return current, types.ErrImmutableFieldUpdateAfterLaunched",
   "}",
   "if update.UpdatingGenesisInfo() && current.GenesisInfo.Sealed {",
   "return current, types.ErrGenesisInfoSealed",
   "}",
   "if update.InitialSequencer != \"\" {",
   "current.InitialSequencer = update.InitialSequencer",
   "}",
   "if types.IsUpdateMinSeqBond(update.MinSequencerBond) {",
   "minSeqBond := *update.MinSequencerBond",
   "if err := k.validMinBond(ctx, minSeqBond); err != nil {",
   "return current, wrap(err)",
   "}",
   "current.MinSequencerBond = sdk.NewCoins(minSeqBond)",
   "}",
   "if update.GenesisInfo != nil {",
   "current.GenesisInfo = *update.GenesisInfo",
   "if update.GenesisInfo.InitialSupply.IsZero() {",
   "current.GenesisInfo.NativeDenom = types.DenomMetadata{}",
   "}",
   "}",
   "if update.Metadata != nil && !update.Metadata.IsEmpty() {",
   "current.Metadata = update.Metadata",
   "}",
   "if err := current.ValidateBasic(); err != nil {",
   "return current, fmt.Errorf(err)",
   "}",
   "return current, nil"] := rfl

/-- `Keeper.SetRollappAsLaunched` (x/rollapp/keeper) as mirrored by the model -/
theorem setRollappAsLaunched_skeleton : Gen.GB.setRollappAsLaunched =
  ["if !rollapp.AllImmutableFieldsAreSet() {",
   "return wrap(gerrc.ErrFailedPrecondition)",
   "}",
   "rollapp.GenesisInfo.Sealed = true",
   "rollapp.Launched = true",
   "call k.SetRollapp(ctx, *rollapp)",
   "return nil"] := rfl

/-- `Keeper.SetIROPlanToRollapp` (x/rollapp/keeper) as mirrored by the model -/
theorem setIROPlanToRollapp_skeleton : Gen.GB.setIROPlanToRollapp =
  ["if rollapp.Launched {",
   "return wrap(gerrc.ErrFailedPrecondition)",
   "}",
   "if rollapp.GenesisInfo.Sealed {",
   "return wrap(gerrc.ErrFailedPrecondition)",
   "}",
   "if !rollapp.GenesisInfo.IROReady() {",
   "return wrap(gerrc.ErrFailedPrecondition)",
   "}",
   "rollapp.GenesisInfo.Sealed = true",
   "preLaunchTime := plan.PreLaunchTime",
   "if !plan.TradingEnabled {",
   "preLaunchTime = ctx.BlockTime().Add(time.Hour * 24 * 365 * 10)",
   "}",
   "rollapp.PreLaunchTime = &preLaunchTime",
   "call k.SetRollapp(ctx, *rollapp)",
   "return nil"] := rfl

/-- `msgServer.UpdateRollappInformation` (x/rollapp/keeper) as mirrored by the model -/
theorem msgUpdateRollappInformation_skeleton : Gen.GB.msgUpdateRollappInformation =
  ["ctx := sdk.UnwrapSDKContext(goCtx)",
   "updated, err := k.CheckAndUpdateRollappFields(ctx, msg)",
   "if err != nil {",
   "return nil, err",
   "}",
   "call k.SetRollapp(ctx, updated)",
   "return &types.MsgUpdateRollappInformationResponse{}, nil"] := rfl

/-- `Keeper.ForceGenesisInfoChange` (x/rollapp/keeper) as mirrored by the model -/
theorem forceGenesisInfoChange_skeleton : Gen.GB.forceGenesisInfoChange =
  ["ctx := sdk.UnwrapSDKContext(goCtx)",
   "if msg.Authority != k.authority {",
   "err := wrap(gerrc.ErrUnauthenticated)",
   "return nil, err",
   "}",
   "if err := msg.ValidateBasic(); err != nil {",
   "err = errors.Join(gerrc.ErrInvalidArgument, err)",
   "return nil, err",
   "}",
   "rollapp, found := k.GetRollapp(ctx, msg.RollappId)",
   "if !found {",
   "err := wrap(types.ErrRollappNotFound)",
   "return nil, err",
   "}",
   "rollapp.GenesisInfo = msg.NewGenesisInfo",
   "rollapp.GenesisInfo.Sealed = true",
   "call k.SetRollapp(ctx, rollapp)",
   "return &types.MsgForceGenesisInfoChangeResponse{}, nil"] := rfl

/-- `msgServer.CreateRollapp` (x/rollapp/keeper) as mirrored by the model -/
theorem msgCreateRollapp_skeleton : Gen.GB.msgCreateRollapp =
  ["ctx := sdk.UnwrapSDKContext(goCtx)",
   "rollappId := types.MustNewChainID(msg.RollappId)",
   "if rollappId.GetRevisionNumber() != 1 {",
   "return nil, wrap(types.ErrInvalidRollappID)",
   "}",
   "if err := k.CheckIfRollappExists(ctx, rollappId); err != nil {",
   "return nil, err",
   "}",
   "if err := k.validMinBond(ctx, msg.MinSequencerBond); err != nil {",
   "return nil, err",
   "}",
   "call k.SetRollapp(ctx, msg.GetRollapp())",
   "creator := sdk.MustAccAddressFromBech32(msg.Creator)",
   "if err := k.hooks.RollappCreated(ctx, msg.RollappId, msg.Alias, creator); err != nil {",
   "return nil, fmt.Errorf(err)",
   "}",
   "return &types.MsgCreateRollappResponse{}, nil"] := rfl

/-- `msgServer.CreateSequencer` (x/sequencer/keeper/msg_server_create.go) as mirrored by the model -/
theorem msgCreateSequencer_skeleton : Gen.GB.msgCreateSequencer =
  ["ctx := sdk.UnwrapSDKContext(goCtx)",
   "rollapp, found := k.rollappKeeper.GetRollapp(ctx, msg.RollappId)",
   "if !found {",
   "return nil, rollapptypes.ErrRollappNotFound",
   "}",
   "if _, err := k.RealSequencer(ctx, msg.Creator); err == nil {",
   "return nil, types.ErrSequencerAlreadyExists",
   "}",
   "pkAddr, err := types.PubKeyAddr(msg.DymintPubKey)",
   "if err != nil {",
   "return nil, wrap(err)",
   "}",
   "if _, err := k.SequencerByDymintAddr(ctx, pkAddr); err == nil {",
   "return nil, wrap(gerrc.ErrAlreadyExists)",
   "}",
   "if err := k.sufficientBond(ctx, msg.RollappId, msg.Bond); err != nil {",
   "return nil, err",
   "}",
   "if err := msg.VMSpecificValidate(rollapp.VmType); err != nil {",
   "return nil, wrap(err)",
   "}",
   "if !rollapp.Launched {",
   "isInitialSeq := slices.Contains(strings.Split(rollapp.InitialSequencer, \",\"), msg.Creator)",
   "anyAllowed := rollapp.InitialSequencer == \"*\"",
   "if !anyAllowed && !isInitialSeq {",
   "return nil, types.ErrNotInitialSequencer",
   "}",
   "if rollapp.PreLaunchTime != nil && rollapp.PreLaunchTime.After(ctx.BlockTime()) {",
   "return nil, types.ErrBeforePreLaunchTime",
   "}",
   "if err := k.rollappKeeper.SetRollappAsLaunched(ctx, &rollapp); err != nil {",
   "return nil, err",
   "}",
   "}",
   "seq := k.NewSequencer(ctx, msg.RollappId)",
   "rewardAddr := msg.RewardAddr",
   "if msg.RewardAddr == \"\" {",
   "rewardAddr = msg.Creator",
   "}",
   "seq.RewardAddr = rewardAddr",
   "seq.DymintPubKey = msg.DymintPubKey",
   "seq.Address = msg.Creator",
   "seq.Status = types.Bonded",
   "seq.Metadata = msg.Metadata",
   "seq.OptedIn = true",
   "call seq.SetWhitelistedRelayers(msg.WhitelistedRelayers)",
   "if err := k.sendToModule(ctx, seq, msg.Bond); err != nil {",
   "return nil, err",
   "}",
   "call k.SetSequencer(ctx, *seq)",
   "if err := k.SetSequencerByDymintAddr(ctx, pkAddr, seq.Address); err != nil {",
   "return nil, wrap(err)",
   "}",
   "proposer := k.GetProposer(ctx, msg.RollappId)",
   "if proposer.Sentinel() {",
   "if err := k.RecoverFromSentinel(ctx, msg.RollappId); err != nil {",
   "return nil, err",
   "}",
   "}",
   "return &types.MsgCreateSequencerResponse{}, nil"] := rfl

/-- `msgServer.CreatePlan` (x/iro/keeper) as mirrored by the model -/
theorem msgCreatePlan_skeleton : Gen.GB.msgCreatePlan =
  ["ctx := sdk.UnwrapSDKContext(goCtx)",
   "rollapp, found := m.Keeper.rk.GetRollapp(ctx, req.RollappId)",
   "if !found {",
   "return nil, wrap(gerrc.ErrNotFound)",
   "}",
   "if rollapp.Owner != req.Owner {",
   "return nil, sdkerrors.ErrUnauthorized",
   "}",
   "params := m.Keeper.GetParams(ctx)",
   "if req.IroPlanDuration < params.MinPlanDuration {",
   "return nil, errors.Join(gerrc.ErrFailedPrecondition, types.ErrInvalidEndTime)",
   "}",
   "if req.LiquidityPart.LT(params.MinLiquidityPart) {",
   "return nil, wrap(gerrc.ErrInvalidArgument)",
   "}",
   "if req.VestingDuration < params.MinVestingDuration {",
   "return nil, wrap(gerrc.ErrInvalidArgument)",
   "}",
   "if req.VestingStartTimeAfterSettlement < params.MinVestingStartTimeAfterSettlement {",
   "return nil, wrap(gerrc.ErrInvalidArgument)",
   "}",
   "if req.IncentivePlanParams.NumEpochsPaidOver < params.IncentivesMinNumEpochsPaidOver {",
   "return nil, errors.Join(gerrc.ErrInvalidArgument, wrap(types.ErrInvalidIncentivePlanParams))",
   "}",
   "if req.IncentivePlanParams.StartTimeAfterSettlement < params.IncentivesMinStartTimeAfterSettlement {",
   "return nil, errors.Join(gerrc.ErrInvalidArgument, wrap(types.ErrInvalidIncentivePlanParams))",
   "}",
   "_, found = m.Keeper.GetPlanByRollapp(ctx, rollapp.RollappId)",
   "if found {",
   "return nil, errors.Join(gerrc.ErrFailedPrecondition, types.ErrPlanExists)",
   "}",
   "found = false",
   "range rollapp.GenesisInfo.Accounts() as _, gAcc {",
   "if gAcc.Address == m.Keeper.GetModuleAccountAddress() {",
   "if !gAcc.Amount.Equal(req.AllocatedAmount) {",
   "return nil, wrap(gerrc.ErrFailedPrecondition)",
   "}",
   "found = true",
   "break",
   "}",
   "}",
   "if !found {",
   "return nil, wrap(gerrc.ErrFailedPrecondition)",
   "}",
   "if req.BondingCurve.RollappDenomDecimals != uint64(rollapp.GenesisInfo.NativeDenom.Exponent) {",
   "return nil, wrap(gerrc.ErrInvalidArgument)",
   "}",
   "liqToken, ok := m.BK.GetDenomMetaData(ctx, req.LiquidityDenom)",
   "if !ok {",
   "return nil, wrap(gerrc.ErrInvalidArgument)",
   "}",
   "exponent := liqToken.DenomUnits[len(liqToken.DenomUnits) - 1].Exponent",
   "if req.BondingCurve.LiquidityDenomDecimals != uint64(exponent) {",
   "return nil, wrap(gerrc.ErrInvalidArgument)",
   "}",
   "if !slices.Contains(m.Keeper.gk.GetParams(ctx).AllowedPoolCreationDenoms, req.LiquidityDenom) {",
   "return nil, wrap(gerrc.ErrFailedPrecondition)",
   "}",
   "planId, err := m.Keeper.CreatePlan(ctx, req.LiquidityDenom, req.AllocatedAmount, req.IroPlanDuration, req.StartTime, req.TradingEnabled, rollapp, req.BondingCurve, req.IncentivePlanParams, req.LiquidityPart, req.VestingDuration, req.VestingStartTimeAfterSettlement)",
   "if err != nil {",
   "return nil, err",
   "}",
   "return &types.MsgCreatePlanResponse{PlanId: planId}, nil"] := rfl

/-- `Keeper.CreatePlan` (x/iro/keeper) as mirrored by the model -/
theorem createPlan_skeleton : Gen.GB.createPlan =
  ["allocation, err := k.MintAllocation(ctx, allocatedAmount, rollapp.RollappId, rollapp.GenesisInfo.NativeDenom.Display, uint64(rollapp.GenesisInfo.NativeDenom.Exponent))",
   "if err != nil {",
   "return \"\", err",
   "}",
   "plan := types.NewPlan(k.GetNextPlanIdAndIncrement(ctx), rollapp.RollappId, liquidityDenom, allocation, curve, planDuration, incentivesParams, liquidityPart, vestingDuration, vestingStartTimeAfterSettlement)",
   "if tradingEnabled {",
   "if startTime.Before(ctx.BlockTime()) {",
   "startTime = ctx.BlockTime()",
   "}",
   "call plan.EnableTradingWithStartTime(startTime)",
   "}",
   "if err := plan.ValidateBasic(); err != nil {",
   "return \"\", errors.Join(gerrc.ErrInvalidArgument, err)",
   "}",
   "err = k.rk.SetIROPlanToRollapp(ctx, &rollapp, plan)",
   "if err != nil {",
   "return \"\", errors.Join(gerrc.ErrFailedPrecondition, err)",
   "}",
   "_, err = k.CreateModuleAccountForPlan(ctx, plan)",
   "if err != nil {",
   "return \"\", err",
   "}",
   "feeAmt := k.GetParams(ctx).CreationFee",
   "if feeAmt.GT(plan.MaxAmountToSell) {",
   "return \"\", wrap(gerrc.ErrInvalidArgument)",
   "}",
   "cost := plan.BondingCurve.Cost(math.ZeroInt(), feeAmt)",
   "if !cost.IsPositive() {",
   "return \"\", wrap(gerrc.ErrInvalidArgument)",
   "}",
   "feeCostLiquidlyCoin := sdk.NewCoin(plan.LiquidityDenom, cost)",
   "err = k.BK.SendCoins(ctx, sdk.MustAccAddressFromBech32(rollapp.Owner), plan.GetAddress(), sdk.NewCoins(feeCostLiquidlyCoin))",
   "if err != nil {",
   "return \"\", err",
   "}",
   "plan.SoldAmt = feeAmt",
   "plan.ClaimedAmt = feeAmt",
   "call k.SetPlan(ctx, plan)",
   "if err != nil {",
   "return \"\", err",
   "}",
   "return fmt.Sprintf(\"%d\", plan.Id), nil"] := rfl

/-- `Keeper.AfterTransfersEnabled` (x/iro/keeper) as mirrored by the model -/
theorem afterTransfersEnabled_skeleton : Gen.GB.afterTransfersEnabled =
  ["return k.Settle(ctx, rollappId, rollappIBCDenom)"] := rfl

/-- `Keeper.Settle` (x/iro/keeper) as mirrored by the model -/
theorem settle_skeleton : Gen.GB.settle =
  ["plan, found := k.GetPlanByRollapp(ctx, rollappId)",
   "if !found {",
   "return nil",
   "}",
   "if plan.IsSettled() {",
   "return wrap(errors.Join(gerrc.ErrInternal, types.ErrPlanSettled))",
   "}",
   "balance := k.BK.GetBalance(ctx, k.AK.GetModuleAddress(types.ModuleName), rollappIBCDenom)",
   "if !balance.Amount.Equal(plan.TotalAllocation.Amount) {",
   "return wrap(gerrc.ErrInternal)",
   "}",
   "iroTokenBalance := k.BK.GetBalance(ctx, k.AK.GetModuleAddress(types.ModuleName), plan.TotalAllocation.Denom)",
   "err := k.BK.BurnCoins(ctx, types.ModuleName, sdk.NewCoins(iroTokenBalance))",
   "if err != nil {",
   "return err",
   "}",
   "raisedLiquidityAmt := k.BK.GetBalance(ctx, plan.GetAddress(), plan.LiquidityDenom).Amount",
   "poolTokens := raisedLiquidityAmt.ToLegacyDec().Mul(plan.LiquidityPart).TruncateInt()",
   "ownerTokens := raisedLiquidityAmt.Sub(poolTokens)",
   "plan.VestingPlan.Amount = ownerTokens",
   "plan.VestingPlan.StartTime = ctx.BlockHeader().Time.Add(plan.VestingPlan.StartTimeAfterSettlement)",
   "plan.VestingPlan.EndTime = plan.VestingPlan.StartTime.Add(plan.VestingPlan.VestingDuration)",
   "plan.SettledDenom = rollappIBCDenom",
   "call k.SetPlan(ctx, plan)",
   "poolID, gaugeID, err := k.bootstrapLiquidityPool(ctx, plan, poolTokens)",
   "if err != nil {",
   "return errors.Join(types.ErrFailedBootstrapLiquidityPool, err)",
   "}",
   "if err != nil {",
   "return err",
   "}",
   "return nil"] := rfl


end DymVerif.GenEq.GB
