/-
  Lemmas/GBStep — what the validator accepts (`Matches`), the shape of a handshake step, and the
  per-rollapp invariant of M-GB with its preservation by every op.
-/
import DymVerif.Lemmas.GBPerm
namespace DymVerif.GB

/-- The property's own notion of a matching handshake packet: every scalar field of the genesis info
    equals the registered one, the account lists are equal as multisets, and the genesis transfer is
    absent when there are no registered accounts and otherwise carries exactly their sum to the
    fixed hub recipient. -/
def TrMatches : Option FT → GInfo → Prop
  | none, hub => hub.accounts = []
  | some t, hub => hub.accounts ≠ [] ∧ t.recv = 0 ∧ t.canon = true ∧ t.amt = sumAccs hub.accounts

def Matches (d : GBData) (hub : GInfo) : Prop :=
  d.gi.checksum = hub.checksum ∧ d.gi.pfx = hub.pfx ∧ d.gi.denom = hub.denom ∧ d.gi.supply = hub.supply ∧
  d.gi.accounts.Perm hub.accounts ∧ TrMatches d.tr hub

theorem nodup_aux (l : List Acc) (h : l.length = 0 ∨ accsOk l = true) : (l.map (·.addr)).Nodup := by
  rcases h with h | h
  · have : l = [] := List.eq_nil_of_length_eq_zero h
    simp [this]
  · simp only [accsOk, Bool.and_eq_true] at h
    exact nodupB_nodup _ h.2

theorem vb_nodup {g : GInfo} (h : g.vb = none) : (g.accounts.map (·.addr)).Nodup := by
  apply nodup_aux
  unfold GInfo.vb at h
  repeat' split at h
  all_goals (try (simp at h))
  all_goals first
    | (left; simp_all; done)
    | (right; simp_all; done)

theorem againstHub_none {d hub : GInfo} (h : againstHub d hub = none) :
    d.checksum = hub.checksum ∧ d.pfx = hub.pfx ∧ d.denom = hub.denom ∧ d.supply = hub.supply ∧
    compareAccounts hub.accounts d.accounts = true := by
  unfold againstHub at h
  repeat' split at h
  all_goals (try (simp at h))
  all_goals simp_all

theorem checkTransfer_none {tr : Option FT} {hub : GInfo} (h : checkTransfer tr hub = none) : TrMatches tr hub := by
  unfold checkTransfer at h
  cases tr with
  | none =>
    simp only at h
    show hub.accounts = []
    split at h
    · exact absurd h (by simp)
    · rename_i hr
      cases hg : hub.accounts with
      | nil => rfl
      | cons a as => simp [hg] at hr
  | some t =>
    simp only at h
    repeat' split at h
    all_goals (try (simp at h))
    rename_i h1 h2 h3
    show hub.accounts ≠ [] ∧ t.recv = 0 ∧ t.canon = true ∧ t.amt = sumAccs hub.accounts
    refine ⟨?_, ?_, ?_, ?_⟩
    · intro he; simp [he] at h1
    · simpa using h2
    · simp only [Bool.not_eq_true, Bool.not_eq_false', Bool.and_eq_true, beq_iff_eq] at h3
      exact h3.1
    · simp only [Bool.not_eq_true, Bool.not_eq_false', Bool.and_eq_true, beq_iff_eq] at h3
      exact h3.2

theorem validate_none {d : GBData} {hub : GInfo} (h : validate d hub = none) :
    d.vb = none ∧ againstHub d.gi hub = none ∧ checkTransfer d.tr hub = none := by
  unfold validate at h
  split at h
  · exact absurd h (by simp)
  · rename_i h1
    split at h
    · exact absurd h (by simp)
    · rename_i h2
      exact ⟨h1, h2, h⟩

/-- everything `GenesisBridgeValidator.Validate` lets through matches the registered genesis info -/
theorem validate_matches {d : GBData} {hub : GInfo} (hw : hub.vb = none) (h : validate d hub = none) : Matches d hub := by
  obtain ⟨_, h2, h3⟩ := validate_none h
  obtain ⟨a, b, c, e, f⟩ := againstHub_none h2
  exact ⟨a, b, c, e, compareAccounts_perm _ _ (vb_nodup hw) f, checkTransfer_none h3⟩

-- ---------------------------------------------------------------- the handshake step

theorem handshake_cases (ra : Ra) (ph : Nat) (p : Pkt) :
    ((handshake ra ph p).1 = ra ∧ ∃ e, (handshake ra ph p).2 = .rerr e) ∨
    (∃ d bal', p = .gb d ∧ validate d ra.gi = none ∧ credit d.gi.accounts ra.bal = some bal' ∧
      (handshake ra ph p).2 = .ok ∧
      (handshake ra ph p).1 = { ra with md := ra.md || d.gi.denom.isSet, bal := bal', tph := ph,
                                        plan := ra.plan.map (fun x => (x.1, true)), nOpen := ra.nOpen + 1 } ∧
      (∀ alloc st, ra.plan = some (alloc, st) → st = false ∧ getBal bal' iroAddr = alloc)) := by
  unfold handshake
  cases p with
  | junk => exact Or.inl ⟨rfl, _, rfl⟩
  | ft t => exact Or.inl ⟨rfl, _, rfl⟩
  | gb d =>
    simp only
    cases hv : validate d ra.gi with
    | some e => exact Or.inl ⟨rfl, _, rfl⟩
    | none =>
      simp only
      split
      · exact Or.inl ⟨rfl, _, rfl⟩
      split
      · exact Or.inl ⟨rfl, _, rfl⟩
      · cases hc : credit d.gi.accounts ra.bal with
        | none => exact Or.inl ⟨rfl, _, rfl⟩
        | some bal' =>
          simp only
          cases hp : ra.plan with
          | none =>
            refine Or.inr ⟨d, bal', rfl, hv, hc, rfl, ?_, ?_⟩
            · simp
            · intro _ _ h; exact absurd h (by simp)
          | some pl =>
            obtain ⟨alloc, st⟩ := pl
            simp only
            split
            · exact Or.inl ⟨rfl, _, rfl⟩
            · rename_i hs
              refine Or.inr ⟨d, bal', rfl, hv, hc, rfl, ?_, ?_⟩
              · simp
              · intro a' st' h
                simp only [Option.some.injEq, Prod.mk.injEq] at h
                obtain ⟨rfl, rfl⟩ := h
                simp only [Bool.or_eq_true, bne_iff_ne, ne_eq, not_or, Bool.not_eq_true, Decidable.not_not] at hs
                exact ⟨hs.1, hs.2⟩

/-- a handshake succeeds on a native-denom rollapp only when no metadata of its IBC denom exists yet -/
theorem handshake_ok_md {ra : Ra} {ph : Nat} {d : GBData} (h : (handshake ra ph (.gb d)).2 = .ok)
    (hd : d.gi.denom.isSet = true) : ra.md = false := by
  revert h
  unfold handshake
  simp only
  cases hv : validate d ra.gi with
  | some e => intro h; exact absurd h (by simp)
  | none =>
    simp only
    split
    · intro h; exact absurd h (by simp)
    split
    · intro h; exact absurd h (by simp)
    · rename_i hm
      intro _
      simpa [hd] using hm

theorem handshake_err_unchanged {ra : Ra} {ph : Nat} {p : Pkt} (h : (handshake ra ph p).2 ≠ .ok) : (handshake ra ph p).1 = ra := by
  rcases handshake_cases ra ph p with ⟨h1, _⟩ | ⟨_, _, _, _, _, h2, _⟩
  · exact h1
  · exact absurd h2 h

-- ---------------------------------------------------------------- the IRO plan steps

/-- the record an accepted `MsgCreatePlan` writes -/
def planned (now : Nat) (ra : Ra) (alloc : Int) (dur : Nat) (te : Bool) (start : Option Nat) : Ra :=
  { ra with gi := { ra.gi with sealed := true },
            preLaunch := some (if te then planPreLaunch (planStart now start) dur else now + tenYears),
            plan := some (alloc, false), te := te,
            pstart := (if te then some (planStart now start) else none), pdur := dur }

/-- shape of an accepted `plan` step, whatever the trading flag -/
theorem stepPlan_ok {s : St} {r : Nat} {owner : Bool} {alloc : Int} {dur : Nat} {te : Bool} {start : Option Nat}
    (h : (stepPlan s r owner alloc dur te start).2 = .ok) :
    ∃ ra, getRa s r = some ra ∧ owner = true ∧ ra.plan = none ∧ ra.launched = false ∧ ra.gi.sealed = false ∧
      (start.isSome = true → te = true) ∧
      stepPlan s r owner alloc dur te start = (setRa s (planned s.now ra alloc dur te start), .ok) := by
  revert h
  unfold stepPlan
  split
  · intro h; exact absurd h (by simp)
  rename_i hvb
  cases hg : getRa s r with
  | none => intro h; exact absurd h (by simp)
  | some ra =>
    simp only
    repeat' split
    all_goals intro h
    all_goals first
      | (simp at h; done)
      | (refine ⟨ra, rfl, ?_, ?_, ?_, ?_, ?_, ?_⟩ <;> simp_all [planned])

/-- the record an accepted `MsgEnableTrading` writes -/
def enabled (now : Nat) (ra : Ra) : Ra :=
  { ra with te := true, pstart := some now, preLaunch := some (planPreLaunch now ra.pdur) }

/-- shape of an accepted `enable` step -/
theorem stepEnable_ok {s : St} {r : Nat} {owner : Bool} (h : (stepEnable s r owner).2 = .ok) :
    ∃ ra alloc, getRa s r = some ra ∧ owner = true ∧ ra.plan = some (alloc, false) ∧ ra.te = false ∧
      stepEnable s r owner = (setRa s (enabled s.now ra), .ok) := by
  revert h
  unfold stepEnable
  cases hg : getRa s r with
  | none => intro h; exact absurd h (by simp)
  | some ra =>
    simp only
    cases hp : ra.plan with
    | none => intro h; exact absurd h (by simp)
    | some pl =>
      obtain ⟨alloc, settled⟩ := pl
      simp only
      repeat' split
      all_goals intro h
      all_goals first
        | (simp at h; done)
        | (refine ⟨ra, alloc, rfl, ?_, ?_, ?_, ?_⟩ <;> simp_all [enabled])

/-- a refused `enable` step changes nothing -/
theorem stepEnable_err {s : St} {r : Nat} {owner : Bool} (h : (stepEnable s r owner).2 ≠ .ok) :
    stepEnable s r owner = (s, .err) := by
  revert h
  unfold stepEnable
  repeat' split
  all_goals intro h
  all_goals first
    | rfl
    | exact absurd rfl h

/-- a refused `plan` step changes nothing -/
theorem stepPlan_err {s : St} {r : Nat} {owner : Bool} {alloc : Int} {dur : Nat} {te : Bool} {start : Option Nat}
    (h : (stepPlan s r owner alloc dur te start).2 ≠ .ok) : stepPlan s r owner alloc dur te start = (s, .err) := by
  revert h
  unfold stepPlan
  repeat' split
  all_goals intro h
  all_goals first
    | rfl
    | exact absurd rfl h

end DymVerif.GB
