/-
  Lemmas/IncentExact — EXACT accounting of the paged distribution on the real callback and the real pointer loop
  (`rewardsCb`, `iterateEpochPointer`, `ptrLoop` of Model/Incent — not the abstract iterator):
  for every cached stream the quantity
      QR = distributed + Σ shares of its (stream, gauge) positions still ahead of its epoch's pointer
  (`pendR`, read off the iterator's own `remaining` list) is CONSERVED by the pointer loop for EVERY budget —
  equality, where Lemmas/IncentBound (`ptrLoop_window`) has `≤`.  Needs every record of a cached stream to name a
  live gauge (`LiveC`: `getActiveGaugeByID` succeeds — true for what `validateGauges` admits: existing perpetual
  gauges never finish; a record naming a finished / unknown gauge is skipped by the code and its share is lost).
-/
import DymVerif.Lemmas.IncentBound
namespace DymVerif.Incent
open DymVerif Coins

/-- the gauge a record names can be funded (`getActiveGaugeByID` succeeds) -/
def LiveRec (s : State) (r : Rec) : Prop := ∃ g, getGauge s r.gauge = some g ∧ g.isFinished s.now = false

/-- every record of every cached stream names a live gauge -/
def LiveC (s : State) (c : Caches) : Prop := ∀ st ∈ c.streams, ∀ r ∈ st.recs, LiveRec s r

/-- `rewardsCb` on a live record: slot `k` grows by EXACTLY the record's share -/
theorem rewardsCb_exact (s : State) (data : List SView) (c : Caches) (hsh : Shape data c) (k : Nat) (hk : k < c.streams.length)
    (r : Rec) (hl : LiveRec s r) :
    ∃ d', (rewardsCb s c (c.streams[k]).view r).1.streams = c.streams.set k { c.streams[k] with distributed := d' } ∧
      ∀ i, amt d' i = amt (c.streams[k]).distributed i + shareOf c.streams[k] r i := by
  have hsame : c.streams.set k { c.streams[k] with distributed := (c.streams[k]).distributed } = c.streams := by
    have : ({ c.streams[k] with distributed := (c.streams[k]).distributed } : Stream) = c.streams[k] := rfl
    rw [this]; exact List.set_getElem_self hk
  have unchanged : (((c.streams[k]).ecEmpty || (c.streams[k]).totalWeight == 0) = true) →
      ∃ d', c.streams = c.streams.set k { c.streams[k] with distributed := d' } ∧
      ∀ i, amt d' i = amt (c.streams[k]).distributed i + shareOf c.streams[k] r i := by
    intro h0
    refine ⟨_, hsame.symm, fun i => ?_⟩
    unfold shareOf; rw [if_pos h0]; rfl
  unfold rewardsCb
  have hfind : c.getStream (c.streams[k]).view.id = some c.streams[k] := by
    unfold Caches.getStream Stream.view
    exact find_at c.streams hsh.2 k hk
  rw [hfind]
  simp only
  have final : (¬ ((c.streams[k]).ecEmpty || (c.streams[k]).totalWeight == 0) = true) →
      ∃ d', upsertStream c.streams { c.streams[k] with distributed := Coins.add (c.streams[k]).distributed (gaugeRewards (c.streams[k]).epochCoins r.weight (c.streams[k]).totalWeight) }
          = c.streams.set k { c.streams[k] with distributed := d' } ∧
        ∀ i, amt d' i = amt (c.streams[k]).distributed i + shareOf c.streams[k] r i := by
    intro hne
    refine ⟨_, upsert_at c.streams hsh.2 k hk _ rfl, ?_⟩
    intro i
    rw [amt_add]
    have : amt (gaugeRewards (c.streams[k]).epochCoins r.weight (c.streams[k]).totalWeight) i = shareOf c.streams[k] r i := by
      unfold gaugeRewards shareOf
      rw [amt_map _ (by simp [streamShare])]
      simp only [hne]
      rfl
    omega
  obtain ⟨g0, hg0, hf0⟩ := hl
  cases hg : c.getGauge r.gauge with
  | some g =>
    simp only
    split
    · next h0 => exact unchanged h0
    · next hne => exact final hne
  | none =>
    simp only
    rw [hg0]
    simp only
    rw [if_neg (by rw [hf0]; decide)]
    simp only
    split
    · next h0 => exact unchanged h0
    · next hne => exact final hne

/-- shares of stream `st` (sitting at data index `k`) over a list of iterator positions -/
def sharesAt (st : Stream) (k : Nat) (vs : List (Nat × Nat)) (i : Nat) : Nat :=
  ((vs.filter (fun v => v.1 == k)).map (fun v => shareOf st (st.recs.getD v.2 default) i)).sum

theorem sharesAt_append (st : Stream) (k : Nat) (l1 l2 : List (Nat × Nat)) (i : Nat) :
    sharesAt st k (l1 ++ l2) i = sharesAt st k l1 i + sharesAt st k l2 i := by
  simp [sharesAt]

theorem sharesAt_cons (st : Stream) (k : Nat) (v : Nat × Nat) (l : List (Nat × Nat)) (i : Nat) :
    sharesAt st k (v :: l) i = (if v.1 = k then shareOf st (st.recs.getD v.2 default) i else 0) + sharesAt st k l i := by
  unfold sharesAt
  by_cases h : v.1 = k
  · simp [List.filter_cons, h]
  · have : (v.1 == k) = false := by simpa using h
    simp [List.filter_cons, this, h]

theorem sharesAt_static {a b : Stream} (h : a = { b with distributed := a.distributed }) (k : Nat) (vs : List (Nat × Nat)) (i : Nat) :
    sharesAt a k vs i = sharesAt b k vs i := by
  unfold sharesAt
  apply congrArg
  apply List.map_congr_left
  intro v _
  rw [h]
  simp only
  exact shareOf_congr rfl rfl rfl _ i

/-- applying the real callback to a list of valid positions: every slot grows by exactly the shares of its positions -/
theorem foldCb_exact (s : State) (data : List SView) (e : Nat) : ∀ (vs : List (Nat × Nat)) (c : Caches), Shape data c → LiveC s c →
    (∀ v ∈ vs, validAt data e v.1 v.2 = true) →
    Shape data (foldCb data (rewardsCb s) c vs) ∧ Grown c (foldCb data (rewardsCb s) c vs) ∧
    ∀ k, k < c.streams.length → ∀ i,
      distAt (foldCb data (rewardsCb s) c vs) k i = distAt c k i + sharesAt (slot c k) k vs i := by
  intro vs
  induction vs with
  | nil =>
    intro c hsh _ _
    exact ⟨hsh, Grown.refl c, fun k _ i => by simp [foldCb, sharesAt]⟩
  | cons it rest ih =>
    intro c hsh hlive hval
    have hv : validAt data e it.1 it.2 = true := hval it List.mem_cons_self
    obtain ⟨hlt, _, hgi⟩ := (validAt_iff data e it.1 it.2).1 hv
    have hlen : c.streams.length = data.length := by rw [← hsh.1]; simp
    have hk1 : it.1 < c.streams.length := by rw [hlen]; exact hlt
    have hview : data[it.1]? = some (c.streams[it.1]).view := by
      have := hsh.1
      subst this
      simp [hk1]
    have hdv : data[it.1] = (c.streams[it.1]).view := by
      have := List.getElem?_eq_getElem hlt
      rw [hview] at this
      exact (Option.some.inj this).symm
    have hgi' : it.2 < (c.streams[it.1]).recs.length := by
      have : (c.streams[it.1]).recs = data[it.1].recs := by rw [hdv]; rfl
      rw [this]; exact hgi
    have hrec : (c.streams[it.1]).view.recs.getD it.2 default = (c.streams[it.1]).recs[it.2] := by
      show (c.streams[it.1]).recs.getD it.2 default = _
      simp [List.getD_eq_getElem?_getD, hgi']
    have hl : LiveRec s ((c.streams[it.1]).view.recs.getD it.2 default) := by
      rw [hrec]; exact hlive _ (List.getElem_mem hk1) _ (List.getElem_mem hgi')
    unfold foldCb
    simp only [hview]
    obtain ⟨d', hd1, hd2⟩ := rewardsCb_exact s data c hsh it.1 hk1 _ hl
    obtain ⟨c1, w, hres⟩ : ∃ c1 w, rewardsCb s c (c.streams[it.1]).view ((c.streams[it.1]).view.recs.getD it.2 default) = (c1, w) := ⟨_, _, rfl⟩
    rw [hres] at hd1 ⊢
    simp only at hd1 ⊢
    have hsh1 : Shape data c1 := shape_set data c hsh it.1 hk1 d' c1 hd1
    have hg1 : Grown c c1 := by
      refine ⟨by rw [hd1]; simp, ?_⟩
      intro k h h'
      have : c1.streams[k] = (c.streams.set it.1 { c.streams[it.1] with distributed := d' })[k]'(by simpa using h) := by
        simp only [hd1]
      rw [this, List.getElem_set]
      split
      · next he =>
        subst he
        refine ⟨rfl, fun i => ?_⟩
        show amt (c.streams[it.1]).distributed i ≤ amt d' i
        have := hd2 i; omega
      · exact ⟨rfl, fun i => Nat.le_refl _⟩
    have hlive1 : LiveC s c1 := by
      intro st hst r hr
      obtain ⟨k, hk, he⟩ := List.getElem_of_mem hst
      have hk0 : k < c.streams.length := by rw [← hg1.1]; exact hk
      have h1 := (hg1.2 k hk0 hk).1
      have : st.recs = (c.streams[k]).recs := by rw [← he, h1]
      rw [this] at hr
      exact hlive _ (List.getElem_mem hk0) r hr
    obtain ⟨i1, i2, i3⟩ := ih c1 hsh1 hlive1 (fun v hvm => hval v (List.mem_cons_of_mem _ hvm))
    refine ⟨i1, Grown.trans hg1 i2, ?_⟩
    intro k h i
    have hk1' : k < c1.streams.length := by rw [hg1.1]; exact h
    rw [i3 k hk1' i, sharesAt_cons]
    have hst : slot c1 k = { slot c k with distributed := (slot c1 k).distributed } := slot_static hg1 k h
    rw [sharesAt_static hst]
    have hstep : distAt c1 k i = distAt c k i + (if it.1 = k then shareOf (slot c k) ((slot c k).recs.getD it.2 default) i else 0) := by
      unfold distAt
      rw [slot_eq c1 k hk1', slot_eq c k h]
      have : c1.streams[k] = (c.streams.set it.1 { c.streams[it.1] with distributed := d' })[k]'(by simpa using h) := by
        simp only [hd1]
      rw [this, List.getElem_set]
      split
      · next he =>
        subst he
        simp only [if_true]
        exact hd2 i
      · next he => simp [he]
    omega

/-- shares of slot `k` still ahead of pointer `p` in epoch `e`, read off the iterator's own `remaining` list -/
def pendR (data : List SView) (e : Nat) (p : Pointer) (st : Stream) (k i : Nat) : Nat :=
  sharesAt st k (remaining data e p) i

/-- **one `IterateEpochPointer` call with the real callback, ANY budget**: for every slot,
    distributed' + ahead(pointer') = distributed + ahead(pointer) — exactly -/
theorem iterate_exact (s : State) (e : Nat) (p : Pointer) (max : Nat) (c : Caches) (hgc : GoodCache c) (hlive : LiveC s c) :
    let data := c.streams.map Stream.view
    let res := iterateEpochPointer data e p max (rewardsCb s) c
    Grown c res.2.2 ∧
    ∀ k, k < c.streams.length → ∀ i,
      distAt res.2.2 k i + pendR data e res.1 (slot c k) k i = distAt c k i + pendR data e p (slot c k) k i := by
  intro data res
  have hsh : Shape data c := ⟨rfl, hgc.nodup⟩
  have hsd : SortedData data := hgc.sortedData
  have hacc : res.2.2 = foldCb data (rewardsCb s) c (iterVisits data e p max (rewardsCb s) c) := iterate_acc data e p max (rewardsCb s) c
  have hres := iterate_resume data e hsd p max (rewardsCb s) c
  have hval : ∀ v ∈ iterVisits data e p max (rewardsCb s) c, validAt data e v.1 v.2 = true := by
    intro v hv
    have hm : v ∈ remaining data e p := by rw [hres]; exact List.mem_append_left _ hv
    exact (visits_sound data e _ _ (Nat.le_refl _) v hm).1
  obtain ⟨_, f2, f3⟩ := foldCb_exact s data e _ c hsh hlive hval
  refine ⟨by rw [hacc]; exact f2, ?_⟩
  intro k hk i
  unfold pendR
  rw [hacc, f3 k hk i]
  have : sharesAt (slot c k) k (remaining data e p) i =
      sharesAt (slot c k) k (iterVisits data e p max (rewardsCb s) c) i + sharesAt (slot c k) k (remaining data e res.1) i := by
    rw [← sharesAt_append]
    exact congrArg (fun l => sharesAt (slot c k) k l i) hres
  omega

theorem view_of_grown {c c' : Caches} (hg : Grown c c') : c'.streams.map Stream.view = c.streams.map Stream.view := by
  apply List.ext_getElem
  · simp [hg.1]
  · intro k h1 h2
    simp only [List.getElem_map]
    have hk : k < c.streams.length := by simpa using h2
    have hk' : k < c'.streams.length := by simpa using h1
    rw [(hg.2 k hk hk').1]
    rfl

/-- the conserved quantity: distributed + what is still ahead of the stream's own epoch pointer -/
def QR (c : Caches) (ps : List Pointer) (k i : Nat) : Nat :=
  distAt c k i + pendR (c.streams.map Stream.view) (slot c k).epochId (ps.getD (slot c k).epochId Pointer.last) (slot c k) k i

theorem pendR_static {a b : Stream} (h : a = { b with distributed := a.distributed }) (data : List SView) (e : Nat) (p : Pointer) (k i : Nat) :
    pendR data e p a k i = pendR data e p b k i := sharesAt_static h k _ i

theorem pendR_last (data : List SView) (e : Nat) (hs : SortedData data) (st : Stream) (k i : Nat) : pendR data e Pointer.last st k i = 0 := by
  unfold pendR remaining
  rw [visits_invalid data e _ (newIter_last data e hs)]
  simp [sharesAt]

/-- **the pointer loop of x/streamer `Distribute` (hour, day, week sharing one budget), EVERY budget**: `QR` of every
    cached stream is the same before and after -/
theorem ptrLoop_exact (s : State) (maxOps : Nat) : ∀ (es : List Nat) (total : Nat) (c : Caches) (ps : List Pointer), GoodCache c → LiveC s c →
    Grown c (ptrLoop s maxOps es total c ps).2.1 ∧
    ∀ k, k < c.streams.length → ∀ i, QR (ptrLoop s maxOps es total c ps).2.1 (ptrLoop s maxOps es total c ps).2.2 k i = QR c ps k i := by
  intro es
  induction es with
  | nil => intro total c ps _ _; exact ⟨Grown.refl c, fun _ _ _ => rfl⟩
  | cons e rest ih =>
    intro total c ps hgc hlive
    unfold ptrLoop
    by_cases hb : total ≥ maxOps
    · rw [if_pos hb]; exact ⟨Grown.refl c, fun _ _ _ => rfl⟩
    · rw [if_neg hb]
      simp only
      obtain ⟨g1, g2⟩ := iterate_exact s e (ps.getD e Pointer.last) (maxOps - total) c hgc hlive
      have g3 := (iterate_window s e (ps.getD e Pointer.last) (maxOps - total) c hgc).2.2
      obtain ⟨p', iters, c', hit⟩ : ∃ p' iters c', iterateEpochPointer (c.streams.map Stream.view) e (ps.getD e Pointer.last) (maxOps - total) (rewardsCb s) c = (p', iters, c') := ⟨_, _, _, rfl⟩
      rw [hit] at g1 g2 g3 ⊢
      simp only at g1 g2 g3 ⊢
      have hlive' : LiveC s c' := by
        intro st hst r hr
        obtain ⟨k, hk, he⟩ := List.getElem_of_mem hst
        have hk0 : k < c.streams.length := by rw [← g1.1]; exact hk
        have h1 := (g1.2 k hk0 hk).1
        have : st.recs = (c.streams[k]).recs := by rw [← he, h1]
        rw [this] at hr
        exact hlive _ (List.getElem_mem hk0) r hr
      obtain ⟨h1, h2⟩ := ih (total + iters) c' (ps.set e p') (hgc.of_grown g1) hlive'
      refine ⟨Grown.trans g1 h1, ?_⟩
      intro k hk i
      have hk' : k < c'.streams.length := by rw [g1.1]; exact hk
      rw [h2 k hk' i]
      unfold QR
      have hst := slot_static g1 k hk
      have hep : (slot c' k).epochId = (slot c k).epochId := by rw [hst]
      rw [hep, pendR_static hst, view_of_grown g1]
      by_cases he : (slot c k).epochId = e
      · rw [he]
        by_cases hl : e < ps.length
        · have : (ps.set e p').getD e Pointer.last = p' := by simp [List.getD_eq_getElem?_getD, hl]
          rw [this]; exact g2 k hk i
        · have h3 : (ps.set e p').getD e Pointer.last = Pointer.last := by
            rw [List.getD_eq_getElem?_getD, List.getElem?_eq_none (by rw [List.length_set]; omega)]; rfl
          have h4 : ps.getD e Pointer.last = Pointer.last := by
            rw [List.getD_eq_getElem?_getD, List.getElem?_eq_none (by omega)]; rfl
          rw [h3]
          have := g2 k hk i
          rw [h4] at this ⊢
          rw [pendR_last _ _ hgc.sortedData] at this ⊢
          have hge : distAt c k i ≤ distAt c' k i := by
            unfold distAt
            rw [slot_eq c k hk, slot_eq c' k hk']
            exact (g1.2 k hk hk').2 i
          omega
      · have h5 : (ps.set e p').getD (slot c k).epochId Pointer.last = ps.getD (slot c k).epochId Pointer.last := by
          simp only [List.getD_eq_getElem?_getD]
          rw [List.getElem?_set_ne (fun x => he x.symm)]
        rw [h5]
        have := g3 k hk he
        unfold distAt
        rw [this]

end DymVerif.Incent
