/-
  Lemmas/DymNSAliasSO — open alias sell orders and the RollApp they hang on.
  `ASOOK false`: every open alias sell order is on an alias that is attached to a registered RollApp
  (so a completion always finds the account to pay) — for every history.
  `ASOOK true`: moreover the order was placed by that RollApp's current owner — for every history
  without a RollApp ownership transfer (`Op.transferRollapp`); a transfer hands the open orders over
  to the new owner as they are.
-/
import DymVerif.Lemmas.DymNSBoIdx
namespace DymVerif.DymNS
open AMap

def ASOOK (strict : Bool) (s : State) : Prop :=
  ∀ l so, AMap.get s.aliasSO l = some so →
    ∃ src r, AMap.get s.al.aliasTo l = some src ∧ AMap.get s.al.rollapps src = some r ∧ (strict = true → so.seller = r.owner)

/-- the part of the state `ASOOK` reads -/
def alPart (s : State) : AliasStore × AMap AliasId SellOrder := (s.al, s.aliasSO)

theorem asook_congr {b : Bool} {s t : State} (h : alPart t = alPart s) (hs : ASOOK b s) : ASOOK b t := by
  simp only [alPart, Prod.mk.injEq] at h
  intro l so hm
  rw [h.2] at hm
  rw [h.1]
  exact hs l so hm

/-- orders only disappear or keep their seller; the aliases that still have an order stay attached
    where they were; RollApps stay (with their owner, in the strict reading) -/
theorem asook_step {b : Bool} {s t : State} (hA : ASOOK b s)
    (hso : ∀ l so, AMap.get t.aliasSO l = some so → ∃ so0, AMap.get s.aliasSO l = some so0 ∧ so0.seller = so.seller)
    (hto : ∀ l so, AMap.get t.aliasSO l = some so → AMap.get t.al.aliasTo l = AMap.get s.al.aliasTo l)
    (hro : ∀ c r, AMap.get s.al.rollapps c = some r →
      ∃ r', AMap.get t.al.rollapps c = some r' ∧ (b = true → r'.owner = r.owner)) : ASOOK b t := by
  intro l so hm
  obtain ⟨so0, h0, hsel⟩ := hso l so hm
  obtain ⟨src, r, h1, h2, h3⟩ := hA l so0 h0
  obtain ⟨r', h4, h5⟩ := hro src r h2
  exact ⟨src, r', by rw [hto l so hm]; exact h1, h4, fun hb => by rw [← hsel, h3 hb, h5 hb]⟩

/-! ### blocks that touch neither the alias store nor the alias sell orders -/

theorem alPart_refundOptT (s : State) (b : Option Bid) : alPart (refundOptT s b) = alPart s := by
  cases b <;> rfl

theorem alPart_takeBidT (s : State) (o : Option Bid) (a : Acct) (x : Nat) : alPart (takeBidT s o a x) = alPart s := by
  have : alPart (takeBidT s o a x) = alPart (refundOptT s o) := rfl
  rw [this, alPart_refundOptT]

theorem alPart_pruneNameT (s : State) (n : Name) : alPart (pruneNameT s n) = alPart s := by
  have : alPart (pruneNameT s n) = alPart (refundOptT s (nameBid s n)) := rfl
  rw [this, alPart_refundOptT]

theorem alPart_transferOwnershipT (s : State) (n : Name) (d : DymName) (b : Acct) :
    alPart (transferOwnershipT s n d b) = alPart s := by
  have : alPart (transferOwnershipT s n d b) = alPart (pruneNameT s n) := rfl
  rw [this, alPart_pruneNameT]

theorem alPart_completeNameSO {s s' : State} {n : Name} (h : completeNameSO s n = .ok s') : alPart s' = alPart s := by
  obtain ⟨d, so, b, _, _, _, _, _, rfl⟩ := completeNameSO_ok h
  rfl

theorem alPart_putBO {s s' : State} {isAlias a asset dst offer ex} (h : putBO s isAlias a asset dst offer ex = .ok s') :
    alPart s' = alPart s := by
  unfold putBO at h
  split at h <;> (obtain ⟨rfl, _⟩ := toModule_ok h; rfl)

/-- the operations that leave the alias store and the alias sell orders alone -/
theorem exec_al_frame {s s' : State} {op : Op} (h : exec s op = .ok s')
    (hop : match op with
      | .createRollapp .. | .registerAlias .. | .sellAlias .. | .cancelSellAlias .. | .completeAlias .. | .buyAlias ..
      | .acceptOffer .. | .transferRollapp .. => False
      | _ => True) : alPart s' = alPart s := by
  cases op <;> simp only at hop <;> simp only [exec, pure, Except.pure] at h
  case fund => injection h with h; subst h; rfl
  case advance => injection h with h; subst h; rfl
  case trading => injection h with h; subst h; rfl
  case setChainAliases => injection h with h; subst h; rfl
  case migrateChainIds => obtain ⟨rfl, _, _⟩ := migrateChainIds_ok h; rfl
  case updateAliases => obtain ⟨ca, rfl, _⟩ := updateAliases_ok h; rfl
  case setParams => obtain ⟨rfl, _⟩ := setParams_ok h; rfl
  case register a n dur pay c =>
    unfold registerName at h
    mcases' h
    all_goals
      rename (payAndBurn s a _ = Except.ok _) => h1
      obtain ⟨rfl, _⟩ := payAndBurn_ok h1
    · rename (pruneName _ n = Except.ok _) => hp
      obtain ⟨rfl, _⟩ := pruneName_ok hp
      rw [setNameAfterBoth_ok] at h
      injection h with h; subst h
      exact (alPart_pruneNameT _ n).trans rfl
    · injection h with h; subst h; rfl
  case transfer a n b =>
    unfold transferName at h
    mcases' h
    obtain ⟨rfl, _⟩ := transferOwnership_ok h
    exact alPart_transferOwnershipT _ _ _ _
  case setController => unfold setController at h; mcases' h; injection h with h; subst h; rfl
  case updateResolve =>
    unfold updateResolveAddress at h
    mcases' h
    all_goals (rw [setNameConfigChanged_ok] at h; injection h with h; subst h; rfl)
  case updateDetails =>
    unfold updateDetails at h
    mcases' h
    all_goals first
      | (rw [setNameConfigChanged_ok] at h; injection h with h; subst h; rfl)
      | (injection h with h; subst h; rfl)
  case sellName => unfold placeNameSO at h; mcases' h; injection h with h; subst h; rfl
  case cancelSellName => unfold cancelNameSO at h; mcases' h; injection h with h; subst h; rfl
  case completeName =>
    unfold completeNameSOMsg at h
    mcases' h
    · rename (refundBid s _ = Except.ok _) => hr
      obtain ⟨rfl, _⟩ := fromModule_ok hr
      injection h with h; subst h; rfl
    · exact alPart_completeNameSO h
  case buyName a n offer =>
    unfold purchaseName at h
    mcases' h
    all_goals
      rename (takeBid s _ a offer = Except.ok _) => ht
      obtain ⟨rfl, _, _⟩ := takeBid_ok ht
    · exact (alPart_completeNameSO h).trans ((show alPart _ = alPart (takeBidT s _ a offer) from rfl).trans (alPart_takeBidT _ _ _ _))
    · injection h with h; subst h
      exact (show alPart _ = alPart (takeBidT s _ a offer) from rfl).trans (alPart_takeBidT _ _ _ _)
  case offerName => unfold placeNameBO at h; mcases' h; exact alPart_putBO h
  case offerAlias => unfold placeAliasBO at h; mcases' h; exact alPart_putBO h
  case cancelOffer =>
    unfold cancelBO at h; mcases' h
    rename (fromModule s _ _ = Except.ok _) => hf
    obtain ⟨rfl, _⟩ := fromModule_ok hf
    injection h with h; subst h; rfl

/-! ### the alias store away from one alias -/

/-- `al'` has the RollApps of `al` and attaches every alias other than `l` where `al` does -/
def AlSameBut (al al' : AliasStore) (l : AliasId) : Prop :=
  al'.rollapps = al.rollapps ∧ ∀ l', l' ≠ l → AMap.get al'.aliasTo l' = AMap.get al.aliasTo l'

theorem alSameBut_setAliasT (al : AliasStore) (c : Chain) (l : AliasId) : AlSameBut al (al.setAliasT c l) l :=
  ⟨rfl, fun l' h => by simp [AliasStore.setAliasT, AMap.get_set, h]⟩

theorem alSameBut_removeAliasT (al : AliasStore) (c : Chain) (l : AliasId) : AlSameBut al (al.removeAliasT c l) l :=
  ⟨rfl, fun l' h => by simp [AliasStore.removeAliasT, AMap.get_del, h]⟩

theorem AlSameBut.trans {al al' al'' : AliasStore} {l : AliasId} (h1 : AlSameBut al al' l) (h2 : AlSameBut al' al'' l) :
    AlSameBut al al'' l :=
  ⟨h2.1.trans h1.1, fun l' h => (h2.2 l' h).trans (h1.2 l' h)⟩

theorem alSameBut_moveAlias {al al' : AliasStore} {src dst : Chain} {l : AliasId} (h : al.moveAlias src l dst = .ok al') :
    AlSameBut al al' l := by
  unfold AliasStore.moveAlias at h
  mcases' h
  rename (AliasStore.removeAlias al src l = Except.ok _) => hr
  obtain ⟨_, _, rfl⟩ := AliasStore.removeAlias_ok hr
  obtain ⟨_, _, rfl⟩ := AliasStore.setAlias_ok h
  exact (alSameBut_removeAliasT al src l).trans (alSameBut_setAliasT _ dst l)

/-- the alias store changes away from the aliases that keep an order; orders only disappear or keep
    their seller -/
theorem asook_alSameBut {b : Bool} {s t : State} {l : AliasId} (hA : ASOOK b s) (hal : AlSameBut s.al t.al l)
    (hso : ∀ l' so, AMap.get t.aliasSO l' = some so → l' ≠ l ∧ ∃ so0, AMap.get s.aliasSO l' = some so0 ∧ so0.seller = so.seller) :
    ASOOK b t :=
  asook_step hA (fun l' so hm => (hso l' so hm).2) (fun l' so hm => hal.2 l' (hso l' so hm).1)
    (fun c r hr => ⟨r, by rw [hal.1]; exact hr, fun _ => rfl⟩)

/-! ### the alias operations -/

theorem isCreator_some {s : State} {c : Chain} {a : Acct} (h : isCreator s c a = true) :
    ∃ r, AMap.get s.al.rollapps c = some r ∧ r.owner = a := by
  unfold isCreator at h
  split at h
  · rename_i r hr; exact ⟨r, hr, by simpa using h⟩
  · cases h

theorem placeAliasSO_asook {b : Bool} {s s' : State} {a l mn sl} (hA : ASOOK b s)
    (h : placeAliasSO s a l mn sl = .ok s') : ASOOK b s' := by
  unfold placeAliasSO at h
  mcases' h
  rename (AMap.get s.al.aliasTo l = some _) => hsrc
  rename (isCreator s _ a = true) => hcr
  obtain ⟨r, hr, ho⟩ := isCreator_some hcr
  injection h with h; subst h
  intro l' so' hm
  simp only [AMap.get_set] at hm
  split at hm
  · rename_i hl; subst hl
    injection hm with hm; subst hm
    exact ⟨_, r, hsrc, hr, fun _ => ho.symm⟩
  · exact hA l' so' hm

/-- an alias order is dropped (cancelled, or its bid refunded); everything else of `alPart` stays -/
theorem dropAliasSO_asook {b : Bool} {s t : State} {l : AliasId} (hA : ASOOK b s) (hal : t.al = s.al)
    (hso : t.aliasSO = AMap.del s.aliasSO l) : ASOOK b t := by
  refine asook_step hA (fun l' so hm => ?_) (fun l' so hm => by rw [hal]) (fun c r hr => ⟨r, by rw [hal]; exact hr, fun _ => rfl⟩)
  rw [hso, AMap.get_del] at hm
  split at hm
  · cases hm
  · exact ⟨so, hm, rfl⟩

theorem completeAliasSO_asook {b : Bool} {s s' : State} {l : AliasId} (hA : ASOOK b s)
    (h : completeAliasSO s l = .ok s') : ASOOK b s' := by
  unfold completeAliasSO at h
  mcases' h
  rename (fromModule s _ _ = Except.ok _) => hf
  obtain ⟨rfl, _⟩ := fromModule_ok hf
  rename (removeAlias _ _ l = Except.ok _) => hrm
  obtain ⟨_, _, rfl⟩ := removeAlias_ok hrm
  obtain ⟨_, _, rfl⟩ := setAlias_ok h
  refine asook_alSameBut (l := l) hA ((alSameBut_removeAliasT _ _ l).trans (alSameBut_setAliasT _ _ l)) (fun l' so hm => ?_)
  simp only [fromModuleT, AMap.get_del] at hm
  split at hm
  · cases hm
  · rename_i hne; exact ⟨hne, so, hm, rfl⟩

theorem completeAliasSOMsg_asook {b : Bool} {s s' : State} {a l} (hA : ASOOK b s)
    (h : completeAliasSOMsg s a l = .ok s') : ASOOK b s' := by
  unfold completeAliasSOMsg at h
  mcases' h
  · rename (refundBid s _ = Except.ok _) => hr
    obtain ⟨rfl, _⟩ := fromModule_ok hr
    injection h with h; subst h
    exact dropAliasSO_asook (l := l) hA rfl rfl
  · exact completeAliasSO_asook hA h

theorem cancelAliasSO_asook {b : Bool} {s s' : State} {a l} (hA : ASOOK b s)
    (h : cancelAliasSO s a l = .ok s') : ASOOK b s' := by
  unfold cancelAliasSO at h
  mcases' h
  injection h with h; subst h
  exact dropAliasSO_asook (l := l) hA rfl rfl

theorem purchaseAlias_asook {b : Bool} {s s' : State} {a l offer dst} (hA : ASOOK b s)
    (h : purchaseAlias s a l offer dst = .ok s') : ASOOK b s' := by
  unfold purchaseAlias at h
  mcases' h
  all_goals
    rename (s.aliasSO.get l = some _) => hso
    rename (takeBid s _ a offer = Except.ok _) => ht
    obtain ⟨rfl, _, _⟩ := takeBid_ok ht
  all_goals
    have hA2 : ASOOK b { takeBidT s (SellOrder.bid ‹SellOrder›) a offer with
        aliasSO := AMap.set (takeBidT s (SellOrder.bid ‹SellOrder›) a offer).aliasSO l
          { ‹SellOrder› with bid := some ⟨a, offer, dst⟩ } } := by
      refine asook_step hA (fun l' so' hm => ?_) (fun l' so' hm => by simp) (fun c r hr => ⟨r, by simpa using hr, fun _ => rfl⟩)
      simp only [takeBidT_aliasSO, AMap.get_set] at hm
      split at hm
      · rename_i hl; subst hl
        injection hm with hm; subst hm
        exact ⟨_, hso, rfl⟩
      · exact ⟨so', hm, rfl⟩
  · exact completeAliasSO_asook hA2 h
  · injection h with h; subst h; exact hA2

theorem registerAliasFor_asook {b : Bool} {s s' : State} {c a l cost} (hA : ASOOK b s)
    (h : registerAliasFor s c a l cost = .ok s') : ASOOK b s' := by
  unfold registerAliasFor at h
  mcases' h
  rename (payAndBurn s a cost = Except.ok _) => hp
  obtain ⟨rfl, _⟩ := payAndBurn_ok hp
  rename (setAlias _ c l = Except.ok _) => hs
  obtain ⟨_, hnone, rfl⟩ := setAlias_ok hs
  injection h with h; subst h
  refine asook_alSameBut (l := l) hA (alSameBut_setAliasT _ c l) (fun l' so hm => ?_)
  have hm' : AMap.get s.aliasSO l' = some so := hm
  refine ⟨fun e => ?_, so, hm', rfl⟩
  subst e
  obtain ⟨src, r, h1, _, _⟩ := hA l' so hm'
  have : AMap.get s.al.aliasTo l' = none := hnone
  rw [h1] at this; cases this

theorem createRollapp_asook {b : Bool} {s s' : State} {a c hp l} (hA : ASOOK b s)
    (h : createRollapp s a c hp l = .ok s') : ASOOK b s' := by
  unfold createRollapp at h
  mcases' h
  rename (isRollapp s c = false) => hnew
  refine registerAliasFor_asook (s := { s with al := { s.al with rollapps := AMap.set s.al.rollapps c ⟨a, hp⟩ } }) ?_ h
  refine asook_step hA (fun l' so hm => ⟨so, hm, rfl⟩) (fun l' so hm => rfl) (fun c' r hr => ⟨r, ?_, fun _ => rfl⟩)
  have hne : c' ≠ c := by
    intro e; subst e
    simp [isRollapp, hr] at hnew
  simp [AMap.get_set, hne, hr]

theorem registerAlias_asook {b : Bool} {s s' : State} {a c l pay} (hA : ASOOK b s)
    (h : registerAlias s a c l pay = .ok s') : ASOOK b s' := by
  unfold registerAlias at h
  mcases' h
  exact registerAliasFor_asook hA h

theorem acceptBO_asook {b : Bool} {s s' : State} {a pfx id m} (hA : ASOOK b s)
    (h : acceptBO s a pfx id m = .ok s') : ASOOK b s' := by
  unfold acceptBO at h
  mcases' h
  · rename (BuyOrder) => bo
    unfold acceptAliasBO at h
    mcases' h
    · rename (fromModule s _ _ = Except.ok _) => hf
      obtain ⟨rfl, _⟩ := fromModule_ok hf
      rename (s.aliasSO.get bo.asset = none) => hnone
      unfold moveAlias at h
      simp only [bind, Except.bind, pure, Except.pure] at h
      split at h
      · cases h
      · rename_i al' hm
        injection h with h; subst h
        have hsb := alSameBut_moveAlias hm
        refine asook_alSameBut (l := bo.asset) hA hsb (fun l' so hso => ?_)
        have hso' : AMap.get s.aliasSO l' = some so := hso
        refine ⟨fun e => ?_, so, hso', rfl⟩
        subst e
        rw [hnone] at hso'; cases hso'
    · injection h with h; subst h
      exact asook_congr rfl hA
  · rename (BuyOrder) => bo
    unfold acceptNameBO at h
    mcases' h
    · rename (fromModule s _ _ = Except.ok _) => hf
      obtain ⟨rfl, _⟩ := fromModule_ok hf
      obtain ⟨rfl, _⟩ := transferOwnership_ok h
      exact asook_congr (alPart_transferOwnershipT _ _ _ _) (asook_congr (s := s) rfl hA)
    · injection h with h; subst h
      exact asook_congr rfl hA

/-- a RollApp ownership transfer keeps every order attached (the non-strict reading) -/
theorem transferRollapp_asook {s s' : State} {a c b} (hA : ASOOK false s)
    (h : transferRollapp s a c b = .ok s') : ASOOK false s' := by
  obtain ⟨r, hr, _, _, rfl⟩ := transferRollapp_ok h
  refine asook_step hA (fun l' so hm => ⟨so, hm, rfl⟩) (fun l' so hm => rfl) (fun c' r' hr' => ?_)
  by_cases hc : c' = c
  · subst hc
    exact ⟨{ r with owner := b }, by simp [transferRollappT], fun e => by cases e⟩
  · exact ⟨r', by simp [transferRollappT, AMap.get_set, hc, hr'], fun _ => rfl⟩

theorem exec_asook {b : Bool} {s s' : State} {op : Op} (hA : ASOOK b s)
    (hop : b = true → ∀ x c y, op ≠ .transferRollapp x c y) (h : exec s op = .ok s') : ASOOK b s' := by
  cases op
  case createRollapp => exact createRollapp_asook hA h
  case registerAlias => exact registerAlias_asook hA h
  case sellAlias => exact placeAliasSO_asook hA h
  case cancelSellAlias => exact cancelAliasSO_asook hA h
  case completeAlias => exact completeAliasSOMsg_asook hA h
  case buyAlias => exact purchaseAlias_asook hA h
  case acceptOffer => exact acceptBO_asook hA h
  case transferRollapp x c y =>
    cases b
    · exact transferRollapp_asook hA h
    · exact absurd rfl (hop rfl x c y)
  all_goals exact asook_congr (exec_al_frame h trivial) hA

theorem run_asook {b : Bool} {s : State} (ops : List Op) (hA : ASOOK b s)
    (hops : b = true → ∀ op ∈ ops, ∀ x c y, op ≠ .transferRollapp x c y) : ASOOK b (run s ops) := by
  induction ops generalizing s with
  | nil => exact hA
  | cons op ops ih =>
    have hA' : ASOOK b (step s op) := by
      unfold step
      cases h : exec s op with
      | ok s' => exact exec_asook hA (fun hb => hops hb op (by simp)) h
      | error e => exact hA
    exact ih hA' (fun hb o ho => hops hb o (List.mem_cons_of_mem _ ho))

end DymVerif.DymNS
