/-
  Lemmas/IroSteps — what a successful message of M-IRO did (one characterisation lemma per op).
-/
import DymVerif.Lemmas.IroArith
namespace DymVerif.Iro
open DymVerif

/-- split the next `if … then .error e else …` of hypothesis `h`, closing the error branch -/
macro "split_err" h:ident : tactic => `(tactic| (split at $h:ident; · cases $h:ident))

theorem tradeable_ok {st : State} {a : Nat} {p : Plan} (h : tradeable st a = .ok p) :
    st.plan = some p ∧ p.settled = false ∧ (a = st.owner ∨ (p.enabled = true ∧ p.startTime ≤ st.now)) := by
  unfold tradeable at h
  split at h
  · cases h
  · rename_i q hq
    split at h
    · cases h
    · split at h
      · cases h; simp_all
      · split at h
        · cases h
        · split at h
          · cases h
          · cases h
            refine ⟨hq, by simp_all, Or.inr ⟨by simp_all, by omega⟩⟩

theorem doBuy_ok {I : Int → Int} {st st' : State} {a : Nat} {amt mc : Int} (h : doBuy I st a amt mc = .ok st') :
    ∃ p tot fee l1, tradeable st a = .ok p ∧ 0 < amt ∧ p.sold + amt ≤ p.maxSell ∧
      applyTakerFee (cost I p.L p.sold (p.sold + amt)) st.cfg.takerFee true = some (tot, fee) ∧
      chargeFee st a fee = .ok l1 ∧ cost I p.L p.sold (p.sold + amt) ≤ l1 a ∧ amt ≤ st.modIro ∧
      st' = { st with liq := upd l1 a (l1 a - cost I p.L p.sold (p.sold + amt)),
                      planLiq := st.planLiq + cost I p.L p.sold (p.sold + amt), modIro := st.modIro - amt,
                      iro := upd st.iro a (st.iro a + amt), plan := some { p with sold := p.sold + amt },
                      trades := st.trades + 1 } := by
  unfold doBuy at h
  split at h
  · cases h
  · split at h
    · cases h
    · rename_i p hp
      split at h
      · cases h
      · split at h
        · cases h
        · rename_i tot fee hf
          split at h
          · cases h
          · split at h
            · cases h
            · rename_i l1 hl
              simp only [] at h
              split at h
              · cases h
              · split at h
                · cases h
                · cases h
                  exact ⟨p, tot, fee, l1, hp, by omega, by omega, hf, hl, by omega, by omega, rfl⟩

theorem chargeFee_ok {st : State} {a : Nat} {fee : Int} {l : Nat → Int} (h : chargeFee st a fee = .ok l) :
    fee ≤ st.liq a ∧
    ((st.cfg.feeBase = false ∧ l = upd st.liq a (st.liq a - fee)) ∨
     (st.cfg.feeBase = true ∧ 0 < fee.tdiv 2 ∧
        l = upd (upd st.liq a (st.liq a - fee)) st.owner (upd st.liq a (st.liq a - fee) st.owner + fee.tdiv 2))) := by
  unfold chargeFee at h
  split at h
  · cases h
  · simp only [] at h
    split at h
    · rename_i hb
      split at h
      · cases h
      · cases h
        exact ⟨by omega, Or.inr ⟨hb, by omega, rfl⟩⟩
    · rename_i hb
      cases h
      exact ⟨by omega, Or.inl ⟨by simpa using hb, rfl⟩⟩

/-- whoever pays a positive fee ends up with at least one unit less (the owner gets at most half back) -/
theorem chargeFee_self {st : State} {a : Nat} {fee : Int} {l : Nat → Int} (h : chargeFee st a fee = .ok l)
    (hf : 0 < fee) : l a ≤ st.liq a - 1 ∧ st.liq a - fee ≤ l a := by
  obtain ⟨_, h1 | ⟨_, hh, h1⟩⟩ := chargeFee_ok h
  · obtain ⟨_, h1⟩ := h1
    subst h1; simp [upd]; omega
  · subst h1
    have : fee.tdiv 2 = fee / 2 := Int.tdiv_eq_ediv_of_nonneg (by omega)
    by_cases ha : a = st.owner
    · subst ha; simp [upd]; omega
    · simp [upd, ha]; omega

theorem doBes_ok {T : Int → Int → Option Int} {st st' : State} {a : Nat} {spend mt : Int}
    (h : doBes T st a spend mt = .ok st') :
    ∃ p net fee tokens l1, tradeable st a = .ok p ∧ 0 < mt ∧
      applyTakerFee spend st.cfg.takerFee false = some (net, fee) ∧
      tokensForExactIn T p.L p.sold net = some tokens ∧ mt ≤ tokens ∧ p.sold + tokens ≤ p.maxSell ∧
      chargeFee st a fee = .ok l1 ∧ net ≤ l1 a ∧ tokens ≤ st.modIro ∧
      st' = { st with liq := upd l1 a (l1 a - net), planLiq := st.planLiq + net, modIro := st.modIro - tokens,
                      iro := upd st.iro a (st.iro a + tokens), plan := some { p with sold := p.sold + tokens },
                      trades := st.trades + 1 } := by
  unfold doBes at h
  split at h
  · cases h
  · split at h
    · cases h
    · rename_i p hp
      split at h
      · cases h
      · rename_i net fee hf
        split at h
        · cases h
        · rename_i tokens ht
          split at h
          · cases h
          · split at h
            · cases h
            · split at h
              · cases h
              · rename_i l1 hl
                split at h
                · cases h
                · split at h
                  · cases h
                  · cases h
                    exact ⟨p, net, fee, tokens, l1, hp, by omega, hf, ht, by omega, by omega, hl, by omega, by omega, rfl⟩

theorem doSell_ok {I : Int → Int} {st st' : State} {a : Nat} {amt mi : Int} (h : doSell I st a amt mi = .ok st') :
    ∃ p net fee l1, tradeable st a = .ok p ∧ 0 < amt ∧
      applyTakerFee (cost I p.L (p.sold - amt) p.sold) st.cfg.takerFee false = some (net, fee) ∧
      amt ≤ st.iro a ∧ cost I p.L (p.sold - amt) p.sold ≤ st.planLiq ∧
      chargeFee { st with iro := upd st.iro a (st.iro a - amt), modIro := st.modIro + amt,
                          planLiq := st.planLiq - cost I p.L (p.sold - amt) p.sold,
                          liq := upd st.liq a (st.liq a + cost I p.L (p.sold - amt) p.sold),
                          plan := some { p with sold := p.sold - amt }, trades := st.trades + 1 } a fee = .ok l1 ∧
      st' = { st with iro := upd st.iro a (st.iro a - amt), modIro := st.modIro + amt,
                      planLiq := st.planLiq - cost I p.L (p.sold - amt) p.sold,
                      liq := l1,
                      plan := some { p with sold := p.sold - amt }, trades := st.trades + 1 } := by
  unfold doSell at h
  split at h
  · cases h
  · split at h
    · cases h
    · rename_i p hp
      split at h
      · cases h
      · rename_i net fee hf
        simp only [] at h
        split at h
        · cases h
        · split at h
          · cases h
          · split at h
            · cases h
            · split at h
              · cases h
              · rename_i l1 hl
                cases h
                exact ⟨p, net, fee, l1, hp, by omega, hf, by omega, by omega, hl, rfl⟩

theorem doCreate_ok {I : Int → Int} {st st' : State} {alloc m n c : Int} {L : Nat} {en : Bool} {stt pd : Int}
    {lp : Dec} {vd vs : Int} (h : doCreate I st alloc m n c L en stt pd lp vd vs = .ok st') :
    createOk I st alloc m n c L en stt pd lp vd vs ∧
    st' = { st with
      plan := some { L := L, alloc := alloc, maxSell := findEquilibrium m n alloc lp, sold := st.cfg.creationFee,
                     claimed := st.cfg.creationFee, enabled := en, startTime := planStart en stt st.now,
                     preLaunch := planPre en (planStart en stt st.now) pd,
                     planDur := pd, liqPart := lp, settled := false, vest := { dur := vd, startAfter := vs } },
      modIro := st.modIro + alloc, liq := upd st.liq st.owner (st.liq st.owner - cost I L 0 st.cfg.creationFee),
      planLiq := st.planLiq + cost I L 0 st.cfg.creationFee } := by
  unfold doCreate at h
  split at h
  · rename_i hc; cases h; exact ⟨hc, rfl⟩
  · cases h

theorem doEnable_ok {st st' : State} {a : Nat} (h : doEnable st a = .ok st') :
    ∃ p, st.plan = some p ∧ p.enabled = false ∧ a = st.owner ∧ p.settled = false ∧
      st' = { st with plan := some { p with enabled := true, startTime := st.now, preLaunch := st.now + p.planDur } } := by
  unfold doEnable at h
  split at h
  · cases h
  · rename_i p hp
    split at h
    · cases h
    · split at h
      · cases h
      · split at h
        · cases h
        · cases h
          exact ⟨p, hp, by simp_all, by simp_all, by simp_all, rfl⟩

theorem doSettle_ok {st st' : State} {rf : Int} {ok : Bool} (h : doSettle st rf ok = .ok st') :
    (st.plan = none ∧ st' = { st with modRa := st.modRa + rf }) ∨
    ∃ p, st.plan = some p ∧ p.settled = false ∧ st.modRa + rf = p.alloc ∧
      st' = { st with
        plan := some { p with settled := true,
                              vest := { p.vest with amount := st.planLiq - ((Dec.ofInt st.planLiq).mul p.liqPart).truncateInt,
                                                    start := st.now + p.vest.startAfter,
                                                    stop := st.now + p.vest.startAfter + p.vest.dur } },
        modIro := 0, planLiq := st.planLiq - ((Dec.ofInt st.planLiq).mul p.liqPart).truncateInt,
        modRa := st.modRa + rf - (p.alloc - (p.sold - p.claimed)) } := by
  unfold doSettle at h
  split at h
  · rename_i hp; cases h; exact Or.inl ⟨hp, rfl⟩
  · rename_i p hp
    split at h
    · cases h
    · split at h
      · cases h
      · simp only [] at h
        split at h
        · cases h
        · cases h
          exact Or.inr ⟨p, hp, by simp_all, by omega, rfl⟩

theorem doClaim_ok {st st' : State} {a : Nat} (h : doClaim st a = .ok st') :
    ∃ p, st.plan = some p ∧ p.settled = true ∧ st.iro a ≠ 0 ∧ st.iro a ≤ st.modRa ∧
      st' = { st with iro := upd st.iro a 0, modRa := st.modRa - st.iro a, ra := upd st.ra a (st.ra a + st.iro a),
                      plan := some { p with claimed := p.claimed + st.iro a } } := by
  unfold doClaim at h
  split at h
  · cases h
  · rename_i p hp
    split at h
    · cases h
    · simp only [] at h
      split at h
      · cases h
      · split at h
        · cases h
        · cases h
          exact ⟨p, hp, by simp_all, by omega, by omega, rfl⟩

theorem doClaimVested_ok {st st' : State} {a : Nat} (h : doClaimVested st a = .ok st') :
    ∃ p amt, st.plan = some p ∧ p.settled = true ∧ a = st.owner ∧ vestedAmt p.vest st.now = some amt ∧ 0 < amt ∧
      amt ≤ st.planLiq ∧
      st' = { st with planLiq := st.planLiq - amt, liq := upd st.liq a (st.liq a + amt),
                      plan := some { p with vest := { p.vest with claimed := p.vest.claimed + amt } } } := by
  unfold doClaimVested at h
  split at h
  · cases h
  · rename_i p hp
    split at h
    · cases h
    · split at h
      · cases h
      · split at h
        · cases h
        · rename_i amt ha
          split at h
          · cases h
          · split at h
            · cases h
            · split at h
              · cases h
              · cases h
                exact ⟨p, amt, hp, by simp_all, by omega, ha, by omega, by omega, rfl⟩

theorem doXfer_ok {st st' : State} {a b : Nat} {amt : Int} (h : doXfer st a b amt = .ok st') :
    0 < amt ∧ amt ≤ st.iro a ∧
      st' = { st with iro := upd (upd st.iro a (st.iro a - amt)) b (upd st.iro a (st.iro a - amt) b + amt) } := by
  unfold doXfer at h
  split at h
  · cases h
  · split at h
    · cases h
    · cases h
      exact ⟨by omega, by omega, rfl⟩

theorem doChown_ok {st st' : State} {a b : Nat} (h : doChown st a b = .ok st') :
    a = st.owner ∧ b ≠ st.owner ∧ st' = { st with owner := b } := by
  unfold doChown at h
  split at h
  · cases h
  · split at h
    · cases h
    · cases h
      exact ⟨by omega, by omega, rfl⟩

/-- a failed message leaves the state untouched -/
theorem step_err {I : Int → Int} {T : Int → Int → Option Int} {st : State} {op : Op}
    (h : (step I T st op).2 ≠ .ok) : (step I T st op).1 = st := by
  unfold step at h ⊢
  by_cases h0 : (!opActorsOk st.cfg.n op) = true
  · simp [h0]
  · simp only [h0] at h ⊢
    cases hx : exec I T st op with
    | ok s => simp [hx] at h
    | error e => simp

/-- every step either is the identity or succeeds through `exec` -/
theorem step_cases (I : Int → Int) (T : Int → Int → Option Int) (st : State) (op : Op) :
    ((step I T st op).1 = st) ∨ (opActorsOk st.cfg.n op = true ∧ exec I T st op = .ok (step I T st op).1) := by
  unfold step
  by_cases h0 : (!opActorsOk st.cfg.n op) = true
  · simp [h0]
  · simp only [h0]
    cases hx : exec I T st op with
    | ok s => exact Or.inr ⟨by simpa using h0, by simp⟩
    | error e => simp

theorem step_of_exec_ok {I : Int → Int} {T : Int → Int → Option Int} {st s : State} {op : Op}
    (h0 : opActorsOk st.cfg.n op = true) (h : exec I T st op = .ok s) : step I T st op = (s, .ok) := by
  unfold step; simp [h0, h]

theorem step_of_exec_err {I : Int → Int} {T : Int → Int → Option Int} {st : State} {e : Err} {op : Op}
    (h : exec I T st op = .error e) : (step I T st op).1 = st ∧ ((step I T st op).2 = e ∨ (step I T st op).2 = .invalid) := by
  unfold step
  by_cases h0 : (!opActorsOk st.cfg.n op) = true
  · simp [h0]
  · simp [h0, h]

end DymVerif.Iro
