/-
  Lemmas/CoreXEndSlash — which sequencer records a block end can rewrite (helpers of Props/C06X
  `end_decrease_is_liveness_slash`): only the record of the proposer of a rollapp whose liveness
  event is due at the current height, and that record by exactly one `slashOnce`.
-/
import DymVerif.Lemmas.CoreLevOwn
namespace DymVerif.Core.LevNs.XEnd

/-- `a` is the proposer of no rollapp -/
def NoProp (s : St) (a : Addr) : Prop := ∀ id r, getRa s id = some r → r.proposer ≠ some a

theorem NoProp.uniq {s : St} {a : Addr} (h : NoProp s a) (ra : Nat) : Uniq s a ra :=
  fun id r hg hp => absurd hp (h id r hg)

theorem handleLivenessEvent_noProp {s : St} {a : Addr} {ra : Nat} (h : NoProp s a) :
    NoProp (handleLivenessEvent s ra) a := by
  intro id r hg hp
  have := handleLivenessEvent_proposer s ra id
  rw [hg] at this
  cases hg0 : getRa s id with
  | none => rw [hg0] at this; cases this
  | some r0 =>
    rw [hg0] at this
    have hp0 : r0.proposer = some a := by
      have : some r.proposer = some r0.proposer := this
      injection this with this; rw [← this]; exact hp
    exact h id r0 hg0 hp0

/-- a liveness event (of whatever rollapp) leaves the record of a sequencer that proposes for no
    rollapp exactly as it was -/
theorem handleLivenessEvent_getSeq_nonproposer {s : St} {a : Addr} (h : NoProp s a) (ra : Nat) :
    getSeq (handleLivenessEvent s ra) a = getSeq s a :=
  (handleLivenessEvent_other (ra := ra + 1) (ra' := ra) (h.uniq (ra + 1)) (by omega)).2

/-- … and so does the whole `CheckLiveness` of a block end -/
theorem checkLiveness_getSeq_nonproposer {s : St} {a : Addr} (h : NoProp s a) :
    getSeq (checkLiveness s) a = getSeq s a := by
  unfold checkLiveness
  have := foldl_inv (fun x : St => NoProp x a ∧ getSeq x a = getSeq s a)
    (fun acc (e : Nat × Nat) => handleLivenessEvent acc e.2) (s.lev.filter (fun e => e.1 == s.h)) s ⟨h, rfl⟩
    (fun b e hb => ⟨handleLivenessEvent_noProp hb.1, by
      rw [handleLivenessEvent_getSeq_nonproposer hb.1]; exact hb.2⟩)
  exact this.2

theorem NoProp.frame {s s' : St} {a : Addr} (h : NoProp s a) (f : LFrame s s') : NoProp s' a := by
  intro id r hg hp
  have := f.ra id
  rw [hg] at this
  cases hg0 : getRa s id with
  | none => rw [hg0] at this; cases this
  | some r0 =>
    rw [hg0] at this
    have hl : liv r = liv r0 := by
      have : some (liv r) = some (liv r0) := this
      injection this
    have hp0 : r0.proposer = some a := by
      have : r.proposer = r0.proposer := congrArg (fun x => x.2.2) hl
      rw [← this]; exact hp
    exact h id r0 hg0 hp0

/-- a block end leaves the record of a sequencer that proposes for no rollapp exactly as it was
    (finalization does not touch sequencer records, and no liveness slash concerns it) -/
theorem endBlock_getSeq_nonproposer {s : St} {a : Addr} (h : NoProp s a) (f : List (Nat × Nat)) :
    getSeq (endBlock s f) a = getSeq s a := by
  obtain ⟨ff, _⟩ := finalizeRollappStates_frame s f
  unfold endBlock
  rw [checkLiveness_getSeq_nonproposer (h.frame ff), ff.getSeq]

/-- **the records a block end rewrites**: in a state with the event/record agreement (`Lev`), backed
    bonds (`Cust`), role ownership (`OwnN`) and a positive height, a sequencer record that differs
    after `endBlock` belongs to the proposer of a rollapp whose liveness event is due now, and the
    new record is the old one after exactly one liveness slash -/
theorem endBlock_changed_record {s : St} {f : List (Nat × Nat)} {a : Addr} {q q' : Seq}
    (hl : Lev s) (hc : Cust s) (ho : OwnN s) (hpos : 1 ≤ s.h)
    (hq : getSeq s a = some q) (hq' : getSeq (endBlock s f) a = some q') (hne : q' ≠ q) :
    ∃ ra r, getRa s ra = some r ∧ r.proposer = some a ∧ r.evH = s.h ∧ q' = slashOnce s.sqp q := by
  by_cases hp : ∃ ra r, getRa s ra = some r ∧ r.proposer = some a
  · obtain ⟨ra, r, hg, hpa⟩ := hp
    have hu : Uniq s a ra := ho.uniq hg hpa
    by_cases hev : r.evH = s.h
    · have hm : (s.h, ra) ∈ s.lev := (due_iff hl hpos hg).2 hev
      have := (endBlock_due (f := f) hl hc hg hm).2 a q hu hpa hq
      rw [hq'] at this
      injection this with this
      exact ⟨ra, r, hg, hpa, hev, this⟩
    · exfalso
      have := (endBlock_not_due (f := f) hl hg hev).2 a hu
      rw [hq, hq'] at this
      injection this with this
      exact hne this
  · exfalso
    have hn : NoProp s a := fun id r hg hpa => hp ⟨id, r, hg, hpa⟩
    have := endBlock_getSeq_nonproposer hn f
    rw [hq, hq'] at this
    injection this with this
    exact hne this

end DymVerif.Core.LevNs.XEnd
