import DymVerif.Lemmas.PacketsIndex
import DymVerif.Lemmas.PacketsOnceOps
import DymVerif.Lemmas.GenesisLinkLC
/-
  Lemmas/GenesisLinkDa — x/delayedack: C18's store invariant `DaInv` PROVED for the projection
  `toDaState` of every M-Packets state satisfying the package's own invariants (`Inv04`: keys without
  duplicates; `IdxInv`: the pending-by-address index is exact, every stored packet has a real type),
  hence for every reachable state (`inv_run`, `idx_run`).
-/
namespace DymVerif.GenesisLink
open DymVerif DymVerif.Genesis

/-! ### more about `firstsBy` -/

section firsts
variable {α κ : Type} [DecidableEq κ]

theorem firstsBy_sub (key : α → κ) : ∀ (l : List α) (x : α), x ∈ firstsBy key l → x ∈ l
  | [], _, h => by cases h
  | a :: l, x, h => by
    simp only [firstsBy, List.mem_cons, List.mem_filter] at h
    rcases h with rfl | ⟨h, _⟩
    · exact List.mem_cons_self
    · exact List.mem_cons_of_mem _ (firstsBy_sub key l x h)

/-- every key of the list is represented -/
theorem firstsBy_key (key : α → κ) : ∀ (l : List α) (x : α), x ∈ l → ∃ y ∈ firstsBy key l, key y = key x
  | [], _, h => by cases h
  | a :: l, x, h => by
    by_cases hk : key x = key a
    · exact ⟨a, by simp [firstsBy], hk.symm⟩
    · rcases List.mem_cons.1 h with rfl | h
      · exact absurd rfl hk
      · obtain ⟨y, hy, e⟩ := firstsBy_key key l x h
        refine ⟨y, ?_, e⟩
        simp only [firstsBy, List.mem_cons, List.mem_filter, decide_eq_true_eq]
        exact Or.inr ⟨hy, by rw [e]; exact hk⟩

end firsts

/-! ### the projection -/

/-- an M-Packets packet as a packet of C18's genesis model: the hub address of the transfer data
    (`target`) is the receiver of an ON_RECV packet and the sender of an ON_ACK / ON_TIMEOUT packet -/
def toDPacket (p : Packets.Packet) : DPacket :=
  { status := p.status, rollappId := p.rollappId, proofHeight := p.proofHeight, ptype := p.ptype,
    srcChan := p.srcChan, seq := p.seq,
    receiver := if p.ptype = .onRecv then [p.target] else [],
    sender := if p.ptype = .onRecv then [] else [p.target],
    body := 0 }

theorem toDPacket_key (p : Packets.Packet) : (toDPacket p).key = Packets.pkey p := rfl

theorem toDPacket_addr (p : Packets.Packet) (h : p.ptype ≠ .undefined) :
    daIndexAddr (toDPacket p).ptype (toDPacket p).receiver (toDPacket p).sender = some [p.target] := by
  unfold toDPacket
  cases hp : p.ptype <;> simp [daIndexAddr]
  exact h hp

def addrKeyOf (e : Packets.Addr × Bytes) : Bytes × Bytes := ([e.1], e.2)

/-- M-Packets' delayedack sections as C18's `DaState` -/
def toDaState (params : Nat) (s : Packets.St) : DaState :=
  { params := params,
    packets := importWith lexLt Packets.pkey toDPacket s.packets,
    byAddr := importWith ltBB addrKeyOf (fun _ => ()) (firstsBy addrKeyOf s.byAddr) }

theorem keys_nodup_of {l : List Packets.Packet} (h : Packets.KeysNodup l) : (l.map Packets.pkey).Nodup := by
  unfold Packets.KeysNodup at h
  exact List.pairwise_map.2 h

theorem mem_toDa_packets (params : Nat) {s : Packets.St} (hk : Packets.KeysNodup s.packets) (x : Bytes × DPacket) :
    x ∈ (toDaState params s).packets ↔ ∃ p ∈ s.packets, x = (Packets.pkey p, toDPacket p) :=
  mem_importWith soBytes _ _ _ (keys_nodup_of hk) x

theorem mem_toDa_byAddr (params : Nat) (s : Packets.St) (e : (Bytes × Bytes) × Unit) :
    e ∈ (toDaState params s).byAddr ↔ ∃ x ∈ s.byAddr, e.1 = addrKeyOf x := by
  show e ∈ importWith ltBB addrKeyOf (fun _ => ()) (firstsBy addrKeyOf s.byAddr) ↔ _
  rw [mem_importWith (soPair soBytes soBytes) _ _ _ (firstsBy_nodup _ s.byAddr)]
  constructor
  · rintro ⟨x, hx, rfl⟩
    exact ⟨x, firstsBy_sub _ _ _ hx, rfl⟩
  · rintro ⟨x, hx, he⟩
    obtain ⟨y, hy, hyx⟩ := firstsBy_key addrKeyOf s.byAddr x hx
    exact ⟨y, hy, Prod.ext (by rw [he, hyx]) rfl⟩

/-- **`DaInv` from M-Packets' invariants** -/
theorem daInv_of_inv (params : Nat) {s : Packets.St} (h4 : Packets.Inv04 s) (hi : Packets.IdxInv s) :
    DaInv (toDaState params s) where
  sp := sorted_importWith soBytes _ _ _ (keys_nodup_of h4.keys)
  kp := by
    intro e he
    obtain ⟨p, _, rfl⟩ := (mem_toDa_packets params h4.keys e).1 he
    rfl
  sa := sorted_importWith (soPair soBytes soBytes) _ _ _ (firstsBy_nodup _ s.byAddr)
  idx := by
    intro e
    rw [mem_toDa_byAddr]
    constructor
    · rintro ⟨x, hx, he⟩
      obtain ⟨p, hp, hkey, hst, htg⟩ := hi.bwd x hx
      refine ⟨(Packets.pkey p, toDPacket p), (mem_toDa_packets params h4.keys _).2 ⟨p, hp, rfl⟩, hst, ?_, ?_⟩
      · show daIndexAddr (toDPacket p).ptype (toDPacket p).receiver (toDPacket p).sender = some e.1.1
        rw [toDPacket_addr p (hi.pk p hp).2.2.2.2, he, htg]
        rfl
      · show e.1.2 = Packets.pkey p
        rw [he, hkey]
        rfl
    · rintro ⟨x, hx, hst, had, hk⟩
      obtain ⟨p, hp, rfl⟩ := (mem_toDa_packets params h4.keys x).1 hx
      have hst' : p.status = .pending := hst
      have had' : daIndexAddr (toDPacket p).ptype (toDPacket p).receiver (toDPacket p).sender = some e.1.1 := had
      rw [toDPacket_addr p (hi.pk p hp).2.2.2.2] at had'
      injection had' with had'
      refine ⟨(p.target, Packets.pkey p), hi.fwd p hp hst', ?_⟩
      exact Prod.ext had'.symm hk
  typed := by
    intro x hx _
    obtain ⟨p, hp, rfl⟩ := (mem_toDa_packets params h4.keys x).1 hx
    exact (hi.pk p hp).2.2.2.2

/-- … in every state reached from one satisfying the package invariants by ops with uint64 heights and
    sequences (what an IBC packet can carry) -/
theorem daInv_run (params : Nat) {s : Packets.St} (ops : List Packets.Op) (hb : ∀ o ∈ ops, Packets.BoundedOp o)
    (h4 : Packets.Inv04 s) (hi : Packets.IdxInv s) : DaInv (toDaState params (Packets.run s ops)) :=
  daInv_of_inv params (Packets.inv_run ops h4) (Packets.idx_run ops hb h4 hi)

end DymVerif.GenesisLink
