/-
  Lemmas/CoreChainInv — every transition of M-Core preserves "all rollapp chains are gap-free".
-/
import DymVerif.Lemmas.CoreChain
namespace DymVerif.Core

abbrev ChainAll (s : St) : Prop := RaAll ChainQ s

theorem ChainAll.ras_eq {s s' : St} (h : ChainAll s) (e : s'.ras = s.ras) : ChainAll s' :=
  RaAll.of_ras_eq h e

theorem ChainQ.of_states {r r' : Rollapp} (h : ChainQ r) (e : r'.states = r.states) : ChainQ r' := by
  unfold ChainQ at *; rw [e]; exact h

theorem indicateLiveness_chain {s : St} {r : Rollapp} (h : ChainAll s) (hr : ChainQ r) :
    ChainAll (indicateLiveness s r) := by
  unfold indicateLiveness resetClock scheduleEvent
  exact RaAll.setRa (RaAll.of_ras_eq h rfl) hr

theorem setLastNext_chain {l : List SInfo} (h : Chain l) (n : NextP) : Chain (setLastNext l n) := by
  unfold setLastNext
  split
  · exact h
  · rename_i x rest e
    apply h.congr
    have : l = (x :: rest).reverse := by rw [← e, List.reverse_reverse]
    rw [this]; simp

theorem afterSetRealProposer_chain {s : St} {ra : Nat} {a : Addr} (h : ChainAll s) :
    ChainAll (afterSetRealProposer s ra a) := by
  unfold afterSetRealProposer
  split
  · exact h
  · rename_i r hg
    have h1 := indicateLiveness_chain h (h.get hg)
    split
    · exact h1
    · rename_i r1 hg1
      exact RaAll.setRa h1 (setLastNext_chain (h1.get hg1) _)

theorem recoverFromSentinel_chain {s s' : St} {ra : Nat} (h : ChainAll s)
    (e : recoverFromSentinel s ra = .ok s') : ChainAll s' := by
  unfold recoverFromSentinel at e
  split at e
  · cases e
  · rename_i r hg
    split at e
    · cases e
    · split at e
      · cases e
      · injection e with e; subst e
        exact afterSetRealProposer_chain (RaAll.setRa h ((h.get hg).of_states rfl))

theorem setProposer_chain {s : St} {ra : Nat} {a : Option Addr} (h : ChainAll s) : ChainAll (setProposer s ra a) := by
  unfold setProposer
  split
  · exact h
  · rename_i r hg; exact RaAll.setRa h ((h.get hg).of_states rfl)

theorem setSuccessor_chain {s : St} {ra : Nat} {a : Option Addr} (h : ChainAll s) : ChainAll (setSuccessor s ra a) := by
  unfold setSuccessor
  split
  · exact h
  · rename_i r hg; exact RaAll.setRa h ((h.get hg).of_states rfl)

theorem removeFromNoticeQueue_ras (s : St) (q : Seq) : (removeFromNoticeQueue s q).ras = s.ras := by
  unfold removeFromNoticeQueue; split <;> rfl

theorem abruptRemoveProposer_chain {s : St} {ra : Nat} (h : ChainAll s) : ChainAll (abruptRemoveProposer s ra) := by
  unfold abruptRemoveProposer
  split
  · exact h
  · split
    · exact h
    · split
      · exact h
      · exact setProposer_chain (h.ras_eq (by simp [removeFromNoticeQueue_ras]))

theorem seqOnHardFork_chain {s : St} {ra : Nat} (h : ChainAll s) : ChainAll (seqOnHardFork s ra) := by
  unfold seqOnHardFork
  exact setSuccessor_chain (abruptRemoveProposer_chain (h.ras_eq rfl))

-- ---------------------------------------------------------------- binary search

/-- every index the search returns is in range and its state contains the height -/
theorem findByHeightAux_sound (l : List SInfo) (h fuel lo hi i : Nat)
    (e : findByHeightAux l h fuel lo hi = some i) : ∃ st, l[i - 1]? = some st ∧ st.contains h = true := by
  induction fuel generalizing lo hi with
  | zero => simp [findByHeightAux] at e
  | succ f ih =>
    unfold findByHeightAux at e
    split at e
    · dsimp only at e
      split at e
      · cases e
      · rename_i st hst
        split at e
        · injection e with e; subst e; exact ⟨st, hst, by assumption⟩
        · split at e
          · exact ih _ _ e
          · exact ih _ _ e
    · cases e

theorem findByHeight_sound (r : Rollapp) (h i : Nat) (e : findByHeight r h = some i) :
    ∃ st, r.states[i - 1]? = some st ∧ st.contains h = true := by
  unfold findByHeight at e
  split at e
  · cases e
  · split at e
    · cases e
    · split at e
      · cases e
      · exact findByHeightAux_sound _ _ _ _ _ _ e

-- ---------------------------------------------------------------- hard fork

theorem contains_iff (st : SInfo) (h : Nat) (hw : st.WF) :
    st.contains h = true ↔ st.start ≤ h ∧ h ≤ st.start + st.num - 1 := by
  unfold SInfo.contains SInfo.last
  have := hw.num_pos
  simp only [Bool.and_eq_true, decide_eq_true_eq]
  rw [if_pos (by omega)]

/-- the kept state of a fork plan is a (possibly truncated) element of the chain at position keep-1 -/
theorem revertPlan_shape {r : Rollapp} {n keep : Nat} {kst : SInfo} (hc : Chain r.states)
    (e : revertPlan r n = .ok (keep, kst)) :
    ∃ st, 1 ≤ keep ∧ r.states[keep - 1]? = some st ∧ kst.start = st.start ∧ 1 ≤ kst.num ∧ kst.num ≤ st.num ∧
      kst.bds = st.bds.take kst.num ∧ kst.creator = st.creator := by
  unfold revertPlan at e
  dsimp only at e
  split at e
  · cases e
  · rename_i i hfound
    -- i ≥ 1 and states[i-1] exists in both cases
    split at e
    · cases e
    · rename_i st hst
      have hwst := hc.wf st (List.mem_of_getElem? hst)
      have hi : 1 ≤ i := by
        split at hfound
        · rename_i j hj
          obtain ⟨st', hst', _⟩ := findByHeight_sound r n j hj
          split at hfound
          · split at hfound
            · cases hfound
            · injection hfound with hf; subst hf
              rcases Nat.eq_zero_or_pos j with h0 | h0
              · subst h0
                -- findByHeightAux never returns 0: lo starts at 1
                exfalso
                unfold findByHeight at hj
                split at hj
                · cases hj
                · split at hj
                  · cases hj
                  · split at hj
                    · cases hj
                    · have : ∀ fuel lo hi, 1 ≤ lo → findByHeightAux r.states n fuel lo hi ≠ some 0 := by
                        intro fuel
                        induction fuel with
                        | zero => intro lo hi _; simp [findByHeightAux]
                        | succ f ih =>
                          intro lo hi hlo
                          unfold findByHeightAux
                          split
                          · dsimp only
                            split
                            · simp
                            · split
                              · intro hx; injection hx with hx; omega
                              · split
                                · exact ih _ _ hlo
                                · exact ih _ _ (by omega)
                          · simp
                      exact this _ _ _ (by omega) hj
              · exact h0
          · cases hfound
        · split at hfound
          · cases hfound
          · rename_i hne
            injection hfound with hf; subst hf
            cases hl : r.states with
            | nil => simp [hl] at hne
            | cons a b => simp
      split at e
      · cases e
      · split at e
        · -- fork on the first height of state i: keep the previous state unchanged
          rename_i hs
          split at e
          · cases e
          · rename_i prev hprev
            injection e with e
            injection e with e1 e2
            subst e1; subst e2
            split at hprev
            · cases hprev
            · rename_i hi1
              have hwp := hc.wf prev (List.mem_of_getElem? hprev)
              refine ⟨prev, by omega, ?_, rfl, hwp.num_pos, Nat.le_refl _, ?_, rfl⟩
              · rw [show i - 1 - 1 = i - 2 by omega]; exact hprev
              · show prev.bds = prev.bds.take prev.num
                rw [← hwp.bds_len, List.take_length]
        · split at e
          · -- truncate state i
            rename_i hne hle
            injection e with e
            injection e with e1 e2
            subst e1; subst e2
            rename_i hnlt
            have hlast : st.last = st.start + st.num - 1 := by
              unfold SInfo.last; rw [if_pos (by have := hwst.num_pos; omega)]
            refine ⟨st, hi, hst, rfl, ?_, ?_, rfl, rfl⟩
            · show 1 ≤ n - st.start; omega
            · show n - st.start ≤ st.num; omega
          · injection e with e
            injection e with e1 e2
            subst e1; subst e2
            refine ⟨st, hi, hst, rfl, hwst.num_pos, Nat.le_refl _, ?_, rfl⟩
            show st.bds = st.bds.take st.num
            rw [← hwst.bds_len, List.take_length]

theorem forkedRollapp_chain {r : Rollapp} {n keep : Nat} {kst : SInfo} (hc : Chain r.states)
    (e : revertPlan r n = .ok (keep, kst)) : ChainQ (forkedRollapp r keep kst) := by
  obtain ⟨st, hk, hst, h1, h2, h3, h4, _⟩ := revertPlan_shape hc e
  exact hc.fork (keep - 1) st kst hst h1 ⟨h2, h3⟩ h4

theorem hardFork_chain {s s' : St} {ra lv : Nat} (h : ChainAll s) (e : hardFork s ra lv = .ok s') : ChainAll s' := by
  unfold hardFork at e
  split at e
  · cases e
  · rename_i r hg
    split at e
    · cases e
    · split at e
      · cases e
      · split at e
        · cases e
        · rename_i keep kst hplan
          dsimp only at e
          injection e with e; subst e
          apply seqOnHardFork_chain
          unfold resetClock
          exact RaAll.setRa (h.ras_eq rfl) (forkedRollapp_chain (h.get hg) hplan)

theorem hardForkToLatest_chain {s s' : St} {ra : Nat} (h : ChainAll s) (e : hardForkToLatest s ra = .ok s') : ChainAll s' := by
  unfold hardForkToLatest at e
  split at e
  · cases e
  · split at e
    · cases e
    · exact hardFork_chain h e

end DymVerif.Core
