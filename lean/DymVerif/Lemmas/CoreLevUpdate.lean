/-
  Lemmas/CoreLevUpdate — what an accepted `MsgUpdateState` does to the liveness clock of its rollapp
  and to the dishonor of its proposer.
-/
import DymVerif.Lemmas.CoreLevSched
namespace DymVerif.Core.LevNs

theorem getRa_setRa_same_id {s : St} {id : Nat} {r r' : Rollapp} (hg : getRa s id = some r) (hid : r'.id = id) :
    getRa (setRa s r') id = some r' := by
  subst hid; exact getRa_setRa_same hg

/-- record and event of the rollapp right after `IndicateLiveness` -/
theorem indicateLiveness_spec {s : St} {id : Nat} {r : Rollapp} (hg : getRa s id = some r) :
    getRa (indicateLiveness s r) id =
      some { r with evH := nextSlashHeight s.p.lsBlocks s.p.lsInterval s.h s.h, cdStart := s.h } ∧
    (nextSlashHeight s.p.lsBlocks s.p.lsInterval s.h s.h, id) ∈ (indicateLiveness s r).lev := by
  constructor
  · rw [getRa_congr (indicateLiveness_ras s r)]
    exact getRa_setRa_same_id hg (show r.id = id from getRa_id hg)
  · rw [indicateLiveness_lev, getRa_id hg]
    exact mem_insertSorted_self _ _

/-- every accepted update (last or not) restarts the countdown at the current height and schedules
    the one event of the rollapp at the next slash height -/
theorem updateState_clock {s s' : St} {m : UpdMsg} (e : updateState s m = .ok s') :
    ∃ r', getRa s' m.ra = some r' ∧ r'.cdStart = s.h ∧
      r'.evH = nextSlashHeight s.p.lsBlocks s.p.lsInterval s.h s.h ∧ (r'.evH, m.ra) ∈ s'.lev := by
  unfold updateState at e
  split at e
  · cases e
  · split at e
    · cases e
    · rename_i r hg
      split at e
      · cases e
      · split at e
        · cases e
        · split at e
          · cases e
          · split at e
            · cases e
            · split at e
              · cases e
              · split at e
                · cases e
                · rename_i s3 h3
                  dsimp only at e
                  split at e
                  · cases e
                  · rename_i r4 hg4
                    injection e with e; subst e
                    have h3' := seqAfterUpdate_cl (hp_closed s.h s.p)
                      (s := setRa s { r with states := r.states ++ [newSInfo s m (updSucc r m)] }) ⟨rfl, rfl⟩ h3
                    have sp := indicateLiveness_spec hg4
                    refine ⟨_, sp.1, ?_, ?_, ?_⟩
                    · exact h3'.1
                    · show nextSlashHeight s3.p.lsBlocks s3.p.lsInterval s3.h s3.h = _
                      rw [h3'.1, h3'.2]
                    · exact sp.2

/-- an accepted update that is not the proposer's last block: the rollapp record gets the new
    state, the clock is restarted, the proposer's dishonor drops by `min(DishonorStateUpdate, dishonor)` -/
theorem updateState_nonlast {s s' : St} {m : UpdMsg} {r : Rollapp} {q : Seq} (hr : getRa s m.ra = some r)
    (hq : getSeq s m.sender = some q) (hl : m.last = false) (e : updateState s m = .ok s') :
    getRa s' m.ra = some { r with states := r.states ++ [newSInfo s m (NextP.addr m.sender)],
                                  evH := nextSlashHeight s.p.lsBlocks s.p.lsInterval s.h s.h, cdStart := s.h } ∧
    getSeq s' m.sender = some { q with dishonor := q.dishonor - min s.sqp.dishonorSU q.dishonor } ∧
    (nextSlashHeight s.p.lsBlocks s.p.lsInterval s.h s.h, m.ra) ∈ s'.lev := by
  have hsucc : updSucc r m = NextP.addr m.sender := by unfold updSucc; rw [hl]; rfl
  have hb : (NextP.addr m.sender != NextP.addr m.sender) = false := by simp
  have hqX : ∀ r' : Rollapp, getSeq (setRa s r') m.sender = some q := fun _ => hq
  unfold updateState at e
  split at e
  · cases e
  · split at e
    · cases e
    · rename_i r0 hg
      rw [hr] at hg; injection hg with hg; subst hg
      split at e
      · cases e
      · split at e
        · cases e
        · split at e
          · cases e
          · split at e
            · cases e
            · split at e
              · cases e
              · split at e
                · cases e
                · rename_i s3 h3
                  rw [hsucc] at h3
                  rw [hb] at h3
                  unfold seqAfterUpdate at h3
                  rw [hqX] at h3
                  dsimp only at h3
                  simp only [Bool.false_eq_true, if_false] at h3
                  injection h3 with h3; subst h3
                  dsimp only at e
                  split at e
                  · cases e
                  · rename_i r4 hg4
                    injection e with e; subst e
                    have hg4' : getRa (setRa s { r with states := r.states ++ [newSInfo s m (NextP.addr m.sender)] }) m.ra = some r4 := hg4
                    rw [getRa_setRa_same_id (r' := { r with states := r.states ++ [newSInfo s m (NextP.addr m.sender)] }) hr
                      (show r.id = m.ra from getRa_id hr)] at hg4'
                    injection hg4' with hg4'; subst hg4'
                    have sp := indicateLiveness_spec hg4
                    refine ⟨sp.1, ?_, sp.2⟩
                    show getSeq (setSeq (setRa s _) { q with dishonor := q.dishonor - min s.sqp.dishonorSU q.dishonor }) m.sender = _
                    rw [← getSeq_addr hq]
                    exact getSeq_setSeq_same (q := { q with dishonor := q.dishonor - min s.sqp.dishonorSU q.dishonor }) (q0 := q)
                      (by show getSeq (setRa s _) q.addr = some q; rw [getSeq_addr hq]; exact hq)

/-- for `LivenessSlashBlocks ≥ 1` the first event is exactly `LivenessSlashBlocks` after the update … -/
theorem nextSlashHeight_fresh (N I h : Nat) (hN : 1 ≤ N) : nextSlashHeight N I h h = h + N :=
  nextSlashHeight_first N I h h (by omega) (Nat.le_refl _)

/-- … and in the degenerate case `LivenessSlashBlocks = 0` one interval after it -/
theorem nextSlashHeight_fresh_zero (I h : Nat) (hI : 1 ≤ I) : nextSlashHeight 0 I h h = h + I := by
  have := nextSlashHeight_step 0 I h 0 hI
  simpa using this

end DymVerif.Core.LevNs
