/-
  Lemmas/CoreXRev — the revision invariant of a rollapp record (`RevQ`) is `QClosed`, hence holds for
  every rollapp of every reachable state (`run_rev`).
-/
import DymVerif.Lemmas.CoreXProp
namespace DymVerif.Core.XW
open DymVerif.Core.LevNs

/-- start height of the latest revision (0 when there is none) -/
def lastRevStart (r : Rollapp) : Nat := (r.revs.getLast?.map (·.2)).getD 0

/-- revision invariant of one rollapp record:
    * `num`: the revision numbers are `0, 1, …, k` by position (and there is at least revision 0);
    * `top`: the latest revision starts at most one block above the latest recorded height;
    * `init`: before the first state update the only revision is `(0, 0)`;
    * `acc`: every recorded state was accepted under the revision its start height belongs to
      (`accRev` is the ghost field written by `newSInfo` from `MsgUpdateState.Revision`). -/
structure RevQ (r : Rollapp) : Prop where
  num : ∀ (i : Nat) (x : Nat × Nat), r.revs[i]? = some x → x.1 = i
  ne : r.revs ≠ []
  top : ∀ l, r.states.getLast? = some l → lastRevStart r ≤ l.start + l.num
  init : r.states = [] → r.revs = [(0, 0)]
  acc : ∀ st ∈ r.states, st.accRev = revForHeight r st.start

theorem revForHeight_congr {r r' : Rollapp} (h : r'.revs = r.revs) (y : Nat) : revForHeight r' y = revForHeight r y := by
  unfold revForHeight; rw [h]

theorem lastRevStart_congr {r r' : Rollapp} (h : r'.revs = r.revs) : lastRevStart r' = lastRevStart r := by
  unfold lastRevStart; rw [h]

theorem latestRev_eq {r : Rollapp} (h : RevQ r) : latestRev r + 1 = r.revs.length := by
  unfold latestRev
  have hne := h.ne
  have hlen : 0 < r.revs.length := List.length_pos_iff.2 hne
  rw [List.getLast?_eq_getElem?]
  cases hx : r.revs[r.revs.length - 1]? with
  | none => rw [List.getElem?_eq_none_iff] at hx; omega
  | some x =>
    have := h.num _ x hx
    simp only [Option.map_some, Option.getD_some]
    omega

/-- at or above the start of the latest revision, the revision of a height is the latest one -/
theorem revForHeight_latest {r : Rollapp} {y : Nat} (h : lastRevStart r ≤ y) : revForHeight r y = latestRev r := by
  cases hl : r.revs.getLast? with
  | none =>
    have : r.revs = [] := List.getLast?_eq_none_iff.1 hl
    unfold revForHeight latestRev; rw [this]; rfl
  | some x =>
    obtain ⟨ys, hys⟩ := List.getLast?_eq_some_iff.1 hl
    have h1 := Fork.revForHeight_append { r with revs := ys } r x hys y
    have h2 := Fork.latestRev_append { r with revs := ys } x r hys
    have hx : x.2 ≤ y := by
      unfold lastRevStart at h; rw [hl] at h; exact h
    rw [h1, if_pos hx, h2]

theorem mem_of_map_eq {α β} {f : α → β} {l l' : List α} (e : l'.map f = l.map f) {x : α} (hx : x ∈ l') :
    ∃ y ∈ l, f y = f x := by
  have : f x ∈ l'.map f := List.mem_map.2 ⟨x, hx, rfl⟩
  rw [e] at this
  obtain ⟨y, hy, hfy⟩ := List.mem_map.1 this
  exact ⟨y, hy, hfy⟩

theorem getLast?_of_map_eq {α β} {f : α → β} {l l' : List α} (e : l'.map f = l.map f) {x : α} (hx : l'.getLast? = some x) :
    ∃ y, l.getLast? = some y ∧ f y = f x := by
  have h1 : (l'.map f).getLast? = some (f x) := by rw [List.getLast?_map, hx]; rfl
  rw [e, List.getLast?_map] at h1
  cases hl : l.getLast? with
  | none => rw [hl] at h1; cases h1
  | some y => rw [hl] at h1; exact ⟨y, rfl, by simpa using h1⟩

theorem xKey_fields {a b : SInfo} (h : xKey a = xKey b) :
    a.creator = b.creator ∧ a.start = b.start ∧ a.num = b.num ∧ a.creationHeight = b.creationHeight ∧ a.bds = b.bds ∧
      a.accRev = b.accRev := by
  unfold xKey at h
  simp only [Prod.mk.injEq] at h
  exact h

/-- `RevQ` reads only the revisions and the `xKey` part of the states -/
theorem RevQ.of_view {r r' : Rollapp} (h : RevQ r) (hrev : r'.revs = r.revs)
    (hst : r'.states.map xKey = r.states.map xKey) : RevQ r' := by
  refine ⟨by rw [hrev]; exact h.num, by rw [hrev]; exact h.ne, ?_, ?_, ?_⟩
  · intro l hl
    obtain ⟨y, hy, hk⟩ := getLast?_of_map_eq hst hl
    have hf := xKey_fields hk
    rw [lastRevStart_congr hrev, ← hf.2.1, ← hf.2.2.1]
    exact h.top y hy
  · intro h0
    rw [hrev]
    apply h.init
    have : (r.states.map xKey).length = 0 := by rw [← hst, h0]; rfl
    rw [List.length_map] at this
    exact List.eq_nil_of_length_eq_zero this
  · intro st hs
    obtain ⟨y, hy, hk⟩ := mem_of_map_eq hst hs
    have hf := xKey_fields hk
    rw [revForHeight_congr hrev, ← hf.2.1, ← hf.2.2.2.2.2]
    exact h.acc y hy

theorem rev_closed : QClosed RevQ where
  fresh := by
    intro id o mb
    refine ⟨?_, by simp [newRollapp], ?_, fun _ => rfl, ?_⟩
    · intro i x hx
      have : i = 0 ∧ x = (0, 0) := by
        cases i with
        | zero => simp [newRollapp] at hx; exact ⟨rfl, hx.symm⟩
        | succ j => simp [newRollapp] at hx
      rw [this.1, this.2]
    · intro l hl; simp [newRollapp] at hl
    · intro st hs; simp [newRollapp] at hs
  view := by
    intro r r' h hv _
    obtain ⟨_, h2, h3, _, _⟩ := xv_fields hv
    exact h.of_view h2 h3
  clock := by
    intro r r' _ _ _ h _ _ h2 h3 _ _
    exact h.of_view h2 h3
  resched := by
    intro r _ _ _ h
    exact h.of_view rfl rfl
  append := by
    intro r s m n h hc _ hpre hrev
    have hstart := updPre_start hpre
    -- the latest revision starts at or below the update's start height
    have hle : lastRevStart r ≤ m.start := by
      cases hl : r.states.getLast? with
      | none =>
        have : r.states = [] := List.getLast?_eq_none_iff.1 hl
        unfold lastRevStart; rw [h.init this]; exact Nat.zero_le _
      | some l =>
        rw [hstart l hl]; exact h.top l hl
    refine ⟨h.num, h.ne, ?_, ?_, ?_⟩
    · intro l hl
      have : l = newSInfo s m n := by
        have h1 : (r.states ++ [newSInfo s m n]).getLast? = some l := hl
        rw [List.getLast?_append] at h1
        simpa using h1.symm
      subst this
      show lastRevStart r ≤ m.start + m.num
      omega
    · intro h0
      have : (r.states ++ [newSInfo s m n]) = [] := h0
      simp at this
    · intro st hs
      have hs' : st ∈ r.states ++ [newSInfo s m n] := hs
      rw [List.mem_append] at hs'
      show st.accRev = revForHeight r st.start
      rcases hs' with h1 | h1
      · exact h.acc st h1
      · have : st = newSInfo s m n := by simpa using h1
        subst this
        show m.rev = revForHeight r m.start
        rw [revForHeight_latest hle, hrev]
  fork := by
    intro r n keep hh kst h hc hplan _
    obtain ⟨st, l, ps⟩ := Fork.revertPlan_spec hc hplan
    have hks : kst.start = st.start := by rw [ps.kst_eq]
    have hka : kst.accRev = st.accRev := by rw [ps.kst_eq]
    have hkn : kst.num = kst.last + 1 - st.start := by
      have := congrArg SInfo.num ps.kst_eq
      exact this
    have hlo := ps.h_lo
    have hlen := latestRev_eq h
    refine ⟨?_, ?_, ?_, ?_, ?_⟩
    · intro i x hx
      have hx' : (r.revs ++ [(latestRev r + 1, kst.last + 1)])[i]? = some x := hx
      rcases Nat.lt_or_ge i r.revs.length with hi | hi
      · rw [List.getElem?_append_left hi] at hx'
        exact h.num i x hx'
      · rw [List.getElem?_append_right hi] at hx'
        cases hj : i - r.revs.length with
        | zero =>
          rw [hj] at hx'
          have : x = (latestRev r + 1, kst.last + 1) := by simpa using hx'.symm
          rw [this]; show latestRev r + 1 = i; omega
        | succ j => rw [hj] at hx'; simp at hx'
    · show r.revs ++ [(latestRev r + 1, kst.last + 1)] ≠ []
      simp
    · intro l' hl'
      have : kst = l' := by
        have h1 : (r.states.take (keep - 1) ++ [kst]).getLast? = some l' := hl'
        rw [List.getLast?_append] at h1
        simpa using h1
      subst this
      show lastRevStart _ ≤ _
      unfold lastRevStart
      show ((r.revs ++ [(latestRev r + 1, kst.last + 1)]).getLast?.map (·.2)).getD 0 ≤ kst.start + kst.num
      rw [List.getLast?_append]
      show kst.last + 1 ≤ kst.start + kst.num
      omega
    · intro h0
      have : (r.states.take (keep - 1) ++ [kst]) = [] := h0
      simp at this
    · intro x hx
      have hx' : x ∈ r.states.take (keep - 1) ++ [kst] := hx
      rw [Fork.revForHeight_append r _ (latestRev r + 1, kst.last + 1) rfl]
      show x.accRev = if kst.last + 1 ≤ x.start then latestRev r + 1 else revForHeight r x.start
      rw [List.mem_append] at hx'
      rcases hx' with h1 | h1
      · obtain ⟨j, hj⟩ := List.mem_iff_getElem?.1 h1
        rw [List.getElem?_take] at hj
        split at hj
        · rename_i hjk
          have := hc.mono' j (keep - 1) x st hjk hj ps.hst
          have hwx := (hc.wf x (List.mem_of_getElem? hj)).num_pos
          rw [if_neg (by omega)]
          exact h.acc x (List.mem_of_getElem? hj)
        · cases hj
      · have : x = kst := by simpa using h1
        subst this
        rw [if_neg (by omega), hka, hks]
        exact h.acc st (List.mem_of_getElem? ps.hst)

/-- **the revision invariant holds for every rollapp of every reachable state** -/
theorem run_rev (p : Params) (ops : List Op) (r : Rollapp) (hr : r ∈ (run p ops).ras) : RevQ r :=
  run_q rev_closed p ops r hr

end DymVerif.Core.XW
