/-
  Lemmas/IroInv — the bookkeeping invariant of M-IRO (token conservation between the module account,
  the holders and the plan's counters; bounds of `sold`; the plan account after settlement).
-/
import DymVerif.Lemmas.IroSteps
namespace DymVerif.Iro
open DymVerif

theorem sumTo_upd (n : Nat) (f : Nat → Int) (a : Nat) (v : Int) (h : a < n) :
    sumTo n (upd f a v) = sumTo n f - f a + v := by
  induction n with
  | zero => omega
  | succ k ih =>
    simp only [sumTo]
    by_cases hk : a = k
    · subst hk
      have : sumTo a (upd f a v) = sumTo a f := by
        clear ih h
        have : ∀ m, m ≤ a → sumTo m (upd f a v) = sumTo m f := by
          intro m hm
          induction m with
          | zero => rfl
          | succ j ihj =>
            simp only [sumTo]
            rw [ihj (by omega)]
            have : j ≠ a := by omega
            simp [upd, this]
        exact this a (Nat.le_refl a)
      rw [this]; simp [upd]
    · rw [ih (by omega)]
      have : k ≠ a := fun e => hk e.symm
      simp [upd, this]; omega

theorem sumTo_upd_ge (n : Nat) (f : Nat → Int) (a : Nat) (v : Int) (h : n ≤ a) :
    sumTo n (upd f a v) = sumTo n f := by
  induction n with
  | zero => rfl
  | succ k ih =>
    simp only [sumTo]
    rw [ih (by omega)]
    have : k ≠ a := by omega
    simp [upd, this]

theorem sumTo_zero (n : Nat) (f : Nat → Int) (h : ∀ j, f j = 0) : sumTo n f = 0 := by
  induction n with
  | zero => rfl
  | succ k ih => simp [sumTo, ih, h]

theorem sumTo_nonneg (n : Nat) (f : Nat → Int) (h : ∀ j, 0 ≤ f j) : 0 ≤ sumTo n f := by
  induction n with
  | zero => simp [sumTo]
  | succ k ih => simp only [sumTo]; have := h k; omega

theorem le_sumTo (n : Nat) (f : Nat → Int) (h : ∀ j, 0 ≤ f j) (a : Nat) (ha : a < n) : f a ≤ sumTo n f := by
  induction n with
  | zero => omega
  | succ k ih =>
    simp only [sumTo]
    by_cases hk : a = k
    · subst hk; have := sumTo_nonneg a f h; omega
    · have := ih (by omega); have := h k; omega

/-- the bookkeeping invariant -/
structure Inv (st : State) : Prop where
  iro_nonneg : ∀ j, 0 ≤ st.iro j
  none_ : st.plan = none → (∀ j, st.iro j = 0) ∧ st.modIro = 0 ∧ 0 ≤ st.planLiq
  all : ∀ p, st.plan = some p →
      0 < p.maxSell ∧ p.maxSell ≤ p.alloc ∧ 0 ≤ p.liqPart.raw ∧ p.liqPart.raw ≤ decP ∧
      0 ≤ p.vest.dur ∧ 0 ≤ p.vest.startAfter ∧
      p.sold ≤ p.maxSell ∧ p.claimed ≤ p.sold ∧ st.cfg.creationFee ≤ p.claimed ∧
      p.L = st.cfg.liqDec
  pre : ∀ p, st.plan = some p → p.settled = false →
      st.modIro + sumTo st.cfg.n st.iro = p.alloc ∧ sumTo st.cfg.n st.iro = p.sold - p.claimed ∧
      0 ≤ st.modIro ∧ p.claimed = st.cfg.creationFee ∧ 0 ≤ st.planLiq ∧ p.vest.claimed = 0
  post : ∀ p, st.plan = some p → p.settled = true →
      st.modIro = 0 ∧ st.modRa = sumTo st.cfg.n st.iro ∧ st.modRa = p.sold - p.claimed ∧
      st.planLiq = p.vest.amount - p.vest.claimed ∧ p.vest.stop = p.vest.start + p.vest.dur

theorem inv_init (cfg : Cfg) : Inv (init cfg) := by
  refine ⟨by simp [init], by simp [init], ?_, ?_, ?_⟩ <;> intro p hp <;> simp [init] at hp

theorem inv_step {I : Int → Int} {T : Int → Int → Option Int} {st : State} (op : Op)
    (hi : Inv st) : Inv (step I T st op).1 := by
  rcases step_cases I T st op with h | ⟨hact, h⟩
  · rw [h]; exact hi
  · generalize (step I T st op).1 = st' at h
    cases op with
    | create alloc m n c L en stt pd lp vd vs =>
      obtain ⟨hc, rfl⟩ := doCreate_ok h
      unfold createOk at hc
      obtain ⟨-, -, -, hl0, hl1, hvd, hvs, -, -, -, hn, -, hL, -, hm0, hm1, hfee, hcp, -⟩ := hc
      obtain ⟨hz, hmz, hpl⟩ := hi.none_ hn
      refine ⟨hi.iro_nonneg, by simp, ?_, ?_, ?_⟩
      · intro p hp
        simp only [Option.some.injEq] at hp
        subst hp
        exact ⟨hm0, hm1, hl0, hl1, hvd, hvs, hfee, Int.le_refl _, Int.le_refl _, hL⟩
      · intro p hp _
        simp only [Option.some.injEq] at hp
        subst hp
        have := sumTo_zero st.cfg.n st.iro hz
        simp only []
        refine ⟨by omega, by omega, by omega, trivial, by omega, trivial⟩
      · intro p hp hs
        simp only [Option.some.injEq] at hp
        subst hp
        simp at hs
    | time dt =>
      simp only [exec] at h
      split at h
      · cases h
      · cases h; exact ⟨hi.iro_nonneg, hi.none_, hi.all, hi.pre, hi.post⟩
    | fund a amt =>
      simp only [exec] at h
      split at h
      · cases h
      · cases h; exact ⟨hi.iro_nonneg, hi.none_, hi.all, hi.pre, hi.post⟩
    | buy a amt mc =>
      obtain ⟨p, tot, fee, l1, ht, hamt, hms, hf, _, _, hmi, rfl⟩ := doBuy_ok h
      obtain ⟨hp, hns, _⟩ := tradeable_ok ht
      have han : a < st.cfg.n := by simpa [opActorsOk] using hact
      obtain ⟨h1, h2, h3, h4, h5, h6⟩ := hi.pre p hp hns
      obtain ⟨a1, a2, a3, a4, a5, a6, a7, a8, a9, a10⟩ := hi.all p hp
      refine ⟨?_, by simp, ?_, ?_, ?_⟩
      · intro j; simp only [upd]; split
        · have := hi.iro_nonneg a; omega
        · exact hi.iro_nonneg j
      · intro q hq
        simp only [Option.some.injEq] at hq
        subst hq
        exact ⟨a1, a2, a3, a4, a5, a6, hms, by simp only []; omega, a9, a10⟩
      · intro q hq _
        simp only [Option.some.injEq] at hq
        subst hq
        simp only [sumTo_upd _ _ _ _ han]
        refine ⟨by omega, by omega, by omega, h4, ?_, h6⟩
        have := (applyTakerFee_some hf).1; omega
      · intro q hq hs
        simp only [Option.some.injEq] at hq
        subst hq
        simp [hns] at hs
    | bes a sp mt =>
      obtain ⟨p, net, fee, tokens, l1, ht, hmt, hf, _, hmtk, hms, _, _, hmi, rfl⟩ := doBes_ok h
      obtain ⟨hp, hns, _⟩ := tradeable_ok ht
      have han : a < st.cfg.n := by simpa [opActorsOk] using hact
      obtain ⟨h1, h2, h3, h4, h5, h6⟩ := hi.pre p hp hns
      obtain ⟨a1, a2, a3, a4, a5, a6, a7, a8, a9, a10⟩ := hi.all p hp
      refine ⟨?_, by simp, ?_, ?_, ?_⟩
      · intro j; simp only [upd]; split
        · have := hi.iro_nonneg a; omega
        · exact hi.iro_nonneg j
      · intro q hq
        simp only [Option.some.injEq] at hq
        subst hq
        exact ⟨a1, a2, a3, a4, a5, a6, hms, by simp only []; omega, a9, a10⟩
      · intro q hq _
        simp only [Option.some.injEq] at hq
        subst hq
        simp only [sumTo_upd _ _ _ _ han]
        refine ⟨by omega, by omega, by omega, h4, ?_, h6⟩
        have := (applyTakerFee_some hf).2.2.1; omega
      · intro q hq hs
        simp only [Option.some.injEq] at hq
        subst hq
        simp [hns] at hs
    | sell a amt mi =>
      obtain ⟨p, net, fee, l1, ht, hamt, hf, hia, hpl, _, rfl⟩ := doSell_ok h
      obtain ⟨hp, hns, _⟩ := tradeable_ok ht
      have han : a < st.cfg.n := by simpa [opActorsOk] using hact
      obtain ⟨h1, h2, h3, h4, h5, h6⟩ := hi.pre p hp hns
      obtain ⟨a1, a2, a3, a4, a5, a6, a7, a8, a9, a10⟩ := hi.all p hp
      have hle := le_sumTo st.cfg.n st.iro hi.iro_nonneg a han
      refine ⟨?_, by simp, ?_, ?_, ?_⟩
      · intro j; simp only [upd]; split
        · omega
        · exact hi.iro_nonneg j
      · intro q hq
        simp only [Option.some.injEq] at hq
        subst hq
        refine ⟨a1, a2, a3, a4, a5, a6, ?_, by simp only []; omega, a9, a10⟩
        simp only []; omega
      · intro q hq _
        simp only [Option.some.injEq] at hq
        subst hq
        simp only [sumTo_upd _ _ _ _ han]
        exact ⟨by omega, by omega, by omega, h4, by omega, h6⟩
      · intro q hq hs
        simp only [Option.some.injEq] at hq
        subst hq
        simp [hns] at hs
    | enable a =>
      obtain ⟨p, hp, _, _, hns, rfl⟩ := doEnable_ok h
      refine ⟨hi.iro_nonneg, by simp, ?_, ?_, ?_⟩
      · intro q hq
        simp only [Option.some.injEq] at hq
        subst hq
        exact hi.all p hp
      · intro q hq _
        simp only [Option.some.injEq] at hq
        subst hq
        exact hi.pre p hp hns
      · intro q hq hs
        simp only [Option.some.injEq] at hq
        subst hq
        simp [hns] at hs
    | settle rf ok =>
      rcases doSettle_ok h with ⟨hn, rfl⟩ | ⟨p, hp, hns, hra, rfl⟩
      · refine ⟨hi.iro_nonneg, hi.none_, ?_, ?_, ?_⟩ <;> intro q hq <;> simp [hn] at hq
      · obtain ⟨h1, h2, h3, h4, h5, h6⟩ := hi.pre p hp hns
        refine ⟨hi.iro_nonneg, by simp, ?_, ?_, ?_⟩
        · intro q hq
          simp only [Option.some.injEq] at hq
          subst hq
          exact hi.all p hp
        · intro q hq hs
          simp only [Option.some.injEq] at hq
          subst hq
          simp at hs
        · intro q hq _
          simp only [Option.some.injEq] at hq
          subst hq
          simp only []
          refine ⟨trivial, by omega, by omega, ?_, ?_⟩
          · rw [h6]; omega
          · first | trivial | rfl
    | claim a =>
      obtain ⟨p, hp, hset, hb, hle, rfl⟩ := doClaim_ok h
      have han : a < st.cfg.n := by simpa [opActorsOk] using hact
      obtain ⟨h1, h2, h3, h4, h5⟩ := hi.post p hp hset
      obtain ⟨a1, a2, a3, a4, a5, a6, a7, a8, a9, a10⟩ := hi.all p hp
      have hnn := hi.iro_nonneg a
      refine ⟨?_, by simp, ?_, ?_, ?_⟩
      · intro j; simp only [upd]; split
        · omega
        · exact hi.iro_nonneg j
      · intro q hq
        simp only [Option.some.injEq] at hq
        subst hq
        refine ⟨a1, a2, a3, a4, a5, a6, a7, ?_, ?_, a10⟩ <;> simp only [] <;> omega
      · intro q hq hs
        simp only [Option.some.injEq] at hq
        subst hq
        simp [hset] at hs
      · intro q hq _
        simp only [Option.some.injEq] at hq
        subst hq
        simp only [sumTo_upd _ _ _ _ han]
        exact ⟨h1, by omega, by omega, h4, h5⟩
    | claimv a =>
      obtain ⟨p, amt, hp, hset, _, _, _, _, rfl⟩ := doClaimVested_ok h
      obtain ⟨h1, h2, h3, h4, h5⟩ := hi.post p hp hset
      refine ⟨hi.iro_nonneg, by simp, ?_, ?_, ?_⟩
      · intro q hq
        simp only [Option.some.injEq] at hq
        subst hq
        exact hi.all p hp
      · intro q hq hs
        simp only [Option.some.injEq] at hq
        subst hq
        simp [hset] at hs
      · intro q hq _
        simp only [Option.some.injEq] at hq
        subst hq
        simp only []
        exact ⟨h1, h2, h3, by omega, h5⟩
    | xfer a b amt =>
      obtain ⟨hamt, hle, rfl⟩ := doXfer_ok h
      have hab : a < st.cfg.n ∧ b < st.cfg.n := by simpa [opActorsOk] using hact
      have hsum : sumTo st.cfg.n (upd (upd st.iro a (st.iro a - amt)) b (upd st.iro a (st.iro a - amt) b + amt))
          = sumTo st.cfg.n st.iro := by
        rw [sumTo_upd _ _ _ _ hab.2, sumTo_upd _ _ _ _ hab.1]; omega
      refine ⟨?_, ?_, hi.all, ?_, ?_⟩
      · intro j
        have ha := hi.iro_nonneg a
        have hj := hi.iro_nonneg j
        have hb := hi.iro_nonneg b
        simp only [upd]
        split <;> split <;> omega
      · intro hn
        have := (hi.none_ hn).1 a
        omega
      · intro q hq hs
        simp only [hsum]
        exact hi.pre q hq hs
      · intro q hq hs
        simp only [hsum]
        exact hi.post q hq hs
    | chown a b =>
      obtain ⟨_, _, rfl⟩ := doChown_ok h
      exact ⟨hi.iro_nonneg, hi.none_, hi.all, hi.pre, hi.post⟩

theorem inv_run {I : Int → Int} {T : Int → Int → Option Int} (ops : List Op) :
    ∀ st, Inv st → Inv (run I T st ops) := by
  induction ops with
  | nil => intro st h; exact h
  | cons o ops ih => intro st h; exact ih _ (inv_step o h)

/-- messages never change the module parameters -/
theorem step_cfg (I : Int → Int) (T : Int → Int → Option Int) (st : State) (op : Op) :
    (step I T st op).1.cfg = st.cfg := by
  rcases step_cases I T st op with h | ⟨_, h⟩
  · rw [h]
  · generalize (step I T st op).1 = st' at h
    cases op with
    | create alloc m n c L en stt pd lp vd vs => obtain ⟨_, rfl⟩ := doCreate_ok h; rfl
    | time dt =>
      simp only [exec] at h
      split at h
      · cases h
      · cases h; rfl
    | fund a amt =>
      simp only [exec] at h
      split at h
      · cases h
      · cases h; rfl
    | buy a amt mc => obtain ⟨p, tot, fee, l1, _, _, _, _, _, _, _, rfl⟩ := doBuy_ok h; rfl
    | bes a sp mt => obtain ⟨p, net, fee, tokens, l1, _, _, _, _, _, _, _, _, _, rfl⟩ := doBes_ok h; rfl
    | sell a amt mi => obtain ⟨p, net, fee, l1, _, _, _, _, _, _, rfl⟩ := doSell_ok h; rfl
    | enable a => obtain ⟨p, _, _, _, _, rfl⟩ := doEnable_ok h; rfl
    | settle rf ok =>
      rcases doSettle_ok h with ⟨_, rfl⟩ | ⟨p, _, _, _, rfl⟩ <;> rfl
    | claim a => obtain ⟨p, _, _, _, _, rfl⟩ := doClaim_ok h; rfl
    | claimv a => obtain ⟨p, amt, _, _, _, _, _, _, rfl⟩ := doClaimVested_ok h; rfl
    | xfer a b amt => obtain ⟨_, _, rfl⟩ := doXfer_ok h; rfl
    | chown a b => obtain ⟨_, _, rfl⟩ := doChown_ok h; rfl

theorem run_cfg (I : Int → Int) (T : Int → Int → Option Int) (ops : List Op) :
    ∀ st, (run I T st ops).cfg = st.cfg := by
  induction ops with
  | nil => intro st; rfl
  | cons o ops ih => intro st; show (run I T (step I T st o).1 ops).cfg = _; rw [ih, step_cfg]

end DymVerif.Iro
