/-
  Lemmas/LCAdmin — upgrade / recovery of a client that is NOT canonical leaves everything C09 is about alone.
-/
import DymVerif.Model.LCAdmin
import DymVerif.Lemmas.LCTx
namespace DymVerif.LC
open DymVerif.Core (Addr NextP)

/-- rewriting a client that is not canonical preserves the agreement invariant -/
theorem agree_setClient_noncanon {s : St} (hm : MapsInv s) (ha : AgreeInv s) (new : Client)
    (hc : lookup s.c2r new.id = none) : AgreeInv (setClient s new) := by
  intro r c0 cl0 ht cs d a b g f
  simp only [setClient_r2c] at a
  rw [getDesc_congr (setClient_descs _ _)] at f
  have hne : c0 ≠ new.id := by
    intro e
    have := hm.r2c_c2r r c0 a
    rw [e, hc] at this
    exact absurd this (by simp)
  rw [getClient_setClient_ne hne] at b
  exact ha r c0 cl0 ht cs d a b g f

theorem upgrade_state (s : St) (c : Nat) (u : Upg) (ibc : Bool) :
    (upgradeClient s c u ibc).1 = s ∨ ∃ new, new.id = c ∧ (upgradeClient s c u ibc).1 = setClient s new := by
  unfold upgradeClient
  cases hcl : getClient s c with
  | none => exact Or.inl rfl
  | some cl =>
    simp only
    repeat' split
    all_goals first
      | exact Or.inl rfl
      | exact Or.inr ⟨_, by simpa using getClient_id hcl, rfl⟩

theorem recover_state (s : St) (c sub : Nat) :
    (recoverClient s c sub).1 = s ∨ ∃ new, new.id = c ∧ (recoverClient s c sub).1 = setClient s new := by
  unfold recoverClient
  cases hcl : getClient s c with
  | none => exact Or.inl rfl
  | some cl =>
    simp only
    repeat' split
    all_goals first
      | exact Or.inl rfl
      | exact Or.inr ⟨_, by simpa using getClient_id hcl, rfl⟩

end DymVerif.LC
