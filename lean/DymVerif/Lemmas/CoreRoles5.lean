/-
  Lemmas/CoreRoles5 — the roles invariant through block processing, every operation and every run.
-/
import DymVerif.Lemmas.CoreRoles4
namespace DymVerif.Core.Roles

theorem foldl_inv_mem {α β} (P : β → Prop) (f : β → α → β) (l : List α) (b : β) (hb : P b)
    (hf : ∀ b a, a ∈ l → P b → P (f b a)) : P (l.foldl f b) := by
  induction l generalizing b with
  | nil => exact hb
  | cons x xs ih =>
    exact ih _ (hf b x (by simp) hb) (fun b a ha => hf b a (by simp [ha]))

-- ---------------------------------------------------------------- obsolete DRS versions

theorem markObsolete_roles {s s' : St} {au : Bool} {vs : List Nat} (h : Roles s)
    (e : markObsolete s au vs = .ok s') : Roles s' := by
  unfold markObsolete at e
  split at e
  · cases e
  · split at e
    · cases e
    · dsimp only at e
      injection e with e; subst e
      apply foldl_inv Roles
      · exact h.frame (Frame.of_eq rfl rfl rfl rfl rfl)
      · intro b r0 hb
        split
        · exact hb
        · split
          · exact hb
          · split
            · split
              · rename_i a ha; exact hardForkToLatest_roles hb.core (hb.sp.ex _) ha
              · exact hb
            · exact hb

-- ---------------------------------------------------------------- begin block: successors for elapsed notices

/-- one iteration of `ChooseSuccessorForFinishedNotices` -/
def beginStep (acc : St) (e : Nat × Addr) : St :=
  match getSeq { acc with nq := acc.nq.filter (fun x => !(x.1 == e.1 && x.2 == e.2)) } e.2 with
  | none => { acc with nq := acc.nq.filter (fun x => !(x.1 == e.1 && x.2 == e.2)) }
  | some q =>
    match getRa { acc with nq := acc.nq.filter (fun x => !(x.1 == e.1 && x.2 == e.2)) } q.rollapp with
    | none => { acc with nq := acc.nq.filter (fun x => !(x.1 == e.1 && x.2 == e.2)) }
    | some r => setRa { acc with nq := acc.nq.filter (fun x => !(x.1 == e.1 && x.2 == e.2)) }
                  { r with successor := choose { acc with nq := acc.nq.filter (fun x => !(x.1 == e.1 && x.2 == e.2)) } q.rollapp }

theorem beginBlock_eq (s : St) (dt : Nat) :
    beginBlock s dt = ((s.nq.filter (fun e => decide (e.1 ≤ s.t + dt))).foldl beginStep
      { s with h := s.h + 1, t := s.t + dt }) := rfl

theorem beginStep_nq (acc : St) (e : Nat × Addr) :
    (beginStep acc e).nq = acc.nq.filter (fun x => !(x.1 == e.1 && x.2 == e.2)) ∧ (beginStep acc e).t = acc.t := by
  unfold beginStep
  split
  · exact ⟨rfl, rfl⟩
  · split
    · exact ⟨rfl, rfl⟩
    · exact ⟨rfl, rfl⟩

theorem beginFold_nq (l : List (Nat × Addr)) : ∀ (acc : St),
    (l.foldl beginStep acc).t = acc.t ∧ ∀ x ∈ (l.foldl beginStep acc).nq, x ∈ acc.nq ∧ x ∉ l := by
  induction l with
  | nil => intro acc; exact ⟨rfl, fun x hx => ⟨hx, by simp⟩⟩
  | cons e es ih =>
    intro acc
    simp only [List.foldl_cons]
    have h1 := ih (beginStep acc e)
    have h2 := beginStep_nq acc e
    refine ⟨h1.1.trans h2.2, ?_⟩
    intro x hx
    have := h1.2 x hx
    rw [h2.1, List.mem_filter] at this
    refine ⟨this.1.1, ?_⟩
    intro hc
    rcases List.mem_cons.1 hc with hc | hc
    · subst hc; simp at this
    · exact this.2 hc

/-- the entry's sequencer is the opted-out proposer of its rollapp -/
def DueOk (acc : St) (e : Nat × Addr) : Prop :=
  ∃ q r, getSeq acc e.2 = some q ∧ q.optedIn = false ∧ getRa acc q.rollapp = some r ∧ r.proposer = some e.2

theorem RolesCore.dueOk {s : St} (h : RolesCore s) {e : Nat × Addr} (he : e ∈ s.nq) : DueOk s e := by
  obtain ⟨q, r, hq, hn, hr, hp⟩ := h.nq e.1 e.2 he
  exact ⟨q, r, hq, h.optOut q (getSeq_mem hq) (by rw [hn]; rfl), hr, hp⟩

/-- the loop invariant of begin block, with the time held at its old value `T` -/
structure BeginInv (T : Nat) (due : List (Nat × Addr)) (acc : St) : Prop where
  core : RolesCore { acc with t := T }
  sp : SuccProp acc
  due : ∀ e ∈ due, DueOk acc e

theorem DueOk.of_setRa {s : St} {id : Nat} {r r0 : Rollapp} {e : Nat × Addr} (h : DueOk s e)
    (hg : getRa s id = some r0) (hid : r.id = r0.id) (hp : r.proposer = r0.proposer) : DueOk (setRa s r) e := by
  obtain ⟨q, r1, hq, ho, hr1, hp1⟩ := h
  have hg' : getRa s r.id = some r0 := by rw [hid, getRa_id hg]; exact hg
  by_cases hc : r.id = q.rollapp
  · refine ⟨q, r, hq, ho, ?_, ?_⟩
    · rw [← hc]; exact getRa_setRa_same hg'
    · rw [← hc, hg'] at hr1; injection hr1 with hr1; subst hr1; rw [hp]; exact hp1
  · exact ⟨q, r1, hq, ho, by rw [getRa_setRa_other hc]; exact hr1, hp1⟩

theorem beginStep_inv {T : Nat} {due : List (Nat × Addr)} {acc : St} {e : Nat × Addr} (he : e ∈ due)
    (h : BeginInv T due acc) : BeginInv T due (beginStep acc e) := by
  have c1 : RolesCore { acc with t := T, nq := acc.nq.filter (fun x => !(x.1 == e.1 && x.2 == e.2)) } :=
    h.core.of_sub rfl rfl (fun x hx => (List.mem_filter.1 hx).1) rfl rfl
  have d1 : ∀ e' ∈ due, DueOk { acc with nq := acc.nq.filter (fun x => !(x.1 == e.1 && x.2 == e.2)) } e' := h.due
  obtain ⟨q0, r0, hq0, ho0, hr0, hp0⟩ := h.due e he
  unfold beginStep
  split
  · exact ⟨c1, h.sp.of_ras rfl, d1⟩
  · rename_i q hq
    have : q = q0 := by
      have : getSeq acc e.2 = some q := hq
      rw [hq0] at this; injection this with this; exact this.symm
    subst this
    split
    · exact ⟨c1, h.sp.of_ras rfl, d1⟩
    · rename_i r hr
      have : r = r0 := by
        have : getRa acc q.rollapp = some r := hr
        rw [hr0] at this; injection this with this; exact this.symm
      subst this
      have hid : r.id = q.rollapp := getRa_id hr
      have hcne : choose { acc with nq := acc.nq.filter (fun x => !(x.1 == e.1 && x.2 == e.2)) } q.rollapp ≠ some e.2 := by
        intro hc
        obtain ⟨q', hq', ha', _, _, ho', _⟩ := choose_mem hc
        have := getSeq_of_mem (s := acc) h.core.uniq.addrs hq'
        rw [ha', hq0] at this; injection this with this; subst this
        rw [ho0] at ho'; cases ho'
      refine ⟨?_, ?_, ?_⟩
      · show RolesCore (setRa { acc with t := T, nq := acc.nq.filter (fun x => !(x.1 == e.1 && x.2 == e.2)) }
          { r with successor := choose { acc with nq := acc.nq.filter (fun x => !(x.1 == e.1 && x.2 == e.2)) } q.rollapp })
        apply c1.of_setRa (r0 := r) hr (by rfl)
        · intro a ha; exact c1.prop r (getRa_mem hr) a ha
        · intro a ha
          show BondedOf _ r.id a
          rw [hid]
          exact choose_bondedOf c1.uniq ha
        · intro a ha x hx
          obtain ⟨q', hq', ha', _, _, ho', _⟩ := choose_mem ha
          have := getSeq_of_mem (s := acc) h.core.uniq.addrs hq'
          rw [ha'] at this
          have hx' : getSeq acc a = some x := hx
          rw [this] at hx'; injection hx' with hx'; subst hx'
          cases hn : q'.notice with
          | none => rfl
          | some t =>
            have := c1.optOut q' hq' (by rw [hn]; rfl)
            rw [ho'] at this; cases this
        · intro a ha hs
          rw [hp0] at ha; injection ha with ha; subst ha
          exact hcne hs
        · intro t a _ hp; exact hp
      · apply (h.sp.of_ras rfl).of_setRa
        intro hc
        rw [show ({ r with successor := choose _ q.rollapp } : Rollapp).proposer = some e.2 from hp0] at hc
        cases hc
      · intro e' he'
        exact (d1 e' he').of_setRa hr (by rfl) (by rfl)

theorem beginBlock_roles {s : St} {dt : Nat} (h : Roles s) : Roles (beginBlock s dt) := by
  rw [beginBlock_eq]
  have hinv : BeginInv s.t (s.nq.filter (fun e => decide (e.1 ≤ s.t + dt)))
      ((s.nq.filter (fun e => decide (e.1 ≤ s.t + dt))).foldl beginStep { s with h := s.h + 1, t := s.t + dt }) := by
    apply foldl_inv_mem (BeginInv s.t (s.nq.filter (fun e => decide (e.1 ≤ s.t + dt))))
    · refine ⟨h.core.of_sub rfl rfl (fun _ hx => hx) rfl rfl, h.sp.of_ras rfl, ?_⟩
      intro e he
      exact h.core.dueOk (List.mem_filter.1 he).1
    · intro b a ha hb; exact beginStep_inv ha hb
  have hnq := beginFold_nq (s.nq.filter (fun e => decide (e.1 ≤ s.t + dt))) { s with h := s.h + 1, t := s.t + dt }
  refine ⟨⟨hinv.core.uniq.of_eq rfl rfl, hinv.core.prop, hinv.core.succ, hinv.core.succFresh, hinv.core.ne, hinv.core.optOut, hinv.core.nq, ?_, hinv.core.np⟩, hinv.sp⟩
  intro x hx
  rw [hnq.1]
  have := hnq.2 x hx
  have h1 : x ∈ s.nq := this.1
  have h2 := this.2
  rw [List.mem_filter] at h2
  show s.t + dt < x.1
  have : ¬ (x.1 ≤ s.t + dt) := by
    intro hc; exact h2 ⟨h1, by simpa using hc⟩
  omega

-- ---------------------------------------------------------------- end block: finalization and liveness are frames

theorem finalizeOne_frame {s s' : St} {fails : List (Nat × Nat)} {ra idx : Nat} (u : Uniq s)
    (e : finalizeOne s fails ra idx = some s') : Frame s s' := by
  unfold finalizeOne at e
  split at e
  · cases e
  · split at e
    · cases e
    · rename_i r hg
      split at e
      · cases e
      · split at e
        · cases e
        · dsimp only at e
          injection e with e; subst e
          exact Frame.of_setRa_eq (r0 := r) u hg (by rfl) (by rfl) (by rfl) (by rfl) (by rfl) (by rfl) (by rfl) (by rfl)

theorem finalizeEntry_go_frame (fails : List (Nat × Nat)) (e : QEntry) (l : List Nat) (s : St) (u : Uniq s) :
    Frame s (finalizeEntry.go fails e s l).1 := by
  induction l generalizing s with
  | nil => unfold finalizeEntry.go; exact Frame.of_eq rfl rfl rfl rfl rfl
  | cons i rest ih =>
    unfold finalizeEntry.go
    split
    · rename_i s1 h1
      have a := finalizeOne_frame u h1
      exact a.trans (ih s1 (a.uniq u))
    · exact Frame.of_eq rfl rfl rfl rfl rfl

theorem finalizeAll_frame (fails : List (Nat × Nat)) (es : List QEntry) (failed : List Nat) (s : St) (u : Uniq s) :
    Frame s (finalizeAll s fails es failed) := by
  induction es generalizing s failed with
  | nil => unfold finalizeAll; exact Frame.refl s
  | cons e es ih =>
    unfold finalizeAll
    split
    · exact ih _ _ u
    · have a := finalizeEntry_go_frame fails e e.idx s u
      unfold finalizeEntry
      exact a.trans (ih _ _ (a.uniq u))

theorem slashLiveness_frame {s s1 : St} {r : Rollapp} (u : Uniq s) (e : slashLiveness s r = .ok s1) : Frame s s1 := by
  unfold slashLiveness at e
  split at e
  · injection e with e; subst e; exact Frame.refl s
  · split at e
    · injection e with e; subst e; exact Frame.refl s
    · rename_i _ a _ _ q hg
      split at e
      · cases e
      · rename_i s2 q2 hsl
        have sp := slash_same hsl
        have hk := sp.2
        simp only [skey, Prod.mk.injEq] at hk
        injection e with e; subst e
        have f1 := sp.1.frame
        exact f1.trans (Frame.of_setSeq (q0 := q) (f1.uniq u) (by rw [getSeq_congr sp.1.seqs]; exact hg)
          hk.1 hk.2.1 hk.2.2.1 hk.2.2.2.1 hk.2.2.2.2)

theorem handleLivenessEvent_frame {s : St} {ra : Nat} (u : Uniq s) : Frame s (handleLivenessEvent s ra) := by
  unfold handleLivenessEvent
  split
  · exact Frame.refl s
  · split
    · exact Frame.refl s
    · rename_i s1 hs1
      have f1 := slashLiveness_frame u hs1
      split
      · exact Frame.refl s
      · rename_i r1 hg1
        unfold scheduleEvent
        dsimp only
        exact f1.trans (Frame.of_setRa_eq (r0 := r1) (f1.uniq u) hg1 (by rfl) (by rfl) (by rfl) (by rfl) (by rfl) (by rfl) (by rfl) (by rfl))

theorem endBlock_frame {s : St} {fails : List (Nat × Nat)} (u : Uniq s) : Frame s (endBlock s fails) := by
  unfold endBlock checkLiveness
  have f0 : Frame s (finalizeRollappStates s fails) := by
    unfold finalizeRollappStates
    split
    · exact Frame.refl s
    · exact finalizeAll_frame _ _ _ _ u
  apply foldl_inv (fun acc => Frame s acc)
  · exact f0
  · intro b e hb; exact hb.trans (handleLivenessEvent_frame (hb.uniq u))

-- ---------------------------------------------------------------- all operations, all runs

theorem apply_roles {s s' : St} {o : Op} (h : Roles s) (e : apply s o = .ok s') : Roles s' := by
  cases o with
  | createRollapp id owner mb =>
    simp only [apply] at e
    split at e
    · cases e
    · rename_i hex
      have hnone : getRa s id = none := by
        cases hx : getRa s id with
        | none => rfl
        | some _ => simp [hx] at hex
      injection e with e; subst e
      exact ⟨h.core.of_insertRa (r := newRollapp id owner mb) hnone rfl rfl, h.sp.of_insertRa rfl⟩
  | bridge ra hh =>
    simp only [apply] at e
    split at e
    · cases e
    · rename_i r hg
      split at e
      · cases e
      · split at e
        · cases e
        · injection e with e; subst e
          exact h.frame (Frame.of_setRa (r0 := r) h.core.uniq hg (by rfl) (by rfl) (by rfl))
  | fund a amt => simp only [apply] at e; injection e with e; subst e; exact h.frame (Frame.of_eq rfl rfl rfl rfl rfl)
  | createSeq a ra b d => exact createSeq_roles h e
  | bondInc a amt d => exact h.frame (increaseBond_frame h.core.uniq e)
  | bondDec a amt => exact decreaseBond_roles h e
  | unbond a => exact unbond_roles h e
  | optIn a v => exact optIn_roles h e
  | kick a => exact kick_roles h e
  | update m => exact updateState_roles h e
  | fraud au ra hh rev p rw => exact fraud_roles h e
  | obsolete au vs => exact markObsolete_roles h e
  | punish au a rw => exact h.frame (punish_frame h.core.uniq (punishProposal_ok e).2)
  | transferOwner sg ra' no =>
    obtain ⟨r, hg, _, _, _, rfl⟩ := transferOwner_ok e
    exact h.frame (Frame.of_setRa (r0 := r) h.core.uniq hg (by rfl) (by rfl) (by rfl))
  | setSeqParams au sp =>
    obtain ⟨_, hnp, _, rfl⟩ := setSeqParams_ok e
    exact ⟨h.core.of_sub' rfl rfl (fun _ he => he) rfl hnp, h.sp.of_ras rfl⟩
  | begin_ dt => simp only [apply] at e; injection e with e; subst e; exact beginBlock_roles h
  | end_ f => simp only [apply] at e; injection e with e; subst e; exact h.frame (endBlock_frame h.core.uniq)

theorem step_roles {s : St} {o : Op} (h : Roles s) : Roles (step s o).1 := by
  unfold step
  split
  · rename_i s' e; exact apply_roles h e
  · exact h

theorem init_roles (p : Params) (hp : 0 < p.noticePeriod) : Roles (init p) := by
  refine ⟨⟨⟨List.Pairwise.nil, List.Pairwise.nil, List.Pairwise.nil⟩, ?_, ?_, ?_, ?_, ?_, ?_, ?_, hp⟩, ?_⟩
  · intro r hr; cases hr
  · intro r hr; cases hr
  · intro r hr; cases hr
  · intro r hr; cases hr
  · intro q hq; cases hq
  · intro t a h; cases h
  · intro e he; cases he
  · intro r hr; cases hr

/-- **the roles invariant holds in every reachable state** (for valid parameters: the notice period
    is validated to be positive) -/
theorem run_roles (p : Params) (hp : 0 < p.noticePeriod) (ops : List Op) : Roles (run p ops) := by
  unfold run
  apply foldl_inv Roles
  · exact init_roles p hp
  · intro b o hb; exact step_roles hb

end DymVerif.Core.Roles
