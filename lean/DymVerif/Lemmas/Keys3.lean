import DymVerif.Lemmas.Keys2
namespace DymVerif.Keys
open DymVerif

/-! ### scans over keys joined with the maximal separator 0xFF (x/lockup) -/

/-- increment the last byte (what `PrefixEndBytes` does to a string that does not end in 0xFF) -/
def incLast : Bytes → Bytes
  | [] => []
  | [c] => [c + 1]
  | c :: c2 :: cs => c :: incLast (c2 :: cs)

theorem incLast_snoc (q : Bytes) (d : Nat) : incLast (q ++ [d]) = q ++ [d + 1] := by
  induction q with
  | nil => rfl
  | cons c cs ih =>
    cases cs with
    | nil => simp [incLast]
    | cons c2 cs => simpa [incLast] using ih

theorem prefixEnd_incLast (P x : Bytes) (hne : x ≠ []) (hff : ∀ c ∈ x, c < 255) :
    prefixEnd (P ++ x) = some (P ++ incLast x) := by
  have e : x = x.dropLast ++ [x.getLast hne] := (List.dropLast_concat_getLast hne).symm
  have hl : x.getLast hne ≠ 255 := by
    have := hff _ (List.getLast_mem hne); omega
  rw [e, ← List.append_assoc, prefixEnd_snoc _ _ hl, incLast_snoc, List.append_assoc]

theorem lexLt_nil_right (s : Bytes) : lexLt s [] = false := by cases s <;> rfl

/-- **range scans with the separator 0xFF**: for components without the byte 0xFF, the range
    `[x ++ FF ++ s, incLast x)` contains `x' ++ FF ++ r` exactly when `x' = x` and `s ≤ r`.  (Keys of
    a component that merely *extends* `x` sort below the start because 0xFF is the largest byte.) -/
theorem sepmax_range (x x' s r : Bytes) (hne : x ≠ []) (hx : ∀ c ∈ x, c < 255) (hx' : ∀ c ∈ x', c < 255) :
    inRange (x ++ 255 :: s) (incLast x) (x' ++ 255 :: r) = (decide (x' = x) && lexLe s r) := by
  induction x generalizing x' with
  | nil => exact absurd rfl hne
  | cons c cs ih =>
    have hc : c < 255 := hx c List.mem_cons_self
    cases cs with
    | nil =>
      cases x' with
      | nil =>
        have h1 : ¬ 255 < c := by omega
        have h2 : ¬ 255 < c + 1 := by omega
        by_cases h3 : c + 1 < 255
        · simp [inRange, lexLe, lexLt, incLast, h1, hc, h2, h3]
        · simp [inRange, lexLe, lexLt, incLast, h1, hc, h2, h3, lexLt_nil_right]
      | cons c' cs' =>
        have hc' : c' < 255 := hx' c' List.mem_cons_self
        by_cases h1 : c' < c
        · simp [inRange, lexLe, lexLt, incLast, h1]
          intro e; omega
        · by_cases h2 : c < c'
          · have h3 : ¬ c' < c + 1 := by omega
            have hne' : ¬ c' = c := by omega
            by_cases h4 : c + 1 < c'
            · simp [inRange, lexLe, lexLt, incLast, h1, h2, h3, h4, hne']
            · simp [inRange, lexLe, lexLt, incLast, h1, h2, h3, h4, hne', lexLt_nil_right]
          · have e : c' = c := by omega
            subst e
            have h3 : c' < c' + 1 := by omega
            cases cs' with
            | nil => simp [inRange, lexLe, lexLt, incLast, h3]
            | cons d ds =>
              have hd : d < 255 := hx' d (List.mem_cons_of_mem _ List.mem_cons_self)
              simp [inRange, lexLe, lexLt, incLast, h3, hd]
    | cons c2 cs =>
      cases x' with
      | nil =>
        have h1 : ¬ 255 < c := by omega
        simp [inRange, lexLe, lexLt, incLast, h1, hc]
      | cons c' cs' =>
        by_cases h1 : c' < c
        · simp [inRange, lexLe, lexLt, incLast, h1]
          intro e; omega
        · by_cases h2 : c < c'
          · have hne' : ¬ c' = c := by omega
            simp [inRange, lexLe, lexLt, incLast, h1, h2, hne']
          · have e : c' = c := by omega
            subst e
            have := ih cs' (by simp) (fun y hy => hx y (List.mem_cons_of_mem _ hy))
              (fun y hy => hx' y (List.mem_cons_of_mem _ hy))
            simp only [inRange, lexLe, List.cons_append, lexLt, incLast, Nat.lt_irrefl, if_false] at this ⊢
            rw [this]; simp

/-- equal-length components: the range `[a, a ++ e)` contains `b ++ r` exactly when `b = a`, `r < e` -/
theorem eqlen_range (a b e r : Bytes) (hl : a.length = b.length) :
    inRange a (a ++ e) (b ++ r) = (decide (b = a) && lexLt r e) := by
  have e1 := lexLt_append_eqlen b a r [] hl.symm
  have e2 := lexLt_append_eqlen b a r e hl.symm
  simp only [List.append_nil, lexLt_nil_right, Bool.and_false, Bool.or_false] at e1
  simp only [inRange, lexLe, e1, e2]
  by_cases h : b = a
  · subst h; simp [lexLt_irrefl]
  · have : (b == a) = false := by simpa using h
    simp [this, h]

/-- equal-length components: prefix match is equality -/
theorem eqlen_isPrefix (a b r : Bytes) (hl : a.length = b.length) :
    isPrefix a (b ++ r) = decide (a = b) := by
  by_cases h : a = b
  · subst h; simp [isPrefix_append]
  · cases hx : isPrefix a (b ++ r) with
    | false => simp [h]
    | true =>
      obtain ⟨y, e⟩ := (isPrefix_iff _ _).1 hx
      exact absurd (List.append_inj e hl.symm).1.symm h

theorem isPrefix_append_left (p a b : Bytes) : isPrefix (p ++ a) (p ++ b) = isPrefix a b := by
  induction p with
  | nil => rfl
  | cons x xs ih => simp [isPrefix, ih]

/-! ### lockup time / duration sub-keys -/

theorem lexLt_self_append (p r : Bytes) : lexLt (p ++ r) p = false := by
  have := lexLt_append_left p r []
  simpa [lexLt_nil_right] using this

/-- in range, `getTimeKey(t)` is the fixed 9-byte header followed by the 29-byte formatted time -/
theorem lkTimeKey_eq (t : TimeF) (h : t.InRange) : lkTimeKey t = (5 :: be64 29) ++ fmtTime t := by
  simp [lkTimeKey, fmtTime_length t h]

theorem fmtTime_lt255 (t : TimeF) (h : t.InRange) : ∀ c ∈ fmtTime t, c < 255 := by
  intro c hc
  rw [fmtTime_eq t h] at hc
  simp only [List.mem_append, List.mem_singleton] at hc
  have dg : ∀ k n, c ∈ decN k n → c < 255 := fun k n hm => by have := decN_digit k n c hm; omega
  rcases hc with hc | hc | hc | hc | hc | hc | hc | hc | hc | hc | hc | hc | hc
  all_goals first | exact dg _ _ hc | (subst hc; decide)

theorem lkTimeKey_lt255 (t : TimeF) (h : t.InRange) : ∀ c ∈ lkTimeKey t, c < 255 := by
  intro c hc
  rw [lkTimeKey_eq t h] at hc
  simp only [List.cons_append, List.mem_cons, List.mem_append] at hc
  rcases hc with hc | hc | hc
  · subst hc; decide
  · have : ∀ x ∈ be64 29, x < 255 := by decide
    exact this c hc
  · exact fmtTime_lt255 t h c hc

theorem lkTimeKey_ne_nil (t : TimeF) : lkTimeKey t ≠ [] := by simp [lkTimeKey]

/-- comparison against the incremented time key: `t`'s key (followed by anything) is below
    `incLast (key T)` exactly when `t ≤ T` -/
theorem timeKey_tail_lt (T t : TimeF) (hT : T.InRange) (ht : t.InRange) (rest : Bytes) :
    lexLt (lkTimeKey t ++ rest) (incLast (lkTimeKey T)) = !(lexLt T.fields t.fields) := by
  obtain ⟨q, hq, hql⟩ := fmtTime_snoc T hT
  have e1 : incLast (lkTimeKey T) = (5 :: be64 29) ++ (q ++ [48 + T.ns % 10 + 1]) := by
    rw [lkTimeKey_eq T hT, hq, ← List.append_assoc, incLast_snoc, List.append_assoc]
  rw [e1, lkTimeKey_eq t ht, List.append_assoc, lexLt_append_left,
    lexLt_succ_last q _ (fmtTime t) rest (by rw [fmtTime_length t ht, hql]), ← hq,
    lexLt_fmtTime T t hT ht]

theorem lkDurationKey_eq (d : Int) (h : 0 ≤ d) : lkDurationKey d = 6 :: 255 :: be64 d.toNat := by
  have : ¬ d < 0 := by omega
  simp [lkDurationKey, combineKeys, this]

/-- comparison of duration sub-keys followed by anything -/
theorem durKey_tail_le (d d' : Int) (h0 : 0 ≤ d) (h0' : 0 ≤ d') (h : d < 2 ^ 64) (h' : d' < 2 ^ 64)
    (rest : Bytes) : lexLe (lkDurationKey d) (lkDurationKey d' ++ rest) = decide (d ≤ d') := by
  rw [lkDurationKey_eq d h0, lkDurationKey_eq d' h0']
  have hn : d.toNat < 2 ^ 64 := by omega
  have hn' : d'.toNat < 2 ^ 64 := by omega
  have e := lexLt_append_eqlen (be64 d'.toNat) (be64 d.toNat) rest [] (by simp [be64_length])
  simp only [List.append_nil, lexLt_nil_right, Bool.and_false, Bool.or_false] at e
  simp only [lexLe, List.cons_append, lexLt, Nat.lt_irrefl, if_false, e, lexLt_be64 _ _ hn' hn]
  by_cases hd : d ≤ d'
  · have : ¬ d'.toNat < d.toNat := by omega
    simp [hd, this]
  · have : d'.toNat < d.toNat := by omega
    simp [hd, this]

end DymVerif.Keys
