/-
  Lemmas/IncentPaging — the stream iterator and `Paginate`: bisection is exact on sorted ids, the
  iterator enumerates the flattened (stream, gauge) positions in order, a paged run visits a prefix
  and its saved pointer resumes exactly where it stopped.
-/
import DymVerif.Model.Incent
namespace DymVerif.Incent
open DymVerif

/-! ### bisection -/

/-- strictly increasing (as seen through `getD · 0`, which is what the model's bisection reads) -/
def StrictInc (l : List Nat) : Prop := ∀ i j, i < j → j < l.length → l.getD i 0 < l.getD j 0

theorem StrictInc.mono {l : List Nat} (h : StrictInc l) (i j : Nat) (hij : i ≤ j) (hj : j < l.length) :
    l.getD i 0 ≤ l.getD j 0 := by
  rcases Nat.lt_or_ge i j with h1 | h1
  · exact Nat.le_of_lt (h i j h1 hj)
  · have : i = j := by omega
    subst this; exact Nat.le_refl _

theorem binSearchAux_spec (ids : List Nat) (t : Nat)
    (hmono : ∀ i j, i ≤ j → j < ids.length → ids.getD i 0 ≤ ids.getD j 0) :
    ∀ fuel i j, i ≤ j → j ≤ ids.length → j - i < fuel →
      (∀ k, k < i → ids.getD k 0 < t) → (∀ k, j ≤ k → k < ids.length → t ≤ ids.getD k 0) →
      i ≤ binSearchAux ids t fuel i j ∧ binSearchAux ids t fuel i j ≤ j ∧
      (∀ k, k < binSearchAux ids t fuel i j → ids.getD k 0 < t) ∧
      (∀ k, binSearchAux ids t fuel i j ≤ k → k < ids.length → t ≤ ids.getD k 0) := by
  intro fuel
  induction fuel with
  | zero => intro i j _ _ h; omega
  | succ n ih =>
    intro i j hij hj hf hlo hhi
    unfold binSearchAux
    by_cases hlt : i < j
    · simp only [hlt, if_true]
      have hh1 : i ≤ (i + j) / 2 := by omega
      have hh2 : (i + j) / 2 < j := by omega
      by_cases hc : ids.getD ((i + j) / 2) 0 < t
      · simp only [hc, if_true]
        have := ih ((i + j) / 2 + 1) j (by omega) hj (by omega)
          (by
            intro k hk
            have : ids.getD k 0 ≤ ids.getD ((i + j) / 2) 0 := hmono k _ (by omega) (by omega)
            omega)
          hhi
        refine ⟨by omega, this.2.1, this.2.2.1, this.2.2.2⟩
      · simp only [hc, if_false]
        have := ih i ((i + j) / 2) hh1 (by omega) (by omega) hlo
          (by
            intro k hk hkl
            have : ids.getD ((i + j) / 2) 0 ≤ ids.getD k 0 := hmono _ k hk hkl
            omega)
        refine ⟨this.1, by omega, this.2.2.1, this.2.2.2⟩
    · simp only [hlt, if_false]
      have : i = j := by omega
      subst this
      exact ⟨Nat.le_refl _, Nat.le_refl _, hlo, hhi⟩

/-- on a strictly increasing list bisection returns the first index whose id is ≥ the target -/
theorem binSearch_spec (ids : List Nat) (t : Nat) (h : StrictInc ids) :
    binSearch ids t ≤ ids.length ∧ (∀ k, k < binSearch ids t → ids.getD k 0 < t) ∧
    (∀ k, binSearch ids t ≤ k → k < ids.length → t ≤ ids.getD k 0) := by
  have := binSearchAux_spec ids t (fun i j a b => h.mono i j a b) (ids.length + 1) 0 ids.length
    (Nat.zero_le _) (Nat.le_refl _) (by omega) (by intro k hk; omega) (by intro k h1 h2; omega)
  exact ⟨this.2.1, this.2.2.1, this.2.2.2⟩

/-- bisection finds an id that is present -/
theorem binSearch_found (ids : List Nat) (h : StrictInc ids) (k : Nat) (hk : k < ids.length) :
    binSearch ids (ids.getD k 0) = k := by
  have ⟨_, h2, h3⟩ := binSearch_spec ids (ids.getD k 0) h
  have a : binSearch ids (ids.getD k 0) ≤ k := by
    apply Nat.le_of_not_lt
    intro hc
    have := h2 k hc
    omega
  rcases Nat.lt_or_ge (binSearch ids (ids.getD k 0)) k with hlt | hge
  · have h4 := h3 _ (Nat.le_refl _) (by omega)
    have h5 := h _ k hlt hk
    omega
  · omega

theorem binSearch_zero (ids : List Nat) (h : StrictInc ids) : binSearch ids 0 = 0 := by
  have ⟨_, h2, _⟩ := binSearch_spec ids 0 h
  apply Nat.eq_zero_of_not_pos
  intro hc
  have := h2 0 hc
  omega

/-- a target above every id lands past the end -/
theorem binSearch_big (ids : List Nat) (h : StrictInc ids) (t : Nat) (hb : ∀ k, k < ids.length → ids.getD k 0 < t) :
    binSearch ids t = ids.length := by
  have ⟨h1, _, h3⟩ := binSearch_spec ids t h
  rcases Nat.lt_or_ge (binSearch ids t) ids.length with hlt | hge
  · have := h3 _ (Nat.le_refl _) hlt
    have := hb _ hlt
    omega
  · omega


/-! ### iterator positions -/

def recLens (data : List SView) : List Nat := data.map (·.recs.length)

/-- records at or after stream index `it.1`, minus the gauge index: strictly decreases along `Next` -/
def rankU (data : List SView) (it : Nat × Nat) : Nat := ((recLens data).drop it.1).sum - it.2

theorem sum_drop_succ (l : List Nat) (i : Nat) (h : i < l.length) :
    (l.drop i).sum = l[i] + (l.drop (i + 1)).sum := by
  induction l generalizing i with
  | nil => simp at h
  | cons x xs ih =>
    cases i with
    | zero => simp
    | succ i => simpa using ih i (by simpa using h)

theorem sum_drop_le (l : List Nat) (i j : Nat) (h : i ≤ j) : (l.drop j).sum ≤ (l.drop i).sum := by
  induction l generalizing i j with
  | nil => simp
  | cons x xs ih =>
    cases i with
    | zero =>
      cases j with
      | zero => simp
      | succ j => simp only [List.drop_succ_cons, List.drop_zero, List.sum_cons]
                  have := ih 0 j (Nat.zero_le _); simp at this; omega
    | succ i =>
      cases j with
      | zero => omega
      | succ j => simpa using ih i j (by omega)

theorem sum_drop_le_sum (l : List Nat) (i : Nat) : (l.drop i).sum ≤ l.sum := by
  simpa using sum_drop_le l 0 i (Nat.zero_le _)

theorem rankU_le_total (data : List SView) (it : Nat × Nat) : rankU data it ≤ totalRecs data := by
  unfold rankU totalRecs recLens
  have := sum_drop_le_sum (data.map (·.recs.length)) it.1
  omega

theorem firstOk_ge (e : Nat) (l : List SView) (off : Nat) : off ≤ firstOk e l off := by
  induction l generalizing off with
  | nil => simp [firstOk]
  | cons s rest ih =>
    unfold firstOk; split
    · exact Nat.le_refl _
    · have := ih (off + 1); omega

theorem firstOk_le (e : Nat) (l : List SView) (off : Nat) : firstOk e l off ≤ off + l.length := by
  induction l generalizing off with
  | nil => simp [firstOk]
  | cons s rest ih =>
    unfold firstOk; split
    · omega
    · have := ih (off + 1); simp only [List.length_cons]; omega

theorem validAt_iff (data : List SView) (e si gi : Nat) :
    validAt data e si gi = true ↔ ∃ h : si < data.length, sOk e data[si] = true ∧ gi < data[si].recs.length := by
  unfold validAt
  by_cases h : si < data.length
  · simp [h]
  · simp [h]

theorem rank_next (data : List SView) (e : Nat) (it : Nat × Nat) (h : validAt data e it.1 it.2 = true) :
    rankU data (iterNext data e it) < rankU data it := by
  obtain ⟨hlt, _, hgi⟩ := (validAt_iff data e it.1 it.2).1 h
  have hl : it.1 < (recLens data).length := by simp [recLens, hlt]
  have hs := sum_drop_succ (recLens data) it.1 hl
  have hget : (recLens data)[it.1] = data[it.1].recs.length := by simp [recLens]
  unfold iterNext
  split
  · unfold rankU; simp only; omega
  · unfold findNextStream rankU
    simp only
    have h1 := firstOk_ge e (data.drop (it.1 + 1)) (it.1 + 1)
    have h2 := sum_drop_le (recLens data) (it.1 + 1) _ h1
    omega

/-- the positions the iterator yields from `it` on -/
def visits (data : List SView) (e : Nat) (it : Nat × Nat) : List (Nat × Nat) :=
  if h : validAt data e it.1 it.2 = true then it :: visits data e (iterNext data e it) else []
termination_by rankU data it
decreasing_by exact rank_next data e it h

theorem visits_valid (data : List SView) (e : Nat) (it : Nat × Nat) (h : validAt data e it.1 it.2 = true) :
    visits data e it = it :: visits data e (iterNext data e it) := by
  rw [visits]; simp [h]

theorem visits_invalid (data : List SView) (e : Nat) (it : Nat × Nat) (h : validAt data e it.1 it.2 = false) :
    visits data e it = [] := by
  rw [visits]; simp [h]

theorem visits_length_le (data : List SView) (e : Nat) : ∀ n it, rankU data it ≤ n → (visits data e it).length ≤ n := by
  intro n
  induction n with
  | zero =>
    intro it h
    by_cases hv : validAt data e it.1 it.2 = true
    · have := rank_next data e it hv; omega
    · simp [visits_invalid data e it (by simpa using hv)]
  | succ n ih =>
    intro it h
    by_cases hv : validAt data e it.1 it.2 = true
    · rw [visits_valid data e it hv]
      have := rank_next data e it hv
      have := ih (iterNext data e it) (by omega)
      simp only [List.length_cons]; omega
    · simp [visits_invalid data e it (by simpa using hv)]

/-! ### `Paginate` against the iterator -/

/-- the positions one call of `paginate` hands to the callback -/
def pagVisits {σ : Type} (data : List SView) (e : Nat) (cb : σ → SView → Rec → σ × Nat) (max : Nat) :
    Nat → (Nat × Nat) → Nat → σ → List (Nat × Nat)
  | 0, _, _, _ => []
  | fuel + 1, it, total, acc =>
    if total < max && validAt data e it.1 it.2 then
      match data[it.1]? with
      | none => []
      | some s =>
        let r := s.recs.getD it.2 default
        it :: pagVisits data e cb max fuel (iterNext data e it) (total + (cb acc s r).2) (cb acc s r).1
    else []

/-- applying the callback to a list of positions -/
def foldCb {σ : Type} (data : List SView) (cb : σ → SView → Rec → σ × Nat) : σ → List (Nat × Nat) → σ
  | acc, [] => acc
  | acc, it :: rest =>
    match data[it.1]? with
    | some s => foldCb data cb (cb acc s (s.recs.getD it.2 default)).1 rest
    | none => foldCb data cb acc rest

theorem paginate_acc {σ : Type} (data : List SView) (e : Nat) (cb : σ → SView → Rec → σ × Nat) (max : Nat) :
    ∀ fuel it total acc, (paginate data e cb max fuel it total acc).2.2 =
      foldCb data cb acc (pagVisits data e cb max fuel it total acc) := by
  intro fuel
  induction fuel with
  | zero => intro it total acc; simp [paginate, pagVisits, foldCb]
  | succ n ih =>
    intro it total acc
    unfold paginate pagVisits
    split
    · cases hd : data[it.1]? with
      | none => simp [foldCb]
      | some s => simp only [foldCb, hd]; exact ih _ _ _
    · simp [foldCb]

/-- one call visits a prefix of what the iterator still has to yield, and stops on a position from
    which the rest follows -/
theorem paginate_prefix {σ : Type} (data : List SView) (e : Nat) (cb : σ → SView → Rec → σ × Nat) (max : Nat) :
    ∀ fuel it total acc, rankU data it < fuel →
      visits data e it = pagVisits data e cb max fuel it total acc ++
        visits data e (paginate data e cb max fuel it total acc).1 := by
  intro fuel
  induction fuel with
  | zero => intro it total acc h; omega
  | succ n ih =>
    intro it total acc hr
    unfold paginate pagVisits
    by_cases hc : (decide (total < max) && validAt data e it.1 it.2) = true
    · simp only [hc, if_true]
      have hv : validAt data e it.1 it.2 = true := by simp at hc; exact hc.2
      obtain ⟨hlt, _, _⟩ := (validAt_iff data e it.1 it.2).1 hv
      simp only [List.getElem?_eq_getElem hlt]
      rw [visits_valid data e it hv]
      have := rank_next data e it hv
      simp only [List.cons_append, List.cons.injEq, true_and]
      exact ih _ _ _ (by omega)
    · simp only [hc]
      simp

/-- why a call stops: the iterator is exhausted or the budget is used up -/
theorem paginate_stop {σ : Type} (data : List SView) (e : Nat) (cb : σ → SView → Rec → σ × Nat) (max : Nat) :
    ∀ fuel it total acc, rankU data it < fuel →
      validAt data e (paginate data e cb max fuel it total acc).1.1 (paginate data e cb max fuel it total acc).1.2 = false
      ∨ max ≤ (paginate data e cb max fuel it total acc).2.1 := by
  intro fuel
  induction fuel with
  | zero => intro it total acc h; omega
  | succ n ih =>
    intro it total acc hr
    unfold paginate
    by_cases hc : (decide (total < max) && validAt data e it.1 it.2) = true
    · simp only [hc, if_true]
      have hv : validAt data e it.1 it.2 = true := by simp at hc; exact hc.2
      obtain ⟨hlt, _, _⟩ := (validAt_iff data e it.1 it.2).1 hv
      simp only [List.getElem?_eq_getElem hlt]
      have := rank_next data e it hv
      exact ih _ _ _ (by omega)
    · simp only [hc]
      simp only [Bool.and_eq_true, decide_eq_true_eq, not_and, Bool.not_eq_true] at hc
      by_cases ht : total < max
      · left; exact hc ht
      · right; simp; omega


/-! ### the saved pointer resumes exactly where the call stopped (sorted data) -/

/-- what `validateGauges`, the id counter and id-ordered iteration are meant to guarantee -/
structure SortedData (data : List SView) : Prop where
  ids : StrictInc (data.map (·.id))
  recs : ∀ s ∈ data, StrictInc (s.recs.map (·.gauge))
  bound : ∀ k, k < data.length → (data.map (·.id)).getD k 0 < maxU64

/-- the pointer `IterateEpochPointer` saves for an iterator position -/
def ptrOf (data : List SView) (e : Nat) (it : Nat × Nat) : Pointer :=
  if validAt data e it.1 it.2 then
    match data[it.1]? with
    | some s => ⟨s.id, (s.recs.getD it.2 default).gauge⟩
    | none => Pointer.last
  else Pointer.last

theorem newIter_ptrOf_valid (data : List SView) (e : Nat) (hs : SortedData data) (it : Nat × Nat)
    (hv : validAt data e it.1 it.2 = true) : newIter data e (ptrOf data e it) = it := by
  obtain ⟨hlt, _, hgi⟩ := (validAt_iff data e it.1 it.2).1 hv
  have hmem : data[it.1] ∈ data := List.getElem_mem hlt
  unfold ptrOf
  simp only [hv, if_true, List.getElem?_eq_getElem hlt]
  unfold newIter
  have h1 : (data.map (·.id)).getD it.1 0 = data[it.1].id := by
    simp [List.getD_eq_getElem?_getD, hlt]
  have hb1 : binSearch (data.map (·.id)) data[it.1].id = it.1 := by
    rw [← h1]; exact binSearch_found _ hs.ids it.1 (by simpa using hlt)
  simp only [hb1, List.getElem?_eq_getElem hlt]
  have h2 : (data[it.1].recs.map (·.gauge)).getD it.2 0 = (data[it.1].recs.getD it.2 default).gauge := by
    simp [List.getD_eq_getElem?_getD, hgi]
  have hb2 : binSearch (data[it.1].recs.map (·.gauge)) (data[it.1].recs.getD it.2 default).gauge = it.2 := by
    rw [← h2]; exact binSearch_found _ (hs.recs _ hmem) it.2 (by simpa using hgi)
  simp only [hb2, hv, if_true]

theorem newIter_last (data : List SView) (e : Nat) (hs : SortedData data) :
    validAt data e (newIter data e Pointer.last).1 (newIter data e Pointer.last).2 = false := by
  unfold newIter Pointer.last
  have hb : binSearch (data.map (·.id)) maxU64 = (data.map (·.id)).length :=
    binSearch_big _ hs.ids maxU64 (by intro k hk; exact hs.bound k (by simpa using hk))
  simp only [hb, List.length_map]
  have : data[data.length]? = none := by simp
  simp only [this]
  unfold validAt
  simp

/-- resuming from the saved pointer yields exactly the positions the iterator still had to yield -/
theorem resume (data : List SView) (e : Nat) (hs : SortedData data) (it : Nat × Nat) :
    visits data e (newIter data e (ptrOf data e it)) = visits data e it := by
  by_cases hv : validAt data e it.1 it.2 = true
  · rw [newIter_ptrOf_valid data e hs it hv]
  · have hv' : validAt data e it.1 it.2 = false := by simpa using hv
    rw [visits_invalid data e it hv']
    have : ptrOf data e it = Pointer.last := by unfold ptrOf; simp [hv']
    rw [this]
    exact visits_invalid data e _ (newIter_last data e hs)

/-- positions still to be visited in this epoch when the stored pointer is `p` -/
def remaining (data : List SView) (e : Nat) (p : Pointer) : List (Nat × Nat) := visits data e (newIter data e p)

/-- positions one `IterateEpochPointer` call hands to the callback -/
def iterVisits {σ : Type} (data : List SView) (e : Nat) (p : Pointer) (max : Nat)
    (cb : σ → SView → Rec → σ × Nat) (acc : σ) : List (Nat × Nat) :=
  pagVisits data e cb max (totalRecs data + 1) (newIter data e p) 0 acc

theorem iterate_ptr {σ : Type} (data : List SView) (e : Nat) (p : Pointer) (max : Nat)
    (cb : σ → SView → Rec → σ × Nat) (acc : σ) :
    (iterateEpochPointer data e p max cb acc).1 =
      ptrOf data e (paginate data e cb max (totalRecs data + 1) (newIter data e p) 0 acc).1 := by
  unfold iterateEpochPointer ptrOf
  rfl

theorem iterate_acc {σ : Type} (data : List SView) (e : Nat) (p : Pointer) (max : Nat)
    (cb : σ → SView → Rec → σ × Nat) (acc : σ) :
    (iterateEpochPointer data e p max cb acc).2.2 = foldCb data cb acc (iterVisits data e p max cb acc) := by
  unfold iterateEpochPointer iterVisits
  exact paginate_acc data e cb max _ _ _ _

/-- **one block**: what was still to do = what this call did ++ what is still to do afterwards -/
theorem iterate_resume {σ : Type} (data : List SView) (e : Nat) (hs : SortedData data) (p : Pointer) (max : Nat)
    (cb : σ → SView → Rec → σ × Nat) (acc : σ) :
    remaining data e p = iterVisits data e p max cb acc ++
      remaining data e (iterateEpochPointer data e p max cb acc).1 := by
  unfold remaining
  rw [iterate_ptr, resume data e hs]
  exact paginate_prefix data e cb max _ _ _ _ (by have := rankU_le_total data (newIter data e p); omega)


/-! ### several blocks, then the unlimited call at the epoch end -/

/-- one block's call: its budget, its callback and the callback's initial state (fresh caches) -/
structure Round (σ : Type) where
  max : Nat
  cb : σ → SView → Rec → σ × Nat
  acc : σ

/-- a sequence of blocks threading the stored pointer; returns the final pointer and all visits -/
def pagedRun {σ : Type} (data : List SView) (e : Nat) : Pointer → List (Round σ) → Pointer × List (Nat × Nat)
  | p, [] => (p, [])
  | p, r :: rs =>
    let p' := (iterateEpochPointer data e p r.max r.cb r.acc).1
    ((pagedRun data e p' rs).1, iterVisits data e p r.max r.cb r.acc ++ (pagedRun data e p' rs).2)

theorem paged_concat {σ : Type} (data : List SView) (e : Nat) (hs : SortedData data) (rs : List (Round σ)) :
    ∀ p, remaining data e p = (pagedRun data e p rs).2 ++ remaining data e (pagedRun data e p rs).1 := by
  induction rs with
  | nil => intro p; simp [pagedRun]
  | cons r rs ih =>
    intro p
    simp only [pagedRun, List.append_assoc]
    rw [← ih]
    exact iterate_resume data e hs p r.max r.cb r.acc

theorem paginate_total_le {σ : Type} (data : List SView) (e : Nat) (cb : σ → SView → Rec → σ × Nat) (max B : Nat)
    (hB : ∀ acc s r, (cb acc s r).2 ≤ B) :
    ∀ fuel it total acc, (paginate data e cb max fuel it total acc).2.1 ≤
      total + B * (pagVisits data e cb max fuel it total acc).length := by
  intro fuel
  induction fuel with
  | zero => intro it total acc; simp [paginate, pagVisits]
  | succ n ih =>
    intro it total acc
    unfold paginate pagVisits
    split
    · cases hd : data[it.1]? with
      | none => simp
      | some s =>
        simp only [List.length_cons]
        have h1 := ih (iterNext data e it) (total + (cb acc s (s.recs.getD it.2 default)).2) (cb acc s (s.recs.getD it.2 default)).1
        have h2 := hB acc s (s.recs.getD it.2 default)
        have : B * ((pagVisits data e cb max n (iterNext data e it) (total + (cb acc s (s.recs.getD it.2 default)).2)
            (cb acc s (s.recs.getD it.2 default)).1).length + 1) =
            B * (pagVisits data e cb max n (iterNext data e it) (total + (cb acc s (s.recs.getD it.2 default)).2)
            (cb acc s (s.recs.getD it.2 default)).1).length + B := by rw [Nat.mul_add, Nat.mul_one]
        omega
    · simp

/-- a call whose budget exceeds every possible total (the epoch-end call with `IterationsNoLimit`)
    visits everything that was left and leaves the pointer at the end -/
theorem iterate_unlimited {σ : Type} (data : List SView) (e : Nat) (hs : SortedData data) (p : Pointer) (max B : Nat)
    (cb : σ → SView → Rec → σ × Nat) (acc : σ) (hB : ∀ acc s r, (cb acc s r).2 ≤ B) (hM : B * totalRecs data < max) :
    iterVisits data e p max cb acc = remaining data e p ∧
    remaining data e (iterateEpochPointer data e p max cb acc).1 = [] := by
  have hr : rankU data (newIter data e p) < totalRecs data + 1 := by
    have := rankU_le_total data (newIter data e p); omega
  have hpre := paginate_prefix data e cb max (totalRecs data + 1) (newIter data e p) 0 acc hr
  have hlen : (pagVisits data e cb max (totalRecs data + 1) (newIter data e p) 0 acc).length ≤ totalRecs data := by
    have h1 := visits_length_le data e (totalRecs data) (newIter data e p) (rankU_le_total data _)
    rw [hpre, List.length_append] at h1
    omega
  have htot := paginate_total_le data e cb max B hB (totalRecs data + 1) (newIter data e p) 0 acc
  have hstop := paginate_stop data e cb max (totalRecs data + 1) (newIter data e p) 0 acc hr
  have hmul : B * (pagVisits data e cb max (totalRecs data + 1) (newIter data e p) 0 acc).length ≤ B * totalRecs data :=
    Nat.mul_le_mul_left B hlen
  have hinv : validAt data e (paginate data e cb max (totalRecs data + 1) (newIter data e p) 0 acc).1.1
      (paginate data e cb max (totalRecs data + 1) (newIter data e p) 0 acc).1.2 = false := by
    rcases hstop with h | h
    · exact h
    · omega
  have hnil := visits_invalid data e _ hinv
  constructor
  · unfold iterVisits remaining
    rw [hpre, hnil, List.append_nil]
  · unfold remaining
    rw [iterate_ptr, resume data e hs, hnil]

/-- a call with a budget of at least one operation makes progress while something is left -/
theorem iterate_progress {σ : Type} (data : List SView) (e : Nat) (p : Pointer) (max : Nat)
    (cb : σ → SView → Rec → σ × Nat) (acc : σ) (hmax : 1 ≤ max) (hne : remaining data e p ≠ []) :
    iterVisits data e p max cb acc ≠ [] := by
  unfold iterVisits pagVisits
  have hv : validAt data e (newIter data e p).1 (newIter data e p).2 = true := by
    by_cases h : validAt data e (newIter data e p).1 (newIter data e p).2 = true
    · exact h
    · exact absurd (visits_invalid data e _ (by simpa using h)) hne
  obtain ⟨hlt, _, _⟩ := (validAt_iff data e _ _).1 hv
  have h0 : (decide (0 < max) && validAt data e (newIter data e p).1 (newIter data e p).2) = true := by
    simp [hv]; omega
  simp only [h0, if_true, List.getElem?_eq_getElem hlt]
  simp


/-! ### exactly once: the visits are the valid positions, in strictly increasing order -/

/-- lexicographic order on (stream index, gauge index) -/
def posLt (a b : Nat × Nat) : Prop := a.1 < b.1 ∨ (a.1 = b.1 ∧ a.2 < b.2)
def posLe (a b : Nat × Nat) : Prop := a = b ∨ posLt a b

theorem posLt_trans {a b c : Nat × Nat} (h1 : posLt a b) (h2 : posLt b c) : posLt a c := by
  unfold posLt at *; omega

theorem posLt_irrefl (a : Nat × Nat) : ¬ posLt a a := by unfold posLt; omega

theorem firstOk_prop (e : Nat) (l : List SView) : ∀ off,
    (∀ j, j < firstOk e l off - off → ∀ s, l[j]? = some s → sOk e s = false) ∧
    (∀ s, l[firstOk e l off - off]? = some s → sOk e s = true) := by
  induction l with
  | nil => intro off; simp [firstOk]
  | cons s rest ih =>
    intro off
    unfold firstOk
    by_cases hs : sOk e s = true
    · simp only [hs, if_true, Nat.sub_self]
      refine ⟨by intro j hj; omega, ?_⟩
      intro s' h'
      simp at h'
      rw [← h']; exact hs
    · have hs' : sOk e s = false := by simpa using hs
      simp only [hs', Bool.false_eq_true, if_false]
      have hge := firstOk_ge e rest (off + 1)
      have ⟨ih1, ih2⟩ := ih (off + 1)
      have hsub : firstOk e rest (off + 1) - off = (firstOk e rest (off + 1) - (off + 1)) + 1 := by omega
      constructor
      · intro j hj s' h'
        cases j with
        | zero => simp at h'; rw [← h']; exact hs'
        | succ j => simp only [List.getElem?_cons_succ] at h'; exact ih1 j (by omega) s' h'
      · intro s' h'
        rw [hsub] at h'
        simp only [List.getElem?_cons_succ] at h'
        exact ih2 s' h'

/-- `findNextStream`: the next acceptable stream after `si`, and nothing acceptable in between -/
theorem findNext_prop (data : List SView) (e si : Nat) :
    si + 1 ≤ (findNextStream data e si).1 ∧ (findNextStream data e si).2 = 0 ∧
    (∀ j, si < j → j < (findNextStream data e si).1 → ∀ h : j < data.length, sOk e data[j] = false) ∧
    (∀ h : (findNextStream data e si).1 < data.length, sOk e data[(findNextStream data e si).1] = true) := by
  unfold findNextStream
  simp only
  have hge := firstOk_ge e (data.drop (si + 1)) (si + 1)
  have ⟨h1, h2⟩ := firstOk_prop e (data.drop (si + 1)) (si + 1)
  refine ⟨hge, trivial, ?_, ?_⟩
  · intro j hj1 hj2 hjl
    apply h1 (j - (si + 1)) (by omega) data[j]
    rw [List.getElem?_drop]
    have e1 : si + 1 + (j - (si + 1)) = j := by omega
    rw [e1]; exact List.getElem?_eq_getElem hjl
  · intro h
    apply h2
    rw [List.getElem?_drop]
    have e1 : si + 1 + (firstOk e (data.drop (si + 1)) (si + 1) - (si + 1)) = firstOk e (data.drop (si + 1)) (si + 1) := by omega
    rw [e1]; exact List.getElem?_eq_getElem h

theorem sOk_nonempty {e : Nat} {s : SView} (h : sOk e s = true) : 0 < s.recs.length := by
  unfold sOk at h
  simp only [Bool.and_eq_true, Bool.not_eq_true', beq_iff_eq] at h
  cases hr : s.recs with
  | nil => simp [hr] at h
  | cons a b => simp

/-- `Next` moves to the least valid position above the current one -/
theorem next_least (data : List SView) (e : Nat) (it p : Nat × Nat) (hv : validAt data e it.1 it.2 = true)
    (hp : validAt data e p.1 p.2 = true) (hlt : posLt it p) :
    posLt it (iterNext data e it) ∧ posLe (iterNext data e it) p ∧
    validAt data e (iterNext data e it).1 (iterNext data e it).2 = true := by
  obtain ⟨hsi, hok, hgi⟩ := (validAt_iff data e it.1 it.2).1 hv
  obtain ⟨hpi, hpok, hpg⟩ := (validAt_iff data e p.1 p.2).1 hp
  unfold iterNext
  by_cases hn : validAt data e it.1 (it.2 + 1) = true
  · rw [if_pos hn]
    refine ⟨by unfold posLt; simp, ?_, hn⟩
    unfold posLe posLt at *
    simp only
    rcases hlt with h | ⟨h1, h2⟩
    · right; left; exact h
    · by_cases h3 : it.2 + 1 = p.2
      · left; exact Prod.ext h1 h3
      · right; right; exact ⟨h1, by omega⟩
  · rw [if_neg hn]
    have hn' : ¬ (it.2 + 1 < data[it.1].recs.length) := by
      intro hc
      exact hn ((validAt_iff data e it.1 (it.2 + 1)).2 ⟨hsi, hok, hc⟩)
    have hp1 : it.1 < p.1 := by
      rcases hlt with h | ⟨h1, h2⟩
      · exact h
      · exfalso
        have : data[p.1] = data[it.1] := by simp [h1]
        rw [this] at hpg
        omega
    obtain ⟨f1, f2, f3, f4⟩ := findNext_prop data e it.1
    have hle : (findNextStream data e it.1).1 ≤ p.1 := by
      apply Nat.le_of_not_lt
      intro hc
      have := f3 p.1 hp1 hc hpi
      rw [this] at hpok
      exact absurd hpok (by simp)
    have hfl : (findNextStream data e it.1).1 < data.length := by omega
    have hfv : validAt data e (findNextStream data e it.1).1 (findNextStream data e it.1).2 = true := by
      rw [f2]
      exact (validAt_iff data e _ 0).2 ⟨hfl, f4 hfl, sOk_nonempty (f4 hfl)⟩
    refine ⟨by unfold posLt; left; omega, ?_, hfv⟩
    unfold posLe posLt
    rw [f2]
    by_cases h5 : (findNextStream data e it.1).1 = p.1
    · by_cases h6 : p.2 = 0
      · left; exact Prod.ext h5 (by rw [f2, h6])
      · right; right; exact ⟨h5, by omega⟩
    · right; left; omega

/-- `Next` of a valid position is strictly above it (no hypothesis on other positions) -/
theorem next_gt (data : List SView) (e : Nat) (it : Nat × Nat) (hv : validAt data e it.1 it.2 = true) :
    posLt it (iterNext data e it) := by
  obtain ⟨hsi, _, _⟩ := (validAt_iff data e it.1 it.2).1 hv
  unfold iterNext
  split
  · unfold posLt; simp
  · have := (findNext_prop data e it.1).1
    unfold posLt; left; omega

theorem visits_sound (data : List SView) (e : Nat) : ∀ n it, rankU data it ≤ n →
    ∀ x ∈ visits data e it, validAt data e x.1 x.2 = true ∧ posLe it x := by
  intro n
  induction n with
  | zero =>
    intro it h x hx
    by_cases hv : validAt data e it.1 it.2 = true
    · have := rank_next data e it hv; omega
    · simp [visits_invalid data e it (by simpa using hv)] at hx
  | succ n ih =>
    intro it h x hx
    by_cases hv : validAt data e it.1 it.2 = true
    · rw [visits_valid data e it hv] at hx
      rcases List.mem_cons.1 hx with h1 | h1
      · subst h1; exact ⟨hv, Or.inl rfl⟩
      · have hr := rank_next data e it hv
        have ⟨a, b⟩ := ih (iterNext data e it) (by omega) x h1
        refine ⟨a, Or.inr ?_⟩
        have hg := next_gt data e it hv
        rcases b with b | b
        · rw [← b]; exact hg
        · exact posLt_trans hg b
    · simp [visits_invalid data e it (by simpa using hv)] at hx

theorem visits_pairwise (data : List SView) (e : Nat) : ∀ n it, rankU data it ≤ n →
    (visits data e it).Pairwise posLt := by
  intro n
  induction n with
  | zero =>
    intro it h
    by_cases hv : validAt data e it.1 it.2 = true
    · have := rank_next data e it hv; omega
    · simp [visits_invalid data e it (by simpa using hv)]
  | succ n ih =>
    intro it h
    by_cases hv : validAt data e it.1 it.2 = true
    · rw [visits_valid data e it hv]
      have hr := rank_next data e it hv
      refine List.Pairwise.cons ?_ (ih _ (by omega))
      intro x hx
      have ⟨_, b⟩ := visits_sound data e _ _ (Nat.le_refl _) x hx
      have hg := next_gt data e it hv
      rcases b with b | b
      · rw [← b]; exact hg
      · exact posLt_trans hg b
    · simp [visits_invalid data e it (by simpa using hv)]

theorem visits_complete (data : List SView) (e : Nat) : ∀ n it, rankU data it ≤ n →
    validAt data e it.1 it.2 = true → ∀ p, validAt data e p.1 p.2 = true → posLe it p → p ∈ visits data e it := by
  intro n
  induction n with
  | zero =>
    intro it h hv
    have := rank_next data e it hv; omega
  | succ n ih =>
    intro it h hv p hp hle
    rw [visits_valid data e it hv]
    rcases hle with h1 | h1
    · subst h1; exact List.mem_cons_self
    · have ⟨_, b, c⟩ := next_least data e it p hv hp h1
      have hr := rank_next data e it hv
      exact List.mem_cons_of_mem _ (ih _ (by omega) c p hp b)

theorem pairwise_posLt_nodup (l : List (Nat × Nat)) (h : l.Pairwise posLt) : l.Nodup := by
  unfold List.Nodup
  refine List.Pairwise.imp ?_ h
  intro a b hab heq
  subst heq
  exact posLt_irrefl a hab

/-- the iterator started from the first pointer begins at the least valid position -/
theorem newIter_first (data : List SView) (e : Nat) (hs : SortedData data) (p : Nat × Nat)
    (hp : validAt data e p.1 p.2 = true) :
    validAt data e (newIter data e Pointer.first).1 (newIter data e Pointer.first).2 = true ∧
    posLe (newIter data e Pointer.first) p := by
  obtain ⟨hpi, hpok, hpg⟩ := (validAt_iff data e p.1 p.2).1 hp
  have h0 : 0 < data.length := by omega
  unfold newIter Pointer.first
  simp only [binSearch_zero _ hs.ids, List.getElem?_eq_getElem h0]
  have hz : binSearch (data[0].recs.map (·.gauge)) 0 = 0 := binSearch_zero _ (hs.recs _ (List.getElem_mem h0))
  simp only [hz]
  by_cases hv : validAt data e 0 0 = true
  · rw [if_pos hv]
    refine ⟨hv, ?_⟩
    unfold posLe posLt
    by_cases h1 : p.1 = 0
    · by_cases h2 : p.2 = 0
      · left; exact Prod.ext h1.symm h2.symm
      · right; right; simp only; omega
    · right; left; simp only; omega
  · rw [if_neg hv]
    have hnok : sOk e data[0] = false := by
      cases hc : sOk e data[0] with
      | false => rfl
      | true => exact absurd ((validAt_iff data e 0 0).2 ⟨h0, hc, sOk_nonempty hc⟩) hv
    have hp1 : 0 < p.1 := by
      apply Nat.pos_of_ne_zero
      intro hc
      have : data[p.1] = data[0] := by simp [hc]
      rw [this, hnok] at hpok
      exact absurd hpok (by simp)
    obtain ⟨f1, f2, f3, f4⟩ := findNext_prop data e 0
    have hle : (findNextStream data e 0).1 ≤ p.1 := by
      apply Nat.le_of_not_lt
      intro hc
      have := f3 p.1 hp1 hc hpi
      rw [this] at hpok
      exact absurd hpok (by simp)
    have hfl : (findNextStream data e 0).1 < data.length := by omega
    refine ⟨?_, ?_⟩
    · rw [f2]; exact (validAt_iff data e _ 0).2 ⟨hfl, f4 hfl, sOk_nonempty (f4 hfl)⟩
    · unfold posLe posLt
      rw [f2]
      by_cases h5 : (findNextStream data e 0).1 = p.1
      · by_cases h6 : p.2 = 0
        · left; exact Prod.ext h5 (by rw [f2, h6])
        · right; right; exact ⟨h5, by omega⟩
      · right; left; omega

/-- **exactly once**: over an epoch (pointer reset to the first gauge) the positions to visit are exactly
    the valid (stream, gauge) positions, each once, in increasing order -/
theorem remaining_first_exact (data : List SView) (e : Nat) (hs : SortedData data) :
    (remaining data e Pointer.first).Nodup ∧
    ∀ p : Nat × Nat, p ∈ remaining data e Pointer.first ↔ validAt data e p.1 p.2 = true := by
  constructor
  · exact pairwise_posLt_nodup _ (visits_pairwise data e _ _ (Nat.le_refl _))
  · intro p
    constructor
    · intro h; exact (visits_sound data e _ _ (Nat.le_refl _) p h).1
    · intro hp
      have ⟨a, b⟩ := newIter_first data e hs p hp
      exact visits_complete data e _ _ (Nat.le_refl _) a p hp b

theorem strictInc_of_pairwise (l : List Nat) (h : l.Pairwise (· < ·)) : StrictInc l := by
  induction l with
  | nil => intro i j _ hj; simp at hj
  | cons x xs ih =>
    obtain ⟨h1, h2⟩ := List.pairwise_cons.1 h
    intro i j hij hj
    cases j with
    | zero => omega
    | succ j =>
      cases i with
      | zero =>
        simp only [List.getD_cons_zero, List.getD_cons_succ]
        have hj' : j < xs.length := by simpa using hj
        have : xs.getD j 0 = xs[j] := by simp [List.getD_eq_getElem?_getD, hj']
        rw [this]
        exact h1 _ (List.getElem_mem hj')
      | succ i =>
        simp only [List.getD_cons_succ]
        exact ih h2 i j (by omega) (by simpa using hj)


end DymVerif.Incent
