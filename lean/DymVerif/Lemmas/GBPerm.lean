/-
  Lemmas/GBPerm — the account-list comparison of the genesis bridge is multiset equality.
  Imports two single Mathlib modules (permutation / sub-permutation facts and sums over permutations).
-/
import DymVerif.Lemmas.GBBasic
import Mathlib.Data.List.Perm.Subperm
import Mathlib.Algebra.BigOperators.Group.List.Basic
namespace DymVerif.GB

/-- the heart of `compareGenesisAccounts`: same length and `hub ⊆ data` with `hub` duplicate-free
    force `data` to be a permutation of `hub` -/
theorem perm_of_nodup_subset_length {α : Type} (hub data : List α) (hn : hub.Nodup)
    (hl : hub.length = data.length) (hs : hub ⊆ data) : data.Perm hub :=
  ((List.subperm_of_subset hn hs).perm_of_length_le (by omega)).symm

theorem nodupB_nodup : ∀ (l : List Nat), nodupB l = true → l.Nodup
  | [], _ => List.nodup_nil
  | x :: xs, h => by
    simp only [nodupB, Bool.and_eq_true, Bool.not_eq_true', List.contains_eq_mem, decide_eq_false_iff_not] at h
    exact List.nodup_cons.2 ⟨h.1, nodupB_nodup xs h.2⟩

theorem nodup_of_map {α β : Type} (f : α → β) : ∀ l : List α, (l.map f).Nodup → l.Nodup
  | [], _ => List.nodup_nil
  | x :: xs, h => by
    rw [List.map_cons, List.nodup_cons] at h
    exact List.nodup_cons.2 ⟨fun hx => h.1 (List.mem_map_of_mem hx), nodup_of_map f xs h.2⟩

theorem compareAccounts_perm (hub data : List Acc) (hn : (hub.map (·.addr)).Nodup)
    (h : compareAccounts hub data = true) : data.Perm hub := by
  unfold compareAccounts at h
  simp only [Bool.and_eq_true, beq_iff_eq, List.all_eq_true, List.any_eq_true] at h
  refine perm_of_nodup_subset_length hub data (nodup_of_map _ _ hn) h.1 ?_
  intro a ha
  obtain ⟨b, hb, hab⟩ := h.2 a ha
  have : b = a := by
    cases a; cases b
    simp_all
  exact this ▸ hb

theorem creditedTo_perm {l l' : List Acc} (h : l.Perm l') (x : Nat) : creditedTo l x = creditedTo l' x := by
  unfold creditedTo
  exact ((h.filter _).map _).sum_eq

theorem sumAccs_perm {l l' : List Acc} (h : l.Perm l') : sumAccs l = sumAccs l' := by
  unfold sumAccs
  exact (h.map _).sum_eq

end DymVerif.GB
