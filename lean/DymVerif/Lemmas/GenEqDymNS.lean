/-
  Lemmas/GenEqDymNS — the facts re-extracted from x/dymns on every run (`Gen/DymNS.lean`, written by
  translate/dymns.go) equal what the hand-written model uses.  A change to the registration year
  length, the buy-order id prefixes, the bid-increment divisor or the price-step lookup in the Go
  code changes the generated term and breaks the corresponding lemma here.
-/
import DymVerif.Gen.DymNS
import DymVerif.Model.DymNS
namespace DymVerif.GenEq
open DymVerif

theorem dymns_yearSeconds_eq : Gen.DymNS.yearSeconds = DymNS.yearSeconds := by decide
theorem dymns_bidIncDivisor_eq : Gen.DymNS.bidIncDivisor = DymNS.bidIncDivisor := rfl
theorem dymns_orderPrefixName_eq : Gen.DymNS.orderPrefixName = DymNS.orderPrefix false := rfl
theorem dymns_orderPrefixAlias_eq : Gen.DymNS.orderPrefixAlias = DymNS.orderPrefix true := rfl
theorem dymns_elemAtIndexOrLast_eq : Gen.DymNS.elemAtIndexOrLast = DymNS.elemOrLast := rfl
/-- the price functions index the steps with `len(text) - 1` -/
theorem dymns_firstYearPrice_eq (p : DymNS.Params) (n : DymNS.Name) :
    DymNS.firstYearPrice p n = Gen.DymNS.elemAtIndexOrLast p.nameSteps (DymNS.nameLen n - Gen.DymNS.nameStepIndexOffset) := rfl
theorem dymns_aliasPrice_eq (p : DymNS.Params) (l : DymNS.AliasId) :
    DymNS.aliasPrice p l = Gen.DymNS.elemAtIndexOrLast p.aliasSteps (DymNS.aliasLen l - Gen.DymNS.aliasStepIndexOffset) := rfl

end DymVerif.GenEq
