/-
  Lemmas/GenesisRefs — time-classified reference stores (x/incentives gauges, x/streamer streams):
  what a loop of `Set…WithRefKey` builds (`refs_fold_spec`), when two reference sections are equal
  (`refs_ext`), and the import theorem `refstore_import`: importing ANY listing `seq` of the
  not-finished records rebuilds the store, provided the records' classes agree with the clock
  (`ClsOk`), nothing is finished, and `seq` lists the ids of every (class, start time) in the stored
  order (`OrderOk`).
-/
import DymVerif.Lemmas.GenesisKV
namespace DymVerif.Genesis
open DymVerif

/-- the id list under a time key ([] when the key is absent) -/
def look (t : Nat) (r : Refs) : List Nat := (kvGet t r).getD []

/-- empty id lists are never stored (`delete…RefByKey` removes the key with its last id) -/
def NoEmpty (r : Refs) : Prop := ∀ e ∈ r, e.2 ≠ []

theorem look_of_mem {r : Refs} (hs : Sorted ltNat r) {t : Nat} {l : List Nat} (h : (t, l) ∈ r) : look t r = l := by
  unfold look; rw [(kvGet_eq_some_iff soNat hs t l).2 h]; rfl

theorem mem_of_look {r : Refs} {t : Nat} {l : List Nat} (h : look t r = l) (hne : l ≠ []) : (t, l) ∈ r := by
  unfold look at h
  cases hg : kvGet t r with
  | none => rw [hg] at h; exact absurd h.symm hne
  | some l' => rw [hg] at h; simp at h; rw [← h]; exact kvGet_some hg

theorem look_refAdd {r : Refs} (hs : Sorted ltNat r) (t t0 id0 : Nat) :
    look t (refAdd t0 id0 r) = if t = t0 then look t0 r ++ [id0] else look t r := by
  unfold refAdd look
  by_cases h : t = t0
  · subst h; rw [if_pos rfl, kvGet_kvSet_self soNat hs]; rfl
  · rw [if_neg h, kvGet_kvSet_ne soNat hs _ h]

theorem sorted_refAdd {r : Refs} (hs : Sorted ltNat r) (t id : Nat) : Sorted ltNat (refAdd t id r) :=
  sorted_kvSet soNat _ _ hs

theorem noEmpty_refAdd {r : Refs} (hs : Sorted ltNat r) (hn : NoEmpty r) (t id : Nat) : NoEmpty (refAdd t id r) := by
  intro e he
  rcases (mem_kvSet soNat _ _ hs e).1 he with rfl | ⟨h, _⟩
  · simp
  · exact hn e h

/-- what a loop of `add…RefByKey` builds, key by key -/
theorem refs_fold_spec : ∀ (ps : List (Nat × Nat)) (acc : Refs), Sorted ltNat acc → NoEmpty acc →
    Sorted ltNat (ps.foldl (fun m p => refAdd p.1 p.2 m) acc) ∧
    NoEmpty (ps.foldl (fun m p => refAdd p.1 p.2 m) acc) ∧
    ∀ t, look t (ps.foldl (fun m p => refAdd p.1 p.2 m) acc) =
      look t acc ++ (ps.filter (fun p => decide (p.1 = t))).map (·.2)
  | [], acc, hs, hn => ⟨hs, hn, fun t => by simp⟩
  | p :: ps, acc, hs, hn => by
    have ih := refs_fold_spec ps (refAdd p.1 p.2 acc) (sorted_refAdd hs _ _) (noEmpty_refAdd hs hn _ _)
    refine ⟨ih.1, ih.2.1, fun t => ?_⟩
    rw [List.foldl_cons, ih.2.2 t, look_refAdd hs, List.filter_cons]
    by_cases h : p.1 = t
    · subst h; simp
    · have h' : ¬ t = p.1 := fun e => h e.symm
      simp [h, h']

theorem refs_ext {r₁ r₂ : Refs} (h₁ : Sorted ltNat r₁) (h₂ : Sorted ltNat r₂) (n₁ : NoEmpty r₁) (n₂ : NoEmpty r₂)
    (h : ∀ t, look t r₁ = look t r₂) : r₁ = r₂ := by
  apply sorted_ext soNat h₁ h₂
  intro e
  constructor
  · intro he
    have := look_of_mem h₁ (t := e.1) (l := e.2) he
    exact mem_of_look ((h e.1).symm.trans this) (n₁ e he)
  · intro he
    have := look_of_mem h₂ (t := e.1) (l := e.2) he
    exact mem_of_look ((h e.1).trans this) (n₂ e he)

/-! ### projections of the import loop -/

/-- the (start time, id) pairs a listing contributes to class `c` -/
def clsPairs (now : Nat) (c : Cls) (xs : List Item) : List (Nat × Nat) :=
  (xs.filter fun x => decide (x.cls now = c)).map fun x => (x.start, x.id)

theorem setWithRef_refs (now : Nat) (s : RefStore) (x : Item) (c : Cls) :
    (RefStore.setWithRef now s x).refs c = if x.cls now = c then refAdd x.start x.id (s.refs c) else s.refs c := by
  unfold RefStore.setWithRef
  cases h : x.cls now <;> cases c <;> simp [RefStore.refs]

theorem foldl_setWithRef_items (now : Nat) (xs : List Item) (s : RefStore) :
    (xs.foldl (RefStore.setWithRef now) s).items = xs.foldl (fun m x => kvSet ltNat x.id (id x) m) s.items := by
  apply foldl_proj (RefStore.setWithRef now) (·.items)
  intro s x
  unfold RefStore.setWithRef
  cases x.cls now <;> rfl

theorem foldl_setWithRef_refs (now : Nat) (c : Cls) (xs : List Item) (s : RefStore) :
    (xs.foldl (RefStore.setWithRef now) s).refs c = (clsPairs now c xs).foldl (fun m p => refAdd p.1 p.2 m) (s.refs c) := by
  induction xs generalizing s with
  | nil => rfl
  | cons x xs ih =>
    rw [List.foldl_cons, ih, setWithRef_refs]
    unfold clsPairs
    rw [List.filter_cons]
    by_cases h : x.cls now = c
    · simp [h]
    · simp [h]

/-! ### the store invariant -/

structure RsInv (s : RefStore) : Prop where
  si : Sorted ltNat s.items
  ki : Keyed (fun x : Item => x.id) s.items
  sr : ∀ c, Sorted ltNat (s.refs c)
  ne : ∀ c, NoEmpty (s.refs c)
  /-- every reference points to a stored record that starts at the reference's time key -/
  pts : ∀ c, ∀ e ∈ s.refs c, ∀ id ∈ e.2, ∃ x, (id, x) ∈ s.items ∧ x.start = e.1
  /-- every stored record is referenced … -/
  cov : ∀ e ∈ s.items, ∃ c, e.1 ∈ refIds (s.refs c)
  /-- … exactly once -/
  nd : (refIds s.active ++ refIds s.upcoming ++ refIds s.finished).Nodup

/-- the class of every referenced record, computed from the clock, is the class it is filed under -/
def ClsOk (s : RefStore) (now : Nat) : Prop :=
  ∀ c, ∀ e ∈ s.refs c, ∀ id ∈ e.2, ∀ x, (id, x) ∈ s.items → x.cls now = c

/-- the listing shows the ids of every (class, start time) in the stored order -/
def OrderOk (s : RefStore) (now : Nat) (seq : List Item) : Prop :=
  ∀ c t, (seq.filter fun x => decide (x.cls now = c) && decide (x.start = t)).map (·.id) = look t (s.refs c)

theorem mem_refIds {r : Refs} {id : Nat} : id ∈ refIds r ↔ ∃ e ∈ r, id ∈ e.2 := by
  unfold refIds; exact List.mem_flatMap

theorem RsInv.item_of_ref {s : RefStore} (h : RsInv s) {c : Cls} {id : Nat} (hid : id ∈ refIds (s.refs c)) :
    ∃ x, kvGet id s.items = some x ∧ x.id = id ∧ ∃ e ∈ s.refs c, id ∈ e.2 ∧ x.start = e.1 := by
  obtain ⟨e, he, hie⟩ := mem_refIds.1 hid
  obtain ⟨x, hx, hst⟩ := h.pts c e he id hie
  exact ⟨x, (kvGet_eq_some_iff soNat h.si id x).2 hx, (h.ki _ hx).symm, e, he, hie, hst⟩

theorem filterMap_ids (items : KV Nat Item) : ∀ (ids : List Nat),
    (∀ id ∈ ids, ∃ x, kvGet id items = some x ∧ x.id = id) →
    (ids.filterMap fun id => kvGet id items).map (·.id) = ids
  | [], _ => rfl
  | i :: ids, h => by
    obtain ⟨x, hx, hxi⟩ := h i List.mem_cons_self
    rw [List.filterMap_cons, hx]
    simp only [List.map_cons, hxi]
    rw [filterMap_ids items ids (fun j hj => h j (List.mem_cons_of_mem _ hj))]

theorem RsInv.itemsOf_ids {s : RefStore} (h : RsInv s) (c : Cls) : (s.itemsOf (s.refs c)).map (·.id) = refIds (s.refs c) := by
  unfold RefStore.itemsOf
  apply filterMap_ids
  intro id hid
  obtain ⟨x, hx, hxi, _⟩ := h.item_of_ref hid
  exact ⟨x, hx, hxi⟩

theorem mem_itemsOf {s : RefStore} {r : Refs} {x : Item} :
    x ∈ s.itemsOf r ↔ ∃ id ∈ refIds r, kvGet id s.items = some x := by
  unfold RefStore.itemsOf; exact List.mem_filterMap

theorem nodup_of_map {α γ : Type} (f : α → γ) {l : List α} (h : (l.map f).Nodup) : l.Nodup := by
  induction l with
  | nil => exact List.nodup_nil
  | cons a l ih =>
    rw [List.map_cons, List.nodup_cons] at h
    rw [List.nodup_cons]
    exact ⟨fun ha => h.1 (List.mem_map.2 ⟨a, ha, rfl⟩), ih h.2⟩

theorem inj_on_of_nodup_map {α γ : Type} (f : α → γ) {l : List α} (h : (l.map f).Nodup) :
    ∀ x ∈ l, ∀ y ∈ l, f x = f y → x = y := by
  induction l with
  | nil => intro x hx; cases hx
  | cons a l ih =>
    rw [List.map_cons, List.nodup_cons] at h
    intro x hx y hy hxy
    rcases List.mem_cons.1 hx with rfl | hx' <;> rcases List.mem_cons.1 hy with rfl | hy'
    · rfl
    · exact absurd (List.mem_map.2 ⟨y, hy', hxy.symm⟩) h.1
    · exact absurd (List.mem_map.2 ⟨x, hx', hxy⟩) h.1
    · exact ih h.2 x hx' y hy' hxy

theorem RsInv.notFinished_ids {s : RefStore} (h : RsInv s) :
    s.notFinished.map (·.id) = refIds s.active ++ refIds s.upcoming := by
  unfold RefStore.notFinished
  rw [List.map_append]
  have a := h.itemsOf_ids .active
  have u := h.itemsOf_ids .upcoming
  simp only [RefStore.refs] at a u
  rw [a, u]

theorem RsInv.notFinished_ids_nodup {s : RefStore} (h : RsInv s) : (s.notFinished.map (·.id)).Nodup := by
  rw [h.notFinished_ids]
  exact List.Nodup.sublist (List.sublist_append_left _ _) h.nd

/-- with nothing finished, the not-finished listing is the whole record section (in another order) -/
theorem RsInv.notFinished_perm {s : RefStore} (h : RsInv s) (hf : s.finished = []) :
    s.notFinished.Perm (exportVals s.items) := by
  rw [List.perm_ext_iff_of_nodup (nodup_of_map _ h.notFinished_ids_nodup) (exportVals_nodup soNat h.si h.ki)]
  intro x
  rw [mem_exportVals h.ki]
  unfold RefStore.notFinished
  rw [List.mem_append]
  constructor
  · rintro (hx | hx) <;>
    · obtain ⟨id, _, hg⟩ := mem_itemsOf.1 hx
      have hm := kvGet_some hg
      have hk : id = x.id := h.ki _ hm
      rw [← hk]; exact hm
  · intro hx
    obtain ⟨c, hc⟩ := h.cov _ hx
    have hg : kvGet x.id s.items = some x := (kvGet_eq_some_iff soNat h.si _ _).2 hx
    cases c with
    | upcoming => exact Or.inr (mem_itemsOf.2 ⟨_, hc, hg⟩)
    | active => exact Or.inl (mem_itemsOf.2 ⟨_, hc, hg⟩)
    | finished => simp [RefStore.refs, hf, refIds] at hc

/-- **import of a listing of the not-finished records** -/
theorem refstore_import {s : RefStore} {now : Nat} (h : RsInv s) (hf : s.finished = [])
    {seq : List Item} (hp : seq.Perm s.notFinished) (ho : OrderOk s now seq) :
    RefStore.importAll now seq = some s := by
  have hids : (seq.map (·.id)).Nodup := (hp.map _).nodup_iff.2 h.notFinished_ids_nodup
  have hdup : refDup now seq = false := by
    unfold refDup
    rw [decide_eq_false_iff_not, Classical.not_not]
    apply nodup_map_on (nodup_of_map _ hids)
    intro x hx y hy hxy
    exact inj_on_of_nodup_map _ hids x hx y hy (congrArg (fun t => t.2.2) hxy)
  unfold RefStore.importAll
  rw [hdup]
  simp only [Bool.false_eq_true, if_false, Option.some.injEq]
  have hitems : (seq.foldl (RefStore.setWithRef now) RefStore.empty).items = s.items := by
    rw [foldl_setWithRef_items]
    exact importVals_perm soNat h.si h.ki (hp.trans (h.notFinished_perm hf))
  have hrefs : ∀ c, (seq.foldl (RefStore.setWithRef now) RefStore.empty).refs c = s.refs c := by
    intro c
    rw [foldl_setWithRef_refs]
    have sp := refs_fold_spec (clsPairs now c seq) (RefStore.empty.refs c)
      (by cases c <;> exact sorted_nil) (by cases c <;> (intro e he; cases he))
    apply refs_ext sp.1 (h.sr c) sp.2.1 (h.ne c)
    intro t
    rw [sp.2.2 t, ← ho c t]
    have e0 : look t (RefStore.empty.refs c) = [] := by cases c <;> rfl
    rw [e0, List.nil_append]
    unfold clsPairs
    rw [List.filter_map, List.map_map, List.filter_filter]
    have e1 : (fun a : Item => ((fun p : Nat × Nat => decide (p.fst = t)) ∘ fun x : Item => (x.start, x.id)) a && decide (a.cls now = c)) =
        (fun x : Item => decide (x.cls now = c) && decide (x.start = t)) := by
      funext a
      show (decide (a.start = t) && decide (a.cls now = c)) = (decide (a.cls now = c) && decide (a.start = t))
      exact Bool.and_comm _ _
    rw [e1]
    rfl
  have h1 := hrefs .upcoming
  have h2 := hrefs .active
  have h3 := hrefs .finished
  simp only [RefStore.refs] at h1 h2 h3
  generalize (seq.foldl (RefStore.setWithRef now) RefStore.empty) = t at hitems h1 h2 h3
  cases t; cases s; simp_all

/-! ### the stored order: what `GetNotFinished…` itself lists -/

theorem look_cons (t t1 : Nat) (l1 : List Nat) (rest : Refs) :
    look t ((t1, l1) :: rest) = if t1 = t then l1 else look t rest := by
  unfold look kvGet
  rw [List.find?_cons]
  by_cases h : t1 = t <;> simp [h]

theorem look_not_key {r : Refs} {t : Nat} (h : ∀ e ∈ r, e.1 ≠ t) : look t r = [] := by
  unfold look
  cases hg : kvGet t r with
  | none => rfl
  | some l => exact absurd rfl (h _ (kvGet_some hg))

theorem filter_ids_one (items : KV Nat Item) (p : Item → Bool) (t1 : Nat) : ∀ (l : List Nat),
    (∀ id ∈ l, ∃ x, kvGet id items = some x ∧ x.id = id ∧ p x = true) →
    ((l.filterMap fun id => kvGet id items).filter p).map (·.id) = l
  | [], _ => rfl
  | i :: l, h => by
    obtain ⟨x, hx, hxi, hp⟩ := h i List.mem_cons_self
    rw [List.filterMap_cons, hx]
    simp only [List.filter_cons, hp, if_true, List.map_cons, hxi]
    rw [filter_ids_one items p t1 l (fun j hj => h j (List.mem_cons_of_mem _ hj))]

theorem filter_ids_none (items : KV Nat Item) (p : Item → Bool) : ∀ (l : List Nat),
    (∀ id ∈ l, ∀ x, kvGet id items = some x → p x = false) →
    ((l.filterMap fun id => kvGet id items).filter p) = []
  | [], _ => rfl
  | i :: l, h => by
    rw [List.filterMap_cons]
    cases hg : kvGet i items with
    | none => exact filter_ids_none items p l (fun j hj => h j (List.mem_cons_of_mem _ hj))
    | some x =>
      simp only [List.filter_cons, h i List.mem_cons_self x hg]
      exact filter_ids_none items p l (fun j hj => h j (List.mem_cons_of_mem _ hj))

/-- the records behind one reference section, restricted to one start time, are that key's id list -/
theorem itemsOf_filter_start (items : KV Nat Item) (q : Item → Bool) (t : Nat) : ∀ (r : Refs), Sorted ltNat r →
    (∀ e ∈ r, ∀ id ∈ e.2, ∃ x, kvGet id items = some x ∧ x.id = id ∧ x.start = e.1 ∧ q x = true) →
    (((refIds r).filterMap fun id => kvGet id items).filter fun x => q x && decide (x.start = t)).map (·.id) = look t r
  | [], _, _ => rfl
  | (t1, l1) :: rest, hs, h => by
    have hs' := sorted_cons.1 hs
    have ih := itemsOf_filter_start items q t rest hs'.2 (fun e he => h e (List.mem_cons_of_mem _ he))
    have hsplit : refIds ((t1, l1) :: rest) = l1 ++ refIds rest := by simp [refIds]
    rw [hsplit, List.filterMap_append, List.filter_append, List.map_append, ih, look_cons]
    by_cases ht : t1 = t
    · subst ht
      rw [if_pos rfl]
      have hrest : look t1 rest = [] := look_not_key (fun e he => (soNat.ne_of_lt (hs'.1 e he)).symm)
      rw [hrest, List.append_nil]
      apply filter_ids_one items _ t1
      intro id hid
      obtain ⟨x, hx, hxi, hst, hq⟩ := h (t1, l1) List.mem_cons_self id hid
      exact ⟨x, hx, hxi, by simp [hq, hst]⟩
    · rw [if_neg ht]
      rw [filter_ids_none items _ l1 ?_]
      · rfl
      · intro id hid x hx
        obtain ⟨x', hx', _, hst, _⟩ := h (t1, l1) List.mem_cons_self id hid
        rw [hx] at hx'; cases hx'
        simp [hst, ht]

/-- `GetNotFinished…` lists every class's ids in the stored order -/
theorem orderOk_notFinished {s : RefStore} {now : Nat} (h : RsInv s) (hc : ClsOk s now) (hf : s.finished = []) :
    OrderOk s now s.notFinished := by
  intro c t
  -- the part of the listing that comes from class c' contributes to class c only when c' = c
  have part : ∀ c', (((s.itemsOf (s.refs c')).filter fun x => decide (x.cls now = c) && decide (x.start = t)).map (·.id)) =
      if c' = c then look t (s.refs c) else [] := by
    intro c'
    unfold RefStore.itemsOf
    by_cases hcc : c' = c
    · subst hcc
      rw [if_pos rfl]
      apply itemsOf_filter_start s.items (fun x => decide (x.cls now = c')) t (s.refs c') (h.sr c')
      intro e he id hid
      obtain ⟨x, hx, hst⟩ := h.pts c' e he id hid
      exact ⟨x, (kvGet_eq_some_iff soNat h.si id x).2 hx, (h.ki _ hx).symm, hst, by simp [hc c' e he id hid x hx]⟩
    · rw [if_neg hcc, filter_ids_none]
      · rfl
      · intro id hid x hx
        obtain ⟨e, he, hie⟩ := mem_refIds.1 hid
        have := hc c' e he id hie x (kvGet_some hx)
        simp [this, hcc]
  unfold RefStore.notFinished
  rw [List.filter_append, List.map_append]
  have pa := part .active
  have pu := part .upcoming
  simp only [RefStore.refs] at pa pu
  rw [pa, pu]
  cases c with
  | upcoming => simp [RefStore.refs]
  | active => simp [RefStore.refs]
  | finished => simp [RefStore.refs, hf, look, kvGet]

/-! ### a listing sorted by id -/

theorem mem_insertBy {β : Type} (lt : β → β → Bool) (x y : β) (l : List β) : y ∈ insertBy lt x l ↔ y = x ∨ y ∈ l :=
  (insertBy_perm lt x l).mem_iff.trans List.mem_cons

/-- insertion into an ascending list keeps it ascending (ids are pairwise distinct) -/
theorem insertBy_asc (x : Item) : ∀ (l : List Item), l.Pairwise (fun a b => a.id < b.id) → (∀ y ∈ l, y.id ≠ x.id) →
    (insertBy ltStream x l).Pairwise (fun a b => a.id < b.id)
  | [], _, _ => by simp [insertBy]
  | y :: ys, hl, hne => by
    have hl' := List.pairwise_cons.1 hl
    unfold insertBy
    by_cases h : ltStream y x = true
    · rw [if_pos h]
      apply List.pairwise_cons.2 ⟨?_, insertBy_asc x ys hl'.2 (fun z hz => hne z (List.mem_cons_of_mem _ hz))⟩
      intro z hz
      rcases (mem_insertBy ltStream x z ys).1 hz with rfl | hz'
      · simpa [ltStream] using h
      · exact hl'.1 z hz'
    · rw [if_neg h]
      have hxy : x.id < y.id := by
        have := hne y List.mem_cons_self
        simp [ltStream] at h; omega
      apply List.pairwise_cons.2 ⟨?_, hl⟩
      intro z hz
      rcases List.mem_cons.1 hz with rfl | hz'
      · exact hxy
      · exact Nat.lt_trans hxy (hl'.1 z hz')

theorem sortBy_asc : ∀ (l : List Item), (l.map (·.id)).Nodup → (sortBy ltStream l).Pairwise (fun a b => a.id < b.id)
  | [], _ => List.Pairwise.nil
  | x :: xs, h => by
    rw [List.map_cons, List.nodup_cons] at h
    apply insertBy_asc x _ (sortBy_asc xs h.2)
    intro y hy he
    exact h.1 (List.mem_map.2 ⟨y, (sortBy_perm ltStream xs).mem_iff.1 hy, he⟩)

/-- two strictly ascending lists with the same members are equal -/
theorem asc_ext : ∀ {a b : List Nat}, a.Pairwise (· < ·) → b.Pairwise (· < ·) → (∀ x, x ∈ a ↔ x ∈ b) → a = b
  | [], [], _, _, _ => rfl
  | [], y :: _, _, _, h => absurd ((h y).2 List.mem_cons_self) (by simp)
  | x :: _, [], _, _, h => absurd ((h x).1 List.mem_cons_self) (by simp)
  | x :: a, y :: b, ha, hb, h => by
    rw [List.pairwise_cons] at ha hb
    have hxy : x = y := by
      rcases List.mem_cons.1 ((h x).1 List.mem_cons_self) with e | hx
      · exact e
      · rcases List.mem_cons.1 ((h y).2 List.mem_cons_self) with e | hy
        · exact e.symm
        · have := ha.1 y hy; have := hb.1 x hx; omega
    subst hxy
    congr 1
    apply asc_ext ha.2 hb.2
    intro z
    constructor
    · intro hz
      rcases List.mem_cons.1 ((h z).1 (List.mem_cons_of_mem _ hz)) with rfl | h'
      · have := ha.1 _ hz; omega
      · exact h'
    · intro hz
      rcases List.mem_cons.1 ((h z).2 (List.mem_cons_of_mem _ hz)) with rfl | h'
      · have := hb.1 _ hz; omega
      · exact h'

/-- every stored id list is ascending (true when records are activated in id order) -/
def AscLists (s : RefStore) : Prop := ∀ c, ∀ e ∈ s.refs c, e.2.Pairwise (· < ·)

/-- the id-sorted listing shows every (class, start time) in the stored order iff that order is ascending -/
theorem orderOk_sorted {s : RefStore} {now : Nat} (h : RsInv s) (hc : ClsOk s now) (hf : s.finished = [])
    (ha : AscLists s) : OrderOk s now (sortBy ltStream s.notFinished) := by
  intro c t
  have hperm := sortBy_perm ltStream s.notFinished
  have hasc := sortBy_asc s.notFinished h.notFinished_ids_nodup
  have hlhs : (((sortBy ltStream s.notFinished).filter fun x => decide (x.cls now = c) && decide (x.start = t)).map (·.id)).Pairwise (· < ·) := by
    rw [List.pairwise_map]
    exact List.Pairwise.sublist List.filter_sublist hasc
  have hunsorted := orderOk_notFinished h hc hf c t
  have hmem : ∀ z, z ∈ ((sortBy ltStream s.notFinished).filter fun x => decide (x.cls now = c) && decide (x.start = t)).map (·.id) ↔
      z ∈ look t (s.refs c) := by
    intro z
    rw [← hunsorted]
    exact ((hperm.filter _).map _).mem_iff
  have hrhs : (look t (s.refs c)).Pairwise (· < ·) := by
    unfold look
    cases hg : kvGet t (s.refs c) with
    | none => exact List.Pairwise.nil
    | some l => exact ha c _ (kvGet_some hg)
  exact asc_ext hlhs hrhs hmem

/-! ### x/streamer epoch pointers -/

/-- entries of a loop of `Set`s come from the start section or from the items -/
theorem mem_foldl_kvSet_sub {κ β γ : Type} {lt : κ → κ → Bool} (so : StrictOrder lt) (kf : γ → κ) (vf : γ → β) :
    ∀ (items : List γ) (acc : KV κ β), Sorted lt acc →
      ∀ e, e ∈ items.foldl (fun s x => kvSet lt (kf x) (vf x) s) acc → e ∈ acc ∨ ∃ x ∈ items, e = (kf x, vf x)
  | [], _, _, e, h => Or.inl h
  | x :: rest, acc, ha, e, h => by
    rcases mem_foldl_kvSet_sub so kf vf rest _ (sorted_kvSet so _ _ ha) e h with h1 | ⟨y, hy, rfl⟩
    · rcases (mem_kvSet so _ _ ha e).1 h1 with rfl | ⟨h2, _⟩
      · exact Or.inr ⟨x, List.mem_cons_self, rfl⟩
      · exact Or.inl h2
    · exact Or.inr ⟨y, List.mem_cons_of_mem _ hy, rfl⟩

/-- the pointer section survives when every epoch of x/epochs already has its pointer (the fresh
    pointers written first are then all overwritten) -/
theorem strInitPointers_export {ptrs : KV Bytes Pointer} (hs : Sorted lexLt ptrs) (hk : Keyed (fun p : Pointer => p.epochId) ptrs)
    (epochs : List (Bytes × Nat)) (hcov : ∀ ep ∈ epochs, ∃ e ∈ ptrs, e.1 = ep.1) :
    strInitPointers epochs (exportVals ptrs) = ptrs := by
  unfold strInitPointers
  have hacc : Sorted lexLt (epochs.foldl (fun m e => kvSet lexLt (newEpochPointer e).epochId (newEpochPointer e) m) []) :=
    sorted_foldl_kvSet soBytes (fun e => (newEpochPointer e).epochId) newEpochPointer epochs sorted_nil
  have hkeys : (exportVals ptrs).map (fun p : Pointer => p.epochId) = ptrs.map (·.1) := by
    unfold exportVals; rw [List.map_map]
    apply List.map_congr_left
    intro e he; exact (hk e he).symm
  have hn : ((exportVals ptrs).map (fun p : Pointer => p.epochId)).Nodup := by rw [hkeys]; exact hs.keys_nodup soBytes
  have sp := foldl_kvSet_spec soBytes (fun p : Pointer => p.epochId) (fun p => p) (exportVals ptrs) _ hacc hn
  apply sorted_ext soBytes sp.1 hs
  intro e
  rw [sp.2 e]
  constructor
  · rintro (⟨h1, h2⟩ | ⟨p, hp, rfl⟩)
    · exfalso
      rcases mem_foldl_kvSet_sub soBytes _ _ epochs [] sorted_nil e h1 with h0 | ⟨ep, hep, rfl⟩
      · cases h0
      · obtain ⟨e', he', hk'⟩ := hcov ep hep
        apply h2
        rw [hkeys]
        exact List.mem_map.2 ⟨e', he', hk'⟩
    · obtain ⟨x, hx, rfl⟩ := List.mem_map.1 hp
      have hkx : x.1 = x.2.epochId := hk x hx
      rw [← hkx]; exact hx
  · intro he
    refine Or.inr ⟨e.2, List.mem_map.2 ⟨e, he, rfl⟩, ?_⟩
    have hke : e.1 = e.2.epochId := hk e he
    rw [← hke]

end DymVerif.Genesis
