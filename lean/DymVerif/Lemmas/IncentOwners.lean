/-
  Lemmas/IncentOwners — where "no recipient is a blocked address" (`NoBlocked`) comes from, and what ONE failing
  recipient does to the two Distribute call sites (feeds C11, incentives / streamer side).

  M-Incent takes the lock table and the rollapp records as free inputs (`Op.locks`, `Op.rollapp`), so
  `NoBlocked` is an INPUT well-formedness:
    * `Op.lockOwnersOK`            every lock of a `.locks ls` line has a non-blocked owner.  Discharged in M-Lockup
                                   (Props/C14, C11 lockup side): a lock is created by its owner's own `MsgLockTokens`
                                   — the owner is the signer — and module accounts do not sign.
    * `Op.rollappOwnerNotBlocked`  the owner of a `.rollapp r o l` line is not blocked.  THE HYPOTHESIS LEFT OPEN
                                   HERE: it is being discharged in M-Core (rollapp creation needs the owner's
                                   signature; `MsgTransferOwnership` refuses blocked addresses since fix F4,
                                   commit 64b101c36 — before it this failed: `endblock_blocked_owner_counterexample`).
  `run_noblocked` carries both along every history; `run_good` packages GInv ∧ RollOK ∧ NoBlocked, also through
  the states INSIDE a `begin` step (`epochTick_good`, `applyHook_good`), which is where the incentives epoch hook runs.

  No per-recipient isolation (Go `distributeTrackedRewards`: the first failing `SendCoinsFromModuleToAccount`
  returns the error): `payAll_blocked_fails` — ANY tracker containing a blocked recipient fails as a whole,
  whatever the other recipients and the bank are.
-/
import DymVerif.Lemmas.IncentBlocks
namespace DymVerif.Incent
open DymVerif Coins

/-- input well-formedness of the lock table (discharged in M-Lockup: locks are created by their owner's own message) -/
def Op.lockOwnersOK : Op → Prop
  | .locks ls => ∀ l ∈ ls, blocked l.owner = false
  | _ => True

/-- input well-formedness of the rollapp records — the NAMED OPEN HYPOTHESIS (M-Core discharges it: owners sign
    the creation, and since fix F4 `MsgTransferOwnership` refuses blocked addresses) -/
def Op.rollappOwnerNotBlocked : Op → Prop
  | .rollapp _ o _ => blocked o = false
  | _ => True

instance (op : Op) : Decidable op.lockOwnersOK := by
  cases op <;> (unfold Op.lockOwnersOK; infer_instance)
instance (op : Op) : Decidable op.rollappOwnerNotBlocked := by
  cases op <;> (unfold Op.rollappOwnerNotBlocked; infer_instance)

theorem NoBlocked_congr {s s' : State} (h1 : s'.locks = s.locks) (h2 : s'.rollapps = s.rollapps) (h : NoBlocked s) : NoBlocked s' := by
  unfold NoBlocked; rw [h1, h2]; exact h

theorem NoBlocked_of_pay {s s' : State} (h : NoBlocked s) (hp : Pay s s') : NoBlocked s' := NoBlocked_congr hp.locks hp.rollapps h
theorem NoBlocked_of_same {s s' : State} (h : NoBlocked s) (hp : Same s s') : NoBlocked s' := NoBlocked_congr hp.2.2.1 hp.2.2.2 h

theorem setRollapp_noblocked (l : List Rollapp) (r : Nat) (x : Rollapp) (hl : ∀ ra ∈ l, blocked ra.owner = false)
    (hx : blocked x.owner = false) : ∀ ra ∈ setRollapp l r x, blocked ra.owner = false := by
  intro ra hra
  unfold setRollapp at hra
  split at hra
  · rcases List.mem_or_eq_of_mem_set hra with h | h
    · exact hl ra h
    · rw [h]; exact hx
  · simp only [List.mem_append, List.mem_replicate, List.mem_singleton] at hra
    rcases hra with (h | h) | h
    · exact hl ra h
    · rw [h.2]; decide
    · rw [h]; exact hx

theorem createGauge_locks (s : State) (o : Nat) (p : Bool) (d du : Nat) (hsup : Bool) (c : Coins) (st n : Nat) :
    (createGauge s o p d du hsup c st n).2.locks = s.locks ∧ (createGauge s o p d du hsup c st n).2.rollapps = s.rollapps := by
  unfold createGauge
  repeat' (first | split | dsimp only)
  all_goals exact ⟨rfl, rfl⟩

theorem poolGaugesLoop_locks (denom : Nat) (hsup : Bool) : ∀ (ds : List Nat) (s : State),
    (poolGaugesLoop denom hsup ds s).2.locks = s.locks ∧ (poolGaugesLoop denom hsup ds s).2.rollapps = s.rollapps := by
  intro ds
  induction ds with
  | nil => intro s; exact ⟨rfl, rfl⟩
  | cons d rest ih =>
    intro s
    unfold poolGaugesLoop
    have h1 := createGauge_locks s streamerAddr true denom d hsup [] s.now 1
    generalize createGauge s streamerAddr true denom d hsup [] s.now 1 = res at h1
    obtain ⟨o, s1⟩ := res
    obtain ⟨b1, b2⟩ := ih s1
    cases o
    · exact ⟨b1.trans h1.1, b2.trans h1.2⟩
    all_goals exact h1

/-- every step keeps `NoBlocked` when the lock table / rollapp record it hands in is well-formed -/
theorem step_noblocked (s : State) (op : Op) (hg : GInv s) (h : NoBlocked s) (h1 : op.lockOwnersOK) (h2 : op.rollappOwnerNotBlocked) :
    NoBlocked (step s op).2 := by
  unfold step
  split
  · exact h
  · cases op with
    | begin dt => exact NoBlocked_of_pay h (beginBlock_spec s dt hg).2
    | end_ =>
      simp only
      cases he : streamerEndBlock s with
      | ok s' => exact NoBlocked_of_pay h (strDistribute_spec _ _ _ _ _ _ hg he).2
      | error e => exact NoBlocked_congr (s := s) (s' := { s with halted := true }) rfl rfl h
    | setMaxIter n => exact NoBlocked_congr (s := s) (s' := { s with maxIter := n }) rfl rfl h
    | fund a c => exact NoBlocked_congr (s := s) (s' := { s with bank := s.bank.credit a c }) rfl rfl h
    | locks ls => exact ⟨h1, h.2⟩
    | rollapp r o l => exact ⟨h.1, setRollapp_noblocked s.rollapps r ⟨true, o, l⟩ h.2 h2⟩
    | rollappGauge r =>
      simp only
      unfold createRollappGauge
      repeat' (first | split | dsimp only)
      all_goals exact h
    | createGauge o p d du hsup c st n =>
      exact NoBlocked_congr (createGauge_locks s o p d du hsup c st n).1 (createGauge_locks s o p d du hsup c st n).2 h
    | addToGauge o gid c =>
      simp only
      unfold addToGauge
      repeat' (first | split | dsimp only)
      all_goals exact h
    | createStream sp c rs st e n => exact NoBlocked_of_same h (createStream_same s sp c rs st e n)
    | terminateStream id => exact NoBlocked_of_same h (terminateStream_same s id)
    | replaceDistr id rs => exact NoBlocked_of_same h (replaceDistr_same s id rs)
    | updateDistr id rs => exact NoBlocked_of_same h (updateDistr_same s id rs)
    | distribution rs => exact NoBlocked_congr (s := s) (s' := { s with distr := rs }) rfl rfl h
    | poolGauges d hsup =>
      exact NoBlocked_congr (poolGaugesLoop_locks d hsup lockableDurations s).1 (poolGaugesLoop_locks d hsup lockableDurations s).2 h

theorem init_noblocked (now mi : Nat) : NoBlocked (init now mi) := by
  constructor <;> (intro x hx; simp [init] at hx)

theorem run_noblocked : ∀ (ops : List Op) (s : State), GInv s → NoBlocked s →
    (∀ op ∈ ops, op.wf ∧ op.lockOwnersOK ∧ op.rollappOwnerNotBlocked) → NoBlocked (run s ops) := by
  intro ops
  induction ops with
  | nil => intro s _ h _; exact h
  | cons op rest ih =>
    intro s hg h hw
    unfold run
    obtain ⟨w1, w2, w3⟩ := hw op List.mem_cons_self
    exact ih _ (step_ginv s op hg w1) (step_noblocked s op hg h w2 w3) (fun o ho => hw o (List.mem_cons_of_mem _ ho))

/-- what the two "never fails" theorems need of a state -/
structure Good (s : State) : Prop where
  ginv : GInv s
  roll : RollOK s
  nb : NoBlocked s

theorem Good.of_pay {s s' : State} (h : Good s) (hg : GInv s') (hp : Pay s s') : Good s' :=
  ⟨hg, RollOK_of_pay h.roll hp, NoBlocked_of_pay h.nb hp⟩

theorem run_good (now mi : Nat) (ops : List Op) (hw : ∀ op ∈ ops, op.wf ∧ op.lockOwnersOK ∧ op.rollappOwnerNotBlocked) :
    Good (run (init now mi) ops) :=
  ⟨run_ginv ops _ (init_ginv now mi) (fun o ho => (hw o ho).1),
   run_rollok ops _ (init_ginv now mi) (init_rollok now mi) (fun o ho => (hw o ho).1),
   run_noblocked ops _ (init_ginv now mi) (init_noblocked now mi) hw⟩

/-- the states INSIDE the epochs BeginBlocker stay good -/
theorem epochTick_good (s : State) (e : Nat) (h : Good s) : Good (epochTick s e) :=
  let ⟨a, b⟩ := epochTick_spec s e h.ginv
  h.of_pay a b

theorem sae_hook_good (s : State) (e : Nat) (h : Good s) : Good (applyHook (fun x => streamerAfterEpochEnd x e) s) :=
  let ⟨a, b⟩ := applyHook_spec (fun x => streamerAfterEpochEnd x e) s h.ginv (fun _ hh => streamerAfterEpochEnd_spec _ _ _ h.ginv hh)
  h.of_pay a b

theorem now_good (s : State) (dt : Nat) (h : Good s) : Good { s with now := s.now + dt } :=
  have hs : Same s { s with now := s.now + dt } := ⟨rfl, rfl, rfl, rfl⟩
  h.of_pay (hs.ginv h.ginv) hs.pay

/-! ### no per-recipient isolation -/

/-- `distributeTrackedRewards`: ONE blocked recipient anywhere in the tracker fails the whole payout, whatever the
    other recipients, the amounts and the bank -/
theorem payAll_blocked_fails : ∀ (tr : Tracker) (b : Bank), (∃ p ∈ tr, blocked p.1 = true) → payAll tr b = none := by
  intro tr
  induction tr with
  | nil => intro b ⟨p, hp, _⟩; simp at hp
  | cons q rest ih =>
    intro b ⟨p, hp, hbl⟩
    obtain ⟨o, c⟩ := q
    unfold payAll
    by_cases ho : blocked o = true
    · rw [if_pos ho]
    · rw [if_neg ho]
      have hrest : ∃ p ∈ rest, blocked p.1 = true := by
        rcases List.mem_cons.1 hp with h | h
        · exfalso; apply ho; rw [h] at hbl; exact hbl
        · exact ⟨p, h, hbl⟩
      cases hs : b.send incAddr o c with
      | none => rfl
      | some b' => exact ih b' hrest

/-- a hook that fails inside the epochs wrapper leaves the state as it was: the failure is confined to the hook
    (`ApplyFuncIfNoError` runs it in a cache context) — and the `begin` step itself has no error outcome -/
theorem applyHook_error (f : State → Res) (s : State) (x : Out) (h : f s = .error x) : applyHook f s = s := by
  unfold applyHook; rw [h]

theorem begin_step_ok (s : State) (dt : Nat) (h : s.halted = false) : (step s (.begin dt)).1 = .ok := by
  unfold step; simp [h]

end DymVerif.Incent
