/-
  Lemmas/IncentDue — the exact-amount theorems composed through WHOLE BLOCKS.
  `endGauges s` / `beginGauges s dt` are the (executable) lists of gauge values handed to x/incentives
  `Keeper.Distribute` by every distribution of the block that went through: the streamer EndBlock; for the
  epochs BeginBlocker, per epoch identifier (day, hour, week) the streamer `AfterEpochEnd` flush and the
  incentives `AfterEpochEnd` hook (a hook that fails is rolled back by the epochs wrapper and contributes
  nothing).  `begin_pays_exactly` / `end_pays_exactly`: over the block every account other than the two module
  accounts gains EXACTLY `Σ_{g ∈ …Gauges} dueG s g a` (`dueG` read in the block's first state: locks and
  rollapps do not change inside a block).  The driver prints `blockDue` / `blockHandout` (these very functions)
  for every `begin` and `end` line and the harness compares them with the real balance / gauge deltas.
-/
import DymVerif.Lemmas.IncentProp
import DymVerif.Lemmas.IncentBound
namespace DymVerif.Incent
open DymVerif Coins

/-- gauges distributed by the streamer EndBlock (none when it fails: the block is not committed) -/
def endGauges (s : State) : List Gauge :=
  match streamerEndBlock s with
  | .ok _ => strGauges s [0, 1, 2] (activeStreams s) s.maxIter
  | .error _ => []

/-- gauges distributed by the streamer `AfterEpochEnd` hook of epoch `e` -/
def saeGauges (s : State) (e : Nat) : List Gauge :=
  match streamerAfterEpochEnd s e with
  | .error _ => []
  | .ok _ => if (activeStreamsFor s e).isEmpty then [] else strGauges s [e] (activeStreamsFor s e) maxU64

/-- the gauge table after the activation step of the incentives `AfterEpochEnd` hook -/
def incActivated (s : State) : List Gauge :=
  s.gauges.map (fun g => if g.status == .upcoming && decide (g.start ≤ s.now) then { g with status := .active } else g)

/-- gauges distributed by the incentives `AfterEpochEnd` hook of epoch `e` -/
def iaeGauges (s : State) (e : Nat) : List Gauge :=
  match incAfterEpochEnd s e with
  | .error _ => []
  | .ok _ => if e != 2 then [] else (incActivated s).filter (·.status == GStatus.active)

/-- gauges distributed by the epochs BeginBlocker for epoch info `e` (mirrors `epochTick`) -/
def tickGauges (s : State) (e : Nat) : List Gauge :=
  match s.epochs[e]? with
  | none => []
  | some ep =>
    if s.now < ep.startTime then [] else
    let initial := !ep.started
    if !(decide (ep.curStart + ep.dur < s.now) || initial) then [] else
    if initial then [] else
      saeGauges s e ++ iaeGauges (applyHook (fun x => streamerAfterEpochEnd x e) s) e

/-- all gauge values distributed during `begin dt` -/
def beginGauges (s : State) (dt : Nat) : List Gauge :=
  let s0 := { s with now := s.now + dt }
  let s1 := epochTick s0 0
  let s2 := epochTick s1 1
  tickGauges s0 0 ++ tickGauges s1 1 ++ tickGauges s2 2

/-- what account `a` is due over a block that distributes the gauge values `gs` -/
def blockDue (s : State) (gs : List Gauge) (a i : Nat) : Nat := (gs.map (dueG s · a i)).sum

/-- what gauge `gid` hands out over a block that distributes the gauge values `gs` -/
def blockHandout (s : State) (gs : List Gauge) (gid i : Nat) : Nat :=
  ((gs.filter (·.id == gid)).map (dueTotal s · i)).sum

theorem blockDue_append (s : State) (l1 l2 : List Gauge) (a i : Nat) :
    blockDue s (l1 ++ l2) a i = blockDue s l1 a i + blockDue s l2 a i := by
  simp [blockDue]

theorem blockDue_congr {s s' : State} (h1 : s'.locks = s.locks) (h2 : s'.rollapps = s.rollapps) (gs : List Gauge) (a i : Nat) :
    blockDue s' gs a i = blockDue s gs a i := by
  unfold blockDue
  apply congrArg
  exact List.map_congr_left (fun g _ => (dueG_congr h1 h2 g a i).1)

/-- the streamer epoch-end hook inside the epochs wrapper -/
theorem sae_pays_exactly (s : State) (e : Nat) (hg : GInv s) (a : Nat) (ha : a ≠ streamerAddr) (hb : a ≠ incAddr) (i : Nat) :
    amt ((applyHook (fun x => streamerAfterEpochEnd x e) s).bank.get a) i = amt (s.bank.get a) i + blockDue s (saeGauges s e) a i := by
  unfold applyHook saeGauges
  dsimp only
  cases h : streamerAfterEpochEnd s e with
  | error x => simp [blockDue]
  | ok s' =>
    simp only
    unfold streamerAfterEpochEnd at h
    by_cases hemp : (activeStreamsFor s e).isEmpty = true
    · rw [if_pos hemp] at h ⊢
      simp only [Except.ok.injEq] at h
      subst h
      simp [blockDue]
    · rw [if_neg hemp] at h ⊢
      cases hd : strDistribute s [e] (activeStreamsFor s e) maxU64 true with
      | error x => simp [hd] at h
      | ok s1 =>
        simp only [hd, Except.ok.injEq] at h
        subst h
        exact (strDistribute_pays_explicit s _ _ _ _ s1 hg hd).2.2.1 a ha hb i

/-- the incentives epoch-end hook inside the epochs wrapper -/
theorem iae_pays_exactly (s : State) (e : Nat) (a : Nat) (hb : a ≠ incAddr) (i : Nat) :
    amt ((applyHook (fun x => incAfterEpochEnd x e) s).bank.get a) i = amt (s.bank.get a) i + blockDue s (iaeGauges s e) a i := by
  unfold applyHook iaeGauges
  dsimp only
  cases h : incAfterEpochEnd s e with
  | error x => simp [blockDue]
  | ok s' =>
    simp only
    unfold incAfterEpochEnd at h
    by_cases he : (e != 2) = true
    · rw [if_pos he] at h ⊢
      simp only [Except.ok.injEq] at h
      subst h
      simp [blockDue]
    · rw [if_neg he] at h ⊢
      have h' : (match incDistribute { s with gauges := incActivated s } ((incActivated s).filter (·.status == GStatus.active)) true with
          | .error x => (Except.error x : Res)
          | .ok s2 => .ok (checkFinished ((incActivated s).filter (·.status == GStatus.active)) s2)) = .ok s' := h
      cases hd : incDistribute { s with gauges := incActivated s } ((incActivated s).filter (·.status == GStatus.active)) true with
      | error x => rw [hd] at h'; simp at h'
      | ok s2 =>
        rw [hd] at h'
        simp only [Except.ok.injEq] at h'
        subst h'
        rw [checkFinished_frame2]
        simp only
        have := incDistribute_exact _ _ _ _ hd a hb i
        rw [this]
        simp only
        exact congrArg _ (blockDue_congr (s := s) (s' := { s with gauges := incActivated s }) rfl rfl _ a i)

theorem beforeEpochStart_bank (s : State) (e : Nat) : (applyHook (fun x => streamerBeforeEpochStart x e) s).bank = s.bank := by
  unfold applyHook
  dsimp only
  cases h : streamerBeforeEpochStart s e with
  | error x => rfl
  | ok s' => exact (streamerBeforeEpochStart_same s e s' h).2.1

/-- one epoch info of the epochs BeginBlocker -/
theorem tick_pays_exactly (s : State) (e : Nat) (hg : GInv s) (a : Nat) (ha : a ≠ streamerAddr) (hb : a ≠ incAddr) (i : Nat) :
    amt ((epochTick s e).bank.get a) i = amt (s.bank.get a) i + blockDue s (tickGauges s e) a i := by
  unfold epochTick tickGauges
  cases he : s.epochs[e]? with
  | none => simp [blockDue]
  | some ep =>
    simp only
    split
    · simp [blockDue]
    · split
      · simp [blockDue]
      · split
        · rw [beforeEpochStart_bank]
          simp [blockDue]
        · rw [beforeEpochStart_bank]
          simp only
          obtain ⟨a1, b1⟩ := applyHook_spec (fun x => streamerAfterEpochEnd x e) s hg
            (fun s' h => streamerAfterEpochEnd_spec _ _ _ hg h)
          rw [iae_pays_exactly _ e a hb i, sae_pays_exactly s e hg a ha hb i, blockDue_append,
            blockDue_congr b1.locks b1.rollapps]
          omega

/-- **the whole `begin` step (epochs BeginBlocker over day, hour, week; per epoch the streamer flush, the
    incentives hook and the streamer epoch start), any state satisfying the gauge invariant**: every account
    other than the two module accounts gains exactly what the gauge values distributed in the block owe it -/
theorem begin_pays_exactly (s : State) (dt : Nat) (hg : GInv s) (a : Nat) (ha : a ≠ streamerAddr) (hb : a ≠ incAddr) (i : Nat) :
    amt ((beginBlock s dt).bank.get a) i = amt (s.bank.get a) i + blockDue s (beginGauges s dt) a i := by
  unfold beginBlock beginGauges
  have hs : Same s { s with now := s.now + dt } := ⟨rfl, rfl, rfl, rfl⟩
  generalize hs0 : ({ s with now := s.now + dt } : State) = s0 at hs
  have hbank : s0.bank = s.bank := hs.2.1
  obtain ⟨a0, b0⟩ := epochTick_spec s0 0 (hs.ginv hg)
  obtain ⟨a1, b1⟩ := epochTick_spec _ 1 a0
  have t0 := tick_pays_exactly s0 0 (hs.ginv hg) a ha hb i
  have t1 := tick_pays_exactly _ 1 a0 a ha hb i
  have t2 := tick_pays_exactly _ 2 a1 a ha hb i
  have c0 := blockDue_congr (s := s) (s' := s0) hs.2.2.1 hs.2.2.2 (tickGauges s0 0) a i
  have c1 := blockDue_congr (s := s) (s' := epochTick s0 0) (b0.locks.trans hs.2.2.1) (b0.rollapps.trans hs.2.2.2) (tickGauges (epochTick s0 0) 1) a i
  have c2 := blockDue_congr (s := s) (s' := epochTick (epochTick s0 0) 1) (b1.locks.trans (b0.locks.trans hs.2.2.1))
    (b1.rollapps.trans (b0.rollapps.trans hs.2.2.2)) (tickGauges (epochTick (epochTick s0 0) 1) 2) a i
  simp only
  rw [blockDue_append, blockDue_append, t2, t1, t0, c0, c1, c2, hbank]
  omega

/-- **the whole `end` step** whatever its outcome -/
theorem end_pays_exactly (s : State) (hg : GInv s) (a : Nat) (ha : a ≠ streamerAddr) (hb : a ≠ incAddr) (i : Nat) :
    amt ((step s .end_).2.bank.get a) i = amt (s.bank.get a) i + (if s.halted then 0 else blockDue s (endGauges s) a i) := by
  unfold step endGauges
  by_cases hh : s.halted = true
  · simp [hh]
  · simp only [hh, Bool.false_eq_true, if_false]
    cases h : streamerEndBlock s with
    | error x => simp [blockDue]
    | ok s' =>
      simp only
      unfold streamerEndBlock at h
      exact (strDistribute_pays_explicit s _ _ _ _ s' hg h).2.2.1 a ha hb i

/-- what gauge `gid` hands out over the `end` step is what its stored distributed coins grow by -/
theorem end_handout_exactly (s s' : State) (hg : GInv s) (h : streamerEndBlock s = .ok s') :
    ∀ g ∈ endGauges s, ∃ g', getG s'.gauges g.id = some g' ∧ ∀ i, amt g'.distributed i = amt g.distributed i + blockHandout s (endGauges s) g.id i := by
  intro g hgm
  unfold endGauges at hgm ⊢
  rw [h] at hgm ⊢
  simp only at hgm ⊢
  unfold streamerEndBlock at h
  obtain ⟨hnd, _, _, hx⟩ := strDistribute_pays_explicit s _ _ _ _ s' hg h
  obtain ⟨g', e1, e2⟩ := hx g hgm
  refine ⟨g', e1, fun i => ?_⟩
  rw [e2 i]
  congr 1
  -- ids are distinct: the filter keeps `g` alone
  unfold blockHandout
  generalize strGauges s [0, 1, 2] (activeStreams s) s.maxIter = l at hnd hgm
  clear hx e1 e2 h
  induction l with
  | nil => simp at hgm
  | cons x xs ih =>
    have hn0 : (x.id :: xs.map (·.id)).Nodup := hnd
    obtain ⟨n1, n2⟩ := List.nodup_cons.1 hn0
    rcases List.mem_cons.1 hgm with he | hm
    · subst he
      have : xs.filter (·.id == g.id) = [] := by
        apply List.filter_eq_nil_iff.2
        intro y hy
        simp only [beq_iff_eq]
        intro hyid
        exact n1 (by rw [← hyid]; exact List.mem_map_of_mem (f := (·.id)) hy)
      simp [List.filter_cons, this]
    · have hne : (x.id == g.id) = false := by
        simp only [beq_eq_false_iff_ne, ne_eq]
        intro hx
        exact n1 (by rw [hx]; exact List.mem_map_of_mem (f := (·.id)) hm)
      simp only [List.filter_cons, hne, Bool.false_eq_true, if_false]
      exact ih n2 hm

end DymVerif.Incent
