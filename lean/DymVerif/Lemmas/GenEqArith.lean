/-
  Lemmas/GenEqArith — the regenerated translations of the Go arithmetic functions equal the
  definitions the models use.
-/
import DymVerif.Gen.Arith
import DymVerif.Model.Core
namespace DymVerif.GenEq
open DymVerif

theorem nextSlashHeight_eq : Gen.Arith.nextSlashHeight = Core.nextSlashHeight := by
  funext N I hub last
  unfold Gen.Arith.nextSlashHeight Core.nextSlashHeight
  rfl

end DymVerif.GenEq
