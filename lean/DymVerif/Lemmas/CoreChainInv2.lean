/-
  Lemmas/CoreChainInv2 — chain preservation for message handlers and block processing.
-/
import DymVerif.Lemmas.CoreChainInv
namespace DymVerif.Core

theorem validateBDs_spec (start : Nat) (bds : List BD) (k : Nat) (h : validateBDs start k bds = .ok ()) :
    ∀ i b, bds[i]? = some b → b.height = (start + k + i) % 2 ^ 64 := by
  induction bds generalizing k with
  | nil => intro i b hb; simp at hb
  | cons x xs ih =>
    unfold validateBDs at h
    split at h
    · cases h
    · split at h
      · cases h
      · rename_i hh _
        intro i b hb
        cases i with
        | zero => simp at hb; subst hb; simpa using hh
        | succ j =>
          simp at hb
          have := ih (k + 1) h j b hb
          rw [this]; congr 1; omega

theorem updValidateBasic_wf {m : UpdMsg} (h : updValidateBasic m = .ok ()) (s : St) (n : NextP) :
    (newSInfo s m n).WF := by
  unfold updValidateBasic at h
  split at h
  · cases h
  · split at h
    · cases h
    · split at h
      · cases h
      · split at h
        · cases h
        · rename_i h1 h2 h3 h4
          have hv := validateBDs_spec m.start m.bds 0 h
          refine ⟨by show 1 ≤ m.num; omega, by show 1 ≤ m.start; omega, by show m.start + m.num < 2 ^ 64; omega,
            by show m.bds.length = m.num; omega, ?_⟩
          intro i b hb
          show b.height = m.start + i
          have hb : m.bds[i]? = some b := hb
          have hi : i < m.bds.length := by
            rcases Nat.lt_or_ge i m.bds.length with h5 | h5
            · exact h5
            · rw [List.getElem?_eq_none h5] at hb; cases hb
          rw [hv i b hb, Nat.add_zero, Nat.mod_eq_of_lt (by omega)]

theorem updPre_start {r : Rollapp} {m : UpdMsg} (h : updPre r m = .ok ()) :
    ∀ a, r.states.getLast? = some a → m.start = a.start + a.num := by
  intro a ha
  unfold updPre at h
  rw [ha] at h
  dsimp only at h
  split at h
  · cases h
  · split at h
    · cases h
    · rename_i hne; simp at hne; omega

theorem onProposerLastBlock_chain {s s' : St} {q : Seq} (h : ChainAll s)
    (e : onProposerLastBlock s q = .ok s') : ChainAll s' := by
  unfold onProposerLastBlock at e
  split at e
  · cases e
  · split at e
    · cases e
    · rename_i r hg
      dsimp only at e
      have h1 : ChainAll (setRa s { r with successor := none, proposer := r.successor }) :=
        RaAll.setRa h ((h.get hg).of_states rfl)
      split at e
      · exact hardForkToLatest_chain h1 e
      · injection e with e; subst e
        exact afterSetRealProposer_chain h1

theorem seqAfterUpdate_chain {s s' : St} {m : UpdMsg} {b : Bool} (h : ChainAll s)
    (e : seqAfterUpdate s m b = .ok s') : ChainAll s' := by
  unfold seqAfterUpdate at e
  split at e
  · cases e
  · dsimp only at e
    split at e
    · exact onProposerLastBlock_chain (show ChainAll (setSeq s _) from h.ras_eq rfl) e
    · injection e with e; subst e; exact h.ras_eq rfl

theorem updateState_chain {s s' : St} {m : UpdMsg} (h : ChainAll s) (e : updateState s m = .ok s') : ChainAll s' := by
  unfold updateState at e
  split at e
  · cases e
  · rename_i hvb
    split at e
    · cases e
    · rename_i r hg
      split at e
      · cases e
      · split at e
        · cases e
        · split at e
          · cases e
          · split at e
            · cases e
            · rename_i hpre
              split at e
              · cases e
              · split at e
                · cases e
                · rename_i s3 h3
                  dsimp only at e
                  split at e
                  · cases e
                  · rename_i r4 hg4
                    injection e with e; subst e
                    have hnew : ChainAll (setRa s { r with states := r.states ++ [newSInfo s m (updSucc r m)] }) :=
                      RaAll.setRa h ((h.get hg).append (updValidateBasic_wf hvb s _) (by
                        intro a ha
                        show m.start = a.start + a.num
                        exact updPre_start hpre a ha))
                    have h3' := seqAfterUpdate_chain hnew h3
                    exact indicateLiveness_chain (RaAll.of_ras_eq h3' rfl) ((RaAll.of_ras_eq h3' rfl).get hg4)

-- ---------------------------------------------------------------- sequencer messages: rollapp states untouched

theorem sendToModule_ras {s s1 : St} {q q1 : Seq} {amt : Nat} (e : sendToModule s q amt = .ok (s1, q1)) : s1.ras = s.ras := by
  unfold sendToModule at e; split at e
  · cases e
  · injection e with e; injection e with e1 _; subst e1; rfl

theorem sendFromModule_ras {s s1 : St} {q q1 : Seq} {amt : Nat} {to : Addr}
    (e : sendFromModule s q amt to = .ok (s1, q1)) : s1.ras = s.ras := by
  unfold sendFromModule at e; split at e
  · cases e
  · split at e
    · cases e
    · split at e
      · cases e
      · injection e with e; injection e with e1 _; subst e1; rfl

theorem burn_ras {s s1 : St} {q q1 : Seq} {amt : Nat} (e : burn s q amt = .ok (s1, q1)) : s1.ras = s.ras := by
  unfold burn at e; split at e
  · cases e
  · split at e
    · cases e
    · injection e with e; injection e with e1 _; subst e1; rfl

theorem slash_ras {s s1 : St} {q q1 : Seq} {amt : Nat} {mul : Dec} {rw : Option Addr}
    (e : slash s q amt mul rw = .ok (s1, q1)) : s1.ras = s.ras := by
  unfold slash at e
  dsimp only at e
  split at e
  · cases e
  · rename_i s0 q0 h0
    have : s0.ras = s.ras := by
      split at h0
      · injection h0 with h0; injection h0 with h1 _; subst h1; rfl
      · split at h0
        · exact sendFromModule_ras h0
        · cases h0
    rw [← this]; exact burn_ras e

theorem tryUnbond_ras {s s1 : St} {q q1 : Seq} {amt : Nat} (e : tryUnbond s q amt = .ok (s1, q1)) : s1.ras = s.ras := by
  unfold tryUnbond at e
  split at e
  · cases e
  · split at e
    · cases e
    · split at e
      · cases e
      · dsimp only at e
        split at e
        · cases e
        · split at e
          · cases e
          · rename_i s0 q0 h0
            injection e with e; injection e with e1 _; subst e1
            exact sendFromModule_ras h0

theorem insertSorted_mem {α} (lt : α → α → Bool) (x : α) (l : List α) (y : α)
    (h : y ∈ insertSorted lt x l) : y = x ∨ y ∈ l := by
  induction l with
  | nil => simp [insertSorted] at h; exact Or.inl h
  | cons a as ih =>
    unfold insertSorted at h
    split at h
    · simp at h; rcases h with h | h | h
      · exact Or.inl h
      · exact Or.inr (by simp [h])
      · exact Or.inr (by simp [h])
    · split at h
      · simp at h; rcases h with h | h
        · exact Or.inr (by simp [h])
        · rcases ih h with h2 | h2
          · exact Or.inl h2
          · exact Or.inr (by simp [h2])
      · simp at h; rcases h with h | h
        · exact Or.inl h
        · exact Or.inr (by simp [h])

theorem createSeq_chain {s s' : St} {a : Addr} {ra bond : Nat} {d : Bool} (h : ChainAll s)
    (e : createSeq s a ra bond d = .ok s') : ChainAll s' := by
  unfold createSeq at e
  split at e
  · cases e
  · rename_i r hg
    split at e
    · cases e
    · split at e
      · cases e
      · split at e
        · cases e
        · split at e
          · cases e
          · dsimp only at e
            have h0 : ChainAll (if r.launched = true then s else setRa s { r with launched := true }) := by
              split
              · exact h
              · exact RaAll.setRa h ((h.get hg).of_states rfl)
            split at e
            · cases e
            · rename_i s1 q1 hs
              have h1 : ChainAll s1 := h0.ras_eq (sendToModule_ras hs)
              have h2 : ChainAll { s1 with seqs := insertSorted (fun x y => decide (x.addr < y.addr)) q1 s1.seqs } := h1.ras_eq rfl
              split at e
              · cases e
              · split at e
                · exact recoverFromSentinel_chain h2 e
                · injection e with e; subst e; exact h2

theorem increaseBond_chain {s s' : St} {a : Addr} {amt : Nat} {d : Bool} (h : ChainAll s)
    (e : increaseBond s a amt d = .ok s') : ChainAll s' := by
  unfold increaseBond at e
  split at e
  · cases e
  · split at e
    · cases e
    · split at e
      · cases e
      · split at e
        · cases e
        · rename_i s1 q1 hs
          injection e with e; subst e
          exact (h.ras_eq (sendToModule_ras hs)).ras_eq rfl

theorem decreaseBond_chain {s s' : St} {a : Addr} {amt : Nat} (h : ChainAll s)
    (e : decreaseBond s a amt = .ok s') : ChainAll s' := by
  unfold decreaseBond at e
  split at e
  · cases e
  · split at e
    · cases e
    · split at e
      · cases e
      · rename_i s1 q1 hs
        injection e with e; subst e
        exact (h.ras_eq (tryUnbond_ras hs)).ras_eq rfl

theorem unbond_chain {s s' : St} {a : Addr} (h : ChainAll s) (e : unbond s a = .ok s') : ChainAll s' := by
  unfold unbond at e
  repeat' split at e
  all_goals first
    | (injection e with e; subst e; exact h.ras_eq rfl)
    | (rename_i s1 q1 hs; injection e with e; subst e; exact (h.ras_eq (tryUnbond_ras hs)).ras_eq rfl)
    | (cases e; done)

theorem optIn_chain {s s' : St} {a : Addr} {v : Bool} (h : ChainAll s) (e : optIn s a v = .ok s') : ChainAll s' := by
  unfold optIn at e
  split at e
  · cases e
  · split at e
    · cases e
    · dsimp only at e
      have h1 : ∀ q : Seq, ChainAll (setSeq s q) := fun q => h.ras_eq rfl
      split at e
      · cases e
      · split at e
        · exact recoverFromSentinel_chain (h1 _) e
        · injection e with e; subst e; exact h1 _

theorem kick_chain {s s' : St} {a : Addr} (h : ChainAll s) (e : kick s a = .ok s') : ChainAll s' := by
  unfold kick at e
  split at e
  · cases e
  · split at e
    · cases e
    · split at e
      · cases e
      · split at e
        · cases e
        · split at e
          · cases e
          · split at e
            · cases e
            · split at e
              · cases e
              · dsimp only at e
                split at e
                · cases e
                · rename_i s3 h3
                  have := hardForkToLatest_chain (abruptRemoveProposer_chain h) h3
                  exact recoverFromSentinel_chain (show ChainAll (setSeq s3 _) from this.ras_eq rfl) e

theorem punish_chain {s s' : St} {a : Addr} {rw : Option Addr} (h : ChainAll s) (e : punish s a rw = .ok s') : ChainAll s' := by
  unfold punish at e
  split at e
  · cases e
  · dsimp only at e
    split at e
    · cases e
    · rename_i s1 q1 hs
      injection e with e; subst e
      exact (h.ras_eq (slash_ras hs)).ras_eq rfl

theorem fraud_chain {s s' : St} {au : Bool} {ra hh rev : Nat} {p rw : Option Addr} (h : ChainAll s)
    (e : fraud s au ra hh rev p rw = .ok s') : ChainAll s' := by
  unfold fraud at e
  split at e
  · cases e
  · split at e
    · cases e
    · split at e
      · cases e
      · split at e
        · cases e
        · dsimp only at e
          split at e
          · cases e
          · rename_i s1 h1
            have : ChainAll s1 := by
              split at h1
              · exact punish_chain h h1
              · injection h1 with h1; subst h1; exact h
            exact hardFork_chain this e

theorem foldl_inv {α β} (P : β → Prop) (f : β → α → β) (l : List α) (b : β) (hb : P b)
    (hf : ∀ b a, P b → P (f b a)) : P (l.foldl f b) := by
  induction l generalizing b with
  | nil => exact hb
  | cons x xs ih => exact ih _ (hf b x hb)

theorem markObsolete_chain {s s' : St} {au : Bool} {vs : List Nat} (h : ChainAll s)
    (e : markObsolete s au vs = .ok s') : ChainAll s' := by
  unfold markObsolete at e
  split at e
  · cases e
  · split at e
    · cases e
    · dsimp only at e
      injection e with e; subst e
      apply foldl_inv ChainAll
      · exact h.ras_eq rfl
      · intro b r0 hb
        split
        · exact hb
        · split
          · exact hb
          · split
            · split
              · rename_i a ha; exact hardForkToLatest_chain hb ha
              · exact hb
            · exact hb

theorem beginBlock_chain {s : St} {dt : Nat} (h : ChainAll s) : ChainAll (beginBlock s dt) := by
  unfold beginBlock
  dsimp only
  apply foldl_inv ChainAll
  · exact h.ras_eq rfl
  · intro b e hb
    have hb1 : ChainAll { b with nq := b.nq.filter (fun x => !(x.1 == e.1 && x.2 == e.2)) } := hb.ras_eq rfl
    split
    · exact hb1
    · split
      · exact hb1
      · rename_i r hg
        exact RaAll.setRa hb1 ((hb1.get hg).of_states rfl)

theorem chain_set_finalized {l : List SInfo} (h : Chain l) (i : Nat) (st : SInfo) (hi : l[i]? = some st) (b : Bool) (f : Nat) :
    Chain (l.set i { st with finalized := b, finalizedAt := f }) := by
  apply h.congr
  apply List.ext_getElem?
  intro j
  simp only [List.getElem?_map, List.getElem?_set]
  by_cases hj : i = j
  · subst hj
    have hlt : i < l.length := by
      rcases Nat.lt_or_ge i l.length with h1 | h1
      · exact h1
      · rw [List.getElem?_eq_none h1] at hi; cases hi
    have hst : l[i] = st := by simpa [List.getElem?_eq_getElem hlt] using hi
    simp [hlt, hst]
  · simp [hj]

theorem finalizeOne_chain {s s' : St} {fails : List (Nat × Nat)} {ra idx : Nat} (h : ChainAll s)
    (e : finalizeOne s fails ra idx = some s') : ChainAll s' := by
  unfold finalizeOne at e
  split at e
  · cases e
  · split at e
    · cases e
    · rename_i r hg
      split at e
      · cases e
      · rename_i st hst
        split at e
        · cases e
        · dsimp only at e
          injection e with e; subst e
          apply RaAll.setRa (h.ras_eq rfl)
          exact chain_set_finalized (h.get hg) (idx - 1) st hst true s.h

theorem finalizeEntry_go_chain (fails : List (Nat × Nat)) (e : QEntry) (l : List Nat) (s : St) (h : ChainAll s) :
    ChainAll (finalizeEntry.go fails e s l).1 := by
  induction l generalizing s with
  | nil => unfold finalizeEntry.go; exact h.ras_eq rfl
  | cons i rest ih =>
    unfold finalizeEntry.go
    split
    · rename_i s1 h1; exact ih s1 (finalizeOne_chain h h1)
    · exact h.ras_eq rfl

theorem finalizeAll_chain (fails : List (Nat × Nat)) (es : List QEntry) (failed : List Nat) (s : St) (h : ChainAll s) :
    ChainAll (finalizeAll s fails es failed) := by
  induction es generalizing s failed with
  | nil => unfold finalizeAll; exact h
  | cons e es ih =>
    unfold finalizeAll
    split
    · exact ih _ _ h
    · have := finalizeEntry_go_chain fails e e.idx s h
      unfold finalizeEntry
      exact ih _ _ this

theorem slashLiveness_ras {s s1 : St} {r : Rollapp} (e : slashLiveness s r = .ok s1) : s1.ras = s.ras := by
  unfold slashLiveness at e
  split at e
  · injection e with e; subst e; rfl
  · split at e
    · injection e with e; subst e; rfl
    · split at e
      · cases e
      · rename_i s2 q2 hsl
        injection e with e; subst e
        exact (setSeq_ras _ _).trans (slash_ras hsl)

theorem handleLivenessEvent_chain {s : St} {ra : Nat} (h : ChainAll s) : ChainAll (handleLivenessEvent s ra) := by
  unfold handleLivenessEvent
  split
  · exact h
  · split
    · exact h
    · rename_i s1 hs1
      have h1 : ChainAll s1 := h.ras_eq (slashLiveness_ras hs1)
      split
      · exact h
      · rename_i r1 hg1
        unfold scheduleEvent
        exact RaAll.setRa (h1.ras_eq rfl) ((h1.get hg1).of_states rfl)

theorem endBlock_chain {s : St} {fails : List (Nat × Nat)} (h : ChainAll s) : ChainAll (endBlock s fails) := by
  unfold endBlock checkLiveness
  apply foldl_inv ChainAll
  · unfold finalizeRollappStates
    split
    · exact h
    · exact finalizeAll_chain _ _ _ _ h
  · intro b e hb; exact handleLivenessEvent_chain hb

/-- every accepted transition preserves the chain invariant of every rollapp -/
theorem apply_chain {s s' : St} {o : Op} (h : ChainAll s) (e : apply s o = .ok s') : ChainAll s' := by
  cases o with
  | createRollapp id owner mb =>
    simp only [apply] at e
    split at e
    · cases e
    · injection e with e; subst e
      intro r hr
      rcases insertSorted_mem _ _ _ _ hr with h1 | h1
      · subst h1; exact Chain.nil
      · exact h r h1
  | bridge ra hh =>
    simp only [apply] at e
    split at e
    · cases e
    · rename_i r hg
      split at e
      · cases e
      · split at e
        · cases e
        · injection e with e; subst e
          exact RaAll.setRa h ((h.get hg).of_states rfl)
  | fund a amt => simp only [apply] at e; injection e with e; subst e; exact h.ras_eq rfl
  | createSeq a ra b d => exact createSeq_chain h e
  | bondInc a amt d => exact increaseBond_chain h e
  | bondDec a amt => exact decreaseBond_chain h e
  | unbond a => exact unbond_chain h e
  | optIn a v => exact optIn_chain h e
  | kick a => exact kick_chain h e
  | update m => exact updateState_chain h e
  | fraud au ra hh rev p rw => exact fraud_chain h e
  | obsolete au vs => exact markObsolete_chain h e
  | punish au a rw => exact punish_chain h (punishProposal_ok e).2
  | transferOwner sg ra' no =>
    obtain ⟨r, hg, _, _, _, rfl⟩ := transferOwner_ok e
    exact RaAll.setRa h ((h.get hg).of_states rfl)
  | setSeqParams au sp =>
    obtain ⟨_, hnp, _, rfl⟩ := setSeqParams_ok e
    exact h.ras_eq rfl
  | begin_ dt => simp only [apply] at e; injection e with e; subst e; exact beginBlock_chain h
  | end_ f => simp only [apply] at e; injection e with e; subst e; exact endBlock_chain h

theorem step_chain {s : St} {o : Op} (h : ChainAll s) : ChainAll (step s o).1 := by
  unfold step
  split
  · rename_i s' e; exact apply_chain h e
  · exact h

theorem run_chain (p : Params) (ops : List Op) : ChainAll (run p ops) := by
  unfold run
  apply foldl_inv ChainAll
  · intro r hr; simp [init] at hr
  · intro b o hb; exact step_chain hb

end DymVerif.Core
