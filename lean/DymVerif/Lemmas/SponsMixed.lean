import DymVerif.Lemmas.SponsFrame
/-
  Lemmas/SponsMixed — claims ≤ allotment for MIXED histories within one distribution epoch.

  The invariant: with `R` the gauge's EpochRewards, `S` the endorsement's EpochShares (both fixed until
  the next distribution-epoch end) and `U` the power on the rollapp gauge of the voters who can still
  claim (not blacklisted),

        paid · S + R · U ≤ R · S.

  A claim moves `power · R / S` from the right summand to the left one; a vote blacklists the voter
  (its power leaves `U`), a revocation and a power-DEcreasing staking hook lower `U`, funding, slashes,
  parameter changes, creation ops and ends of other epochs leave both alone.  The only op that breaks
  it is a staking message that leaves a voter who can still claim with MORE recorded power than before
  (`NoRaiseOp` excludes exactly that) — the known finding F7.
-/
namespace DymVerif.Spons

/-! ### the power that can still claim, voter by voter -/

/-- what voter `a`'s (optional) vote contributes to `usum` -/
def contrib (bl : List Nat) (gid a : Nat) : Option Vote → Int
  | none => 0
  | some v => if bl.contains a then 0 else v.gaugePower gid

theorem usum_split {bl : List Nat} {gid a : Nat} {l : List (Nat × Vote)} (hk : KeysNodup l) :
    usum bl gid l = contrib bl gid a (alookup a l) + usum bl gid (aerase a l) := by
  induction l with
  | nil => rfl
  | cons x xs ih =>
    by_cases hx : x.1 = a
    · have hnone : aerase a xs = xs := by
        simp only [aerase, List.filter_eq_self]
        intro y hy; have := hk.1 y hy; rw [hx] at this; simpa using this
      have e : aerase a (x :: xs) = xs := by
        have : aerase a (x :: xs) = aerase a xs := by simp [aerase, hx]
        rw [this, hnone]
      rw [e]
      simp only [alookup, hx, if_true, contrib, usum]
    · have e : aerase a (x :: xs) = x :: aerase a xs := by simp [aerase, hx]
      rw [e]
      simp only [alookup, hx, if_false, usum]
      rw [ih hk.2]; omega

theorem VoteOK.gp_nonneg {v : Vote} (h : VoteOK v) (g : Nat) : 0 ≤ v.gaugePower g := by
  show 0 ≤ gaugePowerW v.vp v.weights g
  rw [gaugePowerW_eq_wpow h.nodup g]; exact h.pow_nonneg g

theorem contrib_nonneg {bl : List Nat} {gid a : Nat} {ov : Option Vote} (h : ∀ v, ov = some v → VoteOK v) :
    0 ≤ contrib bl gid a ov := by
  cases ov with
  | none => exact Int.le_refl 0
  | some v =>
    simp only [contrib]
    split
    · exact Int.le_refl 0
    · exact (h v rfl).gp_nonneg gid

theorem contrib_of_mem {bl : List Nat} {gid a : Nat} (ov : Option Vote) (h : a ∈ bl) : contrib bl gid a ov = 0 := by
  cases ov with
  | none => rfl
  | some v =>
    have : bl.contains a = true := by simpa using h
    simp only [contrib, this, if_true]

theorem usum_aerase_le {bl : List Nat} {gid a : Nat} {l : List (Nat × Vote)} (hk : KeysNodup l)
    (hv : ∀ x ∈ l, VoteOK x.2) : usum bl gid (aerase a l) ≤ usum bl gid l := by
  rw [usum_split (a := a) hk]
  have := contrib_nonneg (bl := bl) (gid := gid) (a := a) (ov := alookup a l)
    (fun v h => hv (a, v) (alookup_mem h))
  omega

theorem aerase_aset_self {κ β : Type} [DecidableEq κ] (k : κ) (v : β) (l : List (κ × β)) :
    aerase k (aset k v l) = aerase k l := by
  have : aerase k (aset k v l) = aerase k (aerase k l) := by simp [aset, aerase]
  rw [this, aerase_idem]

theorem usum_cons_bl_aerase {bl : List Nat} {gid a : Nat} {l : List (Nat × Vote)} :
    usum (a :: bl) gid (aerase a l) = usum bl gid (aerase a l) :=
  usum_cons_bl_notin (fun x hx => (mem_aerase.mp hx).2)

/-! ### monotonicity of the gauge power in the voting power -/

theorem gpow_mono {vp vp' w : Int} (h0 : 0 ≤ vp) (h : vp ≤ vp') (hw : 0 ≤ w) : gpow vp w ≤ gpow vp' w := by
  unfold gpow
  have h1 : 0 ≤ vp * w := Int.mul_nonneg h0 hw
  have h2 : vp * w ≤ vp' * w := Int.mul_le_mul_of_nonneg_right h hw
  rw [Int.tdiv_eq_ediv_of_nonneg h1, Int.tdiv_eq_ediv_of_nonneg (Int.le_trans h1 h2)]
  exact Int.ediv_le_ediv maxW_pos h2

theorem gaugePowerW_mono {vp vp' : Int} {ws : List GP} (h0 : 0 ≤ vp) (h : vp ≤ vp') (hw : ∀ w ∈ ws, 0 < w.2)
    (g : Nat) : gaugePowerW vp ws g ≤ gaugePowerW vp' ws g := by
  induction ws with
  | nil => exact Int.le_refl 0
  | cons w ws ih =>
    simp only [gaugePowerW]
    split
    · exact gpow_mono h0 h (Int.le_of_lt (hw w (by simp)))
    · exact ih (fun x hx => hw x (by simp [hx]))

/-! ### what the ops do to votes and blacklist -/

theorem castVote_facts {s1 s' : State} {a : Nat} {ws : List GP} (hc : s1.castVote a ws = .ok s') :
    aerase a s'.votes = aerase a s1.votes ∧ a ∈ s'.blacklist ∧
      (s'.blacklist = s1.blacklist ∨ s'.blacklist = a :: s1.blacklist) := by
  have hb := castVote_blacklist hc
  obtain ⟨_, hvotes, _, _, _⟩ := castVote_ok hc
  refine ⟨by rw [hvotes, aerase_aset_self], hb.1, ?_⟩
  unfold State.castVote at hc
  simp only at hc
  split at hc
  · cases hc
  · cases hc
    show (if s1.blacklist.contains a = true then s1.blacklist else a :: s1.blacklist) = s1.blacklist ∨
      (if s1.blacklist.contains a = true then s1.blacklist else a :: s1.blacklist) = a :: s1.blacklist
    split
    · exact Or.inl rfl
    · exact Or.inr rfl

theorem vote_facts {s s' : State} {a : Nat} {ws : List GP} (h : s.vote a ws = .ok s') :
    aerase a s'.votes = aerase a s.votes ∧ a ∈ s'.blacklist ∧
      (s'.blacklist = s.blacklist ∨ s'.blacklist = a :: s.blacklist) := by
  unfold State.vote at h
  split at h
  · cases h
  split at h
  · cases h
  split at h
  · have := castVote_facts h
    rw [revokeVote_votes, aerase_idem, revokeVote_blacklist] at this
    exact this
  · exact castVote_facts h

theorem processHook_aerase (s : State) (a val : Nat) (v : Vote) (o n : Int) :
    aerase a (s.processHook a val v o n).votes = aerase a s.votes := by
  unfold State.processHook
  simp only
  split
  · rw [revokeVote_votes, aerase_idem]
  · show aerase a (aset a _ s.votes) = _
    rw [aerase_aset_self]

/-- hooks of `a` touch `a`'s vote only, never create one and never change its weights -/
theorem hooks_facts {s s' : State} {a : Nat} {hs : List (Nat × Option Int)} (h : s.hooks a hs = .ok s') :
    aerase a s'.votes = aerase a s.votes ∧
      ∀ v', alookup a s'.votes = some v' → ∃ v, alookup a s.votes = some v ∧ v'.weights = v.weights := by
  induction hs generalizing s with
  | nil => cases h; exact ⟨rfl, fun v' hv' => ⟨v', hv', rfl⟩⟩
  | cons x xs ih =>
    unfold State.hooks at h
    split at h
    · cases h
    · rename_i s1 h1
      have i2 := ih h
      rcases hook_ok h1 with ⟨_, rfl⟩ | ⟨v, hv, rfl⟩
      · exact i2
      · refine ⟨i2.1.trans (processHook_aerase _ _ _ _ _ _), fun v' hv' => ?_⟩
        obtain ⟨v2, hv2, hw2⟩ := i2.2 v' hv'
        refine ⟨v, hv, ?_⟩
        rw [hw2]
        -- the vote after one processHook: pruned or the same weights
        unfold State.processHook at hv2
        simp only at hv2
        split at hv2
        · rw [revokeVote_votes, alookup_aerase_self] at hv2; cases hv2
        · have : alookup a (aset a (⟨v.vp + (x.2.getD 0 - pOf s.dvp a x.1), v.weights⟩ : Vote) s.votes) = some v2 := hv2
          rw [alookup_aset_self] at this
          cases this; rfl

theorem fund_vb {s s1 : State} {g : Nat} {amt : Int} (h : s.fund g amt = .ok s1) :
    s1.votes = s.votes ∧ s1.blacklist = s.blacklist := by
  unfold State.fund at h
  split at h
  · cases h
  split at h
  · cases h
  · cases h; exact ⟨rfl, rfl⟩

/-! ### the exclusion -/

/-- a staking message of a voter who can still claim in this epoch (not blacklisted) does not leave
    the voter with MORE recorded power than before — the exact exclusion of the known finding F7 -/
def NoRaiseOp (s : State) : Op → Prop
  | .staking a hs fin =>
    a ∈ s.blacklist ∨
      ∀ v v', s.vote? a = some v → (step s (.staking a hs fin)).1.vote? a = some v' → v'.vp ≤ v.vp
  | _ => True

def NoRaiseRun : State → List Op → Prop
  | _, [] => True
  | s, op :: ops => NoRaiseOp s op ∧ NoRaiseRun (step s op).1 ops

/-- power on gauge `rg` of the voters who can still claim -/
def U (s : State) (rg : Nat) : Int := usum s.blacklist rg s.votes

theorem U_of_same {s s' : State} (hv : s'.votes = s.votes) (hb : s'.blacklist = s.blacklist) (rg : Nat) :
    U s' rg = U s rg := by unfold U; rw [hv, hb]

/-- every op other than a claim, a distribution-epoch end and an excluded staking message leaves the
    power that can still claim where it was or lowers it -/
theorem U_step_le {s : State} {op : Op} (wf : WF s) (inv : DistInv s) (rg : Nat)
    (hc : isClaim op = false) (he : isEpochEnd op = false) (hn : NoRaiseOp s op) :
    U (step s op).1 rg ≤ U s rg := by
  have wf' : WF (step s op).1 := (step_good (op := op) wf inv).1
  cases op with
  | vote a ws =>
    revert wf'
    simp only [step]; split
    · rename_i s1 h
      intro wf'
      obtain ⟨hae, hmem, hbl⟩ := vote_facts h
      unfold U
      rw [usum_split (a := a) wf'.keys, contrib_of_mem _ hmem, hae]
      have h2 : usum s1.blacklist rg (aerase a s.votes) = usum s.blacklist rg (aerase a s.votes) := by
        rcases hbl with e | e <;> rw [e]
        exact usum_cons_bl_aerase
      rw [h2]
      have := usum_aerase_le (bl := s.blacklist) (gid := rg) (a := a) wf.keys wf.votes
      omega
    · intro _; exact Int.le_refl _
  | revoke a =>
    simp only [step]; split
    · rename_i s1 h
      unfold State.revoke at h; split at h
      · cases h
      · cases h
        unfold U
        rw [revokeVote_votes, revokeVote_blacklist]
        exact usum_aerase_le wf.keys wf.votes
    · exact Int.le_refl _
  | claim a g => cases hc
  | staking a hs fin =>
    have hn' : a ∈ s.blacklist ∨
      ∀ v v', s.vote? a = some v → (step s (.staking a hs fin)).1.vote? a = some v' → v'.vp ≤ v.vp := hn
    revert wf' hn'
    simp only [step]; split
    · rename_i s1 h
      intro wf' hn'
      unfold State.staking at h
      split at h
      · cases h
      · rename_i s2 h2
        cases h
        have hbl : s2.blacklist = s.blacklist := hooks_blacklist h2
        obtain ⟨hae, hw⟩ := hooks_facts h2
        have hk2 : KeysNodup s2.votes := wf'.keys
        have hv2 : ∀ x ∈ s2.votes, VoteOK x.2 := wf'.votes
        show usum s2.blacklist rg s2.votes ≤ usum s.blacklist rg s.votes
        rw [usum_split (a := a) hk2, usum_split (a := a) wf.keys, hae, hbl]
        have hcon : contrib s.blacklist rg a (alookup a s2.votes) ≤ contrib s.blacklist rg a (alookup a s.votes) := by
          cases h2v : alookup a s2.votes with
          | none => exact contrib_nonneg (fun v hv => wf.votes (a, v) (alookup_mem hv))
          | some v' =>
            obtain ⟨v, hv, hweq⟩ := hw v' h2v
            rw [hv]
            by_cases hm : a ∈ s.blacklist
            · rw [contrib_of_mem _ hm, contrib_of_mem _ hm]; exact Int.le_refl 0
            · have hcf : s.blacklist.contains a = false := by simpa using hm
              simp only [contrib, hcf]
              rcases hn' with hin | hle
              · exact absurd hin hm
              · have hle' : v'.vp ≤ v.vp := hle v v' hv h2v
                have hok' : VoteOK v' := hv2 (a, v') (alookup_mem h2v)
                have hok : VoteOK v := wf.votes (a, v) (alookup_mem hv)
                show gaugePowerW v'.vp v'.weights rg ≤ gaugePowerW v.vp v.weights rg
                rw [hweq]
                exact gaugePowerW_mono hok'.vp hle' hok.pos rg
        omega
    · intro _ _; exact Int.le_refl _
  | slash fin => exact Int.le_refl _
  | epochEnd d =>
    cases d
    · exact Int.le_refl _
    · cases he
  | fund g amt =>
    simp only [step]; split
    · rename_i s1 h; have := fund_vb h; rw [U_of_same this.1 this.2]; exact Int.le_refl _
    · exact Int.le_refl _
  | addGauge g =>
    simp only [step]; split
    · rename_i s1 h; obtain ⟨⟨inc, rfl⟩, _, _⟩ := addGauge_ok h; exact Int.le_refl _
    · exact Int.le_refl _
  | addRollapp r =>
    simp only [step]; split
    · rename_i s1 h; obtain ⟨_, rfl⟩ := addRollapp_ok h; exact Int.le_refl _
    · exact Int.le_refl _
  | setParams ma mv =>
    simp only [step]; split
    · rename_i s1 h; obtain ⟨rfl, _⟩ := setParams_ok h; exact Int.le_refl _
    · exact Int.le_refl _

/-! ### the context of one distribution epoch -/

/-- endorsement gauge `eg` pays rollapp `r`'s endorsers `R` per epoch; `r`'s endorsement names rollapp
    gauge `rg` and holds the snapshot `S` -/
structure EpochCtx (s : State) (eg r rg : Nat) (R S : Int) : Prop where
  gauge : GaugeIs s eg r R
  endo : EndoIs s r rg S
  wf : WF s
  inv : DistInv s

theorem gauge?_append_found {gs : List Gauge} {ng : Gauge} {gid : Nat} {g : Gauge}
    (h : gs.find? (·.id == gid) = some g) : (gs ++ [ng]).find? (·.id == gid) = some g := by
  rw [List.find?_append, h]; rfl

theorem step_ctx {s : State} {op : Op} {eg r rg : Nat} {R S : Int} (ctx : EpochCtx s eg r rg R S)
    (he : isEpochEnd op = false) : EpochCtx (step s op).1 eg r rg R S := by
  have g := step_good (op := op) ctx.wf ctx.inv
  refine ⟨?_, ?_, g.1, g.2⟩
  · by_cases ha : isAdd op = true
    · obtain ⟨g0, hg0, hk, hr⟩ := ctx.gauge
      cases op with
      | addGauge g1 =>
        simp only [step]; split
        · rename_i s1 h; obtain ⟨⟨inc, rfl⟩, _, _⟩ := addGauge_ok h
          exact ⟨g0, gauge?_append_found hg0, hk, hr⟩
        · exact ⟨g0, hg0, hk, hr⟩
      | addRollapp r1 =>
        simp only [step]; split
        · rename_i s1 h; obtain ⟨_, rfl⟩ := addRollapp_ok h
          exact ⟨g0, gauge?_append_found hg0, hk, hr⟩
        · exact ⟨g0, hg0, hk, hr⟩
      | _ => cases ha
    · exact GaugeIs_of_frame (step_frame (by simpa using ha) he) ctx.gauge
  · by_cases ha : isAdd op = true
    · obtain ⟨e0, he0, hg, hs⟩ := ctx.endo
      cases op with
      | addGauge g1 =>
        simp only [step]; split
        · rename_i s1 h; obtain ⟨⟨inc, rfl⟩, _, _⟩ := addGauge_ok h
          exact ⟨e0, he0, hg, hs⟩
        · exact ⟨e0, he0, hg, hs⟩
      | addRollapp r1 =>
        simp only [step]; split
        · rename_i s1 h; obtain ⟨_, rfl⟩ := addRollapp_ok h
          refine ⟨e0, ?_, hg, hs⟩
          show (s.endorsements ++ [(⟨r1, s.lastGauge + 1, 0, 0⟩ : Endorsement)]).find? (·.r == r) = some e0
          have he0' : s.endorsements.find? (·.r == r) = some e0 := he0
          rw [find_append_endo, he0']
        · exact ⟨e0, he0, hg, hs⟩
      | _ => cases ha
    · exact EndoIs_of_frame (step_frame (by simpa using ha) he) ctx.endo

/-! ### one claim -/

theorem claim_step_bound {s : State} {eg r rg : Nat} {R S : Int} (hR : 0 ≤ R) (hS : 0 < S)
    (ctx : EpochCtx s eg r rg R S) (a g' : Nat) :
    (if g' = eg then (step s (.claim a g')).2.2 else 0) * S + R * U (step s (.claim a g')).1 rg ≤ R * U s rg := by
  simp only [step]
  cases hc : s.claim a g' with
  | error err =>
    simp only
    split <;> simp
  | ok res =>
    obtain ⟨s1, p⟩ := res
    simp only
    obtain ⟨hnb, g, r', e', v, hg, hk, he, hv, hp, hpay⟩ := claim_ok hc
    have hvok : VoteOK v := ctx.wf.votes (a, v) (alookup_mem hv)
    have hpv : 0 ≤ v.gaugePower rg := hvok.gp_nonneg rg
    have hbl : s1.blacklist = a :: s.blacklist := pay_blacklist hpay
    have hcore := (pay_core hpay).1
    have hus : U s1 rg = U s rg - v.gaugePower rg := by
      unfold U; rw [hbl, hcore.votes]; exact usum_blacklist ctx.wf.keys hv hnb
    rw [hus, Int.mul_sub]
    have hm := Int.mul_nonneg hR hpv
    split
    · rename_i hgid
      subst hgid
      rcases pay_facts hpay with ⟨_, hp0, _⟩ | ⟨er, her, hpe, _, _⟩
      · subst hp0; omega
      · obtain ⟨g0, h0, hk0, hr0⟩ := ctx.gauge
        have hg0 : g0 = g := by rw [hg] at h0; exact (Option.some.inj h0).symm
        subst hg0
        have hr' : r' = r := by rw [hk] at hk0; injection hk0
        obtain ⟨e0, he0, hgid0, hs0⟩ := ctx.endo
        have hee : e' = e0 := by rw [← hr', he] at he0; exact Option.some.inj he0
        have her' : er = R := by rw [her] at hr0; exact Option.some.inj hr0
        rw [hee, her', hgid0, hs0] at hpe
        have hle : p * S ≤ v.gaugePower rg * R := by
          rw [hpe]; exact tdiv_mul_le (Int.mul_nonneg hpv hR) hS
        rw [Int.mul_comm (v.gaugePower rg) R] at hle
        omega
    · omega

theorem runPaid_nonclaim {s : State} {op : Op} (gid : Nat) (ops : List Op) (hc : isClaim op = false) :
    runPaid s gid (op :: ops) = runPaid (step s op).1 gid ops := by
  cases op with
  | claim a g => cases hc
  | _ => simp only [runPaid]; omega

/-- **the bound for mixed histories**: within one distribution epoch, whatever else happens, what
    gauge `eg` pays times the snapshot stays below the allotment times the power that could still claim
    at the start -/
theorem claims_bound_mixed {eg r rg : Nat} {R S : Int} (hR : 0 ≤ R) (hS : 0 < S) (ops : List Op)
    (hne : ∀ op ∈ ops, isEpochEnd op = false) (s : State) (ctx : EpochCtx s eg r rg R S)
    (hnr : NoRaiseRun s ops) : runPaid s eg ops * S ≤ R * U s rg := by
  induction ops generalizing s with
  | nil =>
    have : 0 ≤ U s rg := usum_nonneg_step (fun x hx => (ctx.wf.votes x hx).gp_nonneg rg)
    have := Int.mul_nonneg hR this
    simp only [runPaid]; omega
  | cons op ops ih =>
    have heop : isEpochEnd op = false := hne op (by simp)
    have ctx' := step_ctx (op := op) ctx heop
    have ih' := ih (fun o ho => hne o (by simp [ho])) _ ctx' hnr.2
    by_cases hc : isClaim op = true
    · cases op with
      | claim a g' =>
        have := claim_step_bound hR hS ctx a g'
        have e : runPaid s eg (Op.claim a g' :: ops)
            = (if g' = eg then (step s (.claim a g')).2.2 else 0) + runPaid (step s (.claim a g')).1 eg ops := rfl
        rw [e, Int.add_mul]
        omega
      | _ => cases hc
    · have hc' : isClaim op = false := by simpa using hc
      rw [runPaid_nonclaim eg ops hc']
      have hu := U_step_le ctx.wf ctx.inv rg hc' heop hnr.1
      have := Int.mul_le_mul_of_nonneg_left hu hR
      omega

end DymVerif.Spons
