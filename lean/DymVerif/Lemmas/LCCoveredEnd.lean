/-
  Lemmas/LCCoveredEnd — M-Core: the end-block (finalization of pending states, liveness events) keeps every
  covered height of every rollapp covered (`CK`): finalization only sets the `finalized` flag of a state info.
-/
import DymVerif.Lemmas.LCCovered
import DymVerif.Lemmas.CoreForkQuiet
namespace DymVerif.Core.Fork

/-- every covered height stays covered -/
def CK (s s' : St) : Prop := ∀ ra h, LC.Cov s ra h → LC.Cov s' ra h

theorem CK.refl (s : St) : CK s s := fun _ _ h => h
theorem CK.trans {s1 s2 s3 : St} (a : CK s1 s2) (b : CK s2 s3) : CK s1 s3 := fun ra h x => b ra h (a ra h x)
theorem CK.of_getRa {s s' : St} (e : ∀ ra, getRa s' ra = getRa s ra) : CK s s' := by
  intro ra h ⟨r, st, hg, rest⟩
  exact ⟨r, st, (e ra).trans hg, rest⟩

theorem finalizeOne_ck {s s' : St} {fails : List (Nat × Nat)} {ra' idx : Nat}
    (e : finalizeOne s fails ra' idx = some s') : CK s s' := by
  unfold finalizeOne at e
  split at e
  · cases e
  · split at e
    · cases e
    · rename_i r hg
      split at e
      · cases e
      · rename_i st hst
        split at e
        · cases e
        · dsimp only at e
          injection e with e; subst e
          have hid := getRa_id hg
          intro ra h ⟨r0, st0, hg0, hst0, h1, h2⟩
          by_cases hx : ra = r.id
          · subst hx
            rw [hid, hg] at hg0; injection hg0 with hg0; subst hg0
            have hgr : getRa { s with seqH := s.seqH.filter (fun p => !(p.1 == st.creator && st.bds.any (·.height == p.2))) } r.id = some r := by
              show getRa s r.id = some r; rw [hid]; exact hg
            have hget := getRa_setRa_same (r0 := r) (r := { r with states := r.states.set (idx - 1) { st with finalized := true, finalizedAt := s.h }, lastFin := idx }) hgr
            obtain ⟨i, hi⟩ := List.mem_iff_getElem?.1 hst0
            have hlt := getElem?_lt hst
            by_cases hii : idx - 1 = i
            · subst hii
              rw [hst] at hi; injection hi with hi; subst hi
              refine ⟨_, { st with finalized := true, finalizedAt := s.h }, hget, ?_, h1, h2⟩
              exact List.mem_iff_getElem?.2 ⟨idx - 1, by simp [List.getElem?_set, hlt]⟩
            · refine ⟨_, st0, hget, ?_, h1, h2⟩
              exact List.mem_iff_getElem?.2 ⟨i, by rw [List.getElem?_set, if_neg hii]; exact hi⟩
          · refine ⟨r0, st0, ?_, hst0, h1, h2⟩
            have : getRa (setRa { s with seqH := s.seqH.filter (fun p => !(p.1 == st.creator && st.bds.any (·.height == p.2))) }
                { r with states := r.states.set (idx - 1) { st with finalized := true, finalizedAt := s.h }, lastFin := idx }) ra = getRa s ra :=
              getRa_setRa_other hx
            rw [this]; exact hg0

theorem finalizeEntry_go_ck (fails : List (Nat × Nat)) (e : QEntry) (l : List Nat) (s : St) :
    CK s (finalizeEntry.go fails e s l).1 := by
  induction l generalizing s with
  | nil => unfold finalizeEntry.go; exact CK.of_getRa (fun _ => rfl)
  | cons i rest ih =>
    unfold finalizeEntry.go
    split
    · rename_i s1 h1; exact (finalizeOne_ck h1).trans (ih s1)
    · exact CK.of_getRa (fun _ => rfl)

theorem finalizeAll_ck (fails : List (Nat × Nat)) (es : List QEntry) (failed : List Nat) (s : St) :
    CK s (finalizeAll s fails es failed) := by
  induction es generalizing s failed with
  | nil => unfold finalizeAll; exact CK.refl s
  | cons e es ih =>
    unfold finalizeAll
    split
    · exact ih _ _
    · have h1 := finalizeEntry_go_ck fails e e.idx s
      unfold finalizeEntry
      exact h1.trans (ih _ _)

end DymVerif.Core.Fork
