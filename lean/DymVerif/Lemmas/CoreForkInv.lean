/-
  Lemmas/CoreForkInv — two invariants of every reachable state that give the fork clauses their
  clean form:
    * `PropRa`: the proposer and the successor of a rollapp are sequencers of that rollapp
      (so the proposer a fork removes has a record and belongs to the forked rollapp);
    * `Liab`: every (sequencer, height) liability refers to an unfinalized height of a state of the
      sequencer's rollapp created by it.
  This file: the definitions and the step relation `Good` satisfied by every transition that neither
  adds states or liabilities nor changes revisions or finalization flags.
-/
import DymVerif.Lemmas.CoreForkSpec
import DymVerif.Lemmas.CoreCustody3
namespace DymVerif.Core.Fork

-- ---------------------------------------------------------------- definitions

/-- `a` is a sequencer of rollapp `ra` -/
def SeqOf (s : St) (a : Addr) (ra : Nat) : Prop := ∃ q, getSeq s a = some q ∧ q.rollapp = ra

def SeqMono (s s' : St) : Prop := ∀ a ra, SeqOf s a ra → SeqOf s' a ra

def eraseNext (st : SInfo) : SInfo := { st with next := NextP.empty }

/-- what the `Good` transitions keep of a rollapp record: revisions and states up to `NextProposer` -/
def raView (r : Rollapp) : List (Nat × Nat) × List SInfo := (r.revs, r.states.map eraseNext)

/-- proposer and successor of `r` are sequencers of `r` -/
def PQ (s : St) (r : Rollapp) : Prop :=
  (∀ a, r.proposer = some a → SeqOf s a r.id) ∧ (∀ a, r.successor = some a → SeqOf s a r.id)

def PropRa (s : St) : Prop := ∀ id r, getRa s id = some r → PQ s r

def Liab (s : St) : Prop := ∀ p ∈ s.seqH, ∃ (ra : Nat) (r : Rollapp) (i : Nat) (st : SInfo),
  SeqOf s p.1 ra ∧ getRa s ra = some r ∧ r.states[i]? = some st ∧ st.creator = p.1 ∧ st.finalized = false ∧
    st.start ≤ p.2 ∧ p.2 ≤ st.last

/-- the creator of every recorded state is a sequencer of that rollapp -/
def Creators (s : St) : Prop := ∀ id r, getRa s id = some r → ∀ st ∈ r.states, SeqOf s st.creator id

structure J (s : St) : Prop where
  prop : PropRa s
  liab : Liab s
  creators : Creators s

-- ---------------------------------------------------------------- SeqOf / SeqMono

theorem SeqOf.congr {s s' : St} (e : s'.seqs = s.seqs) {a : Addr} {ra : Nat} (h : SeqOf s a ra) : SeqOf s' a ra := by
  obtain ⟨q, h1, h2⟩ := h
  exact ⟨q, by rw [getSeq_congr e]; exact h1, h2⟩

theorem SeqMono.refl (s : St) : SeqMono s s := fun _ _ h => h
theorem SeqMono.trans {s1 s2 s3 : St} (a : SeqMono s1 s2) (b : SeqMono s2 s3) : SeqMono s1 s3 :=
  fun x ra h => b x ra (a x ra h)
theorem SeqMono.of_seqs {s s' : St} (e : s'.seqs = s.seqs) : SeqMono s s' := fun _ _ h => h.congr e

theorem SeqMono.map {s : St} (f : Seq → Seq) (hf : ∀ x, (f x).addr = x.addr) (hr : ∀ x, (f x).rollapp = x.rollapp) :
    SeqMono s { s with seqs := s.seqs.map f } := by
  intro a ra ⟨q, h1, h2⟩
  exact ⟨f q, by rw [getSeq_map s f hf, h1]; rfl, by rw [hr, h2]⟩

theorem SeqMono.setSeq {s : St} {q q0 : Seq} (hg : getSeq s q.addr = some q0) (hr : q.rollapp = q0.rollapp) :
    SeqMono s (setSeq s q) := by
  intro a ra ⟨x, h1, h2⟩
  rw [SeqOf, getSeq_setSeq, h1]
  by_cases hx : (x.addr == q.addr) = true
  · have hxa : x.addr = q.addr := by simpa using hx
    have : a = q.addr := by rw [← hxa]; exact (getSeq_addr h1).symm
    subst this
    rw [hg] at h1; injection h1 with h1; subst h1
    exact ⟨q, by show some (if (q0.addr == q.addr) = true then q else q0) = some q; rw [if_pos hx], by rw [hr, h2]⟩
  · exact ⟨x, by show some (if (x.addr == q.addr) = true then q else x) = some x; rw [if_neg hx], h2⟩

theorem find_insertSorted_addr (l : List Seq) (x : Seq) (a : Addr) (hx : x.addr ≠ a) (hfresh : ∀ y ∈ l, y.addr ≠ x.addr) :
    (insertSorted (fun u v => decide (u.addr < v.addr)) x l).find? (·.addr == a) = l.find? (·.addr == a) := by
  induction l with
  | nil => simp [insertSorted, hx]
  | cons y ys ih =>
    have hy := hfresh y (by simp)
    have hxa : (x.addr == a) = false := by simp [hx]
    unfold insertSorted
    by_cases h1 : x.addr < y.addr
    · simp only [h1, decide_true, if_true]
      rw [List.find?_cons, hxa]
    · have h2 : y.addr < x.addr := Nat.lt_of_le_of_ne (Nat.le_of_not_lt h1) hy
      simp only [h1, h2, decide_false, decide_true, Bool.false_eq_true, if_false, if_true]
      rw [List.find?_cons, List.find?_cons, ih (fun z hz => hfresh z (by simp [hz]))]

theorem SeqMono.insert {s : St} {q : Seq} (hnone : getSeq s q.addr = none) :
    SeqMono s { s with seqs := insertSorted (fun x y => decide (x.addr < y.addr)) q s.seqs } := by
  intro a ra ⟨x, h1, h2⟩
  refine ⟨x, ?_, h2⟩
  have hne : q.addr ≠ a := by
    intro hc; rw [hc, h1] at hnone; cases hnone
  unfold getSeq at h1 ⊢
  dsimp only
  rw [find_insertSorted_addr _ _ _ hne (getSeq_none hnone)]
  exact h1

-- ---------------------------------------------------------------- PQ

theorem PQ.mono {s s' : St} {r : Rollapp} (m : SeqMono s s') (h : PQ s r) : PQ s' r :=
  ⟨fun a ha => m _ _ (h.1 a ha), fun a ha => m _ _ (h.2 a ha)⟩

theorem PQ.congr {s s' : St} {r : Rollapp} (e : s'.seqs = s.seqs) (h : PQ s r) : PQ s' r := h.mono (SeqMono.of_seqs e)

/-- `PQ` only reads id, proposer and successor -/
theorem PQ.of_fields {s : St} {r r' : Rollapp} (h : PQ s r) (e1 : r'.id = r.id) (e2 : r'.proposer = r.proposer)
    (e3 : r'.successor = r.successor) : PQ s r' := by
  unfold PQ at *; rw [e1, e2, e3]; exact h

-- ---------------------------------------------------------------- eraseNext / raView

theorem eraseNext_set_next (st : SInfo) (n : NextP) : eraseNext { st with next := n } = eraseNext st := rfl

theorem map_eraseNext_setLastNext (l : List SInfo) (n : NextP) : (setLastNext l n).map eraseNext = l.map eraseNext := by
  unfold setLastNext
  split
  · rfl
  · rename_i x rest e
    have : l = (x :: rest).reverse := by rw [← e, List.reverse_reverse]
    rw [this]
    simp [eraseNext]

theorem getElem?_of_map_eraseNext {l l' : List SInfo} (e : l'.map eraseNext = l.map eraseNext) {i : Nat} {st : SInfo}
    (h : l[i]? = some st) : ∃ st', l'[i]? = some st' ∧ eraseNext st' = eraseNext st := by
  have h1 : (l.map eraseNext)[i]? = some (eraseNext st) := by rw [List.getElem?_map, h]; rfl
  rw [← e, List.getElem?_map] at h1
  cases hx : l'[i]? with
  | none => rw [hx] at h1; cases h1
  | some st' => rw [hx] at h1; exact ⟨st', rfl, by simpa using h1⟩

theorem eraseNext_fields {a b : SInfo} (e : eraseNext a = eraseNext b) :
    a.creator = b.creator ∧ a.start = b.start ∧ a.num = b.num ∧ a.finalized = b.finalized ∧ a.bds = b.bds ∧
      a.creationHeight = b.creationHeight := by
  unfold eraseNext at e
  injection e with e1 e2 e3 e4 e5 e6 e7 e8 e9
  exact ⟨e1, e2, e3, e5, e7, e4⟩

theorem eraseNext_last {a b : SInfo} (e : eraseNext a = eraseNext b) : a.last = b.last := by
  have := eraseNext_fields e
  unfold SInfo.last; rw [this.2.1, this.2.2.1]

-- ---------------------------------------------------------------- the step relation

/-- a transition that keeps every rollapp's revisions and states (up to `NextProposer`), adds no
    liability, keeps every sequencer in its rollapp, and keeps proposer/successor known -/
structure Good (s s' : St) : Prop where
  seqMono : SeqMono s s'
  seqH : ∀ p ∈ s'.seqH, p ∈ s.seqH
  keep : ∀ id r, getRa s id = some r → ∃ r', getRa s' id = some r' ∧ raView r' = raView r ∧ (PQ s r → PQ s' r')
  fresh : ∀ id r', getRa s' id = some r' → getRa s id = none → PQ s' r' ∧ r'.states = []

theorem Good.refl (s : St) : Good s s :=
  ⟨SeqMono.refl s, fun _ h => h, fun _ r h => ⟨r, h, rfl, fun x => x⟩, fun _ _ h1 h2 => by rw [h1] at h2; cases h2⟩

theorem Good.trans {s1 s2 s3 : St} (a : Good s1 s2) (b : Good s2 s3) : Good s1 s3 := by
  refine ⟨a.seqMono.trans b.seqMono, fun p h => a.seqH p (b.seqH p h), ?_, ?_⟩
  · intro id r hg
    obtain ⟨r', h1, h2, h3⟩ := a.keep id r hg
    obtain ⟨r'', h4, h5, h6⟩ := b.keep id r' h1
    exact ⟨r'', h4, h5.trans h2, fun x => h6 (h3 x)⟩
  · intro id r'' hg hn
    cases h2 : getRa s2 id with
    | none => exact b.fresh id r'' hg h2
    | some r' =>
      obtain ⟨hp, hs⟩ := a.fresh id r' h2 hn
      obtain ⟨r2, h4, h5, h6⟩ := b.keep id r' h2
      rw [hg] at h4; injection h4 with h4; subst h4
      refine ⟨h6 hp, ?_⟩
      have : r''.states.map eraseNext = r'.states.map eraseNext := congrArg Prod.snd h5
      rw [hs] at this
      simpa using this

/-- same rollapp records, sequencers only move monotonically, no new liability -/
theorem Good.of_ras {s s' : St} (e : s'.ras = s.ras) (m : SeqMono s s') (h : ∀ x ∈ s'.seqH, x ∈ s.seqH) : Good s s' := by
  refine ⟨m, h, ?_, ?_⟩
  · intro id r hg
    exact ⟨r, by rw [getRa_congr e]; exact hg, rfl, fun x => x.mono m⟩
  · intro id r' hg hn
    rw [getRa_congr e, hn] at hg; cases hg

theorem Good.of_eq {s s' : St} (e1 : s'.ras = s.ras) (e2 : s'.seqs = s.seqs) (e3 : s'.seqH = s.seqH) : Good s s' :=
  Good.of_ras e1 (SeqMono.of_seqs e2) (fun p h => e3 ▸ h)

/-- writing back a record with the same view (into a state that differs from `s` outside
    ras / seqs / seqH only) -/
theorem Good.setRa {s s1 : St} {r0 r1 : Rollapp} (e1 : s1.ras = s.ras) (e2 : s1.seqs = s.seqs) (e3 : s1.seqH = s.seqH)
    (hg : getRa s r1.id = some r0) (hv : raView r1 = raView r0) (hp : PQ s r0 → PQ s r1) : Good s (setRa s1 r1) := by
  have hg1 : getRa s1 r1.id = some r0 := by rw [getRa_congr e1]; exact hg
  refine ⟨SeqMono.of_seqs (by rw [setRa_seqs, e2]), fun p h => by rw [setRa_seqH, e3] at h; exact h, ?_, ?_⟩
  · intro id r hgr
    by_cases hid : id = r1.id
    · subst hid
      rw [hg] at hgr; injection hgr with hgr; subst hgr
      exact ⟨r1, getRa_setRa_same hg1, hv, fun x => (hp x).congr (by rw [setRa_seqs, e2])⟩
    · exact ⟨r, by rw [getRa_setRa_other hid, getRa_congr e1]; exact hgr, rfl, fun x => x.congr (by rw [setRa_seqs, e2])⟩
  · intro id r' hgr hn
    rw [getRa_setRa, getRa_congr e1, hn] at hgr; cases hgr

theorem Good.setSeq {s : St} {q q0 : Seq} (hg : getSeq s q.addr = some q0) (hr : q.rollapp = q0.rollapp) :
    Good s (setSeq s q) := Good.of_ras rfl (SeqMono.setSeq hg hr) (fun _ h => h)

/-- the invariants follow any `Good` step -/
theorem Good.J {s s' : St} (g : Good s s') (h : J s) : J s' := by
  constructor
  · intro id r' hg
    cases hs : getRa s id with
    | none => exact (g.fresh id r' hg hs).1
    | some r =>
      obtain ⟨r2, h1, _, h3⟩ := g.keep id r hs
      rw [hg] at h1; injection h1 with h1; subst h1
      exact h3 (h.prop id r hs)
  · intro p hp
    obtain ⟨ra, r, i, st, h1, h2, h3, h4, h5, h6, h7⟩ := h.liab p (g.seqH p hp)
    obtain ⟨r', g1, g2, _⟩ := g.keep ra r h2
    obtain ⟨st', k1, k2⟩ := getElem?_of_map_eraseNext (congrArg Prod.snd g2 : r'.states.map eraseNext = r.states.map eraseNext) h3
    have hf := eraseNext_fields k2
    exact ⟨ra, r', i, st', g.seqMono _ _ h1, g1, k1, hf.1.trans h4, hf.2.2.2.1.trans h5, by rw [hf.2.1]; exact h6,
      by rw [eraseNext_last k2]; exact h7⟩
  · intro id r' hg st' hst'
    cases hs : getRa s id with
    | none => rw [(g.fresh id r' hg hs).2] at hst'; cases hst'
    | some r =>
      obtain ⟨r2, h1, h2, _⟩ := g.keep id r hs
      rw [hg] at h1; injection h1 with h1; subst h1
      obtain ⟨i, hi⟩ := List.mem_iff_getElem?.1 hst'
      obtain ⟨st, k1, k2⟩ := getElem?_of_map_eraseNext
        (congrArg Prod.snd h2 : r'.states.map eraseNext = r.states.map eraseNext).symm hi
      rw [← (eraseNext_fields k2).1]
      exact g.seqMono _ _ (h.creators id r hs st (List.mem_of_getElem? k1))

-- ---------------------------------------------------------------- Good: rollapp-side helpers

theorem indicateLiveness_good {s : St} {id : Nat} {r : Rollapp} (hg : getRa s id = some r) :
    Good s (indicateLiveness s r) := by
  unfold indicateLiveness resetClock scheduleEvent
  dsimp only
  exact Good.setRa rfl rfl rfl (r0 := r) (by show getRa s r.id = some r; rw [getRa_id hg]; exact hg) rfl
    (fun x => x.of_fields rfl rfl rfl)

theorem afterSetRealProposer_good (s : St) (ra : Nat) (a : Addr) : Good s (afterSetRealProposer s ra a) := by
  unfold afterSetRealProposer
  split
  · exact Good.refl s
  · rename_i r hg
    have g1 := indicateLiveness_good hg
    split
    · exact g1
    · rename_i r1 hg1
      refine g1.trans (Good.setRa rfl rfl rfl (r0 := r1) ?_ ?_ (fun x => x.of_fields rfl rfl rfl))
      · show getRa _ r1.id = some r1; rw [getRa_id hg1]; exact hg1
      · show (r1.revs, (setLastNext r1.states (NextP.addr a)).map eraseNext) = (r1.revs, r1.states.map eraseNext)
        rw [map_eraseNext_setLastNext]

theorem foldl_pick_mem (f : Option Seq → Seq → Option Seq)
    (hf : ∀ acc q, f acc q = some q ∨ (f acc q = acc ∧ acc ≠ none)) (l : List Seq) (acc : Option Seq) (b : Seq)
    (h : l.foldl f acc = some b) : b ∈ l ∨ acc = some b := by
  induction l generalizing acc with
  | nil => exact Or.inr h
  | cons x xs ih =>
    rw [List.foldl_cons] at h
    rcases ih _ h with h1 | h1
    · exact Or.inl (by simp [h1])
    · rcases hf acc x with h2 | h2
      · rw [h2] at h1; injection h1 with h1; exact Or.inl (by simp [h1])
      · rw [h2.1] at h1; exact Or.inr h1

theorem choose_mem {s : St} {ra : Nat} {a : Addr} (h : choose s ra = some a) :
    ∃ q ∈ s.seqs, q.addr = a ∧ q.rollapp = ra := by
  unfold choose at h
  dsimp only at h
  rw [Option.map_eq_some_iff] at h
  obtain ⟨b, hb, hab⟩ := h
  rcases foldl_pick_mem _ (by
      intro acc q
      cases acc with
      | none => exact Or.inl rfl
      | some c =>
        dsimp only
        split
        · exact Or.inl rfl
        · exact Or.inr ⟨rfl, by simp⟩) _ _ _ hb with h1 | h1
  · have := List.mem_filter.1 h1
    refine ⟨b, this.1, hab, ?_⟩
    have h2 := this.2
    simp only [Bool.and_eq_true, beq_iff_eq] at h2
    exact h2.1.1
  · cases h1

theorem getSeq_of_mem_nodup {s : St} (hn : AddrNodup s.seqs) {q : Seq} (hq : q ∈ s.seqs) : getSeq s q.addr = some q := by
  unfold getSeq
  cases hf : s.seqs.find? (·.addr == q.addr) with
  | none =>
    have := List.find?_eq_none.1 hf q hq
    simp at this
  | some x =>
    have hx := List.mem_of_find?_eq_some hf
    have hxa : x.addr = q.addr := by simpa using List.find?_some hf
    rw [hn.eq_of_mem hx hq hxa]

theorem choose_seqOf {s : St} (hn : AddrNodup s.seqs) {ra : Nat} {a : Addr} (h : choose s ra = some a) : SeqOf s a ra := by
  obtain ⟨q, hq, h1, h2⟩ := choose_mem h
  exact ⟨q, by rw [← h1]; exact getSeq_of_mem_nodup hn hq, h2⟩

theorem recoverFromSentinel_good {s s' : St} {ra : Nat} (hn : AddrNodup s.seqs)
    (e : recoverFromSentinel s ra = .ok s') : Good s s' := by
  unfold recoverFromSentinel at e
  split at e
  · cases e
  · rename_i r hg
    split at e
    · cases e
    · split at e
      · cases e
      · rename_i a hch
        injection e with e; subst e
        have hid := getRa_id hg
        refine (Good.setRa rfl rfl rfl (r0 := r) (r1 := { r with proposer := some a }) ?_ rfl ?_).trans
          (afterSetRealProposer_good _ _ _)
        · show getRa s r.id = some r; rw [hid]; exact hg
        · intro x
          refine ⟨?_, x.2⟩
          intro a' ha'
          have : a' = a := by injection ha' with ha'; exact ha'.symm
          subst this
          show SeqOf s a' r.id
          rw [hid]; exact choose_seqOf hn hch

theorem setProposer_none_good (s : St) (ra : Nat) : Good s (setProposer s ra none) := by
  unfold setProposer
  split
  · exact Good.refl s
  · rename_i r hg
    refine Good.setRa rfl rfl rfl (r0 := r) ?_ rfl ?_
    · show getRa s r.id = some r; rw [getRa_id hg]; exact hg
    · intro x; exact ⟨fun a ha => (by cases ha), x.2⟩

theorem setSuccessor_none_good (s : St) (ra : Nat) : Good s (setSuccessor s ra none) := by
  unfold setSuccessor
  split
  · exact Good.refl s
  · rename_i r hg
    refine Good.setRa rfl rfl rfl (r0 := r) ?_ rfl ?_
    · show getRa s r.id = some r; rw [getRa_id hg]; exact hg
    · intro x; exact ⟨x.1, fun a ha => (by cases ha)⟩

theorem removeFromNoticeQueue_good (s : St) (q : Seq) : Good s (removeFromNoticeQueue s q) := by
  unfold removeFromNoticeQueue; split
  · exact Good.of_eq rfl rfl rfl
  · exact Good.refl s

theorem abruptRemoveProposer_good (s : St) (ra : Nat) : Good s (abruptRemoveProposer s ra) := by
  unfold abruptRemoveProposer
  split
  · exact Good.refl s
  · split
    · exact Good.refl s
    · split
      · exact Good.refl s
      · rename_i a _ _ q hq
        have hqa := getSeq_addr hq
        refine ((removeFromNoticeQueue_good s q).trans (Good.setSeq (q := { q with bonded := false }) (q0 := q) ?_ rfl)).trans (setProposer_none_good _ _)
        show getSeq (removeFromNoticeQueue s q) q.addr = some q
        rw [getSeq_congr (removeFromNoticeQueue_seqs s q).1, hqa]; exact hq

theorem optOutAll_good (s : St) (ra : Nat) : Good s (optOutAll s ra) := by
  unfold optOutAll
  exact Good.of_ras rfl (SeqMono.map _ (by intro x; split <;> rfl) (by intro x; split <;> rfl)) (fun _ h => h)

theorem seqOnHardFork_good (s : St) (ra : Nat) : Good s (seqOnHardFork s ra) := by
  unfold seqOnHardFork
  exact ((optOutAll_good s ra).trans (abruptRemoveProposer_good _ _)).trans (setSuccessor_none_good _ _)

end DymVerif.Core.Fork
