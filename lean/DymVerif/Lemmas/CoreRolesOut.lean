/-
  Lemmas/CoreRolesOut — a marked sequencer (notice started or unbonded) that holds no proposer slot
  never holds one again, and never is a successor.
-/
import DymVerif.Lemmas.CoreRolesClass
namespace DymVerif.Core.Roles

/-- a rollapp that did not exist before the operation has an empty proposer slot after it -/
theorem apply_new_rollapp {s s' : St} {o : Op} {id : Nat} {r' : Rollapp} (h : Roles s)
    (e : apply s o = .ok s') (hn : getRa s id = none) (hr' : getRa s' id = some r') : r'.proposer = none := by
  have hps : propOf s id = none := by unfold propOf; rw [hn]; rfl
  have hps' : propOf s' id = some r'.proposer := propOf_get hr'
  have contra : ∀ {P : Prop}, propOf s' id = propOf s id → P := by
    intro P hc
    rw [hps, hps'] at hc
    cases hc
  have fromNone : propOf s' id = some none → r'.proposer = none := by
    intro hc; rw [hps'] at hc; injection hc
  cases o with
  | createRollapp id' owner mb =>
    simp only [apply] at e
    split at e
    · cases e
    · injection e with e; subst e
      have hm := getRa_mem hr'
      have hid := getRa_id hr'
      rcases insertSorted_mem _ _ _ _ hm with h1 | h1
      · rw [h1]; rfl
      · exact absurd hid (getRa_none hn r' h1)
  | bridge ra hh =>
    simp only [apply] at e
    split at e
    · cases e
    · rename_i r1 hg1
      split at e
      · cases e
      · split at e
        · cases e
        · injection e with e; subst e
          exact contra (psame_setRa (r0 := r1) hg1 (by rfl) (by rfl) id)
  | fund a' amt => simp only [apply] at e; injection e with e; subst e; exact contra rfl
  | createSeq a' ra b d =>
    rcases createSeq_p e with ps | ⟨pf, pn, _, _⟩
    · exact contra (ps id)
    · by_cases hc : id = ra
      · subst hc; rw [hps] at pn; cases pn
      · exact contra (pf id hc)
  | bondInc a' amt d => exact contra ((increaseBond_frame h.core.uniq e).psame id)
  | bondDec a' amt => exact contra (PSame.of_ras (decreaseBond_ras e) id)
  | unbond a' => exact contra (PSame.of_ras (unbond_ras e) id)
  | optIn a' v =>
    obtain ⟨q, _, hcase⟩ := optIn_p e
    rcases hcase with ps | ⟨pf, pn, _, _⟩
    · exact contra (ps id)
    · by_cases hc : id = q.rollapp
      · subst hc; rw [hps] at pn; cases pn
      · exact contra (pf id hc)
  | kick a' =>
    obtain ⟨k, r1, _, _, _, _, _, hk2, _, _, _, _, pf, _, _⟩ := kick_p h e
    by_cases hc : id = k.rollapp
    · subst hc; rw [hn] at hk2; cases hk2
    · exact contra (pf id hc)
  | update m =>
    obtain ⟨r1, hr1, _, hcase⟩ := updateState_p h e
    rcases hcase with ps | ⟨_, pf, _, _⟩
    · exact contra (ps id)
    · by_cases hc : id = m.ra
      · subst hc; rw [hn] at hr1; cases hr1
      · exact contra (pf id hc)
  | fraud au ra hh rev p rw =>
    have fp := fraud_p h e
    by_cases hc : id = ra
    · subst hc; exact fromNone fp.2
    · exact contra (fp.1 id hc)
  | obsolete au vs =>
    rcases markObsolete_p h e id with h1 | h1
    · exact contra h1
    · exact fromNone h1
  | punish au a' rw => exact contra ((punish_frame h.core.uniq (punishProposal_ok e).2).psame id)
  | transferOwner sg ra' no =>
    obtain ⟨r1, hg1, _, _, _, rfl⟩ := transferOwner_ok e
    exact contra (psame_setRa (r0 := r1) hg1 (by rfl) (by rfl) id)
  | setSeqParams au sp =>
    obtain ⟨_, hnp, _, rfl⟩ := setSeqParams_ok e
    exact contra rfl
  | begin_ dt => simp only [apply] at e; injection e with e; subst e; exact contra (beginBlock_psame s dt id)
  | end_ f => simp only [apply] at e; injection e with e; subst e; exact contra ((endBlock_frame h.core.uniq).psame id)

/-- a marked sequencer is no rollapp's successor (a successor is bonded and has not started a notice) -/
theorem marked_not_successor {s : St} (h : RolesCore s) {a : Addr} (hm : Marked s a) :
    ∀ r ∈ s.ras, r.successor ≠ some a := by
  intro r hr hs
  obtain ⟨q, hq, hmk⟩ := hm
  obtain ⟨q', hq', hb, _⟩ := h.succ r hr a hs
  rw [hq] at hq'; injection hq' with hq'; subst hq'
  rcases hmk with hmk | hmk
  · rw [h.succFresh r hr a hs q hq] at hmk; cases hmk
  · rw [hb] at hmk; cases hmk

/-- marked and holding no proposer slot -/
structure Out (s : St) (a : Addr) : Prop where
  marked : Marked s a
  notProp : ∀ r ∈ s.ras, r.proposer ≠ some a

theorem apply_out {s s' : St} {o : Op} {a : Addr} (h : Roles s) (e : apply s o = .ok s') (ho : Out s a) : Out s' a := by
  have h' := apply_roles h e
  have hm' : Marked s' a := (apply_mono h e).marked ho.marked
  refine ⟨hm', ?_⟩
  intro r' hr' hp'
  have hg' : getRa s' r'.id = some r' := getRa_of_mem h'.core.uniq.ids hr'
  cases hg : getRa s r'.id with
  | none =>
    rw [apply_new_rollapp h e hg hg'] at hp'; cases hp'
  | some r =>
    have hnp : r.proposer ≠ some a := ho.notProp r (getRa_mem hg)
    have hne : r'.proposer ≠ r.proposer := by rw [hp']; exact fun hc => hnp hc.symm
    rcases apply_classify h e hg hg' hne with ⟨_, _, _, _, _, _, _, _, hc⟩ | ⟨_, _, _, _, _, _, _, _, _, _, _, _, _, hc, _⟩ |
        ⟨hc, _⟩ | ⟨_, hc, _⟩
    · rw [hp'] at hc
      exact marked_not_successor h.core ho.marked r (getRa_mem hg) hc.symm
    · rw [hp'] at hc
      exact choose_ne_marked h'.core hm' _ hc.symm
    · rw [hp'] at hc; cases hc
    · rw [hp'] at hc
      exact choose_ne_marked h'.core hm' _ hc.symm

theorem step_out {s : St} {o : Op} {a : Addr} (h : Roles s) (ho : Out s a) : Out (step s o).1 a := by
  unfold step
  split
  · rename_i s' e; exact apply_out h e ho
  · exact ho

theorem runFrom_out {s : St} {a : Addr} (h : Roles s) (ho : Out s a) (ops : List Op) :
    Roles (runFrom s ops) ∧ Out (runFrom s ops) a := by
  unfold runFrom
  apply foldl_inv (fun acc => Roles acc ∧ Out acc a)
  · exact ⟨h, ho⟩
  · intro b o hb; exact ⟨step_roles hb.1, step_out hb.1 hb.2⟩

/-- the state right after a sequencer lost its proposer slot: it is out -/
theorem out_after_removal {s s' : St} {o : Op} {id : Nat} {r : Rollapp} {a : Addr} (h : Roles s)
    (e : apply s o = .ok s') (hg : getRa s id = some r) (hp : r.proposer = some a)
    (hlost : ∀ r', getRa s' id = some r' → r'.proposer ≠ some a) : Out s' a := by
  have h' := apply_roles h e
  have hm : Marked s' a := by
    apply apply_removed_marked h e hg hp
    unfold propOf
    cases hg2 : getRa s' id with
    | none => intro hc; cases hc
    | some r' =>
      intro hc
      simp only [Option.map_some, Option.some.injEq] at hc
      exact hlost r' hg2 hc
  refine ⟨hm, ?_⟩
  intro r' hr' hp'
  -- the sequencer belongs to rollapp `id`, before and after
  obtain ⟨q, hq, _, hqr⟩ := h.core.prop r (getRa_mem hg) a hp
  obtain ⟨q', hq', hqr', _⟩ := apply_mono h e a q hq
  obtain ⟨q'', hq'', _, hqr''⟩ := h'.core.prop r' hr' a hp'
  rw [hq'] at hq''; injection hq'' with hq''; subst hq''
  have hid : r'.id = id := by rw [← hqr'', hqr', hqr, getRa_id hg]
  have hg' : getRa s' id = some r' := by rw [← hid]; exact getRa_of_mem h'.core.uniq.ids hr'
  exact hlost r' hg' hp'

end DymVerif.Core.Roles
