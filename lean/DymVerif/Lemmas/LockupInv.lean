import DymVerif.Lemmas.LockupBasic
/-
  Lemmas/LockupInv — the state invariant of M-Lockup and its preservation by every operation.
-/
namespace DymVerif.Lockup

/-- the state invariant of M-Lockup -/
structure Inv (s : State) : Prop where
  /-- module account = Σ coins of existing locks, per denom -/
  custody : ∀ d, s.modBal d = lockedDenom s.locks d
  /-- accumulation(denom, k) = Σ coins of the locks of that denom with duration >= k, every k -/
  accum : ∀ d k, accQuery s.acc d k = (lockedLonger s.locks d k : Int)
  nodup : (s.locks.map (·.id)).Nodup
  idle : ∀ l ∈ s.locks, 0 < l.id ∧ l.id ≤ s.lastId
  pos : ∀ l ∈ s.locks, 0 < l.amount
  /-- ghost: a lock is unlocking iff its owner's begin-unlock ran, at `t0 <= now`, and then
      end time = t0 + duration -/
  ghost : ∀ l ∈ s.locks, (l.endTime = none → l.startedAt = none) ∧
            (∀ e, l.endTime = some e → ∃ t0, l.startedAt = some t0 ∧ e = t0 + l.duration ∧ t0 ≤ s.now)

theorem init_inv (bal : Actor → Denom → Nat) (now height : Nat) : Inv (init bal now height) := by
  constructor <;> simp [init, lockedDenom, lockedLonger, total, accQuery]

/-! ### bank moves -/

theorem toModule_some {s t : State} {a d x : Nat} (h : toModule s a d x = some t) :
    x ≤ s.bal a d ∧ t.locks = s.locks ∧ t.acc = s.acc ∧ t.lastId = s.lastId ∧ t.now = s.now ∧
    t.height = s.height ∧
    (∀ d', t.modBal d' = s.modBal d' + (if d' = d then x else 0)) ∧
    (∀ a' d', t.bal a' d' + (if a' = a ∧ d' = d then x else 0) = s.bal a' d') := by
  unfold toModule at h
  split at h
  · simp at h
  · rename_i hlt
    injection h with h
    subst h
    refine ⟨by omega, rfl, rfl, rfl, rfl, rfl, ?_, ?_⟩
    · intro d'
      simp only [updMod]
      split <;> simp_all
    · intro a' d'
      simp only [updBal]
      split
      · rename_i hc; obtain ⟨h1, h2⟩ := hc; subst h1; subst h2; omega
      · simp

theorem fromModule_some {s t : State} {a d x : Nat} (h : fromModule s a d x = some t) :
    x ≤ s.modBal d ∧ t.locks = s.locks ∧ t.acc = s.acc ∧ t.lastId = s.lastId ∧ t.now = s.now ∧
    t.height = s.height ∧
    (∀ d', t.modBal d' + (if d' = d then x else 0) = s.modBal d') ∧
    (∀ a' d', t.bal a' d' = s.bal a' d' + (if a' = a ∧ d' = d then x else 0)) := by
  unfold fromModule at h
  split at h
  · simp at h
  · rename_i hlt
    injection h with h
    subst h
    refine ⟨by omega, rfl, rfl, rfl, rfl, rfl, ?_, ?_⟩
    · intro d'
      simp only [updMod]
      split
      · rename_i hc; subst hc; omega
      · simp
    · intro a' d'
      simp only [updBal]
      split <;> simp_all

theorem fromModule_ok {s : State} (a d x : Nat) (h : x ≤ s.modBal d) :
    ∃ t, fromModule s a d x = some t := by
  unfold fromModule
  have : ¬ s.modBal d < x := by omega
  simp [this]

/-! ### the six state transformers preserve the invariant -/

section
variable {s t : State}

/-- case split on "same denom" (and "long enough"), then arithmetic -/
local macro "denom_cases" l:term "," d:term : tactic =>
  `(tactic| (by_cases hd : ($l).denom = $d
             · subst hd; (try simp at *) <;> omega
             · have hd' : ¬ $d = ($l).denom := fun e => hd e.symm
               (try simp [hd, hd'] at *) <;> omega))
local macro "denom_dur_cases" l:term "," d:term "," k:term : tactic =>
  `(tactic| (by_cases hd : ($l).denom = $d
             · subst hd
               by_cases hk : $k ≤ ($l).duration
               · (try simp [hk] at *) <;> omega
               · (try simp [hk] at *) <;> omega
             · have hd' : ¬ $d = ($l).denom := fun e => hd e.symm
               (try simp [hd, hd'] at *) <;> omega))

/-- frame: `t` is `s` after a bank move -/
structure Frame (s t : State) : Prop where
  locks : t.locks = s.locks
  acc : t.acc = s.acc
  lastId : t.lastId = s.lastId
  now : t.now = s.now

theorem inv_addToLock (h : Inv s) (fr : Frame s t) {l : Lock} (hl : l ∈ s.locks) (amt : Nat)
    (hmod : ∀ d', t.modBal d' = s.modBal d' + (if d' = l.denom then amt else 0)) :
    Inv (addToLock t l amt) := by
  have hset := fun P => total_setLock P h.nodup hl
    (n := { l with amount := l.amount + amt }) rfl
  constructor
  · intro d
    have := hset (fun l => l.denom == d)
    have hc := h.custody d
    simp only [addToLock, lockedDenom, fr.locks, hmod] at *
    simp only [w] at this
    by_cases hd : l.denom = d
    · simp [hd] at this ⊢; omega
    · have hd' : ¬ d = l.denom := fun e => hd e.symm
      simp [hd, hd'] at this ⊢; omega
  · intro d k
    have := hset (fun l => l.denom == d && decide (k ≤ l.duration))
    have hc := h.accum d k
    simp only [addToLock, lockedLonger, fr.locks, fr.acc, accQuery_accAdd, hc] at *
    simp only [w] at this
    by_cases hd : l.denom = d ∧ k ≤ l.duration
    · simp [hd] at this ⊢; omega
    · have : ¬ (l.denom = d ∧ k ≤ l.duration) := hd
      simp only [Bool.and_eq_true, beq_iff_eq, decide_eq_true_eq, hd, if_false] at *
      omega
  · simp only [addToLock, fr.locks, setLock_ids]; exact h.nodup
  · intro x hx
    simp only [addToLock, fr.locks, fr.lastId] at hx ⊢
    rcases mem_setLock hx with ⟨rfl, _⟩ | ⟨hm, _⟩
    · exact h.idle l hl
    · exact h.idle x hm
  · intro x hx
    simp only [addToLock, fr.locks] at hx
    rcases mem_setLock hx with ⟨rfl, _⟩ | ⟨hm, _⟩
    · have := h.pos l hl; simp; omega
    · exact h.pos x hm
  · intro x hx
    simp only [addToLock, fr.locks, fr.now] at hx ⊢
    rcases mem_setLock hx with ⟨rfl, _⟩ | ⟨hm, _⟩
    · exact h.ghost l hl
    · exact h.ghost x hm

theorem inv_createLock (h : Inv s) (fr : Frame s t) (a d amt dur : Nat) (hamt : 0 < amt)
    (hmod : ∀ d', t.modBal d' = s.modBal d' + (if d' = d then amt else 0)) :
    Inv (createLock t a d amt dur) := by
  constructor
  · intro d'
    have hc := h.custody d'
    simp only [createLock, lockedDenom, fr.locks, hmod, total_append, total_single, w] at *
    by_cases hd : d = d'
    · subst hd; simp; omega
    · have hd' : ¬ d' = d := fun e => hd e.symm
      simp [hd, hd']; omega
  · intro d' k
    have hc := h.accum d' k
    simp only [createLock, lockedLonger, fr.locks, fr.acc, accQuery_accAdd, hc, total_append,
      total_single, w] at *
    by_cases hd : d = d' ∧ k ≤ dur
    · simp [hd]
    · simp only [Bool.and_eq_true, beq_iff_eq, decide_eq_true_eq, hd, if_false]; omega
  · simp only [createLock, fr.locks, fr.lastId, List.map_append, List.map_cons, List.map_nil]
    rw [List.nodup_append]
    refine ⟨h.nodup, by simp, ?_⟩
    intro x hx y hy
    rcases List.mem_map.mp hx with ⟨l, hl, rfl⟩
    have := (h.idle l hl).2
    simp at hy
    omega
  · intro x hx
    simp only [createLock, fr.locks, fr.lastId, List.mem_append, List.mem_singleton] at hx ⊢
    rcases hx with hm | rfl
    · have := h.idle x hm; omega
    · simp
  · intro x hx
    simp only [createLock, fr.locks, List.mem_append, List.mem_singleton] at hx
    rcases hx with hm | rfl
    · exact h.pos x hm
    · exact hamt
  · intro x hx
    simp only [createLock, fr.locks, fr.now, List.mem_append, List.mem_singleton] at hx ⊢
    rcases hx with hm | rfl
    · exact h.ghost x hm
    · simp

theorem inv_startUnlock (h : Inv s) {l : Lock} (hl : l ∈ s.locks) : Inv (startUnlock s l) := by
  have hset := fun P => total_setLock P h.nodup hl
    (n := { l with endTime := some (s.now + l.duration), startedAt := some s.now }) rfl
  constructor
  · intro d
    have := hset (fun l => l.denom == d)
    have hc := h.custody d
    simp only [startUnlock, lockedDenom, w] at *
    omega
  · intro d k
    have := hset (fun l => l.denom == d && decide (k ≤ l.duration))
    have hc := h.accum d k
    simp only [startUnlock, lockedLonger, w, hc] at *
    omega
  · simp only [startUnlock, setLock_ids]; exact h.nodup
  · intro x hx
    simp only [startUnlock] at hx ⊢
    rcases mem_setLock hx with ⟨rfl, _⟩ | ⟨hm, _⟩
    · exact h.idle l hl
    · exact h.idle x hm
  · intro x hx
    simp only [startUnlock] at hx
    rcases mem_setLock hx with ⟨rfl, _⟩ | ⟨hm, _⟩
    · exact h.pos l hl
    · exact h.pos x hm
  · intro x hx
    simp only [startUnlock] at hx ⊢
    rcases mem_setLock hx with ⟨rfl, _⟩ | ⟨hm, _⟩
    · simp
    · exact h.ghost x hm

theorem inv_splitUnlock (h : Inv s) {l : Lock} (hl : l ∈ s.locks) (x : Nat) (hx0 : 0 < x)
    (hx : x < l.amount) : Inv (splitUnlock s l x) := by
  have hset := fun P => total_setLock P h.nodup hl (n := { l with amount := l.amount - x }) rfl
  constructor
  · intro d
    have := hset (fun l => l.denom == d)
    have hc := h.custody d
    simp only [splitUnlock, lockedDenom, total_append, total_single, w] at *
    by_cases hd : l.denom = d
    · simp [hd] at this ⊢; omega
    · simp [hd] at this ⊢; omega
  · intro d k
    have := hset (fun l => l.denom == d && decide (k ≤ l.duration))
    have hc := h.accum d k
    simp only [splitUnlock, lockedLonger, total_append, total_single, w, hc] at *
    by_cases hd : l.denom = d ∧ k ≤ l.duration
    · simp [hd] at this ⊢; omega
    · simp only [Bool.and_eq_true, beq_iff_eq, decide_eq_true_eq, hd, if_false] at *; omega
  · simp only [splitUnlock, List.map_append, setLock_ids, List.map_cons, List.map_nil]
    rw [List.nodup_append]
    refine ⟨h.nodup, by simp, ?_⟩
    intro a ha b hb
    rcases List.mem_map.mp ha with ⟨y, hy, rfl⟩
    have := (h.idle y hy).2
    simp at hb
    omega
  · intro y hy
    simp only [splitUnlock, List.mem_append, List.mem_singleton] at hy ⊢
    rcases hy with hm | rfl
    · rcases mem_setLock hm with ⟨rfl, _⟩ | ⟨hm, _⟩
      · have := h.idle l hl; simp; omega
      · have := h.idle y hm; omega
    · simp
  · intro y hy
    simp only [splitUnlock, List.mem_append, List.mem_singleton] at hy
    rcases hy with hm | rfl
    · rcases mem_setLock hm with ⟨rfl, _⟩ | ⟨hm, _⟩
      · simp; omega
      · exact h.pos y hm
    · exact hx0
  · intro y hy
    simp only [splitUnlock, List.mem_append, List.mem_singleton] at hy ⊢
    rcases hy with hm | rfl
    · rcases mem_setLock hm with ⟨rfl, _⟩ | ⟨hm, _⟩
      · exact h.ghost l hl
      · exact h.ghost y hm
    · simp

theorem inv_extendTo (h : Inv s) {l : Lock} (hl : l ∈ s.locks) (dur : Nat)
    (hnot : l.endTime = none) : Inv (extendTo s l dur) := by
  have hset := fun P => total_setLock P h.nodup hl (n := { l with duration := dur }) rfl
  constructor
  · intro d
    have := hset (fun l => l.denom == d)
    have hc := h.custody d
    simp only [extendTo, lockedDenom, w] at *
    omega
  · intro d k
    have := hset (fun l => l.denom == d && decide (k ≤ l.duration))
    have hc := h.accum d k
    simp only [extendTo, lockedLonger, w, hc, accQuery_accAdd] at *
    by_cases hd : l.denom = d
    · subst hd
      by_cases hk : k ≤ l.duration <;> by_cases hk2 : k ≤ dur <;>
        (try simp [hk, hk2] at *) <;> omega
    · have hd' : ¬ d = l.denom := fun e => hd e.symm
      (try simp [hd, hd'] at *) <;> omega
  · simp only [extendTo, setLock_ids]; exact h.nodup
  · intro x hx
    simp only [extendTo] at hx ⊢
    rcases mem_setLock hx with ⟨rfl, _⟩ | ⟨hm, _⟩
    · exact h.idle l hl
    · exact h.idle x hm
  · intro x hx
    simp only [extendTo] at hx
    rcases mem_setLock hx with ⟨rfl, _⟩ | ⟨hm, _⟩
    · exact h.pos l hl
    · exact h.pos x hm
  · intro x hx
    simp only [extendTo] at hx ⊢
    rcases mem_setLock hx with ⟨rfl, _⟩ | ⟨hm, _⟩
    · have := (h.ghost l hl).1 hnot
      simp [hnot, this]
    · exact h.ghost x hm

theorem inv_removeLock (h : Inv s) (fr : Frame s t) {l : Lock} (hl : l ∈ s.locks)
    (hmod : ∀ d', t.modBal d' + (if d' = l.denom then l.amount else 0) = s.modBal d') :
    Inv (removeLock t l) := by
  have hdel := fun P => total_delLock P h.nodup hl
  constructor
  · intro d
    have := hdel (fun l => l.denom == d)
    have hc := h.custody d
    have hm := hmod d
    simp only [removeLock, lockedDenom, fr.locks, w] at *
    denom_cases l, d
  · intro d k
    have := hdel (fun l => l.denom == d && decide (k ≤ l.duration))
    have hc := h.accum d k
    simp only [removeLock, lockedLonger, fr.locks, fr.acc, w, hc, accQuery_accAdd] at *
    denom_dur_cases l, d, k
  · simp only [removeLock, fr.locks]; exact delLock_nodup h.nodup _
  · intro x hx
    simp only [removeLock, fr.locks, fr.lastId] at hx ⊢
    exact h.idle x (mem_delLock.mp hx).1
  · intro x hx
    simp only [removeLock, fr.locks] at hx
    exact h.pos x (mem_delLock.mp hx).1
  · intro x hx
    simp only [removeLock, fr.locks, fr.now] at hx ⊢
    exact h.ghost x (mem_delLock.mp hx).1

theorem inv_shrinkLock (h : Inv s) (fr : Frame s t) {l : Lock} (hl : l ∈ s.locks) (x : Nat)
    (hx : x < l.amount)
    (hmod : ∀ d', t.modBal d' + (if d' = l.denom then x else 0) = s.modBal d') :
    Inv (shrinkLock t l x) := by
  have hset := fun P => total_setLock P h.nodup hl (n := { l with amount := l.amount - x }) rfl
  constructor
  · intro d
    have := hset (fun l => l.denom == d)
    have hc := h.custody d
    have hm := hmod d
    simp only [shrinkLock, lockedDenom, fr.locks, w] at *
    denom_cases l, d
  · intro d k
    have := hset (fun l => l.denom == d && decide (k ≤ l.duration))
    have hc := h.accum d k
    simp only [shrinkLock, lockedLonger, fr.locks, fr.acc, w, hc, accQuery_accAdd] at *
    denom_dur_cases l, d, k
  · simp only [shrinkLock, fr.locks, setLock_ids]; exact h.nodup
  · intro y hy
    simp only [shrinkLock, fr.locks, fr.lastId] at hy ⊢
    rcases mem_setLock hy with ⟨rfl, _⟩ | ⟨hm, _⟩
    · have := h.idle l hl; simp; omega
    · have := h.idle y hm; omega
  · intro y hy
    simp only [shrinkLock, fr.locks] at hy
    rcases mem_setLock hy with ⟨rfl, _⟩ | ⟨hm, _⟩
    · simp; omega
    · exact h.pos y hm
  · intro y hy
    simp only [shrinkLock, fr.locks, fr.now] at hy ⊢
    rcases mem_setLock hy with ⟨rfl, _⟩ | ⟨hm, _⟩
    · exact h.ghost l hl
    · exact h.ghost y hm

end

end DymVerif.Lockup
