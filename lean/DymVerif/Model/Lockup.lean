/-
  Model/Lockup (M-Lockup) — executable model of the hub's x/lockup module as driven through its
  four messages and its EndBlocker (property C14).  Core Lean only.

  Mirrored Go code (x/lockup, as it is):
    msgServer.LockTokens / BeginUnlocking / ExtendLockup / ForceUnlock   (keeper/msg_server.go)
    the four `ValidateBasic`s                                            (types/msgs.go)
    Keeper.ChargeLockFee (+ txfees.ChargeFeesFromPayer: payer -> x/txfees, burned)
    Keeper.HasLock / AddToExistingLock / AddTokensToLockByID / CreateLock / lock
    Keeper.BeginUnlock / beginUnlock / splitLock
    Keeper.PartialForceUnlock / ForceUnlock / unlockMaturedLockInternalLogic
    Keeper.ExtendLockup, Keeper.UnlockMaturedLock, WithdrawAllMaturedLocks / unlockFromIterator
    lockup.EndBlocker (MinBlockHeightToBeginAutoWithdrawing = 6)         (abci.go)
    Keeper.GetPeriodLocksAccumulation (sum-tree abstracted to a finite map duration -> amount)

  Abstractions (each is exercised by the C14 correspondence run against the real keeper):
    * a lock holds exactly one coin (MsgLockTokens.ValidateBasic: `Coins.Len() == 1`; top-ups add the
      same denom), so `Coins` is a pair (denom, amount); a request's `Coins` is `Option (denom, amount)`
      (empty or one coin: MsgBeginUnlocking.ValidateBasic rejects more; a multi-coin MsgForceUnlock is
      always refused by `IsAllLTE` against a one-coin lock and is not represented);
    * the lock-reference indexes (lock_refs.go) are not state of the model: the queries they serve are
      functions of the lock list (`HasLock` = first not-unlocking lock in id order with the same
      owner/denom/duration; matured = unlocking and endTime <= now), compared with the real index
      driven queries on every op;
    * bank: balances of actors and of the lockup module account per denom; a send fails iff the
      sender has less than the amount; the fee is burned (leaves the model);
    * time = nanoseconds since the fixture's base time (Nat), `time.Time{}` = `none`;
    * matured locks are withdrawn in id order (Go: end-time-key order); the order is unobservable
      because no withdrawal can fail (theorem `endBlock_never_panics`).
  Ghost field `startedAt` (block time at which unlocking began) is not in the Go state.
-/
namespace DymVerif.Lockup

abbrev Actor := Nat
abbrev Denom := Nat

structure Lock where
  id : Nat
  owner : Actor
  duration : Nat
  /-- `EndTime`; `none` = `time.Time{}` = not unlocking -/
  endTime : Option Nat
  denom : Denom
  amount : Nat
  /-- ghost: block time at which `beginUnlock` ran -/
  startedAt : Option Nat
  deriving DecidableEq, Repr

structure Params where
  minDur : Nat
  fee : Nat
  allowed : List Actor
  feeDenom : Denom
  deriving Repr

/-- one leaf of the accumulation sum-tree of a denom: key = duration -/
structure AccEntry where
  denom : Denom
  dur : Nat
  val : Int
  deriving DecidableEq, Repr

structure State where
  locks : List Lock
  lastId : Nat
  acc : List AccEntry
  bal : Actor → Denom → Nat
  modBal : Denom → Nat
  now : Nat
  height : Nat

inductive Err
  | invalid            -- ValidateBasic
  | belowMin           -- duration < MinLockDuration
  | feeFunds           -- ChargeLockFee: balance < amount-in-fee-denom + fee
  | funds              -- bank: insufficient funds of the owner
  | notFound           -- ErrLockupNotFound
  | notOwner           -- ErrNotLockOwner / "does not match lock owner"
  | exceeds            -- "requested amount to unlock exceeds locked tokens"
  | alreadyUnlocking   -- "trying to unlock a lock that is already unlocking"
  | notAllowed         -- "not allowed to force unlock"
  | durNotGreater      -- "new duration should be greater than the original"
  | isUnlocking        -- "cannot edit unlocking lockup"
  | modFunds           -- bank: module account short (unreachable: custody_inv)
  deriving DecidableEq, Repr

inductive Out
  | ok (id : Nat)      -- returned lock id (0 where the response has none)
  | err (e : Err)
  | panic
  deriving DecidableEq, Repr

inductive Op
  | lock (a : Actor) (d : Denom) (amt : Nat) (dur : Nat)
  | unlock (a : Actor) (id : Nat) (c : Option (Denom × Nat))
  | extend (a : Actor) (id : Nat) (dur : Nat)
  | force (a : Actor) (id : Nat) (c : Option (Denom × Nat))
  | beginBlock (dt : Nat)
  | endBlock
  deriving DecidableEq, Repr

/-! ### lock store -/

/-- `GetLockByID` -/
def findLock (ls : List Lock) (id : Nat) : Option Lock := ls.find? (fun l => l.id == id)

/-- `setLock` on an existing id -/
def setLock (ls : List Lock) (n : Lock) : List Lock := ls.map (fun l => if l.id = n.id then n else l)

/-- `deleteLock` -/
def delLock (ls : List Lock) (id : Nat) : List Lock := ls.filter (fun l => l.id != id)

/-- `PeriodLock.IsUnlocking` -/
def Lock.isUnlocking (l : Lock) : Bool := l.endTime.isSome

/-- Σ amount over the locks satisfying `P` -/
def total (P : Lock → Bool) : List Lock → Nat
  | [] => 0
  | l :: ls => (if P l then l.amount else 0) + total P ls

/-! ### accumulation store (sum-tree abstracted: leaves only) -/

/-- `Tree.Increase(accumulationKey(dur), v)` on the tree of `d` (v may be negative: `Decrease`) -/
def accAdd : List AccEntry → Denom → Nat → Int → List AccEntry
  | [], d, k, v => [⟨d, k, v⟩]
  | e :: es, d, k, v => if e.denom = d ∧ e.dur = k then {e with val := e.val + v} :: es else e :: accAdd es d k v

/-- `GetPeriodLocksAccumulation{Denom d, Duration k}` = `SubsetAccumulation(key k, nil)`:
    sum of the leaves of `d` with duration >= k -/
def accQuery : List AccEntry → Denom → Nat → Int
  | [], _, _ => 0
  | e :: es, d, k => (if e.denom = d ∧ k ≤ e.dur then e.val else 0) + accQuery es d k

/-! ### bank -/

def updBal (f : Actor → Denom → Nat) (a : Actor) (d : Denom) (v : Nat) : Actor → Denom → Nat :=
  fun a' d' => if a' = a ∧ d' = d then v else f a' d'

def updMod (f : Denom → Nat) (d : Denom) (v : Nat) : Denom → Nat :=
  fun d' => if d' = d then v else f d'

/-- `SendCoinsFromAccountToModule(owner, lockup, x d)` -/
def toModule (s : State) (a : Actor) (d : Denom) (x : Nat) : Option State :=
  if s.bal a d < x then none
  else some { s with bal := updBal s.bal a d (s.bal a d - x), modBal := updMod s.modBal d (s.modBal d + x) }

/-- `SendCoinsFromModuleToAccount(lockup, owner, x d)` -/
def fromModule (s : State) (a : Actor) (d : Denom) (x : Nat) : Option State :=
  if s.modBal d < x then none
  else some { s with bal := updBal s.bal a d (s.bal a d + x), modBal := updMod s.modBal d (s.modBal d - x) }

/-! ### MsgLockTokens -/

/-- `HasLock` / `AddToExistingLock`'s `locks[0]`: first (lowest id) not-unlocking lock of the owner
    with this denom and exactly this duration -/
def sameLock (a : Actor) (d : Denom) (dur : Nat) (l : Lock) : Bool :=
  l.owner == a && l.denom == d && l.duration == dur && !l.isUnlocking

/-- `lockCoins.AmountOf(feeDenom).Add(fee)` -/
def lockCost (p : Params) (d : Denom) (amt : Nat) : Nat := (if d = p.feeDenom then amt else 0) + p.fee

/-- `ChargeFeesFromPayer`: the fee leaves the payer (to x/txfees, burned) -/
def chargeFee (p : Params) (s : State) (a : Actor) : State :=
  { s with bal := updBal s.bal a p.feeDenom (s.bal a p.feeDenom - p.fee) }

/-- `AddTokensToLockByID` after the bank send: lock object and accumulation store -/
def addToLock (s : State) (l : Lock) (amt : Nat) : State :=
  { s with locks := setLock s.locks { l with amount := l.amount + amt },
           acc := accAdd s.acc l.denom l.duration amt }

/-- `CreateLock` after the bank send -/
def createLock (s : State) (a : Actor) (d : Denom) (amt dur : Nat) : State :=
  { s with locks := s.locks ++ [⟨s.lastId + 1, a, dur, none, d, amt, none⟩],
           acc := accAdd s.acc d dur amt, lastId := s.lastId + 1 }

def lockTokens (p : Params) (s : State) (a : Actor) (d : Denom) (amt dur : Nat) : State × Out :=
  -- ValidateBasic: Duration <= 0, not exactly one coin, non-positive amount
  if dur = 0 ∨ amt = 0 then (s, .err .invalid) else
  if dur < p.minDur then (s, .err .belowMin) else
  -- ChargeLockFee
  if s.bal a p.feeDenom < lockCost p d amt then (s, .err .feeFunds) else
  match toModule (chargeFee p s a) a d amt with
  | none => (s, .err .funds)
  | some s2 =>
    match s.locks.find? (sameLock a d dur) with
    | some l => (addToLock s2 l amt, .ok l.id)
    | none => (createLock s2 a d amt dur, .ok (s.lastId + 1))

/-! ### MsgBeginUnlocking -/

/-- `!coins.IsAllLTE(lock.Coins)` for a one-coin lock -/
def exceeds (c : Option (Denom × Nat)) (l : Lock) : Bool :=
  match c with
  | none => false
  | some (d, x) => d != l.denom || l.amount < x

/-- `len(coins) != 0 && !coins.Equal(lock.Coins)` (given `!exceeds`) -/
def isPartial (c : Option (Denom × Nat)) (l : Lock) : Bool :=
  match c with
  | none => false
  | some (_, x) => x != l.amount

def reqAmt (c : Option (Denom × Nat)) : Nat :=
  match c with
  | none => 0
  | some (_, x) => x

def coinsInvalid (c : Option (Denom × Nat)) : Bool :=
  match c with
  | none => false
  | some (_, x) => x == 0

/-- `beginUnlock` of the whole lock: end time = block time + duration -/
def startUnlock (s : State) (l : Lock) : State :=
  { s with locks := setLock s.locks { l with endTime := some (s.now + l.duration), startedAt := some s.now } }

/-- `splitLock` + `beginUnlock` of the split part: the old lock keeps the rest, a new lock (next id)
    takes `x` and starts unlocking -/
def splitUnlock (s : State) (l : Lock) (x : Nat) : State :=
  { s with locks := setLock s.locks { l with amount := l.amount - x } ++
                      [⟨s.lastId + 1, l.owner, l.duration, some (s.now + l.duration), l.denom, x, some s.now⟩],
           lastId := s.lastId + 1 }

def beginUnlocking (s : State) (a : Actor) (id : Nat) (c : Option (Denom × Nat)) : State × Out :=
  if id = 0 ∨ coinsInvalid c then (s, .err .invalid) else
  match findLock s.locks id with
  | none => (s, .err .notFound)
  | some l =>
    if l.owner ≠ a then (s, .err .notOwner) else
    -- Keeper.beginUnlock
    if exceeds c l then (s, .err .exceeds) else
    if l.isUnlocking then (s, .err .alreadyUnlocking) else
    if isPartial c l then (splitUnlock s l (reqAmt c), .ok (s.lastId + 1))
    else (startUnlock s l, .ok l.id)

/-! ### MsgExtendLockup -/

/-- `ExtendLockup`'s state change: accumulation moved from the old to the new duration -/
def extendTo (s : State) (l : Lock) (dur : Nat) : State :=
  { s with locks := setLock s.locks { l with duration := dur },
           acc := accAdd (accAdd s.acc l.denom l.duration (-(l.amount : Int))) l.denom dur l.amount }

def extendLockup (s : State) (a : Actor) (id : Nat) (dur : Nat) : State × Out :=
  if id = 0 ∨ dur = 0 then (s, .err .invalid) else
  match findLock s.locks id with
  | none => (s, .err .notFound)
  | some l =>
    if l.owner ≠ a then (s, .err .notOwner) else
    if l.isUnlocking then (s, .err .isUnlocking) else
    if dur ≤ l.duration then (s, .err .durNotGreater) else
    (extendTo s l dur, .ok 0)

/-! ### MsgForceUnlock -/

/-- `unlockMaturedLockInternalLogic` after the bank send: lock deleted, accumulation decreased -/
def removeLock (s : State) (l : Lock) : State :=
  { s with locks := delLock s.locks l.id, acc := accAdd s.acc l.denom l.duration (-(l.amount : Int)) }

/-- partial force unlock after the bank send: `splitLock(force)` gives the split part the next id,
    which is (begun and) unlocked at once -/
def shrinkLock (s : State) (l : Lock) (x : Nat) : State :=
  { s with locks := setLock s.locks { l with amount := l.amount - x }, lastId := s.lastId + 1,
           acc := accAdd s.acc l.denom l.duration (-(x : Int)) }

def forceUnlock (p : Params) (s : State) (a : Actor) (id : Nat) (c : Option (Denom × Nat)) : State × Out :=
  if id = 0 ∨ coinsInvalid c then (s, .err .invalid) else
  match findLock s.locks id with
  | none => (s, .err .notFound)
  | some l =>
    if l.owner ≠ a then (s, .err .notOwner) else
    if ¬ (a ∈ p.allowed) then (s, .err .notAllowed) else
    -- PartialForceUnlock
    if exceeds c l then (s, .err .exceeds) else
    if isPartial c l then
      match fromModule s l.owner l.denom (reqAmt c) with
      | none => (s, .err .modFunds)
      | some s1 => (shrinkLock s1 l (reqAmt c), .ok 0)
    else
      match fromModule s l.owner l.denom l.amount with
      | none => (s, .err .modFunds)
      | some s1 => (removeLock s1 l, .ok 0)

/-! ### EndBlocker -/

/-- in `LockIteratorBeforeTime(now)`: unlocking and end time <= now -/
def matured (now : Nat) (l : Lock) : Bool :=
  match l.endTime with
  | none => false
  | some e => e ≤ now

/-- `UnlockMaturedLock(id)`; `none` = error (a panic in `unlockFromIterator`) -/
def unlockMatured (s : State) (id : Nat) : Option State :=
  match findLock s.locks id with
  | none => none
  | some l =>
    if !l.isUnlocking then none else
    if !matured s.now l then none else
    match fromModule s l.owner l.denom l.amount with
    | none => none
    | some s1 => some (removeLock s1 l)

/-- `unlockFromIterator` over the ids collected up front -/
def withdrawAll : List Nat → State → Option State
  | [], s => some s
  | id :: ids, s =>
    match unlockMatured s id with
    | none => none
    | some s' => withdrawAll ids s'

def minHeightAutoWithdraw : Nat := 6

def endBlock (s : State) : State × Out :=
  if s.height < minHeightAutoWithdraw then (s, .ok 0) else
  match withdrawAll ((s.locks.filter (matured s.now)).map (·.id)) s with
  | none => (s, .panic)
  | some s' => (s', .ok 0)

def beginBlock (s : State) (dt : Nat) : State × Out :=
  ({ s with now := s.now + dt, height := s.height + 1 }, .ok 0)

/-! ### step / run -/

def step (p : Params) (s : State) : Op → State × Out
  | .lock a d amt dur => lockTokens p s a d amt dur
  | .unlock a id c => beginUnlocking s a id c
  | .extend a id dur => extendLockup s a id dur
  | .force a id c => forceUnlock p s a id c
  | .beginBlock dt => beginBlock s dt
  | .endBlock => endBlock s

def run (p : Params) (s : State) : List Op → State
  | [] => s
  | op :: ops => run p (step p s op).1 ops

/-- the state of a fresh chain: no locks, empty module account, any balances -/
def init (bal : Actor → Denom → Nat) (now height : Nat) : State :=
  { locks := [], lastId := 0, acc := [], bal := bal, modBal := fun _ => 0, now := now, height := height }

/-! ### observables used by the theorems and the driver -/

/-- Σ coins of denom `d` over all existing locks -/
def lockedDenom (ls : List Lock) (d : Denom) : Nat := total (fun l => l.denom == d) ls

/-- Σ coins of denom `d` over the locks with duration >= k (what `accQuery` must equal) -/
def lockedLonger (ls : List Lock) (d : Denom) (k : Nat) : Nat :=
  total (fun l => l.denom == d && decide (k ≤ l.duration)) ls

/-- Σ coins of denom `d` in locks owned by `a` -/
def lockedOwner (ls : List Lock) (a : Actor) (d : Denom) : Nat :=
  total (fun l => l.owner == a && l.denom == d) ls

end DymVerif.Lockup
