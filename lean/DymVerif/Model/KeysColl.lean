/-
  Model/KeysColl (M-Keys, third part) — the key codecs of cosmossdk.io/collections v0.4.0 that the
  hub's scans go through (`StringKey`, `Uint64Key`, `BytesKey`, `PairKeyCodec`, `TripleKeyCodec`),
  `EncodeKeyWithPrefix`, and the byte bounds `parseRangeInstruction` / `encodeRangeBound` derive from
  the range builders the hub calls (`NewPrefixedPairRange` with `StartExclusive` / `EndExclusive`,
  `NewPrefixUntilPairRange`, `NewSuperPrefixedTripleRange`).  Core Lean only; executed by Driver/C19
  (ops `ck*`, `cr*`), compared byte for byte with the real codecs and with the bounds the real
  collections hand to the store.  An encoding error of the Go code is `none`.
-/
import DymVerif.Model.Keys2
namespace DymVerif.Keys
open DymVerif

/-! ### component codecs (collections/codec) -/

/-- `stringKey.EncodeNonTerminal`: the string followed by the delimiter 0x00; a string that contains
    the delimiter is refused -/
def collStrNT (s : Bytes) : Option Bytes := if 0 ∈ s then none else some (s ++ [0])

/-- `stringKey.Encode` (terminal position): the raw bytes -/
def collStrT (s : Bytes) : Bytes := s

/-- `uint64Key.Encode` = `EncodeNonTerminal`: 8 bytes big endian -/
def collU64 (n : Nat) : Bytes := be64 n

/-- `bytesKey.Encode` (terminal position): the raw bytes -/
def collBytesT (b : Bytes) : Bytes := b

/-- `bytesKey.EncodeNonTerminal`: one length byte then the bytes; more than 255 bytes are refused -/
def collBytesNT (b : Bytes) : Option Bytes := if 255 < b.length then none else some (b.length :: b)

/-- `stringKey.DecodeNonTerminal`: up to the first delimiter; gives (string, unread rest) -/
def collStrDecodeNT (b : Bytes) : Option (Bytes × Bytes) := splitAtSep 0 b

/-- `uint64Key.Decode`: the first 8 bytes; gives (value, unread rest) -/
def collU64Decode (b : Bytes) : Option (Nat × Bytes) :=
  if b.length < 8 then none else some (beVal (b.take 8), b.drop 8)

/-! ### composite codecs; first components are written non-terminal, the last one terminal -/

/-- `pairKeyCodec.Encode(Join(k1, k2))` given the encodings of the components -/
def collPair (k1nt : Option Bytes) (k2t : Bytes) : Option Bytes := k1nt.map (· ++ k2t)

/-- `pairKeyCodec.Encode(PairPrefix(k1))`: only the first component, non-terminal -/
def collPairPrefix (k1nt : Option Bytes) : Option Bytes := k1nt

/-- `tripleKeyCodec.Encode(Join3(k1, k2, k3))` -/
def collTriple (k1nt k2nt : Option Bytes) (k3t : Bytes) : Option Bytes :=
  k1nt.bind fun a => k2nt.map fun b => a ++ b ++ k3t

/-- `tripleKeyCodec.Encode(TripleSuperPrefix(k1, k2))` -/
def collTripleSuperPrefix (k1nt k2nt : Option Bytes) : Option Bytes :=
  k1nt.bind fun a => k2nt.map fun b => a ++ b

/-- `collections.EncodeKeyWithPrefix(prefix, codec, key)` -/
def collWithPrefix (pfx : Bytes) (k : Option Bytes) : Option Bytes := k.map (pfx ++ ·)

/-! ### the store keys of the hub's collections -/

/-- `Pair[string, uint64]` under a map prefix (x/rollapp `seqToUnfinalizedHeight`, x/eibc `byAddr`,
    x/lightclient height sets) -/
def pairStrU64Key (pfx s : Bytes) (n : Nat) : Option Bytes :=
  collWithPrefix pfx (collPair (collStrNT s) (collU64 n))

/-- `Pair[string, []byte]` (x/delayedack `pendingPacketsByAddress`) -/
def pairStrBytesKey (pfx s b : Bytes) : Option Bytes :=
  collWithPrefix pfx (collPair (collStrNT s) (collBytesT b))

/-- `Pair[uint64, string]` (x/rollapp `finalizationQueue`: creation height, rollapp id) -/
def pairU64StrKey (pfx : Bytes) (n : Nat) (s : Bytes) : Option Bytes :=
  collWithPrefix pfx (collPair (some (collU64 n)) (collStrT s))

/-- `Triple[string, string, uint64]` (x/eibc `byRollAppDenom`: rollapp, denom, LP id) -/
def tripleStrStrU64Key (pfx a b : Bytes) (n : Nat) : Option Bytes :=
  collWithPrefix pfx (collTriple (collStrNT a) (collStrNT b) (collU64 n))

/-- how `Iterator.Key` reads a `Pair[string, uint64]` key back (after the map prefix): every byte
    must be consumed -/
def pairStrU64Decode (k : Bytes) : Option (Bytes × Nat) :=
  match collStrDecodeNT k with
  | none => none
  | some (s, r) =>
    match collU64Decode r with
    | none => none
    | some (n, r') => if r' = [] then some (s, n) else none

/-- … a `Pair[uint64, string]` key (the terminal string takes every remaining byte) -/
def pairU64StrDecode (k : Bytes) : Option (Nat × Bytes) := collU64Decode k

/-- … a `Triple[string, string, uint64]` key -/
def tripleStrStrU64Decode (k : Bytes) : Option (Bytes × Bytes × Nat) :=
  match collStrDecodeNT k with
  | none => none
  | some (a, r) =>
    match collStrDecodeNT r with
    | none => none
    | some (b, r') =>
      match collU64Decode r' with
      | none => none
      | some (n, r'') => if r'' = [] then some (a, b, n) else none

/-! ### range bounds (`encodeRangeBound`, `parseRangeInstruction`) -/

/-- a store range: inclusive start, exclusive end (`none` = nil = unbounded) -/
abbrev CRange := Bytes × Option Bytes

/-- `nextBytesKey` -/
def nextBytesKey (b : Bytes) : Bytes := b ++ [0]

/-- `nextBytesPrefixKey`: the same computation as `storetypes.PrefixEndBytes` -/
def nextBytesPrefixKey (b : Bytes) : Option Bytes := prefixEnd b

/-- the last check of `parseRangeInstruction`: `bytes.Compare(start, end) == 1` is `ErrInvalidIterator`
    (a nil end compares below every non-empty start) -/
def rangeValid (r : CRange) : Bool :=
  match r.2 with
  | none => r.1.isEmpty
  | some e => !(lexLt e r.1)

/-- `NewPrefixedPairRange[K1, K2](k1)`: `[Exact(PairPrefix k1), PrefixEnd(PairPrefix k1))` -/
def prefixedPairRange (pfx : Bytes) (k1nt : Option Bytes) : Option CRange :=
  (collWithPrefix pfx (collPairPrefix k1nt)).map fun p => (p, nextBytesPrefixKey p)

/-- `NewPrefixedPairRange[K1, K2](k1).StartExclusive(k2)`: the start becomes `Next(Join(k1, k2))` -/
def prefixedPairRangeStartExclusive (pfx : Bytes) (k1nt : Option Bytes) (k2t : Bytes) : Option CRange :=
  match collWithPrefix pfx (collPair k1nt k2t), collWithPrefix pfx (collPairPrefix k1nt) with
  | some k, some p => some (nextBytesKey k, nextBytesPrefixKey p)
  | _, _ => none

/-- `NewPrefixedPairRange[K1, K2](k1).EndExclusive(k2)`: the end becomes `Exact(Join(k1, k2))` -/
def prefixedPairRangeEndExclusive (pfx : Bytes) (k1nt : Option Bytes) (k2t : Bytes) : Option CRange :=
  match collWithPrefix pfx (collPairPrefix k1nt), collWithPrefix pfx (collPair k1nt k2t) with
  | some p, some k => some (p, some k)
  | _, _ => none

/-- `NewPrefixUntilPairRange[K1, K2](k1)`: no start (the map prefix), end `PrefixEnd(PairPrefix k1)` -/
def prefixUntilPairRange (pfx : Bytes) (k1nt : Option Bytes) : Option CRange :=
  (collWithPrefix pfx (collPairPrefix k1nt)).map fun p => (pfx, nextBytesPrefixKey p)

/-- `NewSuperPrefixedTripleRange[K1, K2, K3](k1, k2)` -/
def superPrefixedTripleRange (pfx : Bytes) (k1nt k2nt : Option Bytes) : Option CRange :=
  (collWithPrefix pfx (collTripleSuperPrefix k1nt k2nt)).map fun p => (p, nextBytesPrefixKey p)

/-- membership of a stored key in a range (what the store iterator returns) -/
def inCRange (r : CRange) (k : Bytes) : Bool := inRangeO r.1 r.2 k

/-! ### the hub's scans -/

/-- `CanUnbond` / `LPs.GetByAddr` / `GetPendingPacketsByAddress`: all entries of one string -/
def scanByString (pfx s : Bytes) : Option CRange := prefixedPairRange pfx (collStrNT s)

/-- `PruneSequencerHeights(seq, h)`: the entries of `seq` with height above `h` -/
def scanByStringAbove (pfx s : Bytes) (h : Nat) : Option CRange :=
  prefixedPairRangeStartExclusive pfx (collStrNT s) (collU64 h)

/-- x/lightclient `PruneSigners…` below a height: the entries of one client with height below `h` -/
def scanByStringBelow (pfx s : Bytes) (h : Nat) : Option CRange :=
  prefixedPairRangeEndExclusive pfx (collStrNT s) (collU64 h)

/-- `GetFinalizationQueueUntilHeightInclusive(h)` -/
def scanUntilHeight (pfx : Bytes) (h : Nat) : Option CRange :=
  prefixUntilPairRange pfx (some (collU64 h))

/-- `LPs.GetOrderCompatibleLPs`: all LP ids of one (rollapp, denom) -/
def scanByTwoStrings (pfx a b : Bytes) : Option CRange :=
  superPrefixedTripleRange pfx (collStrNT a) (collStrNT b)

end DymVerif.Keys
