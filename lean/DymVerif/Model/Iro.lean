/-
  Model/Iro — M-IRO: one IRO plan (x/iro) with its traders, the plan account, the iro module account
  and the owner's vesting, mirroring the Go code AS IT IS (same order of checks, same rounding, same
  error cases).  Core Lean only.

  The bonding curve's numerical core is an ORACLE:
    `I : Int → Int`   raw 10⁻¹⁸ value of `BondingCurve.integral(ScaleFromBase(x, 18))` at a sold amount x
                      (base units of the 18-decimals rollapp token; negative x occur in `Sell`)
    `T : Int → Int → Option Int`   `TokensApproximation(startingX, spendTokens)` on raw 10⁻¹⁸ values:
                      `some x` = the Newton result (raw LegacyDec), `none` = it returned an error.
  Everything else — scaling, truncation, taker fee, checks, bank bookkeeping — is computed here.

  Mirrored Go functions: BondingCurve.Cost / TokensForExactInAmount (scaling part) / ValidateBasic,
  ScaleFromBase / ScaleToBase, FindEquilibrium, Keeper.ApplyTakerFee, GetTradeableIRO, Buy,
  BuyExactSpend, Sell, EnableTrading, CreatePlan (+ the MsgCreatePlan checks the harness can reach),
  x/rollapp MsgTransferOwnership (`chown`: the rollapp owner is re-read by GetTradeableIRO, EnableTrading,
  ClaimVested, CreatePlan and as the taker-fee beneficiary on every message),
  Settle / bootstrapLiquidityPool (bookkeeping; pool and gauge creation is a success flag), Claim,
  ClaimVested, IROVestingPlan.VestedAmt, txfees.ChargeFeesFromPayer (bank effect).
  Rollapp-token decimals are fixed to 18 (the property's quantifier).
-/
import DymVerif.Base.Dec
namespace DymVerif.Iro
open DymVerif

/-- error classes (never messages) -/
inductive Err
  | ok | invalid | rej | notFound | settled | notStarted | precond | insufficientTokens | invalidCost
  | maxCost | minCost | funds | denied | notSettled | noTokens | curve | internal | bootstrap | panic
  | coins
  deriving DecidableEq, Repr, Inhabited

def Err.str : Err → String
  | .ok => "ok" | .invalid => "invalid" | .rej => "rej" | .notFound => "notfound" | .settled => "settled"
  | .notStarted => "notstarted" | .precond => "precond" | .insufficientTokens => "instokens"
  | .invalidCost => "invalidcost" | .maxCost => "maxcost" | .minCost => "mincost" | .funds => "funds"
  | .denied => "denied" | .notSettled => "notsettled" | .noTokens => "notokens" | .curve => "curve"
  | .internal => "internal" | .bootstrap => "bootstrap" | .panic => "panic" | .coins => "coins"

def pow10 (n : Nat) : Int := (10 ^ n : Nat)
def oneToken : Int := 1000000000000000000   -- 10^18 base units = 1 rollapp token (18 decimals)

/-- `ScaleFromBase(x, precision)` = `LegacyNewDecFromIntWithPrec` (precision ≤ 18) -/
def scaleFromBase (x : Int) (prec : Nat) : Dec := ⟨x * pow10 (18 - prec)⟩
/-- `ScaleToBase(d, precision)` = `d.MulInt(10^precision).TruncateInt()` -/
def scaleToBase (d : Dec) (prec : Nat) : Int := (d.mulInt (pow10 prec)).truncateInt

/-- `BondingCurve.Cost(x, x1)` with 18 supply decimals and `L` liquidity decimals -/
def cost (I : Int → Int) (L : Nat) (x x1 : Int) : Int :=
  scaleToBase (Dec.sub ⟨I x1⟩ ⟨I x⟩) L

/-- `Keeper.ApplyTakerFee`; `none` = ErrInvalidCost -/
def applyTakerFee (amount : Int) (fee : Dec) (isAdd : Bool) : Option (Int × Int) :=
  if amount ≤ 0 then none else
  let feeAmt := ((Dec.ofInt amount).mul fee).truncateInt
  let newAmt := if isAdd then amount + feeAmt else amount - feeAmt
  if newAmt ≤ 0 ∨ feeAmt ≤ 0 then none else some (newAmt, feeAmt)

/-- `BondingCurve.TokensForExactInAmount(currX, spendAmt)`; `none` = error.
    startingX = ScaleFromBase(currX, 18), spendTokens = ScaleFromBase(spendAmt, L); the Newton result
    (decimal rollapp tokens) is converted to base units with the SUPPLY decimals (18). -/
def tokensForExactIn (T : Int → Int → Option Int) (L : Nat) (currX spendAmt : Int) : Option Int :=
  if (scaleFromBase currX 18).raw < decP then none
  else if spendAmt ≤ 0 then none
  else match T (scaleFromBase currX 18).raw (scaleFromBase spendAmt L).raw with
    | none => none
    | some x => some (scaleToBase ⟨x⟩ 18)

/-- `FindEquilibrium(curve, totalAllocation, r)` -/
def findEquilibrium (mRaw nRaw : Int) (alloc : Int) (r : Dec) : Int :=
  let n : Dec := if mRaw = 0 then Dec.zero else ⟨nRaw⟩
  let n1 := n.add Dec.one
  let n2 := n1.add r
  ((n1.quo n2).mulInt alloc).truncateInt

/-- `BondingCurve.ValidateBasic` (decimals are fixed non-zero) -/
def curveValid (mRaw nRaw cRaw : Int) : Bool :=
  decide (0 ≤ mRaw) && decide (0 < nRaw) && decide (nRaw ≤ 2 * decP) && decide (0 ≤ cRaw)
    && (cRaw == 0 || mRaw == 0) && decide (nRaw % 1000000000000000 = 0)

structure Vest where
  amount : Int := 0
  claimed : Int := 0
  dur : Int := 0
  startAfter : Int := 0
  start : Int := 0
  stop : Int := 0
  deriving Repr, Inhabited

/-- the vesting scalar applied to the amount: `s.Mul(Amount).TruncateInt()` with
    `s = NewDec(x).QuoTruncate(NewDec(y))` (the ratio is truncated, the `Mul` by an integer is exact) -/
def vestedTotal (v : Vest) (now : Int) : Int :=
  let s := (Dec.ofInt (now - v.start)).quoTruncate (Dec.ofInt (v.stop - v.start))
  (s.mul (Dec.ofInt v.amount)).truncateInt

/-- `IROVestingPlan.VestedAmt(currTime)`; `none` = panic (division by zero) -/
def vestedAmt (v : Vest) (now : Int) : Option Int :=
  let unclaimed := v.amount - v.claimed
  if unclaimed ≤ 0 then some 0
  else if now < v.start then some 0
  else if v.stop < now then some unclaimed
  else if v.stop - v.start = 0 then none
  else some (vestedTotal v now - v.claimed)

structure Plan where
  L : Nat
  alloc : Int
  maxSell : Int
  sold : Int
  claimed : Int
  enabled : Bool
  startTime : Int
  preLaunch : Int
  planDur : Int
  liqPart : Dec
  settled : Bool
  vest : Vest
  deriving Repr, Inhabited

/-- module params and environment -/
structure Cfg where
  takerFee : Dec
  creationFee : Int
  minLiqPart : Dec
  minVestDur : Int
  minPlanDur : Int
  feeBase : Bool        -- the liquidity denom is the txfees base denom (half of a fee goes to the owner)
  genAlloc : Int        -- amount of the rollapp's genesis account for the iro module
  liqDec : Nat          -- decimals of the liquidity denom (bank metadata)
  n : Nat               -- number of actors; actor 0 is the rollapp's FIRST owner (`State.owner` is the current one)
  deriving Repr, Inhabited

structure State where
  cfg : Cfg
  plan : Option Plan := none
  now : Int := 0
  liq : Nat → Int := fun _ => 0      -- liquidity-denom balances of the actors
  iro : Nat → Int := fun _ => 0      -- IRO-token balances
  ra : Nat → Int := fun _ => 0       -- settled-denom (rollapp token) balances
  planLiq : Int := 0                 -- the plan account's liquidity balance
  modIro : Int := 0                  -- iro module account: IRO token
  modRa : Int := 0                   -- iro module account: rollapp token
  trades : Nat := 0                  -- ghost: executed Buy / BuyExactSpend / Sell
  owner : Nat := 0                   -- the rollapp's current owner (`rk.MustGetRollappOwner`)
  deriving Inhabited

def init (cfg : Cfg) : State := { cfg := cfg }

def upd (f : Nat → Int) (a : Nat) (v : Int) : Nat → Int := fun j => if j = a then v else f j

inductive Op
  | create (alloc mRaw nRaw cRaw : Int) (L : Nat) (enabled : Bool) (startTime planDur : Int) (liqPart : Dec)
      (vestDur vestStartAfter : Int)
  | time (dt : Int)
  | fund (a : Nat) (amt : Int)
  | buy (a : Nat) (amt maxCost : Int)
  | bes (a : Nat) (spend minTokens : Int)
  | sell (a : Nat) (amt minIncome : Int)
  | enable (a : Nat)
  | settle (raFunded : Int) (poolOk : Bool)
  | claim (a : Nat)
  | claimv (a : Nat)
  | xfer (a b : Nat) (amt : Int)
  | chown (a b : Nat)      -- MsgTransferOwnership{CurrentOwner: a, NewOwner: b}

/-- `txfees.ChargeFeesFromPayer(payer, fee, &owner)` on the liquidity-denom balances.
    base denom: half (truncated) to the owner, rest burned; a zero half is an invalid coin set.
    other denom (no fee token registered): everything to the community pool. -/
def chargeFee (st : State) (a : Nat) (fee : Int) : Except Err (Nat → Int) :=
  if st.liq a < fee then .error .funds else
  let l1 := upd st.liq a (st.liq a - fee)
  if st.cfg.feeBase then
    let half := fee.tdiv 2
    if half ≤ 0 then .error .coins else .ok (upd l1 st.owner (l1 st.owner + half))
  else .ok l1

/-- `GetTradeableIRO` -/
def tradeable (st : State) (a : Nat) : Except Err Plan :=
  match st.plan with
  | none => .error .notFound
  | some p =>
    if p.settled then .error .settled
    else if a = st.owner then .ok p
    else if !p.enabled then .error .precond
    else if st.now < p.startTime then .error .notStarted
    else .ok p

/-- start time of a new plan: requested time, not before now; unset when trading is not enabled -/
def planStart (enabled : Bool) (startTime now : Int) : Int :=
  if enabled then (if startTime < now then now else startTime) else 0
def planPre (enabled : Bool) (start planDur : Int) : Int := if enabled then start + planDur else 0

/-- all checks of MsgCreatePlan.ValidateBasic, msgServer.CreatePlan, Keeper.CreatePlan and
    Plan.ValidateBasic that the harness can reach (every failure is the class `rej`) -/
def createOk (I : Int → Int) (st : State) (alloc mRaw nRaw cRaw : Int) (L : Nat) (enabled : Bool)
    (startTime planDur : Int) (liqPart : Dec) (vestDur vestStartAfter : Int) : Prop :=
  -- MsgCreatePlan.ValidateBasic
  curveValid mRaw nRaw cRaw = true ∧ 10 * oneToken < alloc ∧ 0 ≤ planDur ∧
  0 ≤ liqPart.raw ∧ liqPart.raw ≤ decP ∧ 0 ≤ vestDur ∧ 0 ≤ vestStartAfter ∧
  -- msgServer.CreatePlan
  st.cfg.minPlanDur ≤ planDur ∧ st.cfg.minLiqPart.raw ≤ liqPart.raw ∧ st.cfg.minVestDur ≤ vestDur ∧
  st.plan = none ∧ alloc = st.cfg.genAlloc ∧ L = st.cfg.liqDec ∧
  -- Plan.ValidateBasic
  planStart enabled startTime st.now ≤ planPre enabled (planStart enabled startTime st.now) planDur ∧
  0 < findEquilibrium mRaw nRaw alloc liqPart ∧ findEquilibrium mRaw nRaw alloc liqPart ≤ alloc ∧
  -- Keeper.CreatePlan: the creation fee is charged as a purchase of `creationFee` tokens, which must
  -- fit into the sellable amount
  st.cfg.creationFee ≤ findEquilibrium mRaw nRaw alloc liqPart ∧
  0 < cost I L 0 st.cfg.creationFee ∧ cost I L 0 st.cfg.creationFee ≤ st.liq st.owner

instance (I : Int → Int) (st : State) (alloc mRaw nRaw cRaw : Int) (L : Nat) (enabled : Bool)
    (startTime planDur : Int) (liqPart : Dec) (vestDur vestStartAfter : Int) :
    Decidable (createOk I st alloc mRaw nRaw cRaw L enabled startTime planDur liqPart vestDur vestStartAfter) := by
  unfold createOk
  cases st.plan <;> infer_instance

def doCreate (I : Int → Int) (st : State) (alloc mRaw nRaw cRaw : Int) (L : Nat) (enabled : Bool)
    (startTime planDur : Int) (liqPart : Dec) (vestDur vestStartAfter : Int) : Except Err State :=
  if createOk I st alloc mRaw nRaw cRaw L enabled startTime planDur liqPart vestDur vestStartAfter then
  .ok { st with
    plan := some { L := L, alloc := alloc, maxSell := findEquilibrium mRaw nRaw alloc liqPart,
                   sold := st.cfg.creationFee, claimed := st.cfg.creationFee, enabled := enabled,
                   startTime := planStart enabled startTime st.now,
                   preLaunch := planPre enabled (planStart enabled startTime st.now) planDur,
                   planDur := planDur, liqPart := liqPart, settled := false,
                   vest := { dur := vestDur, startAfter := vestStartAfter } },
    modIro := st.modIro + alloc, liq := upd st.liq st.owner (st.liq st.owner - cost I L 0 st.cfg.creationFee),
    planLiq := st.planLiq + cost I L 0 st.cfg.creationFee }
  else .error .rej

def doBuy (I : Int → Int) (st : State) (a : Nat) (amt maxCost : Int) : Except Err State :=
  if amt ≤ 0 ∨ maxCost ≤ 0 then .error .invalid else
  match tradeable st a with
  | .error e => .error e
  | .ok p =>
    if p.maxSell < p.sold + amt then .error .insufficientTokens else
    match applyTakerFee (cost I p.L p.sold (p.sold + amt)) st.cfg.takerFee true with
    | none => .error .invalidCost
    | some (total, fee) =>
      if maxCost < total then .error .maxCost else
      match chargeFee st a fee with
      | .error e => .error e
      | .ok l1 =>
        let c := cost I p.L p.sold (p.sold + amt)
        if l1 a < c then .error .funds
        else if st.modIro < amt then .error .funds
        else .ok { st with liq := upd l1 a (l1 a - c), planLiq := st.planLiq + c, modIro := st.modIro - amt,
                           iro := upd st.iro a (st.iro a + amt), plan := some { p with sold := p.sold + amt },
                           trades := st.trades + 1 }

def doBes (T : Int → Int → Option Int) (st : State) (a : Nat) (spend minTokens : Int) : Except Err State :=
  if spend ≤ 0 ∨ minTokens ≤ 0 then .error .invalid else
  match tradeable st a with
  | .error e => .error e
  | .ok p =>
    match applyTakerFee spend st.cfg.takerFee false with
    | none => .error .invalidCost
    | some (net, fee) =>
      match tokensForExactIn T p.L p.sold net with
      | none => .error .curve
      | some tokens =>
        if tokens < minTokens then .error .minCost
        else if p.maxSell < p.sold + tokens then .error .insufficientTokens
        else match chargeFee st a fee with
          | .error e => .error e
          | .ok l1 =>
            if l1 a < net then .error .funds
            else if st.modIro < tokens then .error .funds
            else .ok { st with liq := upd l1 a (l1 a - net), planLiq := st.planLiq + net, modIro := st.modIro - tokens,
                               iro := upd st.iro a (st.iro a + tokens), plan := some { p with sold := p.sold + tokens },
                               trades := st.trades + 1 }

def doSell (I : Int → Int) (st : State) (a : Nat) (amt minIncome : Int) : Except Err State :=
  if amt ≤ 0 ∨ minIncome ≤ 0 then .error .invalid else
  match tradeable st a with
  | .error e => .error e
  | .ok p =>
    match applyTakerFee (cost I p.L (p.sold - amt) p.sold) st.cfg.takerFee false with
    | none => .error .invalidCost
    | some (net, fee) =>
      let c := cost I p.L (p.sold - amt) p.sold
      if net < minIncome then .error .minCost
      else if st.iro a < amt then .error .funds
      else if st.planLiq < c then .error .funds
      else
        let st1 := { st with iro := upd st.iro a (st.iro a - amt), modIro := st.modIro + amt,
                             planLiq := st.planLiq - c, liq := upd st.liq a (st.liq a + c),
                             plan := some { p with sold := p.sold - amt }, trades := st.trades + 1 }
        match chargeFee st1 a fee with
        | .error e => .error e
        | .ok l1 => .ok { st1 with liq := l1 }

def doEnable (st : State) (a : Nat) : Except Err State :=
  match st.plan with
  | none => .error .notFound
  | some p =>
    if p.enabled then .error .precond
    else if a ≠ st.owner then .error .denied
    else if p.settled then .error .precond
    else .ok { st with plan := some { p with enabled := true, startTime := st.now, preLaunch := st.now + p.planDur } }

def doSettle (st : State) (raFunded : Int) (poolOk : Bool) : Except Err State :=
  match st.plan with
  | none => .ok { st with modRa := st.modRa + raFunded }   -- the hook is a no-op; the (mocked) genesis transfer arrived
  | some p =>
    if p.settled then .error .settled
    else if st.modRa + raFunded ≠ p.alloc then .error .internal
    else
      let raised := st.planLiq
      let poolTokens := ((Dec.ofInt raised).mul p.liqPart).truncateInt
      let ownerTokens := raised - poolTokens
      let start := st.now + p.vest.startAfter
      let v : Vest := { p.vest with amount := ownerTokens, start := start, stop := start + p.vest.dur }
      let claimable := p.sold - p.claimed
      let unallocated := p.alloc - claimable
      if !poolOk then .error .bootstrap
      else .ok { st with plan := some { p with settled := true, vest := v }, modIro := 0,
                         planLiq := st.planLiq - poolTokens, modRa := st.modRa + raFunded - unallocated }

def doClaim (st : State) (a : Nat) : Except Err State :=
  match st.plan with
  | none => .error .notFound
  | some p =>
    if !p.settled then .error .notSettled
    else
      let b := st.iro a
      if b = 0 then .error .noTokens
      else if st.modRa < b then .error .funds
      else .ok { st with iro := upd st.iro a 0, modRa := st.modRa - b, ra := upd st.ra a (st.ra a + b),
                         plan := some { p with claimed := p.claimed + b } }

def doClaimVested (st : State) (a : Nat) : Except Err State :=
  match st.plan with
  | none => .error .notFound
  | some p =>
    if !p.settled then .error .notSettled
    else if a ≠ st.owner then .error .denied
    else match vestedAmt p.vest st.now with
      | none => .error .panic
      | some amt =>
        if amt = 0 then .error .precond
        else if amt < 0 then .error .panic
        else if st.planLiq < amt then .error .funds
        else .ok { st with planLiq := st.planLiq - amt, liq := upd st.liq a (st.liq a + amt),
                           plan := some { p with vest := { p.vest with claimed := p.vest.claimed + amt } } }

def doXfer (st : State) (a b : Nat) (amt : Int) : Except Err State :=
  if amt ≤ 0 then .error .invalid
  else if st.iro a < amt then .error .funds
  else
    let i1 := upd st.iro a (st.iro a - amt)
    .ok { st with iro := upd i1 b (i1 b + amt) }

/-- x/rollapp `TransferOwnership`: only the current owner, to somebody else (the blocked-address check
    cannot fail for an actor) -/
def doChown (st : State) (a b : Nat) : Except Err State :=
  if a ≠ st.owner then .error .denied
  else if b = st.owner then .error .rej
  else .ok { st with owner := b }

def exec (I : Int → Int) (T : Int → Int → Option Int) (st : State) : Op → Except Err State
  | .create alloc m n c L en stt pd lp vd vs => doCreate I st alloc m n c L en stt pd lp vd vs
  | .time dt => if dt < 0 then .error .invalid else .ok { st with now := st.now + dt }
  | .fund a amt => if amt < 0 then .error .invalid else .ok { st with liq := upd st.liq a (st.liq a + amt) }
  | .buy a amt mc => doBuy I st a amt mc
  | .bes a sp mt => doBes T st a sp mt
  | .sell a amt mi => doSell I st a amt mi
  | .enable a => doEnable st a
  | .settle rf ok => doSettle st rf ok
  | .claim a => doClaim st a
  | .claimv a => doClaimVested st a
  | .xfer a b amt => doXfer st a b amt
  | .chown a b => doChown st a b

/-- actors outside `0..n-1` do not exist -/
def opActorsOk (n : Nat) : Op → Bool
  | .fund a _ | .buy a _ _ | .bes a _ _ | .sell a _ _ | .enable a | .claim a | .claimv a => decide (a < n)
  | .xfer a b _ | .chown a b => decide (a < n) && decide (b < n)
  | _ => true

/-- one message: on error the state is unchanged (baseapp's per-message cache context) -/
def step (I : Int → Int) (T : Int → Int → Option Int) (st : State) (op : Op) : State × Err :=
  if !opActorsOk st.cfg.n op then (st, .invalid) else
  match exec I T st op with
  | .ok st' => (st', .ok)
  | .error e => (st, e)

def run (I : Int → Int) (T : Int → Int → Option Int) (st : State) (ops : List Op) : State :=
  ops.foldl (fun s o => (step I T s o).1) st

def sumTo (n : Nat) (f : Nat → Int) : Int :=
  match n with
  | 0 => 0
  | k + 1 => sumTo k f + f k

end DymVerif.Iro
