/-
  Model/LC (M-LC) — executable model of x/lightclient (property C09) layered on M-Core (x/rollapp +
  x/sequencer, `Model/Core.lean`, which is not re-validated here): every Core op runs through
  `Core.step`; the light-client hooks are applied around it exactly where the production hook lists
  run them.  Mirrors the Go code as it is:

    x/lightclient/types/params.go                IsCanonicalClientParamsValid (loops over the *candidate's* lists)
    x/lightclient/types/state.go                 CheckCompatibility
    x/lightclient/keeper/canonical_client.go     TrySetCanonicalClient, validClient, ValidateHeaderAgainstStateInfo
    x/lightclient/keeper/hook_listener.go        AfterUpdateState, ValidateStateInfoAgainstConsensusStates
    x/lightclient/keeper/rollback.go             RollbackCanonicalClient, ResolveHardFork
    x/lightclient/keeper/ibc_msg_update_client.go   HandleMsgUpdateClient, msgServer.UpdateClient (wrapped)
    x/lightclient/keeper/ibc_msg_submit_misbehaviour.go, ibc_msg_channel_open_ack.go, ibc_msgs.go
    x/lightclient/keeper/keeper.go               CanUnbond, SaveSigner, PruneSigners
    app/ante/reject_msgs.go + cosmos_handler.go  ibc MsgUpdateClient refused at depth ≥ 1
    ibc-go 07-tendermint update.go               CheckForMisbehaviour / UpdateState for an accepted header
                                                 (verification itself is the oracle `ibc`)

  Tokens: state roots and timestamps are `Nat`s; a next-validators hash is 0 (garbage) or `a+1`
  (the single-validator set of sequencer `a`).  Core Lean only.
-/
import DymVerif.Model.Core
namespace DymVerif.LC
open DymVerif.Core (Addr NextP)

structure Cons where
  root : Nat
  ts : Nat
  nextVal : Nat
  deriving DecidableEq, Repr, Inhabited

def valHash (a : Addr) : Nat := a + 1

/-- candidate client parameters as tokens; 0 = the expected scalar value -/
structure CParams where
  trustLevel : Nat
  trusting : Nat
  unbonding : Nat
  drift : Nat
  specs : List Nat
  path : List Nat
  deriving DecidableEq, Repr, Inhabited

def expSpecs : List Nat := [1, 2]
def expPath : List Nat := [1, 2]
def expParams : CParams := ⟨0, 0, 0, 0, expSpecs, expPath⟩

inductive PRes
  | ok | bad | panic
  deriving DecidableEq, Repr, Inhabited

/-- `for i, x := range got { if x != expect[i] … }` -/
def checkList : List Nat → List Nat → PRes
  | [], _ => .ok
  | _ :: _, [] => .panic
  | g :: gs, e :: es => if g == e then checkList gs es else .bad

/-- `IsCanonicalClientParamsValid`: scalars, then the proof specs (length first, then element-wise), then the
    upgrade path (length first, then element-wise) -/
def paramsCheck (p : CParams) (frozen : Bool) : PRes :=
  if p.trustLevel != 0 then .bad
  else if p.trusting != 0 then .bad
  else if p.unbonding != 0 then .bad
  else if p.drift != 0 then .bad
  else if frozen then .bad
  else if p.specs.length != expSpecs.length then .bad
  else match checkList p.specs expSpecs with
    | .ok => if p.path.length != expPath.length then .bad else checkList p.path expPath
    | r => r

structure Client where
  id : Nat
  chain : Nat                      -- the rollapp index named by ClientState.ChainId (≥ 100: no rollapp id)
  params : CParams
  cons : List (Nat × Cons)         -- consensus states, ascending by height
  latest : Nat
  frozen : Bool
  deriving DecidableEq, Repr, Inhabited

/-- a posted block descriptor as the light client sees it -/
structure Desc where
  ra : Nat
  h : Nat
  root : Nat
  ts : Option Nat
  deriving DecidableEq, Repr, Inhabited

structure Chan where
  id : Nat
  client : Nat
  isOpen : Bool
  deriving DecidableEq, Repr, Inhabited

structure St where
  core : Core.St
  descs : List Desc
  clients : List Client
  r2c : List (Nat × Nat)           -- store prefix RollappClientKey: rollapp ↦ client
  c2r : List (Nat × Nat)           -- store prefix CanonicalClientKey: client ↦ rollapp
  signerSet : List (Addr × Nat × Nat)      -- keeper.headerSigners: (sequencer, client, height)
  signerMap : List (Nat × Nat × Addr)      -- keeper.clientHeightToSigner: (client, height) ↦ sequencer
  chanOf : List (Nat × Nat)        -- Rollapp.ChannelId
  chans : List Chan
  deriving Repr, Inhabited

def lookup (l : List (Nat × Nat)) (k : Nat) : Option Nat := (l.find? (·.1 == k)).map (·.2)

def getClient (s : St) (c : Nat) : Option Client := s.clients.find? (·.id == c)
def setClient (s : St) (cl : Client) : St := { s with clients := s.clients.map (fun x => if x.id == cl.id then cl else x) }

def getCons (cl : Client) (h : Nat) : Option Cons := (cl.cons.find? (·.1 == h)).map (·.2)

def insCons (h : Nat) (c : Cons) : List (Nat × Cons) → List (Nat × Cons)
  | [] => [(h, c)]
  | x :: xs => if h < x.1 then (h, c) :: x :: xs else if h == x.1 then (h, c) :: xs else x :: insCons h c xs

def getDesc (s : St) (ra h : Nat) : Option Desc := s.descs.find? (fun d => d.ra == ra && d.h == h)

inductive LErr
  | notFound | rollappNotFound | alreadyExists | params | paramsPanic | noState | noMatch
  | root | ts | nextVal | internal
  | proposerMismatch | nonSequencer | foreignSequencer | validatorSet | unbonded | revision | misbehaviourDisabled | nestedDisabled
  | chanExists | chanUnknown | ibc | noSigner | unbondBlocked | forkNoClient | forkNoCons | resolveHeight | staleDesc
  | mixedTx      -- a message the light-client decorator checks travels with a message that is not an ibc core message
  | core (e : Core.Err)
  deriving DecidableEq, Repr, Inhabited

/-- `CheckCompatibility` -/
def compat (cs : Cons) (root : Nat) (ts : Option Nat) (nextSeq : Addr) : Option LErr :=
  if cs.root != root then some .root
  else if (match ts with | some t => cs.ts != t | none => false) then some .ts
  else if cs.nextVal != valHash nextSeq then some .nextVal
  else none

/-- `StateInfo.NextSequencerForHeight` followed by `RealSequencer` -/
def nextSeqFor (core : Core.St) (st : Core.SInfo) (h : Nat) : Option Addr :=
  if h != st.last then (Core.getSeq core st.creator).map (·.addr)
  else match st.next with
    | .addr a => (Core.getSeq core a).map (·.addr)
    | _ => none          -- "" or the sentinel: RealSequencer fails

/-- `ValidateHeaderAgainstStateInfo` -/
def validateHeader (s : St) (ra : Nat) (st : Core.SInfo) (cs : Cons) (h : Nat) : Option LErr :=
  if !st.contains h then some .internal else
  match getDesc s ra h with
  | none => some .internal
  | some d =>
    match nextSeqFor s.core st h with
    | none => some .internal
    | some q => compat cs d.root d.ts q

/-- `ValidateStateInfoAgainstConsensusStates` over the heights `hs`: (matched, error) -/
def validateRange (s : St) (cl : Client) (ra : Nat) (st : Core.SInfo) : List Nat → Bool → Bool × Option LErr
  | [], m => (m, none)
  | h :: hs, m =>
    match getCons cl h with
    | none => validateRange s cl ra st hs m
    | some cs =>
      match validateHeader s ra st cs h with
      | some e => (false, some e)
      | none => validateRange s cl ra st hs true

def heightsOf (st : Core.SInfo) : List Nat := (List.range (st.last + 1 - st.start)).map (· + st.start)

def validateStateInfo (s : St) (cl : Client) (ra : Nat) (st : Core.SInfo) : Bool × Option LErr :=
  validateRange s cl ra st (heightsOf st) false

/-- `GetFirstConsensusStateHeight`: the lowest height with a consensus state (the client's iteration keys are
    walked in numerical order), 0 if there is none -/
def firstConsHeight (cl : Client) : Nat :=
  match cl.cons with
  | [] => 0
  | x :: xs => xs.foldl (fun best y => min best y.1) x.1

/-- the loop of `validClient`: state infos from the latest down, stop after the first one that starts
    below the first consensus state -/
def validLoop (s : St) (cl : Client) (ra : Nat) (base : Nat) : List Core.SInfo → Bool → Bool × Option LErr
  | [], m => (m, none)
  | st :: rest, m =>
    match validateStateInfo s cl ra st with
    | (_, some e) => (false, some e)
    | (m1, none) =>
      if st.start < base then (m || m1, none) else validLoop s cl ra base rest (m || m1)

/-- `TrySetCanonicalClient` -/
def setCanonical (s : St) (c : Nat) : St × Option LErr :=
  match getClient s c with
  | none => (s, some .notFound)
  | some cl =>
    match Core.getRa s.core cl.chain with
    | none => (s, some .rollappNotFound)
    | some r =>
      if (lookup s.r2c cl.chain).isSome then (s, some .alreadyExists) else
      match paramsCheck cl.params cl.frozen with
      | .bad => (s, some .params)
      | .panic => (s, some .paramsPanic)
      | .ok =>
        if r.states.isEmpty then (s, some .noState) else
        let base := firstConsHeight cl
        match validLoop s cl cl.chain base r.states.reverse false with
        | (_, some e) => (s, some e)
        | (false, none) => (s, some .noMatch)
        | (true, none) => ({ s with r2c := s.r2c ++ [(cl.chain, c)], c2r := s.c2r ++ [(c, cl.chain)] }, none)

-- ---------------------------------------------------------------- client updates

/-- the header fields the hub looks at; proposers are actor tokens (≥ 1000: a key no sequencer registered) -/
structure Hdr where
  h : Nat
  cons : Cons
  propSig : Nat          -- ValidatorSet.Proposer
  propData : Nat         -- Header.ProposerAddress
  rev : Nat              -- Header.Version.App
  sole : Bool            -- Header.ValidatorsHash is the hash of the single-validator set of the sequencer `propData`
  deriving DecidableEq, Repr, Inhabited

/-- `SaveSigner`: the key set gets the triple, the map entry of (client, height) is overwritten -/
def saveSigner (s : St) (c h : Nat) (a : Addr) : St :=
  { s with signerSet := if s.signerSet.contains (a, c, h) then s.signerSet else s.signerSet ++ [(a, c, h)],
           signerMap := (s.signerMap.filter (fun x => !(x.1 == c && x.2.1 == h))) ++ [(c, h, a)] }

/-- the client is canonical for a rollapp other than the sequencer's -/
def foreignSeq (s : St) (c : Nat) (q : Core.Seq) : Bool :=
  match lookup s.c2r c with
  | some r => q.rollapp != r
  | none => false

/-- `HandleMsgUpdateClient` for a header -/
def handleUpdate (s : St) (c : Nat) (hd : Hdr) : St × Option LErr :=
  let canonical := (lookup s.c2r c).isSome
  if hd.propSig != hd.propData then (s, some .proposerMismatch) else
  match Core.getSeq s.core hd.propData with
  | none => if canonical then (s, some .nonSequencer) else (s, none)
  | some q =>
    -- a canonical client is only updated with headers of sequencers of its own rollapp
    if foreignSeq s c q then (s, some .foreignSequencer) else
    -- … and only with headers whose validator set is that sequencer alone
    if canonical && !hd.sole then (s, some .validatorSet) else
    if !q.bonded then (s, some .unbonded) else
    match Core.getRa s.core q.rollapp with
    | none => (s, some .internal)
    | some r =>
      if hd.rev != Core.latestRev r then (s, some .revision) else
      match Core.findByHeight r hd.h with
      | none =>
        -- no state info covers the height: the header is optimistic (M-LC keeps its descriptor table in step
        -- with the state infos; a descriptor without a state info cannot occur on a gap-free chain)
        if (getDesc s q.rollapp hd.h).isSome then (s, some .internal) else (saveSigner s c hd.h q.addr, none)
      | some i =>
        match r.states[i - 1]? with
        | none => (s, some .internal)
        | some st =>
          match validateHeader s q.rollapp st hd.cons hd.h with
          | some e => (s, some e)
          | none => (s, none)

def prevCons (cl : Client) (h : Nat) : Option Cons := ((cl.cons.filter (·.1 < h)).getLast?).map (·.2)
def nextCons (cl : Client) (h : Nat) : Option Cons := ((cl.cons.filter (h < ·.1)).head?).map (·.2)

/-- what 07-tendermint does with a header it has verified: `CheckForMisbehaviour` then `UpdateState` -/
def ibcApply (cl : Client) (hd : Hdr) : Client :=
  match getCons cl hd.h with
  | some old => if old == hd.cons then cl else { cl with frozen := true }
  | none =>
    if (match prevCons cl hd.h with | some p => !(p.ts < hd.cons.ts) | none => false) then { cl with frozen := true }
    else if (match nextCons cl hd.h with | some n => !(hd.cons.ts < n.ts) | none => false) then { cl with frozen := true }
    else { cl with cons := insCons hd.h hd.cons cl.cons, latest := max cl.latest hd.h }

inductive Wrap
  | top            -- ibc MsgUpdateClient in the transaction
  | wrapped        -- lightclient MsgUpdateClient{Inner} in the transaction
  | nested         -- ibc MsgUpdateClient inside authz.MsgExec
  | nestedWrapped  -- lightclient MsgUpdateClient inside authz.MsgExec
  | storedProposal -- ibc MsgUpdateClient inside an x/group MsgSubmitProposal that is only stored (Exec unspecified) and would
                   -- be executed later, by a vote with Exec = TRY, through the message router alone
  deriving DecidableEq, Repr, Inhabited

inductive Res
  | ok
  | ante (e : LErr)     -- the ante handler refused the transaction
  | msg (e : LErr)      -- the ante handler passed (its writes persist), the message failed
  deriving DecidableEq, Repr, Inhabited

/-- a header update, by any of the four routes; `ibc` = 07-tendermint accepts the header.
    The wrapper message `lightclient.MsgUpdateClient` has no `cosmos.msg.v1.signer` annotation: as a
    transaction message it yields no fee payer (the ante handler refuses the transaction), inside
    `authz.MsgExec` the dispatcher cannot determine its signers (the message fails) — as the code is,
    `msgServer.UpdateClient` is unreachable. -/
def updateClient (s : St) (c : Nat) (w : Wrap) (hd : Hdr) (ibc : Bool) : St × Res :=
  match w with
  | .nested => (s, .ante .nestedDisabled)
  | .storedProposal => (s, .ante .nestedDisabled)     -- the filter unwraps a proposal whatever its Exec field says
  | .wrapped => (s, .ante .noSigner)
  | .nestedWrapped => (s, .msg .noSigner)
  | .top =>
    match handleUpdate s c hd with
    | (_, some e) => (s, .ante e)
    | (s1, none) =>
      -- ante writes are kept whatever happens to the message
      match getClient s c with
      | none => (s1, .msg .notFound)
      | some cl => if ibc && !cl.frozen then (setClient s1 (ibcApply cl hd), .ok) else (s1, .msg .ibc)      -- a frozen client is not Active

inductive MKind
  | submit | submitNested | viaUpdate | viaUpdateNested | viaWrapped | viaWrappedNested
  | submitStored | viaUpdateStored      -- inside a stored x/group proposal (see `Wrap.storedProposal`)
  deriving DecidableEq, Repr, Inhabited

/-- misbehaviour evidence against client `c`; `ibc` = the evidence verifies (the client gets frozen) -/
def misbehaviour (s : St) (c : Nat) (k : MKind) (ibc : Bool) : St × Res :=
  match getClient s c with
  | none => (s, .msg .notFound)
  | some cl =>
    let canonical := (lookup s.c2r c).isSome
    let exec : St × Res := if ibc then (setClient s { cl with frozen := true }, .ok) else (s, .msg .ibc)
    match k with
    | .submit => if canonical then (s, .ante .misbehaviourDisabled) else exec
    | .submitNested => (s, .ante .nestedDisabled)             -- refused at depth ≥ 1 like a nested MsgUpdateClient
    | .viaUpdate => if canonical then (s, .ante .misbehaviourDisabled) else exec
    | .viaUpdateNested => (s, .ante .nestedDisabled)
    | .submitStored => (s, .ante .nestedDisabled)
    | .viaUpdateStored => (s, .ante .nestedDisabled)
    | .viaWrapped => (s, .ante .noSigner)
    | .viaWrappedNested => (s, .msg .noSigner)

-- ---------------------------------------------------------------- channels

/-- how the last step of a transfer-channel handshake reaches the hub -/
inductive ChanRoute
  | ack          -- MsgChannelOpenAck as a message of the transaction (handshake started from the hub)
  | nestedAck    -- MsgChannelOpenAck inside authz.MsgExec: neither the nested-message filter nor the decorator looks at it
  | confirm      -- MsgChannelOpenConfirm (handshake started from the rollapp): not in the decorator's handled set
  deriving DecidableEq, Repr, Inhabited

/-- `HandleMsgChannelOpenAck` (ante; only for `MsgChannelOpenAck` at top level) followed by the message;
    `ibc` = the handshake proof verifies -/
def chanAck (s : St) (ch : Nat) (w : ChanRoute) (ibc : Bool) : St × Res :=
  match s.chans.find? (·.id == ch) with
  | none => (match w with
    | .ack => (s, .ante .chanUnknown)
    | _ => (s, .msg .ibc))
  | some c =>
    let openIt (s : St) : St × Res :=
      if ibc then ({ s with chans := s.chans.map (fun x => if x.id == ch then { x with isOpen := true } else x) }, .ok) else (s, .msg .ibc)
    match w with
    | .ack =>
      (match lookup s.c2r c.client with
      | none => openIt s
      | some r =>
        if (lookup s.chanOf r).isSome then (s, .ante .chanExists)
        else openIt { s with chanOf := s.chanOf ++ [(r, ch)] })
    | _ => openIt s      -- the channel opens, `Rollapp.ChannelId` is not touched

-- ---------------------------------------------------------------- hooks around Core ops

/-- `pruneSigners`: walk the map entries of the client in the range, `RemoveSigner` each (the triple of
    the *mapped* sequencer and the map entry) -/
def pruneWhere (s : St) (c : Nat) (p : Nat → Bool) : St :=
  let gone := s.signerMap.filter (fun x => x.1 == c && p x.2.1)
  { s with signerMap := s.signerMap.filter (fun x => !(x.1 == c && p x.2.1)),
           signerSet := s.signerSet.filter (fun t => !gone.any (fun x => x.2.2 == t.1 && x.1 == t.2.1 && x.2.1 == t.2.2)) }
/-- `PruneSignersBelow(client, h)` / `PruneSignersAbove(client, h)` -/
def pruneBelow (s : St) (c h : Nat) : St := pruneWhere s c (fun x => decide (x < h))
def pruneAbove (s : St) (c h : Nat) : St := pruneWhere s c (fun x => decide (h < x))

/-- `RollbackCanonicalClient`, once the canonical client `cl` (id `c`) is at hand -/
def rollbackClient (s : St) (ra lastValid c : Nat) (cl : Client) : St × Option LErr :=
  match (cl.cons.filter (·.1 ≤ lastValid)).getLast? with
  | none => (s, some .forkNoCons)
  | some l =>
    let s1 := setClient s { cl with cons := cl.cons.filter (·.1 ≤ lastValid), latest := l.1, frozen := true }
    (pruneAbove { s1 with descs := s1.descs.filter (fun d => !(d.ra == ra && lastValid < d.h)) } c (lastValid - 1), none)

/-- `RollbackCanonicalClient` -/
def rollback (s : St) (ra lastValid : Nat) : St × Option LErr :=
  match lookup s.r2c ra with
  | none => (s, some .forkNoClient)
  | some c =>
    match getClient s c with
    | none => (s, some .internal)
    | some cl => rollbackClient s ra lastValid c cl

/-- `IsFirstHeightOfLatestFork` -/
def isFirstOfFork (r : Core.Rollapp) (rev h : Nat) : Bool :=
  decide (1 < r.revs.length) && (match r.revs.reverse.find? (fun x => x.2 ≤ h) with
    | some x => x.1 == rev && x.2 == h
    | none => false) && rev == Core.latestRev r

/-- `ResolveHardFork` for the first state info `st` of the new revision -/
def resolveFork (s : St) (ra : Nat) (st : Core.SInfo) (cl : Client) : St × Option LErr :=
  if st.start ≤ cl.latest then (s, some .resolveHeight) else
  match getDesc s ra st.start with
  | none => (s, some .internal)
  | some d =>
    -- next validators = the sequencer of the next block (`NextSequencerForHeight`)
    match nextSeqFor s.core st st.start with
    | none => (s, some .internal)
    | some q =>
      (setClient s { cl with cons := insCons st.start ⟨d.root, d.ts.getD 0, valHash q⟩ cl.cons, latest := st.start, frozen := false }, none)

/-- the ordinary path of `AfterUpdateState`: validate against optimistic headers, prune signer records -/
def validateNew (s : St) (ra : Nat) (st : Core.SInfo) (c : Nat) (cl : Client) : St × Option LErr :=
  match validateStateInfo s cl ra st with
  | (_, some e) => (s, some e)
  | (_, none) => (pruneBelow s c (st.last + 1), none)

/-- rollapp hook `AfterUpdateState` of x/lightclient for the state info `st` just stored -/
def afterUpdate (s : St) (ra rev : Nat) (st : Core.SInfo) : St × Option LErr :=
  match lookup s.r2c ra with
  | none => (s, none)
  | some c =>
    match getClient s c, Core.getRa s.core ra with
    | some cl, some r => if isFirstOfFork r rev st.start then resolveFork s ra st cl else validateNew s ra st c cl
    | _, _ => (s, some .internal)

/-- does `MsgUnbond` / `MsgDecreaseBond` of `a` reach `TryUnbond` with the light-client blocker vetoing? -/
def unbondBlocked (s : St) (a : Addr) : Bool :=
  match Core.getSeq s.core a with
  | none => false
  | some q =>
    if Core.isProposer s.core q then false else
    match lookup s.r2c q.rollapp with
    | none => false
    | some c => s.signerSet.any (fun x => x.1 == a && x.2.1 == c)

/-- forks performed by a Core step: rollapps whose revision list grew, with the last valid height -/
def newForks (before after : Core.St) : List (Nat × Nat) :=
  after.ras.filterMap fun r =>
    match Core.getRa before r.id with
    | some r0 => if r0.revs.length < r.revs.length then (r.revs.getLast?.map fun x => (r.id, x.2 - 1)) else none
    | none => none

def applyForks (s : St) : List (Nat × Nat) → St × Option LErr
  | [] => (s, none)
  | (ra, lv) :: rest =>
    match rollback s ra lv with
    | (_, some e) => (s, some e)
    | (s1, none) => applyForks s1 rest

def addDescs (s : St) (ra start : Nat) (ds : List (Nat × Option Nat)) : St :=
  { s with descs := s.descs ++ (ds.zipIdx.map fun (d, i) => { ra := ra, h := start + i, root := d.1, ts := d.2 }) }

/-- keeper.CanUnbond vetoes `MsgUnbond` / `MsgDecreaseBond` -/
def coreBlocked (s : St) : Core.Op → Bool
  | .unbond a => unbondBlocked s a
  | .bondDec a _ => unbondBlocked s a
  | _ => false

/-- the descriptors of an accepted update are in the store before the hooks run -/
def withDescs (s1 : St) (o : Core.Op) (ds : List (Nat × Option Nat)) : Option St :=
  match o with
  | .update m =>
    if s1.descs.any (fun d => d.ra == m.ra && m.start ≤ d.h) then none      -- cannot happen on a gap-free chain (C01)
    else some (addDescs s1 m.ra m.start ds)
  | _ => some s1

/-- the x/lightclient `AfterUpdateState` hook for the state info an update just stored; `s` is the state to
    return on failure (the whole message is reverted) -/
def finishUpdate (s s3 : St) (m : Core.UpdMsg) (ds : List (Nat × Option Nat)) : St × Res :=
  match Core.getRa s3.core m.ra with
  | none => (s, .msg .internal)
  | some r =>
    -- the state info just stored (a fork to latest in the same op keeps all its heights)
    match r.states.getLast? with
    | none => (s, .msg .internal)
    | some st =>
      -- the descriptor table and the stored state info cover the same heights (C01: bdlen = num)
      if st.start != m.start || st.last + 1 - st.start != ds.length then (s, .msg .internal) else
      match afterUpdate s3 m.ra m.rev st with
      | (_, some e) => (s, .msg e)
      | (s4, none) => (s4, .ok)

/-- a Core op with the light-client hooks around it; `ds` = (root, timestamp) of the descriptors of an update -/
def coreOp (s : St) (o : Core.Op) (ds : List (Nat × Option Nat)) : St × Res :=
  match Core.step s.core o with
  | (_, some e) => (s, .msg (.core e))
  | (core1, none) =>
    if coreBlocked s o then (s, .msg .unbondBlocked) else
    match withDescs { s with core := core1 } o ds with
    | none => (s, .msg .staleDesc)
    | some s2 =>
      -- OnHardFork of every fork this op performed (sequencer hook first, then x/lightclient)
      match applyForks s2 (newForks s.core core1) with
      | (_, some e) => (s, .msg e)
      | (s3, none) =>
        match o with
        | .update m => finishUpdate s s3 m ds
        | _ => (s3, .ok)

def createClient (s : St) (chain : Nat) (p : CParams) (h : Nat) (c : Cons) : St × Res :=
  let id := s.clients.length
  ({ s with clients := s.clients ++ [{ id := id, chain := chain, params := p, cons := [(h, c)], latest := h, frozen := false }] }, .ok)

def chanInit (s : St) (c : Nat) : St × Res :=
  match getClient s c with
  | none => (s, .msg .notFound)
  | some cl =>
    if cl.frozen then (s, .msg .ibc)        -- ibc core: the client must be active
    else ({ s with chans := s.chans ++ [{ id := s.chans.length, client := c, isOpen := false }] }, .ok)

inductive Op
  | core (o : Core.Op) (ds : List (Nat × Option Nat))
  | createClient (chain : Nat) (p : CParams) (h : Nat) (c : Cons)
  | setCanonical (c : Nat)
  | updateClient (c : Nat) (w : Wrap) (hd : Hdr) (ibc : Bool)
  | misbehaviour (c : Nat) (k : MKind) (ibc : Bool)
  | chanInit (c : Nat)
  | chanAck (ch : Nat) (w : ChanRoute) (ibc : Bool)
  deriving Repr, Inhabited

def step (s : St) : Op → St × Res
  | .core o ds => coreOp s o ds
  | .createClient chain p h c => createClient s chain p h c
  | .setCanonical c =>
    match setCanonical s c with
    | (s1, none) => (s1, .ok)
    | (_, some e) => (s, .msg e)
  | .updateClient c w hd ibc => updateClient s c w hd ibc
  | .misbehaviour c k ibc => misbehaviour s c k ibc
  | .chanInit c => chanInit s c
  | .chanAck ch w ibc => chanAck s ch w ibc

def init (p : Core.Params) : St :=
  { core := Core.init p, descs := [], clients := [], r2c := [], c2r := [], signerSet := [], signerMap := [], chanOf := [], chans := [] }

def run (s : St) (ops : List Op) : St := ops.foldl (fun s o => (step s o).1) s

end DymVerif.LC
