/-
  Model/CoreBlocks — the begin/end blockers of x/sequencer and x/rollapp WITH their error channels
  (C11).  `Model/Core.lean` models the blockers as total state transformers (`beginBlock`,
  `endBlock`), because on every state the correspondence runs ever reached they return no error.
  Here the places where the Go code *can* return an error (and would stop block production, because
  the module manager propagates it) are made explicit, so that "never fails" is a theorem about
  reachable states and not a property of a totalised definition.

  x/sequencer `AppModule.BeginBlock` → `ChooseSuccessorForFinishedNotices`:
    * `NoticeQueue(ctx, &now)` reads every elapsed queue entry FIRST and fails with ErrInternal
      ("sequencer in notice queue but missing sequencer object") when an entry has no sequencer
      record (`RealSequencer` also refuses the sentinel, which is never queued);
    * `setSuccessorForRotatingRollapp` → `ProposerChoiceAlgo` fails only on an empty candidate list,
      and `RollappPotentialProposers` always appends the sentinel: no error path.
  x/rollapp `AppModule.EndBlock` always returns nil; `FinalizeRollappStates` and `CheckLiveness`
  run each item inside `osmoutils.ApplyFuncIfNoError` (branched store, panics recovered), which the
  model's failure oracle (`fails`) and `handleLivenessEvent`'s `.error _ => s` branch stand for.
-/
import DymVerif.Model.Core
namespace DymVerif.Core

/-- x/sequencer `BeginBlock` with its error channel -/
def beginBlockE (s : St) (dt : Nat) : Except Err St :=
  let s0 := { s with h := s.h + 1, t := s.t + dt }
  let due := s0.nq.filter (fun e => e.1 ≤ s0.t)
  if due.all (fun e => (getSeq s0 e.2).isSome) then .ok (beginBlock s dt) else .error .internal

/-- a whole block (begin, nothing else, end under a failure oracle) with the error channel of the
    module manager: the first error aborts -/
def blockE (s : St) (dt : Nat) (fails : List (Nat × Nat)) : Except Err St :=
  match beginBlockE s dt with
  | .error e => .error e
  | .ok s1 => .ok (endBlock s1 fails)

end DymVerif.Core
