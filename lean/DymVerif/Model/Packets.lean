/-
  Model/Packets (M-Packets) — executable model of x/delayedack (IBC middleware, finalization of
  delayed packets, hard-fork and epoch hooks), x/eibc (demand orders, fulfilment: direct, authorised
  through an authz grant, on-demand LPs; fee update) and x/bridgingfee, together with the ICS-20
  effects they release (ibc-go transfer `OnRecvPacket` / refund) and the part of ibc-go core that
  protects against redelivery (receipts, commitments).  Mirrors the Go code as it is; see the
  per-function references.  Core Lean only.

  Conventions: addresses are `Nat`s whose numeric order is the byte order of the bech32 strings
  (the harness names actors in that order); account 900 is a blocked module account, accounts
  1000+c are the ICS-20 escrow accounts of hub channel c.  Denom 0 is the hub's native denom,
  denom 1+c the voucher of the counterparty-native token received over hub channel c.
  A demand-order id is hex(sha256(pending packet key)) in the source; SHA-256 is not modelled and the
  id *is* the pending packet key here (collision freedom assumed).
-/
import DymVerif.Base.Dec
import DymVerif.Model.Keys
namespace DymVerif.Packets
open DymVerif DymVerif.Keys

instance : Inhabited Status := ⟨.pending⟩
instance : Inhabited PType := ⟨.undefined⟩

abbrev Addr := Nat
abbrev Denom := Nat
abbrev Coins := List (Denom × Int)

def blockedAddr : Addr := 900
def escrowAcct (c : Nat) : Addr := 1000 + c
/-- packet-forward-middleware's intermediate receiver for packets arriving on hub channel `c`
    (`packetforward.GetReceiver(channel, originalSender)`: a hash address nobody holds a key of; the
    counterparty-side sender is one constant in the harness) -/
def pfmAddr (c : Nat) : Addr := 2000 + c

/-- static description of a hub-side transfer channel -/
structure Chan where
  hubId : Bytes
  cpId : Bytes
  rollapp : Option Nat     -- the channel's light client is the canonical client of this rollapp
  canonical : Bool         -- and the channel is that rollapp's canonical channel
  deriving Repr, Inhabited

/-- the slice of x/rollapp the packets logic reads: state infos as their last heights, finalized in order -/
structure Rollapp where
  id : Bytes
  heights : List Nat
  nFin : Nat
  deriving Repr, Inhabited

inductive Memo
  | none | notJson | noEibc | eibc (fee : Int) | eibcBad
  | forward (c : Nat)      -- packet-forward-middleware: `{"forward":{"receiver":…,"port":"transfer","channel":<hub channel c>}}`
  deriving DecidableEq, Repr, Inhabited

/-- what `RollappPacket.Error` records when the callback at finalization failed -/
inductive PErr
  | ackClosed                                -- `WriteAcknowledgement`: the channel end is not OPEN / FLUSHING / FLUSHCOMPLETE
  | ackExists                                -- `WriteAcknowledgement`: an acknowledgement is already stored
  | refund (bal amt : Int) (d : Denom)       -- the refund could not be paid out of the channel escrow (balance, amount)
  | fwdMove (bal amt : Int) (d : Denom)      -- packet-forward refund: escrow → refund-channel escrow failed
  | fwdBurn (bal amt : Int) (d : Denom)      -- packet-forward refund: escrow → module account (burn) failed
  deriving DecidableEq, Repr, Inhabited

/-- `commontypes.RollappPacket` (with the ICS-20 data it carries, already interpreted) -/
structure Packet where
  status : Status
  rollappId : Bytes
  proofHeight : Nat
  ptype : PType
  srcChan : Bytes
  seq : Nat
  chan : Nat               -- hub channel index (Packet.DestinationChannel / SourceChannel)
  denom : Denom            -- hub-side denom credited / refunded on release
  unescrow : Bool          -- release takes the coins out of the channel escrow (else mints)
  amount : Int
  target : Addr            -- hub address in the transfer data: receiver (recv) / sender (ack, timeout)
  orig : Option Addr       -- OriginalTransferTarget
  ackErr : Bool            -- ON_ACK: the stored acknowledgement is an error acknowledgement
  perr : Option PErr       -- Error (none = "")
  -- ghost (not in the stored packet; lives in packet-forward-middleware's in-flight store under the packet's
  -- (channel, port, sequence)): the hub sent this packet as a FORWARD of the packet received on hub channel
  -- `fwd.1` with sequence `fwd.2` (the "refund channel / sequence")
  fwd : Option (Nat × Nat) := none
  -- ghost: (sent packets) the receiver named in the transfer data decodes to a blocked hub account
  cpBlocked : Bool := false
  deriving DecidableEq, Repr, Inhabited

structure Order where
  id : Bytes
  trackingKey : Bytes
  status : Status
  price : Int
  fee : Int
  denom : Denom
  recipient : Addr
  fulfiller : Option Addr
  rollappId : Bytes
  ptype : PType
  creationHeight : Nat
  -- ghost (not in the store): the transfer amount and the kind of packet (received: bridging fee applies)
  -- the price was last computed from
  amount : Int
  withBf : Bool
  deriving DecidableEq, Repr, Inhabited

/-- `OnDemandLPRecord` -/
structure LP where
  id : Nat
  addr : Addr
  rollappId : Bytes
  denom : Denom
  maxPrice : Int
  minFee : Int
  spendLimit : Int
  minAge : Nat
  spent : Int
  deriving DecidableEq, Repr, Inhabited

/-- `RollappCriteria` of a `FulfillOrderAuthorization` -/
structure Criteria where
  rollappId : Bytes
  denoms : List Denom
  minFeePct : Dec
  maxPrice : Coins
  spendLimit : Coins
  opShare : Dec
  sv : Bool
  deriving DecidableEq, Repr, Inhabited

structure Grant where
  granter : Addr
  grantee : Addr
  crit : List Criteria
  deriving DecidableEq, Repr, Inhabited

/-- data of a packet sent by the hub (kept to interpret its acknowledgement / timeout) -/
structure Sent where
  chan : Nat
  seq : Nat
  sender : Addr
  denom : Denom
  unescrow : Bool
  amount : Int
  fwd : Option (Nat × Nat) := none   -- packet-forward-middleware's `InFlightPacket` (refund channel, refund sequence)
  rcvBlocked : Bool := false         -- the counterparty-side receiver string is the bech32 of a blocked hub module account
  deriving DecidableEq, Repr, Inhabited

/-- ghost log of release effects: one entry per real (not dry-run) execution of the ICS-20 callback -/
structure LogE where
  ptype : PType
  chan : Nat
  seq : Nat
  delayedRa : Option Bytes   -- the registered rollapp the packet's channel belongs to
  proofHeight : Nat
  finAt : Option Nat         -- that rollapp's latest finalized height when the effect was released
  viaFinalize : Bool
  deriving DecidableEq, Repr, Inhabited

structure St where
  h : Nat
  bridgingFee : Dec
  timeoutFee : Dec
  errAckFee : Dec
  chans : List Chan
  ras : List Rollapp
  packets : List Packet            -- sorted by store key
  byAddr : List (Addr × Bytes)     -- pending-by-address index, sorted
  orders : List Order              -- sorted by (status, id)
  lps : List LP                    -- sorted by id
  nextLp : Nat
  grants : List Grant
  bal : List ((Addr × Denom) × Int)
  accts : List Addr
  receipts : List (Nat × Nat)
  commits : List (Nat × Nat)
  sent : List Sent
  nextSeq : List (Nat × Nat)
  acks : List ((Nat × Nat) × Bool)
  log : List LogE
  closed : List Nat                      -- hub channels whose channel end is CLOSED
  restored : List ((Nat × Nat) × Addr)   -- ghost: commitments restored by a hard fork, with the refund address committed to
  deriving Repr, Inhabited

inductive Err
  | notFound | notFinal | noFinalState | notPending | inactive | fulfilled | feeMismatch | noAccount
  | insufficient | unauthorized | feeTooHigh | badMemo | invalid | badKey | rollappMismatch
  | priceMismatch | notValidated | noState | noLp | notOwner | noGrant | blocked | badChannel | chanClosed | internal
  deriving DecidableEq, Repr, Inhabited

abbrev M := Except Err

-- ---------------------------------------------------------------- bank

def getBal (b : List ((Addr × Denom) × Int)) (a : Addr) (d : Denom) : Int :=
  match b.find? (fun x => x.1.1 == a && x.1.2 == d) with
  | some x => x.2
  | none => 0

def setBal (b : List ((Addr × Denom) × Int)) (a : Addr) (d : Denom) (v : Int) : List ((Addr × Denom) × Int) :=
  ((a, d), v) :: b.filter (fun x => !(x.1.1 == a && x.1.2 == d))

def addAcct (l : List Addr) (a : Addr) : List Addr := if l.contains a then l else a :: l

/-- credit an account (creates it) -/
def credit (s : St) (a : Addr) (d : Denom) (v : Int) : St :=
  { s with bal := setBal s.bal a d (getBal s.bal a d + v), accts := addAcct s.accts a }

def debit (s : St) (a : Addr) (d : Denom) (v : Int) : St :=
  { s with bal := setBal s.bal a d (getBal s.bal a d - v) }

/-- `bank.SendCoins` of one coin; a zero coin is dropped by `sdk.NewCoins` (no-op) -/
def sendCoins (s : St) (src dst : Addr) (d : Denom) (v : Int) : Option St :=
  if v = 0 then some s else
  if getBal s.bal src d < v then none else some (credit (debit s src d v) dst d v)

-- ---------------------------------------------------------------- rollapp state slice

def getRa (s : St) (id : Bytes) : Option Rollapp := s.ras.find? (·.id == id)

def setRa (s : St) (r : Rollapp) : St :=
  { s with ras := s.ras.map (fun x => if x.id == r.id then r else x) }

/-- `GetLatestFinalizedStateIndex` + `StateInfo.GetLatestHeight` -/
def raFin (r : Rollapp) : Option Nat := if r.nFin = 0 then none else r.heights[r.nFin - 1]?

def raLatest (r : Rollapp) : Option Nat := r.heights.getLast?

/-- `getRollappLatestFinalizedHeight` (none = `gerrc.ErrNotFound`) -/
def finHeight (s : St) (rid : Bytes) : Option Nat :=
  match getRa s rid with
  | some r => raFin r
  | none => none

/-- `VerifyHeightFinalized` -/
def verifyHeightFinalized (s : St) (rid : Bytes) (h : Nat) : M Unit :=
  match finHeight s rid with
  | none => .error .noFinalState
  | some f => if f < h then .error .notFinal else .ok ()

-- ---------------------------------------------------------------- packet store (x/delayedack/keeper/rollapp_packet.go)

/-- `RollappPacket.RollappPacketKey` -/
def pkey (p : Packet) : Bytes := rollappPacketKey p.status p.rollappId p.proofHeight p.ptype p.srcChan p.seq

/-- `GetRollappPacket` -/
def getPacket (s : St) (k : Bytes) : Option Packet := s.packets.find? (fun p => pkey p == k)

def insertPkt (p : Packet) : List Packet → List Packet
  | [] => [p]
  | q :: qs => if lexLt (pkey p) (pkey q) then p :: q :: qs else q :: insertPkt p qs

/-- `store.Delete(key)` -/
def delPacket (s : St) (k : Bytes) : St := { s with packets := s.packets.filter (fun p => pkey p != k) }

/-- `SetRollappPacket` (a KV store write: replaces whatever is under the key) -/
def setPacket (s : St) (p : Packet) : St :=
  { s with packets := insertPkt p (s.packets.filter (fun q => pkey q != pkey p)) }

def ltAK (a b : Addr × Bytes) : Bool := a.1 < b.1 || (a.1 == b.1 && lexLt a.2 b.2)

def insertAK (x : Addr × Bytes) : List (Addr × Bytes) → List (Addr × Bytes)
  | [] => [x]
  | y :: ys => if ltAK x y then x :: y :: ys else if ltAK y x then y :: insertAK x ys else x :: ys

/-- `MustSetPendingPacketByAddress` -/
def addByAddr (s : St) (a : Addr) (k : Bytes) : St := { s with byAddr := insertAK (a, k) s.byAddr }

/-- `MustDeletePendingPacketByAddress` -/
def delByAddr (s : St) (a : Addr) (k : Bytes) : St :=
  { s with byAddr := s.byAddr.filter (fun e => !(e.1 == a && e.2 == k)) }

/-- `GetPendingPacketsByAddress`: none = the walk hit a key with no packet (query error) -/
def pendingByAddr (s : St) (a : Addr) : Option (List Packet) :=
  (s.byAddr.filter (·.1 == a)).mapM (fun e => getPacket s e.2)

-- ---------------------------------------------------------------- demand orders (x/eibc/keeper/keeper.go)

def getOrder (s : St) (st : Status) (id : Bytes) : Option Order :=
  s.orders.find? (fun o => o.status == st && o.id == id)

def ltOrd (a b : Order) : Bool :=
  lexLt (statusBytes a.status) (statusBytes b.status) || (a.status == b.status && lexLt a.id b.id)

def insertOrd (o : Order) : List Order → List Order
  | [] => [o]
  | q :: qs => if ltOrd o q then o :: q :: qs else q :: insertOrd o qs

/-- `deleteDemandOrder` -/
def delOrder (s : St) (st : Status) (id : Bytes) : St :=
  { s with orders := s.orders.filter (fun o => !(o.status == st && o.id == id)) }

/-- `SetDemandOrder` -/
def setOrder (s : St) (o : Order) : St :=
  { s with orders := insertOrd o (s.orders.filter (fun q => !(q.status == o.status && q.id == o.id))) }

/-- `types.CalcPriceWithBridgingFee` -/
def calcPrice (amt fee : Int) (mult : Dec) : M Int :=
  if 0 < amt - fee - (mult.mulInt amt).truncateInt then .ok (amt - fee - (mult.mulInt amt).truncateInt) else .error .feeTooHigh

/-- `BridgingFeeFromAmt` -/
def bridgingFeeOf (s : St) (amt : Int) : Int := (s.bridgingFee.mulInt amt).truncateInt

-- ---------------------------------------------------------------- ICS-20 effects (ibc-go transfer keeper, x/bridgingfee)

/-- the ICS-20 payout: `amount` of the packet's hub denom to the target, out of the channel escrow
    (`unescrowToken`) or freshly minted; `none` = the escrow cannot pay -/
def icsCredit (s : St) (p : Packet) : Option St :=
  if p.unescrow then sendCoins s (escrowAcct p.chan) p.target p.denom p.amount
  else some (credit s p.target p.denom p.amount)

/-- x/bridgingfee: `ChargeFeesFromPayer` inside `ApplyFuncIfNoError` (skipped when it fails) -/
def chargeBridgingFee (s : St) (p : Packet) : St :=
  if bridgingFeeOf s p.amount ≤ 0 then s else
  if getBal s.bal p.target p.denom < bridgingFeeOf s p.amount then s else debit s p.target p.denom (bridgingFeeOf s p.amount)

/-- transfer `OnRecvPacket` below x/bridgingfee: credit the receiver; for rollapp transfers the
    bridging fee is then charged from the receiver.  `none` = error acknowledgement, nothing changed. -/
def icsRecv (s : St) (p : Packet) (isRollapp : Bool) : Option St :=
  if p.target == blockedAddr then none else
  match icsCredit s p with
  | none => none
  | some s1 => some (if isRollapp then chargeBridgingFee s1 p else s1)

def hasAck (s : St) (c seq : Nat) : Bool := s.acks.any (fun a => a.1.1 == c && a.1.2 == seq)

/-- the acknowledgement core IBC writes after a synchronous callback -/
def writeAck (s : St) (c seq : Nat) (ok : Bool) : St := { s with acks := s.acks ++ [((c, seq), ok)] }

/-- a forwarded packet came back with a success acknowledgement -/
def fwdOk (p : Packet) : Bool := p.ptype == .onAck && !p.ackErr

/-- packet-forward-middleware `WriteAcknowledgementForForwardedPacket`, the funds on error ack / timeout
    (`rc` = refund channel): what was escrowed for the forward moves to the refund channel's escrow, or is
    burned when it is that channel's own voucher; what was burned for the forward is minted to the refund
    channel's escrow.  The refund goes back towards the ORIGIN chain — never to `p.target`. -/
def fwdRefundFunds (s : St) (p : Packet) (rc : Nat) : Option St :=
  if p.unescrow then
    if p.denom != 1 + rc then sendCoins s (escrowAcct p.chan) (escrowAcct rc) p.denom p.amount
    else if getBal s.bal (escrowAcct p.chan) p.denom < p.amount then none
    else some (debit s (escrowAcct p.chan) p.denom p.amount)
  else some (credit s (escrowAcct rc) p.denom p.amount)

/-- … then the acknowledgement of the packet that was forwarded is written on the refund channel
    (`WriteAcknowledgement`: channel end not CLOSED, no acknowledgement stored yet) -/
def fwdSettle (s : St) (p : Packet) (r : Nat × Nat) : Option St :=
  match (if fwdOk p then some s else fwdRefundFunds s p r.1) with
  | none => none
  | some s1 =>
    if s1.closed.contains r.1 || hasAck s1 r.1 r.2 then none else some (writeAck s1 r.1 r.2 (fwdOk p))

/-- what the transfer stack below delayedack does with an acknowledgement / timeout that moves funds:
    transfer `refundPacketToken`, or — for a packet the hub sent as a packet-forward — packet-forward-middleware's
    settlement of the forward (which also runs for a success acknowledgement); `none` = error -/
def icsRefund (s : St) (p : Packet) : Option St :=
  match p.fwd with
  | none => icsCredit s p
  | some r => fwdSettle s p r

/-- the rollapp a hub channel is authenticated for (`GetRollappByPortChan`):
    `.ok none` = plain chain, `.error` = rollapp client but not its canonical channel -/
def chanRollapp (s : St) (c : Nat) : M (Option Bytes) :=
  match s.chans[c]? with
  | none => .error .badChannel
  | some ch =>
    match ch.rollapp with
    | none => .ok none
    | some r =>
      match s.ras[r]? with
      | none => .error .internal
      | some ra => if ch.canonical then .ok (some ra.id) else .error .badChannel

def logEntry (s : St) (p : Packet) (ra : Option Bytes) (viaFin : Bool) : LogE :=
  { ptype := p.ptype, chan := p.chan, seq := p.seq, delayedRa := ra, proofHeight := p.proofHeight,
    finAt := (match ra with | some r => finHeight s r | none => none), viaFinalize := viaFin }

def logRelease (s : St) (p : Packet) (ra : Option Bytes) (viaFin : Bool) : St :=
  { s with log := s.log ++ [logEntry s p ra viaFin] }

-- ---------------------------------------------------------------- eIBC order creation (x/eibc/keeper/handler.go)

def newOrder (s : St) (p : Packet) (price fee : Int) (recipient : Addr) : Order :=
  { id := pkey p, trackingKey := pkey p, status := .pending, price := price, fee := fee, denom := p.denom,
    recipient := recipient, fulfiller := none, rollappId := p.rollappId, ptype := p.ptype, creationHeight := s.h,
    amount := p.amount, withBf := p.ptype == .onRecv }

/-- `CreateDemandOrderOnRecv` (memo → fee) -/
def memoFee : Memo → M Int
  | .none => .ok 0
  | .noEibc => .ok 0
  | .notJson => .error .badMemo
  | .eibcBad => .error .badMemo
  | .eibc f => if f < 0 then .error .badMemo else .ok f
  | .forward _ => .ok 0

/-- `EIBCDemandOrderHandler` for ON_RECV -/
def eibcOnRecv (s : St) (p : Packet) (memo : Memo) : M St :=
  if p.target == blockedAddr then .error .blocked else
  match memoFee memo with
  | .error e => .error e
  | .ok fee =>
    match calcPrice p.amount fee s.bridgingFee with
    | .error e => .error e
    | .ok price => .ok (setOrder s (newOrder s p price fee p.target))

/-- the fee of an order for a refund: `TimeoutFee` / `ErrAckFee` times the amount, truncated -/
def refundFee (s : St) (p : Packet) : Int :=
  ((if p.ptype == .onTimeout then s.timeoutFee else s.errAckFee).mulInt p.amount).truncateInt

/-- `EIBCDemandOrderHandler` for ON_ACK (error ack) / ON_TIMEOUT -/
def eibcOnRefund (s : St) (p : Packet) : M St :=
  if refundFee s p ≤ 0 then .ok s else
  if p.amount - refundFee s p ≤ 0 then .error .invalid else
  .ok (setOrder s (newOrder s p (p.amount - refundFee s p) (refundFee s p) p.target))

/-- `EIBCDemandOrderHandler` as a whole for ON_ACK / ON_TIMEOUT: `BlockedAddr(data.Receiver)` is applied
    to every packet type — for a packet the hub SENT `data.Receiver` is the address on the counterparty; if
    that string happens to be the bech32 of a blocked hub account the handler fails and with it the whole
    `MsgAcknowledgement` (error ack) / `MsgTimeout` above the finalized height -/
def eibcRefundHandler (s : St) (p : Packet) : M St :=
  if p.cpBlocked then .error .invalid else eibcOnRefund s p

-- ---------------------------------------------------------------- IBC callbacks (x/delayedack/ibc_middleware.go)

inductive DRef
  | foreign                -- a token of the counterparty: a voucher is minted on the hub
  | back (d : Denom)       -- a hub-side token coming back: taken out of the channel escrow
  deriving DecidableEq, Repr, Inhabited

structure RecvData where
  dref : DRef
  amount : Int
  target : Option Addr     -- none = not a bech32 address
  memo : Memo
  deriving Repr, Inhabited

/-- `async` = delayed by delayedack (nil ack, packet stored); `forwarded` = packet-forward-middleware's nil
    ack (funds received and sent on; the acknowledgement follows the forwarded packet's) -/
inductive RecvRes | replay | async | ackOk | ackErr | closed | forwarded
  deriving DecidableEq, Repr

def cpIdOf (s : St) (c : Nat) : Bytes := match s.chans[c]? with | some ch => ch.cpId | none => []
def hubIdOf (s : St) (c : Nat) : Bytes := match s.chans[c]? with | some ch => ch.hubId | none => []
def drefDenom (c : Nat) : DRef → Denom
  | .foreign => 1 + c
  | .back x => x
def drefUnescrow : DRef → Bool
  | .foreign => false
  | .back _ => true

def mkRecvPacket (s : St) (c seq ph : Nat) (rid : Bytes) (d : RecvData) (tgt : Addr) : Packet :=
  { status := .pending, rollappId := rid, proofHeight := ph, ptype := .onRecv, srcChan := cpIdOf s c, seq := seq, chan := c,
    denom := drefDenom c d.dref, unescrow := drefUnescrow d.dref, amount := d.amount, target := tgt, orig := none,
    ackErr := false, perr := none }

/-- an error acknowledgement: the callback's writes are dropped, the ack is written -/
def recvFail (s0 : St) (c seq : Nat) : St × RecvRes := (writeAck s0 c seq false, .ackErr)

/-- `TransferDataWithFinalization.Finalized` -/
def isFinalizedFor (s : St) (ra : Option Bytes) (ph : Nat) : Bool :=
  match ra with
  | none => false
  | some r => match finHeight s r with
    | some f => decide (ph ≤ f)
    | none => false

/-- not a rollapp, or already final: straight to the transfer stack -/
def recvPass (s0 : St) (c seq : Nat) (p : Packet) (ra : Option Bytes) : St × RecvRes :=
  match icsRecv s0 p ra.isSome with
  | none => recvFail s0 c seq
  | some s1 => (writeAck (logRelease s1 p ra false) c seq true, .ackOk)

/-- dry run, then `savePacket` + `EIBCDemandOrderHandler` -/
def recvDelay (s0 : St) (c seq : Nat) (p : Packet) (memo : Memo) : St × RecvRes :=
  match icsRecv s0 p true with
  | none => recvFail s0 c seq
  | some _ =>
    match eibcOnRecv (setPacket (addByAddr s0 p.target (pkey p)) p) p memo with
    | .error _ => recvFail s0 c seq
    | .ok s2 => (s2, .async)

/-- `IBCMiddleware.OnRecvPacket` (receipt already written) -/
def recvAuth (s0 : St) (c seq ph : Nat) (d : RecvData) : St × RecvRes :=
  match chanRollapp s0 c with
  | .error _ => recvFail s0 c seq
  | .ok ra =>
    if d.amount ≤ 0 then recvFail s0 c seq else
    match d.target with
    | none => recvFail s0 c seq
    | some tgt =>
      if ra.isNone || isFinalizedFor s0 ra ph then recvPass s0 c seq (mkRecvPacket s0 c seq ph (ra.getD []) d tgt) ra
      else recvDelay s0 c seq (mkRecvPacket s0 c seq ph (ra.getD []) d tgt) d.memo

def getSent (s : St) (c seq : Nat) : Option Sent := s.sent.find? (fun x => x.chan == c && x.seq == seq)

def mkSentPacket (s : St) (x : Sent) (t : PType) (ph : Nat) (rid : Bytes) (ackErr : Bool) : Packet :=
  { status := .pending, rollappId := rid, proofHeight := ph, ptype := t, srcChan := hubIdOf s x.chan, seq := x.seq, chan := x.chan,
    denom := x.denom, unescrow := x.unescrow, amount := x.amount, target := x.sender, orig := none, ackErr := ackErr, perr := none,
    fwd := x.fwd, cpBlocked := x.rcvBlocked }

def sentType (isTimeout : Bool) : PType := if isTimeout then .onTimeout else .onAck

/-- the error class of a failed refund / forward settlement: bank's "insufficient funds", or (forward
    settlement only) the acknowledgement write on the refund channel -/
def refundErr (s : St) (p : Packet) : Err :=
  match p.fwd with
  | none => .insufficient
  | some r => if (if fwdOk p then some s else fwdRefundFunds s p r.1).isNone then .insufficient else .invalid

/-- not a rollapp, or already final.  `settle`: the callback below moves funds or (forward) writes an
    acknowledgement: refund on error ack / timeout, and every acknowledgement of a forwarded packet -/
def ackPass (s0 : St) (p : Packet) (ra : Option Bytes) (settle : Bool) : M (Option St) :=
  if settle then
    match icsRefund s0 p with
    | none => .error (refundErr s0 p)
    | some s1 => .ok (some (logRelease s1 p ra false))
  else .ok (some (logRelease s0 p ra false))

/-- dry run, `savePacket`, and the eIBC order for refunds -/
def ackDelay (s0 : St) (p : Packet) (refund : Bool) : M (Option St) :=
  if (refund || p.fwd.isSome) && (icsRefund s0 p).isNone then .error (refundErr s0 p) else
  if refund && p.fwd.isNone then   -- `isForwarded`: no demand order for a packet the packet-forward middleware sent
    match eibcRefundHandler (setPacket (addByAddr s0 p.target (pkey p)) p) p with
    | .error e => .error e
    | .ok s2 => .ok (some s2)
  else .ok (some (setPacket (addByAddr s0 p.target (pkey p)) p))

/-- `IBCMiddleware.OnAcknowledgementPacket` / `OnTimeoutPacket` (commitment already deleted) -/
def ackAuth (s0 : St) (x : Sent) (ph : Nat) (isTimeout isErr : Bool) : M (Option St) :=
  match chanRollapp s0 x.chan with
  | .error e => .error e
  | .ok ra =>
    if ra.isNone || isFinalizedFor s0 ra ph then
      ackPass s0 (mkSentPacket s0 x (sentType isTimeout) ph (ra.getD []) (!isTimeout && isErr)) ra (isTimeout || isErr || x.fwd.isSome)
    else ackDelay s0 (mkSentPacket s0 x (sentType isTimeout) ph (ra.getD []) (!isTimeout && isErr)) (isTimeout || isErr)

/-- ibc-go core `AcknowledgePacket` / `TimeoutPacket` + the middleware callback.
    `isErr`: error acknowledgement (timeouts always refund).
    `.ok none` = redelivery (no commitment): no-op. -/
def ackOpen (s : St) (c seq ph : Nat) (isTimeout : Bool) (isErr : Bool) : M (Option St) :=
  if !s.commits.contains (c, seq) then .ok none else
  match getSent s c seq with
  | none => .error .internal
  | some x => ackAuth { s with commits := s.commits.filter (· != (c, seq)) } x ph isTimeout isErr

/-- `AcknowledgePacket` refuses a channel end that is not OPEN / FLUSHING; `TimeoutPacket` does not look
    at the channel state (timeouts are accepted on closed channels) -/
def ackPacket (s : St) (c seq ph : Nat) (isTimeout : Bool) (isErr : Bool) : M (Option St) :=
  if !isTimeout && s.closed.contains c then .error .chanClosed else ackOpen s c seq ph isTimeout isErr

/-- `MsgTransfer` (ibc-go transfer `sendTransfer` through the hub's ICS4 wrappers) -/
def getNextSeq (s : St) (c : Nat) : Nat :=
  match s.nextSeq.find? (·.1 == c) with
  | some x => x.2
  | none => 1

/-- escrow (or burn, for the channel's own voucher) -/
def lockCoins (s : St) (a : Addr) (c : Nat) (d : Denom) (amt : Int) : St :=
  if d != 1 + c then credit (debit s a d amt) (escrowAcct c) d amt else debit s a d amt

def recordSent (s : St) (a : Addr) (c : Nat) (d : Denom) (amt : Int) (seq : Nat) : St :=
  { s with sent := s.sent ++ [{ chan := c, seq := seq, sender := a, denom := d, unescrow := d != 1 + c, amount := amt }],
           commits := s.commits ++ [(c, seq)],
           nextSeq := (c, seq + 1) :: s.nextSeq.filter (·.1 != c) }

def sendOpen (s : St) (a : Addr) (c : Nat) (d : Denom) (amt : Int) : M St :=
  if amt ≤ 0 then .error .invalid else
  match chanRollapp s c with
  | .error e => .error e
  | .ok _ =>
    if getBal s.bal a d < amt then .error .insufficient else
    .ok (recordSent (lockCoins s a c d amt) a c d amt (getNextSeq s c))

/-- core `SendPacket` requires an OPEN channel end -/
def sendTransfer (s : St) (a : Addr) (c : Nat) (d : Denom) (amt : Int) : M St :=
  if s.closed.contains c then .error .chanClosed else sendOpen s a c d amt

-- ---------------------------------------------------------------- receive, with packet-forward-middleware

/-- the in-flight record `ForwardTransferPacket` stores under the forwarded packet's (channel, sequence) -/
def markFwd (s : St) (k q : Nat) (r : Nat × Nat) : St :=
  { s with sent := s.sent.map (fun x => if x.chan == k && x.seq == q then { x with fwd := some r } else x) }

/-- packet-forward-middleware `OnRecvPacket` for a memo with a `forward` key (below delayedack and
    denommetadata, above bridgingfee and transfer): the funds are received by the intermediate address
    (`receiveFunds`: the inner stack with the receiver overridden and the memo dropped — for a rollapp
    transfer x/bridgingfee charges the intermediate address), then sent on over hub channel `k`
    (`ForwardTransferPacket`: a `MsgTransfer` from the intermediate address), and NO acknowledgement is
    written (nil ack).  Any failure is an error acknowledgement with everything rolled back.  Under
    delayedack's dry run (rollapp packet above the finalized height) the nil ack is refused
    ("delayed ack is not supported by the underlying IBC module"), so such a packet is never delayed.
    `s0`: the receipt is written. -/
def recvForward (s0 : St) (c seq ph : Nat) (d : RecvData) (k : Nat) : St × RecvRes :=
  match recvAuth s0 c seq ph { d with target := some (pfmAddr c), memo := .none } with
  | (s1, .ackOk) =>
    match sendTransfer { s1 with acks := s0.acks } (pfmAddr c) k (drefDenom c d.dref) d.amount with
    | .ok s2 => (markFwd s2 k (getNextSeq s1 k) (c, seq), .forwarded)
    | .error _ => recvFail s0 c seq
  | _ => recvFail s0 c seq

/-- ibc-go core `RecvPacket` (channel end open) + `IBCMiddleware.OnRecvPacket` -/
def recvOpen (s : St) (c seq ph : Nat) (d : RecvData) : St × RecvRes :=
  if s.receipts.contains (c, seq) then (s, .replay) else
  match d.memo with
  | .forward k => recvForward { s with receipts := s.receipts ++ [(c, seq)] } c seq ph d k
  | _ => recvAuth { s with receipts := s.receipts ++ [(c, seq)] } c seq ph d

/-- ibc-go core `RecvPacket`: the channel state is checked before anything else -/
def recvPacket (s : St) (c seq ph : Nat) (d : RecvData) : St × RecvRes :=
  if s.closed.contains c then (s, .closed) else recvOpen s c seq ph d

-- ---------------------------------------------------------------- finalization (x/delayedack/keeper/finalize.go)

/-- eibc `delayedAckHooks.AfterPacketStatusUpdated` -/
def afterPacketStatusUpdated (s : St) (oldKey newKey : Bytes) (newStatus : Status) : St :=
  match getOrder s .pending oldKey with
  | none => s
  | some o => setOrder (delOrder s .pending o.id) { o with trackingKey := newKey, status := newStatus }

/-- `ibc.OnRecvPacket` at finalization: state after it and whether the ack is a success -/
def recvRelease (s : St) (p : Packet) : St × Bool :=
  match icsRecv s p true with
  | some s1 => (s1, true)
  | none => (s, false)

def isClosed (s : St) (c : Nat) : Bool := s.closed.contains c

/-- `writeRecvAck`: `WriteAcknowledgement` checks the channel state first, then (the capability and)
    that no acknowledgement is stored yet; its error ends up in the packet's `Error` -/
def writeRecvAck (s : St) (p : Packet) (ok : Bool) : St × Option PErr :=
  if isClosed s p.chan then (s, some .ackClosed) else
  if hasAck s p.chan p.seq then (s, some .ackExists) else (writeAck s p.chan p.seq ok, none)

/-- the text `RollappPacket.Error` gets when the callback at finalization failed -/
def refundPErr (s : St) (p : Packet) : PErr :=
  match p.fwd with
  | none => .refund (getBal s.bal (escrowAcct p.chan) p.denom) p.amount p.denom
  | some r =>
    if (if fwdOk p then some s else fwdRefundFunds s p r.1).isNone then
      (if p.denom != 1 + r.1 then .fwdMove (getBal s.bal (escrowAcct p.chan) p.denom) p.amount p.denom
       else .fwdBurn (getBal s.bal (escrowAcct p.chan) p.denom) p.amount p.denom)
    else if s.closed.contains r.1 then .ackClosed else .ackExists

/-- refund (or forward settlement) at finalization inside `ApplyFuncIfNoError`: when it fails the packet
    is finalized all the same with the error recorded, and nothing is ever paid -/
def refundRelease (s : St) (p : Packet) : St × Option PErr :=
  match icsRefund s p with
  | some s1 => (s1, none)
  | none => (s, some (refundPErr s p))

/-- success acknowledgement at finalization: nothing to do for ICS-20; packet-forward-middleware
    writes the acknowledgement of the packet it had forwarded -/
def ackRelease (s : St) (p : Packet) : St × Option PErr :=
  match p.fwd with
  | none => (s, none)
  | some _ => refundRelease s p

/-- the type switch of `finalizeRollappPacket`: run the ICS-20 callback for real;
    the second component is `packetErr` -/
def releaseEffect (s : St) (p : Packet) : St × Option PErr :=
  match p.ptype with
  | .onRecv => writeRecvAck (recvRelease s p).1 p (recvRelease s p).2
  | .onAck => if p.ackErr then refundRelease s p else ackRelease s p
  | .onTimeout => refundRelease s p
  | .undefined => (s, none)

/-- `RestoreOriginalTransferTarget`: the packet as the hub first saw it (the returned copy is what
    `writeRecvAck` acknowledges and what `OnHardFork` commits to; the caller's packet is untouched) -/
def restoreTarget (p : Packet) : Packet :=
  match p.orig with
  | some o => { p with target := o }
  | none => p

def flipped (p : Packet) : Packet := { p with status := .finalized }

/-- `UpdateRollappPacketAfterFinalization` -/
def updateAfterFinalization (s : St) (p : Packet) : M St :=
  if p.status != .pending then .error .notPending else
  .ok (afterPacketStatusUpdated (setPacket (delPacket (delByAddr s p.target (pkey p)) (pkey p)) (flipped p))
        (pkey p) (pkey (flipped p)) .finalized)

/-- the packet as `finalizeRollappPacket` hands it to `UpdateRollappPacketAfterFinalization`:
    `Error` is set when the callback failed; it still names the current beneficiary -/
def finalizedRecord (p : Packet) (e : Option PErr) : Packet :=
  { p with perr := match e with | some x => some x | none => p.perr }

/-- `FinalizeRollappPacket` -/
def finalizePacket (s : St) (k : Bytes) : M St :=
  match getPacket s k with
  | none => .error .notFound
  | some p =>
    match verifyHeightFinalized s p.rollappId p.proofHeight with
    | .error e => .error e
    | .ok _ =>
      updateAfterFinalization (logRelease (releaseEffect s p).1 p (some p.rollappId) true) (finalizedRecord p (releaseEffect s p).2)

/-- `MsgFinalizePacket` (the sender is not used) -/
def msgFinalize (s : St) (_sender : Addr) (rid : Bytes) (ph : Nat) (t : PType) (src : Bytes) (seq : Nat) : M St :=
  if rid.isEmpty || src.isEmpty then .error .invalid else
  finalizePacket s (rollappPacketKey .pending rid ph t src seq)

/-- `MsgFinalizePacketByPacketKey` -/
def msgFinalizeByKey (s : St) (_sender : Addr) (b64 : Bytes) : M St :=
  if b64.isEmpty then .error .invalid else
  match decodePacketKeyExact b64 with
  | none => .error .badKey
  | some k => finalizePacket s k

-- ---------------------------------------------------------------- fulfilment (x/eibc/keeper)

def retarget (p : Packet) (addr : Addr) : Packet := { p with target := addr, orig := some p.target }

/-- `UpdateRollappPacketTransferAddress` -/
def updateTransferAddress (s : St) (k : Bytes) (addr : Addr) : M St :=
  match getPacket s k with
  | none => .error .notFound
  | some p =>
    if p.status != .pending then .error .notPending else
    .ok (setPacket (addByAddr (delByAddr s p.target k) addr (pkey (retarget p addr))) (retarget p addr))

/-- `GetOutstandingOrder` -/
def getOutstanding (s : St) (id : Bytes) : M Order :=
  match getOrder s .pending id with
  | none => .error .notFound
  | some o =>
    match getPacket s o.trackingKey with
    | none => .error .notFound
    | some p =>
      match verifyHeightFinalized s o.rollappId p.proofHeight with
      | .ok _ => .error .inactive
      | .error _ =>
        if o.fulfiller.isSome then .error .fulfilled else
        if o.status != .pending then .error .inactive else .ok o

/-- `SetOrderFulfilled` + delayedack `AfterDemandOrderFulfilled` -/
def setOrderFulfilled (s : St) (o : Order) (fulfiller : Addr) (collector : Option Addr) : M St :=
  updateTransferAddress (setOrder s { o with fulfiller := some fulfiller }) o.trackingKey (collector.getD fulfiller)

/-- `Keeper.Fulfill` -/
def fulfillCore (s : St) (o : Order) (fulfiller : Addr) : M St :=
  if !s.accts.contains fulfiller then .error .noAccount else
  match sendCoins s fulfiller o.recipient o.denom o.price with
  | none => .error .insufficient
  | some s1 => setOrderFulfilled s1 o fulfiller none

/-- `MsgFulfillOrder` -/
def msgFulfill (s : St) (fulfiller : Addr) (id : Bytes) (expectedFee : Int) : M St :=
  if expectedFee < 0 then .error .invalid else
  match getOutstanding s id with
  | .error e => .error e
  | .ok o => if o.fee != expectedFee then .error .feeMismatch else fulfillCore s o fulfiller

/-- `MsgUpdateDemandOrder` -/
def msgUpdateFee (s : St) (sender : Addr) (id : Bytes) (newFee : Int) : M St :=
  if newFee < 0 then .error .invalid else
  match getOutstanding s id with
  | .error e => .error e
  | .ok o =>
    if sender != o.recipient then .error .unauthorized else
    match getPacket s o.trackingKey with
    | none => .error .notFound
    | some p =>
      match calcPrice p.amount newFee (if p.ptype == .onRecv then s.bridgingFee else Dec.zero) with
      | .error e => .error e
      | .ok price => .ok (setOrder s { o with fee := newFee, price := price, amount := p.amount, withBf := p.ptype == .onRecv })

-- ---------------------------------------------------------------- on-demand LPs (x/eibc/keeper/lps.go, types/lp.go)

/-- `OnDemandLPRecord.MaxSpend` -/
def lpMaxSpend (l : LP) : Int := min l.maxPrice (l.spendLimit - l.spent)

/-- `OnDemandLPRecord.Accepts` (the age is a uint64 subtraction) -/
def lpAccepts (l : LP) (now : Nat) (o : Order) : Bool :=
  decide (o.price ≤ lpMaxSpend l) && decide (l.minFee ≤ o.fee) &&
  decide (l.minAge ≤ (now + 2 ^ 64 - o.creationHeight) % 2 ^ 64)

/-- `GetOrderCompatibleLPs`: the (rollapp, denom) index scanned in id order -/
def compatibleLPs (s : St) (o : Order) : List LP :=
  s.lps.filter (fun l => l.rollappId == o.rollappId && l.denom == o.denom && lpAccepts l s.h o)

def getLp (s : St) (id : Nat) : Option LP := s.lps.find? (·.id == id)
def delLp (s : St) (id : Nat) : St := { s with lps := s.lps.filter (·.id != id) }
def insertLp (l : LP) : List LP → List LP
  | [] => [l]
  | q :: qs => if l.id < q.id then l :: q :: qs else q :: insertLp l qs
def setLp (s : St) (l : LP) : St := { s with lps := insertLp l (s.lps.filter (·.id != l.id)) }

/-- `MsgCreateOnDemandLP` (`OnDemandLP.Validate`; `rollappOk`/`denomOk` stand for the id / denom syntax checks) -/
def msgCreateLp (s : St) (l : LP) (syntaxOk : Bool) : M St :=
  if !syntaxOk then .error .invalid else
  if l.maxPrice ≤ 0 || l.minFee < 0 || l.spendLimit ≤ 0 then .error .invalid else
  .ok { (setLp s { l with id := s.nextLp, spent := 0 }) with nextLp := s.nextLp + 1 }

/-- `MsgDeleteOnDemandLP` -/
def msgDeleteLps (s : St) (owner : Addr) : List Nat → M St
  | [] => .ok s
  | id :: rest =>
    match getLp s id with
    | none => msgDeleteLps s owner rest
    | some l => if l.addr != owner then .error .notOwner else msgDeleteLps (delLp s id) owner rest

/-- the loop of `FulfillByOnDemandLP` over the shuffled compatible LPs -/
def onDemandLoop (s : St) (o : Order) : List LP → M St
  | [] => .error .noLp
  | l :: rest =>
    match fulfillCore s o l.addr with
    | .error .insufficient =>
      match getLp s l.id with
      | none => .error .internal
      | some _ => onDemandLoop (delLp s l.id) o rest
    | .error e => .error e
    | .ok s1 => .ok (setLp s1 { l with spent := l.spent + o.price })

def applyPerm (perm : List Nat) (l : List LP) : List LP :=
  if perm.length = l.length then perm.filterMap (l[·]?) else l

/-- `MsgTryFulfillOnDemand`; `perm` is the permutation `rand.Shuffle` produced for the message's rng -/
def msgOnDemand (s : St) (id : Bytes) (perm : List Nat) : M St :=
  match getOutstanding s id with
  | .error e => .error e
  | .ok o => onDemandLoop s o (applyPerm perm (compatibleLPs s o))

-- ---------------------------------------------------------------- authorised fulfilment (types/fulfill_order_authorization.go, msg_server.go)

def coinsAmountOf (c : Coins) (d : Denom) : Int :=
  match c.find? (·.1 == d) with
  | some x => x.2
  | none => 0

def coinsIsZero (c : Coins) : Bool := c.all (·.2 == 0)

/-- `Coins.SafeSub`: a − b and "some coin went negative" (zero coins are dropped) -/
def coinsMerge (a b : Coins) : Coins :=
  a.map (fun x => (x.1, x.2 - coinsAmountOf b x.1)) ++ (b.filter (fun y => !(a.any (·.1 == y.1)))).map (fun y => (y.1, -y.2))

def coinsSafeSub (a b : Coins) : Coins × Bool :=
  ((coinsMerge a b).filter (·.2 != 0), (coinsMerge a b).any (·.2 < 0))

/-- `exceedsMaxPrice` -/
def exceedsMaxPrice (price maxPrice : Coins) : Bool :=
  price.any (fun c => coinsAmountOf maxPrice c.1 != 0 && decide (coinsAmountOf maxPrice c.1 < c.2))

structure AuthMsg where
  orderId : Bytes
  rollappId : Bytes
  price : Coins
  amount : Int
  lp : Addr
  opAddr : Addr
  expectedFee : Int
  share : Dec
  sv : Bool
  deriving Repr, Inhabited

/-- `FulfillOrderAuthorization.Accept`: `.ok none` = accept and delete the grant,
    `.ok (some g)` = accept and store g -/
def grantMinFee (c : Criteria) (amount : Int) : Int := (c.minFeePct.mulInt amount).truncateInt

/-- the grant after spending: the criteria's limit reduced, the criteria removed when nothing is left -/
def spendCriteria (g : Grant) (rid : Bytes) (left : Coins) : List Criteria :=
  if coinsIsZero left then g.crit.filter (·.rollappId != rid)
  else g.crit.map (fun x => if x.rollappId == rid then { x with spendLimit := left } else x)

def acceptSpend (g : Grant) (c : Criteria) (m : AuthMsg) : M (Option Grant) :=
  if !coinsIsZero c.spendLimit then
    if (coinsSafeSub c.spendLimit m.price).2 then .error .insufficient else
    if (spendCriteria g m.rollappId (coinsSafeSub c.spendLimit m.price).1).isEmpty then .ok none
    else .ok (some { g with crit := spendCriteria g m.rollappId (coinsSafeSub c.spendLimit m.price).1 })
  else .ok (some g)

def acceptGrant (g : Grant) (m : AuthMsg) : M (Option Grant) :=
  match g.crit.find? (·.rollappId == m.rollappId) with
  | none => .error .unauthorized
  | some c =>
    if c.sv != m.sv then .error .unauthorized else
    if c.opShare != m.share then .error .unauthorized else
    if !c.denoms.isEmpty && m.price.any (fun x => !c.denoms.contains x.1) then .error .unauthorized else
    if m.expectedFee < grantMinFee c m.amount then .error .unauthorized else
    if !coinsIsZero c.maxPrice && exceedsMaxPrice m.price c.maxPrice then .error .unauthorized else
    acceptSpend g c m

def getGrant (s : St) (granter grantee : Addr) : Option Grant :=
  s.grants.find? (fun g => g.granter == granter && g.grantee == grantee)

def delGrant (s : St) (granter grantee : Addr) : St :=
  { s with grants := s.grants.filter (fun g => !(g.granter == granter && g.grantee == grantee)) }

def setGrant (s : St) (g : Grant) : St := { (delGrant s g.granter g.grantee) with grants := (delGrant s g.granter g.grantee).grants ++ [g] }

/-- `checkIfSettlementValidated` -/
def settlementValidated (s : St) (o : Order) : M Bool :=
  match getPacket s o.trackingKey with
  | none => .error .notFound
  | some p =>
    match getRa s o.rollappId with
    | none => .error .noState
    | some r =>
      match raLatest r with
      | none => .error .noState
      | some l => .ok (decide (p.proofHeight ≤ l))

/-- `validateOrder` -/
def validateOrder (s : St) (o : Order) (m : AuthMsg) : M Unit :=
  if o.rollappId != m.rollappId then .error .rollappMismatch else
  if m.price != [(o.denom, o.price)] then .error .priceMismatch else
  if o.fee != m.expectedFee then .error .feeMismatch else
  if m.sv then
    match settlementValidated s o with
    | .error e => .error e
    | .ok v => if v then .ok () else .error .notValidated
  else .ok ()

/-- `MsgFulfillOrderAuthorized.ValidateBasic` -/
def authMsgValid (m : AuthMsg) : Bool :=
  decide (0 ≤ m.expectedFee) && m.price.all (fun c => decide (0 < c.2)) && decide (0 < m.amount) &&
  !m.share.isNegative && Dec.le m.share Dec.one

/-- the operator's part of the fee: `fee.MulTruncate(share).TruncateInt()` -/
def operatorFee (fee : Int) (share : Dec) : Int := ((Dec.ofInt fee).mulTruncate share).truncateInt

def payOperator (s : St) (lp op : Addr) (d : Denom) (opFee : Int) : Option St :=
  if 0 < opFee then sendCoins s lp op d opFee else some s

/-- the handler `FulfillOrderAuthorized` -/
def fulfillAuthorizedCore (s : St) (m : AuthMsg) : M St :=
  match getOutstanding s m.orderId with
  | .error e => .error e
  | .ok o =>
    match validateOrder s o m with
    | .error e => .error e
    | .ok _ =>
      if !s.accts.contains m.lp then .error .noAccount else
      match sendCoins s m.lp o.recipient o.denom o.price with
      | none => .error .insufficient
      | some s1 =>
        if !s1.accts.contains m.opAddr then .error .noAccount else
        match payOperator s1 m.lp m.opAddr o.denom (operatorFee o.fee m.share) with
        | none => .error .insufficient
        | some s2 => setOrderFulfilled s2 o m.opAddr (some m.lp)

/-- authz `MsgExec` by `grantee` carrying one `MsgFulfillOrderAuthorized` (`DispatchActions`);
    the whole message is atomic -/
def msgFulfillAuthorized (s : St) (grantee : Addr) (m : AuthMsg) : M St :=
  if !authMsgValid m then .error .invalid else
  if m.lp == grantee then fulfillAuthorizedCore s m else
  match getGrant s m.lp grantee with
  | none => .error .noGrant
  | some g =>
    match acceptGrant g m with
    | .error e => .error e
    | .ok none => fulfillAuthorizedCore (delGrant s m.lp grantee) m
    | .ok (some g') => fulfillAuthorizedCore (setGrant s g') m

/-- `FulfillOrderAuthorization.ValidateBasic` (rollapp-id syntax and duplicate checks are the caller's) -/
def critValid (c : Criteria) : Bool :=
  !c.minFeePct.isNegative && Dec.le c.minFeePct Dec.one && !c.opShare.isNegative && Dec.le c.opShare Dec.one &&
  c.maxPrice.all (fun x => decide (0 < x.2)) && c.spendLimit.all (fun x => decide (0 < x.2))

def hasDupIds : List Bytes → Bool
  | [] => false
  | x :: xs => xs.contains x || hasDupIds xs

/-- `MsgGrant` with a `FulfillOrderAuthorization` -/
def msgGrant (s : St) (g : Grant) : M St :=
  if g.granter == g.grantee then .error .invalid else
  if !g.crit.all critValid then .error .invalid else
  if hasDupIds (g.crit.map (·.rollappId)) then .error .invalid else
  .ok (setGrant s g)

-- ---------------------------------------------------------------- packet deletion: epoch hook, hard fork

/-- `DeleteRollappPacket` + eibc `AfterPacketDeleted` -/
def pendKeyOf (p : Packet) : Bytes := pkey { p with status := .pending }

def deletePacket (s : St) (p : Packet) : St :=
  delOrder (delOrder (delByAddr (delPacket s (pkey p)) p.target (pkey p)) .pending (pendKeyOf p)) .finalized (pendKeyOf p)

/-- delayedack `epochHooks.AfterEpochEnd`: all FINALIZED packets go (one batch: fewer than 1000) -/
def epochCleanup (s : St) : St :=
  (s.packets.filter (·.status == .finalized)).foldl deletePacket s

/-- delayedack `OnHardFork`: pending packets of the rollapp with proof height in
    `[lastValid+1, 2^64-1)` are deleted; commitments restored / receipts cleared.
    The restored commitment is that of the packet with its original transfer target
    (`CommitPacket(RestoreOriginalTransferTarget().Packet)`): `restored` is the ghost record of whose
    refund it stands for. -/
def revertIbc (s : St) (p : Packet) : St :=
  if p.ptype == .onRecv then { s with receipts := s.receipts.filter (· != (p.chan, p.seq)) }
  else { s with commits := if s.commits.contains (p.chan, p.seq) then s.commits else s.commits ++ [(p.chan, p.seq)],
                restored := s.restored ++ [((p.chan, p.seq), (restoreTarget p).target)] }

def revertPacket (s : St) (p : Packet) : St := deletePacket (revertIbc s p) p

def forkRange (rid : Bytes) (lastValid : Nat) (k : Bytes) : Bool :=
  inRange (pendingFromHeightRange rid ((lastValid + 1) % 2 ^ 64)).1 (pendingFromHeightRange rid ((lastValid + 1) % 2 ^ 64)).2 k

def onHardFork (s : St) (rid : Bytes) (lastValid : Nat) : St :=
  (s.packets.filter (fun p => forkRange rid lastValid (pkey p))).foldl revertPacket s

def cutHeights (hs : List Nat) (lastValid : Nat) : List Nat :=
  if (hs.filter (· ≤ lastValid)).getLast? == some lastValid then hs.filter (· ≤ lastValid)
  else hs.filter (· ≤ lastValid) ++ [lastValid]

/-- the rollapp side of a fork as the harness writes it: state infos above `lastValid` go, the one
    containing `lastValid + 1` is cut.  Refused below the finalized height. -/
def forkRollapp (s : St) (rid : Bytes) (lastValid : Nat) : M St :=
  match getRa s rid with
  | none => .error .notFound
  | some r =>
    if lastValid = 0 || (raFin r).getD 0 > lastValid then .error .invalid else
    match raLatest r with
    | none => .error .invalid
    | some l =>
      if l ≤ lastValid then .error .invalid else
      .ok (onHardFork (setRa s { r with heights := cutHeights r.heights lastValid }) rid lastValid)

/-- a new state info up to height `h` (stands for an accepted MsgUpdateState) -/
def addState (s : St) (rid : Bytes) (n : Nat) : M St :=
  match getRa s rid with
  | none => .error .notFound
  | some r => if n = 0 then .error .invalid else .ok (setRa s { r with heights := r.heights ++ [(raLatest r).getD 0 + n] })

/-- the next pending state info becomes final (stands for M-Core's end-block finalization) -/
def finalizeState (s : St) (rid : Bytes) : M St :=
  match getRa s rid with
  | none => .error .notFound
  | some r => if r.nFin < r.heights.length then .ok (setRa s { r with nFin := r.nFin + 1 }) else .error .invalid

-- ---------------------------------------------------------------- operations

inductive Op
  | recv (c seq ph : Nat) (d : RecvData)
  | send (a : Addr) (c : Nat) (d : Denom) (amt : Int)
  | ack (c seq ph : Nat) (isErr : Bool)
  | timeout (c seq ph : Nat)
  | finalize (sender : Addr) (rid : Bytes) (ph : Nat) (t : PType) (src : Bytes) (seq : Nat)
  | finalizeByKey (sender : Addr) (b64 : Bytes)
  | fulfill (a : Addr) (id : Bytes) (fee : Int)
  | fulfillAuth (grantee : Addr) (m : AuthMsg)
  | onDemand (sender : Addr) (id : Bytes) (perm : List Nat)
  | updateFee (a : Addr) (id : Bytes) (fee : Int)
  | createLp (l : LP) (syntaxOk : Bool)
  | deleteLps (a : Addr) (ids : List Nat)
  | grant (g : Grant)
  | addState (rid : Bytes) (n : Nat)
  | finalizeState (rid : Bytes)
  | fork (rid : Bytes) (h : Nat)
  | epoch
  | block
  | chanClose (c : Nat)
  | chanOpen (c : Nat)
  | timeoutOnClose (c seq : Nat)
  | sendBlk (a : Addr) (c : Nat) (d : Denom) (amt : Int)   -- `MsgTransfer` whose receiver string is a blocked hub account's bech32
  deriving Repr, Inhabited

/-- the channel end's state is written: CLOSED (`ChanCloseConfirm`) or OPEN again -/
def setChanClosed (s : St) (c : Nat) (closed : Bool) : M St :=
  if s.chans.length ≤ c then .error .invalid else
  .ok { s with closed := if closed then (if s.closed.contains c then s.closed else s.closed ++ [c]) else s.closed.filter (· != c) }

def markBlk (s : St) (k q : Nat) : St :=
  { s with sent := s.sent.map (fun x => if x.chan == k && x.seq == q then { x with rcvBlocked := true } else x) }

def sendBlk (s : St) (a : Addr) (c : Nat) (d : Denom) (amt : Int) : M St :=
  match sendTransfer s a c d amt with
  | .ok s1 => .ok (markBlk s1 c (getNextSeq s c))
  | .error e => .error e

/-- `MsgTimeoutOnClose`: `IBCProofHeightDecorator` (app/ante) stashes a proof height for `MsgRecvPacket`,
    `MsgAcknowledgement` and `MsgTimeout` only, so delayedack's `OnTimeoutPacket` finds none
    (`UnpackPacketProofHeight`: `gerrc.ErrInternal`, before the channel is even looked at) and the whole
    message fails — on rollapp channels and on plain ones alike.  (Redelivery is core's no-op before that.) -/
def timeoutOnClose (s : St) (c seq : Nat) : M St :=
  if !s.commits.contains (c, seq) then .ok s else .error .internal

inductive Out
  | ok | err (e : Err) | recv (r : RecvRes) | replay
  deriving DecidableEq, Repr

def ofM (s : St) : M St → St × Out
  | .ok s' => (s', .ok)
  | .error e => (s, .err e)

/-- one operation; a failed message leaves the state untouched (baseapp's cache context) -/
def step (s : St) : Op → St × Out
  | .recv c seq ph d => ((recvPacket s c seq ph d).1, .recv (recvPacket s c seq ph d).2)
  | .send a c d amt => ofM s (sendTransfer s a c d amt)
  | .ack c seq ph isErr =>
    match ackPacket s c seq ph false isErr with
    | .ok none => (s, .replay)
    | .ok (some s') => (s', .ok)
    | .error e => (s, .err e)
  | .timeout c seq ph =>
    match ackPacket s c seq ph true true with
    | .ok none => (s, .replay)
    | .ok (some s') => (s', .ok)
    | .error e => (s, .err e)
  | .finalize a rid ph t src seq => ofM s (msgFinalize s a rid ph t src seq)
  | .finalizeByKey a b => ofM s (msgFinalizeByKey s a b)
  | .fulfill a id fee => ofM s (msgFulfill s a id fee)
  | .fulfillAuth g m => ofM s (msgFulfillAuthorized s g m)
  | .onDemand _ id perm => ofM s (msgOnDemand s id perm)
  | .updateFee a id fee => ofM s (msgUpdateFee s a id fee)
  | .createLp l ok => ofM s (msgCreateLp s l ok)
  | .deleteLps a ids => ofM s (msgDeleteLps s a ids)
  | .grant g => ofM s (msgGrant s g)
  | .addState rid n => ofM s (addState s rid n)
  | .finalizeState rid => ofM s (finalizeState s rid)
  | .fork rid h => ofM s (forkRollapp s rid h)
  | .epoch => (epochCleanup s, .ok)
  | .block => ({ s with h := s.h + 1 }, .ok)
  | .chanClose c => ofM s (setChanClosed s c true)
  | .chanOpen c => ofM s (setChanClosed s c false)
  | .timeoutOnClose c seq => ofM s (timeoutOnClose s c seq)
  | .sendBlk a c d amt => ofM s (sendBlk s a c d amt)

def run (s : St) (ops : List Op) : St := ops.foldl (fun s o => (step s o).1) s

/-- the configuration the harness sets up: rollapps r0 r1, channels c0 (r0, canonical), c1 (r1,
    canonical), c2 (plain chain), c3 (r0's client, not its canonical channel) -/
def initSt (nActors : Nat) (fund : Int) (bridgingFee timeoutFee errAckFee : Dec) (ra0 ra1 : Bytes) (chans : List Chan) : St :=
  { h := 1, bridgingFee := bridgingFee, timeoutFee := timeoutFee, errAckFee := errAckFee,
    chans := chans, ras := [{ id := ra0, heights := [], nFin := 0 }, { id := ra1, heights := [], nFin := 0 }],
    packets := [], byAddr := [], orders := [], lps := [], nextLp := 0, grants := [],
    bal := (List.range nActors).flatMap (fun a => (List.range 5).map (fun d => ((a, d), fund))), accts := List.range nActors,
    receipts := [], commits := [], sent := [], nextSeq := [], acks := [], log := [], closed := [], restored := [] }

end DymVerif.Packets
