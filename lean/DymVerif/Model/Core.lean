/-
  Model/Core (M-Core) — executable model of x/rollapp (state updates, finalization queue, hard fork,
  liveness) and x/sequencer (bonds, proposer / successor, rotation, kick, punish) as wired together
  by the production hooks.  Mirrors the Go code as it is; see the per-function references.
  Core Lean only.  Addresses and rollapp ids are `Nat`s whose numeric order is the byte order of the
  real bech32 addresses / ids (the harness names actors and rollapps in that order).
-/
import DymVerif.Base.Dec
namespace DymVerif.Core

abbrev Addr := Nat

/-- `StateInfo.NextProposer`: "" | "sentinel" | an address -/
inductive NextP
  | empty | sentinel | addr (a : Addr)
  deriving DecidableEq, Repr, Inhabited

structure BD where
  height : Nat
  hasTs : Bool
  drs : Nat
  rootOk : Bool
  deriving DecidableEq, Repr, Inhabited

structure SInfo where
  creator : Addr
  start : Nat
  num : Nat
  creationHeight : Nat
  finalized : Bool
  next : NextP
  bds : List BD
  -- ghost (not observable): revision number the update was accepted under, hub height of finalization
  accRev : Nat
  finalizedAt : Nat
  deriving DecidableEq, Repr, Inhabited

def SInfo.last (s : SInfo) : Nat := if 0 < s.start + s.num then s.start + s.num - 1 else 0
def SInfo.contains (s : SInfo) (h : Nat) : Bool := s.start ≤ h && h ≤ s.last

structure Seq where
  addr : Addr
  rollapp : Nat
  bonded : Bool
  optedIn : Bool
  tokens : Nat
  dishonor : Nat
  notice : Option Nat          -- NoticePeriodTime (none = zero time)
  deriving DecidableEq, Repr, Inhabited

structure Rollapp where
  id : Nat
  owner : Addr
  minBond : Nat
  launched : Bool
  revs : List (Nat × Nat)       -- (number, startHeight), oldest first
  states : List SInfo           -- state index i is position i-1
  lastFin : Nat                 -- latest finalized state index, 0 = none
  tph : Nat                     -- GenesisState.TransferProofHeight
  evH : Nat                     -- LivenessEventHeight
  cdStart : Nat                 -- LivenessCountdownStartHeight
  proposer : Option Addr        -- none = sentinel
  successor : Option Addr
  deriving Repr, Inhabited

structure Params where
  dispute : Nat
  lsBlocks : Nat
  lsInterval : Nat
  lsMul : Dec
  lsAbs : Nat
  dishonorSU : Nat
  dishonorL : Nat
  kickThr : Nat
  noticePeriod : Nat
  deriving Repr, Inhabited

/-- the x/sequencer module parameters (`MsgUpdateParams` rewrites them: `Op.setSeqParams`); the x/rollapp
    ones (`dispute`, `lsBlocks`, `lsInterval`) stay in `Params` and are constant over a history -/
structure SeqParams where
  noticePeriod : Nat
  kickThr : Nat
  lsMul : Dec
  lsAbs : Nat
  dishonorSU : Nat
  dishonorL : Nat
  deriving Repr, Inhabited

/-- the sequencer part of the initial parameter set -/
def Params.seq (p : Params) : SeqParams :=
  { noticePeriod := p.noticePeriod, kickThr := p.kickThr, lsMul := p.lsMul, lsAbs := p.lsAbs,
    dishonorSU := p.dishonorSU, dishonorL := p.dishonorL }

structure QEntry where
  ch : Nat          -- creation height
  ra : Nat          -- rollapp id
  idx : List Nat    -- state indices
  deriving DecidableEq, Repr, Inhabited

structure St where
  h : Nat
  t : Nat
  p : Params                       -- as given at genesis; the x/rollapp part is what the handlers read
  sqp : SeqParams                  -- x/sequencer params in force (initially `p.seq`)
  ras : List Rollapp
  seqs : List Seq
  queue : List QEntry              -- sorted by (ch, ra)
  seqH : List (Addr × Nat)         -- unfinalized (sequencer, rollapp height) pairs, sorted
  lev : List (Nat × Nat)           -- liveness events (hub height, rollapp), sorted
  obsolete : List Nat
  nq : List (Nat × Addr)           -- notice queue (time, sequencer), sorted
  bal : List (Addr × Nat)
  modBal : Nat                     -- sequencer module account, bond denom
  burned : Nat
  deriving Repr, Inhabited

inductive Err
  | unknownRollapp | notProposer | badLast | wrongRevision | noTimestamp | wrongHeight | obsolete
  | badBlocks | badSequence | badRoot | forkNotAllowed | finalizedHeight | noState | internal
  | unknownSeq | exists_ | badDenom | insufficientBond | insufficientFunds | notInitialSeq
  | unbondNotAllowed | proposerOrSuccessor | rotationInProgress | noticeInProgress | noticeStarted
  | notPotential | notKickable | noProposerFound | unauthorized | invalid | panic
  | blockedRecipient
  deriving DecidableEq, Repr, Inhabited

abbrev M := Except Err

-- ---------------------------------------------------------------- generic list helpers

def insertSorted {α} (lt : α → α → Bool) (x : α) : List α → List α
  | [] => [x]
  | y :: ys => if lt x y then x :: y :: ys else if lt y x then y :: insertSorted lt x ys else x :: ys

def ltPair (a b : Nat × Nat) : Bool := a.1 < b.1 || (a.1 == b.1 && a.2 < b.2)

def getBal (b : List (Addr × Nat)) (a : Addr) : Nat :=
  match b.find? (·.1 == a) with
  | some x => x.2
  | none => 0

def setBal (b : List (Addr × Nat)) (a : Addr) (v : Nat) : List (Addr × Nat) :=
  if b.any (·.1 == a) then b.map (fun x => if x.1 == a then (a, v) else x) else b ++ [(a, v)]

-- ---------------------------------------------------------------- accessors

def getRa (s : St) (id : Nat) : Option Rollapp := s.ras.find? (·.id == id)

def setRa (s : St) (r : Rollapp) : St :=
  { s with ras := s.ras.map (fun x => if x.id == r.id then r else x) }

def getSeq (s : St) (a : Addr) : Option Seq := s.seqs.find? (·.addr == a)

def setSeq (s : St) (q : Seq) : St :=
  { s with seqs := s.seqs.map (fun x => if x.addr == q.addr then q else x) }

def latestHeight (r : Rollapp) : Option Nat := r.states.getLast?.map (·.last)

def latestRev (r : Rollapp) : Nat := (r.revs.getLast?.map (·.1)).getD 0

/-- `Rollapp.GetRevisionForHeight` -/
def revForHeight (r : Rollapp) (h : Nat) : Nat :=
  match (r.revs.reverse.find? (fun x => x.2 ≤ h)) with
  | some x => x.1
  | none => 0

def noticeElapsed (q : Seq) (now : Nat) : Bool :=
  match q.notice with
  | some t => t ≤ now
  | none => false

def noticeInProgress (q : Seq) (now : Nat) : Bool :=
  match q.notice with
  | some t => now < t
  | none => false

/-- `AwaitingLastProposerBlock` -/
def awaitingLast (s : St) (r : Rollapp) : Bool :=
  match r.proposer with
  | none => false
  | some a => match getSeq s a with
    | some q => noticeElapsed q s.t
    | none => false

-- ---------------------------------------------------------------- liveness (x/rollapp/keeper/liveness.go)

/-- `NextSlashHeight` (uint64(heightHub - last) with heightHub ≥ last) -/
def nextSlashHeight (noUpdate interval hub last : Nat) : Nat :=
  let down := hub - last
  let iv := if noUpdate ≤ down then noUpdate + ((down - noUpdate) / interval + 1) * interval else noUpdate
  last + iv

def delEvent (lev : List (Nat × Nat)) (h ra : Nat) : List (Nat × Nat) := lev.filter (fun e => !(e.1 == h && e.2 == ra))

/-- `ResetLivenessClock` -/
def resetClock (s : St) (r : Rollapp) : St × Rollapp :=
  ({ s with lev := delEvent s.lev r.evH r.id }, { r with evH := 0, cdStart := s.h })

/-- `ScheduleLivenessEvent` -/
def scheduleEvent (s : St) (r : Rollapp) : St × Rollapp :=
  let n := nextSlashHeight s.p.lsBlocks s.p.lsInterval s.h r.cdStart
  ({ s with lev := insertSorted ltPair (n, r.id) s.lev }, { r with evH := n })

/-- `IndicateLiveness` followed by `SetRollapp` -/
def indicateLiveness (s : St) (r : Rollapp) : St :=
  let x := resetClock s r
  let y := scheduleEvent x.1 x.2
  setRa y.1 y.2

-- ---------------------------------------------------------------- proposer choice (x/sequencer/keeper/rotation.go)

/-- `ProposerChoiceAlgo` over `RollappPotentialProposers`: bonded ∧ opted-in sequencers of the rollapp
    in address order, stable-sorted by tokens descending, sentinel (0 tokens) appended last:
    the first maximal element wins; `none` = sentinel. -/
def choose (s : St) (ra : Nat) : Option Addr :=
  let cands := s.seqs.filter (fun q => q.rollapp == ra && q.bonded && q.optedIn)
  let best := cands.foldl (fun (acc : Option Seq) q =>
    match acc with
    | none => some q
    | some b => if b.tokens < q.tokens then some q else some b) none
  best.map (·.addr)

/-- set `NextProposer` of the latest state info (if any) -/
def setLastNext (l : List SInfo) (n : NextP) : List SInfo :=
  match l.reverse with
  | [] => l
  | x :: rest => (({ x with next := n }) :: rest).reverse

/-- rollapp hook `AfterSetRealProposer` -/
def afterSetRealProposer (s : St) (ra : Nat) (newP : Addr) : St :=
  match getRa s ra with
  | none => s
  | some r =>
    match getRa (indicateLiveness s r) ra with
    | none => indicateLiveness s r
    | some r1 => setRa (indicateLiveness s r) { r1 with states := setLastNext r1.states (NextP.addr newP) }

/-- `RecoverFromSentinel` -/
def recoverFromSentinel (s : St) (ra : Nat) : M St :=
  match getRa s ra with
  | none => .error .unknownRollapp
  | some r =>
    if r.proposer.isSome then .error .internal else
    match choose s ra with
    | none => .error .noProposerFound
    | some a => .ok (afterSetRealProposer (setRa s { r with proposer := some a }) ra a)

-- ---------------------------------------------------------------- hard fork (x/rollapp/keeper/hard_fork.go)

/-- `FindStateInfoByHeight` (binary search over indices 1..n, fuel = n+1) returning the 1-based index -/
def findByHeightAux (states : List SInfo) (h : Nat) : Nat → Nat → Nat → Option Nat
  | 0, _, _ => none
  | fuel + 1, lo, hi =>
    if lo ≤ hi then
      let mid := lo + (hi - lo) / 2
      match states[mid - 1]? with
      | none => none
      | some st =>
        if st.contains h then some mid
        else if h < st.start then findByHeightAux states h fuel lo (mid - 1)
        else findByHeightAux states h fuel (mid + 1) hi
    else none

def findByHeight (r : Rollapp) (h : Nat) : Option Nat :=
  if h = 0 then none else
  match r.states.getLast? with
  | none => none
  | some l => if l.last < h then none else findByHeightAux r.states h (r.states.length + 1) 1 r.states.length

def removeIdxAbove (q : List QEntry) (ra keep : Nat) : List QEntry :=
  (q.map (fun e => if e.ra == ra then { e with idx := e.idx.filter (· ≤ keep) } else e)).filter
    (fun e => !(e.ra == ra && e.idx.isEmpty))

/-- `PruneSequencerHeights` for the given creators: pairs above `h` are removed -/
def pruneSeqHeights (sh : List (Addr × Nat)) (creators : List Addr) (h : Nat) : List (Addr × Nat) :=
  sh.filter (fun p => !(creators.contains p.1 && h < p.2))

/-- `optOutAllSequencers` -/
def optOutAll (s : St) (ra : Nat) : St :=
  { s with seqs := s.seqs.map (fun q => if q.rollapp == ra then { q with optedIn := false } else q) }

/-- `removeFromNoticeQueue` -/
def removeFromNoticeQueue (s : St) (q : Seq) : St :=
  match q.notice with
  | some t => { s with nq := s.nq.filter (fun e => !(e.1 == t && e.2 == q.addr)) }
  | none => s

def setProposer (s : St) (ra : Nat) (a : Option Addr) : St :=
  match getRa s ra with
  | none => s
  | some r => setRa s { r with proposer := a }

def setSuccessor (s : St) (ra : Nat) (a : Option Addr) : St :=
  match getRa s ra with
  | none => s
  | some r => setRa s { r with successor := a }

/-- `abruptRemoveProposer`: take the proposer out of the notice queue, unbond it, proposer := sentinel -/
def abruptRemoveProposer (s : St) (ra : Nat) : St :=
  match getRa s ra with
  | none => s
  | some r =>
    match r.proposer with
    | none => s
    | some a =>
      match getSeq s a with
      | none => s     -- `GetProposer` falls back to the sentinel for a missing record
      | some q => setProposer (setSeq (removeFromNoticeQueue s q) { q with bonded := false }) ra none

/-- sequencer hook `OnHardFork`: opt out all sequencers of the rollapp, abruptly remove the proposer,
    clear the successor -/
def seqOnHardFork (s : St) (ra : Nat) : St :=
  setSuccessor (abruptRemoveProposer (optOutAll s ra) ra) ra none

/-- `RevertPendingStates` + `UpdateLastStateInfo`, decision part: the 1-based index to keep and the
    kept state's new contents (possibly truncated), or the refusal -/
def revertPlan (r : Rollapp) (newRevH : Nat) : M (Nat × SInfo) :=
  let found : M Nat :=
    match findByHeight r newRevH with
    | some i =>
      match r.states[i - 1]? with
      | some st => if st.finalized then .error .finalizedHeight else .ok i
      | none => .error .internal
    | none => if r.states.isEmpty then .error .noState else .ok r.states.length
  match found with
  | .error e => .error e
  | .ok i =>
    match r.states[i - 1]? with
    | none => .error .internal
    | some st =>
      if newRevH < st.start then .error .internal else
      if st.start = newRevH then
        match (if i ≤ 1 then none else r.states[i - 2]?) with
        | none => .error .noState
        | some prev => .ok (i - 1, { prev with next := NextP.empty })
      else if newRevH ≤ st.last then
        .ok (i, { st with num := newRevH - st.start, bds := st.bds.take (newRevH - st.start), next := NextP.empty })
      else .ok (i, { st with next := NextP.empty })

/-- the rollapp record after the revert: states truncated, revision bumped -/
def forkedRollapp (r : Rollapp) (keep : Nat) (kst : SInfo) : Rollapp :=
  { r with states := r.states.take (keep - 1) ++ [kst], revs := r.revs ++ [(latestRev r + 1, kst.last + 1)] }

/-- `HardFork(rollapp, lastValidHeight)` -/
def hardFork (s : St) (ra : Nat) (lastValid : Nat) : M St :=
  match getRa s ra with
  | none => .error .unknownRollapp
  | some r =>
    if !(0 < r.tph && r.tph ≤ lastValid) then .error .forkNotAllowed else
    if (lastValid + 1) % 2 ^ 64 = 0 then .error .invalid else
    match revertPlan r ((lastValid + 1) % 2 ^ 64) with
    | .error e => .error e
    | .ok (keep, kst) =>
      -- creators of the deleted states and of the kept (possibly truncated) state
      let creators := kst.creator :: (r.states.drop keep).map (·.creator)
      let s1 := { s with queue := removeIdxAbove s.queue ra keep, seqH := pruneSeqHeights s.seqH creators kst.last }
      let x := resetClock s1 (forkedRollapp r keep kst)
      .ok (seqOnHardFork (setRa x.1 x.2) ra)

/-- `HardForkToLatest` -/
def hardForkToLatest (s : St) (ra : Nat) : M St :=
  match getRa s ra with
  | none => .error .unknownRollapp
  | some r =>
    match latestHeight r with
    | none => .error .noState
    | some h => hardFork s ra h

-- ---------------------------------------------------------------- bank / bonds (x/sequencer/keeper/funds.go, bond.go)

def sendToModule (s : St) (q : Seq) (amt : Nat) : M (St × Seq) :=
  if getBal s.bal q.addr < amt then .error .insufficientFunds else
  .ok ({ s with bal := setBal s.bal q.addr (getBal s.bal q.addr - amt), modBal := s.modBal + amt },
       { q with tokens := q.tokens + amt })

/-- `bank.BlockedAddr`: the addresses the bank refuses as recipients of `SendCoinsFromModuleToAccount`
    (the module accounts listed in the app's blocked-address map, e.g. the distribution module account).
    Convention: actor indices ≥ 900 stand for blocked module accounts (the harness token `m<i>` is
    index 900+i, `m0` = the distribution module account); ordinary actors `a<i>` have small indices
    and "nobody" actors indices ≥ 100000 are never named as recipients. -/
def blockedAddr (a : Addr) : Bool := decide (900 ≤ a ∧ a < 1000)

/-- `sendFromModule` (funds.go): the in-memory bond is decremented (`Coin.Sub` panics below zero), then
    `SendCoinsFromModuleToAccount`: recipient check (`ErrUnauthorized` "is not allowed to receive funds")
    before the transfer itself (insufficient funds).  A failure leaves everything as it was (the
    message fails as a whole). -/
def sendFromModule (s : St) (q : Seq) (amt : Nat) (to : Addr) : M (St × Seq) :=
  if q.tokens < amt then .error .panic else
  if blockedAddr to then .error .blockedRecipient else
  if s.modBal < amt then .error .insufficientFunds else
  .ok ({ s with bal := setBal s.bal to (getBal s.bal to + amt), modBal := s.modBal - amt },
       { q with tokens := q.tokens - amt })

def burn (s : St) (q : Seq) (amt : Nat) : M (St × Seq) :=
  if q.tokens < amt then .error .panic else
  if s.modBal < amt then .error .insufficientFunds else
  .ok ({ s with modBal := s.modBal - amt, burned := s.burned + amt }, { q with tokens := q.tokens - amt })

/-- `slash(seq, amt, rewardMul, rewardee)` -/
def slash (s : St) (q : Seq) (amt : Nat) (rewardMul : Dec) (rewardee : Option Addr) : M (St × Seq) :=
  let reward := ((rewardMul.mulInt amt).truncateInt).toNat
  let r1 : M (St × Seq) :=
    if reward = 0 then .ok (s, q) else
      match rewardee with
      | some to => sendFromModule s q reward to
      | none => .error .panic
  match r1 with
  | .error e => .error e
  | .ok (s1, q1) => burn s1 q1 (amt - reward)

def isProposer (s : St) (q : Seq) : Bool :=
  match getRa s q.rollapp with
  | some r => r.proposer == some q.addr
  | none => false

def isSuccessor (s : St) (q : Seq) : Bool :=
  match getRa s q.rollapp with
  | some r => r.successor == some q.addr
  | none => false

/-- `TryUnbond` (unbond blockers: rollapp unfinalized heights; the light-client blocker has no
    entries in this model: no canonical client exists in M-Core histories) -/
def tryUnbond (s : St) (q : Seq) (amt : Nat) : M (St × Seq) :=
  if isProposer s q || isSuccessor s q then .error .proposerOrSuccessor else
  if s.seqH.any (·.1 == q.addr) then .error .unbondNotAllowed else
  match getRa s q.rollapp with
  | none => .error .panic
  | some r =>
    let isPartial := amt != q.tokens
    -- maxReduction = bond - minBond (may be negative); partial ∧ maxReduction < amt ⇒ refuse
    if isPartial && ((q.tokens : Int) - r.minBond < amt) then .error .unbondNotAllowed else
    match sendFromModule s q amt q.addr with
    | .error e => .error e
    | .ok (s1, q1) => .ok (s1, if q1.tokens = 0 then { q1 with bonded := false } else q1)

-- ---------------------------------------------------------------- message handlers

/-- expand the compact block-descriptor spec of an update op -/
structure UpdMsg where
  ra : Nat
  sender : Addr
  start : Nat
  num : Nat
  rev : Nat
  last : Bool
  bds : List BD
  deriving Repr, Inhabited

def validateBDs (start : Nat) : Nat → List BD → M Unit
  | _, [] => .ok ()
  | i, b :: bs =>
    if b.height ≠ (start + i) % 2 ^ 64 then .error .badSequence
    else if !b.rootOk then .error .badRoot
    else validateBDs start (i + 1) bs

/-- `MsgUpdateState.ValidateBasic` -/
def updValidateBasic (m : UpdMsg) : M Unit :=
  if m.num = 0 then .error .badBlocks else
  if m.num > 2 ^ 64 - 1 - m.start then .error .badBlocks else
  if m.bds.length ≠ m.num then .error .badBlocks else
  if m.start = 0 then .error .wrongHeight else
  validateBDs m.start 0 m.bds

/-- `OnProposerLastBlock` -/
def onProposerLastBlock (s : St) (prop : Seq) : M St :=
  if !noticeElapsed prop s.t then .error .internal else
  match getRa s prop.rollapp with
  | none => .error .unknownRollapp
  | some r =>
    let succ := r.successor
    let s1 := setRa s { r with successor := none, proposer := succ }
    match succ with
    | none => hardForkToLatest s1 r.id
    | some a => .ok (afterSetRealProposer s1 r.id a)

/-- timestamp rule and expected start height of `UpdateState` -/
def updPre (r : Rollapp) (m : UpdMsg) : M Unit :=
  match r.states.getLast? with
  | some l =>
    if ((l.bds.getLast?.map (·.hasTs)).getD false) && !(m.bds.all (·.hasTs)) then .error .noTimestamp
    else if l.start + l.num ≠ m.start then .error .wrongHeight
    else .ok ()
  | none => if !(m.bds.all (·.hasTs)) then .error .noTimestamp else .ok ()

/-- `NextProposer` recorded in the new state info -/
def updSucc (r : Rollapp) (m : UpdMsg) : NextP :=
  if m.last then (match r.successor with | some a => NextP.addr a | none => NextP.sentinel)
  else NextP.addr m.sender

def newSInfo (s : St) (m : UpdMsg) (succ : NextP) : SInfo :=
  { creator := m.sender, start := m.start, num := m.num, creationHeight := s.h,
    finalized := false, next := succ, bds := m.bds, accRev := m.rev, finalizedAt := 0 }

/-- append a state index to the finalization queue entry (hub height, rollapp) -/
def queueAppend (q : List QEntry) (h ra idx : Nat) : List QEntry :=
  if q.any (fun e => e.ch == h && e.ra == ra) then
    q.map (fun e => if e.ch == h && e.ra == ra then { e with idx := e.idx ++ [idx] } else e)
  else insertSorted (fun a b => ltPair (a.ch, a.ra) (b.ch, b.ra)) { ch := h, ra := ra, idx := [idx] } q

/-- `SaveSequencerHeight` for every block descriptor -/
def addSeqHeights (sh : List (Addr × Nat)) (a : Addr) (bds : List BD) : List (Addr × Nat) :=
  bds.foldl (fun acc b => insertSorted ltPair (a, b.height) acc) sh

/-- sequencer hook `AfterUpdateState`: honour the proposer, hand over on the last block -/
def seqAfterUpdate (s : St) (m : UpdMsg) (isLast : Bool) : M St :=
  match getSeq s m.sender with
  | none => .error .internal
  | some prop =>
    let prop1 := { prop with dishonor := prop.dishonor - min s.sqp.dishonorSU prop.dishonor }
    if isLast then onProposerLastBlock (setSeq s prop1) prop1 else .ok (setSeq s prop1)

/-- `MsgUpdateState` handler (x/rollapp/keeper/msg_server_update_state.go) -/
def updateState (s : St) (m : UpdMsg) : M St :=
  match updValidateBasic m with
  | .error e => .error e
  | .ok () =>
  match getRa s m.ra with
  | none => .error .unknownRollapp
  | some r =>
    -- BeforeUpdateState (sequencer hook)
    if r.proposer != some m.sender then .error .notProposer else
    if m.last && !awaitingLast s r then .error .badLast else
    if latestRev r != m.rev then .error .wrongRevision else
    match updPre r m with
    | .error e => .error e
    | .ok () =>
      if s.obsolete.contains ((m.bds.getLast?.map (·.drs)).getD 0) then .error .obsolete else
      match seqAfterUpdate (setRa s { r with states := r.states ++ [newSInfo s m (updSucc r m)] }) m
              (updSucc r m != NextP.addr m.sender) with
      | .error e => .error e
      | .ok s3 =>
        -- finalization queue append under (hub height, rollapp); sequencer heights; liveness
        let s4 := { s3 with queue := queueAppend s3.queue s3.h m.ra (r.states.length + 1),
                            seqH := addSeqHeights s3.seqH m.sender m.bds }
        match getRa s4 m.ra with
        | none => .error .internal
        | some r4 => .ok (indicateLiveness s4 r4)

/-- `MsgCreateSequencer` (bond denom validity carried by `denomOk`) -/
def createSeq (s : St) (a : Addr) (ra : Nat) (bond : Nat) (denomOk : Bool) : M St :=
  match getRa s ra with
  | none => .error .unknownRollapp
  | some r =>
    if (getSeq s a).isSome then .error .exists_ else
    if bond = 0 then .error .invalid else
    if !denomOk then .error .badDenom else
    if bond < r.minBond then .error .insufficientBond else
    let q0 : Seq := { addr := a, rollapp := ra, bonded := true, optedIn := true, tokens := 0, dishonor := 0, notice := none }
    let s0 := if r.launched then s else setRa s { r with launched := true }
    match sendToModule s0 q0 bond with
    | .error e => .error e
    | .ok (s1, q1) =>
      let s2 := { s1 with seqs := insertSorted (fun x y => decide (x.addr < y.addr)) q1 s1.seqs }
      match getRa s2 ra with
      | none => .error .internal
      | some r2 => if r2.proposer.isNone then recoverFromSentinel s2 ra else .ok s2

def increaseBond (s : St) (a : Addr) (amt : Nat) (denomOk : Bool) : M St :=
  match getSeq s a with
  | none => .error .unknownSeq
  | some q =>
    if amt = 0 then .error .invalid else
    if !denomOk then .error .badDenom else
    match sendToModule s q amt with
    | .error e => .error e
    | .ok (s1, q1) => .ok (setSeq s1 q1)

def decreaseBond (s : St) (a : Addr) (amt : Nat) : M St :=
  match getSeq s a with
  | none => .error .unknownSeq
  | some q =>
    if amt = 0 then .error .invalid else
    match tryUnbond s q amt with
    | .error e => .error e
    | .ok (s1, q1) => .ok (setSeq s1 q1)

/-- `ForkLatestAllowed` -/
def forkLatestAllowed (r : Rollapp) : Bool :=
  match latestHeight r with
  | none => false
  | some lh => 0 < r.tph && r.tph ≤ lh

/-- `MsgUnbond` -/
def unbond (s : St) (a : Addr) : M St :=
  match getSeq s a with
  | none => .error .unknownSeq
  | some q =>
    match getRa s q.rollapp with
    | none => .error .panic
    | some r =>
      if awaitingLast s r && (isProposer s q || isSuccessor s q) then .error .rotationInProgress else
      if isProposer s q then
        if !forkLatestAllowed r then .error .forkNotAllowed else
        if noticeInProgress q s.t then .error .noticeInProgress else
        .ok (setSeq { s with nq := insertSorted ltPair (s.t + s.sqp.noticePeriod, a) s.nq }
                    { q with optedIn := false, notice := some (s.t + s.sqp.noticePeriod) })
      else
        match tryUnbond s { q with optedIn := false } q.tokens with
        | .error e => .error e
        | .ok (s1, q1) => .ok (setSeq s1 q1)

/-- `MsgUpdateOptInStatus` -/
def optIn (s : St) (a : Addr) (v : Bool) : M St :=
  match getSeq s a with
  | none => .error .unknownSeq
  | some q =>
    if q.notice.isSome then .error .noticeStarted else
    let s1 := setSeq s { q with optedIn := v }
    match getRa s1 q.rollapp with
    | none => .error .panic
    | some r => if r.proposer.isNone then recoverFromSentinel s1 q.rollapp else .ok s1

/-- `MsgKickProposer` / `TryKickProposer` — note: the `kicker` value read at the start is written back
    after the fork (as the Go code does) -/
def kick (s : St) (a : Addr) : M St :=
  match getSeq s a with
  | none => .error .unknownSeq
  | some kicker =>
    if !(kicker.bonded && kicker.optedIn) then .error .notPotential else
    match getRa s kicker.rollapp with
    | none => .error .panic
    | some r =>
      match r.proposer with
      | none => .error .notKickable
      | some pa =>
        match getSeq s pa with
        | none => .error .notKickable
        | some prop =>
          if a = pa then .error .notKickable else
          if !(s.sqp.kickThr ≤ prop.dishonor) then .error .notKickable else
          let s2 := abruptRemoveProposer s r.id
          match hardForkToLatest s2 r.id with
          | .error e => .error e
          | .ok s3 =>
            let s4 := setSeq s3 { kicker with optedIn := true }
            recoverFromSentinel s4 r.id

/-- `PunishSequencer` -/
def punish (s : St) (a : Addr) (rewardee : Option Addr) : M St :=
  match getSeq s a with
  | none => .error .unknownSeq
  | some q =>
    let mul : Dec := match rewardee with | some _ => ⟨500000000000000000⟩ | none => ⟨0⟩
    match slash s q q.tokens mul rewardee with
    | .error e => .error e
    | .ok (s1, q1) => .ok (setSeq s1 q1)

/-- the standalone governance `PunishSequencerProposal` (x/sequencer/proposal_handler.go
    `HandlePunishSequencerProposal`, a legacy gov route: x/gov's `ExecLegacyContent` checks the authority,
    then the handler calls `PunishSequencer`): the punishment of a fraud proposal WITHOUT any fork — the
    punished sequencer keeps its status and its role (a punished proposer stays proposer with bond 0). -/
def punishProposal (s : St) (authOk : Bool) (a : Addr) (rewardee : Option Addr) : M St :=
  if !authOk then .error .unauthorized else punish s a rewardee

/-- x/rollapp `msgServer.TransferOwnership`: unknown rollapp; signer is not the owner ⇒ unauthorized;
    same owner ⇒ error; the new owner is an address the bank refuses as a recipient (`blockedAddr`: the
    owner receives the rollapp's incentives, a failing payout would fail the whole block) ⇒ invalid
    request; else `owner := newOwner` and nothing else. -/
def transferOwner (s : St) (signer : Addr) (ra : Nat) (newOwner : Addr) : M St :=
  match getRa s ra with
  | none => .error .unknownRollapp
  | some r =>
    if r.owner != signer then .error .unauthorized else
    if r.owner == newOwner then .error .invalid else
    if blockedAddr newOwner then .error .invalid else
    .ok (setRa s { r with owner := newOwner })

/-- x/sequencer `MsgUpdateParams`: authority; `Params.ValidateBasic` (notice period positive, multiplier
    within [0, 1]) and the keeper's `ValidateParams` (kick threshold not 0); then the stored parameter set is
    replaced as a whole.  Nothing else changes: records keep the notice times they were given. -/
def setSeqParams (s : St) (authOk : Bool) (sp : SeqParams) : M St :=
  if !authOk then .error .unauthorized else
  if sp.noticePeriod = 0 then .error .invalid else
  if sp.lsMul.raw < 0 || 1000000000000000000 < sp.lsMul.raw then .error .invalid else
  if sp.kickThr = 0 then .error .invalid else
  .ok { s with sqp := sp }

/-- `MsgRollappFraudProposal` -/
def fraud (s : St) (authOk : Bool) (ra h rev : Nat) (pun : Option Addr) (rewardee : Option Addr) : M St :=
  if !authOk then .error .unauthorized else
  if h = 0 then .error .invalid else
  match getRa s ra with
  | none => .error .unknownRollapp
  | some r =>
    if revForHeight r h ≠ rev then .error .wrongRevision else
    let s1m : M St := match pun with
      | some a => punish s a rewardee
      | none => .ok s
    match s1m with
    | .error e => .error e
    | .ok s1 => hardFork s1 ra (h - 1)

/-- `MsgMarkObsoleteRollapps`: each affected rollapp is forked in isolation (errors dropped) -/
def markObsolete (s : St) (authOk : Bool) (vs : List Nat) : M St :=
  if vs.isEmpty then .error .invalid else
  if !authOk then .error .unauthorized else
  let s1 := { s with obsolete := vs.foldl (fun acc v => if acc.contains v then acc else acc ++ [v]) s.obsolete }
  .ok (s1.ras.foldl (fun acc r0 =>
    match getRa acc r0.id with
    | none => acc
    | some r =>
      match r.states.getLast? with
      | none => acc
      | some l =>
        let drs := (l.bds.getLast?.map (·.drs)).getD 0
        if vs.contains drs then
          match hardForkToLatest acc r.id with
          | .ok a => a
          | .error _ => acc
        else acc) s1)

-- ---------------------------------------------------------------- block processing

/-- sequencer `BeginBlock`: `ChooseSuccessorForFinishedNotices` -/
def beginBlock (s : St) (dt : Nat) : St :=
  let s0 := { s with h := s.h + 1, t := s.t + dt }
  let due := s0.nq.filter (fun e => e.1 ≤ s0.t)
  due.foldl (fun acc e =>
    let acc1 := { acc with nq := acc.nq.filter (fun x => !(x.1 == e.1 && x.2 == e.2)) }
    match getSeq acc1 e.2 with
    | none => acc1
    | some q =>
      match getRa acc1 q.rollapp with
      | none => acc1
      | some r => setRa acc1 { r with successor := choose acc1 q.rollapp }) s0

/-- `finalizePendingState` for one index, under the injected failure oracle -/
def finalizeOne (s : St) (fails : List (Nat × Nat)) (ra idx : Nat) : Option St :=
  if fails.contains (ra, idx) then none else
  match getRa s ra with
  | none => none
  | some r =>
    match r.states[idx - 1]? with
    | none => none
    | some st =>
      if idx = 0 || st.finalized then none else
      let st' := { st with finalized := true, finalizedAt := s.h }
      let r' := { r with states := r.states.set (idx - 1) st', lastFin := idx }
      let sh := s.seqH.filter (fun p => !(p.1 == st.creator && st.bds.any (·.height == p.2)))
      some (setRa { s with seqH := sh } r')

/-- `FinalizeStates` on one queue entry: returns the new state and whether the whole entry finalized -/
def finalizeEntry (s : St) (fails : List (Nat × Nat)) (e : QEntry) : St × Bool :=
  let rec go (s : St) : List Nat → St × Bool
    | [] => ({ s with queue := s.queue.filter (fun x => !(x.ch == e.ch && x.ra == e.ra)) }, true)
    | i :: rest =>
      match finalizeOne s fails e.ra i with
      | some s' => go s' rest
      | none =>
        ({ s with queue := s.queue.map (fun x => if x.ch == e.ch && x.ra == e.ra then { x with idx := i :: rest } else x) }, false)
  go s e.idx

/-- `FinalizeAllPending` with the `failedRollapps` set -/
def finalizeAll (s : St) (fails : List (Nat × Nat)) : List QEntry → List Nat → St
  | [], _ => s
  | e :: es, failed =>
    if failed.contains e.ra then finalizeAll s fails es failed else
    let (s', ok) := finalizeEntry s fails e
    finalizeAll s' fails es (if ok then failed else e.ra :: failed)

/-- `FinalizeRollappStates` -/
def finalizeRollappStates (s : St) (fails : List (Nat × Nat)) : St :=
  if s.h < s.p.dispute then s else
  let fh := s.h - s.p.dispute
  finalizeAll s fails (s.queue.filter (fun e => e.ch ≤ fh)) []

/-- `SlashLiveness`: slash and dishonour the proposer (no-op when the proposer is the sentinel) -/
def slashLiveness (s : St) (r : Rollapp) : M St :=
  match r.proposer with
  | none => .ok s
  | some a =>
    match getSeq s a with
    | none => .ok s   -- GetProposer falls back to the sentinel
    | some q =>
      match slash s q (min q.tokens (max s.sqp.lsAbs ((s.sqp.lsMul.mulInt q.tokens).truncateInt).toNat)) ⟨0⟩ none with
      | .error e => .error e
      | .ok (s1, q1) => .ok (setSeq s1 { q1 with dishonor := q1.dishonor + s1.sqp.dishonorL })

/-- `HandleLivenessEvent` (inside ApplyFuncIfNoError: on error nothing changes) -/
def handleLivenessEvent (s : St) (ra : Nat) : St :=
  match getRa s ra with
  | none => s
  | some r =>
    match slashLiveness s r with
    | .error _ => s
    | .ok s1 =>
      match getRa s1 ra with
      | none => s
      | some r1 =>
        setRa (scheduleEvent { s1 with lev := delEvent s1.lev s1.h ra } r1).1
              (scheduleEvent { s1 with lev := delEvent s1.lev s1.h ra } r1).2

/-- `CheckLiveness` -/
def checkLiveness (s : St) : St :=
  (s.lev.filter (fun e => e.1 == s.h)).foldl (fun acc e => handleLivenessEvent acc e.2) s

/-- rollapp `EndBlock` -/
def endBlock (s : St) (fails : List (Nat × Nat)) : St :=
  checkLiveness (finalizeRollappStates s fails)

-- ---------------------------------------------------------------- ops

inductive Op
  | createRollapp (id : Nat) (owner : Addr) (minBond : Nat)
  | bridge (ra : Nat) (h : Nat)
  | fund (a : Addr) (amt : Nat)
  | createSeq (a : Addr) (ra : Nat) (bond : Nat) (denomOk : Bool)
  | bondInc (a : Addr) (amt : Nat) (denomOk : Bool)
  | bondDec (a : Addr) (amt : Nat)
  | unbond (a : Addr)
  | optIn (a : Addr) (v : Bool)
  | kick (a : Addr)
  | update (m : UpdMsg)
  | fraud (authOk : Bool) (ra h rev : Nat) (pun : Option Addr) (rewardee : Option Addr)
  | obsolete (authOk : Bool) (vs : List Nat)
  | punish (authOk : Bool) (a : Addr) (rewardee : Option Addr)
  | transferOwner (signer : Addr) (ra : Nat) (newOwner : Addr)
  | setSeqParams (authOk : Bool) (sp : SeqParams)
  | begin_ (dt : Nat)
  | end_ (fails : List (Nat × Nat))
  deriving Repr, Inhabited

def newRollapp (id : Nat) (owner : Addr) (minBond : Nat) : Rollapp :=
  { id := id, owner := owner, minBond := minBond, launched := false, revs := [(0, 0)], states := [],
    lastFin := 0, tph := 0, evH := 0, cdStart := 0, proposer := none, successor := none }

/-- one transition; a rejected message leaves the state untouched (baseapp cache context) -/
def apply (s : St) : Op → M St
  | .createRollapp id owner mb =>
      if (getRa s id).isSome then .error .exists_ else
      .ok { s with ras := insertSorted (fun x y => decide (x.id < y.id)) (newRollapp id owner mb) s.ras }
  | .bridge ra h =>
      match getRa s ra with
      | none => .error .unknownRollapp
      | some r =>
        match latestHeight r with
        | none => .error .noState
        | some lh => if r.tph ≠ 0 || h = 0 || lh < h then .error .invalid else .ok (setRa s { r with tph := h })
  | .fund a amt => .ok { s with bal := setBal s.bal a (getBal s.bal a + amt) }
  | .createSeq a ra b d => createSeq s a ra b d
  | .bondInc a amt d => increaseBond s a amt d
  | .bondDec a amt => decreaseBond s a amt
  | .unbond a => unbond s a
  | .optIn a v => optIn s a v
  | .kick a => kick s a
  | .update m => updateState s m
  | .fraud au ra h rev p rw => fraud s au ra h rev p rw
  | .obsolete au vs => markObsolete s au vs
  | .punish au a rw => punishProposal s au a rw
  | .transferOwner sg ra no => transferOwner s sg ra no
  | .setSeqParams au sp => setSeqParams s au sp
  | .begin_ dt => .ok (beginBlock s dt)
  | .end_ f => .ok (endBlock s f)

def step (s : St) (o : Op) : St × Option Err :=
  match apply s o with
  | .ok s' => (s', none)
  | .error e => (s, some e)

def init (p : Params) : St :=
  { h := 1, t := 0, p := p, sqp := p.seq, ras := [], seqs := [], queue := [], seqH := [], lev := [], obsolete := [],
    nq := [], bal := [], modBal := 0, burned := 0 }

def run (p : Params) (ops : List Op) : St := ops.foldl (fun s o => (step s o).1) (init p)

end DymVerif.Core
