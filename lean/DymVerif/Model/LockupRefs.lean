/-
  Model/LockupRefs — M-Lockup with the lock-reference indexes of x/lockup as model STATE, and with
  blocked bank recipients (property C14, second pass).  Core Lean only.

  `Model/Lockup` answers every index-driven question (`HasLock`, the EndBlocker's end-time iterator,
  the account queries) as a FUNCTION of the lock list.  Here the reference store is a section of the
  KV store, written exactly where the Go code writes it and read exactly where the Go code reads it:

    keeper/lock_refs.go  addLockRefs / deleteLockRefs
    keeper/store.go      addLockRefByKey ("lock with same ID exist") / deleteLockRefByKey
    keeper/utils.go      durationLockRefKeys (4 keys) / lockRefKeys (8 keys) / getTimeKey / getDurationKey
    keeper/lock.go       CreateLock (addLockRefs), AddTokensToLockByID (none), beginUnlock
                         (deleteLockRefs NotUnlocking; addLockRefs of the lock with its end time),
                         splitLock (NO reference of the split lock is written), ExtendLockup
                         (deleteLockRefs; addLockRefs with the new duration), ForceUnlock (BeginUnlock
                         when not unlocking, then unlockMaturedLockInternalLogic),
                         unlockMaturedLockInternalLogic (deleteLockRefs Unlocking),
                         setLockAndAddLockRefs / InitializeAllLocks (genesis import inside `restart`)
    keeper/iterator.go   the reference walks (`walk`), getLocksFromIterator (panics on a reference whose
                         lock is gone: `RFault.dangling`), unlockFromIterator (panics on any error)
    bank                 SendCoinsFromModuleToAccount refuses a blocked recipient (`blocked`)

  A reference is the store key `prefix(isUnlocking) | family | [owner] | [denom] | duration-or-time key
  | big-endian lock id` (value = the id again).  It is represented by the tuple
  `(queue, family, account, denom, key, id)` of naturals under the lexicographic order `ltRef`, which
  is the store's byte order for every walk the keeper does (a walk fixes queue, family, account and
  denom; durations and ids are big-endian; `getTimeKey` is order preserving; `time.Time{}` sorts first:
  `timeKey none = 0`).  The numbers of queues and families are the prefix bytes of types/keys.go.

  Kept abstraction: matured locks are withdrawn in id order (Model/Lockup header); the SET of locks
  the EndBlocker withdraws is the one the end-time walk yields, and the driver prints the walk in its
  own (time key, id) order.

  `Props/C14Refs` proves, for every history including restarts and parameter changes:
  `refs_consistent` (the store is exactly the image of the lock table), that no reference clash and no
  dangling reference can occur, that every index lookup equals the list-based definition of
  Model/Lockup, and that the whole reference-level machine projects onto `Lockup.cstep`.
-/
import DymVerif.Model.LockupChain
namespace DymVerif.Lockup
open DymVerif.Genesis

/-! ### reference keys -/

/-- (queue, family, account, denom, duration or time key, lock id); unused components are 0 -/
abbrev RefK := Nat × Nat × Nat × Nat × Nat × Nat

def ltRef : RefK → RefK → Bool :=
  ltPair ltNat (ltPair ltNat (ltPair ltNat (ltPair ltNat (ltPair ltNat ltNat))))

/-- the reference section of the store, in iteration order -/
abbrev Refs := KV RefK Unit

/-- `unlockingPrefix`: KeyPrefixNotUnlocking = 0x03, KeyPrefixUnlocking = 0x04 -/
def queueOf (isUnlocking : Bool) : Nat := if isUnlocking then 4 else 3

def fDur : Nat := 7            -- KeyPrefixLockDuration
def fAccDur : Nat := 8         -- KeyPrefixAccountLockDuration
def fDenomDur : Nat := 9       -- KeyPrefixDenomLockDuration
def fAccDenomDur : Nat := 10   -- KeyPrefixAccountDenomLockDuration
def fTime : Nat := 11          -- KeyPrefixLockTimestamp
def fAccTime : Nat := 12       -- KeyPrefixAccountLockTimestamp
def fDenomTime : Nat := 13     -- KeyPrefixDenomLockTimestamp
def fAccDenomTime : Nat := 14  -- KeyPrefixAccountDenomLockTimestamp

/-- `getTimeKey`: order preserving; `time.Time{}` (year 1) sorts before every block time -/
def timeKey : Option Nat → Nat
  | none => 0
  | some t => t + 1

/-- a reference key without queue prefix and id suffix: (family, account, denom, key) -/
abbrev RefKey := Nat × Nat × Nat × Nat

/-- `durationLockRefKeys` (one coin per lock) -/
def durationLockRefKeys (l : Lock) : List RefKey :=
  [(fDur, 0, 0, l.duration), (fAccDur, l.owner, 0, l.duration),
   (fDenomDur, 0, l.denom, l.duration), (fAccDenomDur, l.owner, l.denom, l.duration)]

/-- `lockRefKeys`: the duration keys, then the four time keys of `lock.EndTime` -/
def lockRefKeys (l : Lock) : List RefKey :=
  durationLockRefKeys l ++
  [(fTime, 0, 0, timeKey l.endTime), (fAccTime, l.owner, 0, timeKey l.endTime),
   (fDenomTime, 0, l.denom, timeKey l.endTime), (fAccDenomTime, l.owner, l.denom, timeKey l.endTime)]

/-- `combineKeys(prefix, refKey) | id` -/
def mkRef (q : Nat) (k : RefKey) (id : Nat) : RefK := (q, k.1, k.2.1, k.2.2.1, k.2.2.2, id)

/-! ### writers -/

/-- `addLockRefByKey`: `none` = "lock with same ID exist" -/
def addLockRefByKey (refs : Refs) (r : RefK) : Option Refs :=
  if kvHas r refs then none else some (kvSet ltRef r () refs)

def addRefKeys (q id : Nat) : List RefKey → Refs → Option Refs
  | [], refs => some refs
  | k :: ks, refs =>
    match addLockRefByKey refs (mkRef q k id) with
    | none => none
    | some refs' => addRefKeys q id ks refs'

/-- the keys `addLockRefs` writes: all eight for an unlocking lock, the duration keys otherwise -/
def refKeysOf (l : Lock) : List RefKey :=
  if l.isUnlocking then lockRefKeys l else durationLockRefKeys l

/-- `addLockRefs` -/
def addLockRefs (refs : Refs) (l : Lock) : Option Refs :=
  addRefKeys (queueOf l.isUnlocking) l.id (refKeysOf l) refs

/-- `deleteLockRefs(prefix, lock)`: all eight keys, whatever the lock's state -/
def deleteLockRefs (refs : Refs) (q : Nat) (l : Lock) : Refs :=
  (lockRefKeys l).foldl (fun r k => kvDel (mkRef q k l.id) r) refs

/-! ### readers -/

/-- a reference walk: the ids under the keys satisfying `q`, in store order -/
def walk (refs : Refs) (q : RefK → Bool) : List Nat :=
  (refs.filter (fun e => q e.1)).map (fun e => e.1.2.2.2.2.2)

/-- `iteratorDuration` / prefix iterator with the duration key: exactly this key -/
def qExact (queue fam a d k : Nat) (r : RefK) : Bool :=
  r.1 == queue && r.2.1 == fam && r.2.2.1 == a && r.2.2.2.1 == d && r.2.2.2.2.1 == k

/-- prefix iterator over a whole family (of one account / denom) -/
def qAll (queue fam a d : Nat) (r : RefK) : Bool :=
  r.1 == queue && r.2.1 == fam && r.2.2.1 == a && r.2.2.2.1 == d

/-- `iteratorBeforeTime(t)`: time key <= key of `t` (inclusive end) -/
def qBefore (queue fam a d t : Nat) (r : RefK) : Bool :=
  qAll queue fam a d r && decide (r.2.2.2.2.1 ≤ timeKey (some t))

/-- `iteratorAfterTime(t)`: time key > key of `t` -/
def qAfter (queue fam a d t : Nat) (r : RefK) : Bool :=
  qAll queue fam a d r && decide (timeKey (some t) < r.2.2.2.2.1)

/-- `iteratorLongerDuration(k)`: duration key >= k -/
def qLonger (queue fam a d k : Nat) (r : RefK) : Bool :=
  qAll queue fam a d r && decide (k ≤ r.2.2.2.2.1)

/-- `getLocksFromIterator`: `GetLockByID` of every id of the walk; `none` = panic -/
def getLocksFromIterator (locks : List Lock) : List Nat → Option (List Lock)
  | [] => some []
  | id :: ids =>
    match findLock locks id with
    | none => none
    | some l =>
      match getLocksFromIterator locks ids with
      | none => none
      | some ls => some (l :: ls)

/-- `getCoinsFromLocks` for one denom -/
def coinsOf (ls : List Lock) (d : Denom) : Nat := total (fun l => l.denom == d) ls

/-! ### state -/

structure RState where
  s : State
  refs : Refs

/-- what the reference level can do that M-Lockup cannot -/
inductive RFault
  | refClash   -- addLockRefByKey: "lock with same ID exist" (a failed message / an aborted genesis import)
  | dangling   -- getLocksFromIterator panics: a reference to a lock that is not in the lock section
  | blocked    -- the bank refuses to pay a blocked recipient (inside a message: a failed tx)
  deriving DecidableEq, Repr

inductive ROut
  | out (o : Out)
  | fault (f : RFault)
  deriving DecidableEq, Repr

/-! ### MsgLockTokens -/

/-- `GetAccountLockedDurationNotUnlockingOnly`: walk of `AccountLockIteratorDurationDenom(false, …)` -/
def accountLockedDurationNotUnlockingOnly (rs : RState) (a : Actor) (d : Denom) (dur : Nat) : Option (List Lock) :=
  getLocksFromIterator rs.s.locks (walk rs.refs (qExact (queueOf false) fAccDenomDur a d dur))

def lockTokensR (p : Params) (rs : RState) (a : Actor) (d : Denom) (amt dur : Nat) : RState × ROut :=
  if dur = 0 ∨ amt = 0 then (rs, .out (.err .invalid)) else
  if dur < p.minDur then (rs, .out (.err .belowMin)) else
  if rs.s.bal a p.feeDenom < lockCost p d amt then (rs, .out (.err .feeFunds)) else
  match toModule (chargeFee p rs.s a) a d amt with
  | none => (rs, .out (.err .funds))
  | some s2 =>
    -- HasLock / AddToExistingLock: `locks[0]` of the reference walk
    match accountLockedDurationNotUnlockingOnly rs a d dur with
    | none => (rs, .fault .dangling)
    | some (l :: _) =>
      -- AddTokensToLockByID: setLock only, no reference is touched
      (⟨addToLock s2 l amt, rs.refs⟩, .out (.ok l.id))
    | some [] =>
      -- CreateLock: lock(), then addLockRefs into the not-unlocking queue
      match addLockRefs rs.refs ⟨rs.s.lastId + 1, a, dur, none, d, amt, none⟩ with
      | none => (rs, .fault .refClash)
      | some refs' => (⟨createLock s2 a d amt dur, refs'⟩, .out (.ok (rs.s.lastId + 1)))

/-! ### MsgBeginUnlocking -/

/-- `beginUnlock` after the checks (and after `splitLock`): references of the not-unlocking queue
    deleted, the lock stored with its end time, all eight references added to the unlocking queue -/
def beginUnlockRefs (refs : Refs) (now : Nat) (l : Lock) : Option Refs :=
  addLockRefs (deleteLockRefs refs (queueOf false) l) { l with endTime := some (now + l.duration) }

/-- the lock `splitLock` stores under the next id: `NewPeriodLock(id, owner, duration, lock.EndTime, coins)` -/
def splitOf (s : State) (l : Lock) (x : Nat) : Lock :=
  ⟨s.lastId + 1, l.owner, l.duration, l.endTime, l.denom, x, none⟩

def beginUnlockingR (rs : RState) (a : Actor) (id : Nat) (c : Option (Denom × Nat)) : RState × ROut :=
  if id = 0 ∨ coinsInvalid c then (rs, .out (.err .invalid)) else
  match findLock rs.s.locks id with
  | none => (rs, .out (.err .notFound))
  | some l =>
    if l.owner ≠ a then (rs, .out (.err .notOwner)) else
    if exceeds c l then (rs, .out (.err .exceeds)) else
    if l.isUnlocking then (rs, .out (.err .alreadyUnlocking)) else
    if isPartial c l then
      -- splitLock: the old lock keeps its references, the split lock gets none
      match beginUnlockRefs rs.refs rs.s.now (splitOf rs.s l (reqAmt c)) with
      | none => (rs, .fault .refClash)
      | some refs' => (⟨splitUnlock rs.s l (reqAmt c), refs'⟩, .out (.ok (rs.s.lastId + 1)))
    else
      match beginUnlockRefs rs.refs rs.s.now l with
      | none => (rs, .fault .refClash)
      | some refs' => (⟨startUnlock rs.s l, refs'⟩, .out (.ok l.id))

/-! ### MsgExtendLockup -/

def extendLockupR (rs : RState) (a : Actor) (id : Nat) (dur : Nat) : RState × ROut :=
  if id = 0 ∨ dur = 0 then (rs, .out (.err .invalid)) else
  match findLock rs.s.locks id with
  | none => (rs, .out (.err .notFound))
  | some l =>
    if l.owner ≠ a then (rs, .out (.err .notOwner)) else
    if l.isUnlocking then (rs, .out (.err .isUnlocking)) else
    if dur ≤ l.duration then (rs, .out (.err .durNotGreater)) else
    -- deleteLockRefs(unlockingPrefix(false), lock); addLockRefs with the new duration
    match addLockRefs (deleteLockRefs rs.refs (queueOf false) l) { l with duration := dur } with
    | none => (rs, .fault .refClash)
    | some refs' => (⟨extendTo rs.s l dur, refs'⟩, .out (.ok 0))

/-! ### MsgForceUnlock -/

/-- `ForceUnlock(lock)` on the references: `BeginUnlock` first when the lock is not unlocking, then
    `unlockMaturedLockInternalLogic` of the re-read lock deletes its unlocking-queue references -/
def forceRefs (refs : Refs) (now : Nat) (l : Lock) : Option Refs :=
  if l.isUnlocking then some (deleteLockRefs refs (queueOf true) l)
  else
    match beginUnlockRefs refs now l with
    | none => none
    | some r => some (deleteLockRefs r (queueOf true) { l with endTime := some (now + l.duration) })

def forceUnlockR (blocked : Actor → Bool) (p : Params) (rs : RState) (a : Actor) (id : Nat)
    (c : Option (Denom × Nat)) : RState × ROut :=
  if id = 0 ∨ coinsInvalid c then (rs, .out (.err .invalid)) else
  match findLock rs.s.locks id with
  | none => (rs, .out (.err .notFound))
  | some l =>
    if l.owner ≠ a then (rs, .out (.err .notOwner)) else
    if ¬ (a ∈ p.allowed) then (rs, .out (.err .notAllowed)) else
    if exceeds c l then (rs, .out (.err .exceeds)) else
    if blocked l.owner then (rs, .fault .blocked) else
    if isPartial c l then
      match fromModule rs.s l.owner l.denom (reqAmt c) with
      | none => (rs, .out (.err .modFunds))
      | some s1 =>
        match forceRefs rs.refs rs.s.now (splitOf rs.s l (reqAmt c)) with
        | none => (rs, .fault .refClash)
        | some refs' => (⟨shrinkLock s1 l (reqAmt c), refs'⟩, .out (.ok 0))
    else
      match fromModule rs.s l.owner l.denom l.amount with
      | none => (rs, .out (.err .modFunds))
      | some s1 =>
        match forceRefs rs.refs rs.s.now l with
        | none => (rs, .fault .refClash)
        | some refs' => (⟨removeLock s1 l, refs'⟩, .out (.ok 0))

/-! ### EndBlocker -/

/-- the ids `LockIteratorBeforeTime(now)` yields, in walk order (time key, id) -/
def maturedWalk (refs : Refs) (now : Nat) : List Nat := walk refs (qBefore (queueOf true) fTime 0 0 now)

/-- `UnlockMaturedLock(id)`; `none` = error (a panic in `unlockFromIterator`); the bank refuses a
    blocked owner -/
def unlockMaturedR (blocked : Actor → Bool) (rs : RState) (id : Nat) : Option RState :=
  match findLock rs.s.locks id with
  | none => none
  | some l =>
    if !l.isUnlocking then none else
    if !matured rs.s.now l then none else
    if blocked l.owner then none else
    match fromModule rs.s l.owner l.denom l.amount with
    | none => none
    | some s1 => some ⟨removeLock s1 l, deleteLockRefs rs.refs (queueOf true) l⟩

def withdrawAllR (blocked : Actor → Bool) : List Nat → RState → Option RState
  | [], rs => some rs
  | id :: ids, rs =>
    match unlockMaturedR blocked rs id with
    | none => none
    | some rs' => withdrawAllR blocked ids rs'

def endBlockR (blocked : Actor → Bool) (rs : RState) : RState × ROut :=
  if rs.s.height < minHeightAutoWithdraw then (rs, .out (.ok 0)) else
  -- getLocksFromIterator(LockIteratorBeforeTime(now)) panics on a reference without a lock
  match getLocksFromIterator rs.s.locks (maturedWalk rs.refs rs.s.now) with
  | none => (rs, .fault .dangling)
  | some _ =>
    -- the locks the walk yields, withdrawn in id order (kept abstraction of M-Lockup)
    match withdrawAllR blocked
        ((rs.s.locks.filter (fun l => (maturedWalk rs.refs rs.s.now).contains l.id)).map (·.id)) rs with
    | none => (rs, .out .panic)
    | some rs' => (rs', .out (.ok 0))

/-! ### step -/

def rstep (blocked : Actor → Bool) (p : Params) (rs : RState) : Op → RState × ROut
  | .lock a d amt dur => lockTokensR p rs a d amt dur
  | .unlock a id c => beginUnlockingR rs a id c
  | .extend a id dur => extendLockupR rs a id dur
  | .force a id c => forceUnlockR blocked p rs a id c
  | .beginBlock dt => (⟨(beginBlock rs.s dt).1, rs.refs⟩, .out (.ok 0))
  | .endBlock => endBlockR blocked rs

/-! ### the chain's life: restart (genesis export / import) and parameter changes -/

structure RChain where
  c : Chain
  refs : Refs

/-- the loop of `InitializeAllLocks` on the references: `setLockAndAddLockRefs` of every lock of the
    genesis, in order, on the empty store; `none` = the first clash (InitializeAllLocks returns the
    error, InitGenesis drops it: the rest of the genesis is not imported — not represented, proved
    unreachable for an exported genesis: `restart_never_clashes`) -/
def importRefs : List Lock → Refs → Option Refs
  | [], r => some r
  | l :: ls, r =>
    match addLockRefs r l with
    | none => none
    | some r' => importRefs ls r'

/-- `GetPeriodLocks` as the keeper computes it: `LockIterator(false)` then `LockIterator(true)`, each a
    walk of the by-duration family, `GetLockByID` of every id -/
def periodLocksR (rs : RState) : Option (List Lock) :=
  match getLocksFromIterator rs.s.locks (walk rs.refs (qAll (queueOf true) fDur 0 0)),
        getLocksFromIterator rs.s.locks (walk rs.refs (qAll (queueOf false) fDur 0 0)) with
  | some us, some ns => some (ns ++ us)
  | _, _ => none

/-- export (`ExportGenesis`; the exported list is M-Lockup's `periodLocks`, which `periodLocksR` — the
    keeper's own reference walk — is compared with on every op of the correspondence run and proved to
    be a permutation of: `periodLocksR_perm`), then `InitGenesis` on a fresh application with an empty
    store: the references are rebuilt by `importRefs` -/
def restartR (rc : RChain) : RChain × ROut :=
  match periodLocksR ⟨rc.c.s, rc.refs⟩ with
  | none => (rc, .fault .dangling)
  | some _ =>
    match importRefs (exportGenesis rc.c.s).locks [] with
    | none => (rc, .fault .refClash)
    | some refs => (⟨restart rc.c, refs⟩, .out (.ok 0))

def rcstep (blocked : Actor → Bool) (rc : RChain) : COp → RChain × ROut
  | .msg op =>
    let r := rstep blocked rc.c.p ⟨rc.c.s, rc.refs⟩ op
    (⟨{ rc.c with s := r.1.s }, r.1.refs⟩, r.2)
  | .restart => restartR rc
  | .setParams m f al => (⟨setParams rc.c m f al, rc.refs⟩, .out (.ok 0))

def rcrun (blocked : Actor → Bool) (rc : RChain) : List COp → RChain
  | [] => rc
  | op :: ops => rcrun blocked (rcstep blocked rc op).1 ops

def rcinit (p : Params) (bal : Actor → Denom → Nat) (now height : Nat) : RChain :=
  ⟨cinit p bal now height, []⟩

/-! ### the image of the lock table, and the index-driven queries of the keeper -/

/-- the references a stored lock must have -/
def lockRefs (l : Lock) : List RefK := (refKeysOf l).map (fun k => mkRef (queueOf l.isUnlocking) k l.id)

/-- the image of the lock table -/
def refsOf (locks : List Lock) : List RefK := locks.flatMap lockRefs

/-- `GetAccountPeriodLocks`: not-unlocking then unlocking, by-account-duration family -/
def accountPeriodLocksR (rs : RState) (a : Actor) : Option (List Lock) :=
  match getLocksFromIterator rs.s.locks (walk rs.refs (qAll (queueOf true) fAccDur a 0)),
        getLocksFromIterator rs.s.locks (walk rs.refs (qAll (queueOf false) fAccDur a 0)) with
  | some us, some ns => some (ns ++ us)
  | _, _ => none

/-- `GetAccountUnlockableCoins` of one denom: `AccountLockIteratorBeforeTime(addr, now)` -/
def accountUnlockableCoinsR (rs : RState) (a : Actor) (d : Denom) : Option Nat :=
  (getLocksFromIterator rs.s.locks (walk rs.refs (qBefore (queueOf true) fAccTime a 0 rs.s.now))).map (coinsOf · d)

/-- `GetAccountUnlockingCoins` of one denom: `AccountLockIteratorAfterTime(addr, now)` -/
def accountUnlockingCoinsR (rs : RState) (a : Actor) (d : Denom) : Option Nat :=
  (getLocksFromIterator rs.s.locks (walk rs.refs (qAfter (queueOf true) fAccTime a 0 rs.s.now))).map (coinsOf · d)

/-- `GetAccountLockedCoins` of one denom: the not-unlocking locks plus the unlocking ones that are
    not yet due -/
def accountLockedCoinsR (rs : RState) (a : Actor) (d : Denom) : Option Nat :=
  match getLocksFromIterator rs.s.locks (walk rs.refs (qAll (queueOf false) fAccDur a 0)),
        accountUnlockingCoinsR rs a d with
  | some ns, some u => some (coinsOf ns d + u)
  | _, _ => none

/-- `GetLocksLongerThanDurationDenom(denom, k)` (ids): by-denom-duration family, both queues -/
def locksLongerThanDurationDenomR (rs : RState) (d : Denom) (k : Nat) : Option (List Lock) :=
  match getLocksFromIterator rs.s.locks (walk rs.refs (qLonger (queueOf true) fDenomDur 0 d k)),
        getLocksFromIterator rs.s.locks (walk rs.refs (qLonger (queueOf false) fDenomDur 0 d k)) with
  | some us, some ns => some (ns ++ us)
  | _, _ => none

end DymVerif.Lockup
