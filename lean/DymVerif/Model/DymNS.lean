/-
  Model/DymNS — executable model of x/dymns (core Lean only), mirroring the Go code as it is.

  Abstractions (see registry.d/C17.json `assumptions`):
  * accounts, names, aliases, chains, sub-name paths and contact strings are small naturals; the
    harness maps them injectively to real strings (A-norm).  Chain 0 is the host chain (stored as
    the empty chain-id in configs).
  * an address is `(hrp, acct)`: bech32 prefix id and account-bytes id.  hrp 0 is the host prefix.
    bech32/hex/EIP-55 text conversion and the 0x / "extra format" resolution paths are not modelled.
  * one price denom; amounts are `Nat` (`math.Int`, never negative here).
  * `hostLit` (999) is not the id of any text: it marks a stored config whose chain-id is the host
    chain-id written out literally (only the chain-id migration can store that; a message stores the
    host chain as the empty chain-id = chain 0).  Op arguments, handles and working chains range over
    text ids (0 = the host chain-id text), never over `hostLit`.
  * the texts of chain-ids and aliases are ordered (`UpdateAliases` sorts them): `chainKey` /
    `aliasKey` mirror the order of the harness encoders' texts.
  * reverse-lookup lists are kept in insertion order and never re-sorted (the Go code sorts after a
    removal); every observation of them is canonicalised by sorting.
-/
namespace DymVerif.DymNS

/-! ## association maps -/

abbrev AMap (κ ν : Type) := List (κ × ν)

namespace AMap
variable {κ ν : Type} [DecidableEq κ]

def get : AMap κ ν → κ → Option ν
  | [], _ => none
  | (k', v) :: m, k => if k = k' then some v else get m k

def del : AMap κ ν → κ → AMap κ ν
  | [], _ => []
  | (k', v) :: m, k => if k = k' then del m k else (k', v) :: del m k

/-- replace in place, else append -/
def set : AMap κ ν → κ → ν → AMap κ ν
  | [], k, v => [(k, v)]
  | (k', v') :: m, k, v => if k = k' then (k, v) :: m else (k', v') :: set m k v

def keys (m : AMap κ ν) : List κ := m.map (·.1)

end AMap

/-! ## reverse-lookup records: key ↦ list of ids (`GenericAdd/RemoveReverseLookupRecord`) -/

abbrev Idx (κ : Type) := AMap κ (List Nat)

namespace Idx
variable {κ : Type} [DecidableEq κ]

def lookup (i : Idx κ) (k : κ) : List Nat := (AMap.get i k).getD []

def add (i : Idx κ) (k : κ) (n : Nat) : Idx κ :=
  match AMap.get i k with
  | some l => if n ∈ l then i else AMap.set i k (l ++ [n])
  | none => AMap.set i k [n]

def remove (i : Idx κ) (k : κ) (n : Nat) : Idx κ :=
  match AMap.get i k with
  | none => i
  | some l =>
    let l' := l.filter (· ≠ n)
    if l'.length = l.length then i
    else if l' = [] then AMap.del i k
    else AMap.set i k l'

end Idx

/-! ## records -/

abbrev Acct := Nat
abbrev Name := Nat
abbrev AliasId := Nat
abbrev Chain := Nat
abbrev Path := Nat

structure Addr where
  hrp : Nat
  acct : Nat
  deriving DecidableEq, Repr, Inhabited

/-- host-chain address of an account -/
def hostAddr (a : Acct) : Addr := ⟨0, a⟩

structure Config where
  chain : Chain
  path : Path
  value : Addr
  deriving DecidableEq, Repr, Inhabited

structure DymName where
  owner : Acct
  controller : Acct
  expireAt : Nat
  configs : List Config
  contact : Nat
  deriving DecidableEq, Repr, Inhabited

structure Bid where
  bidder : Acct
  price : Nat
  dst : Chain          -- alias orders: destination RollApp (Params[0]); names: 0
  deriving DecidableEq, Repr, Inhabited

structure SellOrder where
  /-- ghost field (not in the Go struct, never read by any operation): who placed the order -/
  seller : Acct
  expireAt : Nat
  minPrice : Nat
  sellPrice : Nat      -- 0 = not set
  bid : Option Bid
  deriving DecidableEq, Repr, Inhabited

structure BuyOrder where
  isAlias : Bool
  asset : Nat
  dst : Chain
  buyer : Acct
  offer : Nat
  counter : Nat        -- 0 = no counterparty offer
  deriving DecidableEq, Repr, Inhabited

structure Rollapp where
  owner : Acct
  hrp : Nat            -- bech32 prefix id; 0 = GenesisInfo.Bech32Prefix empty
  deriving DecidableEq, Repr, Inhabited

structure Params where
  tradeName : Bool
  tradeAlias : Bool
  grace : Nat
  soDur : Nat
  minOffer : Nat
  bidInc : Nat
  priceExtends : Nat
  nameSteps : List Nat
  aliasSteps : List Nat
  /-- `Chains.AliasesOfChainIds` -/
  chainAliases : List (Chain × List AliasId)
  deriving Repr, Inhabited

inductive Err
  | notfound | denied | unauth | precond | invalid | exists_ | funds | unknown
  deriving DecidableEq, Repr, Inhabited

def Err.str : Err → String
  | .notfound => "notfound" | .denied => "denied" | .unauth => "unauth" | .precond => "precond"
  | .invalid => "invalid" | .exists_ => "exists" | .funds => "funds" | .unknown => "unknown"

/-- the Dym-Name records and their three reverse indexes -/
structure NameStore where
  names : AMap Name DymName
  ownIdx : Idx Acct
  cfgIdx : Idx Addr
  fbIdx : Idx Nat
  deriving Repr, Inhabited

/-- RollApps (x/rollapp, as far as x/dymns reads them) and the alias <-> RollApp maps -/
structure AliasStore where
  rollapps : AMap Chain Rollapp
  aliasTo : AMap AliasId Chain
  aliasesOf : AMap Chain (List AliasId)
  deriving Repr, Inhabited

structure State where
  now : Nat
  p : Params
  ns : NameStore
  nameSO : AMap Name SellOrder
  aliasSO : AMap AliasId SellOrder
  bos : AMap Nat BuyOrder
  boCount : Nat
  boBuyer : Idx Acct
  boName : Idx Name
  boAlias : Idx AliasId
  al : AliasStore
  bal : AMap Acct Nat
  modBal : Nat
  deriving Repr, Inhabited

def Params.default : Params :=
  { tradeName := true, tradeAlias := true, grace := 0, soDur := 1, minOffer := 1, bidInc := 0,
    priceExtends := 1, nameSteps := [1], aliasSteps := [1], chainAliases := [] }

def State.init : State :=
  { now := 0, p := Params.default, ns := ⟨[], [], [], []⟩, nameSO := [],
    aliasSO := [], bos := [], boCount := 0, boBuyer := [], boName := [], boAlias := [],
    al := ⟨[], [], []⟩, bal := [], modBal := 0 }

/-- the state a trace starts from: nothing registered, given params and block time -/
def State.start (p : Params) (t : Nat) : State := { State.init with now := t, p := p }

abbrev M := Except Err

def chk (c : Bool) (e : Err) : M Unit := if c then .ok () else .error e

/-! ## bank -/

def balOf (s : State) (a : Acct) : Nat := (AMap.get s.bal a).getD 0

/-- `SendCoinsFromAccountToModule` -/
def toModule (s : State) (a : Acct) (amt : Nat) : M State :=
  if balOf s a < amt then .error .funds
  else .ok { s with bal := AMap.set s.bal a (balOf s a - amt), modBal := s.modBal + amt }

/-- `SendCoinsFromModuleToAccount` -/
def fromModule (s : State) (a : Acct) (amt : Nat) : M State :=
  if s.modBal < amt then .error .funds
  else .ok { s with bal := AMap.set s.bal a (balOf s a + amt), modBal := s.modBal - amt }

/-- `SendCoinsFromAccountToModule` followed by `BurnCoins` of the same amount -/
def payAndBurn (s : State) (a : Acct) (amt : Nat) : M State :=
  if balOf s a < amt then .error .funds
  else .ok { s with bal := AMap.set s.bal a (balOf s a - amt) }

/-! ## Dym-Name records and the reverse-mapping hooks -/

def DymName.expired (d : DymName) (now : Nat) : Bool := d.expireAt < now

def Config.isDefault (c : Config) : Bool := c.chain = 0 ∧ c.path = 0

/-- the name configs `GetAddressesForReverseMapping` works on: the stored configs, plus a fake
    default record pointing to the owner when no default config exists -/
def DymName.revConfigs (d : DymName) : List Config :=
  if d.configs.any Config.isDefault then d.configs else d.configs ++ [⟨0, 0, hostAddr d.owner⟩]

/-- keys of `configuredAddressesToConfigs` -/
def DymName.cfgAddrs (d : DymName) : List Addr := d.revConfigs.map (·.value)

/-- keys of `fallbackAddressesToConfigs` (account bytes of the default config's value) -/
def DymName.fbAddrs (d : DymName) : List Nat := (d.revConfigs.filter Config.isDefault).map (·.value.acct)

namespace NameStore

def get (ns : NameStore) (n : Name) : Option DymName := AMap.get ns.names n

/-- `BeforeDymNameOwnerChanged` -/
def beforeOwner (ns : NameStore) (n : Name) : NameStore :=
  match ns.get n with
  | none => ns
  | some d => { ns with ownIdx := ns.ownIdx.remove d.owner n }

/-- `AfterDymNameOwnerChanged` -/
def afterOwner (ns : NameStore) (n : Name) : M NameStore :=
  match ns.get n with
  | none => .error .notfound
  | some d => .ok { ns with ownIdx := ns.ownIdx.add d.owner n }

/-- `BeforeDymNameConfigChanged` -/
def beforeConfig (ns : NameStore) (n : Name) : NameStore :=
  match ns.get n with
  | none => ns
  | some d =>
    { ns with cfgIdx := d.cfgAddrs.foldl (fun i a => i.remove a n) ns.cfgIdx,
              fbIdx := d.fbAddrs.foldl (fun i a => i.remove a n) ns.fbIdx }

/-- `AfterDymNameConfigChanged` -/
def afterConfig (ns : NameStore) (n : Name) : M NameStore :=
  match ns.get n with
  | none => .error .notfound
  | some d =>
    .ok { ns with cfgIdx := d.cfgAddrs.foldl (fun i a => i.add a n) ns.cfgIdx,
                  fbIdx := d.fbAddrs.foldl (fun i a => i.add a n) ns.fbIdx }

/-- `SetDymName` (record validation is established by the callers' checks) -/
def set (ns : NameStore) (n : Name) (d : DymName) : NameStore := { ns with names := AMap.set ns.names n d }

/-- `DeleteDymName` -/
def delete (ns : NameStore) (n : Name) : NameStore :=
  let ns := beforeOwner ns n
  let ns := beforeConfig ns n
  { ns with names := AMap.del ns.names n }

/-- set a record whose owner and configuration may both have changed, then run both After hooks -/
def setAfterBoth (ns : NameStore) (n : Name) (d : DymName) : M NameStore := do
  let ns := set ns n d
  let ns ← afterOwner ns n
  afterConfig ns n

/-- a config change on a stored record: Before hook, set, After hook -/
def setConfigChanged (ns : NameStore) (n : Name) (d : DymName) : M NameStore := do
  let ns := beforeConfig ns n
  let ns := set ns n d
  afterConfig ns n

end NameStore

def getName (s : State) (n : Name) : Option DymName := s.ns.get n

/-- `GetDymNameWithExpirationCheck` -/
def getNameLive (s : State) (n : Name) : Option DymName :=
  match getName s n with
  | some d => if d.expired s.now then none else some d
  | none => none

def setName (s : State) (n : Name) (d : DymName) : State := { s with ns := s.ns.set n d }

def setNameAfterBoth (s : State) (n : Name) (d : DymName) : M State := do
  let ns ← s.ns.setAfterBoth n d
  pure { s with ns := ns }

def setNameConfigChanged (s : State) (n : Name) (d : DymName) : M State := do
  let ns ← s.ns.setConfigChanged n d
  pure { s with ns := ns }

/-- `RefundBid` -/
def refundBid (s : State) (b : Bid) : M State := fromModule s b.bidder b.price

/-- `PruneDymName` -/
def pruneName (s : State) (n : Name) : M State := do
  let s ← match AMap.get s.nameSO n with
    | none => pure s
    | some so => do
      let s ← match so.bid with
        | none => pure s
        | some b => refundBid s b
      pure { s with nameSO := AMap.del s.nameSO n }
  match getName s n with
  | none => pure s
  | some _ => pure { s with ns := s.ns.delete n }

/-! ## prices -/

def elemOrLast (l : List Nat) (i : Nat) : Nat :=
  if i ≥ l.length then l.getLastD 0 else l.getD i 0

/-- the harness gives name id `n` a text of length `n % 7 + 1`, alias id `l` one of length `l % 5 + 2` -/
def nameLen (n : Name) : Nat := n % 7 + 1
def aliasLen (l : AliasId) : Nat := l % 5 + 2

def firstYearPrice (p : Params) (n : Name) : Nat := elemOrLast p.nameSteps (nameLen n - 1)
def aliasPrice (p : Params) (l : AliasId) : Nat := elemOrLast p.aliasSteps (aliasLen l - 1)

def yearSeconds : Nat := 86400 * 365

/-- divisor of the minimum bid increment: `highestBid.MulRaw(percent).QuoRaw(100)` -/
def bidIncDivisor : Nat := 100

/-- buy-order id prefixes (`BuyOrderIdTypeDymNamePrefix` / `BuyOrderIdTypeAliasPrefix`) -/
def orderPrefix (isAlias : Bool) : String := if isAlias then "20" else "10"

/-! ## name messages -/

/-- what `RegisterName` is going to write: the record, the price, and whether the previous record
    is pruned first (new registration, renewal of an expired name, take-over) or kept (extension) -/
structure RegPlan where
  record : DymName
  cost : Nat
  prune : Bool

def regPlan (s : State) (a : Acct) (n : Name) (dur contact : Nat) : RegPlan :=
  let add := yearSeconds * dur
  let fresh : DymName := { owner := a, controller := a, expireAt := s.now + add, configs := [], contact := contact }
  let first := firstYearPrice s.p n + s.p.priceExtends * (dur - 1)
  match getName s n with
  | none => ⟨fresh, first, true⟩
  | some d =>
    if d.owner = a then
      if d.expired s.now then ⟨fresh, s.p.priceExtends * dur, true⟩
      else ⟨{ d with expireAt := d.expireAt + add, contact := if contact ≠ 0 then contact else d.contact },
            s.p.priceExtends * dur, false⟩
    else ⟨fresh, first, true⟩

/-- `validateRegisterName`: somebody else's name can only be taken over once it has expired and
    the grace period has passed -/
def regAllowed (s : State) (a : Acct) (n : Name) : M Unit :=
  match getName s n with
  | some d =>
    if d.owner = a then pure ()
    else do
      chk (d.expired s.now) .unauth
      chk (decide (¬ s.now < d.expireAt + s.p.grace)) .precond
  | none => pure ()

/-- `MsgRegisterName` -/
def registerName (s : State) (a : Acct) (n : Name) (dur : Nat) (pay : Nat) (contact : Nat) : M State := do
  chk (decide (1 ≤ dur)) .invalid
  chk (decide (pay ≠ 0)) .invalid
  regAllowed s a n
  let plan := regPlan s a n dur contact
  chk (decide (plan.cost = pay)) .invalid
  let s ← payAndBurn s a plan.cost
  if plan.prune then do
    let s ← pruneName s n
    setNameAfterBoth s n plan.record
  else
    pure (setName s n plan.record)

/-- `transferDymNameOwnership` -/
def transferOwnership (s : State) (n : Name) (d : DymName) (newOwner : Acct) : M State := do
  let s ← pruneName s n
  setNameAfterBoth s n { owner := newOwner, controller := newOwner, expireAt := d.expireAt, configs := [], contact := 0 }

/-- `MsgTransferDymNameOwnership` -/
def transferName (s : State) (a : Acct) (n : Name) (newOwner : Acct) : M State := do
  chk (decide (newOwner ≠ a)) .invalid
  match getName s n with
  | none => .error .notfound
  | some d =>
    chk (decide (d.owner = a)) .denied
    chk (!d.expired s.now) .unauth
    chk (AMap.get s.nameSO n).isNone .precond
    transferOwnership s n d newOwner

/-- `MsgSetController` -/
def setController (s : State) (a : Acct) (n : Name) (c : Acct) : M State := do
  match getName s n with
  | none => .error .notfound
  | some d =>
    chk (decide (d.owner = a)) .denied
    chk (!d.expired s.now) .unauth
    chk (decide (d.controller ≠ c)) .invalid
    pure (setName s n { d with controller := c })

def isRollapp (s : State) (c : Chain) : Bool := (AMap.get s.al.rollapps c).isSome

def isCreator (s : State) (c : Chain) (a : Acct) : Bool :=
  match AMap.get s.al.rollapps c with
  | some r => r.owner = a
  | none => false

/-- `GetRollAppBech32Prefix` (0 = not found) -/
def rollappHrp (s : State) (c : Chain) : Nat :=
  match AMap.get s.al.rollapps c with
  | some r => r.hrp
  | none => 0

def sameId (c : Config) (chain : Chain) (path : Path) : Bool := c.chain = chain ∧ c.path = path

/-- replace the config with the same identity in place, else append -/
def upsertConfig : List Config → Config → List Config
  | [], c => [c]
  | x :: xs, c => if sameId x c.chain c.path then c :: xs else x :: upsertConfig xs c

/-- remove the first config with that identity -/
def removeConfig : List Config → Chain → Path → List Config
  | [], _, _ => []
  | x :: xs, ch, p => if sameId x ch p then xs else x :: removeConfig xs ch p

/-- `MsgUpdateResolveAddress`; `value = none` is the delete form (empty `ResolveTo`).
    `emptyChain`: the host chain was given as the empty chain-id (then ValidateBasic already
    rejects a non-host bech32 prefix, before any state is read) rather than by its chain-id. -/
def updateResolveAddress (s : State) (a : Acct) (n : Name) (chain : Chain) (emptyChain : Bool) (path : Path)
    (value : Option Addr) : M State := do
  match value with
  | some v => chk (!(chain = 0 && emptyChain && v.hrp ≠ 0)) .invalid
  | none => pure ()
  match getName s n with
  | none => .error .notfound
  | some d =>
    chk (!d.expired s.now) .unauth
    chk (decide (d.controller = a)) .denied
    match value with
    | some v =>
      if chain = 0 then chk (decide (v.hrp = 0)) .invalid
      else if isRollapp s chain then
        (if rollappHrp s chain ≠ 0 then chk (decide (v.hrp = rollappHrp s chain)) .invalid else pure ())
      else pure ()
      setNameConfigChanged s n { d with configs := upsertConfig d.configs ⟨chain, path, v⟩ }
    | none =>
      chk (d.configs.any (sameId · chain path)) .notfound
      setNameConfigChanged s n { d with configs := removeConfig d.configs chain path }

/-- contact argument of `MsgUpdateDetails` -/
inductive ContactArg
  | keep | set (c : Nat)     -- `set 0` clears
  deriving DecidableEq, Repr

/-- `MsgUpdateDetails` -/
def updateDetails (s : State) (a : Acct) (n : Name) (contact : ContactArg) (clear : Bool) : M State := do
  chk (!(contact = .keep && !clear)) .invalid
  match getName s n with
  | none => .error .notfound
  | some d =>
    chk (!d.expired s.now) .unauth
    chk (decide (d.controller = a)) .denied
    chk (!(contact = .keep && clear && d.configs.isEmpty)) .invalid
    let d1 : DymName := match contact with
      | .keep => d
      | .set c => { d with contact := c }
    if clear && !d.configs.isEmpty then
      setNameConfigChanged s n { d1 with configs := [] }
    else
      pure (setName s n d1)

/-! ## sell orders -/

def SellOrder.expired (so : SellOrder) (now : Nat) : Bool := so.expireAt < now

/-- `HasFinished` -/
def SellOrder.finished (so : SellOrder) (now : Nat) : Bool :=
  so.expired now ||
    (so.sellPrice ≠ 0 &&
      match so.bid with
      | none => false
      | some b => decide (so.sellPrice ≤ b.price))

/-- `CompleteDymNameSellOrder` -/
def completeNameSO (s : State) (n : Name) : M State := do
  match getName s n with
  | none => .error .notfound
  | some d =>
    match AMap.get s.nameSO n with
    | none => .error .notfound
    | some so =>
      chk (so.finished s.now) .precond
      match so.bid with
      | none => .error .precond
      | some b =>
        let s ← fromModule s d.owner b.price
        let s := { s with nameSO := AMap.del s.nameSO n, ns := (s.ns.beforeOwner n).beforeConfig n }
        setNameAfterBoth s n { d with owner := b.bidder, controller := b.bidder, configs := [], contact := 0 }

/-- ValidateBasic of a new sell order -/
def soBasic (min sell : Nat) : M Unit := do
  chk (decide (min ≠ 0)) .invalid
  chk (decide (sell = 0 ∨ min ≤ sell)) .invalid

/-- `MsgPlaceSellOrder`, type Dym-Name -/
def placeNameSO (s : State) (a : Acct) (n : Name) (min sell : Nat) : M State := do
  soBasic min sell
  chk s.p.tradeName .precond
  match getName s n with
  | none => .error .notfound
  | some d =>
    chk (decide (d.owner = a)) .denied
    chk (!d.expired s.now) .unauth
    chk (AMap.get s.nameSO n).isNone .exists_
    let e := s.now + s.p.soDur
    chk (decide (¬ d.expireAt ≤ e)) .denied
    let so : SellOrder := { seller := a, expireAt := e, minPrice := min, sellPrice := sell, bid := none }
    pure { s with nameSO := AMap.set s.nameSO n so }

/-- `MsgCancelSellOrder`, type Dym-Name -/
def cancelNameSO (s : State) (a : Acct) (n : Name) : M State := do
  match getName s n with
  | none => .error .notfound
  | some d =>
    chk (decide (d.owner = a)) .denied
    match AMap.get s.nameSO n with
    | none => .error .notfound
    | some so =>
      chk so.bid.isNone .precond
      pure { s with nameSO := AMap.del s.nameSO n }

/-- `MsgCompleteSellOrder`, type Dym-Name -/
def completeNameSOMsg (s : State) (a : Acct) (n : Name) : M State := do
  match AMap.get s.nameSO n with
  | none => .error .notfound
  | some so =>
    match so.bid with
    | none => .error .precond
    | some b =>
      chk (so.finished s.now) .precond
      match getName s n with
      | none => .error .notfound
      | some d =>
        chk (decide (d.owner = a ∨ b.bidder = a)) .denied
        if !s.p.tradeName || d.expired s.now then do
          let s ← refundBid s b
          pure { s with nameSO := AMap.del s.nameSO n }
        else completeNameSO s n

/-- `genericValidateSellOrderOfPurchaseOrder` -/
def validatePurchase (s : State) (so : SellOrder) (offer : Nat) : M Unit := do
  chk (!so.expired s.now) .precond
  chk (!so.finished s.now) .precond
  chk (decide (so.minPrice ≤ offer)) .invalid
  chk (decide (so.sellPrice = 0 ∨ offer ≤ so.sellPrice)) .invalid
  match so.bid with
  | none => pure ()
  | some b =>
    chk (decide (b.price < offer)) .invalid
    if s.p.bidInc > 0 then
      let inc := b.price * s.p.bidInc / bidIncDivisor
      if inc > 0 then
        let want := b.price + inc
        if so.sellPrice ≠ 0 ∧ so.sellPrice < want then pure ()
        else chk (decide (want ≤ offer)) .invalid
      else pure ()
    else pure ()

/-- refund the previous bidder, take the new bid -/
def takeBid (s : State) (so : SellOrder) (a : Acct) (offer : Nat) : M State := do
  let s ← match so.bid with
    | none => pure s
    | some b => refundBid s b
  toModule s a offer

/-- `MsgPurchaseOrder`, type Dym-Name -/
def purchaseName (s : State) (a : Acct) (n : Name) (offer : Nat) : M State := do
  chk (decide (offer ≠ 0)) .invalid
  chk s.p.tradeName .precond
  match getName s n with
  | none => .error .notfound
  | some d =>
    chk (decide (d.owner ≠ a)) .denied
    match AMap.get s.nameSO n with
    | none => .error .notfound
    | some so =>
      validatePurchase s so offer
      let s ← takeBid s so a offer
      let so' := { so with bid := some ⟨a, offer, 0⟩ }
      let s := { s with nameSO := AMap.set s.nameSO n so' }
      if so'.finished s.now then completeNameSO s n else pure s

/-! ## buy orders -/

/-- order ids are "10"/"20" ++ count; the model key is the count, the prefix is the asset type -/
def getBO (s : State) (isAlias : Bool) (id : Nat) : Option BuyOrder :=
  match AMap.get s.bos id with
  | some bo => if bo.isAlias = isAlias then some bo else none
  | none => none

/-- `removeBuyOrder` -/
def removeBO (s : State) (id : Nat) (bo : BuyOrder) : State :=
  { s with bos := AMap.del s.bos id,
           boBuyer := s.boBuyer.remove bo.buyer id,
           boName := if bo.isAlias then s.boName else s.boName.remove bo.asset id,
           boAlias := if bo.isAlias then s.boAlias.remove bo.asset id else s.boAlias }

/-- the continue-order checks shared by both asset types -/
def validateContinue (s : State) (isAlias : Bool) (a : Acct) (asset : Nat) (offer : Nat)
    (cont : Option (Bool × Nat)) : M (Option (Nat × BuyOrder)) :=
  match cont with
  | none => pure none
  | some (pfxAlias, id) =>
    match getBO s pfxAlias id with
    | none => .error .notfound
    | some bo => do
      chk (decide (bo.buyer = a)) .denied
      chk (decide (bo.isAlias = isAlias ∧ bo.asset = asset)) .invalid
      chk (decide (bo.offer < offer)) .invalid
      pure (some (id, bo))

/-- insert or raise, then deposit (the difference when raising) -/
def putBO (s : State) (isAlias : Bool) (a : Acct) (asset : Nat) (dst : Chain) (offer : Nat)
    (existing : Option (Nat × BuyOrder)) : M State :=
  match existing with
  | some (id, bo) =>
    let s := { s with bos := AMap.set s.bos id { bo with offer := offer } }
    toModule s a (offer - bo.offer)
  | none =>
    let id := s.boCount + 1
    let bo : BuyOrder := { isAlias := isAlias, asset := asset, dst := dst, buyer := a, offer := offer, counter := 0 }
    let s := { s with boCount := id, bos := AMap.set s.bos id bo,
                      boBuyer := s.boBuyer.add a id,
                      boName := if isAlias then s.boName else s.boName.add asset id,
                      boAlias := if isAlias then s.boAlias.add asset id else s.boAlias }
    toModule s a offer

/-- `MsgPlaceBuyOrder`, type Dym-Name -/
def placeNameBO (s : State) (a : Acct) (n : Name) (offer : Nat) (cont : Option (Bool × Nat)) : M State := do
  chk (decide (offer ≠ 0)) .invalid
  chk s.p.tradeName .precond
  match getNameLive s n with
  | none => .error .notfound
  | some d =>
    chk (decide (d.owner ≠ a)) .invalid
    chk (decide (s.p.minOffer ≤ offer)) .invalid
    let ex ← validateContinue s false a n offer cont
    putBO s false a n 0 offer ex

/-- `MsgCancelBuyOrder` -/
def cancelBO (s : State) (a : Acct) (pfxAlias : Bool) (id : Nat) : M State := do
  match getBO s pfxAlias id with
  | none => .error .notfound
  | some bo =>
    chk (decide (bo.buyer = a)) .denied
    let s ← fromModule s bo.buyer bo.offer
    pure (removeBO s id bo)

/-- `MsgAcceptBuyOrder`, type Dym-Name -/
def acceptNameBO (s : State) (a : Acct) (id : Nat) (bo : BuyOrder) (minAccept : Nat) : M State := do
  chk s.p.tradeName .precond
  match getNameLive s bo.asset with
  | none => .error .notfound
  | some d =>
    chk (decide (d.owner = a)) .denied
    chk (decide (bo.buyer ≠ a)) .denied
    chk (decide (bo.offer ≤ minAccept)) .invalid
    if minAccept = bo.offer then do
      chk (AMap.get s.nameSO bo.asset).isNone .denied
      let s ← fromModule s d.owner bo.offer
      let s := removeBO s id bo
      transferOwnership s bo.asset d bo.buyer
    else
      pure { s with bos := AMap.set s.bos id { bo with counter := minAccept } }

/-! ## aliases -/

def reserved (p : Params) (l : AliasId) : Bool := p.chainAliases.any (fun r => r.2.contains l)

namespace AliasStore

def isRollapp (al : AliasStore) (c : Chain) : Bool := (AMap.get al.rollapps c).isSome

def aliases (al : AliasStore) (c : Chain) : List AliasId := (AMap.get al.aliasesOf c).getD []

/-- `SetAliasForRollAppId` -/
def setAlias (al : AliasStore) (c : Chain) (l : AliasId) : M AliasStore := do
  chk (al.isRollapp c) .invalid
  chk (AMap.get al.aliasTo l).isNone .exists_
  pure { al with aliasesOf := AMap.set al.aliasesOf c (al.aliases c ++ [l]), aliasTo := AMap.set al.aliasTo l c }

/-- `RemoveAliasFromRollAppId` -/
def removeAlias (al : AliasStore) (c : Chain) (l : AliasId) : M AliasStore := do
  chk (al.isRollapp c) .invalid
  match AMap.get al.aliasTo l with
  | none => .error .notfound
  | some c' =>
    chk (decide (c' = c)) .denied
    let rest := (al.aliases c).filter (· ≠ l)
    chk (decide (rest.length ≠ (al.aliases c).length)) .notfound
    pure { al with aliasesOf := if rest = [] then AMap.del al.aliasesOf c else AMap.set al.aliasesOf c rest,
                   aliasTo := AMap.del al.aliasTo l }

/-- `MoveAliasToRollAppId` -/
def moveAlias (al : AliasStore) (src : Chain) (l : AliasId) (dst : Chain) : M AliasStore := do
  chk (al.isRollapp src) .invalid
  chk (al.isRollapp dst) .invalid
  match AMap.get al.aliasTo l with
  | none => .error .notfound
  | some c =>
    chk (decide (c = src)) .denied
    let al ← al.removeAlias src l
    al.setAlias dst l

end AliasStore

def aliasesOf (s : State) (c : Chain) : List AliasId := s.al.aliases c

/-- `CanUseAliasForNewRegistration` (alias texts are never RollApp ids: disjoint name spaces) -/
def canUseAlias (s : State) (l : AliasId) : Bool := !reserved s.p l && (AMap.get s.al.aliasTo l).isNone

def setAlias (s : State) (c : Chain) (l : AliasId) : M State := do
  let al ← s.al.setAlias c l
  pure { s with al := al }

def removeAlias (s : State) (c : Chain) (l : AliasId) : M State := do
  let al ← s.al.removeAlias c l
  pure { s with al := al }

def moveAlias (s : State) (src : Chain) (l : AliasId) (dst : Chain) : M State := do
  let al ← s.al.moveAlias src l dst
  pure { s with al := al }

/-- `registerAliasForRollApp`: every failure is reported as ErrUnknown joined with the cause; the
    harness reports insufficient funds as `funds` -/
def registerAliasFor (s : State) (c : Chain) (a : Acct) (l : AliasId) (cost : Nat) : M State := do
  let s ← payAndBurn s a cost
  match setAlias s c l with
  | .ok s => pure s
  | .error _ => .error .unknown

/-- `MsgCreateRollapp` as far as x/dymns is concerned: the record is stored, then the
    `RollappCreated` hook registers the (mandatory) alias -/
def createRollapp (s : State) (a : Acct) (c : Chain) (hrp : Nat) (l : AliasId) : M State := do
  chk (!isRollapp s c) .exists_
  let al := s.al
  let s := { s with al := { al with rollapps := AMap.set al.rollapps c ⟨a, hrp⟩ } }
  chk (canUseAlias s l) .exists_
  registerAliasFor s c a l (aliasPrice s.p l)

/-- `MsgRegisterAlias` -/
def registerAlias (s : State) (a : Acct) (c : Chain) (l : AliasId) (pay : Nat) : M State := do
  chk (decide (pay ≠ 0)) .invalid
  match AMap.get s.al.rollapps c with
  | none => .error .notfound
  | some r =>
    chk (decide (r.owner = a)) .denied
    chk (canUseAlias s l) .exists_
    chk (decide (aliasPrice s.p l = pay)) .invalid
    registerAliasFor s c a l (aliasPrice s.p l)

/-- `CompleteAliasSellOrder` -/
def completeAliasSO (s : State) (l : AliasId) : M State := do
  match AMap.get s.aliasSO l with
  | none => .error .notfound
  | some so =>
    chk (so.finished s.now) .precond
    match so.bid with
    | none => .error .precond
    | some b =>
      match AMap.get s.al.aliasTo l with
      | none => .error .notfound
      | some src =>
        match AMap.get s.al.rollapps src with
        | none => .error .notfound
        | some r =>
          chk (isRollapp s b.dst) .invalid
          let s ← fromModule s r.owner b.price
          let s := { s with aliasSO := AMap.del s.aliasSO l }
          let s ← removeAlias s src l
          setAlias s b.dst l

/-- `MsgPlaceSellOrder`, type Alias -/
def placeAliasSO (s : State) (a : Acct) (l : AliasId) (min sell : Nat) : M State := do
  soBasic min sell
  chk s.p.tradeAlias .precond
  chk (!reserved s.p l) .denied
  match AMap.get s.al.aliasTo l with
  | none => .error .notfound
  | some src =>
    chk (isCreator s src a) .denied
    chk (AMap.get s.aliasSO l).isNone .exists_
    let so : SellOrder := { seller := a, expireAt := s.now + s.p.soDur, minPrice := min, sellPrice := sell, bid := none }
    pure { s with aliasSO := AMap.set s.aliasSO l so }

/-- `MsgCancelSellOrder`, type Alias -/
def cancelAliasSO (s : State) (a : Acct) (l : AliasId) : M State := do
  match AMap.get s.al.aliasTo l with
  | none => .error .notfound
  | some src =>
    chk (isCreator s src a) .denied
    match AMap.get s.aliasSO l with
    | none => .error .notfound
    | some so =>
      chk so.bid.isNone .precond
      pure { s with aliasSO := AMap.del s.aliasSO l }

/-- `MsgCompleteSellOrder`, type Alias -/
def completeAliasSOMsg (s : State) (a : Acct) (l : AliasId) : M State := do
  match AMap.get s.aliasSO l with
  | none => .error .notfound
  | some so =>
    match so.bid with
    | none => .error .precond
    | some b =>
      chk (so.finished s.now) .precond
      match AMap.get s.al.aliasTo l with
      | none => .error .notfound
      | some src =>
        chk (isCreator s src a || decide (b.bidder = a)) .denied
        if reserved s.p l || !s.p.tradeAlias then do
          let s ← refundBid s b
          pure { s with aliasSO := AMap.del s.aliasSO l }
        else completeAliasSO s l

/-- the destination / source checks shared by purchase and place-buy-order, type Alias -/
def validateAliasDst (s : State) (a : Acct) (l : AliasId) (dst : Chain) : M Unit := do
  chk (isRollapp s dst) .invalid
  chk (isCreator s dst a) .denied
  match AMap.get s.al.aliasTo l with
  | none => .error .notfound
  | some src =>
    chk (decide (dst ≠ src)) .invalid
    chk (!reserved s.p l) .denied

/-- `MsgPurchaseOrder`, type Alias -/
def purchaseAlias (s : State) (a : Acct) (l : AliasId) (offer : Nat) (dst : Chain) : M State := do
  chk (decide (offer ≠ 0)) .invalid
  chk s.p.tradeAlias .precond
  validateAliasDst s a l dst
  match AMap.get s.aliasSO l with
  | none => .error .notfound
  | some so =>
    validatePurchase s so offer
    let s ← takeBid s so a offer
    let so' := { so with bid := some ⟨a, offer, dst⟩ }
    let s := { s with aliasSO := AMap.set s.aliasSO l so' }
    if so'.finished s.now then completeAliasSO s l else pure s

/-- `MsgPlaceBuyOrder`, type Alias -/
def placeAliasBO (s : State) (a : Acct) (l : AliasId) (offer : Nat) (cont : Option (Bool × Nat))
    (dst : Chain) : M State := do
  chk (decide (offer ≠ 0)) .invalid
  chk s.p.tradeAlias .precond
  validateAliasDst s a l dst
  chk (decide (s.p.minOffer ≤ offer)) .invalid
  let ex ← validateContinue s true a l offer cont
  putBO s true a l dst offer ex

/-- `MsgAcceptBuyOrder`, type Alias -/
def acceptAliasBO (s : State) (a : Acct) (id : Nat) (bo : BuyOrder) (minAccept : Nat) : M State := do
  chk s.p.tradeAlias .denied
  chk (!reserved s.p bo.asset) .denied
  match AMap.get s.al.aliasTo bo.asset with
  | none => .error .notfound
  | some src =>
    chk (isCreator s src a) .denied
    match AMap.get s.al.rollapps src with
    | none => .error .notfound
    | some r =>
      chk (decide (bo.buyer ≠ a)) .denied
      chk (decide (bo.offer ≤ minAccept)) .invalid
      chk (isRollapp s bo.dst) .invalid
      if minAccept = bo.offer then do
        chk (AMap.get s.aliasSO bo.asset).isNone .denied
        let s ← fromModule s r.owner bo.offer
        let s := removeBO s id bo
        moveAlias s src bo.asset bo.dst
      else
        pure { s with bos := AMap.set s.bos id { bo with counter := minAccept } }

/-- `MsgAcceptBuyOrder` -/
def acceptBO (s : State) (a : Acct) (pfxAlias : Bool) (id : Nat) (minAccept : Nat) : M State := do
  chk (decide (minAccept ≠ 0)) .invalid
  match getBO s pfxAlias id with
  | none => .error .notfound
  | some bo => if bo.isAlias then acceptAliasBO s a id bo minAccept else acceptNameBO s a id bo minAccept

/-! ## x/rollapp `MsgTransferOwnership` (x/dymns reads `rollapp.Owner` through `IsRollAppCreator`) -/

/-- `MsgTransferOwnership` of x/rollapp as far as x/dymns is concerned: only the owner field of the
    RollApp record changes (no dymns hook runs) -/
def transferRollapp (s : State) (a : Acct) (c : Chain) (b : Acct) : M State :=
  match AMap.get s.al.rollapps c with
  | none => .error .notfound
  | some r => do
    chk (decide (r.owner = a)) .denied
    chk (decide (r.owner ≠ b)) .invalid
    let al := s.al
    pure { s with al := { al with rollapps := AMap.set al.rollapps c { r with owner := b } } }

/-! ## governance (x/dymns/keeper/proposal.go, msg_server_update_params.go) -/

/-- the stored chain-id of a config that carries the host chain-id text literally (see the header) -/
def hostLit : Chain := 999

/-- the chain-id text a stored config stands for: the host chain-id for the empty text and for the literal -/
def cfgText (c : Chain) : Chain := if c = hostLit then 0 else c

/-- a chain-id text written into a config as it is (no normalisation of the host chain-id) -/
def litChain (c : Chain) : Chain := if c = 0 then hostLit else c

/-- the identity `DymNameConfig.GetIdentity` compares (one config type) -/
def cid (c : Config) : Chain × Path := (c.chain, c.path)

/-- one config through the loop of `migrateChainIdsInDymNames`: an empty chain-id is skipped -/
def migConfig (m : List (Chain × Chain)) (c : Config) : Config :=
  if c.chain = 0 then c
  else
    match AMap.get m (cfgText c.chain) with
    | some new => { c with chain := litChain new }
    | none => c

/-- one Dym-Name through `migrateChainIdsInDymNames`: expired names are not loaded; a record none of
    whose chain-ids is replaced, or whose rewritten form fails `DymName.Validate` (two configs with the
    same identity), is left as it is; otherwise it is stored with `SetDymName` — no Before/After
    config hook runs -/
def migName (now : Nat) (m : List (Chain × Chain)) (d : DymName) : DymName :=
  if d.expired now then d
  else if ((d.configs.map (migConfig m)).map cid).Nodup then { d with configs := d.configs.map (migConfig m) }
  else d

/-- `migrateChainIdsInParams`: a record of a replaced chain-id moves to the new chain-id, unless the
    new chain-id already has a record (then the old record is dropped) -/
def migrateCA (ca : List (Chain × List AliasId)) (m : List (Chain × Chain)) : List (Chain × List AliasId) :=
  ca.filterMap (fun r =>
    match AMap.get m r.1 with
    | some new => if ca.any (fun r' => r'.1 = new) then none else some (new, r.2)
    | none => some r)

/-- `validateAliasesOfChainIds` (texts are well formed: A-norm): chain-ids and aliases unique among all -/
def caValid (ca : List (Chain × List AliasId)) : Bool :=
  decide ((ca.map (·.1)).Nodup) && decide ((ca.flatMap (·.2)).Nodup)

/-- `MigrateChainIdsProposal.ValidateBasic` -/
def migValid (m : List (Chain × Chain)) : Bool :=
  !m.isEmpty && decide ((m.flatMap (fun r => [r.1, r.2])).Nodup)

/-- `MigrateChainIdsProposal` (handler + `Keeper.MigrateChainIds`) -/
def migrateChainIds (s : State) (m : List (Chain × Chain)) : M State := do
  chk (migValid m) .invalid
  let ca := migrateCA s.p.chainAliases m
  chk (caValid ca) .invalid
  let q := s.p
  let ns := s.ns
  pure { s with p := { q with chainAliases := ca },
                ns := { ns with names := ns.names.map (fun e => (e.1, migName s.now m e.2)) } }

/-- order of the chain-id texts of the harness encoders: cosmoshub-4 (100) < dymension_100-1 (0) <
    injective-1 (102) < juno-1 (103) < osmosis-1 (101) < rol<letter>_… (RollApps 1, 2, …) -/
def chainKey (c : Chain) : Nat :=
  if c = 100 then 0 else if c = 0 then 1 else if c = 102 then 2 else if c = 103 then 3 else if c = 101 then 4 else 5 + c

/-- order of the alias texts of the harness encoders: cosmos (1001) < dym (1000) < inj (1002) <
    jun (1003) < k…k<letter> (`l % 5 + 1` times k, then letter `l / 5`; letters before k: l < 50) -/
def aliasKey (l : AliasId) : Nat :=
  if l = 1001 then 0 else if l = 1000 then 1 else if l = 1002 then 2 else if l = 1003 then 3 else 4 + (l % 5) * 1000 + l / 5

def insByKey {α : Type} (key : α → Nat) (x : α) : List α → List α
  | [] => [x]
  | y :: ys => if key x < key y then x :: y :: ys else y :: insByKey key x ys

/-- `GetSortedStringKeys` -/
def sortByKey {α : Type} (key : α → Nat) (l : List α) : List α := l.foldr (insByKey key) []

/-- the `add` loop of `UpdateAliases` -/
def uaAdd (m : AMap Chain (List AliasId)) : List (Chain × AliasId) → M (AMap Chain (List AliasId))
  | [] => pure m
  | (c, l) :: rest =>
    let ex := (AMap.get m c).getD []
    if l ∈ ex then .error .exists_ else uaAdd (AMap.set m c (ex ++ [l])) rest

/-- the `remove` loop of `UpdateAliases` -/
def uaRemove (m : AMap Chain (List AliasId)) : List (Chain × AliasId) → M (AMap Chain (List AliasId))
  | [] => pure m
  | (c, l) :: rest =>
    match AMap.get m c with
    | none => .error .notfound
    | some ex =>
      if l ∈ ex then
        let ex' := ex.filter (· ≠ l)
        uaRemove (if ex' = [] then AMap.del m c else AMap.set m c ex') rest
      else .error .notfound

/-- `UpdateAliasesProposal` (handler + `Keeper.UpdateAliases`) -/
def updateAliases (s : State) (add remove : List (Chain × AliasId)) : M State := do
  chk (!(add ++ remove).isEmpty && decide ((add ++ remove).Nodup)) .invalid
  let m0 : AMap Chain (List AliasId) := s.p.chainAliases.foldl (fun m r => AMap.set m r.1 r.2.eraseDups) []
  let m1 ← uaAdd m0 add
  let m2 ← uaRemove m1 remove
  let ca := (sortByKey (fun e => chainKey e.1) m2).map (fun e => (e.1, sortByKey aliasKey e.2))
  chk (caValid ca) .invalid
  let q := s.p
  pure { s with p := { q with chainAliases := ca } }

/-- `MinPriceValue` -/
def minPriceValue : Nat := 10 ^ 18

/-- `MsgUpdateParams` carrying new price params (same denom and price steps, new minimum offer and
    bid increment) and new misc params (same switches, new grace period and sell-order duration), with
    `validatePriceParams` / `validateMiscParams` on the changed fields -/
def setParams (s : State) (grace soDur minOffer bidInc : Nat) : M State := do
  chk (decide (minPriceValue ≤ minOffer)) .invalid
  chk (decide (bidInc ≤ 10)) .invalid
  chk (decide (30 * 86400 ≤ grace)) .invalid
  chk (decide (1 ≤ soDur ∧ soDur ≤ 7 * 86400)) .invalid
  let q := s.p
  pure { s with p := { q with grace := grace, soDur := soDur, minOffer := minOffer, bidInc := bidInc } }

/-! ## operations -/

inductive Op
  | fund (a : Acct) (amt : Nat)
  | advance (dt : Nat)
  | trading (name alias : Bool)
  | setChainAliases (ca : List (Chain × List AliasId))
  | register (a : Acct) (n : Name) (dur pay contact : Nat)
  | transfer (a : Acct) (n : Name) (b : Acct)
  | setController (a : Acct) (n : Name) (c : Acct)
  | updateResolve (a : Acct) (n : Name) (chain : Chain) (emptyChain : Bool) (path : Path) (value : Option Addr)
  | updateDetails (a : Acct) (n : Name) (contact : ContactArg) (clear : Bool)
  | sellName (a : Acct) (n : Name) (min sell : Nat)
  | cancelSellName (a : Acct) (n : Name)
  | completeName (a : Acct) (n : Name)
  | buyName (a : Acct) (n : Name) (offer : Nat)
  | offerName (a : Acct) (n : Name) (offer : Nat) (cont : Option (Bool × Nat))
  | cancelOffer (a : Acct) (pfxAlias : Bool) (id : Nat)
  | acceptOffer (a : Acct) (pfxAlias : Bool) (id : Nat) (minAccept : Nat)
  | createRollapp (a : Acct) (c : Chain) (hrp : Nat) (l : AliasId)
  | registerAlias (a : Acct) (c : Chain) (l : AliasId) (pay : Nat)
  | sellAlias (a : Acct) (l : AliasId) (min sell : Nat)
  | cancelSellAlias (a : Acct) (l : AliasId)
  | completeAlias (a : Acct) (l : AliasId)
  | buyAlias (a : Acct) (l : AliasId) (offer : Nat) (dst : Chain)
  | offerAlias (a : Acct) (l : AliasId) (offer : Nat) (cont : Option (Bool × Nat)) (dst : Chain)
  | transferRollapp (a : Acct) (c : Chain) (b : Acct)
  | migrateChainIds (m : List (Chain × Chain))
  | updateAliases (add remove : List (Chain × AliasId))
  | setParams (grace soDur minOffer bidInc : Nat)
  deriving Repr

/-- one operation; an error leaves the state untouched (baseapp's per-message cache context) -/
def exec (s : State) : Op → M State
  | .fund a amt => pure { s with bal := AMap.set s.bal a (balOf s a + amt) }
  | .advance dt => pure { s with now := s.now + dt }
  | .trading n a =>
    let q := s.p
    pure { s with p := { q with tradeName := n, tradeAlias := a } }
  | .setChainAliases ca =>
    let q := s.p
    pure { s with p := { q with chainAliases := ca } }
  | .register a n dur pay c => registerName s a n dur pay c
  | .transfer a n b => transferName s a n b
  | .setController a n c => setController s a n c
  | .updateResolve a n ch e p v => updateResolveAddress s a n ch e p v
  | .updateDetails a n c cl => updateDetails s a n c cl
  | .sellName a n mn sl => placeNameSO s a n mn sl
  | .cancelSellName a n => cancelNameSO s a n
  | .completeName a n => completeNameSOMsg s a n
  | .buyName a n o => purchaseName s a n o
  | .offerName a n o c => placeNameBO s a n o c
  | .cancelOffer a p i => cancelBO s a p i
  | .acceptOffer a p i m => acceptBO s a p i m
  | .createRollapp a c h l => createRollapp s a c h l
  | .registerAlias a c l pay => registerAlias s a c l pay
  | .sellAlias a l mn sl => placeAliasSO s a l mn sl
  | .cancelSellAlias a l => cancelAliasSO s a l
  | .completeAlias a l => completeAliasSOMsg s a l
  | .buyAlias a l o d => purchaseAlias s a l o d
  | .offerAlias a l o c d => placeAliasBO s a l o c d
  | .transferRollapp a c b => transferRollapp s a c b
  | .migrateChainIds m => migrateChainIds s m
  | .updateAliases ad rm => updateAliases s ad rm
  | .setParams g d mo bi => setParams s g d mo bi

def step (s : State) (op : Op) : State :=
  match exec s op with
  | .ok s' => s'
  | .error _ => s

def run (s : State) (ops : List Op) : State := ops.foldl step s

/-! ## queries -/

/-- `GetDymNamesOwnedBy` (ids) -/
def ownedBy (s : State) (a : Acct) : List Name :=
  (s.ns.ownIdx.lookup a).filter (fun n => match getNameLive s n with
    | some d => d.owner = a
    | none => false)

/-- a chain-id-or-alias text -/
inductive Handle
  | chain (c : Chain)
  | alias (l : AliasId)
  deriving DecidableEq, Repr

/-- `tryResolveChainIdOrAliasToChainId` -/
def resolveHandle (s : State) (h : Handle) : Option Chain :=
  if h = .chain 0 then some 0
  else
    match s.p.chainAliases.find? (fun r => h = .chain r.1 || match h with | .alias l => r.2.contains l | _ => false) with
    | some r => some r.1
    | none =>
      match h with
      | .chain c => if isRollapp s c then some c else none
      | .alias l => AMap.get s.al.aliasTo l

def findConfig (d : DymName) (chain : Chain) (path : Path) : Option Addr :=
  (d.configs.find? (sameId · chain path)).map (·.value)

/-- the chain-id the second resolution attempt works with: the translated handle, or the handle
    itself when it cannot be translated (an untranslatable alias text is no chain-id of the model) -/
def handleChain (s : State) (h : Handle) : Option Chain :=
  match resolveHandle s h with
  | some c => some c
  | none => (match h with | .chain c => some c | .alias _ => none)

/-- `ResolveByDymNameAddress` for `path.name@handle` (no extra formats) -/
def resolve (s : State) (path : Path) (n : Name) (h : Handle) : Option Addr :=
  match getNameLive s n with
  | none => none
  | some d =>
    let first := match h with
      | .chain c => findConfig d c path
      | .alias _ => none
    match first with
    | some v => some v
    | none =>
      match handleChain s h with
      | none => none
      | some c =>
        match findConfig d c path with
        | some v => some v
        | none =>
          if path ≠ 0 then none
          else if c = 0 then some (hostAddr d.owner)
          else if !isRollapp s c then none
          else if rollappHrp s c = 0 then none
          else
            let to := match findConfig d 0 0 with
              | some v => v.acct
              | none => d.owner
            some ⟨rollappHrp s c, to⟩

/-- `GetEffectiveAliasesByChainId` -/
def effectiveAliases (s : State) (c : Chain) : List AliasId :=
  let fromParams := match s.p.chainAliases.find? (fun r => r.1 = c) with
    | some r => r.2
    | none => []
  if isRollapp s c then fromParams ++ (aliasesOf s c).filter (fun l => !reserved s.p l) else fromParams

/-- `ReplaceChainIdWithAliasIfPossible` for one chain -/
def prettyChain (s : State) (c : Chain) : Handle :=
  match effectiveAliases s c with
  | l :: _ => .alias l
  | [] => .chain c

def liveNames (s : State) (ns : List Name) : List (Name × DymName) :=
  ns.filterMap (fun n => (getNameLive s n).map (fun d => (n, d)))

/-- `reverseResolveDymNameAddressUsingConfiguredAddress`: (path, name) pairs whose record on the
    working chain has the queried value (`AppendConfigs` prints the empty chain-id as the host
    chain-id, so a record stored under the literal host chain-id matches the host chain as well) -/
def revByConfig (s : State) (addr : Addr) (wc : Chain) : List (Path × Name) :=
  (liveNames s (s.ns.cfgIdx.lookup addr)).flatMap (fun (n, d) =>
    (d.revConfigs.filter (fun c => c.value = addr ∧ cfgText c.chain = wc)).map (fun c => (c.path, n)))

/-- `fallbackReverseResolveDymNameAddress`: names whose default record has the queried account bytes -/
def revByFallback (s : State) (addr : Addr) : List (Path × Name) :=
  (liveNames s (s.ns.fbIdx.lookup addr.acct)).filterMap (fun (n, d) =>
    if (d.revConfigs.filter (fun c => c.isDefault ∧ c.value.acct = addr.acct)).isEmpty then none else some (0, n))

/-- `ReverseResolveDymNameAddress` for a bech32 input; results before pretty-printing:
    (path, name) pairs, all on the working chain -/
def reverseRaw (s : State) (addr : Addr) (wc : Chain) : List (Path × Name) :=
  if !(revByConfig s addr wc).isEmpty then revByConfig s addr wc
  else if wc ≠ 0 ∧ !isRollapp s wc then []
  else revByFallback s addr

def reverse (s : State) (addr : Addr) (wc : Chain) : List (Path × Name × Handle) :=
  (reverseRaw s addr wc).map (fun (p, n) => (p, n, prettyChain s wc))

/-- all escrowed funds: highest bids of open sell orders plus open buy-order offers -/
def bidOf (so : SellOrder) : Nat := match so.bid with | some b => b.price | none => 0
def sumBids (m : AMap Nat SellOrder) : Nat := (m.map (fun e => bidOf e.2)).sum
def sumOffers (m : AMap Nat BuyOrder) : Nat := (m.map (fun e => e.2.offer)).sum
def escrowed (s : State) : Nat := sumBids s.nameSO + sumBids s.aliasSO + sumOffers s.bos

end DymVerif.DymNS
