/-
  Model/Keys (M-Keys) — hand-written executable model of the hub's identifier and store-key
  encoders/decoders that property C19 is about.  Tied to the source by
  (1) `Gen/Keys.lean` (regenerated from the Go source on every run) + `Lemmas/GenEqKeys.lean`
  (2) the C19 correspondence run (real Go functions vs these definitions on the same inputs).
-/
import DymVerif.Base.Bytes
import DymVerif.Base.Base64
namespace DymVerif.Keys
open DymVerif

def sep : Nat := 47   -- '/'

inductive Status | pending | finalized
  deriving DecidableEq, Repr

inductive PType | onRecv | onAck | onTimeout | undefined
  deriving DecidableEq, Repr

/-- `MustGetStatusBytes` -/
def statusBytes : Status → Bytes
  | .pending => [0, 1]
  | .finalized => [0, 2]

/-- `Status.String()` -/
def statusStr : Status → Bytes
  | .pending => [80, 69, 78, 68, 73, 78, 71] /- "PENDING" -/
  | .finalized => [70, 73, 78, 65, 76, 73, 90, 69, 68] /- "FINALIZED" -/

/-- `RollappPacket_Type.String()` -/
def ptypeStr : PType → Bytes
  | .onRecv => [79, 78, 95, 82, 69, 67, 86] /- "ON_RECV" -/
  | .onAck => [79, 78, 95, 65, 67, 75] /- "ON_ACK" -/
  | .onTimeout => [79, 78, 95, 84, 73, 77, 69, 79, 85, 84] /- "ON_TIMEOUT" -/
  | .undefined => [85, 78, 68, 69, 70, 73, 78, 69, 68] /- "UNDEFINED" -/

/-- `RollappPacketByStatusPrefix` : status "/" -/
def byStatusPrefix (st : Status) : Bytes := statusBytes st ++ [sep]

/-- `RollappPacketByStatusByRollappIDPrefix` : status "/" rollapp "/" -/
def byStatusRollappPrefix (st : Status) (rollapp : Bytes) : Bytes :=
  byStatusPrefix st ++ (rollapp ++ [sep])

/-- `RollappPacketByStatusByRollappIDByProofHeightPrefix` -/
def byStatusRollappHeightPrefix (rollapp : Bytes) (st : Status) (h : Nat) : Bytes :=
  byStatusRollappPrefix st rollapp ++ be64 h

/-- `RollappPacketKey` -/
def rollappPacketKey (st : Status) (rollapp : Bytes) (h : Nat) (t : PType) (ch : Bytes) (seq : Nat) : Bytes :=
  byStatusRollappHeightPrefix rollapp st h ++ [sep] ++ ptypeStr t ++ [sep] ++ ch ++ [sep] ++ be64 seq

/-- `EncodePacketKey` -/
def encodePacketKey (k : Bytes) : Bytes := b64enc k

/-- `DecodePacketKey` as written in the source: decode into a `DecodedLen`-sized zeroed buffer and
    trim trailing zero bytes ("remove padding").  Because the buffer tail is zeros, this equals
    trimming the decoded bytes. -/
def decodePacketKeyTrim (s : Bytes) : Option Bytes := (b64dec s).map trimRight0

/-- `DecodePacketKey` slicing by the decoded length instead of trimming. -/
def decodePacketKeyExact (s : Bytes) : Option Bytes := b64dec s

/-- `GetDemandOrderKey` : prefix "/" statusString "/" orderId -/
def demandOrderKey (st : Status) (orderId : Bytes) : Bytes :=
  statusBytes st ++ [sep] ++ statusStr st ++ [sep] ++ orderId

/-- `LivenessEventQueueIterHeightKey` -/
def livenessIterHeightKey (h : Nat) : Bytes := [76, 105, 118, 101, 110, 101, 115, 115, 69, 118, 101, 110, 116, 81, 117, 101, 117, 101] /- "LivenessEventQueue" -/ ++ [sep] ++ be64 h

/-- `LivenessEventQueueKey` -/
def livenessKey (h : Nat) (rollapp : Bytes) : Bytes :=
  livenessIterHeightKey h ++ [sep] ++ [115] /- "s" -/ ++ [sep] ++ rollapp

/-- `LivenessEventQueueKeyToEvent` (index arithmetic as in the source; total here via drop/take) -/
def livenessKeyToEvent (k : Bytes) : Nat × Bytes :=
  let i := ([76, 105, 118, 101, 110, 101, 115, 115, 69, 118, 101, 110, 116, 81, 117, 101, 117, 101] /- "LivenessEventQueue" -/).length + 1
  let j := i + 8 + 1
  let l := j + 1 + 1
  (beVal ((k.drop i).take 8), k.drop l)

/-- `SequencersByRollappKey` : 0x01 "/" rollapp  (no trailing separator) -/
def sequencersByRollappKey (rollapp : Bytes) : Bytes := [1] ++ [sep] ++ rollapp

inductive OpStatus | unbonded | bonded
  deriving DecidableEq, Repr

def opStatusPrefix : OpStatus → Bytes
  | .bonded => [0xa1]
  | .unbonded => [0xa2]

/-- `SequencersByRollappByStatusKey` -/
def sequencersByRollappByStatusKey (rollapp : Bytes) (st : OpStatus) : Bytes :=
  sequencersByRollappKey rollapp ++ [sep] ++ opStatusPrefix st

/-- `SequencerByRollappByStatusKey` -/
def sequencerByRollappByStatusKey (rollapp addr : Bytes) (st : OpStatus) : Bytes :=
  sequencersByRollappByStatusKey rollapp st ++ addr

/-- range scan `[start, end)` over a key -/
def inRange (start stop k : Bytes) : Bool := lexLe start k && lexLt k stop

/-- `PendingByRollappIDByMaxHeight` range; `maxProofHeight+1` wraps in uint64 as in Go -/
def pendingByMaxHeightRange (rollapp : Bytes) (maxH : Nat) : Bytes × Bytes :=
  (byStatusRollappHeightPrefix rollapp .pending 0,
   byStatusRollappHeightPrefix rollapp .pending ((maxH + 1) % 2 ^ 64))

/-- `PendingByRollappIDFromHeight` range -/
def pendingFromHeightRange (rollapp : Bytes) (fromH : Nat) : Bytes × Bytes :=
  (byStatusRollappHeightPrefix rollapp .pending fromH,
   byStatusRollappHeightPrefix rollapp .pending (2 ^ 64 - 1))

end DymVerif.Keys
