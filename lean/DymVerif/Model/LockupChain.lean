/-
  Model/LockupChain — M-Lockup over the whole life of a chain (property C14): the six operations of
  `Model/Lockup.step` plus
    * `restart`   : export of the module's genesis followed by `InitGenesis` on a fresh application
                    (chain restart / upgrade-by-genesis), and
    * `setParams` : a change of the lockup parameters in the x/params subspace (governance).
  The parameters therefore become part of the state (`Chain`).  Core Lean only.

  Mirrored Go code (x/lockup, as it is):
    Keeper.ExportGenesis (keeper/genesis.go): `GetPeriodLocks` + `GetLastLockID`
    Keeper.GetPeriodLocks / combineLocks (keeper/store.go): the not-unlocking locks in the order of the
        reference walk `LockIterator(false)` — (duration key, lock id) — then the unlocking ones in
        the order of `LockIterator(true)` (same key shape)
    Keeper.InitGenesis: `SetParams(DefaultParams())` — the exported genesis carries NO params, the
        module writes the defaults (recorded known finding `C18/queries/params.lockup-differs`; mirrored,
        not repaired) —, `SetLastLockID(genState.LastLockId)`, `InitializeAllLocks(genState.Locks)`
    Keeper.InitializeAllLocks (keeper/lock.go): per lock `setLockAndAddLockRefs` (the lock section is
        keyed by the big-endian id: `Genesis.importVals ltNat id`), and the per-(denom, duration) cache
        `accumulationStoreEntries[denom][duration] (+)= amount`, written to the (empty) accumulation
        store with one `Increase` per entry, denoms and durations ascending
    types.DefaultParams (types/params.go), types.DefaultLockFee = DYM / 20 (types/constants.go)
    Keeper.SetParams (keeper/keeper.go): `paramSpace.SetParamSet`

  Abstractions (each exercised by the C14 correspondence run: op lines `restart`, `setparams`):
    * what the OTHER modules' genesis carries across a restart — bank balances (of the actors and of the
      lockup module account), block time and height — is taken over unchanged;
    * the fee denom is the x/txfees base denom, not a lockup parameter: it survives a restart;
    * `setLockAndAddLockRefs` fails when a reference with the same key and id exists (the error is
      swallowed by InitGenesis); the ids of an exported list are distinct (`Inv.nodup`), so the branch
      is not represented;
    * the ghost field `startedAt` is a function of the history and is carried over.
  The generic store vocabulary (`sortBy`, `importVals`, `exportVals`, `ltNat`) is the one of
  Model/Genesis (C18): `periodLocks` / `storeLocks` are C18's `Genesis.periodLocks` /
  `Genesis.importLockup` over M-Lockup's lock record (which adds what C18 abstracts away: the
  accumulation store and the parameters' effect on later messages); `Props/C14Chain`
  `restart_is_c18_import_export` proves the two agree under the encoding `embLock`, for every state.
-/
import DymVerif.Model.Lockup
import DymVerif.Model.Genesis
namespace DymVerif.Lockup

/-! ### parameters as state -/

/-- `types.DefaultLockFee` = `DYM.QuoRaw(20)`, DYM = 10^18 -/
def defaultLockFee : Nat := 50000000000000000

/-- `types.DefaultParams()`; the fee denom (x/txfees base denom) is not a lockup parameter -/
def defaultParams (feeDenom : Denom) : Params := ⟨0, defaultLockFee, [], feeDenom⟩

structure Chain where
  p : Params
  s : State

/-! ### ExportGenesis -/

/-- `types.GenesisState` of x/lockup: no params field -/
structure GenesisState where
  lastLockId : Nat
  locks : List Lock

/-- order of the reference walk `LockIterator`: (duration key, lock id) -/
def refLt (a b : Lock) : Bool :=
  decide (a.duration < b.duration) || (decide (a.duration = b.duration) && decide (a.id < b.id))

/-- `GetPeriodLocks` = `combineLocks(notUnlockings, unlockings)` -/
def periodLocks (ls : List Lock) : List Lock :=
  Genesis.sortBy refLt (ls.filter (fun l => !l.isUnlocking)) ++
  Genesis.sortBy refLt (ls.filter (fun l => l.isUnlocking))

def exportGenesis (s : State) : GenesisState := { lastLockId := s.lastId, locks := periodLocks s.locks }

/-! ### InitGenesis / InitializeAllLocks -/

/-- the cache of `InitializeAllLocks`, lock by lock:
    `accumulationStoreEntries[coin.Denom][lock.Duration]` created with, or increased by, the amount -/
def accCache (locks : List Lock) : List AccEntry :=
  locks.foldl (fun c l => accAdd c l.denom l.duration l.amount) []

/-- `sort.Strings(denoms)`, then per denom `sort.Slice(durations, <)` -/
def accLt (a b : AccEntry) : Bool :=
  decide (a.denom < b.denom) || (decide (a.denom = b.denom) && decide (a.dur < b.dur))

/-- one `accumulationStore(denom).Increase(accumulationKey(d), amt)` per cache entry, on the empty store -/
def accFlush (cache : List AccEntry) : List AccEntry :=
  (Genesis.sortBy accLt cache).foldl (fun acc e => accAdd acc e.denom e.dur e.val) []

/-- the lock section after `setLock` of every lock of the list, walked in key (= id) order -/
def storeLocks (locks : List Lock) : List Lock :=
  Genesis.exportVals (Genesis.importVals Genesis.ltNat (fun l : Lock => l.id) locks)

/-- `InitializeAllLocks` on the empty store: lock section, accumulation store -/
def initializeAllLocks (locks : List Lock) : List Lock × List AccEntry :=
  (storeLocks locks, accFlush (accCache locks))

/-- `InitGenesis` (module state); `s` supplies what the other modules carry over -/
def initGenesis (s : State) (g : GenesisState) : State :=
  { s with lastId := g.lastLockId,
           locks := (initializeAllLocks g.locks).1,
           acc := (initializeAllLocks g.locks).2 }

/-- export, then `InitGenesis` on a fresh application: the params are the defaults afterwards -/
def restart (c : Chain) : Chain :=
  { p := defaultParams c.p.feeDenom, s := initGenesis c.s (exportGenesis c.s) }

/-! ### SetParams -/

def setParams (c : Chain) (minDur fee : Nat) (allowed : List Actor) : Chain :=
  { c with p := { c.p with minDur := minDur, fee := fee, allowed := allowed } }

/-! ### step / run over the chain's life -/

inductive COp
  | msg (op : Op)
  | restart
  | setParams (minDur fee : Nat) (allowed : List Actor)
  deriving Repr

def cstep (c : Chain) : COp → Chain × Out
  | .msg op => ({ c with s := (step c.p c.s op).1 }, (step c.p c.s op).2)
  | .restart => (restart c, .ok 0)
  | .setParams m f al => (setParams c m f al, .ok 0)

def crun (c : Chain) : List COp → Chain
  | [] => c
  | op :: ops => crun (cstep c op).1 ops

/-- a fresh chain with parameters `p` -/
def cinit (p : Params) (bal : Actor → Denom → Nat) (now height : Nat) : Chain :=
  { p := p, s := init bal now height }

end DymVerif.Lockup
