/-
  Model/GB (M-GB) — executable model of the genesis bridge (property C10), mirroring the Go code as it is:

    x/rollapp/types/genesis_info.go              GenesisInfo.ValidateBasic / Launchable / IROReady
    x/rollapp/types/genesis_bridge_data.go       GenesisBridgeData.ValidateBasic, GenesisBridgeInfo.ValidateBasic,
                                                 GenesisAccPackets
    x/rollapp/types/genesis_bridge_data_validator.go   GenesisBridgeValidator.Validate, validateAgainstHub,
                                                 compareGenesisAccounts, validateGenesisTransfer
    x/rollapp/genesisbridge/ibc_module.go        IBCModule.OnRecvPacket, EnableTransfers
    x/rollapp/genesisbridge/ics4_wrapper.go      ICS4Wrapper.transferAllowed
    x/rollapp/keeper/authenticate_packet.go      GetRollappByPortChan (no canonical channel recorded / another one recorded)
    x/lightclient/keeper/ibc_msg_channel_open_ack.go   HandleMsgChannelOpenAck (ante hook, top-level messages only)
    x/denommetadata/keeper/keeper.go             CreateDenomMetadata (ErrAlreadyExists)
    x/rollapp/keeper/rollapp.go                  CheckAndUpdateRollappFields, SetRollappAsLaunched, SetIROPlanToRollapp
    x/rollapp/keeper/msg_server_update_rollapp.go   ForceGenesisInfoChange
    x/rollapp/types/message_create_rollapp.go    GetRollapp (zero-supply hotfix) + Rollapp.ValidateBasic (genesis part)
    x/sequencer/keeper/msg_server_create.go      launch of the rollapp by its first sequencer
    x/iro/keeper/create_plan.go, settle.go       the parts that touch the rollapp (sealing, pre-launch time, settle pre-condition)
    x/iro/keeper/trade.go                        EnableTrading (deferred-trading plans: `MsgCreatePlan.trading_enabled = false`)
    x/iro/types/plan.go                          EnableTradingWithStartTime
    x/rollapp/keeper/rollapp.go                  SetPreLaunchTime
    x/rollapp/keeper/fraud_proposal.go, hard_fork.go   SubmitRollappFraud, HardFork, ForkAllowed, RevertPendingStates
    x/lightclient/keeper/rollback.go             RollbackCanonicalClient (freeze), ResolveHardFork (un-freeze on the next state update)
    x/denommetadata/keeper/rollback.go, x/delayedack/keeper/fraud.go   OnHardFork
    ibc-go 04-channel SendPacket / 03-connection VerifyPacketCommitment   client status must be Active

  Strings are tokens (`Tok = Nat`): 0 is the empty string, 1..999 are valid and pairwise distinct,
  ≥ 1000 are invalid for the validator in question (bad bech32 prefix, bad denom, checksum longer
  than 64 characters, non-bech32 address).  Addresses 900..999 are blocked module accounts.
  Core Lean only.
-/
namespace DymVerif.GB

abbrev Tok := Nat

def tokOk (t : Tok) : Bool := decide (0 < t) && decide (t < 1000)
def addrOk (a : Nat) : Bool := decide (a < 1000)
def blocked (a : Nat) : Bool := decide (900 ≤ a) && decide (a < 1000)
/-- address token of the IRO module account -/
def iroAddr : Nat := 50

structure Acc where
  addr : Nat
  amt : Int
  deriving DecidableEq, Repr, Inhabited

/-- rollapp `DenomMetadata{Display, Base, Exponent}` -/
structure ND where
  base : Tok
  display : Tok
  exp : Nat
  deriving DecidableEq, Repr, Inhabited

def ND.isSet (d : ND) : Bool := !(d.base == 0 && d.display == 0 && d.exp == 0)
/-- `DenomMetadata.Validate`: both denoms valid, exponent 18 -/
def ND.valid (d : ND) : Bool := tokOk d.base && tokOk d.display && d.exp == 18

structure GInfo where
  checksum : Tok
  pfx : Tok
  denom : ND
  supply : Option Int          -- none = nil math.Int
  accounts : List Acc
  sealed : Bool
  deriving DecidableEq, Repr, Inhabited

/-- the zero value as it comes back from the store: a nil `math.Int` marshals as "0", so a stored
    genesis info always has a non-nil initial supply -/
def emptyGI : GInfo := { checksum := 0, pfx := 0, denom := ⟨0, 0, 0⟩, supply := some 0, accounts := [], sealed := false }

/-- `maxAllowedGenesisAccounts` (x/rollapp/types/genesis_info.go) -/
def maxGenesisAccounts : Nat := 100
/-- `MinTokenAllocation` (x/iro/types/plan.go), in whole tokens of 18 decimals -/
def minTokenAllocation : Nat := 10

inductive GErr
  | badPrefix | badChecksum | noNative | badMetadata | badSupply | tooMany | invalidArg
  deriving DecidableEq, Repr, Inhabited

def sumAccs (l : List Acc) : Int := (l.map (·.amt)).sum

def nodupB : List Nat → Bool
  | [] => true
  | x :: xs => !xs.contains x && nodupB xs

/-- every account has a positive amount and a bech32 address, and no address occurs twice -/
def accsOk (l : List Acc) : Bool :=
  l.all (fun a => decide (0 < a.amt) && addrOk a.addr) && nodupB (l.map (·.addr))

def GInfo.launchable (g : GInfo) : Bool := g.checksum != 0 && g.pfx != 0 && g.supply.isSome
def GInfo.iroReady (g : GInfo) : Bool := g.launchable && g.denom.isSet

/-- `GenesisInfo.ValidateBasic` (same order of checks) -/
def GInfo.vb (g : GInfo) : Option GErr :=
  if g.pfx != 0 && !tokOk g.pfx then some .badPrefix
  else if decide (1000 ≤ g.checksum) then some .badChecksum
  else if !g.denom.isSet then
    if (match g.supply with | some s => s != 0 | none => false) then some .noNative
    else if decide (0 < g.accounts.length) then some .noNative
    else none
  else if !g.denom.valid then some .badMetadata
  else if (match g.supply with | some s => decide (s < 0) | none => false) then some .badSupply
  else if decide (0 < g.accounts.length) then
    if decide (maxGenesisAccounts < g.accounts.length) then some .tooMany
    else match g.supply with
      | none => some .badSupply
      | some s =>
        if !accsOk g.accounts then some .invalidArg
        else if decide (s < sumAccs g.accounts) then some .badSupply
        else none
  else none

/-- bank `Metadata` sent by the rollapp.  `sdkOk` / `ibcOk` are oracles: the verdict of the SDK's
    `Metadata.Validate` on the metadata as sent and after `IBCDenom`'s renaming. -/
structure MD where
  base : Tok
  units : List (Tok × Nat)
  sdkOk : Bool
  ibcOk : Bool
  deriving DecidableEq, Repr, Inhabited

/-- ICS-20 `FungibleTokenPacketData`; `recv`: 0 = the constant `HubRecipient`, 1 = another address, 2 = blank;
    `canon`: the amount string is the canonical decimal rendering of `amt` -/
structure FT where
  denom : Tok
  amt : Int
  canon : Bool
  recv : Nat
  senderOk : Bool
  deriving DecidableEq, Repr, Inhabited

def FT.valid (t : FT) : Bool := decide (0 < t.amt) && t.senderOk && t.recv != 2 && tokOk t.denom

structure GBData where
  gi : GInfo
  md : MD
  tr : Option FT
  deriving DecidableEq, Repr, Inhabited

inductive Pkt
  | gb (d : GBData)
  | ft (t : FT)
  | junk
  deriving DecidableEq, Repr, Inhabited

inductive RErr
  | notCanonical | unmarshal | missing | gi (e : GErr) | badMd | mdBase | mdDisplay | badTransfer | trDenom
  | checksum | pfx | denom | supply | accounts
  | trRequired | trUnexpected | trReceiver | trAmount
  | ibcDenom | credit | enable | lower
  | noChannel          -- `GetRollappByPortChan`: canonical client set, canonical channel missing (gerrc.ErrInternal)
  | mdExists           -- `CreateDenomMetadata`: metadata of the rollapp's IBC denom registered beforehand
  deriving DecidableEq, Repr, Inhabited

/-- `GenesisBridgeData.ValidateBasic` -/
def GBData.vb (d : GBData) : Option RErr :=
  if !d.gi.launchable then some .missing
  else match d.gi.vb with
  | some e => some (.gi e)
  | none =>
    match (if d.gi.denom.isSet then
            if !d.md.sdkOk then some RErr.badMd
            else if d.md.base != d.gi.denom.base then some .mdBase
            else if !d.md.units.any (fun u => u.1 == d.gi.denom.display && u.2 == d.gi.denom.exp) then some .mdDisplay
            else none
          else none) with
    | some e => some e
    | none =>
      match d.tr with
      | none => none
      | some t => if !t.valid then some .badTransfer else if d.gi.denom.base != t.denom then some .trDenom else none

/-- `compareGenesisAccounts`: same length and every hub account occurs in the data -/
def compareAccounts (hub data : List Acc) : Bool :=
  hub.length == data.length && hub.all (fun a => data.any (fun b => b.addr == a.addr && b.amt == a.amt))

/-- `validateAgainstHub`; the hub's supply is non-nil for every launched rollapp -/
def againstHub (d : GInfo) (hub : GInfo) : Option RErr :=
  if d.checksum != hub.checksum then some .checksum
  else if d.pfx != hub.pfx then some .pfx
  else if d.denom != hub.denom then some .denom
  else if d.supply != hub.supply then some .supply
  else if !compareAccounts hub.accounts d.accounts then some .accounts
  else none

/-- `validateGenesisTransfer` -/
def checkTransfer (tr : Option FT) (hub : GInfo) : Option RErr :=
  let requires := decide (0 < hub.accounts.length)
  match tr with
  | none => if requires then some .trRequired else none
  | some t =>
    if !requires then some .trUnexpected
    else if t.recv != 0 then some .trReceiver
    else if !(t.canon && t.amt == sumAccs hub.accounts) then some .trAmount
    else none

/-- `GenesisBridgeValidator.Validate` -/
def validate (d : GBData) (hub : GInfo) : Option RErr :=
  match d.vb with
  | some e => some e
  | none =>
    match againstHub d.gi hub with
    | some e => some e
    | none => checkTransfer d.tr hub

-- ------------------------------------------------------------------------------------------ state

structure Ra where
  id : Nat
  gi : GInfo
  launched : Bool
  preLaunch : Option Nat          -- PreLaunchTime (seconds), none = nil
  plan : Option (Int × Bool)      -- IRO plan: (allocation, settled)
  te : Bool                       -- IRO plan: TradingEnabled (false without a plan)
  pstart : Option Nat             -- IRO plan: StartTime (seconds), none = the zero time (trading never enabled)
  pdur : Nat                      -- IRO plan: IroPlanDuration (seconds)
  linked : Bool                   -- has a canonical client
  chan : Option Nat               -- canonical channel
  tph : Nat                       -- GenesisState.TransferProofHeight
  md : Bool                       -- denom metadata of the IBC denom registered
  bal : List (Nat × Int)          -- balances of the rollapp's IBC denom, by address token
  nOpen : Nat                     -- ghost: number of completed handshakes
  lastH : Nat := 0                -- latest rollapp height the hub holds a state update for (0 = none)
  frozen : Bool := false          -- the canonical client is frozen by a hard fork (until the next state update)
  rev : Nat := 0                  -- latest revision number (= number of hard forks)
  deriving DecidableEq, Repr, Inhabited

inductive ChanKind
  | canon (r : Nat) | second (r : Nat) | plain
  deriving DecidableEq, Repr, Inhabited

structure St where
  now : Nat
  ras : List Ra
  chans : List (Nat × ChanKind)
  nextChan : Nat
  deriving DecidableEq, Repr, Inhabited

def init : St := { now := 0, ras := [], chans := [], nextChan := 0 }

def getRa (s : St) (id : Nat) : Option Ra := s.ras.find? (·.id == id)
def setRa (s : St) (r : Ra) : St := { s with ras := s.ras.map (fun x => if x.id == r.id then r else x) }

def getBal (b : List (Nat × Int)) (a : Nat) : Int :=
  match b.find? (·.1 == a) with
  | some x => x.2
  | none => 0

def addBal (b : List (Nat × Int)) (a : Nat) (v : Int) : List (Nat × Int) :=
  if b.any (·.1 == a) then b.map (fun x => if x.1 == a then (a, x.2 + v) else x) else b ++ [(a, v)]

/-- one ICS-20 receive per *data* account, in order; a blocked receiver fails the whole handshake -/
def credit : List Acc → List (Nat × Int) → Option (List (Nat × Int))
  | [], b => some b
  | a :: as, b => if blocked a.addr then none else credit as (addBal b a.addr a.amt)

inductive Res
  | ok | err | panic | async | rerr (e : RErr)
  deriving DecidableEq, Repr, Inhabited

/-- zero-supply hotfix of `MsgCreateRollapp.GetRollapp` / `CheckAndUpdateRollappFields` -/
def hotfix (g : GInfo) : GInfo := if g.supply == some 0 then { g with denom := ⟨0, 0, 0⟩ } else g

inductive Op
  | create (r : Nat) (g : Option GInfo)
  | setgi (r : Nat) (owner : Bool) (g : Option GInfo)
  | force (r : Nat) (gov : Bool) (g : GInfo)
  | plan (r : Nat) (owner : Bool) (alloc : Int) (dur : Nat) (te : Bool) (start : Option Nat)
  | enable (r : Nat) (owner : Bool)
  | tick (dt : Nat)
  | seq (r : Nat)
  | link (r : Nat)
  | link2 (r : Nat)
  | canon (r : Nat)
  | chopen (r : Nat) (via : Nat)
  | premd (r : Nat)
  | update (r : Nat) (n : Nat)
  | fork (r : Nat) (gov : Bool) (h : Nat)
  | plainch
  | send (c : Nat)
  | recv (c : Nat) (ph : Nat) (p : Pkt)
  deriving Repr, Inhabited

/-- what the rest of the transfer stack (delayedack → … → transfer) answers to a packet the genesis
    bridge passes on; trusted, validated by the correspondence run -/
def lowerRollapp : Pkt → Res
  | .ft t => if t.valid then .async else .rerr .lower
  | _ => .rerr .lower

def lowerPlain : Pkt → Res
  | .ft t => if t.valid && t.recv == 1 then .ok else .rerr .lower
  | _ => .rerr .lower

/-- the handshake proper: `OnRecvPacket` for a rollapp whose transfers are not yet enabled -/
def handshake (ra : Ra) (ph : Nat) (p : Pkt) : Ra × Res :=
  match p with
  | .junk => (ra, .rerr .unmarshal)
  | .ft _ => (ra, .rerr .missing)        -- unmarshals to the zero value, which is not launchable
  | .gb d =>
    match validate d ra.gi with
    | some e => (ra, .rerr e)
    | none =>
      if d.gi.denom.isSet && !d.md.ibcOk then (ra, .rerr .ibcDenom)
      -- `CreateDenomMetadata`: ErrAlreadyExists when the bank already has metadata for the rollapp's IBC denom
      else if d.gi.denom.isSet && ra.md then (ra, .rerr .mdExists)
      else
        match credit d.gi.accounts ra.bal with
        | none => (ra, .rerr .credit)
        | some bal' =>
          -- EnableTransfers: proof height, then the IRO hook
          match ra.plan with
          | some (alloc, settled) =>
            if settled || getBal bal' iroAddr != alloc then (ra, .rerr .enable)
            else ({ ra with md := ra.md || d.gi.denom.isSet, bal := bal', tph := ph, plan := some (alloc, true), nOpen := ra.nOpen + 1 }, .ok)
          | none => ({ ra with md := ra.md || d.gi.denom.isSet, bal := bal', tph := ph, nOpen := ra.nOpen + 1 }, .ok)

def newRa (r : Nat) (g : GInfo) : Ra :=
  { id := r, gi := g, launched := false, preLaunch := none, plan := none, te := false, pstart := none, pdur := 0, linked := false,
    chan := none, tph := 0, md := false, bal := [], nOpen := 0, lastH := 0, frozen := false, rev := 0 }

/-- `MsgCreateRollapp`: the message's ValidateBasic (hotfix, genesis info) runs before the keeper looks the rollapp up -/
def stepCreate (s : St) (r : Nat) (g : Option GInfo) : St × Res :=
  match g with
  | some g0 =>
    if g0.supply.isNone then (s, .panic)        -- nil InitialSupply.IsZero()
    else if (hotfix g0).vb.isSome then (s, .err)
    else if (getRa s r).isSome then (s, .err)
    else ({ s with ras := s.ras ++ [newRa r (hotfix g0)] }, .ok)
  | none =>
    if (getRa s r).isSome then (s, .err)
    else ({ s with ras := s.ras ++ [newRa r emptyGI] }, .ok)

/-- `MsgUpdateRollappInformation` → `CheckAndUpdateRollappFields` (genesis-info part) -/
def stepSetgi (s : St) (r : Nat) (owner : Bool) (g : Option GInfo) : St × Res :=
  match getRa s r with
  | none => (s, .err)
  | some ra =>
    match g with
    | none => if owner then (s, .ok) else (s, .err)
    | some g0 =>
      -- ValidateBasic of the message comes first
      if g0.vb.isSome then (s, .err)
      else if !owner then (s, .err)
      else if ra.gi.sealed then (s, .err)
      else if g0.supply.isNone then (s, .panic)
      else if (hotfix g0).vb.isSome then (s, .err)
      else if ra.launched && !(hotfix g0).sealed then (s, .err)
      else (setRa s { ra with gi := hotfix g0 }, .ok)

/-- `MsgForceGenesisInfoChange` (governance only) -/
def stepForce (s : St) (r : Nat) (gov : Bool) (g : GInfo) : St × Res :=
  match getRa s r with
  | none => (s, .err)
  | some ra =>
    if !gov then (s, .err)
    else if g.vb.isSome || !g.launchable then (s, .err)
    else (setRa s { ra with gi := { g with sealed := true } }, .ok)

/-- `time.Hour * 24 * 365 * 10` in seconds: where `SetIROPlanToRollapp` parks the pre-launch time of a
    rollapp whose plan is created with trading disabled -/
def tenYears : Nat := 315360000

/-- `Plan.PreLaunchTime` as set by `Plan.EnableTradingWithStartTime start`: `start + IroPlanDuration` -/
def planPreLaunch (start dur : Nat) : Nat := start + dur

/-- start of trading of a plan created with trading enabled (`Keeper.CreatePlan`): the message's
    `start_time` (`none` = the zero time), moved up to the block time when it lies before it -/
def planStart (now : Nat) (start : Option Nat) : Nat :=
  match start with
  | some t => if t < now then now else t
  | none => now

/-- `MsgCreatePlan` (x/iro) as far as the rollapp is concerned: `ValidateBasic` (a start time needs
    `trading_enabled`; minimum allocation), the message server's checks, `CreatePlan` (trading that is
    enabled at creation starts at max(`start_time`, block time)) → `SetIROPlanToRollapp`, which seals
    the genesis info whatever the trading flag and sets the pre-launch time to the plan's (start +
    duration) when trading is enabled and to block time + 10 years when it is not -/
def stepPlan (s : St) (r : Nat) (owner : Bool) (alloc : Int) (dur : Nat) (te : Bool) (start : Option Nat) : St × Res :=
  if start.isSome && !te then (s, .err)         -- ValidateBasic: "trading must be enabled to set start time"
  else
  match getRa s r with
  | none => (s, .err)
  | some ra =>
    if !owner then (s, .err)
    else if decide (alloc ≤ minTokenAllocation * 10 ^ 18) then (s, .err)       -- MinTokenAllocation (18 decimals)
    else if ra.plan.isSome then (s, .err)
    else match ra.gi.accounts.find? (·.addr == iroAddr) with
      | none => (s, .err)
      | some a =>
        if a.amt != alloc then (s, .err)
        else if ra.gi.denom.exp != 18 then (s, .err)
        else if ra.launched || ra.gi.sealed || !ra.gi.iroReady then (s, .err)
        else (setRa s { ra with gi := { ra.gi with sealed := true },
                                preLaunch := some (if te then planPreLaunch (planStart s.now start) dur else s.now + tenYears),
                                plan := some (alloc, false), te := te,
                                pstart := (if te then some (planStart s.now start) else none), pdur := dur }, .ok)

/-- `MsgEnableTrading` (x/iro `Keeper.EnableTrading`, same order of checks): the plan exists, trading is not
    enabled yet, the submitter owns the rollapp, the plan is not settled; then
    `Plan.EnableTradingWithStartTime(block time)` and `SetPreLaunchTime(plan.PreLaunchTime)`.  Nothing
    else of the rollapp (its genesis info and the seal in particular) is touched. -/
def stepEnable (s : St) (r : Nat) (owner : Bool) : St × Res :=
  match getRa s r with
  | none => (s, .err)                          -- no rollapp, hence no plan
  | some ra =>
    match ra.plan with
    | none => (s, .err)                        -- ErrPlanNotFound
    | some (_, settled) =>
      if ra.te then (s, .err)
      else if !owner then (s, .err)
      else if settled then (s, .err)
      else (setRa s { ra with te := true, pstart := some s.now, preLaunch := some (planPreLaunch s.now ra.pdur) }, .ok)

/-- first `MsgCreateSequencer` of a rollapp: pre-launch time, `SetRollappAsLaunched` -/
def stepSeq (s : St) (r : Nat) : St × Res :=
  match getRa s r with
  | none => (s, .err)
  | some ra =>
    if ra.launched then (s, .ok)
    else if (match ra.preLaunch with | some t => decide (s.now < t) | none => false) then (s, .err)
    else if !ra.gi.launchable then (s, .err)
    else (setRa s { ra with launched := true, gi := { ra.gi with sealed := true } }, .ok)

/-- canonical client + first transfer channel (`HandleMsgChannelOpenAck`) -/
def stepLink (s : St) (r : Nat) : St × Res :=
  match getRa s r with
  | none => (s, .err)
  | some ra =>
    if !ra.launched || ra.linked then (s, .err)
    else
      let s1 := setRa s { ra with linked := true, chan := some s.nextChan }
      ({ s1 with chans := s1.chans ++ [(s.nextChan, .canon r)], nextChan := s.nextChan + 1 }, .ok)

def stepLink2 (s : St) (r : Nat) : St × Res :=
  match getRa s r with
  | none => (s, .err)
  | some ra =>
    if !ra.linked then (s, .err)
    else if ra.frozen then (s, .err)        -- ibc core: no channel handshake over a client that is not active
    else ({ s with chans := s.chans ++ [(s.nextChan, .second r)], nextChan := s.nextChan + 1 }, .ok)

/-- the light client of rollapp `r` becomes canonical (`SetCanonicalClient`); no channel yet -/
def stepCanon (s : St) (r : Nat) : St × Res :=
  match getRa s r with
  | none => (s, .err)
  | some ra =>
    if !ra.launched || ra.linked then (s, .err)
    else (setRa s { ra with linked := true }, .ok)

/-- a transfer channel over the canonical client of `r` reaches OPEN on the hub.
    `via = 0`: the hub's `MsgChannelOpenAck` is a top-level message of its transaction, so the ante
    hook `HandleMsgChannelOpenAck` runs: it refuses the transaction when a canonical channel is
    recorded already (the channel stays in INIT, its identifier is spent) and records the channel as
    canonical otherwise.  `via ≠ 0`: the hook does not run (1: the `MsgChannelOpenAck` is nested in an
    `authz.MsgExec`; 2: the handshake was started from the rollapp, the hub sees `MsgChannelOpenTry` /
    `MsgChannelOpenConfirm` only): the channel opens and `Rollapp.ChannelId` is left as it is. -/
def stepChopen (s : St) (r : Nat) (via : Nat) : St × Res :=
  match getRa s r with
  | none => (s, .err)
  | some ra =>
    if !ra.linked then (s, .err)
    else if ra.frozen then (s, .err)        -- ibc core (`ChanOpenInit` / `ChanOpenTry`): the client is not active; no identifier is spent
    else if via == 0 then
      if ra.chan.isSome then ({ s with nextChan := s.nextChan + 1 }, .err)
      else
        let s1 := setRa s { ra with chan := some s.nextChan }
        ({ s1 with chans := s1.chans ++ [(s.nextChan, .canon r)], nextChan := s.nextChan + 1 }, .ok)
    else ({ s with chans := s.chans ++ [(s.nextChan, .second r)], nextChan := s.nextChan + 1 }, .ok)

/-- governance registers bank metadata for the IBC denom of the rollapp's native denom on its recorded
    canonical channel (`CreateDenomMetadataProposal` → `Keeper.CreateDenomMetadata`) — outside the
    handshake.  Defined for a rollapp with a recorded canonical channel and a native denom (otherwise
    there is no such IBC denom); refused (`ErrAlreadyExists`) when the metadata exists. -/
def stepPremd (s : St) (r : Nat) : St × Res :=
  match getRa s r with
  | none => (s, .err)
  | some ra =>
    if ra.chan.isNone || !ra.gi.denom.isSet then (s, .err)
    else if ra.md then (s, .err)
    else (setRa s { ra with md := true }, .ok)

/-- `MsgUpdateState` for the next `n` blocks of `r`, sent by the rollapp's sequencer (after a hard fork,
    which opts every sequencer out: opted back in — `MsgUpdateOptInStatus` makes it the proposer again —
    and with the new revision number).  With a canonical client frozen by a hard fork this is the first
    state update of the new revision: x/lightclient `AfterUpdateState` → `ResolveHardFork` un-freezes the
    client.  The block descriptors agree with whatever the canonical client holds (headers vs. state
    updates is C09's subject). -/
def stepUpdate (s : St) (r : Nat) (n : Nat) : St × Res :=
  match getRa s r with
  | none => (s, .err)
  | some ra =>
    if !ra.launched || n == 0 then (s, .err)
    else (setRa s { ra with lastH := ra.lastH + n, frozen := false }, .ok)

/-- rollapp height of the one consensus state the fixture's canonical client is created with (`canon` /
    `link`); C10 submits no headers, so below it `RollbackCanonicalClient` finds nothing to freeze at -/
def canonClientHeight : Nat := 10

/-- `MsgRollappFraudProposal` (x/rollapp `SubmitRollappFraud` → `Keeper.HardFork`), fraud height `h`, the
    revision number of that height filled in correctly, nobody punished.  In the order of the code:
    authority; rollapp; `ForkAllowed` (transfers enabled, and not after the last valid height `h - 1`);
    `RevertPendingStates` (needs a state info; no state is finalized in this model: the dispute period
    outlasts every trace) leaves the hub with the heights up to `min lastH (h - 1)`; revision bumped; hooks:
    x/sequencer opts every sequencer out, x/delayedack drops the pending packets above, x/lightclient
    `RollbackCanonicalClient` (needs the canonical client and a consensus state at or below the new last
    height) FREEZES the canonical client, x/denommetadata `ClearRegisteredDenoms` forgets which hub denoms
    the rollapp knows (not the bank metadata).  `TransferProofHeight`, the genesis info, the credited
    vouchers and the bank metadata are not touched. -/
def stepFork (s : St) (r : Nat) (gov : Bool) (h : Nat) : St × Res :=
  if !gov then (s, .err)
  else
  match getRa s r with
  | none => (s, .err)
  | some ra =>
    if h == 0 then (s, .err)                                    -- `FraudHeight - 1` wraps around: nothing to revert to
    else if ra.tph == 0 || decide (h - 1 < ra.tph) then (s, .err)   -- `ForkAllowed`
    else if ra.lastH == 0 then (s, .err)                        -- no state info
    else if !ra.linked then (s, .err)                           -- canonical client not found
    else if decide (min ra.lastH (h - 1) < canonClientHeight) then (s, .err)   -- no consensus state to freeze at
    else (setRa s { ra with lastH := min ra.lastH (h - 1), frozen := true, rev := ra.rev + 1 }, .ok)

/-- `MsgTransfer` from the hub: `ICS4Wrapper.transferAllowed`.  On a channel over the canonical client
    of `r` that is not the recorded canonical channel (`second`) `GetRollappByPortChan` fails with an
    internal error (no canonical channel recorded) or an invalid-argument error (another channel is
    recorded): neither is `ErrRollappNotFound`, so the transfer is refused. -/
def stepSend (s : St) (c : Nat) : St × Res :=
  match s.chans.find? (·.1 == c) with
  | none => (s, .err)
  | some (_, .plain) => (s, .ok)
  | some (_, .second _) => (s, .err)
  | some (_, .canon r) =>
    match getRa s r with
    | none => (s, .err)
    | some ra =>
      if ra.tph == 0 then (s, .err)
      else if ra.frozen then (s, .err)       -- ibc core `SendPacket`: the channel's client is not active
      else (s, .ok)

/-- `IBCModule.OnRecvPacket`; on a `second` channel `GetRollappByPortChan`'s error becomes an error
    acknowledgement ("get rollapp id"), whatever the packet -/
def stepRecv (s : St) (c : Nat) (ph : Nat) (p : Pkt) : St × Res :=
  match s.chans.find? (·.1 == c) with
  | none => (s, .err)
  | some (_, .plain) => (s, lowerPlain p)
  | some (_, .second r) =>
    match getRa s r with
    | none => (s, .err)
    | some ra =>
      if ra.frozen then (s, .err)            -- ibc core `RecvPacket`: the client is not active, the message fails
      else if ra.chan.isNone then (s, .rerr .noChannel) else (s, .rerr .notCanonical)
  | some (_, .canon r) =>
    match getRa s r with
    | none => (s, .err)
    | some ra =>
      -- (a frozen client belongs to an open bridge — `frozen_only_open` — so the order of the two tests is immaterial)
      if ra.tph != 0 then (if ra.frozen then (s, .err) else (s, lowerRollapp p))
      else if (handshake ra ph p).2 == .ok then (setRa s (handshake ra ph p).1, .ok)
      else (s, (handshake ra ph p).2)      -- error acknowledgement: ibc-go drops the cached context

def step (s : St) : Op → St × Res
  | .create r g => stepCreate s r g
  | .setgi r owner g => stepSetgi s r owner g
  | .force r gov g => stepForce s r gov g
  | .plan r owner alloc dur te start => stepPlan s r owner alloc dur te start
  | .enable r owner => stepEnable s r owner
  | .tick dt => ({ s with now := s.now + dt }, .ok)
  | .seq r => stepSeq s r
  | .link r => stepLink s r
  | .link2 r => stepLink2 s r
  | .canon r => stepCanon s r
  | .chopen r via => stepChopen s r via
  | .premd r => stepPremd s r
  | .update r n => stepUpdate s r n
  | .fork r gov h => stepFork s r gov h
  | .plainch => ({ s with chans := s.chans ++ [(s.nextChan, .plain)], nextChan := s.nextChan + 1 }, .ok)
  | .send c => stepSend s c
  | .recv c ph p => stepRecv s c ph p

def run (s : St) (ops : List Op) : St := ops.foldl (fun s o => (step s o).1) s

end DymVerif.GB
