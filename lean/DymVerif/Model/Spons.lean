/-
  Model/Spons (M-Spons) — executable model of x/sponsorship (votes, staking hooks, distribution,
  endorsements, claim blacklist, epoch hook) together with the part of x/incentives that the
  endorsement claim depends on (endorsement gauges: coins / distributed / epoch rewards / status,
  the incentives module balance of the reward denom).  It mirrors the Go code AS IT IS:

    types/types.go          ApplyWeights, Distribution.Merge / Negate, Vote.GetGaugePower,
                            ValidateGaugeWeights
    keeper/votes.go         Keeper.Vote, RevokeVote / revokeVote, validateWeights,
                            GetValidatorBreakdown (staking side = the `stk` table, see below)
    keeper/hooks_staking.go afterDelegationModified, beforeDelegationRemoved, processHook
    keeper/endorsements.go  UpdateTotalSharesWithDistribution, Claim, EstimateClaim
    keeper/hook_epoch.go    EpochHooks.AfterEpochEnd (only on x/incentives' DistrEpochIdentifier)
    keeper/helpers.go       CanClaim, BlacklistClaim, RefreshClaimBlacklist, Save/Delete…
    x/incentives/keeper/gauge_endorsement.go  updateEndorsementGaugeOnEpochEnd,
                            DistributeEndorsementRewards; hooks.go / distribute.go: AfterEpochEnd on
                            the distribution identifier (upcoming→active, update, checkFinishedGauges)

  x/staking is not modelled: ops carry the staking-side voting power
  (`TokensFromShares(shares).TruncateInt()`) of the delegations they touch — the value the hook sees
  (`hookVP`) and the value after the message (`stk`).  Core Lean only.
-/
namespace DymVerif.Spons

/-- `MaxAllocationWeight` = 100 · 10^18 -/
def maxW : Int := 100000000000000000000

/-- (gauge id, power) or (gauge id, weight) -/
abbrev GP := Nat × Int

structure Dist where
  vp : Int
  gauges : List GP
  deriving DecidableEq, Repr, Inhabited

structure Vote where
  vp : Int
  weights : List GP
  deriving DecidableEq, Repr, Inhabited

/-! ### types/types.go -/

def insertG (x : GP) : List GP → List GP
  | [] => [x]
  | y :: ys => if x.1 ≤ y.1 then x :: y :: ys else y :: insertG x ys

/-- `sort.Sort(gauges)` (ids are unique in every valid vote, so the result is determined) -/
def sortG (l : List GP) : List GP := l.foldr insertG []

/-- `votingPower.Mul(weight).Quo(MaxAllocationWeight)` — big.Int.Quo truncates toward zero -/
def gpow (vp w : Int) : Int := (vp * w).tdiv maxW

/-- `ApplyWeights` -/
def applyWeights (vp : Int) (ws : List GP) : Dist :=
  ⟨vp, sortG (ws.map fun x => (x.1, gpow vp x.2))⟩

/-- `Vote.ToDistribution` -/
def Vote.toDist (v : Vote) : Dist := applyWeights v.vp v.weights

/-- `Vote.GetGaugePower`: first matching weight -/
def gaugePowerW (vp : Int) : List GP → Nat → Int
  | [], _ => 0
  | w :: ws, g => if w.1 = g then gpow vp w.2 else gaugePowerW vp ws g

def Vote.gaugePower (v : Vote) (g : Nat) : Int := gaugePowerW v.vp v.weights g

/-- "Don't store gauges with <= 0 power" (inside the merge loop only) -/
def keep (g : GP) (rest : List GP) : List GP := if 0 < g.2 then g :: rest else rest

/-- the loop of `Distribution.Merge` followed by the two tail appends (tails are NOT filtered);
    `fuel ≥ |lhs| + |rhs|` -/
def mergeG : Nat → List GP → List GP → List GP
  | 0, l, r => l ++ r
  | _ + 1, [], r => r
  | _ + 1, a :: l, [] => a :: l
  | n + 1, a :: l, b :: r =>
    if a.1 = b.1 then keep (a.1, a.2 + b.2) (mergeG n l r)
    else if a.1 < b.1 then keep a (mergeG n l (b :: r))
    else keep b (mergeG n (a :: l) r)

/-- `d.Merge(d1)` -/
def Dist.merge (d d1 : Dist) : Dist :=
  ⟨d.vp + d1.vp, mergeG (d.gauges.length + d1.gauges.length) d.gauges d1.gauges⟩

/-- `Distribution.Negate` -/
def Dist.negate (d : Dist) : Dist := ⟨-d.vp, d.gauges.map fun g => (g.1, -g.2)⟩

def nodupIds : List GP → Bool
  | [] => true
  | w :: ws => !(ws.any (·.1 == w.1)) && nodupIds ws

def sumW (ws : List GP) : Int := (ws.map (·.2)).sum

/-- `ValidateGaugeWeights` (MsgVote.ValidateBasic) -/
def validWeights (ws : List GP) : Bool :=
  ws.all (fun w => decide (0 < w.2) && decide (w.2 ≤ maxW)) && nodupIds ws && decide (sumW ws ≤ maxW)

/-! ### state -/

inductive GKind
  | asset
  | rollapp (r : Nat)
  | endorsement (r : Nat)
  deriving DecidableEq, Repr

inductive GStatus | upcoming | active | finished
  deriving DecidableEq, Repr

/-- an x/incentives gauge as far as sponsorship and the endorsement claim see it; the accounting
    fields are used by endorsement gauges only (single reward denom) -/
structure Gauge where
  id : Nat
  kind : GKind
  perpetual : Bool
  coins : Int := 0
  distributed : Int := 0
  /-- `Endorsement.EpochRewards`: `none` = empty coins; `some 0` is possible (`Coins.QuoInt` keeps zero coins) -/
  epochRewards : Option Int := none
  numEpochs : Nat := 1
  filled : Nat := 0
  status : GStatus := .upcoming
  deriving DecidableEq, Repr

structure Endorsement where
  r : Nat
  gaugeId : Nat
  total : Int
  epoch : Int
  deriving DecidableEq, Repr

structure State where
  minAlloc : Int
  minVP : Int
  gauges : List Gauge
  endorsements : List Endorsement
  votes : List (Nat × Vote)
  /-- `delegatorValidatorPower` -/
  dvp : List ((Nat × Nat) × Int)
  dist : Dist
  blacklist : List Nat
  /-- staking side: voting power of every delegation (delegator, validator) -/
  stk : List ((Nat × Nat) × Int)
  /-- balance of the reward denom held by the x/incentives module account -/
  incBal : Int
  /-- x/incentives `LastGaugeID` (gauge ids are handed out as `LastGaugeID + 1`) -/
  lastGauge : Nat := 0
  deriving DecidableEq, Repr

def State.init (minAlloc minVP : Int) : State :=
  { minAlloc, minVP, gauges := [], endorsements := [], votes := [], dvp := [], dist := ⟨0, []⟩,
    blacklist := [], stk := [], incBal := 0 }

inductive Err
  | badWeights | minAlloc | noGauge | notPerpetual | lowPower | noVote
  | cannotClaim | notEndorsement | noEndorsement | noPower | payFailed | panic
  | hookErr | finishedGauge | noFunds
  | badParams | rollappExists | noRollapp | badGauge
  deriving DecidableEq, Repr

/-! association-list helpers (`set` = drop the key, then cons) -/

def alookup {κ β} [DecidableEq κ] (k : κ) : List (κ × β) → Option β
  | [] => none
  | x :: xs => if x.1 = k then some x.2 else alookup k xs

def aerase {κ β} [DecidableEq κ] (k : κ) (l : List (κ × β)) : List (κ × β) := l.filter (fun x => x.1 ≠ k)

def aset {κ β} [DecidableEq κ] (k : κ) (v : β) (l : List (κ × β)) : List (κ × β) := (k, v) :: aerase k l

def State.gauge? (s : State) (g : Nat) : Option Gauge := s.gauges.find? (·.id == g)
def State.endorsement? (s : State) (r : Nat) : Option Endorsement := s.endorsements.find? (·.r == r)
def State.vote? (s : State) (a : Nat) : Option Vote := alookup a s.votes

/-- `setGauge`: replace the stored gauge with id `g.id` -/
def updGauge (gs : List Gauge) (g : Gauge) : List Gauge := gs.map fun x => if x.id = g.id then g else x

/-! ### keeper/endorsements.go -/

/-- `AddTotalShares(update)` on the endorsement of rollapp `r` -/
def addShares (es : List Endorsement) (r : Nat) (p : Int) : List Endorsement :=
  es.map fun e => if e.r = r then { e with total := e.total + p } else e

/-- `UpdateTotalSharesWithDistribution`: only rollapp gauges have an endorsement -/
def updateShares (gs : List Gauge) (es : List Endorsement) : List GP → List Endorsement
  | [] => es
  | u :: us =>
    match gs.find? (·.id == u.1) with
    | some g =>
      match g.kind with
      | .rollapp r => updateShares gs (addShares es r u.2) us
      | _ => updateShares gs es us
    | none => updateShares gs es us

/-- `UpdateDistribution(update.Merge)` + `UpdateTotalSharesWithDistribution(update)` -/
def State.applyUpdate (s : State) (u : Dist) : State :=
  { s with dist := u.merge s.dist, endorsements := updateShares s.gauges s.endorsements u.gauges }

/-! ### keeper/votes.go -/

/-- `revokeVote` -/
def State.revokeVote (s : State) (a : Nat) (v : Vote) : State :=
  let s1 := s.applyUpdate v.toDist.negate
  { s1 with votes := aerase a s1.votes, dvp := s1.dvp.filter (fun x => x.1.1 ≠ a) }

/-- `validateWeights` -/
def validateWeights (s : State) : List GP → Option Err
  | [] => none
  | w :: ws =>
    if w.2 < s.minAlloc then some .minAlloc else
    match s.gauge? w.1 with
    | none => some .noGauge
    | some g => if !g.perpetual then some .notPerpetual else validateWeights s ws

/-- `GetValidatorBreakdown`: the delegations of `a` on the staking side -/
def State.breakdown (s : State) (a : Nat) : List ((Nat × Nat) × Int) := s.stk.filter (fun x => x.1.1 = a)

def sumP {κ} (l : List (κ × Int)) : Int := (l.map (·.2)).sum

/-- save every entry of the breakdown (`SaveDelegatorValidatorPower`) -/
def saveAll (b : List ((Nat × Nat) × Int)) (d : List ((Nat × Nat) × Int)) : List ((Nat × Nat) × Int) :=
  b.foldl (fun acc x => aset x.1 x.2 acc) d

/-- `Keeper.Vote` after the previous vote (if any) has been revoked: power from staking, minimum
    check, distribution / endorsement update, save vote, blacklist, save the breakdown -/
def State.castVote (s1 : State) (a : Nat) (ws : List GP) : Except Err State :=
  let b := s1.breakdown a
  let total := sumP b
  if total < s1.minVP then .error .lowPower else
  let s2 := s1.applyUpdate (applyWeights total ws)
  .ok { s2 with votes := aset a ⟨total, ws⟩ s2.votes,
                blacklist := if s2.blacklist.contains a then s2.blacklist else a :: s2.blacklist,
                dvp := saveAll b s2.dvp }

/-- `MsgServer.Vote` → `Keeper.Vote` -/
def State.vote (s : State) (a : Nat) (ws : List GP) : Except Err State :=
  if !validWeights ws then .error .badWeights else
  match validateWeights s ws with
  | some e => .error e
  | none =>
    match s.vote? a with
    | some v => (s.revokeVote a v).castVote a ws
    | none => s.castVote a ws

/-- `MsgServer.RevokeVote` -/
def State.revoke (s : State) (a : Nat) : Except Err State :=
  match s.vote? a with
  | none => .error .noVote
  | some v => .ok (s.revokeVote a v)

/-! ### keeper/hooks_staking.go -/

/-- `processHook`: below the minimum the vote is revoked; otherwise the voter's contribution is
    replaced exactly — the distribution of the old power is subtracted, the distribution of the new
    power is added (distribution and endorsement shares) -/
def State.processHook (s : State) (a val : Nat) (v : Vote) (oldVP newVP : Int) : State :=
  let diff := newVP - oldVP
  let newTotal := v.vp + diff
  if newTotal < s.minVP then s.revokeVote a v else
  let s1 := (s.applyUpdate v.toDist.negate).applyUpdate (Vote.toDist ⟨newTotal, v.weights⟩)
  { s1 with votes := aset a ⟨newTotal, v.weights⟩ s1.votes,
            dvp := if newVP = 0 then aerase (a, val) s1.dvp else aset (a, val) newVP s1.dvp }

/-- `AfterDelegationModified(a, val)` (`newVP = some p`: the staking voting power the hook computes)
    or `BeforeDelegationRemoved(a, val)` (`newVP = none`) -/
def State.hook (s : State) (a val : Nat) (newVP : Option Int) : Except Err State :=
  match s.vote? a with
  | none => .ok s
  | some v =>
    match newVP with
    | some p => .ok (s.processHook a val v ((alookup (a, val) s.dvp).getD 0) p)
    | none =>
      match alookup (a, val) s.dvp with
      | none => .error .hookErr
      | some old => .ok (s.processHook a val v old 0)

/-- a staking message of delegator `a`: the hooks it fires, in order; then the staking table is
    brought to its value after the message (`none` = delegation removed) -/
def State.hooks (s : State) (a : Nat) : List (Nat × Option Int) → Except Err State
  | [] => .ok s
  | h :: hs => match s.hook a h.1 h.2 with
    | .error e => .error e
    | .ok s1 => s1.hooks a hs

/-- the staking-table update a fact stands for (`none` = delegation removed) -/
def upd (t : List ((Nat × Nat) × Int)) (k : Nat × Nat) : Option Int → List ((Nat × Nat) × Int)
  | some p => aset k p t
  | none => aerase k t

def setStk (stk : List ((Nat × Nat) × Int)) : List ((Nat × Nat) × Option Int) → List ((Nat × Nat) × Int)
  | [] => stk
  | x :: xs => setStk (upd stk x.1 x.2) xs

def State.staking (s : State) (a : Nat) (hs : List (Nat × Option Int)) (fin : List ((Nat × Nat) × Option Int)) : Except Err State :=
  match s.hooks a hs with
  | .error e => .error e
  | .ok s1 => .ok { s1 with stk := setStk s1.stk fin }

/-- validator slash: bonded power of its delegators changes, no hook fires -/
def State.slash (s : State) (fin : List ((Nat × Nat) × Option Int)) : State :=
  { s with stk := setStk s.stk fin }

/-! ### claim: keeper/endorsements.go + x/incentives/keeper/gauge_endorsement.go -/

/-- the claimer is blacklisted for the rest of the epoch (`BlacklistClaim`) -/
def State.blacklisted (s : State) (a : Nat) : State := { s with blacklist := a :: s.blacklist }

/-- `DistributeEndorsementRewards` succeeded: coins leave the module account, the gauge's
    `DistributedCoins` grows; then the claimer is blacklisted -/
def State.paid (s : State) (a : Nat) (g : Gauge) (amt : Int) : State :=
  { s with gauges := updGauge s.gauges { g with distributed := g.distributed + amt },
           incBal := s.incBal - amt, blacklist := a :: s.blacklist }

/-- the reward computation of `EstimateClaim` and the payment: `power · epochRewards / epochShares`
    (big.Int.Quo), one reward denom -/
def State.pay (s : State) (a : Nat) (g : Gauge) (e : Endorsement) (power : Int) : Except Err (State × Int) :=
  match g.epochRewards with
  | none => .ok (s.blacklisted a, 0)     -- no reward coins: nothing is sent, blacklisted all the same
  | some er =>
    if e.epoch = 0 then .error .panic else      -- big.Int.Quo by zero
    -- SendCoinsFromModuleToAccount: invalid (non-positive) coin or insufficient funds
    if (power * er).tdiv e.epoch ≤ 0 then .error .payFailed else
    if s.incBal < (power * er).tdiv e.epoch then .error .payFailed else
    .ok (s.paid a g ((power * er).tdiv e.epoch), (power * er).tdiv e.epoch)

/-- `Claim`; returns the new state and the amount paid -/
def State.claim (s : State) (a : Nat) (gid : Nat) : Except Err (State × Int) :=
  -- CanClaim
  if s.blacklist.contains a || (s.vote? a).isNone then .error .cannotClaim else
  match s.gauge? gid with
  | none => .error .noGauge
  | some g =>
    match g.kind with
    | .asset => .error .notEndorsement
    | .rollapp _ => .error .notEndorsement
    | .endorsement r =>
      match s.endorsement? r with
      | none => .error .noEndorsement
      | some e =>
        match s.vote? a with
        | none => .error .noVote
        | some v =>
          if v.gaugePower e.gaugeId = 0 then .error .noPower else s.pay a g e (v.gaugePower e.gaugeId)

/-! ### epoch end -/

/-- sponsorship `AfterEpochEnd` (acts on the x/incentives distribution identifier only): snapshot
    shares, clear the blacklist -/
def State.sponsEpochEnd (s : State) : State :=
  { s with endorsements := s.endorsements.map (fun e => { e with epoch := e.total }), blacklist := [] }

def isEndorsement : GKind → Bool
  | .endorsement _ => true
  | _ => false

/-- `updateEndorsementGaugeOnEpochEnd` on an active endorsement gauge -/
def Gauge.epochUpdate (g : Gauge) : Gauge :=
  let bal := g.coins - g.distributed
  let er : Option Int :=
    if bal = 0 then none else
    if g.perpetual then some bal else some (bal.tdiv ((g.numEpochs - g.filled : Nat) : Int))
  { g with epochRewards := er, filled := g.filled + 1 }

/-- x/incentives `AfterEpochEnd` on the distribution identifier.  `Coins.Sub` panics when a gauge has
    distributed more than it holds: the whole hook is then discarded (ApplyFuncIfNoError). -/
def State.incentivesEpochEnd (s : State) : State :=
  let act := s.gauges.map fun g => if g.status = .upcoming then { g with status := .active } else g
  if act.any (fun g => isEndorsement g.kind && g.status = .active && decide (g.coins < g.distributed)) then s else
  let upd := act.map fun g =>
    if g.status = .active then
      let g1 := if isEndorsement g.kind then g.epochUpdate else g
      -- checkFinishedGauges looks at the copy taken before the update
      if !g.perpetual && decide (g.numEpochs ≤ g.filled + 1) then { g1 with status := .finished } else g1
    else g
  { s with gauges := upd }

/-- end of one epoch of some identifier; `distr` = it is the incentives distribution identifier.
    Hook order: …, incentives, …, sponsorship (app/keepers.go); both act on that identifier only. -/
def State.epochEnd (s : State) (distr : Bool) : State :=
  if distr then s.incentivesEpochEnd.sponsEpochEnd else s

def State.funded (s : State) (g : Gauge) (amt : Int) : State :=
  { s with gauges := updGauge s.gauges { g with coins := g.coins + amt }, incBal := s.incBal + amt }

/-- `AddToGaugeRewards` on an endorsement gauge (funder's balance is checked by the caller) -/
def State.fund (s : State) (gid : Nat) (amt : Int) : Except Err State :=
  match s.gauge? gid with
  | none => .error .noGauge
  | some g =>
    if !g.perpetual && decide (g.numEpochs ≤ g.filled) then .error .finishedGauge else .ok (s.funded g amt)

/-! ### world building: x/incentives gauge creation, the `RollappCreated` hook, `MsgUpdateParams` -/

/-- the stored gauge a creation request `g` becomes: fresh id, nothing distributed, upcoming; only
    endorsement gauges carry (reward-denom) coins in the model -/
def newGauge (id : Nat) (g : Gauge) : Gauge :=
  { id := id, kind := g.kind, perpetual := g.perpetual, numEpochs := g.numEpochs,
    coins := if isEndorsement g.kind then g.coins else 0 }

/-- `CreateAssetGauge` (kind `asset`: any gauge that is neither a rollapp nor an endorsement gauge) /
    `CreateEndorsementGauge` (the rollapp must exist — it has an endorsement exactly then; the coins
    move from the creator to the module account).  Rollapp gauges are created by the hook below only. -/
def State.addGauge (s : State) (g : Gauge) : Except Err State :=
  match g.kind with
  | .rollapp _ => .error .badGauge
  | .asset =>
    .ok { s with gauges := s.gauges ++ [newGauge (s.lastGauge + 1) g], lastGauge := s.lastGauge + 1 }
  | .endorsement r =>
    if (s.endorsement? r).isNone then .error .noRollapp else
    if g.coins < 0 then .error .badGauge else
    .ok { s with gauges := s.gauges ++ [newGauge (s.lastGauge + 1) g], lastGauge := s.lastGauge + 1,
                 incBal := s.incBal + g.coins }

/-- x/streamer `Hooks.RollappCreated` (fired by MsgCreateRollapp, which rejects an existing rollapp id
    before): `CreateRollappGauge` (perpetual, id `LastGaugeID + 1`) then
    `SaveEndorsement(NewEndorsement(rollapp, gaugeId))` with zero total / epoch shares -/
def State.addRollapp (s : State) (r : Nat) : Except Err State :=
  if (s.endorsement? r).isSome then .error .rollappExists else
  .ok { s with gauges := s.gauges ++ [{ id := s.lastGauge + 1, kind := .rollapp r, perpetual := true }],
               endorsements := s.endorsements ++ [⟨r, s.lastGauge + 1, 0, 0⟩],
               lastGauge := s.lastGauge + 1 }

/-- `Params.Validate` (MsgUpdateParams.ValidateBasic) -/
def validParams (ma mv : Int) : Bool := decide (0 ≤ ma) && decide (ma ≤ maxW) && decide (0 ≤ mv)

/-- `MsgServer.UpdateParams` sent by the authority: `SetParams` and nothing else — the stored votes
    are NOT revisited (a vote below a raised MinVotingPower stays until its voter's next hook) -/
def State.setParams (s : State) (ma mv : Int) : Except Err State :=
  if !validParams ma mv then .error .badParams else .ok { s with minAlloc := ma, minVP := mv }

/-! ### ops -/

inductive Op
  | vote (a : Nat) (ws : List GP)
  | revoke (a : Nat)
  | claim (a : Nat) (gid : Nat)
  /-- a staking message (delegate / undelegate / redelegate / cancel-unbonding) of delegator `a` -/
  | staking (a : Nat) (hooks : List (Nat × Option Int)) (fin : List ((Nat × Nat) × Option Int))
  | slash (fin : List ((Nat × Nat) × Option Int))
  | epochEnd (distr : Bool)
  | fund (gid : Nat) (amt : Int)
  /-- gauge creation in x/incentives (asset / endorsement gauge); the id is the model's `lastGauge + 1` -/
  | addGauge (g : Gauge)
  /-- MsgCreateRollapp → `RollappCreated` hook: rollapp gauge + endorsement -/
  | addRollapp (r : Nat)
  /-- x/sponsorship MsgUpdateParams by the authority -/
  | setParams (minAlloc minVP : Int)
  deriving Repr

/-- one op; the state is unchanged on error (per-message cache context); second component: amount
    paid by a claim -/
def step (s : State) : Op → State × Option Err × Int
  | .vote a ws => match s.vote a ws with
    | .ok s1 => (s1, none, 0)
    | .error e => (s, some e, 0)
  | .revoke a => match s.revoke a with
    | .ok s1 => (s1, none, 0)
    | .error e => (s, some e, 0)
  | .claim a g => match s.claim a g with
    | .ok (s1, p) => (s1, none, p)
    | .error e => (s, some e, 0)
  | .staking a hs fin => match s.staking a hs fin with
    | .ok s1 => (s1, none, 0)
    | .error e => (s, some e, 0)
  | .slash fin => (s.slash fin, none, 0)
  | .epochEnd d => (s.epochEnd d, none, 0)
  | .fund g amt => match s.fund g amt with
    | .ok s1 => (s1, none, 0)
    | .error e => (s, some e, 0)
  | .addGauge g => match s.addGauge g with
    | .ok s1 => (s1, none, 0)
    | .error e => (s, some e, 0)
  | .addRollapp r => match s.addRollapp r with
    | .ok s1 => (s1, none, 0)
    | .error e => (s, some e, 0)
  | .setParams ma mv => match s.setParams ma mv with
    | .ok s1 => (s1, none, 0)
    | .error e => (s, some e, 0)

def run (s : State) : List Op → State
  | [] => s
  | op :: ops => run (step s op).1 ops

end DymVerif.Spons
