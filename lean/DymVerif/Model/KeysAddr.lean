/-
  Model/KeysAddr (M-Keys, fifth part) — the TEXT level of Dym-Name addresses (x/dymns):
  the validators' languages (`IsValidDymName`, `IsValidAlias`, `IsValidChainIdFormat`,
  `IsValidHexAddress`), the parser `ParseDymNameAddress` used by forward resolution, the formatter
  `ReverseResolvedDymNameAddress.String()` used by reverse resolution, the chains/aliases table of
  the module params with its validation (`validateAliasesOfChainIds`) and the two translations
  through that table (`tryResolveChainIdOrAliasToChainId` restricted to host + params,
  `ReplaceChainIdWithAliasIfPossible` / `GetEffectiveAliasesByChainId` restricted to params).
  Core Lean only; executed by Driver/C19Addr (ops `dnvalid`, `dnparse`, `dnchains`, `dnrt`).
  Texts are byte strings; the model covers ASCII inputs (Go's `strings.ToLower` / `TrimSpace` are
  Unicode aware: non-ASCII inputs are answered `nonascii` by both sides of the correspondence run).
-/
import DymVerif.Model.KeysX
namespace DymVerif.Keys
open DymVerif

/-! ### validators -/

def isAlnumC (c : Nat) : Bool := isLowerB c || isDigitB c
/-- '-' or '_' -/
def isDashC (c : Nat) : Bool := c == 45 || c == 95
def isNameC (c : Nat) : Bool := isAlnumC c || isDashC c

/-- the loop of `IsValidDymName`: no two adjacent characters out of '-', '_' -/
def noDoubleDash : Bytes → Bool
  | a :: b :: r => !(isDashC a && isDashC b) && noDoubleDash (b :: r)
  | _ => true

/-- `IsValidDymName`: at most 20 bytes, `^[a-z\d]+([a-z\d_-]*[a-z\d]+)?$` (non-empty, every
    character of `[a-z0-9_-]`, first and last alphanumeric), no two adjacent dashes/underscores -/
def validDymName (s : Bytes) : Bool :=
  s.length ≤ 20 && !s.isEmpty && s.all isNameC && s.head?.any isAlnumC && s.getLast?.any isAlnumC &&
    noDoubleDash s

/-- `IsValidAlias`: `^[a-z\d]{1,32}$` -/
def validAlias (s : Bytes) : Bool := !s.isEmpty && s.length ≤ 32 && s.all isAlnumC

/-- the automaton of `^[a-z]+(-[a-z]+)?(_\d+)?(-\d+)?$`: 0 start, 1 in the first letters, 2 after a
    '-' that follows them, 3 in the second letters, 4 after '_', 5 in the first number, 6 after a '-'
    that must start the last number, 7 in the last number -/
def chainStep (st c : Nat) : Option Nat :=
  match st with
  | 0 => if isLowerB c then some 1 else none
  | 1 => if isLowerB c then some 1 else if c = 45 then some 2 else if c = 95 then some 4 else none
  | 2 => if isLowerB c then some 3 else if isDigitB c then some 7 else none
  | 3 => if isLowerB c then some 3 else if c = 95 then some 4 else if c = 45 then some 6 else none
  | 4 => if isDigitB c then some 5 else none
  | 5 => if isDigitB c then some 5 else if c = 45 then some 6 else none
  | 6 => if isDigitB c then some 7 else none
  | 7 => if isDigitB c then some 7 else none
  | _ => none

def chainRun : Nat → Bytes → Option Nat
  | st, [] => some st
  | st, c :: cs => match chainStep st c with
    | some st' => chainRun st' cs
    | none => none

def chainAccept (st : Nat) : Bool := st == 1 || st == 3 || st == 5 || st == 7

/-- `IsValidChainIdFormat`: 3..50 bytes (`cometbft MaxChainIDLen`) and the pattern matches -/
def validChainIdFormat (s : Bytes) : Bool :=
  3 ≤ s.length && s.length ≤ 50 &&
    match chainRun 0 s with
    | some st => chainAccept st
    | none => false

/-- `IsValidHexAddress` on an already lower-cased text: 42 or 66 bytes, `^0x[a-f\d]+$` -/
def hexAddrOk (s : Bytes) : Bool :=
  (s.length == 42 || s.length == 66) &&
    match s with
    | 48 :: 120 :: r => r.all (fun c => isDigitB c || (97 ≤ c && c ≤ 102))
    | _ => false

/-! ### text normalisation (ASCII) -/

def asciiLower (s : Bytes) : Bytes := s.map fun c => if 65 ≤ c && c ≤ 90 then c + 32 else c
def isSpaceC (c : Nat) : Bool := c == 32 || (9 ≤ c && c ≤ 13)
/-- `strings.TrimSpace` on ASCII -/
def trimSpace (s : Bytes) : Bytes := ((s.dropWhile isSpaceC).reverse.dropWhile isSpaceC).reverse

/-- '.' or '@' -/
def isSepC (c : Nat) : Bool := c == 46 || c == 64

/-- split at every '.' / '@', keeping empty fields: the fields and the separators between them -/
def splitSeps : Bytes → List Bytes × List Nat
  | [] => ([[]], [])
  | c :: cs =>
    let r := splitSeps cs
    if isSepC c then ([] :: r.1, c :: r.2)
    else match r.1 with
      | f :: fs => ((c :: f) :: fs, r.2)
      | [] => ([[c]], r.2)

/-- `strings.Join(parts, ".")` -/
def joinDot : List Bytes → Bytes
  | [] => []
  | [p] => p
  | p :: ps => p ++ 46 :: joinDot ps

/-- the part of `ParseDymNameAddress` after the chunks are cut: handle = last chunk, name = the one
    before, sub-name parts = the rest (each a valid Dym-Name), handle a chain-id or an alias, and the
    name a Dym-Name — or, without a sub-name, a 0x address or a bech32 account address (`bech`: the
    bech32 checksum is not modelled, the caller supplies `IsValidBech32AccountAddress(·, false)`) -/
def parseChunks (bech : Bytes → Bool) (chunks : List Bytes) : Option (Bytes × Bytes × Bytes) :=
  match chunks.reverse with
  | h :: n :: subsRev =>
    let subs := subsRev.reverse
    if !subs.all validDymName then none else
    if !(validChainIdFormat h || validAlias h) then none else
    if subs.isEmpty && (hexAddrOk n || bech n) then some ([], n, h) else
    if validDymName n then some (joinDot subs, n, h) else none
  | _ => none

/-- `ParseDymNameAddress` by what it accepts: after lower-casing and trimming, every field between
    separators is non-empty (covers: empty input, leading / trailing / doubled separators), at most
    one '@' and only as the LAST separator, no field with surrounding white space, at least two
    fields; then `parseChunks`.  Returns (sub-name, name, chain-id-or-alias); every refusal is the
    one error class `ErrBadDymNameAddress` -/
def parseAddr (bech : Bytes → Bool) (input : Bytes) : Option (Bytes × Bytes × Bytes) :=
  let w := asciiLower (trimSpace input)
  let r := splitSeps w
  if r.1.any (·.isEmpty) then none else
  if r.2.count 64 > 1 then none else
  if r.2.contains 64 && r.2.getLast? != some 64 then none else
  if r.1.any (fun f => trimSpace f != f) then none else
  parseChunks bech r.1

/-! #### the same function statement by statement (index arithmetic as in the source) -/

/-- `strings.Index` / `IndexRune` of one ASCII byte: first index or -1 -/
def idxOf (c : Nat) : Bytes → Int
  | [] => -1
  | x :: xs => if x = c then 0 else
    let i := idxOf c xs
    if i < 0 then -1 else i + 1

/-- `strings.LastIndex` -/
def lastIdxOf (c : Nat) (s : Bytes) : Int :=
  let i := idxOf c s.reverse
  if i < 0 then -1 else (s.length : Int) - 1 - i

/-- `strings.Contains(ReplaceAll(ReplaceAll(s, ".", "|"), "@", "|"), "||")` for a text without '|':
    two adjacent separators ('|' itself is refused later by every chunk validator, and a text with
    "||" has no valid chunk either way: the driver compares this on every generated input) -/
def hasDoubleSep : Bytes → Bool
  | a :: b :: r => ((isSepC a || a == 124) && (isSepC b || b == 124)) || hasDoubleSep (b :: r)
  | _ => false

/-- `strings.FieldsFunc(s, r == '.' || r == '@')`: the non-empty fields -/
def fieldsSep (s : Bytes) : List Bytes := (splitSeps s).1.filter (fun f => !f.isEmpty)

def parseAddrLit (bech : Bytes → Bool) (input : Bytes) : Option (Bytes × Bytes × Bytes) :=
  let a := asciiLower (trimSpace input)
  let lastDot := lastIdxOf 46 a
  let lastAt := lastIdxOf 64 a
  if lastAt > -1 && lastDot > -1 && lastDot > lastAt then none else
  let firstAt := idxOf 64 a
  if firstAt > -1 && firstAt != lastAt then none else
  let firstDot := idxOf 46 a
  if firstDot == 0 || firstAt == 0 then none else
  let lastCharIdx : Int := (a.length : Int) - 1
  if firstDot == lastCharIdx || firstAt == lastCharIdx || lastDot == lastCharIdx || lastAt == lastCharIdx then none else
  if hasDoubleSep a then none else
  let chunks := fieldsSep a
  if chunks.any (fun f => trimSpace f != f) then none else
  if chunks.length == 1 then none else
  parseChunks bech chunks

/-- `ReverseResolvedDymNameAddress.String()`: `[sub "."] name "@" handle` -/
def formatAddr (sub name handle : Bytes) : Bytes :=
  (if sub.isEmpty then [] else sub ++ [46]) ++ name ++ 64 :: handle

/-- the all-dots spelling the parser accepts as well ("The '@' can replaced with '.'") -/
def formatAddrDot (sub name handle : Bytes) : Bytes :=
  (if sub.isEmpty then [] else sub ++ [46]) ++ name ++ 46 :: handle

/-! ### the chains / aliases table of the module params -/

structure ChainRec where
  chainId : Bytes
  aliases : List Bytes
  deriving DecidableEq, Repr

abbrev Chains := List ChainRec

inductive ChainsErr | short | badChain | dup | badAlias
  deriving DecidableEq, Repr

/-- the inner loop of `validateAliasesOfChainIds` over one record's aliases; `seen` is the ONE set
    shared by chain-ids and aliases (`uniqueChainIdAliasAmongAliasConfig`) -/
def validateAliases (seen : List Bytes) : List Bytes → Except ChainsErr (List Bytes)
  | [] => .ok seen
  | a :: as =>
    if !validAlias a then .error .badAlias else
    if seen.contains a then .error .dup else
    validateAliases (a :: seen) as

/-- the outer loop of `validateAliasesOfChainIds` -/
def validateRecs (seen : List Bytes) : Chains → Except ChainsErr (List Bytes)
  | [] => .ok seen
  | r :: rs =>
    if r.chainId.length < 3 then .error .short else
    if !validChainIdFormat r.chainId then .error .badChain else
    if seen.contains r.chainId then .error .dup else
    match validateAliases (r.chainId :: seen) r.aliases with
    | .error e => .error e
    | .ok seen' => validateRecs seen' rs

/-- `validateAliasesOfChainIds` -/
def validateChains (t : Chains) : Except ChainsErr Unit :=
  match validateRecs [] t with
  | .error e => .error e
  | .ok _ => .ok ()

def validChains (t : Chains) : Bool := match validateChains t with | .ok _ => true | .error _ => false

/-- every chain-id and alias text of the table, in the order the validation visits them -/
def tableNames : Chains → List Bytes
  | [] => []
  | r :: rs => r.chainId :: r.aliases ++ tableNames rs

def tableAliases (t : Chains) : List Bytes := t.flatMap (·.aliases)
def tableChainIds (t : Chains) : List Bytes := t.map (·.chainId)

/-- `tryResolveChainIdOrAliasToChainId` as far as the host chain-id and the params decide it (the
    RollApp store is consulted only after the params found nothing): the host chain-id is itself;
    otherwise the FIRST record that has the text as chain-id or among its aliases -/
def toChainId (host : Bytes) (t : Chains) (x : Bytes) : Option Bytes :=
  if x = host then some x else
  match t.find? (fun r => x == r.chainId || r.aliases.contains x) with
  | some r => some r.chainId
  | none => none

/-- what resolution does with the part after '@' when no config names it literally
    (`TranslateAliasOrChainIdToChainId`): translate, else take it as a chain-id -/
def resolveChain (host : Bytes) (t : Chains) (x : Bytes) : Bytes := (toChainId host t x).getD x

/-- `ReplaceChainIdWithAliasIfPossible` over `GetEffectiveAliasesByChainId` (params part): the first
    record with that chain-id gives its first alias, if it has one -/
def toHandle (t : Chains) (c : Bytes) : Bytes :=
  match t.find? (fun r => r.chainId == c) with
  | some r => (match r.aliases with | a :: _ => a | [] => c)
  | none => c

/-- does `ResolveByDymNameAddress` reach the config stored under chain-id `c` when given handle `h`:
    first attempt the handle literally, second attempt its translation -/
def reachesConfig (host : Bytes) (t : Chains) (h c : Bytes) : Bool :=
  h == c || resolveChain host t h == c

/-! ### rollapp ids as `MsgCreateRollapp` takes them

`NewChainID` TRIMS the id before it matches the pattern, but the message keeps (and `SetRollapp`
keys) the id as sent: an id with surrounding white space passes `ValidateBasic`. -/

/-- `NewChainID(id)` succeeds (ASCII ids) -/
def newChainIDOk (id : Bytes) : Bool := validRollappId (trimSpace id)

/-- the EIP155 number of a valid id as `GetEIP155ID()` gives it (`big.Int.Uint64`: low 64 bits) -/
def rollappEip (id : Bytes) : Nat :=
  match splitAtSep 95 id with
  | none => 0
  | some (_, rest) => match splitAtSep 45 rest with
    | none => 0
    | some (eip, _) => decVal eip % 2 ^ 64

/-- the revision number of a valid id -/
def rollappRev (id : Bytes) : Nat :=
  match splitAtSep 95 id with
  | none => 0
  | some (_, rest) => match splitAtSep 45 rest with
    | none => 0
    | some (_, rev) => decVal rev

/-- `MsgCreateRollapp` gets past the id checks on an empty store: `ValidateBasic` (`NewChainID`) and
    "revision number should be 1" -/
def createIdOk (id : Bytes) : Bool := newChainIDOk id && rollappRev (trimSpace id) == 1

/-- `CheckIfRollappExists(NewChainID(id2))` on a store that holds exactly the rollapp registered
    with the text `stored` (keyed as sent): the exact-key lookup of the TRIMMED id, the EIP155 index,
    and the name scan `name_` over the `Rollapp/value/` keys -/
def rollappExistsAfter (stored id2 : Bytes) : Bool :=
  let t := trimSpace id2
  t == stored || rollappEip t == rollappEip (trimSpace stored) ||
    isPrefix (rollappByNamePrefix (rollappName t)) (rollappKey stored)

end DymVerif.Keys
