/-
  Model/CorePackets — pending delayed packets next to M-Core (C03).
  M-Core (x/rollapp + x/sequencer) knows nothing about packets; M-Packets (x/delayedack + x/eibc) is
  told a fork height.  What connects them in the Go code is `Keeper.HardFork`: it calls the
  `OnHardFork(rollapp, lastValidHeight)` hooks with the EFFECTIVE fork height (after clamping to the
  latest posted height), and the rollapp's new revision starts at `lastValidHeight + 1`.  This file is
  that connection: after an M-Core step, every rollapp that got a new revision has its pending
  packets with proof height ≥ the new revision's start height reverted — exactly M-Packets'
  `fork_removes_above_height` instantiated with `lastValidHeight = revStart − 1`.
-/
import DymVerif.Model.Core
namespace DymVerif.Core

/-- a pending delayed packet as the Core protocol sees it: rollapp, proof height, sequence, kind -/
structure Pk where
  ra : Nat
  ph : Nat
  seq : Nat
  t : String
  deriving Inhabited, BEq, DecidableEq

/-- start height of the rollapp's latest revision -/
def revStart (r : Rollapp) : Nat := match r.revs.getLast? with | some x => x.2 | none => 0

/-- did the step `before → after` fork rollapp `ra` (a revision was appended)? -/
def forked (before after : St) (ra : Nat) : Bool :=
  match after.ras.find? (fun r => r.id == ra), before.ras.find? (fun r => r.id == ra) with
  | some r', some r => decide (r'.revs.length > r.revs.length)
  | _, _ => false

def newStart (after : St) (ra : Nat) : Nat :=
  match after.ras.find? (fun r => r.id == ra) with
  | some r' => revStart r'
  | none => 0

/-- delayedack `OnHardFork` composed with an M-Core step -/
def prunePkts (before after : St) (pk : List Pk) : List Pk :=
  pk.filter fun p => !(forked before after p.ra && decide (p.ph ≥ newStart after p.ra))

end DymVerif.Core
