/-
  Model/Keys2 (M-Keys, second part) — time-sorted keys (sdk.FormatTimeBytes, the sequencer notice
  queue), decimal identifiers (buy-order ids), IRO denoms and plan keys, lockup reference keys and the
  x/dymns store-key families.  Core Lean only; executed by Driver/C19.  Tied to the source by
  `Gen/Keys.lean` + `Lemmas/GenEqKeys.lean` and by the C19 correspondence run.
-/
import DymVerif.Model.Keys
namespace DymVerif.Keys
open DymVerif

/-! ### decimal rendering -/

/-- the `k` low-order decimal digits of `n` as ASCII, most significant first -/
def decN : Nat → Nat → Bytes
  | 0, _ => []
  | k+1, n => (48 + n / 10 ^ k % 10) :: decN k (n % 10 ^ k)

/-- digit count loop of Go's `appendInt` / `FormatUint` (1 for 0); `f` is fuel ≥ n -/
def numDigitsAux : Nat → Nat → Nat
  | 0, _ => 1
  | f+1, n => if n < 10 then 1 else numDigitsAux f (n / 10) + 1

def numDigits (n : Nat) : Nat := numDigitsAux n n

/-- Go `time.appendInt(b, n, w)` for `n ≥ 0`: decimal, zero-padded to at least `w` digits, wider
    when the number needs more -/
def padDec (w n : Nat) : Bytes := decN (max w (numDigits n)) n

/-- `strconv.FormatUint(n, 10)` = `math.NewIntFromUint64(n).String()` -/
def decStr (n : Nat) : Bytes := decN (numDigits n) n

/-- `strconv.ParseUint(s, 10, 64)` accumulation loop (left to right); `none` = syntax error -/
def decValAux : Nat → Bytes → Option Nat
  | acc, [] => some acc
  | acc, c :: cs => if 48 ≤ c ∧ c ≤ 57 then decValAux (acc * 10 + (c - 48)) cs else none

/-- `strconv.ParseUint(s, 10, 64)`: `none` = any error (empty, non-digit, value ≥ 2^64) -/
def parseU64 (s : Bytes) : Option Nat :=
  if s.isEmpty then none else
  match decValAux 0 s with
  | some v => if v < 2 ^ 64 then some v else none
  | none => none

/-! ### sdk.FormatTimeBytes -/

/-- calendar fields of a UTC time (what Go's `t.UTC().Date()`, `.Clock()`, `.Nanosecond()` give) -/
structure TimeF where
  Y : Nat
  M : Nat
  D : Nat
  h : Nat
  m : Nat
  s : Nat
  ns : Nat
  deriving DecidableEq, Repr

/-- the field tuple; `lexLt` on it is the chronological order of valid calendar times -/
def TimeF.fields (t : TimeF) : List Nat := [t.Y, t.M, t.D, t.h, t.m, t.s, t.ns]

/-- `sdk.FormatTimeBytes(t)` = `t.UTC().Round(0).Format("2006-01-02T15:04:05.000000000")` for year ≥ 0 -/
def fmtTime (t : TimeF) : Bytes :=
  padDec 4 t.Y ++ [45] ++ padDec 2 t.M ++ [45] ++ padDec 2 t.D ++ [84] ++
  padDec 2 t.h ++ [58] ++ padDec 2 t.m ++ [58] ++ padDec 2 t.s ++ [46] ++ padDec 9 t.ns

/-- `utils.EncodeTimeToKey(queueKey, endTime)`: the prefix followed by the formatted time -/
def encodeTimeToKey (queueKey : Bytes) (t : TimeF) : Bytes := queueKey ++ fmtTime t

/-- `NoticePeriodQueueKey` -/
def noticePeriodQueueKey : Bytes := [0x42]

/-- `NoticeQueueByTimeKey` -/
def noticeQueueByTimeKey (t : TimeF) : Bytes := encodeTimeToKey noticePeriodQueueKey t

/-- `NoticeQueueBySeqTimeKey` : 0x42 time "/" sequencer address -/
def noticeQueueBySeqTimeKey (addr : Bytes) (t : TimeF) : Bytes :=
  noticeQueueByTimeKey t ++ [sep] ++ addr

/-- `storetypes.PrefixEndBytes`: drop trailing 0xff bytes, increment the last one; `none` = nil
    (no upper bound) -/
def prefixEnd (p : Bytes) : Option Bytes :=
  match p.reverse.dropWhile (· == 255) with
  | [] => none
  | x :: xs => some ((x + 1) :: xs).reverse

/-- iterator range `[start, stop)` with `stop = none` meaning unbounded (Go: nil end) -/
def inRangeO (start : Bytes) (stop : Option Bytes) (k : Bytes) : Bool :=
  lexLe start k && (match stop with | none => true | some e => lexLt k e)

/-- the iterator bounds of `Keeper.NoticeQueue(ctx, &endTime)`:
    `store.Iterator(NoticePeriodQueueKey, PrefixEndBytes(NoticeQueueByTimeKey(endTime)))` -/
def noticeQueueRange (T : TimeF) : Bytes × Option Bytes :=
  (noticePeriodQueueKey, prefixEnd (noticeQueueByTimeKey T))

/-- `SequencerKey` : 0x00 "/" address -/
def sequencerKey (addr : Bytes) : Bytes := [0] ++ [sep] ++ addr
/-- `ProposerByRollappKey` : 0x02 "/" rollapp -/
def proposerByRollappKey (rollapp : Bytes) : Bytes := [2] ++ [sep] ++ rollapp
/-- `SuccessorByRollappKey` : 0x03 "/" rollapp -/
def successorByRollappKey (rollapp : Bytes) : Bytes := [3] ++ [sep] ++ rollapp

/-! ### buy-order ids (x/dymns) -/

inductive AssetType | name | alias
  deriving DecidableEq, Repr

/-- `BuyOrderIdTypeDymNamePrefix` = "10", `BuyOrderIdTypeAliasPrefix` = "20" -/
def buyOrderIdPrefix : AssetType → Bytes
  | .name => [49, 48]
  | .alias => [50, 48]

/-- the decomposition `IsValidBuyOrderId` computes: length ≥ 3, `id[:2]` one of the two type
    prefixes, `strconv.ParseUint(id[2:], 10, 64)` succeeds with a value > 0.  (The type is what
    `BuyOrder.Validate` re-checks with `strings.HasPrefix(id, prefix)`.) -/
def parseBuyOrderId (id : Bytes) : Option (AssetType × Nat) :=
  if id.length < 3 then none else
  let ty : Option AssetType :=
    if id.take 2 = buyOrderIdPrefix .name then some .name
    else if id.take 2 = buyOrderIdPrefix .alias then some .alias else none
  match ty with
  | none => none
  | some t =>
    match parseU64 (id.drop 2) with
    | some n => if 0 < n then some (t, n) else none
    | none => none

/-- `IsValidBuyOrderId` -/
def isValidBuyOrderId (id : Bytes) : Bool := (parseBuyOrderId id).isSome

/-- `CreateBuyOrderId(type, i)`: prefix ++ decimal; `none` = the panic on an id that does not validate -/
def createBuyOrderId (t : AssetType) (n : Nat) : Option Bytes :=
  let id := buyOrderIdPrefix t ++ decStr n
  if isValidBuyOrderId id then some id else none

/-! ### IRO denoms and plan keys (x/iro) -/

/-- `IROTokenPrefix` = "IRO/" -/
def iroTokenPrefix : Bytes := [73, 82, 79, 47]

/-- `IRODenom(rollappID)` -/
def iroDenom (rollapp : Bytes) : Bytes := iroTokenPrefix ++ rollapp

/-- Go `strings.CutPrefix(s, p)`; `none` = (s, false) -/
def cutPrefix (s p : Bytes) : Option Bytes :=
  if isPrefix p s then some (s.drop p.length) else none

/-- `RollappIDFromIRODenom(denom)` -/
def rollappIDFromIRODenom (denom : Bytes) : Option Bytes := cutPrefix denom iroTokenPrefix

/-- `PlanKey(planId)` : 0x01 "/" planId -/
def planKey (planId : Bytes) : Bytes := [1] ++ [sep] ++ planId
/-- `PlansByRollappKey(rollappId)` : 0x02 "/" rollappId -/
def plansByRollappKey (rollapp : Bytes) : Bytes := [2] ++ [sep] ++ rollapp
/-- how the keeper keys a plan: `PlanKey(fmt.Sprintf("%d", plan.Id))` -/
def planKeyById (id : Nat) : Bytes := planKey (decStr id)

/-! ### lockup reference keys (x/lockup/keeper/utils.go, iterator.go) -/

/-- `combineKeys(keys...)` = `bytes.Join(keys, KeyIndexSeparator)`, `KeyIndexSeparator = {0xFF}` -/
def combineKeys : List Bytes → Bytes
  | [] => []
  | [k] => k
  | k :: ks => k ++ [0xFF] ++ combineKeys ks

/-- `getTimeKey(t)`: 0x05, the big-endian length of the formatted time, the formatted time -/
def lkTimeKey (t : TimeF) : Bytes := [5] ++ be64 (fmtTime t).length ++ fmtTime t

/-- `getDurationKey(d)`: negative durations are clamped to 0; 0x06 0xFF be64(d) -/
def lkDurationKey (d : Int) : Bytes := combineKeys [[6], be64 (if d < 0 then 0 else d.toNat)]

/-- the fields of a `PeriodLock` that enter its reference keys (owner as address bytes) -/
structure LockK where
  owner : Bytes
  duration : Int
  endTime : TimeF
  denoms : List Bytes

/-- `durationLockRefKeys(lock)` -/
def durationLockRefKeys (l : LockK) : List Bytes :=
  let dk := lkDurationKey l.duration
  [combineKeys [[7], dk], combineKeys [[8], l.owner, dk]] ++
  l.denoms.flatMap (fun dn => [combineKeys [[9], dn, dk], combineKeys [[10], l.owner, dn, dk]])

/-- `lockRefKeys(lock)` -/
def lockRefKeys (l : LockK) : List Bytes :=
  let tk := lkTimeKey l.endTime
  durationLockRefKeys l ++ [combineKeys [[11], tk], combineKeys [[12], l.owner, tk]] ++
  l.denoms.flatMap (fun dn => [combineKeys [[13], dn, tk], combineKeys [[14], l.owner, dn, tk]])

/-- `unlockingPrefix(isUnlocking)` -/
def unlockingPrefix (u : Bool) : Bytes := if u then [4] else [3]

/-- the store key under which `addLockRefByKey(combineKeys(unlockingPrefix, refKey), id)` files lock `id` -/
def lockRefStoreKey (u : Bool) (refKey : Bytes) (id : Nat) : Bytes :=
  combineKeys [combineKeys [unlockingPrefix u, refKey], be64 id]

/-- `KVStorePrefixIterator(store, p)` = `Iterator(p, PrefixEndBytes(p))` -/
def iterPrefix (p : Bytes) : Bytes × Option Bytes := (p, prefixEnd p)
/-- `iteratorAfterTime(prefix, T)`; a nil start (never produced here) is the least key -/
def iterAfterTime (pfx : Bytes) (T : TimeF) : Bytes × Option Bytes :=
  ((prefixEnd (combineKeys [pfx, lkTimeKey T])).getD [], prefixEnd pfx)
/-- `iteratorBeforeTime(prefix, T)` -/
def iterBeforeTime (pfx : Bytes) (T : TimeF) : Bytes × Option Bytes :=
  (pfx, prefixEnd (combineKeys [pfx, lkTimeKey T]))
/-- `iteratorDuration(prefix, d)` -/
def iterDuration (pfx : Bytes) (d : Int) : Bytes × Option Bytes :=
  iterPrefix (combineKeys [pfx, lkDurationKey d])
/-- `iteratorLongerDuration(prefix, d)` -/
def iterLongerDuration (pfx : Bytes) (d : Int) : Bytes × Option Bytes :=
  (combineKeys [pfx, lkDurationKey d], prefixEnd pfx)
/-- `iteratorShorterDuration(prefix, d)` -/
def iterShorterDuration (pfx : Bytes) (d : Int) : Bytes × Option Bytes :=
  (pfx, some (combineKeys [pfx, lkDurationKey d]))

/-- the iterator prefixes of iterator.go: `combineKeys(unlockingPrefix, family[, addr][, denom])` -/
def lkFamilyPrefix (u : Bool) (fam : Nat) (comps : List Bytes) : Bytes :=
  combineKeys ([unlockingPrefix u, [fam]] ++ comps)

/-! ### x/dymns store keys (types/keys.go) -/

/-- one constructor per key family of the DymNS store, carrying the family's component(s) -/
inductive DymnsKey
  | dymName (name : Bytes)                      -- `DymNameKey`
  | ownedBy (owner : Bytes)                     -- `DymNamesOwnedByAccountRvlKey`
  | cfgAddr (addr : Bytes)                      -- `ConfiguredAddressToDymNamesIncludeRvlKey`
  | fallback (addr : Bytes)                     -- `FallbackAddressToDymNamesIncludeRvlKey`
  | sellOrder (assetId : Bytes) (t : AssetType) -- `SellOrderKey`
  | countBuyOrders                              -- `KeyCountBuyOrders`
  | buyOrder (id : Bytes)                       -- `BuyOrderKey`
  | buyer (addr : Bytes)                        -- `BuyerToOrderIdsRvlKey`
  | nameToBuyOrders (name : Bytes)              -- `DymNameToBuyOrderIdsRvlKey`
  | aliasToBuyOrders (alias : Bytes)            -- `AliasToBuyOrderIdsRvlKey`
  | rollappToAliases (rollapp : Bytes)          -- `RollAppIdToAliasesKey`
  | aliasToRollapp (alias : Bytes)              -- `AliasToRollAppIdRvlKey`
  deriving DecidableEq, Repr

def dymNameKey (name : Bytes) : Bytes := [1] ++ name
def dymNamesOwnedByAccountRvlKey (owner : Bytes) : Bytes := [2] ++ owner
def configuredAddressToDymNamesIncludeRvlKey (addr : Bytes) : Bytes := [3] ++ addr
def fallbackAddressToDymNamesIncludeRvlKey (addr : Bytes) : Bytes := [4] ++ addr
def sellOrderKey (assetId : Bytes) : AssetType → Bytes
  | .name => [5, 0] ++ assetId
  | .alias => [5, 1] ++ assetId
def keyCountBuyOrders : Bytes := [7]
def buyOrderKey (id : Bytes) : Bytes := [8] ++ id
def buyerToOrderIdsRvlKey (addr : Bytes) : Bytes := [9] ++ addr
def dymNameToBuyOrderIdsRvlKey (name : Bytes) : Bytes := [10, 0] ++ name
def aliasToBuyOrderIdsRvlKey (alias : Bytes) : Bytes := [10, 1] ++ alias
def rollAppIdToAliasesKey (rollapp : Bytes) : Bytes := [11] ++ rollapp
def aliasToRollAppIdRvlKey (alias : Bytes) : Bytes := [12] ++ alias

/-- the store key of a DymNS record -/
def DymnsKey.bytes : DymnsKey → Bytes
  | .dymName n => dymNameKey n
  | .ownedBy o => dymNamesOwnedByAccountRvlKey o
  | .cfgAddr a => configuredAddressToDymNamesIncludeRvlKey a
  | .fallback a => fallbackAddressToDymNamesIncludeRvlKey a
  | .sellOrder i t => sellOrderKey i t
  | .countBuyOrders => keyCountBuyOrders
  | .buyOrder i => buyOrderKey i
  | .buyer a => buyerToOrderIdsRvlKey a
  | .nameToBuyOrders n => dymNameToBuyOrderIdsRvlKey n
  | .aliasToBuyOrders a => aliasToBuyOrderIdsRvlKey a
  | .rollappToAliases r => rollAppIdToAliasesKey r
  | .aliasToRollapp a => aliasToRollAppIdRvlKey a

/-- the family of a key (sell orders and asset→buy-order lookups split by asset type) -/
def DymnsKey.family : DymnsKey → Nat
  | .dymName _ => 0 | .ownedBy _ => 1 | .cfgAddr _ => 2 | .fallback _ => 3
  | .sellOrder _ .name => 4 | .sellOrder _ .alias => 5 | .countBuyOrders => 6 | .buyOrder _ => 7
  | .buyer _ => 8 | .nameToBuyOrders _ => 9 | .aliasToBuyOrders _ => 10 | .rollappToAliases _ => 11
  | .aliasToRollapp _ => 12

/-- the family's key prefix (`KeyPrefix…`): what a whole-family iteration uses -/
def DymnsKey.familyPrefix : DymnsKey → Bytes
  | .dymName _ => [1] | .ownedBy _ => [2] | .cfgAddr _ => [3] | .fallback _ => [4]
  | .sellOrder _ .name => [5, 0] | .sellOrder _ .alias => [5, 1] | .countBuyOrders => [7] | .buyOrder _ => [8]
  | .buyer _ => [9] | .nameToBuyOrders _ => [10, 0] | .aliasToBuyOrders _ => [10, 1] | .rollappToAliases _ => [11]
  | .aliasToRollapp _ => [12]

end DymVerif.Keys
