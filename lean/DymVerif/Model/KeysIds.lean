/-
  Model/KeysIds (M-Keys, fifth part) — demand-order ids: `BuildDemandIDFromPacketKey(k)` =
  lower-case hex of SHA-256(k).  SHA-256 is not modelled: the hash function is a parameter.
-/
import DymVerif.Model.KeysX
namespace DymVerif.Keys
open DymVerif

/-- one hex digit of `hex.EncodeToString` ("0123456789abcdef") -/
def hexNib (n : Nat) : Nat := if n < 10 then 48 + n else 87 + n

/-- `hex.EncodeToString` -/
def hexLower (b : Bytes) : Bytes := b.flatMap fun x => [hexNib (x / 16 % 16), hexNib (x % 16)]

/-- `BuildDemandIDFromPacketKey(packetKey)` over an abstract hash -/
def demandOrderId (sha : Bytes → Bytes) (packetKey : Bytes) : Bytes := hexLower (sha packetKey)

end DymVerif.Keys
