/-
  Model/LCTx — transactions over M-LC (`Model/LC.lean`): a transaction is a list of messages (`LC.Op`s);
  a history is a list of transactions.  Mirrors how baseapp.runTx and the hub's ante chain treat a
  transaction AS THE CODE IS:

    app/ante/cosmos_handler.go     the decorators run one after the other, EACH over ALL messages of the
                                   transaction, before ANY message executes:
                                     1. RejectMessagesDecorator (ibc MsgUpdateClient / MsgSubmitMisbehaviour at depth ≥ 1)
                                     2. fee deduction / signature verification (a message without signer annotation
                                        leaves the transaction without a fee payer)
                                     3. x/lightclient IBCMessagesDecorator.AnteHandle: first `checkedMsgsTravelWithIBCOnly`
                                        (a checked message travels with ibc core messages only), then `for _, m := range msgs`, the
                                        hub-side checks of MsgUpdateClient / MsgSubmitMisbehaviour / MsgChannelOpenAck
                                        against the state BEFORE the transaction (plus the ante writes of the
                                        messages before it: SaveSigner, Rollapp.ChannelId)
    baseapp.runTx                  the ante writes are kept iff the whole ante chain succeeds; then the messages
                                   execute in order in one cache context that is written iff all succeed

  `updateClient`, `misbehaviour`, `chanAck` of `Model/LC.lean` (ante and message in one step) are split here into
  their ante part (`anteMsg`) and their message part (`execMsg`); `Lemmas/LCTx.lean` proves that a transaction of
  one message is exactly `LC.step` (`txStep_single`).  Core Lean only.
-/
import DymVerif.Model.LC
namespace DymVerif.LC
open DymVerif.Core (Addr NextP)

/-- decorator 1, the nested-message filter, for one message -/
def nestedRefusal (s : St) : Op → Option LErr
  | .updateClient _ .nested _ _ => some .nestedDisabled
  | .updateClient _ .storedProposal _ _ => some .nestedDisabled
  | .misbehaviour c k _ =>
    match getClient s c with
    | none => none
    | some _ => (match k with
      | .submitNested => some .nestedDisabled
      | .viaUpdateNested => some .nestedDisabled
      | .submitStored => some .nestedDisabled
      | .viaUpdateStored => some .nestedDisabled
      | _ => none)
  | _ => none

/-- decorator 2: `lightclient.MsgUpdateClient` as a transaction message has no signer annotation -/
def signerRefusal (s : St) : Op → Option LErr
  | .updateClient _ .wrapped _ _ => some .noSigner
  | .misbehaviour c k _ =>
    match getClient s c with
    | none => none
    | some _ => (match k with
      | .viaWrapped => some .noSigner
      | _ => none)
  | _ => none

/-- the message types `IBCMessagesDecorator` checks: ibc `MsgUpdateClient` (header or evidence), `MsgSubmitMisbehaviour`,
    `MsgChannelOpenAck`, as messages of the transaction -/
def isChecked : Op → Bool
  | .updateClient _ .top _ _ => true
  | .misbehaviour _ .submit _ => true
  | .misbehaviour _ .viaUpdate _ => true
  | .chanAck _ .ack _ => true
  | _ => false

/-- ibc core messages (type URL `/ibc.core.…`): client, connection and channel messages.  Everything else — rollapp /
    sequencer / lightclient messages, authz.MsgExec whatever it wraps — is not. -/
def isIbcCore : Op → Bool
  | .createClient _ _ _ _ => true
  | .updateClient _ .top _ _ => true
  | .misbehaviour _ .submit _ => true
  | .misbehaviour _ .viaUpdate _ => true
  | .chanInit _ => true
  | .chanAck _ .ack _ => true
  | .chanAck _ .confirm _ => true
  | _ => false

/-- `checkedMsgsTravelWithIBCOnly` (first thing `IBCMessagesDecorator.AnteHandle` does): a transaction that carries a
    checked message must consist of ibc core messages only -/
def mixedRefusal (ms : List Op) : Bool := ms.any isChecked && !ms.all isIbcCore

/-- decorator 3, `IBCMessagesDecorator.AnteHandle`, for one message: the hub-side check and its writes -/
def anteMsg (s : St) : Op → St × Option LErr
  | .updateClient c .top hd _ => handleUpdate s c hd
  | .misbehaviour c k _ =>
    match getClient s c with
    | none => (s, none)
    | some _ =>
      let canonical := (lookup s.c2r c).isSome
      (match k with
      | .submit => if canonical then (s, some .misbehaviourDisabled) else (s, none)
      | .viaUpdate => if canonical then (s, some .misbehaviourDisabled) else (s, none)
      | _ => (s, none))
  | .chanAck ch .ack _ =>
    match s.chans.find? (·.id == ch) with
    | none => (s, some .chanUnknown)
    | some c =>
      match lookup s.c2r c.client with
      | none => (s, none)
      | some r =>
        if (lookup s.chanOf r).isSome then (s, some .chanExists)
        else ({ s with chanOf := s.chanOf ++ [(r, ch)] }, none)
  | _ => (s, none)

/-- the message itself (no hub-side check of x/lightclient here: that was the ante handler's) -/
def execMsg (s : St) : Op → St × Res
  | .core o ds => coreOp s o ds
  | .createClient chain p h c => createClient s chain p h c
  | .setCanonical c =>
    match setCanonical s c with
    | (s1, none) => (s1, .ok)
    | (_, some e) => (s, .msg e)
  | .updateClient c w hd ibc =>
    (match w with
    | .top =>
      match getClient s c with
      | none => (s, .msg .notFound)
      | some cl => if ibc && !cl.frozen then (setClient s (ibcApply cl hd), .ok) else (s, .msg .ibc)
    | .nestedWrapped => (s, .msg .noSigner)
    | _ => (s, .msg .internal))          -- refused by the ante chain: not reached
  | .misbehaviour c k ibc =>
    match getClient s c with
    | none => (s, .msg .notFound)
    | some cl =>
      (match k with
      | .submit => if ibc then (setClient s { cl with frozen := true }, .ok) else (s, .msg .ibc)
      | .viaUpdate => if ibc then (setClient s { cl with frozen := true }, .ok) else (s, .msg .ibc)
      | .viaWrappedNested => (s, .msg .noSigner)
      | _ => (s, .msg .internal))        -- refused by the ante chain: not reached
  | .chanInit c => chanInit s c
  | .chanAck ch w ibc =>
    match s.chans.find? (·.id == ch) with
    | none => (match w with
      | .ack => (s, .msg .chanUnknown)   -- refused by the ante chain: not reached
      | _ => (s, .msg .ibc))
    | some _ =>
      if ibc then ({ s with chans := s.chans.map (fun x => if x.id == ch then { x with isOpen := true } else x) }, .ok)
      else (s, .msg .ibc)

/-- decorator 3 over all messages, in order, each on top of the writes of the ones before -/
def anteAll (s : St) : List Op → St × Option LErr
  | [] => (s, none)
  | m :: ms =>
    match anteMsg s m with
    | (_, some e) => (s, some e)
    | (s1, none) => anteAll s1 ms

/-- the messages in order; stops at the first that fails -/
def execAll (s : St) : List Op → St × Res
  | [] => (s, .ok)
  | m :: ms =>
    match execMsg s m with
    | (s1, .ok) => execAll s1 ms
    | (_, r) => (s, r)

/-- one transaction: the whole ante chain over all messages, then the messages; the ante writes are kept when
    a message fails, the message writes are kept only when all succeed -/
def txStep (s : St) (ms : List Op) : St × Res :=
  match ms.findSome? (nestedRefusal s) with
  | some e => (s, .ante e)
  | none =>
    match ms.findSome? (signerRefusal s) with
    | some e => (s, .ante e)
    | none =>
      if mixedRefusal ms then (s, .ante .mixedTx) else
      match anteAll s ms with
      | (_, some e) => (s, .ante e)
      | (s1, none) =>
        match execAll s1 ms with
        | (s2, .ok) => (s2, .ok)
        | (_, r) => (s1, r)

/-- a history of transactions -/
def runTx (s : St) (txs : List (List Op)) : St := txs.foldl (fun s t => (txStep s t).1) s

/-- executable form of `DescsCovered` (Lemmas/LCGood) for all rollapps at once: every descriptor M-LC holds lies inside a
    state info of its rollapp.  `agreement_inv` needs it at designations (`SafeRun`); it is a consistency condition between
    M-LC's descriptor table and M-Core that is not proved for all runs — the driver evaluates it in EVERY state of every
    correspondence trace and reports `model-invariant-broken` if it fails. -/
def coveredB (s : St) : Bool :=
  s.descs.all fun d =>
    match Core.getRa s.core d.ra with
    | none => false
    | some r => r.states.any fun st => decide (st.start ≤ d.h) && decide (d.h ≤ st.last)

end DymVerif.LC
