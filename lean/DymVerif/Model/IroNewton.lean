/-
  Model/IroNewton — the POINTWISE Newton contract of M-IRO, executable (core Lean only): the point
  `(L, sold, net spend)` of an exact-spend purchase (`besPoint`), the points a history executes
  (`besPoints`), the upper contract at a point (`NewtonUpperAt`, decided by `newtonUpperAtB`), the
  lower contract at a point (`NewtonLowerAt`, decided by `newtonLowerAtB`) and the tolerance
  `newtonTolRaw` built from the regenerated constant `Gen.Iro.epsilonPrecision`.  The driver prints
  both decisions for every executed exact-spend purchase; the harness recomputes the same two
  inequalities from the real code's values.
-/
import DymVerif.Model.Iro
import DymVerif.Gen.Iro
namespace DymVerif.Iro
open DymVerif

/-- Newton contract, upper half, at ONE point: the tokens the code grants at `sold` for the net spend
    `net` cost (unfloored) at most that spend.  Decidable from `T sold net`, `I sold`, `I (sold + t)`:
    `newtonUpperAtB`; the driver evaluates it at every executed exact-spend purchase and the harness
    evaluates the same inequality on the real code. -/
def NewtonUpperAt (I : Int → Int) (T : Int → Int → Option Int) (L : Nat) (sold net : Int) : Prop :=
  ∀ t, tokensForExactIn T L sold net = some t → pow10 L * (I (sold + t) - I sold) ≤ decP * net

def newtonUpperAtB (I : Int → Int) (T : Int → Int → Option Int) (L : Nat) (sold net : Int) : Bool :=
  match tokensForExactIn T L sold net with
  | none => true
  | some t => decide (pow10 L * (I (sold + t) - I sold) ≤ decP * net)


/-- the point `(L, sold, net spend)` of the exact-spend purchase this message would make -/
def besPoint (st : State) : Op → Option (Nat × Int × Int)
  | .bes _ spend _ =>
    match st.plan with
    | none => none
    | some p =>
      match applyTakerFee spend st.cfg.takerFee false with
      | some (net, _) => some (p.L, p.sold, net)
      | none => none
  | _ => none


/-- the points of the exact-spend purchases a history EXECUTES (failed messages contribute nothing) -/
def besPoints (I : Int → Int) (T : Int → Int → Option Int) : State → List Op → List (Nat × Int × Int)
  | _, [] => []
  | st, o :: os =>
    (if (step I T st o).2 = .ok then (besPoint st o).toList else []) ++ besPoints I T (step I T st o).1 os


/-- the lower contract at ONE point `(s, p)` (raw values of the Newton call) -/
def NewtonLowerAt (I : Int → Int) (T : Int → Int → Option Int) (tol s p : Int) : Prop :=
  ∀ x, T s p = some x → p - tol ≤ I (s + x) - I s

def newtonLowerAtB (I : Int → Int) (T : Int → Int → Option Int) (tol s p : Int) : Bool :=
  match T s p with
  | none => true
  | some x => decide (p - tol ≤ I (s + x) - I s)


/-- raw (10^-18) value of the Newton iteration's epsilon `10^-epsilonPrecision` (the constant is
    regenerated from `x/iro/types/bonding_curve.go` on every check) -/
def newtonEpsRaw : Int := pow10 (18 - Gen.Iro.epsilonPrecision.toNat)

/-- tolerance of the Newton result for a spend of raw value `p`: the absolute stop `|f(x)| < ε`
    (three times: the integral is evaluated twice more with 18-decimals truncation) and the relative
    stop `|Δx| < ε·|x|` (a step of ε·x moves the cost by at most (1+N)·ε·p ≤ 3·ε·p; 10·ε·p is used) -/
def newtonTolRaw (p : Int) : Int := 3 * newtonEpsRaw + p / pow10 (Gen.Iro.epsilonPrecision.toNat - 1)


end DymVerif.Iro
