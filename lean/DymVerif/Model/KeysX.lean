/-
  Model/KeysX (M-Keys, fourth part) — the rollapp-id grammar (x/rollapp/types/chain_id.go), the
  x/rollapp store keys (types/key_*.go), and the prefixes of the remaining '/'-separated scans.
  Core Lean only; executed by Driver/C19 (ops `rvalid`, `rk*`, `xs*`).
-/
import DymVerif.Model.KeysColl
namespace DymVerif.Keys
open DymVerif

/-! ### rollapp ids: `^([a-z]{1,})_{1}([1-9][0-9]*)-{1}([1-9][0-9]*)$` -/

def isLowerB (c : Nat) : Bool := 97 ≤ c && c ≤ 122
def isDigitB (c : Nat) : Bool := 48 ≤ c && c ≤ 57

/-- `[1-9][0-9]*` -/
def isDecimalNoLead : Bytes → Bool
  | [] => false
  | c :: cs => (49 ≤ c && c ≤ 57) && cs.all isDigitB

/-- value of a digit string (as `strconv.ParseUint` / `big.Int.SetString` read it) -/
def decVal (s : Bytes) : Nat := s.foldl (fun acc c => acc * 10 + (c - 48)) 0

/-- `NewChainID(id)` succeeds, for an id without surrounding white space: at most 50 bytes
    (`MaxChainIDLen`), the regular expression matches — the name is everything before the first '_',
    the EIP155 number everything up to the next '-', the revision the rest — and the revision fits
    uint64 (`strconv.ParseUint(…, 0, 64)`) -/
def validRollappId (id : Bytes) : Bool :=
  id.length ≤ 50 &&
  match splitAtSep 95 id with
  | none => false
  | some (name, rest) =>
    !name.isEmpty && name.all isLowerB &&
    match splitAtSep 45 rest with
    | none => false
    | some (eip, rev) => isDecimalNoLead eip && isDecimalNoLead rev && decVal rev < 2 ^ 64

/-- the name part `ChainID.GetName()` -/
def rollappName (id : Bytes) : Bytes := match splitAtSep 95 id with | none => [] | some (n, _) => n

/-! ### x/rollapp store keys (each lives under its own string prefix of the module store) -/

/-- `RollappKey(rollappId)` -/
def rollappKey (id : Bytes) : Bytes := id ++ [sep]
/-- `LatestStateInfoIndexKey(rollappId)` -/
def latestStateInfoIndexKey (id : Bytes) : Bytes := id ++ [sep]
/-- `LatestFinalizedStateIndexKey(rollappId)` -/
def latestFinalizedStateIndexKey (id : Bytes) : Bytes := id ++ [sep]
/-- `StateInfoKey(StateInfoIndex{rollappId, index})` -/
def stateInfoKey (id : Bytes) (idx : Nat) : Bytes := id ++ [sep] ++ be64 idx ++ [sep]
/-- `BlockHeightToFinalizationQueueKey(creationHeight)` (deprecated store, still read by migrations) -/
def blockHeightToFinalizationQueueKey (h : Nat) : Bytes := be64 h ++ [sep]
/-- `binary.LittleEndian.PutUint64` -/
def le64 (n : Nat) : Bytes := (be64 n).reverse
/-- `RollappByEIP155Key(eip155)`: the number LITTLE endian, then '/' -/
def rollappByEIP155Key (n : Nat) : Bytes := le64 n ++ [sep]
/-- `AppKey(App{rollappId, id})` -/
def appKey (id : Bytes) (n : Nat) : Bytes := id ++ [sep] ++ be64 n
/-- `RollappAppKeyPrefix(rollappId)` -/
def rollappAppKeyPrefix (id : Bytes) : Bytes := id ++ [sep]

/-- the scan prefix of `GetRollappByName(name)`: `name + "_"` inside the `Rollapp/value/` store -/
def rollappByNamePrefix (name : Bytes) : Bytes := name ++ [95]

/-- `LivenessEventQueueKeyPrefix` ++ '/' is what `LivenessEventQueueIterHeightKey` starts with;
    `GetLivenessEvents(&h)` scans the prefix `livenessIterHeightKey h` -/
def livenessScanPrefix (h : Nat) : Bytes := livenessIterHeightKey h

/-- the prefix `ListDemandOrdersByStatus(status)` scans: `Pending/FinalizedDemandOrderKeyPrefix` -/
def demandOrdersByStatusPrefix (st : Status) : Bytes := statusBytes st

/-- x/delayedack `PendingPacketsByAddressKeyPrefix` -/
def pendingPacketsByAddressPrefix : Bytes := [1]

/-! ### the buffer primitives the translated body of `DecodePacketKey` is written in -/

/-- `base64.StdEncoding.DecodedLen(n)` (padded encoding): `n / 4 * 3` -/
def b64DecodedLen (n : Nat) : Nat := n / 4 * 3

/-- `n, err := base64.StdEncoding.Decode(dst, src)` on success: the decoded bytes are written at the
    front of `dst` (the rest of the buffer keeps what it held) and `n` is their number -/
def b64DecodeInto (dst src : Bytes) : Option (Bytes × Nat) :=
  match b64dec src with
  | none => none
  | some d => some (d ++ dst.drop d.length, d.length)

end DymVerif.Keys
