/-
  Model/Ante — M-Ante: the hub's `RejectMessagesDecorator` (app/ante/reject_msgs.go) over message
  trees, and M-Guards: the signer guard of privileged message handlers as a table-driven step.

  Core Lean only.  The model mirrors the Go code as it is:

    checkMsg(msg, depth):
      1. depth >= maxDepth                       -> error (too deep)
      2. msg is *evmtypes.MsgEthereumTx          -> error (invalid type)
      3. some predicate(typeURL(msg), depth)     -> error (disabled)
      4. switch msg.(type):
           MsgExec / gov v1 MsgSubmitProposal / group MsgSubmitProposal:
              inner, err = accessor()            -> err if an Any is not an unpacked sdk.Msg
           MsgGrant: a, err = GetAuthorization() -> err; predicate(a.MsgTypeURL(), depth) -> error
      5. checkMsgs(inner, depth+1)               (first error in left-to-right order wins)

  Message types are natural numbers.  The well-known ids below are fixed here; the translator maps
  Go types to them (`Gen/Ante.lean`), every other type gets an id ≥ 100 or 0 ("any other type").
  The configuration (`maxDepth`, the `BlockTypeUrls` tables, the switch cases) is NOT written here:
  it is regenerated from the Go source into `Gen.Ante.config` on every run.
-/
namespace DymVerif.Ante

/-! ## well-known message type ids (the translator's fixed map from Go types) -/
def tyOther : Nat := 0
def tyExec : Nat := 1          -- x/authz.MsgExec
def tyGovSubmit : Nat := 2     -- x/gov/types/v1.MsgSubmitProposal
def tyGroupSubmit : Nat := 3   -- x/group.MsgSubmitProposal
def tyGrant : Nat := 4         -- x/authz.MsgGrant
def tyEthTx : Nat := 5         -- ethermint x/evm/types.MsgEthereumTx
def tyUpdateClient : Nat := 6  -- ibc-go 02-client/types.MsgUpdateClient
def tyVest : Nat := 7          -- x/auth/vesting/types.MsgCreateVestingAccount
def tyVestPeriodic : Nat := 8  -- x/auth/vesting/types.MsgCreatePeriodicVestingAccount
def tyVestPermanent : Nat := 9 -- x/auth/vesting/types.MsgCreatePermanentLockedAccount
def tyMisbehaviour : Nat := 10 -- ibc-go 02-client/types.MsgSubmitMisbehaviour (deprecated, still routable)

/-- A message as the decorator sees it: its type, the messages packed inside it (empty for
    non-wrappers), the message type named by its authorization (grants; 0 otherwise) and whether
    its packed content fails to unpack (`GetMessages`/`GetMsgs`/`GetAuthorization` error). -/
inductive Msg where
  | node (ty : Nat) (inner : List Msg) (auth : Nat) (bad : Bool) : Msg

def Msg.ty : Msg → Nat | .node t _ _ _ => t
def Msg.inner : Msg → List Msg | .node _ i _ _ => i
def Msg.auth : Msg → Nat | .node _ _ a _ => a
def Msg.bad : Msg → Bool | .node _ _ _ b => b

/-- how a `switch` case reads the wrapper -/
inductive Acc where
  | msgs   -- inner messages are checked one level deeper
  | grant  -- the authorization's message type is checked at the wrapper's own depth
  deriving DecidableEq, Repr

/-- one `BlockTypeUrls(depthMin, tys…)` predicate -/
structure Rule where
  depthMin : Nat
  tys : List Nat
  deriving DecidableEq, Repr

structure Config where
  maxDepth : Nat
  typeRejects : List Nat          -- rejected by Go type assertion, before the predicates
  rules : List Rule               -- in `WithPredicate` order
  unwraps : List (Nat × Acc)      -- the cases of `switch m := msg.(type)`
  deriving DecidableEq, Repr

inductive Err where
  | deep
  | invalidType (ty : Nat)
  | disabled (ty : Nat)
  | disabledGrant (ty : Nat)
  | unpack
  deriving DecidableEq, Repr

/-- `BlockTypeUrls`: `ok && depthMax <= depth` -/
def Rule.hits (r : Rule) (ty depth : Nat) : Bool := r.tys.contains ty && decide (r.depthMin ≤ depth)

/-- some predicate returns true -/
def blocked (c : Config) (ty depth : Nat) : Bool := c.rules.any (fun r => r.hits ty depth)

def accOf (c : Config) (ty : Nat) : Option Acc := c.unwraps.lookup ty

mutual
/-- `RejectMessagesDecorator.checkMsg`; `none` = accepted -/
def checkMsg (c : Config) (depth : Nat) : Msg → Option Err
  | .node ty inner auth bad =>
    if c.maxDepth ≤ depth then some .deep
    else if c.typeRejects.contains ty then some (.invalidType ty)
    else if blocked c ty depth then some (.disabled ty)
    else match accOf c ty with
      | some .msgs => if bad then some .unpack else checkMsgs c (depth + 1) inner
      | some .grant =>
          if bad then some .unpack
          else if blocked c auth depth then some (.disabledGrant auth) else none
      | none => none
/-- `RejectMessagesDecorator.checkMsgs` -/
def checkMsgs (c : Config) (depth : Nat) : List Msg → Option Err
  | [] => none
  | m :: ms =>
    match checkMsg c depth m with
    | some e => some e
    | none => checkMsgs c depth ms
end

/-- `AnteHandle`: the transaction's messages are checked at depth 0 -/
def anteCheck (c : Config) (tx : List Msg) : Option Err := checkMsgs c 0 tx

/-! ## paths (specification side): the node reached from a message list by child indices,
    descending only through wrappers whose inner messages are really executed -/

/-- `reach W ms p` = the node addressed by the non-empty index path `p`; its depth is
    `p.length - 1`.  Descent happens only through nodes `W` classifies as `.msgs` wrappers. -/
def reach (W : Nat → Option Acc) : List Msg → List Nat → Option Msg
  | _, [] => none
  | ms, [i] => ms[i]?
  | ms, i :: j :: p =>
    match ms[i]? with
    | some m => if W m.ty = some .msgs then reach W m.inner (j :: p) else none
    | none => none

/-- the hub's wrappers as the SDK executes them (specification; validated against the real
    interface registry by the harness: these are exactly the registered message types whose packed
    `Any`s are `sdk.Msg`s, plus the grant) -/
def realWrappers : List (Nat × Acc) :=
  [(tyExec, .msgs), (tyGovSubmit, .msgs), (tyGroupSubmit, .msgs), (tyGrant, .grant)]

/-! ## M-Ante routes: `NewAnteHandler` (app/ante/ante.go)

    The tx's FIRST extension option alone selects the ante chain: a listed type URL → that route's
    constructor, any other URL → rejected outright (default case), no extension option → the
    `sdk.Tx` case.  The route table itself (URL → constructor → decorator constructors in order) is
    regenerated into `Gen.Ante.routes`; what each decorator does *with the message types* is the
    hand-written `classify` below (the trusted reading of the SDK / ethermint decorators). -/

/-- what a decorator does with the transaction's message types -/
inductive Dec where
  | setup                               -- only prepares the context (gas meter); looks at no message
  | reject                              -- the hub's RejectMessagesDecorator: `anteCheck`
  | ethOnly (skippedOnRecheck : Bool)   -- fails unless EVERY message is a `*evmtypes.MsgEthereumTx`
  | other                               -- anything else (fees, signatures, …): no verdict on message types
  deriving DecidableEq, Repr

/-- one route of `NewAnteHandler` -/
structure Route where
  ext : Option String      -- type URL of the first extension option; `none` = no extension option
  handler : String         -- constructor of the ante chain
  decs : List String       -- "<import path>.<Constructor>" of its decorators, in order
  deriving DecidableEq, Repr

/-- the decorators whose treatment of message types the model knows, by constructor.
    `EthValidateBasicDecorator` loops over the messages with a type assertion but returns early on
    ReCheckTx; `EthSigVerificationDecorator` does the same type assertion unconditionally. -/
def classify (n : String) : Dec :=
  if n = "app/ante.NewRejectMessagesDecorator" then .reject
  else if n = "github.com/cosmos/cosmos-sdk/x/auth/ante.NewSetUpContextDecorator" then .setup
  else if n = "github.com/evmos/ethermint/app/ante.NewEthSetUpContextDecorator" then .setup
  else if n = "github.com/evmos/ethermint/app/ante.NewEthValidateBasicDecorator" then .ethOnly true
  else if n = "github.com/evmos/ethermint/app/ante.NewEthSigVerificationDecorator" then .ethOnly false
  else .other

inductive RErr where
  | unknownExt             -- unsupported extension option (no route)
  | ante (e : Err)         -- the reject decorator's verdict
  | notEth (ty : Nat)      -- a message that is not a MsgEthereumTx on an eth-only chain
  deriving DecidableEq, Repr

/-- the message-type verdict of a decorator chain; `none` = no decorator objects to the types -/
def runDecs (c : Config) (recheck : Bool) : List Dec → List Msg → Option RErr
  | [], _ => none
  | .reject :: ds, tx =>
    match anteCheck c tx with
    | some e => some (.ante e)
    | none => runDecs c recheck ds tx
  | .ethOnly skip :: ds, tx =>
    if skip && recheck then runDecs c recheck ds tx
    else match tx.find? (fun m => m.ty != tyEthTx) with
      | some m => some (.notEth m.ty)
      | none => runDecs c recheck ds tx
  | .setup :: ds, tx => runDecs c recheck ds tx
  | .other :: ds, tx => runDecs c recheck ds tx

def routeOf (rs : List Route) (ext : Option String) : Option Route := rs.find? (fun r => r.ext = ext)

/-- `NewAnteHandler`'s closure as far as message types go -/
def runAnte (c : Config) (rs : List Route) (recheck : Bool) (ext : Option String) (tx : List Msg) :
    Option RErr :=
  match routeOf rs ext with
  | some r => runDecs c recheck (r.decs.map classify) tx
  | none => some .unknownExt

/-- the reject decorator comes first, after context set-up only -/
def rejectFirst (ds : List Dec) : Bool :=
  match ds.dropWhile (fun d => d == .setup) with
  | .reject :: _ => true
  | _ => false

/-- some decorator that runs in every mode insists on MsgEthereumTx only -/
def ethGuarded (ds : List Dec) : Bool := ds.contains (.ethOnly false)

def routeGuarded (r : Route) : Bool :=
  rejectFirst (r.decs.map classify) || ethGuarded (r.decs.map classify)

/-! ## M-Guards: signer guards of privileged handlers (table driven) -/

/-- what the handler compares the signer field with, before any write -/
inductive Guard where
  | authority   -- signer field must equal the keeper's authority (x/gov module account)
  | owner       -- signer field must equal the stored owner of the targeted object
  | self        -- the object is addressed by the signer itself (sequencer messages): no foreign target
  | govRouted   -- legacy governance content: reachable only through x/gov's content router
                -- (`MsgExecLegacyContent` compares its authority with the gov account; SDK code)
  | none        -- no signer comparison found
  deriving DecidableEq, Repr

/-- one row of the regenerated guard table -/
structure GuardEntry where
  id : Nat                 -- stable row number (position in the generated table)
  isMsg : Bool             -- an rpc method of a custom module's gRPC Msg service (false: legacy gov content / route)
  hasAuthorityField : Bool -- the message struct has an `Authority` field
  govOnly : Bool           -- governance-only by declaration: `Authority` field, or `cosmos.msg.v1.signer` = authority,
                           -- or declared in a governance service (a service other than `Msg`)
  ownerOnly : Bool         -- derived by the extractor: the handler compares the signer with a stored non-authority
                           -- value (owner / creator / buyer / controller / proposer) or looks up the signer's own object
  guard : Guard            -- what the extractor found
  guardFirst : Bool        -- no store write / bank call precedes the guard on the analysed path
  deriving DecidableEq, Repr

/-- signer of an attempt; objects' owners are actors too -/
inductive Signer where
  | authority
  | actor (a : Nat)
  | module (m : Nat)
  deriving DecidableEq, Repr

/-- owners of the objects (rollapp, lock, name, plan, order …) the trace has created -/
abbrev Owners := List (Nat × Nat)

def ownerOf (s : Owners) (obj : Nat) : Option Nat := s.lookup obj

def setOwner (s : Owners) (obj a : Nat) : Owners := (obj, a) :: s.filter (fun p => p.1 ≠ obj)

structure Attempt where
  entry : GuardEntry
  obj : Nat               -- targeted object (ignored for authority guards)
  signer : Signer
  valid : Bool            -- the content is acceptable in the current state when sent by the privileged signer
  newOwners : List (Nat × Nat)  -- on success: (object, new owner) pairs (ownership / controller transfers)

/-- does the signer pass the handler's guard? -/
def passes (s : Owners) (a : Attempt) : Bool :=
  match a.entry.guard with
  | .authority => a.signer = .authority
  | .govRouted => a.signer = .authority
  | .owner =>
    match ownerOf s a.obj, a.signer with
    | some o, .actor x => o = x
    | _, _ => false
  | .self =>
    match ownerOf s a.obj, a.signer with
    | some o, .actor x => o = x
    | _, _ => false
  | .none => true

/-- one privileged-message attempt: (new owners, accepted?) -/
def applyOwners (s : Owners) : List (Nat × Nat) → Owners
  | [] => s
  | (o, n) :: r => applyOwners (setOwner s o n) r

def gstep (s : Owners) (a : Attempt) : Owners × Bool :=
  if passes s a && a.valid then (applyOwners s a.newOwners, true) else (s, false)

def grun (s : Owners) : List Attempt → Owners
  | [] => s
  | a :: as => grun (gstep s a).1 as

end DymVerif.Ante
