/-
  Model/LCAdmin — the two ibc core client messages that rewrite a client and that the hub does not look at:

    MsgUpgradeClient  (permissionless; ibc-go 02-client keeper.UpgradeClient → 07-tendermint VerifyUpgradeAndUpdateState):
        the client must be Active, the upgraded client's latest height above the current one, and two membership proofs
        (upgraded client state, upgraded consensus state, under the client's `UpgradePath`) must verify against the root
        of the consensus state at the client's latest height — the oracle `ibc`.  The new client state takes chain id,
        unbonding period, latest height, proof specs and upgrade path from the upgraded client and keeps the relayer
        chosen fields; a consensus state with a sentinel root and the upgraded timestamp / next validators is stored at
        the new height.
    MsgRecoverClient  (signer = ibc authority = gov; keeper.RecoverClient → CheckSubstituteAndUpdateState): the subject must
        NOT be Active (the window after `RollbackCanonicalClient` froze the canonical client; expiry is not modelled), the
        substitute Active, equal to the subject in everything but latest height / frozen height / trusting period / chain
        id, and higher; the subject gets the substitute's latest consensus state, latest height, chain id and trusting
        period, and is unfrozen.

  Neither message type is in IBCMessagesDecorator's handled set nor in the nested-message filter, and x/lightclient has no
  hook on them: on a canonical client they run as on any other client.  Core Lean only.
-/
import DymVerif.Model.LCTx
namespace DymVerif.LC
open DymVerif.Core (Addr NextP)

/-- the upgraded client (chain id, latest height) and the upgraded consensus state (timestamp, next validators) -/
structure Upg where
  chain : Nat
  h : Nat
  ts : Nat
  nextVal : Nat
  deriving DecidableEq, Repr, Inhabited

/-- the root token of the sentinel root ("upgradedClient") stored by an upgrade -/
def sentinelRoot : Nat := 0

def upgradeClient (s : St) (c : Nat) (u : Upg) (ibc : Bool) : St × Res :=
  match getClient s c with
  | none => (s, .msg .notFound)
  | some cl =>
    if cl.frozen then (s, .msg .ibc)
    else if !decide (cl.latest < u.h) then (s, .msg .ibc)
    else if !ibc then (s, .msg .ibc)
    else (setClient s { cl with chain := u.chain, cons := insCons u.h ⟨sentinelRoot, u.ts, u.nextVal⟩ cl.cons, latest := u.h }, .ok)

/-- `IsMatchingClientState`: everything but latest height, frozen height, trusting period and chain id -/
def matchingParams (a b : CParams) : Bool :=
  a.trustLevel == b.trustLevel && a.unbonding == b.unbonding && a.drift == b.drift && a.specs == b.specs && a.path == b.path

def recoverClient (s : St) (c sub : Nat) : St × Res :=
  match getClient s c with
  | none => (s, .msg .notFound)
  | some cl =>
    if !cl.frozen then (s, .msg .ibc) else                    -- the subject must not be Active
    match getClient s sub with
    | none => (s, .msg .notFound)
    | some sb =>
      if !decide (cl.latest < sb.latest) then (s, .msg .ibc)
      else if sb.frozen then (s, .msg .ibc)                   -- the substitute must be Active
      else if !matchingParams cl.params sb.params then (s, .msg .ibc)
      else match getCons sb sb.latest with
        | none => (s, .msg .ibc)
        | some cs =>
          (setClient s { cl with chain := sb.chain, params := { cl.params with trusting := sb.params.trusting },
                                 cons := insCons sb.latest cs cl.cons, latest := sb.latest, frozen := false }, .ok)

/-- ops of the extended protocol: a transaction of M-LC messages, an upgrade, a recovery -/
inductive AOp
  | tx (ms : List Op)
  | upgrade (c : Nat) (u : Upg) (ibc : Bool)
  | recover (c sub : Nat)

def astep (s : St) : AOp → St × Res
  | .tx ms => txStep s ms
  | .upgrade c u ibc => upgradeClient s c u ibc
  | .recover c sub => recoverClient s c sub

def arun (s : St) (ops : List AOp) : St := ops.foldl (fun s o => (astep s o).1) s

/-- what the per-op monitor of the harness checks: every canonical client is a client of its rollapp's chain with the
    expected parameters -/
def canonImmutableB (s : St) : Bool :=
  s.r2c.all fun rc =>
    match getClient s rc.2 with
    | none => false
    | some cl => cl.chain == rc.1 && cl.params == expParams

end DymVerif.LC
