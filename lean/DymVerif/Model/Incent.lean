/-
  Model/Incent — M-Incent: x/streamer (streams, epoch pointers, paged distribution) and
  x/incentives (asset / rollapp gauges, payouts to lock owners / rollapp owner) of the Dymension hub,
  mirroring the Go code AS IT IS (same order of checks, same rounding, same error cases) — with the
  repairs fix D1 (share = amount·weight/total) and D2 (streams sorted by id in Distribute) applied.
  (D3 — mid-epoch activation — is NOT repaired: an upstream test pins that mechanism; see tag c15-d1-d2-d3
  for the variant of this package that follows fix D3.)
  Core Lean only.

  Mirrors (file: functions):
    utils/pagination/paginate.go: Paginate
    x/streamer/keeper/stream_iterator.go: IterateEpochPointer, NewStreamIterator, Next, findNextStream,
        validInvariants (slices.BinarySearchFunc is modelled by bisection exactly as the Go runtime does it)
    x/streamer/keeper/distribute.go: Distribute, CalculateGaugeRewards, CalculateRewards,
        getActiveGaugeByID, getGaugeLockNum
    x/streamer/keeper/abci.go: EndBlock;  hooks.go: BeforeEpochStart, AfterEpochEnd
    x/streamer/keeper/stream.go: UpdateStreamAtEpochStart, UpdateStreamAtEpochEnd, move*Stream*;
        store.go: add/deleteStreamRefByKey (swap-remove);  keeper.go: CreateStream, TerminateStream
    x/streamer/keeper/keeper_replace_update_distribution.go: ReplaceDistrRecords; distr_info.go: validateGauges
    x/incentives/keeper/distribute.go: Distribute, DistributeOnEpochEnd, updateGaugePostDistribute,
        checkFinishedGauges;  gauge_asset.go: CreateAssetGauge, calculateAssetGaugeRewards,
        GetDistributeToBaseLocks, distributeTrackedRewards;  gauge_rollapp.go: CreateRollappGauge,
        calculateRollappGaugeRewards;  gauge.go: AddToGaugeRewards;  hooks.go: AfterEpochEnd
    osmosis x/epochs BeginBlocker (epoch end / start detection, hooks in cache contexts)
    x/streamer/keeper/keeper_replace_update_distribution.go: UpdateDistrRecords;  gauges_hooks.go: CreatePoolGauge
        (hooks.go: AfterPoolCreated);  sponsored streams: CreateStream(sponsored), UpdateStreamAtEpochStart
        re-reading the sponsorship distribution (types/distr_info.go: DistrInfoFromDistribution)
  Not modelled: endorsement gauges (C16's package), fees (charged in the base denom, which is never a
  reward denom here), the lockup module itself (the lock table is an input: op `locks`), x/rollapp (rollapp
  owner / launched flag are inputs: op `rollapp`), x/sponsorship (the current distribution — gauge ids with
  their voting power, as `GetDistribution` returns it — is an input: op `distribution`).
-/
import DymVerif.Base.Dec
namespace DymVerif.Incent
open DymVerif

/-! ## Coins: vector of amounts indexed by reward-denom number (missing = 0) -/

abbrev Coins := List Nat

namespace Coins
def amt (c : Coins) (i : Nat) : Nat := c.getD i 0

def add : Coins → Coins → Coins
  | [], ys => ys
  | xs, [] => xs
  | x :: xs, y :: ys => (x + y) :: add xs ys

/-- sdk `Coins.Empty()` for normalised coins / "all amounts zero" -/
def isZero (c : Coins) : Bool := c.all (· == 0)

/-- `a.IsAllLTE(b)` on valid coins: pointwise ≤ -/
def le : Coins → Coins → Bool
  | [], _ => true
  | x :: xs, [] => x == 0 && le xs []
  | x :: xs, y :: ys => decide (x ≤ y) && le xs ys

/-- truncated pointwise subtraction (only used where `le b a` has been checked) -/
def sub : Coins → Coins → Coins
  | [], _ => []
  | xs, [] => xs
  | x :: xs, y :: ys => (x - y) :: sub xs ys

/-- `a.Sub(b...)`: panics (none) when some amount would become negative -/
def sub? (a b : Coins) : Option Coins := if le b a then some (sub a b) else none

/-- `coins.QuoInt(n)` (n ≠ 0): pointwise truncated quotient; zero coins are kept by the SDK -/
def quo (c : Coins) (n : Nat) : Coins := c.map (· / n)

def sumList : List Coins → Coins
  | [] => []
  | c :: cs => add c (sumList cs)
end Coins

/-! ## Entities -/

/-- a period lock as seen by x/incentives (table supplied by the lockup module) -/
structure Lock where
  owner : Nat
  denom : Nat
  amount : Nat
  duration : Nat
  deriving DecidableEq, Repr, Inhabited

inductive GKind where
  | asset (denom : Nat) (duration : Nat)
  | rollapp (r : Nat)
  deriving DecidableEq, Repr, Inhabited

inductive GStatus where | upcoming | active | finished
  deriving DecidableEq, Repr, Inhabited

structure Gauge where
  id : Nat
  kind : GKind
  perpetual : Bool
  coins : Coins
  distributed : Coins
  start : Nat
  numEpochs : Nat
  filled : Nat
  status : GStatus
  deriving DecidableEq, Repr, Inhabited

structure Rec where
  gauge : Nat
  weight : Nat
  deriving DecidableEq, Repr, Inhabited

structure Stream where
  id : Nat
  recs : List Rec
  totalWeight : Nat
  coins : Coins
  distributed : Coins
  start : Nat
  epochId : Nat          -- 0 = day, 1 = hour, 2 = week (store-key order of the identifiers)
  numEpochs : Nat
  filled : Nat
  epochCoins : Coins
  ecEmpty : Bool         -- `EpochCoins.Empty()` (no coin at all, as opposed to zero-amount coins)
  sponsored : Bool := false   -- `Sponsored`: the records are re-read from x/sponsorship at every epoch start
  deriving DecidableEq, Repr, Inhabited

structure Pointer where
  streamId : Nat
  gaugeId : Nat
  deriving DecidableEq, Repr, Inhabited

def maxU64 : Nat := 18446744073709551615
def Pointer.first : Pointer := ⟨0, 0⟩
def Pointer.last : Pointer := ⟨maxU64, maxU64⟩

structure Epoch where
  dur : Nat
  curStart : Nat
  started : Bool
  startTime : Nat
  deriving DecidableEq, Repr, Inhabited

structure Rollapp where
  exists_ : Bool
  owner : Nat
  launched : Bool
  deriving DecidableEq, Repr, Inhabited

/-- time-keyed reference lists of stream ids (`KeyPrefix{Upcoming,Active,Finished}Streams | time`) -/
abbrev Refs := List (Nat × List Nat)

abbrev Bank := List (Nat × Coins)

def streamerAddr : Nat := 100
def incAddr : Nat := 101
/-- addresses the bank refuses to credit (module accounts in `BlockedAddr`) -/
def blocked (a : Nat) : Bool := a == incAddr || a == 102

structure State where
  now : Nat := 0
  maxIter : Nat := 500
  bank : Bank := []
  gauges : List Gauge := []          -- position i holds gauge id i+1
  streams : List Stream := []        -- position i holds stream id i+1
  upcoming : Refs := []
  active : Refs := []
  finished : Refs := []
  ptrs : List Pointer := [Pointer.last, Pointer.last, Pointer.last]   -- by epoch id
  epochs : List Epoch := []
  locks : List Lock := []
  rollapps : List Rollapp := []
  halted : Bool := false
  distr : List Rec := []             -- x/sponsorship's current distribution (`GetDistribution`): gauge id, power
  deriving Repr, Inhabited

inductive Out where
  | ok | invalid | err | panic | halt
  deriving DecidableEq, Repr, Inhabited

def Out.str : Out → String
  | .ok => "ok" | .invalid => "invalid" | .err => "err" | .panic => "panic" | .halt => "halt"

/-- result of a keeper call running inside a cache context: new state or an error class -/
abbrev Res := Except Out State

/-! ## Bank -/

namespace Bank
def get (b : Bank) (a : Nat) : Coins :=
  match b.find? (·.1 == a) with
  | some p => p.2
  | none => []
def set (b : Bank) (a : Nat) (c : Coins) : Bank := (a, c) :: b.filter (·.1 != a)
def credit (b : Bank) (a : Nat) (c : Coins) : Bank := b.set a (Coins.add (b.get a) c)
/-- `SendCoins`: insufficient funds ⇒ none -/
def send (b : Bank) (src dst : Nat) (c : Coins) : Option Bank :=
  if Coins.le c (b.get src) then
    let b1 := b.set src (Coins.sub (b.get src) c)
    some (b1.credit dst c)
  else none
end Bank

/-! ## Pure kernels -/

/-- `CalculateGaugeRewards`, one coin: `coin.Amount.Mul(record.Weight).Quo(totalWeight)` on math.Int
    (multiply before dividing; repaired by fix D1) -/
def streamShare (amount weight total : Nat) : Nat := amount * weight / total

/-- `CalculateGaugeRewards` over all coins of `EpochCoins` (zero and non-positive results are skipped,
    i.e. contribute 0) -/
def gaugeRewards (epochCoins : Coins) (weight total : Nat) : Coins :=
  epochCoins.map (fun a => streamShare a weight total)

/-- `calculateAssetGaugeRewards`, one lock, one coin: `remain·l / (L·e)` (math.Int truncated quotient) -/
def lockShare (remain l lockSum remainEpochs : Nat) : Nat := remain * l / (lockSum * remainEpochs)

def lockReward (remain : Coins) (l lockSum remainEpochs : Nat) : Coins :=
  remain.map (fun r => lockShare r l lockSum remainEpochs)

/-- a lock qualifies for an asset gauge: same denom, duration at least the gauge's -/
def qualifies (denom duration : Nat) (l : Lock) : Bool := l.denom == denom && decide (duration ≤ l.duration)

def lockSum (ls : List Lock) : Nat := (ls.map (·.amount)).sum

/-! ## Streams iterator and pagination -/

/-- Go `slices.BinarySearchFunc(ids, target, cmp)`: bisection; on unsorted input it returns whatever
    the bisection returns (this matters: the active-stream list is not sorted by id) -/
def binSearchAux (ids : List Nat) (target : Nat) : Nat → Nat → Nat → Nat
  | 0, i, _ => i
  | fuel + 1, i, j =>
    if i < j then
      let h := (i + j) / 2
      if ids.getD h 0 < target then binSearchAux ids target fuel (h + 1) j
      else binSearchAux ids target fuel i h
    else i

def binSearch (ids : List Nat) (target : Nat) : Nat :=
  binSearchAux ids target (ids.length + 1) 0 ids.length

/-- static part of a stream as the iterator sees it -/
structure SView where
  id : Nat
  epochId : Nat
  recs : List Rec
  deriving DecidableEq, Repr, Inhabited

def Stream.view (s : Stream) : SView := ⟨s.id, s.epochId, s.recs⟩

/-- stream-level part of `validInvariants`: non-empty records, matching epoch identifier -/
def sOk (e : Nat) (s : SView) : Bool := !s.recs.isEmpty && s.epochId == e

/-- `validInvariants` -/
def validAt (data : List SView) (e si gi : Nat) : Bool :=
  match data[si]? with
  | none => false
  | some s => sOk e s && decide (gi < s.recs.length)

/-- offset of the first acceptable stream in `l` (positions start at `off`), else the end -/
def firstOk (e : Nat) : List SView → Nat → Nat
  | [], off => off
  | s :: rest, off => if sOk e s then off else firstOk e rest (off + 1)

/-- `findNextStream`: gauge index 0 of the next acceptable stream after `si` (or the end) -/
def findNextStream (data : List SView) (e si : Nat) : Nat × Nat :=
  (firstOk e (data.drop (si + 1)) (si + 1), 0)

/-- `NewStreamIterator` -/
def newIter (data : List SView) (e : Nat) (p : Pointer) : Nat × Nat :=
  let si := binSearch (data.map (·.id)) p.streamId
  match data[si]? with
  | none => (si, 0)
  | some s =>
    let gi := binSearch (s.recs.map (·.gauge)) p.gaugeId
    if validAt data e si gi then (si, gi) else findNextStream data e si

/-- `StreamIterator.Next` -/
def iterNext (data : List SView) (e : Nat) (it : Nat × Nat) : Nat × Nat :=
  if validAt data e it.1 (it.2 + 1) then (it.1, it.2 + 1) else findNextStream data e it.1

/-- number of valid positions at or after the iterator (termination measure of `Paginate`) -/
def totalRecs (data : List SView) : Nat := (data.map (·.recs.length)).sum

/-- `pagination.Paginate` with a state-threading callback returning the weight of the item.
    (`stop` is always false in the streamer's callback.) -/
def paginate {σ : Type} (data : List SView) (e : Nat) (cb : σ → SView → Rec → σ × Nat) (max : Nat) :
    Nat → (Nat × Nat) → Nat → σ → (Nat × Nat) × Nat × σ
  | 0, it, total, acc => (it, total, acc)
  | fuel + 1, it, total, acc =>
    if total < max && validAt data e it.1 it.2 then
      match data[it.1]? with
      | none => (it, total, acc)
      | some s =>
        let r := s.recs.getD it.2 default
        let (acc', w) := cb acc s r
        paginate data e cb max fuel (iterNext data e it) (total + w) acc'
    else (it, total, acc)

/-- `IterateEpochPointer`: returns the new pointer, the operations count and the callback state -/
def iterateEpochPointer {σ : Type} (data : List SView) (e : Nat) (p : Pointer) (max : Nat)
    (cb : σ → SView → Rec → σ × Nat) (acc : σ) : Pointer × Nat × σ :=
  let it0 := newIter data e p
  let (it, total, acc') := paginate data e cb max (totalRecs data + 1) it0 0 acc
  let p' := if validAt data e it.1 it.2 then
      match data[it.1]? with
      | some s => ⟨s.id, (s.recs.getD it.2 default).gauge⟩
      | none => Pointer.last
    else Pointer.last
  (p', total, acc')

/-! ## State access -/

def getGauge (s : State) (id : Nat) : Option Gauge := if id = 0 then none else s.gauges[id - 1]?
def setGauge (s : State) (g : Gauge) : State := { s with gauges := s.gauges.set (g.id - 1) g }
def getStream (s : State) (id : Nat) : Option Stream := if id = 0 then none else s.streams[id - 1]?
def setStream (s : State) (st : Stream) : State := { s with streams := s.streams.set (st.id - 1) st }

/-- `IsFinishedGauge(now)` (by time and filled epochs, not by reference list) -/
def Gauge.isFinished (g : Gauge) (now : Nat) : Bool :=
  !(decide (now < g.start)) && !(decide (g.start ≤ now) && (g.perpetual || decide (g.filled < g.numEpochs)))

def Stream.isUpcoming (st : Stream) (now : Nat) : Bool := decide (now < st.start)
def Stream.isActive (st : Stream) (now : Nat) : Bool := decide (st.start ≤ now) && decide (st.filled < st.numEpochs)
def Stream.isFinished (st : Stream) (now : Nat) : Bool := !st.isUpcoming now && !st.isActive now

namespace Refs
/-- all ids in key (time) order, each list in stored order -/
def ids (r : Refs) : List Nat := r.flatMap (·.2)

/-- `addStreamRefByKey`: append to the list under the time key (keys kept sorted); error if present -/
def add : Refs → Nat → Nat → Option Refs
  | [], t, id => some [(t, [id])]
  | (t', l) :: rest, t, id =>
    if t < t' then some ((t, [id]) :: (t', l) :: rest)
    else if t = t' then (if l.contains id then none else some ((t', l ++ [id]) :: rest))
    else match add rest t id with
      | some r => some ((t', l) :: r)
      | none => none

/-- `removeValue`: overwrite the found slot with the last element and drop the last -/
def swapRemove (l : List Nat) (id : Nat) : Option (List Nat) :=
  match l.idxOf? id with
  | none => none
  | some i => some ((l.set i (l.getLastD 0)).dropLast)

/-- `deleteStreamRefByKey`: error when the id is not under that key; empty lists delete the key -/
def del : Refs → Nat → Nat → Option Refs
  | [], _, _ => none
  | (t', l) :: rest, t, id =>
    if t = t' then
      match swapRemove l id with
      | none => none
      | some l' => if l'.isEmpty then some rest else some ((t', l') :: rest)
    else match del rest t id with
      | some r => some ((t', l) :: r)
      | none => none
end Refs

def streamsOf (s : State) (ids : List Nat) : List Stream := ids.filterMap (getStream s)
def activeStreams (s : State) : List Stream := streamsOf s s.active.ids
def upcomingStreams (s : State) : List Stream := streamsOf s s.upcoming.ids

/-! ## x/incentives: payouts -/

/-- reward tracker: recipients in first-seen order with their accumulated coins -/
abbrev Tracker := List (Nat × Coins)

def Tracker.addReward : Tracker → Nat → Coins → Tracker
  | [], o, c => [(o, c)]
  | (o', c') :: rest, o, c => if o' = o then (o', Coins.add c c') :: rest else (o', c') :: Tracker.addReward rest o c

/-- `GetDistributeToBaseLocks`: none for an empty gauge, else the qualifying locks -/
def gaugeLocks (s : State) (g : Gauge) : List Lock :=
  match g.kind with
  | .asset d dur => if g.coins.isZero then [] else s.locks.filter (qualifies d dur)
  | .rollapp _ => []

/-- per-lock loop of `calculateAssetGaugeRewards` -/
def assetLoop (remain : Coins) (L re : Nat) : List Lock → Tracker → Coins → Tracker × Coins
  | [], tr, tot => (tr, tot)
  | l :: ls, tr, tot =>
    let c := lockReward remain l.amount L re
    if c.isZero then assetLoop remain L re ls tr tot
    else assetLoop remain L re ls (tr.addReward l.owner c) (Coins.add tot c)

/-- remaining epochs of a gauge: 1 for perpetual gauges, else `NumEpochsPaidOver - FilledEpochs`
    (uint64: wraps when filled > numEpochs; a gauge leaves the active list once filled+1 ≥ numEpochs) -/
def remainEpochs (g : Gauge) : Nat :=
  if g.perpetual then 1
  else if g.filled ≤ g.numEpochs then g.numEpochs - g.filled else g.numEpochs + 18446744073709551616 - g.filled

/-- `calculateAssetGaugeRewards`; `none` = panic (`Coins.Sub` negative) -/
def calcAsset (g : Gauge) (locks : List Lock) (tr : Tracker) : Option (Tracker × Coins) :=
  if lockSum locks = 0 then some (tr, []) else
  match Coins.sub? g.coins g.distributed with
  | none => none
  | some remain =>
    if remainEpochs g = 0 then some (tr, []) else
    if remain.isZero then some (tr, []) else
    some (assetLoop remain (lockSum locks) (remainEpochs g) locks tr [])

inductive CalcRes where
  | ok (tr : Tracker) (c : Coins)
  | err
  | panic

/-- `calculateRollappGaugeRewards` (RollappGaugesMode = ActiveOnly, the default) -/
def calcRollapp (s : State) (g : Gauge) (r : Nat) (tr : Tracker) : CalcRes :=
  match s.rollapps[r]? with
  | none => .err
  | some ra =>
    if !ra.exists_ then .err else
    if !ra.launched then .ok tr [] else
    match Coins.sub? g.coins g.distributed with
    | none => .panic
    | some total => if total.isZero then .ok tr [] else .ok (tr.addReward ra.owner total) total

/-- `distributeTrackedRewards`: module → recipients, first failure aborts -/
def payAll : Tracker → Bank → Option Bank
  | [], b => some b
  | (o, c) :: rest, b =>
    if blocked o then none else
    match b.send incAddr o c with
    | none => none
    | some b' => payAll rest b'

/-- the per-gauge dispatch inside `Keeper.Distribute` -/
def calcGauge (s : State) (g : Gauge) (tr : Tracker) : CalcRes :=
  match g.kind with
  | .asset _ _ =>
    (match calcAsset g (gaugeLocks s g) tr with
     | some (tr', c) => .ok tr' c
     | none => .panic)
  | .rollapp r => calcRollapp s g r tr

/-- gauge loop of `Keeper.Distribute` -/
def incLoop (epochEnd : Bool) : List Gauge → State → Tracker → Except Out (State × Tracker)
  | [], s, tr => .ok (s, tr)
  | g :: gs, s, tr =>
    match calcGauge s g tr with
    | .err => .error .err
    | .panic => .error .panic
    | .ok tr' c =>
      if c.isZero then incLoop epochEnd gs s tr'
      else
        -- updateGaugePostDistribute: the *passed* gauge value is written back
        let g' := { g with filled := if epochEnd then g.filled + 1 else g.filled, distributed := Coins.add g.distributed c }
        incLoop epochEnd gs (setGauge s g') tr'

/-- x/incentives `Keeper.Distribute(gauges, cache, epochEnd)` -/
def incDistribute (s : State) (gauges : List Gauge) (epochEnd : Bool) : Res :=
  match incLoop epochEnd gauges s [] with
  | .error e => .error e
  | .ok (s', tr) =>
    match payAll tr s'.bank with
    | none => .error .err
    | some b => .ok { s' with bank := b }

/-! ## x/streamer: Distribute -/

structure Caches where
  streams : List Stream      -- streamCache (insertion order = the order handed in)
  gauges : List Gauge        -- gaugeCache (insertion order)
  distributed : Coins

def Caches.getStream (c : Caches) (id : Nat) : Option Stream := c.streams.find? (·.id == id)
def Caches.getGauge (c : Caches) (id : Nat) : Option Gauge := c.gauges.find? (·.id == id)
def upsertStream : List Stream → Stream → List Stream
  | [], st => [st]
  | x :: xs, st => if x.id = st.id then st :: xs else x :: upsertStream xs st
def upsertGauge : List Gauge → Gauge → List Gauge
  | [], g => [g]
  | x :: xs, g => if x.id = g.id then g :: xs else x :: upsertGauge xs g

/-- `getGaugeLockNum` -/
def gaugeLockNum (s : State) (g : Gauge) : Nat :=
  match g.kind with
  | .asset _ _ => (gaugeLocks s g).length
  | .rollapp _ => 1

/-- the callback of `CalculateRewards` -/
def rewardsCb (s : State) (c : Caches) (v : SView) (r : Rec) : Caches × Nat :=
  match c.getStream v.id with
  | none => (c, 0)    -- MustGet cannot fail: the iterator runs over the cache's own slice
  | some stream =>
    let gaugeRes : Option (Gauge × Caches) :=
      match c.getGauge r.gauge with
      | some g => some (g, c)
      | none =>
        match getGauge s r.gauge with
        | none => none
        | some g => if g.isFinished s.now then none else some (g, { c with gauges := upsertGauge c.gauges g })
    match gaugeRes with
    | none => (c, 0)
    | some (gauge, c1) =>
      if stream.ecEmpty || stream.totalWeight == 0 then (c1, 0) else
      let rewards := gaugeRewards stream.epochCoins r.weight stream.totalWeight
      let stream' := { stream with distributed := Coins.add stream.distributed rewards }
      let gauge' := { gauge with coins := Coins.add gauge.coins rewards }
      let c2 : Caches := { streams := upsertStream c1.streams stream', gauges := upsertGauge c1.gauges gauge',
                           distributed := Coins.add c1.distributed rewards }
      (c2, gaugeLockNum s gauge')

/-- epoch ids ordered by duration (`SortEpochPointers`): hour(1) < day(0) < week(2) -/
def sortByDuration (ids : List Nat) : List Nat :=
  (ids.filter (· == 1)) ++ (ids.filter (· == 0)) ++ (ids.filter (· == 2))

/-- the loop over epoch pointers in `Distribute` -/
def ptrLoop (s : State) (maxOps : Nat) : List Nat → Nat → Caches → List Pointer → Nat × Caches × List Pointer
  | [], total, c, ps => (total, c, ps)
  | e :: es, total, c, ps =>
    if total ≥ maxOps then (total, c, ps) else
    let remain := maxOps - total
    let data := c.streams.map Stream.view
    let (p', iters, c') := iterateEpochPointer data e (ps.getD e Pointer.last) remain (rewardsCb s) c
    ptrLoop s maxOps es (total + iters) c' (ps.set e p')

/-- `UpdateStreamAtEpochEnd`, the counter part: an epoch is filled unless the stream has no weight -/
def Stream.atEpochEnd (st : Stream) : Stream :=
  if st.totalWeight != 0 then { st with filled := st.filled + 1 } else st

/-- the rest of `UpdateStreamAtEpochEnd` (a filled stream moves to the finished list) and `SetStream` -/
def saveStreamEnd (st' : Stream) (s : State) : Res :=
  if st'.filled ≥ st'.numEpochs then
    match Refs.del s.active st'.start st'.id with
    | none => .error .err
    | some a =>
      match Refs.add s.finished st'.start st'.id with
      | none => .error .err
      | some f => .ok (setStream { s with active := a, finished := f } st')
  else .ok (setStream s st')

/-- `UpdateStreamAtEpochEnd` + `SetStream` for every cached stream -/
def saveStreams (epochEnd : Bool) : List Stream → State → Res
  | [], s => .ok s
  | st :: rest, s =>
    if epochEnd then
      match saveStreamEnd st.atEpochEnd s with
      | .error e => .error e
      | .ok s1 => saveStreams epochEnd rest s1
    else saveStreams epochEnd rest (setStream s st)

/-- `slices.SortFunc(streams, CmpStreams)` (fix D2): ids are distinct, so any sorting algorithm gives
    this list -/
def insertById (st : Stream) : List Stream → List Stream
  | [] => [st]
  | x :: xs => if st.id ≤ x.id then st :: x :: xs else x :: insertById st xs

def sortById : List Stream → List Stream
  | [] => []
  | x :: xs => insertById x (sortById xs)

/-- x/streamer `Keeper.Distribute(epochPointers, streams, maxOperations, epochEnd)` -/
def strDistribute (s : State) (epochIds : List Nat) (streams : List Stream) (maxOps : Nat) (epochEnd : Bool) : Res :=
  let (_, c, ps) := ptrLoop s maxOps (sortByDuration epochIds) 0 ⟨sortById streams, [], []⟩ s.ptrs
  let s1 := { s with ptrs := ps }
  let bank? := if c.distributed.isZero then some s1.bank else s1.bank.send streamerAddr incAddr c.distributed
  match bank? with
  | none => .error .err
  | some b =>
    match incDistribute { s1 with bank := b } c.gauges epochEnd with
    | .error e => .error e
    | .ok s2 => saveStreams epochEnd c.streams s2

/-- streamer `EndBlock` -/
def streamerEndBlock (s : State) : Res :=
  strDistribute s [0, 1, 2] (activeStreams s) s.maxIter false

/-! ## Epoch hooks -/

def activeStreamsFor (s : State) (e : Nat) : List Stream := (activeStreams s).filter (·.epochId == e)

/-- streamer `AfterEpochEnd` (returns early, without resetting the pointer, when the epoch has no active stream) -/
def streamerAfterEpochEnd (s : State) (e : Nat) : Res :=
  if (activeStreamsFor s e).isEmpty then .ok s else
  match strDistribute s [e] (activeStreamsFor s e) maxU64 true with
  | .error x => .error x
  | .ok s' => .ok { s' with ptrs := s'.ptrs.set e Pointer.first }

/-- `moveUpcomingStreamToActiveStream` for all due upcoming streams, whatever their epoch identifier
    (iterating a snapshot) -/
def activateDue : List Stream → State → Res
  | [], s => .ok s
  | st :: rest, s =>
    if st.start ≤ s.now then
      match Refs.del s.upcoming st.start st.id with
      | none => .error .err
      | some u =>
        match Refs.add s.active st.start st.id with
        | none => .error .err
        | some a => activateDue rest { s with upcoming := u, active := a }
    else activateDue rest s

def totalWeightOf (rs : List Rec) : Nat := (rs.map (·.weight)).sum

/-- the sponsored part of `UpdateStreamAtEpochStart`: a sponsored stream's `DistributeTo` is overwritten with
    `DistrInfoFromDistribution(sk.GetDistribution())` (records = the distribution's gauges, total weight =
    the sum of their powers; an empty distribution, total weight 0, is valid) -/
def Stream.retarget (st : Stream) (distr : List Rec) : Stream :=
  if st.sponsored then { st with recs := distr, totalWeight := totalWeightOf distr } else st

/-- `UpdateStreamAtEpochStart` for the active streams of the epoch; `Coins.Sub` may panic -/
def startStreams : List Stream → State → Res
  | [], s => .ok s
  | st :: rest, s =>
    match Coins.sub? st.coins st.distributed with
    | none => .error .panic
    | some remain =>
      -- uint64 `NumEpochsPaidOver - FilledEpochs`; QuoInt panics on zero
      let re := st.numEpochs - st.filled
      if re = 0 then .error .panic else
      let st' := { st.retarget s.distr with epochCoins := Coins.quo remain re, ecEmpty := remain.isZero }
      startStreams rest (setStream s st')

/-- streamer `BeforeEpochStart` -/
def streamerBeforeEpochStart (s : State) (e : Nat) : Res :=
  match activateDue (upcomingStreams s) s with
  | .error x => .error x
  | .ok s1 => startStreams (activeStreamsFor s1 e) s1

/-- `checkFinishedGauges` on the pre-distribution copies -/
def checkFinished : List Gauge → State → State
  | [], s => s
  | g :: gs, s =>
    if !g.perpetual && decide (g.numEpochs ≤ g.filled + 1) then
      match getGauge s g.id with
      | some cur => checkFinished gs (setGauge s { cur with status := .finished })
      | none => checkFinished gs s
    else checkFinished gs s

/-- incentives `AfterEpochEnd` for the distribution epoch (week) -/
def incAfterEpochEnd (s : State) (e : Nat) : Res :=
  if e != 2 then .ok s else
  let s1 := { s with gauges := s.gauges.map (fun g =>
      if g.status == .upcoming && decide (g.start ≤ s.now) then { g with status := .active } else g) }
  let act := s1.gauges.filter (·.status == .active)
  match incDistribute s1 act true with
  | .error x => .error x
  | .ok s2 => .ok (checkFinished act s2)

/-- a hook runs in a cache context: on error the state is kept (`ApplyFuncIfNoError`) -/
def applyHook (f : State → Res) (s : State) : State :=
  match f s with
  | .ok s' => s'
  | .error _ => s

/-- osmosis x/epochs `BeginBlocker` for one epoch info -/
def epochTick (s : State) (e : Nat) : State :=
  match s.epochs[e]? with
  | none => s
  | some ep =>
    if s.now < ep.startTime then s else
    let initial := !ep.started
    if !(decide (ep.curStart + ep.dur < s.now) || initial) then s else
    if initial then
      let s1 := { s with epochs := s.epochs.set e { ep with started := true, curStart := ep.startTime } }
      applyHook (fun x => streamerBeforeEpochStart x e) s1
    else
      let s1 := applyHook (fun x => streamerAfterEpochEnd x e) s
      let s2 := applyHook (fun x => incAfterEpochEnd x e) s1
      let s3 := { s2 with epochs := s2.epochs.set e { ep with curStart := ep.curStart + ep.dur } }
      applyHook (fun x => streamerBeforeEpochStart x e) s3

/-- `begin dt`: new block at `now + dt`, the epochs BeginBlocker over day, hour, week -/
def beginBlock (s : State) (dt : Nat) : State :=
  let s0 := { s with now := s.now + dt }
  epochTick (epochTick (epochTick s0 0) 1) 2

/-! ## Messages / proposals -/

def lockableDurations : List Nat := [1, 3600, 10800, 25200, 60]

/-- `MsgCreateGauge` (asset): ValidateBasic, then `CreateAssetGauge` -/
def createGauge (s : State) (owner : Nat) (perpetual : Bool) (denom duration : Nat) (denomHasSupply : Bool)
    (coins : Coins) (start numEpochs : Nat) : Out × State :=
  if start = 0 || numEpochs = 0 || (perpetual && numEpochs != 1) then (.invalid, s) else
  if !lockableDurations.contains duration then (.err, s) else
  if !denomHasSupply then (.err, s) else
  match s.bank.send owner incAddr coins with
  | none => (.err, s)
  | some b =>
    let g : Gauge := { id := s.gauges.length + 1, kind := .asset denom duration, perpetual := perpetual, coins := coins,
                       distributed := [], start := start, numEpochs := numEpochs, filled := 0, status := .upcoming }
    (.ok, { s with bank := b, gauges := s.gauges ++ [g] })

/-- `CreateRollappGauge` (called by the rollapp-created hook) -/
def createRollappGauge (s : State) (r : Nat) : Out × State :=
  match s.rollapps[r]? with
  | none => (.err, s)
  | some ra =>
    if !ra.exists_ then (.err, s) else
    let g : Gauge := { id := s.gauges.length + 1, kind := .rollapp r, perpetual := true, coins := [],
                       distributed := [], start := 0, numEpochs := 0, filled := 0, status := .upcoming }
    (.ok, { s with gauges := s.gauges ++ [g] })

/-- `MsgAddToGauge` -/
def addToGauge (s : State) (owner gid : Nat) (coins : Coins) : Out × State :=
  if coins.isZero then (.invalid, s) else
  match getGauge s gid with
  | none => (.err, s)
  | some g =>
    if g.isFinished s.now then (.err, s) else
    match s.bank.send owner incAddr coins with
    | none => (.err, s)
    | some b => (.ok, setGauge { s with bank := b } { g with coins := Coins.add g.coins coins })

/-- `validateGauges`: no duplicates, sorted, every gauge exists and is perpetual -/
def validateRecs (s : State) : List Rec → Nat → List Nat → Bool
  | [], _, _ => true
  | r :: rs, last, seen =>
    if seen.contains r.gauge then false else
    if r.gauge < last then false else
    match getGauge s r.gauge with
    | none => false
    | some g => if !g.perpetual then false else validateRecs s rs r.gauge (r.gauge :: seen)

/-- sum over the given streams of coins, and of distributed coins; then `Sub` (may panic) -/
def toDistribute (ss : List Stream) : Option Coins :=
  Coins.sub? (Coins.sumList (ss.map (·.coins))) (Coins.sumList (ss.map (·.distributed)))

/-- `GetModuleToDistributeCoins` of x/streamer: active part and upcoming part are subtracted separately -/
def moduleToDistribute (s : State) : Option Coins :=
  match toDistribute (activeStreams s), toDistribute (upcomingStreams s) with
  | some a, some u => some (Coins.add a u)
  | _, _ => none

/-- `CreateStreamProposal`: ValidateBasic + `CreateStream`.  A sponsored stream ignores the proposal's
    records: its `DistributeTo` is `DistrInfoFromDistribution(sk.GetDistribution())`, not validated (no
    gauge check, total weight 0 allowed) -/
def createStream (s : State) (sponsored : Bool) (coins : Coins) (recs0 : List Rec) (start epochId numEpochs : Nat) : Out × State :=
  if coins.isZero || numEpochs = 0 then (.invalid, s) else
  if !sponsored && !validateRecs s recs0 0 [] then (.err, s) else
  if !sponsored && totalWeightOf recs0 = 0 then (.err, s) else
  let recs := if sponsored then s.distr else recs0
  match moduleToDistribute s with
  | none => (.panic, s)
  | some alloc =>
    match Coins.sub? (s.bank.get streamerAddr) alloc with
    | none => (.panic, s)
    | some free =>
      if !Coins.le coins free then (.err, s) else
      if epochId > 2 then (.err, s) else
      let start' := if start < s.now then s.now else start
      let id := s.streams.length + 1
      let st : Stream := { id := id, recs := recs, totalWeight := totalWeightOf recs, coins := coins, distributed := [],
                           start := start', epochId := epochId, numEpochs := numEpochs, filled := 0,
                           epochCoins := Coins.quo coins numEpochs, ecEmpty := false, sponsored := sponsored }
      match Refs.add s.upcoming start' id with
      | none => (.err, s)
      | some u => (.ok, { s with streams := s.streams ++ [st], upcoming := u })

/-- `moveStreamToFinishedStream` from the given list -/
def moveToFinished (s : State) (fromActive : Bool) (st : Stream) : Option State :=
  match Refs.del (if fromActive then s.active else s.upcoming) st.start st.id with
  | none => none
  | some r =>
    match Refs.add s.finished st.start st.id with
    | none => none
    | some f => if fromActive then some { s with active := r, finished := f } else some { s with upcoming := r, finished := f }

/-- `TerminateStreamProposal`: the list is chosen by the time predicate, not by where the stream is -/
def terminateStream (s : State) (id : Nat) : Out × State :=
  match getStream s id with
  | none => (.err, s)
  | some st =>
    if st.isFinished s.now then (.err, s) else
    match moveToFinished s (st.isActive s.now) st with
    | some s' => (.ok, s')
    | none => (.err, s)

/-- `ReplaceStreamDistributionProposal` -/
def replaceDistr (s : State) (id : Nat) (recs : List Rec) : Out × State :=
  match getStream s id with
  | none => (.err, s)
  | some st =>
    if st.isFinished s.now then (.err, s) else
    if !validateRecs s recs 0 [] then (.err, s) else
    if totalWeightOf recs = 0 then (.err, s) else
    (.ok, setStream s { st with recs := recs, totalWeight := totalWeightOf recs })

/-- the record map of `UpdateDistrRecords` (`recordsMap[GaugeId] = record`), kept sorted by gauge id: the Go
    code fills a map and then `sort.SliceStable`s its values by gauge id (keys are unique, so the result does
    not depend on the map's iteration order) -/
def recPut : List Rec → Rec → List Rec
  | [], r => [r]
  | x :: xs, r =>
    if r.gauge < x.gauge then r :: x :: xs
    else if r.gauge = x.gauge then r :: xs
    else x :: recPut xs r

/-- existing records overwritten / extended by the new ones, zero weights dropped, sorted by gauge id -/
def mergeRecs (old new : List Rec) : List Rec := ((old ++ new).foldl recPut []).filter (·.weight != 0)

/-- `UpdateStreamDistributionProposal` -> `UpdateDistrRecords`: the NEW records are validated, merged into the
    existing ones, and the result goes through `NewDistrInfo` (validated again, positive total weight) -/
def updateDistr (s : State) (id : Nat) (recs : List Rec) : Out × State :=
  match getStream s id with
  | none => (.err, s)
  | some st =>
    if st.isFinished s.now then (.err, s) else
    if !validateRecs s recs 0 [] then (.err, s) else
    let merged := mergeRecs st.recs recs
    if !validateRecs s merged 0 [] then (.err, s) else
    if totalWeightOf merged = 0 then (.err, s) else
    (.ok, setStream s { st with recs := merged, totalWeight := totalWeightOf merged })

/-- `CreatePoolGauge` (`Hooks.AfterPoolCreated`): one perpetual asset gauge per lockable duration on the pool's
    share denom, created by the STREAMER module account with empty coins, starting now; the first failing
    `CreateAssetGauge` ends the loop (the hook only logs the error: gauges created before it stay) -/
def poolGaugesLoop (denom : Nat) (hasSupply : Bool) : List Nat → State → Out × State
  | [], s => (.ok, s)
  | d :: ds, s =>
    match createGauge s streamerAddr true denom d hasSupply [] s.now 1 with
    | (.ok, s') => poolGaugesLoop denom hasSupply ds s'
    | (e, s') => (e, s')

def createPoolGauges (s : State) (denom : Nat) (hasSupply : Bool) : Out × State :=
  poolGaugesLoop denom hasSupply lockableDurations s

/-! ## Top-level operations -/

inductive Op where
  | begin (dt : Nat)
  | end_
  | setMaxIter (n : Nat)
  | fund (addr : Nat) (coins : Coins)
  | locks (ls : List Lock)
  | rollapp (r : Nat) (owner : Nat) (launched : Bool)
  | rollappGauge (r : Nat)
  | createGauge (owner : Nat) (perpetual : Bool) (denom duration : Nat) (hasSupply : Bool) (coins : Coins) (start numEpochs : Nat)
  | addToGauge (owner gid : Nat) (coins : Coins)
  | createStream (sponsored : Bool) (coins : Coins) (recs : List Rec) (start epochId numEpochs : Nat)
  | terminateStream (id : Nat)
  | replaceDistr (id : Nat) (recs : List Rec)
  | updateDistr (id : Nat) (recs : List Rec)
  | distribution (recs : List Rec)
  | poolGauges (denom : Nat) (hasSupply : Bool)
  deriving Repr, Inhabited

def setRollapp (l : List Rollapp) (r : Nat) (x : Rollapp) : List Rollapp :=
  if r < l.length then l.set r x else l ++ List.replicate (r - l.length) ⟨false, 0, false⟩ ++ [x]

def step (s : State) (op : Op) : Out × State :=
  if s.halted then (.halt, s) else
  match op with
  | .begin dt => (.ok, beginBlock s dt)
  | .end_ =>
    -- EndBlock runs on the block's own state: an error is a failed block (the chain halts)
    match streamerEndBlock s with
    | .ok s' => (.ok, s')
    | .error e => (e, { s with halted := true })
  | .setMaxIter n => (.ok, { s with maxIter := n })
  | .fund a c => (.ok, { s with bank := s.bank.credit a c })
  | .locks ls => (.ok, { s with locks := ls })
  | .rollapp r o l => (.ok, { s with rollapps := setRollapp s.rollapps r ⟨true, o, l⟩ })
  | .rollappGauge r => createRollappGauge s r
  | .createGauge o p d du hs c st n => createGauge s o p d du hs c st n
  | .addToGauge o g c => addToGauge s o g c
  | .createStream sp c rs st e n => createStream s sp c rs st e n
  | .terminateStream id => terminateStream s id
  | .replaceDistr id rs => replaceDistr s id rs
  | .updateDistr id rs => updateDistr s id rs
  | .distribution rs => (.ok, { s with distr := rs })
  | .poolGauges d hs => createPoolGauges s d hs

def run (s : State) : List Op → State
  | [] => s
  | op :: ops => run (step s op).2 ops

/-- the state right after `reset`: three epoch infos starting now, pointers at the last gauge -/
def init (now : Nat) (maxIter : Nat) : State :=
  { now := now, maxIter := maxIter,
    epochs := [⟨86400, now, false, now⟩, ⟨3600, now, false, now⟩, ⟨604800, now, false, now⟩] }

end DymVerif.Incent
