/-
  Model/IroPlans — M-IRO-PLANS: the thin multi-plan layer over M-IRO (Model/Iro, ONE plan with its
  traders) — the x/iro store with MANY plans and the chain restart.  Core Lean only.

  * `tab : Genesis.IroState` is the x/iro store skeleton exactly as Model/Genesis has it: the plan
    section keyed by `PlanKey(fmt.Sprintf("%d", id))` (so it is walked in LEXICAL order 1,10,11,2,…),
    the by-rollapp index, and the `LastPlanId` counter.  The `body` of a stored plan is the number of
    the rollapp slot whose single-plan world (`slot k : Iro.State`) carries all the other fields.
  * slot `k` = one rollapp of the trace with its own owner / traders / denoms: everything that
    `Iro.State` describes.  Slots share the block time, the module parameters, and the store `tab`.
  * `MOp.on op`: one message of M-IRO addressed to the CURRENT slot.  Messages that name a plan id
    (buy, exact-spend, sell, enable, claim, claim-vested) and `Settle` (which goes through
    `GetPlanByRollapp`) are ROUTED through the store as the Go code does it: the id the holders know
    (the by-rollapp entry) is looked up in the plan section; if the record found there belongs to
    another rollapp (the plan was overwritten) the result is `lost`.  `create` takes the id from
    `GetNextPlanIdAndIncrement` and writes the record with `SetPlan` (`Genesis.iroStep … .create`),
    which REPLACES whatever is stored under that id.
  * `MOp.restart`: ExportGenesis → InitGenesis AS THE GO CODE DOES IT (`Genesis.exportIro` walks the
    plan section in key order; `Genesis.importIro` re-sets the plans one by one and sets
    `LastPlanId` to the maximum id of the list).
  * `minit cfg base`: the application the trace starts on already holds `base` plans of earlier
    rollapps (ids 1..base, created through the same write path).
-/
import DymVerif.Model.Iro
import DymVerif.Model.Genesis
namespace DymVerif.IroPlans
open DymVerif DymVerif.Iro DymVerif.Genesis

/-- rollapp id of slot `k` of the trace -/
def raKey (k : Nat) : Bytes := 1 :: decKey k
/-- rollapp id of the `i`-th plan that existed before the trace -/
def foreignKey (i : Nat) : Bytes := 0 :: decKey i

structure MState where
  tab : IroState
  slot : Nat → State
  nslots : Nat := 1
  cur : Nat := 0

/-- result of one multi-plan op -/
inductive MRes
  | r (e : Err)      -- the result of the single-plan message
  | lost             -- the plan id known for the rollapp resolves to another rollapp's plan (or to nothing)
  | badSlot          -- no such rollapp in this trace
  deriving DecidableEq, Repr, Inhabited

def MRes.str : MRes → String
  | .r e => e.str
  | .lost => "lost"
  | .badSlot => "badslot"

inductive MOp
  | newra              -- a further rollapp is registered and becomes the current slot
  | sel (k : Nat)      -- make slot k current (bookkeeping of the test, no message)
  | on (op : Op)       -- a message of M-IRO for the current slot
  | restart            -- ExportGenesis → InitGenesis

/-- the store before the trace: `base` plans created one after the other -/
def baseTab (base : Nat) : IroState :=
  iroRun ((List.range base).map fun i => IroOp.create (foreignKey i) 0)

def minit (cfg : Cfg) (base : Nat) : MState :=
  { tab := baseTab base, slot := fun _ => init cfg }

def updSlot (f : Nat → State) (k : Nat) (s : State) : Nat → State := fun j => if j = k then s else f j

/-- `GetPlanByRollapp`'s first half: the plan id stored for the rollapp of slot `k` -/
def slotPlanId (m : MState) (k : Nat) : Option Nat := kvGet (plansByRollappKey (raKey k)) m.tab.byRollapp

/-- `GetPlan(id)` for the id the holders of slot `k` know finds that rollapp's own plan -/
def routed (m : MState) (k : Nat) : Bool :=
  match slotPlanId m k with
  | none => true     -- no plan known: the message names an id nobody has
  | some id =>
    match kvGet (planKey id) m.tab.plans with
    | some p => decide (p.rollapp = raKey k)
    | none => false

/-- messages that reach their plan through the store -/
def viaStore : Op → Bool
  | .buy .. | .bes .. | .sell .. | .enable .. | .claim .. | .claimv .. | .settle .. => true
  | _ => false

def isTime : Op → Bool
  | .time .. => true
  | _ => false

def isCreate : Op → Bool
  | .create .. => true
  | _ => false

/-- the single-plan message that this multi-plan op applies to slot `k` (`none`: slot untouched) -/
def slotOp (m : MState) (k : Nat) : MOp → Option Op
  | .on op =>
    if isTime op then some op                      -- block time is shared by all slots
    else if m.cur ≠ k then none
    else if isCreate op then
      (if kvHas (plansByRollappKey (raKey k)) m.tab.byRollapp then none else some op)
    else if viaStore op && !routed m k then none
    else some op
  | _ => none

def mstep (I : Nat → Int → Int) (T : Nat → Int → Int → Option Int) (m : MState) : MOp → MState × MRes
  | .newra => ({ m with nslots := m.nslots + 1, cur := m.nslots }, .r .ok)
  | .sel k => if k < m.nslots then ({ m with cur := k }, .r .ok) else (m, .badSlot)
  | .restart => ({ m with tab := importIro (exportIro m.tab) }, .r .ok)
  | .on op =>
    let k := m.cur
    if isTime op then
      ({ m with slot := fun j => (step (I j) (T j) (m.slot j) op).1 }, .r (step (I k) (T k) (m.slot k) op).2)
    else if isCreate op then
      -- msgServer.CreatePlan: "plan already exists" is decided on the by-rollapp index
      if kvHas (plansByRollappKey (raKey k)) m.tab.byRollapp then (m, .r .rej)
      else
        let r := step (I k) (T k) (m.slot k) op
        ({ m with slot := updSlot m.slot k r.1,
                  tab := if r.2 = .ok then iroStep m.tab (.create (raKey k) k) else m.tab }, .r r.2)
    else if viaStore op && !routed m k then (m, .lost)
    else
      let r := step (I k) (T k) (m.slot k) op
      ({ m with slot := updSlot m.slot k r.1 }, .r r.2)

def mrun (I : Nat → Int → Int) (T : Nat → Int → Int → Option Int) (m : MState) (ops : List MOp) : MState :=
  ops.foldl (fun s o => (mstep I T s o).1) m

/-- the single-plan messages a multi-plan history applies to slot `k`, in order -/
def slotOps (I : Nat → Int → Int) (T : Nat → Int → Int → Option Int) (k : Nat) : MState → List MOp → List Op
  | _, [] => []
  | m, o :: os =>
    match slotOp m k o with
    | some op => op :: slotOps I T k (mstep I T m o).1 os
    | none => slotOps I T k (mstep I T m o).1 os

end DymVerif.IroPlans
