/-
  Model/Genesis — genesis export / import of the custom modules other than x/rollapp + x/sequencer
  (those are in Model/CoreGenesis): x/iro, x/lockup, x/delayedack, x/eibc, x/incentives, x/streamer,
  x/sponsorship, x/dymns, x/lightclient.  Core Lean only.

  Part (a): a KV-store section as a list of (key, value) strictly sorted by a strict total order on the
  keys (`kvSet` = `store.Set`, `kvDel` = `store.Delete`, iteration = the list), `exportVals` /
  `importVals`, and the id counters (`maxId`, `lastId`).
  Part (b): per module `export<M> : <M>State → <M>Genesis` and `import<M> : <M>Genesis → <M>State`
  written from the module's genesis.go AS IT IS (index rebuilds, status filters, sorts, refunds and
  recomputations included).  Each state keeps only what matters for the round trip.
-/
import DymVerif.Base.Base64
import DymVerif.Model.Keys
namespace DymVerif.Genesis
open DymVerif

/-! ## (a) keyed collections -/

/-- a strict total order given as a Bool relation -/
structure StrictOrder {κ : Type} (lt : κ → κ → Bool) : Prop where
  irrefl : ∀ a, lt a a = false
  trans : ∀ a b c, lt a b = true → lt b c = true → lt a c = true
  tri : ∀ a b, lt a b = false → lt b a = false → a = b

/-- one section of a KV store in iteration order -/
abbrev KV (κ β : Type) := List (κ × β)

def ltNat (a b : Nat) : Bool := decide (a < b)

/-- lexicographic order on composite keys (first component, then second) -/
def ltPair {κ₁ κ₂ : Type} [DecidableEq κ₁] (lt₁ : κ₁ → κ₁ → Bool) (lt₂ : κ₂ → κ₂ → Bool) (a b : κ₁ × κ₂) : Bool :=
  lt₁ a.1 b.1 || (decide (a.1 = b.1) && lt₂ a.2 b.2)

section kv
variable {κ β : Type} (lt : κ → κ → Bool)

/-- strictly sorted by key = the iteration order of a store (in particular keys are unique) -/
def Sorted (s : KV κ β) : Prop := s.Pairwise (fun a b => lt a.1 b.1 = true)

/-- `store.Set(k, v)`: insert at the key's place, replacing whatever is under the key -/
def kvSet (k : κ) (v : β) : KV κ β → KV κ β
  | [] => [(k, v)]
  | e :: rest =>
    if lt k e.1 then (k, v) :: e :: rest
    else if lt e.1 k then e :: kvSet k v rest
    else (k, v) :: rest

/-- `store.Delete(k)` -/
def kvDel [DecidableEq κ] (k : κ) (s : KV κ β) : KV κ β := s.filter (fun e => decide (e.1 ≠ k))

/-- `store.Get(k)` -/
def kvGet [DecidableEq κ] (k : κ) (s : KV κ β) : Option β := (s.find? (fun e => decide (e.1 = k))).map (·.2)

/-- `store.Has(k)` -/
def kvHas [DecidableEq κ] (k : κ) (s : KV κ β) : Bool := s.any (fun e => decide (e.1 = k))

/-- the values in store order (what an `ExportGenesis` that walks the section returns) -/
def exportVals (s : KV κ β) : List β := s.map (·.2)

/-- an `InitGenesis` loop that writes a derived record `(kf x, vf x)` for every item, one by one -/
def importWith {γ : Type} (kf : γ → κ) (vf : γ → β) (items : List γ) : KV κ β :=
  items.foldl (fun s x => kvSet lt (kf x) (vf x) s) []

/-- an `InitGenesis` loop that sets every value under its own key, one by one -/
def importVals (key : β → κ) (vs : List β) : KV κ β := importWith lt key id vs

/-- every entry sits under the key computed from its value -/
def Keyed (key : β → κ) (s : KV κ β) : Prop := ∀ e ∈ s, e.1 = key e.2

end kv

/-- the largest id (0 for none) -/
def maxId (ids : List Nat) : Nat := ids.foldl Nat.max 0

/-- the id of the last element (0 for none) -/
def lastId (ids : List Nat) : Nat := ids.getLast?.getD 0

/-- ASCII decimal digits of `n`, as `fmt.Sprintf("%d", n)` produces them -/
def decDigitsAux : Nat → Nat → Bytes → Bytes
  | 0, _, acc => acc
  | fuel + 1, n, acc => if n < 10 then (48 + n) :: acc else decDigitsAux fuel (n / 10) ((48 + n % 10) :: acc)

def decKey (n : Nat) : Bytes := decDigitsAux (n + 1) n []

/-- parse ASCII decimal digits -/
def decVal (b : Bytes) : Nat := b.foldl (fun a d => a * 10 + (d - 48)) 0

/-- sort values by a key with the byte order (what a store walk over `key v` yields) -/
def insertBy {β : Type} (lt : β → β → Bool) (x : β) : List β → List β
  | [] => [x]
  | y :: ys => if lt y x then y :: insertBy lt x ys else x :: y :: ys

def sortBy {β : Type} (lt : β → β → Bool) (l : List β) : List β := l.foldr (insertBy lt) []

end DymVerif.Genesis
