/-
  Model/Genesis — genesis export / import of the custom modules other than x/rollapp + x/sequencer
  (those are in Model/CoreGenesis): x/iro, x/lockup, x/delayedack, x/eibc, x/incentives, x/streamer,
  x/sponsorship, x/dymns, x/lightclient.  Core Lean only.

  Part (a): a KV-store section as a list of (key, value) strictly sorted by a strict total order on the
  keys (`kvSet` = `store.Set`, `kvDel` = `store.Delete`, iteration = the list), `exportVals` /
  `importVals`, and the id counters (`maxId`, `lastId`).
  Part (b): per module `export<M> : <M>State → <M>Genesis` and `import<M> : <M>Genesis → <M>State`
  written from the module's genesis.go AS IT IS (index rebuilds, status filters, sorts, refunds and
  recomputations included).  Each state keeps only what matters for the round trip.
-/
import DymVerif.Base.Base64
import DymVerif.Model.Keys
import DymVerif.Model.Spons
namespace DymVerif.Genesis
open DymVerif

/-! ## (a) keyed collections -/

/-- a strict total order given as a Bool relation -/
structure StrictOrder {κ : Type} (lt : κ → κ → Bool) : Prop where
  irrefl : ∀ a, lt a a = false
  trans : ∀ a b c, lt a b = true → lt b c = true → lt a c = true
  tri : ∀ a b, lt a b = false → lt b a = false → a = b

/-- one section of a KV store in iteration order -/
abbrev KV (κ β : Type) := List (κ × β)

def ltNat (a b : Nat) : Bool := decide (a < b)

/-- lexicographic order on composite keys (first component, then second) -/
def ltPair {κ₁ κ₂ : Type} [DecidableEq κ₁] (lt₁ : κ₁ → κ₁ → Bool) (lt₂ : κ₂ → κ₂ → Bool) (a b : κ₁ × κ₂) : Bool :=
  lt₁ a.1 b.1 || (decide (a.1 = b.1) && lt₂ a.2 b.2)

section kv
variable {κ β : Type} (lt : κ → κ → Bool)

/-- strictly sorted by key = the iteration order of a store (in particular keys are unique) -/
def Sorted (s : KV κ β) : Prop := s.Pairwise (fun a b => lt a.1 b.1 = true)

/-- `store.Set(k, v)`: insert at the key's place, replacing whatever is under the key -/
def kvSet (k : κ) (v : β) : KV κ β → KV κ β
  | [] => [(k, v)]
  | e :: rest =>
    if lt k e.1 then (k, v) :: e :: rest
    else if lt e.1 k then e :: kvSet k v rest
    else (k, v) :: rest

/-- `store.Delete(k)` -/
def kvDel [DecidableEq κ] (k : κ) (s : KV κ β) : KV κ β := s.filter (fun e => decide (e.1 ≠ k))

/-- `store.Get(k)` -/
def kvGet [DecidableEq κ] (k : κ) (s : KV κ β) : Option β := (s.find? (fun e => decide (e.1 = k))).map (·.2)

/-- `store.Has(k)` -/
def kvHas [DecidableEq κ] (k : κ) (s : KV κ β) : Bool := s.any (fun e => decide (e.1 = k))

/-- the values in store order (what an `ExportGenesis` that walks the section returns) -/
def exportVals (s : KV κ β) : List β := s.map (·.2)

/-- an `InitGenesis` loop that writes a derived record `(kf x, vf x)` for every item, one by one -/
def importWith {γ : Type} (kf : γ → κ) (vf : γ → β) (items : List γ) : KV κ β :=
  items.foldl (fun s x => kvSet lt (kf x) (vf x) s) []

/-- an `InitGenesis` loop that sets every value under its own key, one by one -/
def importVals (key : β → κ) (vs : List β) : KV κ β := importWith lt key id vs

/-- every entry sits under the key computed from its value -/
def Keyed (key : β → κ) (s : KV κ β) : Prop := ∀ e ∈ s, e.1 = key e.2

end kv

/-- the two writes a keeper performs on a section whose key is computed from the stored value -/
inductive StoreOp (κ β : Type)
  | set (v : β)
  | del (k : κ)

def storeStep {κ β : Type} [DecidableEq κ] (lt : κ → κ → Bool) (key : β → κ) (s : KV κ β) : StoreOp κ β → KV κ β
  | .set v => kvSet lt (key v) v s
  | .del k => kvDel k s

/-- any history of writes, from the empty section -/
def storeRun {κ β : Type} [DecidableEq κ] (lt : κ → κ → Bool) (key : β → κ) (ops : List (StoreOp κ β)) : KV κ β :=
  ops.foldl (storeStep lt key) []

/-- the largest id (0 for none) -/
def maxId (ids : List Nat) : Nat := ids.foldl Nat.max 0

/-- the id of the last element (0 for none) -/
def lastId (ids : List Nat) : Nat := ids.getLast?.getD 0

/-- ASCII decimal digits of `n`, as `fmt.Sprintf("%d", n)` produces them -/
def decDigitsAux : Nat → Nat → Bytes → Bytes
  | 0, _, acc => acc
  | fuel + 1, n, acc => if n < 10 then (48 + n) :: acc else decDigitsAux fuel (n / 10) ((48 + n % 10) :: acc)

def decKey (n : Nat) : Bytes := decDigitsAux (n + 1) n []

/-- parse ASCII decimal digits -/
def decVal (b : Bytes) : Nat := b.foldl (fun a d => a * 10 + (d - 48)) 0

/-- sort values by a key with the byte order (what a store walk over `key v` yields) -/
def insertBy {β : Type} (lt : β → β → Bool) (x : β) : List β → List β
  | [] => [x]
  | y :: ys => if lt y x then y :: insertBy lt x ys else x :: y :: ys

def sortBy {β : Type} (lt : β → β → Bool) (l : List β) : List β := l.foldr (insertBy lt) []

/-! ## (b) the modules

Conventions: ids / addresses that are strings or address bytes in the store are `Bytes` under the
byte order `lexLt`; numeric keys stored big-endian (`sdk.Uint64ToBigEndian`) are `Nat`s under `<`
(the two orders agree: `lexLt_be64`, C19).  `body : Nat` stands for all remaining fields of a record,
which both directions copy verbatim.  A `none` result of an import is a panic of `InitGenesis`
(= `InitChain` fails). -/

abbrev ltBB : Bytes × Bytes → Bytes × Bytes → Bool := ltPair lexLt lexLt

/-! ### x/iro (x/iro/genesis.go, keeper/iro.go) -/

structure Plan where
  id : Nat
  rollapp : Bytes
  body : Nat
  deriving DecidableEq, Repr

/-- `types.PlanKey(fmt.Sprintf("%d", id))` = 0x01 "/" decimal id -/
def planKey (id : Nat) : Bytes := [1, 47] ++ decKey id
/-- `types.PlansByRollappKey(rollappId)` = 0x02 "/" rollapp id -/
def plansByRollappKey (r : Bytes) : Bytes := [2, 47] ++ r

structure IroState where
  params : Nat
  plans : KV Bytes Plan         -- planKey id ↦ plan (walked by GetAllPlans: lexical order of the decimal id)
  byRollapp : KV Bytes Nat      -- plansByRollappKey rollapp ↦ plan id
  lastPlanId : Nat
  deriving DecidableEq, Repr

structure IroGenesis where
  params : Nat
  plans : List Plan
  deriving DecidableEq, Repr

/-- `Keeper.SetPlan`: the plan under its id and the by-rollapp entry -/
def setPlan (s : IroState) (p : Plan) : IroState :=
  { s with plans := kvSet lexLt (planKey p.id) p s.plans,
           byRollapp := kvSet lexLt (plansByRollappKey p.rollapp) p.id s.byRollapp }

/-- the counter loop of `InitGenesis`: `lastPlanId := 0; for … { if plan.Id > lastPlanId { lastPlanId = plan.Id } }` -/
def iroInitLastPlanId (ids : List Nat) : Nat := ids.foldl (fun acc id => if id > acc then id else acc) 0

def exportIro (s : IroState) : IroGenesis := { params := s.params, plans := exportVals s.plans }

def importIro (g : IroGenesis) : IroState :=
  let s := g.plans.foldl setPlan { params := g.params, plans := [], byRollapp := [], lastPlanId := 0 }
  { s with lastPlanId := iroInitLastPlanId (g.plans.map (·.id)) }

/-- `GetNextPlanIdAndIncrement` -/
def nextPlanId (s : IroState) : Nat := s.lastPlanId + 1

/-- the two write paths of plans (what the invariant is proved over): `CreatePlan` (refused when the
    rollapp already has a plan; id from the counter) and any later `SetPlan` of a stored plan (buy,
    sell, settle, claim …: id and rollapp unchanged) -/
inductive IroOp
  | create (rollapp : Bytes) (body : Nat)
  | update (id : Nat) (body : Nat)
  | setParams (p : Nat)
  deriving Repr

def iroStep (s : IroState) : IroOp → IroState
  | .create r b =>
    if kvHas (plansByRollappKey r) s.byRollapp then s
    else setPlan { s with lastPlanId := nextPlanId s } ⟨nextPlanId s, r, b⟩
  | .update id b =>
    match kvGet (planKey id) s.plans with
    | some p => setPlan s { p with body := b }
    | none => s
  | .setParams p => { s with params := p }

def iroInit : IroState := { params := 0, plans := [], byRollapp := [], lastPlanId := 0 }
def iroRun (ops : List IroOp) : IroState := ops.foldl iroStep iroInit

/-! ### x/lockup (x/lockup/keeper/genesis.go, lock.go `InitializeAllLocks`, store.go `GetPeriodLocks`)

The lock-reference indexes and the accumulation store are functions of the lock set (rebuilt by
`setLockAndAddLockRefs` / the accumulation loop; C14 compares them with the index-driven queries on
every op, C18's harness after every import), so the state here is the lock section itself. -/

structure Lock where
  id : Nat
  owner : Bytes
  duration : Nat
  endTime : Nat          -- 0 = not unlocking
  coins : List (Bytes × Nat)
  deriving DecidableEq, Repr

def Lock.isUnlocking (l : Lock) : Bool := l.endTime != 0

structure LockupState where
  params : Nat           -- x/params subspace "lockup" (allow list, fee, minimum duration)
  lastLockId : Nat
  locks : KV Nat Lock    -- lockStoreKey(id)
  deriving DecidableEq, Repr

structure LockupGenesis where
  lastLockId : Nat
  locks : List Lock
  deriving DecidableEq, Repr

def lockupDefaultParams : Nat := 0

/-- order of the reference walk `LockIterator`: (duration key, lock id) -/
def ltLockRef (a b : Lock) : Bool := decide (a.duration < b.duration) || (decide (a.duration = b.duration) && decide (a.id < b.id))

/-- `GetPeriodLocks`: the not-unlocking locks in reference order, then the unlocking ones -/
def periodLocks (s : LockupState) : List Lock :=
  sortBy ltLockRef ((exportVals s.locks).filter (fun l => !l.isUnlocking)) ++
  sortBy ltLockRef ((exportVals s.locks).filter (fun l => l.isUnlocking))

def exportLockup (s : LockupState) : LockupGenesis := { lastLockId := s.lastLockId, locks := periodLocks s }

/-- `InitGenesis`: `SetParams(DefaultParams())`, `SetLastLockID`, `InitializeAllLocks` (an error of
    the latter — a reference that already exists, i.e. a repeated lock in the list — is swallowed) -/
def importLockup (g : LockupGenesis) : LockupState :=
  { params := lockupDefaultParams, lastLockId := g.lastLockId, locks := importVals ltNat (·.id) g.locks }

/-! ### x/delayedack (x/delayedack/genesis.go) -/

open Keys in
structure DPacket where
  status : Status
  rollappId : Bytes
  proofHeight : Nat
  ptype : PType
  srcChan : Bytes
  seq : Nat
  receiver : Bytes       -- of the ICS-20 data (`MustGetTransferPacketData`)
  sender : Bytes
  body : Nat
  deriving DecidableEq, Repr

/-- `RollappPacket.RollappPacketKey()` (C19's key builder) -/
def DPacket.key (p : DPacket) : Bytes :=
  Keys.rollappPacketKey p.status p.rollappId p.proofHeight p.ptype p.srcChan p.seq

/-- the `switch packet.Type` of `InitGenesis`: the address a pending packet is indexed under;
    `none` = `panic("invalid rollapp packet type")` -/
def daIndexAddr : Keys.PType → Bytes → Bytes → Option Bytes
  | .onRecv, receiver, _ => some receiver
  | .onAck, _, sender => some sender
  | .onTimeout, _, sender => some sender
  | .undefined, _, _ => none

structure DaState where
  params : Nat
  packets : KV Bytes DPacket            -- packet key ↦ packet
  byAddr : KV (Bytes × Bytes) Unit      -- pending-by-address index: (address, packet key)
  deriving DecidableEq, Repr

structure DaGenesis where
  params : Nat
  packets : List DPacket
  deriving DecidableEq, Repr

def exportDa (s : DaState) : DaGenesis := { params := s.params, packets := exportVals s.packets }

/-- one iteration of the `InitGenesis` loop (no panic) -/
def daInitPacket (s : DaState) (p : DPacket) : DaState :=
  let idx := if p.status = .pending then
      match daIndexAddr p.ptype p.receiver p.sender with
      | some a => kvSet ltBB (a, p.key) () s.byAddr
      | none => s.byAddr
    else s.byAddr
  { s with byAddr := idx, packets := kvSet lexLt p.key p s.packets }

/-- the loop panics on a pending packet of undefined type -/
def daInitPanics (g : DaGenesis) : Bool :=
  g.packets.any fun p => decide (p.status = .pending) && (daIndexAddr p.ptype p.receiver p.sender).isNone

def importDa (g : DaGenesis) : Option DaState :=
  if daInitPanics g then none
  else some (g.packets.foldl daInitPacket { params := g.params, packets := [], byAddr := [] })

/-! ### x/eibc (x/eibc/genesis.go): demand orders with the base64 tracking key; LPs are not exported -/

structure DOrder where
  id : Bytes
  status : Keys.Status
  trackingKey : Bytes      -- raw packet key in the store, base64 text in the genesis file
  body : Nat
  deriving DecidableEq, Repr

def DOrder.key (o : DOrder) : Bytes := Keys.demandOrderKey o.status o.id

structure EibcState where
  params : Nat
  orders : KV Bytes DOrder
  lps : KV Nat Nat         -- on-demand LP records by id
  nextLpId : Nat           -- their id sequence
  deriving DecidableEq, Repr

structure EibcGenesis where
  params : Nat
  orders : List DOrder
  deriving DecidableEq, Repr

/-- `if orderCopy.TrackingPacketKey != "" { … = base64.StdEncoding.EncodeToString([]byte(…)) }` -/
def eibcEncodeKey (k : Bytes) : Bytes := if k ≠ [] then b64enc k else k
/-- `if demandOrderCopy.TrackingPacketKey != "" { decodedKey, err := base64.StdEncoding.DecodeString(…); panic on err }` -/
def eibcDecodeKey (k : Bytes) : Option Bytes := if k ≠ [] then b64dec k else some k

def exportEibc (s : EibcState) : EibcGenesis :=
  { params := s.params,
    orders := (exportVals s.orders).map fun o => { o with trackingKey := eibcEncodeKey o.trackingKey } }

def importEibc (g : EibcGenesis) : Option EibcState :=
  (g.orders.mapM fun o => (eibcDecodeKey o.trackingKey).map fun k => { o with trackingKey := k }).map fun os =>
    { params := g.params, orders := importVals lexLt DOrder.key os, lps := [], nextLpId := 0 }

/-! ### time-classified reference stores: x/incentives gauges and x/streamer streams
(`SetGaugeWithRefKey` / `SetStreamWithRefKey`, `GetNotFinished…`).  A reference store maps a start-time
key to the JSON list of ids under it (append order). -/

structure Item where
  id : Nat
  start : Nat
  perpetual : Bool       -- gauges only (streams: false)
  numEpochs : Nat
  filled : Nat
  body : Nat
  deriving DecidableEq, Repr

abbrev Refs := KV Nat (List Nat)

/-- `add…RefByKey`: append the id to the list under the time key -/
def refAdd (t id : Nat) (r : Refs) : Refs := kvSet ltNat t ((kvGet t r).getD [] ++ [id]) r

/-- all ids in walk order -/
def refIds (r : Refs) : List Nat := r.flatMap (·.2)

def Item.isUpcoming (x : Item) (now : Nat) : Bool := decide (now < x.start)
def Item.isActive (x : Item) (now : Nat) : Bool := decide (x.start ≤ now) && (x.perpetual || decide (x.filled < x.numEpochs))

inductive Cls | upcoming | active | finished
  deriving DecidableEq, Repr

/-- the `if … IsUpcoming … else if … IsActive … else` of `Set…WithRefKey` -/
def Item.cls (x : Item) (now : Nat) : Cls :=
  if x.isUpcoming now then .upcoming else if x.isActive now then .active else .finished

structure RefStore where
  items : KV Nat Item
  upcoming : Refs
  active : Refs
  finished : Refs
  deriving DecidableEq, Repr

def RefStore.empty : RefStore := ⟨[], [], [], []⟩

def RefStore.refs (s : RefStore) : Cls → Refs
  | .upcoming => s.upcoming | .active => s.active | .finished => s.finished

/-- `get…FromIterator`: the records behind a reference walk -/
def RefStore.itemsOf (s : RefStore) (r : Refs) : List Item := (refIds r).filterMap (fun id => kvGet id s.items)

/-- `GetNotFinished…` = active ++ upcoming -/
def RefStore.notFinished (s : RefStore) : List Item := s.itemsOf s.active ++ s.itemsOf s.upcoming

/-- `Set…WithRefKey` (error-free part) -/
def RefStore.setWithRef (now : Nat) (s : RefStore) (x : Item) : RefStore :=
  let s := { s with items := kvSet ltNat x.id x s.items }
  match x.cls now with
  | .upcoming => { s with upcoming := refAdd x.start x.id s.upcoming }
  | .active => { s with active := refAdd x.start x.id s.active }
  | .finished => { s with finished := refAdd x.start x.id s.finished }

/-- `add…RefByKey` fails ("… with same ID exist") when the id is already under the same key: the
    import panics iff two listed records share (class, start time, id) -/
def refDup (now : Nat) (xs : List Item) : Bool :=
  decide ¬ (xs.map fun x => (x.cls now, x.start, x.id)).Nodup

def RefStore.importAll (now : Nat) (xs : List Item) : Option RefStore :=
  if refDup now xs then none else some (xs.foldl (RefStore.setWithRef now) RefStore.empty)

/-- Go `removeValue`: overwrite the first occurrence with the last element and drop the last -/
def swapRemove : List Nat → Nat → List Nat
  | [], _ => []
  | x :: xs, id =>
    if x = id then (match xs.getLast? with | none => [] | some z => z :: xs.dropLast)
    else x :: swapRemove xs id

/-- `delete…RefByKey`: remove the id from the list under the time key; an emptied list deletes the key -/
def refDel (t id : Nat) (r : Refs) : Refs :=
  if (swapRemove ((kvGet t r).getD []) id).isEmpty then kvDel t r
  else kvSet ltNat t (swapRemove ((kvGet t r).getD []) id) r

/-- the write paths of a reference store (what `RsInv` is proved over): creation through
    `Set…WithRefKey` under a fresh id, `moveUpcoming…ToActive…`, `moveActive…ToFinished…`,
    rewriting a stored record without touching id or start time (`setGauge` / `SetStream`), and
    x/streamer's `TerminateStream` (active or upcoming → finished) -/
inductive RsOp
  | create (x : Item)
  | activate (id : Nat)
  | finish (id : Nat)
  | update (y : Item)
  | terminate (id : Nat)
  deriving Repr

def rsStep (now : Nat) (s : RefStore) : RsOp → RefStore
  | .create x => if kvHas x.id s.items then s else s.setWithRef now x
  | .activate id =>
    match kvGet id s.items with
    | some x =>
      if now < x.start then s   -- "… is not able to start distribution yet"
      else if id ∈ (kvGet x.start s.upcoming).getD [] then
        { s with upcoming := refDel x.start id s.upcoming, active := refAdd x.start id s.active }
      else s
    | none => s
  | .finish id =>
    match kvGet id s.items with
    | some x =>
      if id ∈ (kvGet x.start s.active).getD [] then
        { s with active := refDel x.start id s.active, finished := refAdd x.start id s.finished }
      else s
    | none => s
  | .update y =>
    match kvGet y.id s.items with
    | some x => if x.start = y.start then { s with items := kvSet ltNat y.id y s.items } else s
    | none => s
  | .terminate id =>   -- `TerminateStream`: the source class is chosen by the CLOCK, not by where the id is filed
    match kvGet id s.items with
    | some x =>
      if x.isActive now then
        (if id ∈ (kvGet x.start s.active).getD [] then
          { s with active := refDel x.start id s.active, finished := refAdd x.start id s.finished } else s)
      else if x.isUpcoming now then
        (if id ∈ (kvGet x.start s.upcoming).getD [] then
          { s with upcoming := refDel x.start id s.upcoming, finished := refAdd x.start id s.finished } else s)
      else s
    | none => s

/-- any history (each op at its own clock value), from the empty store -/
def rsRun (ops : List (Nat × RsOp)) : RefStore := ops.foldl (fun s o => rsStep o.1 s o.2) RefStore.empty

/-! #### x/incentives (x/incentives/keeper/genesis.go) -/

structure IncState where
  now : Nat              -- block time of the exporting / importing context
  params : Nat
  lockable : List Nat
  lastGaugeId : Nat
  gauges : RefStore
  deriving DecidableEq, Repr

structure IncGenesis where
  params : Nat
  lockable : List Nat
  gauges : List Item
  lastGaugeId : Nat
  deriving DecidableEq, Repr

def exportInc (s : IncState) : IncGenesis :=
  { params := s.params, lockable := s.lockable, gauges := s.gauges.notFinished, lastGaugeId := s.lastGaugeId }

def importInc (now : Nat) (g : IncGenesis) : Option IncState :=
  (RefStore.importAll now g.gauges).map fun rs =>
    { now := now, params := g.params, lockable := g.lockable, lastGaugeId := g.lastGaugeId, gauges := rs }

/-! #### x/streamer (x/streamer/keeper/genesis.go) -/

structure Pointer where
  epochId : Bytes
  streamId : Nat
  gaugeId : Nat
  duration : Nat
  deriving DecidableEq, Repr

/-- `types.NewEpochPointer(identifier, duration)`: MinStreamID / MinGaugeID -/
def newEpochPointer (e : Bytes × Nat) : Pointer := ⟨e.1, 0, 0, e.2⟩

structure StrState where
  now : Nat
  params : Nat
  lastStreamId : Nat
  streams : RefStore
  pointers : KV Bytes Pointer       -- by epoch identifier
  deriving DecidableEq, Repr

structure StrGenesis where
  params : Nat
  streams : List Item
  lastStreamId : Nat
  pointers : List Pointer
  deriving DecidableEq, Repr

def exportStr (s : StrState) : StrGenesis :=
  { params := s.params, streams := s.streams.notFinished, lastStreamId := s.lastStreamId,
    pointers := exportVals s.pointers }

/-- `CmpStreams` as a strict order -/
def ltStream (a b : Item) : Bool := decide (a.id < b.id)

/-- `slices.SortFunc(genState.Streams, CmpStreams)` -/
def strInitSort (xs : List Item) : List Item := sortBy ltStream xs

/-- the two pointer loops: a fresh pointer for every epoch info (x/epochs state at that moment:
    `epochs`, identifier and duration), then the genesis pointers on top -/
def strInitPointers (epochs : List (Bytes × Nat)) (ps : List Pointer) : KV Bytes Pointer :=
  ps.foldl (fun m p => kvSet lexLt p.epochId p m)
    (epochs.foldl (fun m e => kvSet lexLt (newEpochPointer e).epochId (newEpochPointer e) m) [])

def importStr (now : Nat) (epochs : List (Bytes × Nat)) (g : StrGenesis) : Option StrState :=
  (RefStore.importAll now (strInitSort g.streams)).map fun rs =>
    { now := now, params := g.params, lastStreamId := g.lastStreamId, streams := rs,
      pointers := strInitPointers epochs g.pointers }

/-! ### x/sponsorship (x/sponsorship/keeper/genesis.go): votes and per-validator powers are exported;
the distribution is recomputed; endorsements and the claim blacklist are not exported -/

structure SponsState where
  params : Nat
  votes : KV Bytes Spons.Vote               -- voter ↦ vote
  dvp : KV (Bytes × Bytes) Int              -- (voter, validator) ↦ recorded power
  dist : Spons.Dist
  endorsements : List (Bytes × Nat)         -- rollapp ↦ endorsement record
  blacklist : List Bytes                    -- claim blacklist
  deriving DecidableEq, Repr

structure VoterInfo where
  voter : Bytes
  vote : Spons.Vote
  validators : List (Bytes × Int)
  deriving DecidableEq, Repr

structure SponsGenesis where
  params : Nat
  voterInfos : List VoterInfo
  deriving DecidableEq, Repr

/-- `IterateVotes` with the nested `IterateDelegatorValidatorPower(voter)` -/
def exportSpons (s : SponsState) : SponsGenesis :=
  { params := s.params,
    voterInfos := s.votes.map fun e =>
      { voter := e.1, vote := e.2,
        validators := (s.dvp.filter fun d => decide (d.1.1 = e.1)).map fun d => (d.1.2, d.2) } }

/-- one voter of the `ImportGenesis` loop: powers, vote, `distr = distr.Merge(vote.ToDistribution())` -/
def sponsInitVoter (s : SponsState) (i : VoterInfo) : SponsState :=
  let s := i.validators.foldl (fun s v => { s with dvp := kvSet ltBB (i.voter, v.1) v.2 s.dvp }) s
  { s with votes := kvSet lexLt i.voter i.vote s.votes, dist := s.dist.merge i.vote.toDist }

def importSpons (g : SponsGenesis) : SponsState :=
  g.voterInfos.foldl sponsInitVoter
    { params := g.params, votes := [], dvp := [], dist := ⟨0, []⟩, endorsements := [], blacklist := [] }

/-- the recomputed distribution alone -/
def sponsInitDist (votes : List Spons.Vote) : Spons.Dist :=
  votes.foldl (fun d v => d.merge v.toDist) ⟨0, []⟩

/-! ### x/dymns (x/dymns/genesis.go): names with their reverse lookups; open bids and buy orders are
refunded by minting -/

structure DName where
  name : Bytes
  owner : Bytes
  expireAt : Nat
  cfgAddrs : List Bytes    -- keys of `GetAddressesForReverseMapping().configuredAddressesToConfigs`
  fbAddrs : List Bytes     -- keys of `….fallbackAddressesToConfigs`
  body : Nat
  deriving DecidableEq, Repr

structure Refund where
  who : Bytes
  amount : Nat
  deriving DecidableEq, Repr

structure SellOrder where
  name : Bytes
  bid : Option Refund      -- HighestBid
  body : Nat
  deriving DecidableEq, Repr

structure BuyOrder where
  id : Bytes
  buyer : Bytes
  offer : Nat
  counter : Option Nat     -- CounterpartyOfferPrice
  body : Nat
  deriving DecidableEq, Repr

abbrev PairSet := KV (Bytes × Bytes) Unit

structure DymnsState where
  now : Nat
  params : Nat
  grace : Nat                       -- params.Misc.GracePeriodDuration
  names : KV Bytes DName
  ownIdx : PairSet                  -- (owner, name)
  cfgIdx : PairSet                  -- (configured address, name)
  fbIdx : PairSet                   -- (fallback address, name)
  sellOrders : KV Bytes SellOrder
  buyOrders : KV Bytes BuyOrder
  bal : KV Bytes Nat                -- bank balances of the price denom
  modBal : Nat                      -- x/dymns module account
  supply : Nat
  deriving DecidableEq, Repr

structure DymnsGenesis where
  params : Nat
  grace : Nat
  names : List DName
  bids : List Refund
  buyOrders : List BuyOrder
  deriving DecidableEq, Repr

/-- `if dymName.ExpireAt < now - grace { continue }` -/
def DName.kept (d : DName) (now grace : Nat) : Bool := !decide ((d.expireAt : Int) < (now : Int) - (grace : Int))

def exportDymns (s : DymnsState) : DymnsGenesis :=
  { params := s.params, grace := s.grace,
    names := (exportVals s.names).filter fun d => d.kept s.now s.grace,
    bids := (exportVals s.sellOrders).filterMap (·.bid),
    buyOrders := (exportVals s.buyOrders).map fun o => { o with counter := none } }

def setIns (k : Bytes × Bytes) (s : PairSet) : PairSet := kvSet ltBB k () s

/-- `SetDymName`, `AfterDymNameOwnerChanged`, `AfterDymNameConfigChanged` -/
def dymnsInitName (s : DymnsState) (d : DName) : DymnsState :=
  { s with names := kvSet lexLt d.name d s.names,
           ownIdx := setIns (d.owner, d.name) s.ownIdx,
           cfgIdx := d.cfgAddrs.foldl (fun i a => setIns (a, d.name) i) s.cfgIdx,
           fbIdx := d.fbAddrs.foldl (fun i a => setIns (a, d.name) i) s.fbIdx }

/-- `GenesisRefundBid` / `GenesisRefundBuyOrder`: `MintCoins(module, price)` then
    `SendCoinsFromModuleToAccount(module, who, price)` -/
def dymnsRefund (s : DymnsState) (r : Refund) : DymnsState :=
  { s with supply := s.supply + r.amount,
           bal := kvSet lexLt r.who ((kvGet r.who s.bal).getD 0 + r.amount) s.bal }

/-- `InitGenesis` on top of the bank state `bank` (x/bank is initialised before x/dymns) -/
def importDymns (now : Nat) (bal : KV Bytes Nat) (modBal supply : Nat) (g : DymnsGenesis) : DymnsState :=
  let s : DymnsState :=
    { now := now, params := g.params, grace := g.grace, names := [], ownIdx := [], cfgIdx := [],
      fbIdx := [], sellOrders := [], buyOrders := [], bal := bal, modBal := modBal, supply := supply }
  let s := g.names.foldl dymnsInitName s
  let s := g.bids.foldl dymnsRefund s
  (g.buyOrders.map fun o => (⟨o.buyer, o.offer⟩ : Refund)).foldl dymnsRefund s

/-- export followed by import on the same bank state -/
def reimportDymns (s : DymnsState) : DymnsState := importDymns s.now s.bal s.modBal s.supply (exportDymns s)

/-! ### x/lightclient (x/lightclient/keeper/genesis.go) -/

abbrev SignerKey := Bytes × Bytes × Nat      -- (sequencer, client, height)
abbrev ltSigner : SignerKey → SignerKey → Bool := ltPair lexLt (ltPair lexLt ltNat)
abbrev ltCH : Bytes × Nat → Bytes × Nat → Bool := ltPair lexLt ltNat

structure LcState where
  r2c : KV Bytes Bytes               -- RollappClientKey: rollapp ↦ client
  c2r : KV Bytes Bytes               -- CanonicalClientKey: client ↦ rollapp
  signers : KV SignerKey Unit        -- headerSigners
  h2s : KV (Bytes × Nat) Bytes       -- clientHeightToSigner: (client, height) ↦ sequencer
  deriving DecidableEq, Repr

structure LcGenesis where
  clients : List (Bytes × Bytes)     -- (rollapp, client)
  signers : List SignerKey
  deriving DecidableEq, Repr

def exportLc (s : LcState) : LcGenesis := { clients := s.r2c, signers := s.signers.map (·.1) }

/-- `SetCanonicalClient` -/
def lcSetCanonical (s : LcState) (c : Bytes × Bytes) : LcState :=
  { s with r2c := kvSet lexLt c.1 c.2 s.r2c, c2r := kvSet lexLt c.2 c.1 s.c2r }

/-- `SaveSigner` -/
def lcSaveSigner (s : LcState) (k : SignerKey) : LcState :=
  { s with signers := kvSet ltSigner k () s.signers, h2s := kvSet ltCH (k.2.1, k.2.2) k.1 s.h2s }

/-- `GenesisState.Validate`: no empty rollapp id or client id -/
def lcValid (g : LcGenesis) : Bool := g.clients.all fun c => !c.1.isEmpty && !c.2.isEmpty

def importLc (g : LcGenesis) : Option LcState :=
  if lcValid g then
    some (g.signers.foldl lcSaveSigner (g.clients.foldl lcSetCanonical ⟨[], [], [], []⟩))
  else none

end DymVerif.Genesis
