/-
  Model/CoreGenesis — genesis export / import of x/rollapp and x/sequencer (x/rollapp/genesis.go,
  x/sequencer/genesis.go) over M-Core.  The Go genesis is flat (rollapp records, state infos keyed by
  (rollapp, index), latest / latest-finalized indices, queue, liveness events, sequencer-height
  pairs, obsolete versions, params; sequencers, proposers, successors, notice queue); `exportCore`
  flattens the model state the same way and `importCore` rebuilds the keeper state from the lists
  exactly as `InitGenesis` does (set each record under its key).
-/
import DymVerif.Model.Core
namespace DymVerif.Core

/-- `types.Rollapp` as stored (without the state infos, which have their own store) -/
structure GRollapp where
  id : Nat
  owner : Addr
  minBond : Nat
  launched : Bool
  revs : List (Nat × Nat)
  tph : Nat
  evH : Nat
  cdStart : Nat
  deriving DecidableEq, Repr

structure CoreGenesis where
  h : Nat
  t : Nat
  p : Params
  sqp : SeqParams                              -- x/sequencer genesis params
  rollapps : List GRollapp
  stateInfos : List (Nat × Nat × SInfo)        -- (rollapp, index, state info), in store order
  latestIdx : List (Nat × Nat)                 -- LatestStateInfoIndexList
  finIdx : List (Nat × Nat)                    -- LatestFinalizedStateIndexList (only when set)
  queue : List QEntry
  lev : List (Nat × Nat)
  seqH : List (Addr × Nat)
  obsolete : List Nat
  seqs : List Seq
  proposers : List (Nat × Addr)                -- GenesisProposers (real ones; sentinel entries carry no information)
  successors : List (Nat × Addr)
  nq : List Addr                               -- NoticeQueue (addresses; the time is in the sequencer record)
  bal : List (Addr × Nat)
  modBal : Nat
  burned : Nat
  deriving Repr

def indexed (l : List SInfo) (ra : Nat) : List (Nat × Nat × SInfo) :=
  (List.range l.length).zip l |>.map fun x => (ra, x.1 + 1, x.2)

def gOf (r : Rollapp) : GRollapp :=
  { id := r.id, owner := r.owner, minBond := r.minBond, launched := r.launched,
    revs := r.revs, tph := r.tph, evH := r.evH, cdStart := r.cdStart }

/-- `ExportGenesis` of both modules -/
def exportCore (s : St) : CoreGenesis :=
  { h := s.h, t := s.t, p := s.p, sqp := s.sqp,
    rollapps := s.ras.map gOf,
    stateInfos := s.ras.flatMap fun r => indexed r.states r.id,
    latestIdx := (s.ras.filter fun r => !r.states.isEmpty).map fun r => (r.id, r.states.length),
    finIdx := (s.ras.filter fun r => r.lastFin != 0).map fun r => (r.id, r.lastFin),
    queue := s.queue, lev := s.lev, seqH := s.seqH, obsolete := s.obsolete,
    seqs := s.seqs,
    proposers := s.ras.filterMap fun r => r.proposer.map fun a => (r.id, a),
    successors := s.ras.filterMap fun r => r.successor.map fun a => (r.id, a),
    nq := s.nq.map (·.2),
    bal := s.bal, modBal := s.modBal, burned := s.burned }

def lookup (l : List (Nat × Nat)) (k : Nat) : Option Nat := (l.find? (·.1 == k)).map (·.2)

/-- the keeper's view of one rollapp after `InitGenesis` wrote every record under its own key -/
def importRollapp (g : CoreGenesis) (r : GRollapp) : Rollapp :=
  { id := r.id, owner := r.owner, minBond := r.minBond, launched := r.launched, revs := r.revs,
    states := ((g.stateInfos.filter fun x => x.1 == r.id).map (·.2.2)).take ((lookup g.latestIdx r.id).getD 0),
    lastFin := (lookup g.finIdx r.id).getD 0,
    tph := r.tph, evH := r.evH, cdStart := r.cdStart,
    proposer := lookup g.proposers r.id, successor := lookup g.successors r.id }

/-- `AddToNoticeQueue(GetSequencer(addr))` for every exported address -/
def importNq (seqs : List Seq) (addrs : List Addr) : List (Nat × Addr) :=
  addrs.filterMap fun a => (seqs.find? (·.addr == a)).bind fun q => q.notice.map fun t => (t, a)

/-- `InitGenesis` of both modules -/
def importCore (g : CoreGenesis) : St :=
  { h := g.h, t := g.t, p := g.p, sqp := g.sqp,
    ras := g.rollapps.map (importRollapp g),
    seqs := g.seqs, queue := g.queue, seqH := g.seqH, lev := g.lev, obsolete := g.obsolete,
    nq := importNq g.seqs g.nq,
    bal := g.bal, modBal := g.modBal, burned := g.burned }

/-- export followed by import on the model state -/
def reimport (s : St) : St := importCore (exportCore s)

end DymVerif.Core
