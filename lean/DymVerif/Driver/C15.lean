import DymVerif.Driver.Common
import DymVerif.Model.Incent
import DymVerif.Lemmas.IncentDue
/-
  Driver/C15 — line-protocol driver of M-Incent.  One op per line; the observation is the op's
  outcome class followed by the canonical state (`ok | t=… P=… G=… S=… U=… A=… F=… B=…`).
  `lock` / `unlock` / `xferowner` / `delegate` / `vote` / `revoke` lines are not model ops (answered with
  `harness-only`); the sponsorship distribution they produce reaches the model through a `distribution` line.
  `forceowner r a` (harness-only as well) writes a rollapp's owner straight into the real rollapp store (fault
  injection: since fix F4 no message hands a rollapp to a blocked address); the `rollapp` line after it tells the model.
  Every `begin` / `end` line with outcome `ok` carries two more fields, computed by the SPECIFICATION functions of
  Lemmas/IncentDue on the state BEFORE the op: `D=[a:c0,c1 …]` = `blockDue` of every candidate account (actors,
  lock owners, rollapp owners; the two module accounts 100/101 excluded) and `H=[gid:c0,c1 …]` = `blockHandout` of
  every gauge id distributed in the block, non-zero entries only.  The harness prints the real balance deltas and
  the real deltas of the gauges' distributed coins there.
-/
namespace DymVerif.Driver.C15
open DymVerif DymVerif.Incent DymVerif.Driver

structure DState where
  s : State := {}
  nd : Nat := 2       -- number of reward denoms printed
  na : Nat := 6       -- number of actor accounts printed
  deriving Inhabited

def coins! (t : String) : Coins :=
  if t = "-" then [] else (t.splitOn ",").map nat!

def recs! (t : String) : List Rec :=
  if t = "-" then [] else (t.splitOn ",").map (fun x =>
    match x.splitOn ":" with
    | [g, w] => ⟨nat! g, nat! w⟩
    | _ => ⟨0, 0⟩)

def lock! (t : String) : Lock :=
  match t.splitOn ":" with
  | [o, d, a, du] => ⟨nat! o, nat! d, nat! a, nat! du⟩
  | _ => ⟨0, 0, 0, 0⟩

def showCoins (nd : Nat) (c : Coins) : String :=
  ",".intercalate ((List.range nd).map (fun i => toString (Coins.amt c i)))

def showIds (l : List Nat) : String := if l.isEmpty then "-" else ",".intercalate (l.map toString)

def showRecs (rs : List Rec) : String :=
  if rs.isEmpty then "-" else "+".intercalate (rs.map (fun r => s!"{r.gauge}*{r.weight}"))

def showPtr (p : Pointer) : String :=
  if p.streamId = maxU64 && p.gaugeId = maxU64 then "L" else s!"{p.streamId}/{p.gaugeId}"

def showStatus : GStatus → String
  | .upcoming => "u" | .active => "a" | .finished => "f"

def showState (d : DState) : String :=
  let s := d.s
  let g := " ".intercalate (s.gauges.map (fun g =>
    s!"{g.id}:{showStatus g.status}:{g.filled}:{showCoins d.nd g.coins}:{showCoins d.nd g.distributed}"))
  let st := " ".intercalate (s.streams.map (fun x =>
    s!"{x.id}:{x.filled}/{x.numEpochs}:{showCoins d.nd x.coins}:{showCoins d.nd x.distributed}:{showCoins d.nd x.epochCoins}:{if x.ecEmpty then "E" else "N"}:{if x.sponsored then "s" else "n"}:{x.totalWeight}:{showRecs x.recs}"))
  -- fresh addresses (200.., rollapp owners without an account of their own): ascending, non-zero balances only
  let fresh := ((s.bank.filter (fun p => decide (p.1 ≥ 200) && !p.2.isZero)).map (·.1)).mergeSort (· ≤ ·)
  let b := " ".intercalate (((List.range d.na) ++ [streamerAddr, incAddr] ++ fresh).map (fun a => s!"{a}:{showCoins d.nd (s.bank.get a)}"))
  let e := ",".intercalate (s.epochs.map (fun ep => toString ep.curStart))
  s!"t={s.now} it={s.maxIter} E={e} P={",".intercalate (s.ptrs.map showPtr)} G=[{g}] S=[{st}] U={showIds s.upcoming.ids} A={showIds s.active.ids} F={showIds s.finished.ids} B=[{b}]"

def dedupSorted (l : List Nat) : List Nat := (l.mergeSort (· ≤ ·)).eraseDups

/-- ` D=[…] H=[…]`: what the specification (`blockDue` / `blockHandout`, i.e. `dueG` / `dueTotal` summed over the
    gauge values `gs` the block distributes) says every account is due and every gauge hands out, read in the
    state before the op -/
def showDue (d : DState) (gs : List Gauge) : String :=
  let s := d.s
  let cand := dedupSorted (((List.range d.na) ++ s.locks.map (·.owner) ++ s.rollapps.map (·.owner)).filter
    (fun a => a != streamerAddr && a != incAddr))
  let row (k : Nat) (f : Nat → Nat) : Option String :=
    let c := (List.range d.nd).map f
    if c.all (· == 0) then none else some s!"{k}:{",".intercalate (c.map toString)}"
  let ds := cand.filterMap (fun a => row a (blockDue s gs a))
  let hs := (dedupSorted (gs.map (·.id))).filterMap (fun gid => row gid (blockHandout s gs gid))
  s!" D=[{" ".intercalate ds}] H=[{" ".intercalate hs}]"

def parseOp (f : List String) : Option Op :=
  match f with
  | ["begin", dt] => some (.begin (nat! dt))
  | ["end"] => some .end_
  | ["maxiter", n] => some (.setMaxIter (nat! n))
  | ["fund", a, c] => some (.fund (nat! a) (coins! c))
  | "locks" :: ls => some (.locks ((ls.filter (· ≠ "-")).map lock!))
  | ["rollapp", r, o, l] => some (.rollapp (nat! r) (nat! o) (l = "1"))
  | ["rgauge", r] => some (.rollappGauge (nat! r))
  | ["mkgauge", o, p, dn, du, c, st, n] =>
      some (.createGauge (nat! o) (p = "1") (nat! dn) (nat! du) (decide (nat! dn < 2)) (coins! c) (nat! st) (nat! n))
  | ["addgauge", o, g, c] => some (.addToGauge (nat! o) (nat! g) (coins! c))
  | ["mkstream", c, rs, st, e, n] => some (.createStream false (coins! c) (recs! rs) (nat! st) (nat! e) (nat! n))
  | ["mkstream", c, rs, st, e, n, "s"] => some (.createStream true (coins! c) (recs! rs) (nat! st) (nat! e) (nat! n))
  | ["update", id, rs] => some (.updateDistr (nat! id) (recs! rs))
  | ["distribution", rs] => some (.distribution (recs! rs))
  | ["poolgauges", dn, hs] => some (.poolGauges (nat! dn) (hs = "1"))
  | ["term", id] => some (.terminateStream (nat! id))
  | ["replace", id, rs] => some (.replaceDistr (nat! id) (recs! rs))
  | _ => none

def step (d : DState) (f : List String) : DState × String :=
  match f with
  | ["reset", now, mi, nd, na] =>
    let d' : DState := { s := init (nat! now) (nat! mi), nd := nat! nd, na := nat! na }
    (d', "ok | " ++ showState d')
  -- harness-only lines: executed on the real lockup / rollapp module only (their effect reaches the model
  -- through the `locks` / `rollapp` line that follows)
  | "lock" :: _ | "unlock" :: _ | "xferowner" :: _ | "forceowner" :: _ | "delegate" :: _ | "vote" :: _ | "revoke" :: _ => (d, "harness-only")
  | _ =>
    match parseOp f with
    | none => (d, "bad-op")
    | some op =>
      let (o, s') := Incent.step d.s op
      let d' := { d with s := s' }
      match o, op with
      | .halt, _ => (d', "halt")
      | .ok, .begin dt => (d', "ok | " ++ showState d' ++ showDue d (beginGauges d.s dt))
      | .ok, .end_ => (d', "ok | " ++ showState d' ++ showDue d (endGauges d.s))
      | .ok, _ => (d', "ok | " ++ showState d')
      | e, .end_ => (d', "halt " ++ e.str)
      | e, _ => (d', e.str ++ " | " ++ showState d')

def drv : Drv := { σ := DState, init := {}, step := step }

end DymVerif.Driver.C15
