import DymVerif.Driver.Common
import DymVerif.Driver.Core
import DymVerif.Model.LC
import DymVerif.Model.LCTx
import DymVerif.Model.LCAdmin
namespace DymVerif.Driver.C09
open DymVerif DymVerif.LC DymVerif.Driver
open DymVerif.Driver.Core (kv kvN idx! joinWith b2s)

structure DState where
  st : LC.St
  nActors : Nat
  nRollapps : Nat
  deriving Inhabited

def coreD (d : DState) : Driver.Core.DState := { st := d.st.core, nActors := d.nActors, nRollapps := d.nRollapps }

def natList (s : String) : List Nat := if s = "-" || s = "" then [] else (s.splitOn ",").map nat!

def optNatList (s : String) : List (Option Nat) :=
  if s = "" then [] else (s.splitOn ",").map fun x => if x = "-" then none else some (nat! x)

/-- "a3" ↦ 3, "x2" ↦ 1002 (a key no sequencer registered) -/
def actorTok (s : String) : Nat := if s.startsWith "x" then 1000 + idx! s else idx! s

/-- the validator set `vals` (actor:power:signs,…) is the single-validator set (power 1) of actor `pd` -/
def soleOf (vals pd : String) : Bool :=
  match vals.splitOn "," with
  | [v] => (match v.splitOn ":" with
    | [a, p, _] => a == pd && p == "1"
    | _ => false)
  | _ => false

def wrapOf : String → Wrap
  | "wrapped" => .wrapped
  | "nested" => .nested
  | "nestedwrapped" => .nestedWrapped
  | "group" => .storedProposal
  | _ => .top

def routeOf : String → ChanRoute
  | "nested" => .nestedAck
  | "confirm" => .confirm
  | _ => .ack

def mkindOf : String → MKind
  | "submitNested" => .submitNested
  | "viaUpdate" => .viaUpdate
  | "viaUpdateNested" => .viaUpdateNested
  | "viaWrapped" => .viaWrapped
  | "viaWrappedNested" => .viaWrappedNested
  | "submitGroup" => .submitStored
  | "viaUpdateGroup" => .viaUpdateStored
  | _ => .submit

def chainOf (d : DState) (s : String) : Nat :=
  if s.startsWith "r" then (let i := idx! s; if i < d.nRollapps then i else 100000 + i) else 100

def parseOp (d : DState) (f : List String) : Option Op :=
  match f with
  | "lc_create" :: _ =>
    some (.createClient (chainOf d (kv f "chain"))
      ⟨kvN f "tl", kvN f "tp", kvN f "ub", kvN f "dr", natList (kv f "specs"), natList (kv f "path")⟩
      (kvN f "h") ⟨kvN f "root", kvN f "ts", kvN f "nv"⟩)
  | "lc_setcanon" :: c :: _ => some (.setCanonical (idx! c))
  | "lc_update" :: c :: _ =>
    some (.updateClient (idx! c) (wrapOf (kv f "w"))
      ⟨kvN f "h", ⟨kvN f "root", kvN f "ts", kvN f "nv"⟩, actorTok (kv f "ps"), actorTok (kv f "pd"), kvN f "rev", soleOf (kv f "vals") (kv f "pd")⟩ (kv f "ibc" = "1"))
  | "lc_misb" :: c :: _ => some (.misbehaviour (idx! c) (mkindOf (kv f "k")) (kv f "ibc" = "1"))
  | "lc_chaninit" :: c :: _ => some (.chanInit (idx! c))
  | "lc_chanack" :: ch :: _ => some (.chanAck (nat! (ch.drop 2).toString) (routeOf (kv f "w")) (kv f "ibc" = "1"))
  | _ =>
    match Driver.Core.parseOp (coreD d) f with
    | none => none
    | some o =>
      let roots := natList (kv f "roots")
      let tss := optNatList (kv f "tss")
      some (.core o (roots.zipIdx.map fun (r, i) => (r, (tss[i]?).getD none)))

def lerrName : LErr → String
  | .notFound => "notFound" | .rollappNotFound => "rollappNotFound" | .alreadyExists => "alreadyExists" | .params => "params"
  | .paramsPanic => "paramsPanic" | .noState => "noState" | .noMatch => "noMatch" | .root => "root" | .ts => "ts" | .nextVal => "nextVal"
  | .internal => "internal" | .proposerMismatch => "proposerMismatch" | .nonSequencer => "nonSequencer" | .foreignSequencer => "foreignSequencer" | .validatorSet => "validatorSet" | .unbonded => "unbonded"
  | .revision => "revision" | .misbehaviourDisabled => "misbehaviourDisabled" | .nestedDisabled => "nestedDisabled"
  | .chanExists => "chanExists" | .chanUnknown => "chanUnknown" | .ibc => "ibc" | .noSigner => "noSigner" | .unbondBlocked => "unbondBlocked"
  | .mixedTx => "mixedTx" | .forkNoClient => "forkNoClient" | .forkNoCons => "forkNoCons" | .resolveHeight => "resolveHeight" | .staleDesc => "staleDesc"
  | .core _ => "core"

def resName (isUpd : Bool) : Res → String
  | .ok => "ok"
  | .ante e => "ante:" ++ lerrName e
  | .msg (.core e) => if isUpd then Driver.Core.updClass e else "err"
  | .msg e => "lc:" ++ lerrName e

def insNat (x : Nat × Nat) : List (Nat × Nat) → List (Nat × Nat)
  | [] => [x]
  | y :: ys => if Core.ltPair x y then x :: y :: ys else y :: insNat x ys

def lt3 (a b : Nat × Nat × Nat) : Bool := a.1 < b.1 || (a.1 == b.1 && (a.2.1 < b.2.1 || (a.2.1 == b.2.1 && a.2.2 < b.2.2)))
def ins3 (x : Nat × Nat × Nat) : List (Nat × Nat × Nat) → List (Nat × Nat × Nat)
  | [] => [x]
  | y :: ys => if lt3 x y then x :: y :: ys else y :: ins3 x ys

def renderLC (s : LC.St) : String :=
  let cls := joinWith ";" (s.clients.map fun c =>
    let cons := joinWith "," (c.cons.map fun x => s!"{x.1}/{x.2.root}/{x.2.ts}/{x.2.nextVal}")
    s!"{c.id}:{c.chain}:{b2s c.frozen}:{c.latest}:{cons}")
  let r2c := joinWith "," ((s.r2c.foldl (fun acc x => insNat x acc) []).map fun x => s!"{x.1}>{x.2}")
  let c2r := joinWith "," ((s.c2r.foldl (fun acc x => insNat x acc) []).map fun x => s!"{x.1}>{x.2}")
  let ss := joinWith "," ((s.signerSet.foldl (fun acc x => ins3 x acc) []).map fun x => s!"{x.1}:{x.2.1}:{x.2.2}")
  let sm := joinWith "," ((s.signerMap.foldl (fun acc x => ins3 x acc) []).map fun x => s!"{x.1}:{x.2.1}:{x.2.2}")
  let chof := joinWith "," ((s.chanOf.foldl (fun acc x => insNat x acc) []).map fun x => s!"{x.1}>{x.2}")
  let chans := joinWith "," (s.chans.map fun c => s!"{c.id}:{c.client}:{b2s c.isOpen}")
  let descs := joinWith "," ((s.descs.foldl (fun acc d => ins3 (d.ra, d.h, 0) acc) []).map fun k =>
    match s.descs.find? (fun d => d.ra == k.1 && d.h == k.2.1) with
    | some d => s!"{d.ra}:{d.h}:{d.root}:{match d.ts with | some t => toString t | none => "-"}"
    | none => "?")
  s!" || cl={cls} | r2c={r2c} c2r={c2r} | ss={ss} sm={sm} | chof={chof} chans={chans} | descs={descs}"

def render (d : DState) (res : String) : String :=
  Driver.Core.render d.st.core res d.nActors ++ renderLC d.st

def step (d : DState) (f : List String) : DState × String :=
  match f with
  | "reset" :: _ =>
    let p := Driver.Core.paramsOf f
    let d' : DState := { st := LC.init p, nActors := kvN f "actors", nRollapps := kvN f "rollapps" }
    (d', render d' "ok")
  | _ =>
    match parseOp d f with
    | none => (d, "bad-op")
    | some op =>
      let (s', r) := LC.step d.st op
      let isUpd := match op with | .core (.update _) _ => true | _ => false
      let d' := { d with st := s' }
      (d', render d' (resName isUpd r))

/-- the sub-op token lists of a `tx` line (separator `;;`) -/
def splitSubs (f : List String) : List (List String) :=
  (f.foldr (fun t acc => if t == ";;" then [] :: acc else
    match acc with
    | [] => [[t]]
    | x :: xs => (t :: x) :: xs) [[]]).filter (fun l => !l.isEmpty)

/-- the sub-ops that can travel in a `tx` line (harness/c09_tx.go) -/
def txSub (d : DState) (f : List String) : Option Op :=
  match f with
  | "update" :: _ => parseOp d f
  | "lc_update" :: _ => if kv f "w" = "group" then none else parseOp d f
  | "lc_misb" :: _ => if (kv f "k").endsWith "Group" then none else parseOp d f
  | "lc_setcanon" :: _ => parseOp d f
  | "lc_chanack" :: _ => if kv f "ibc" = "0" && (kv f "w" = "" || kv f "w" = "top") then parseOp d f else none
  | _ => none

def parseTx (d : DState) (rest : List String) : Option (List Op) :=
  match splitSubs rest with
  | [] => none
  | subs => subs.mapM (txSub d)

/-- `tx …`: several messages in one transaction (`Model/LCTx.lean`) -/
def stepTx (d : DState) (rest : List String) : DState × String :=
  match parseTx d rest with
  | none => (d, render d "bad-op")
  | some ms =>
    let (s', r) := LC.txStep d.st ms
    let d' := { d with st := s' }
    (d', render d' (resName true r))

/-- `lc_upgrade` / `lc_recover` (`Model/LCAdmin.lean`) -/
def stepAdmin (d : DState) (o : AOp) : DState × String :=
  let (s', r) := LC.astep d.st o
  let d' := { d with st := s' }
  (d', render d' (resName false r))

def stepAll (d : DState) (f : List String) : DState × String :=
  let (d', out) := match f with
    | "tx" :: rest => stepTx d rest
    | "lc_recover" :: c :: _ => stepAdmin d (.recover (idx! c) (idx! (kv f "sub")))
    | "lc_upgrade" :: c :: _ =>
      stepAdmin d (.upgrade (idx! c) ⟨chainOf d (kv f "chain"), kvN f "h", kvN f "ts", kvN f "nv"⟩ (kv f "ibc" = "1"))
    | _ => step d f
  -- the side condition of `agreement_inv` (`SafeRun` / `CoveredRun`), evaluated in every state of every trace
  if LC.coveredB d'.st then (d', out) else (d', "model-invariant-broken: a descriptor of M-LC outside every state info of M-Core | " ++ out)

def drv : Drv := { σ := DState, init := default, step := stepAll }

end DymVerif.Driver.C09
